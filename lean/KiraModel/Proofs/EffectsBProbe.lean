/-
  EffectsBProbe.lean — the probe effects of the correspondence suite satisfy what the delay theorems ask
  of a feedback chain (length-preserving, chunk-free; silent and linear when their offsets are zero).
  Used for the non-vacuity examples of C13_b / C14_b.
-/
import KiraModel.Proofs.EffectsBDelay

namespace K
namespace ProbeFx

theorem process_length (p : ProbeFx ℝ) (xs : List (Frame ℝ)) : (p.process xs).2.length = xs.length := by
  induction xs generalizing p with
  | nil => rfl
  | cons x xs ih => simp [process, ih]

theorem process_append (p : ProbeFx ℝ) (xs ys : List (Frame ℝ)) :
    p.process (xs ++ ys) = (((p.process xs).1.process ys).1, (p.process xs).2 ++ ((p.process xs).1.process ys).2) := by
  induction xs generalizing p with
  | nil => simp [process]
  | cons x xs ih => simp [process, ih]

theorem chainProcess_length (s : List (ProbeFx ℝ)) (xs : List (Frame ℝ)) :
    (chainProcess s xs).2.length = xs.length := by
  induction s generalizing xs with
  | nil => rfl
  | cons p ps ih => simp [chainProcess, ih, process_length]

theorem chainProcess_append (s : List (ProbeFx ℝ)) (xs ys : List (Frame ℝ)) :
    chainProcess s (xs ++ ys)
      = ((chainProcess (chainProcess s xs).1 ys).1, (chainProcess s xs).2 ++ (chainProcess (chainProcess s xs).1 ys).2) := by
  induction s generalizing xs ys with
  | nil => simp [chainProcess]
  | cons p ps ih => simp [chainProcess, process_append, ih]

/-- every chain of probe effects is a good feedback chain -/
theorem chain_good (dt : ℝ) (info : Info ℝ) : (chain : FxChain ℝ (List (ProbeFx ℝ))).Good dt info :=
  ⟨fun s xs => chainProcess_length s xs, fun s xs ys => chainProcess_append s xs ys⟩

/-- a probe effect with no offset and no feedback multiplies every frame by its gain, whatever its state -/
theorem process_gain_only (p : ProbeFx ℝ) (ho : p.offset = 0) (hf : p.feedback = 0) (xs : List (Frame ℝ)) :
    (p.process xs).2 = xs.map (fun f => f.scale p.gain) := by
  induction xs generalizing p with
  | nil => rfl
  | cons x xs ih =>
    have h1 : (p.step x).1.offset = 0 := ho
    have h2 : (p.step x).1.feedback = 0 := hf
    have h3 : (p.step x).1.gain = p.gain := rfl
    have h4 : (p.step x).2 = x.scale p.gain := by
      ext <;> simp [step, chan, ho, hf]
    simp only [process, List.map_cons, ih _ h1 h2, h3, h4]

/-- a probe effect at rest with no offset -/
def Quiet (p : ProbeFx ℝ) : Prop := p.offset = 0 ∧ p.prev = Frame.zero

theorem process_quiet (p : ProbeFx ℝ) (hp : p.Quiet) (n : ℕ) :
    (p.process (List.replicate n Frame.zero)).1 = p
      ∧ (p.process (List.replicate n Frame.zero)).2 = List.replicate n Frame.zero := by
  induction n with
  | zero => exact ⟨rfl, rfl⟩
  | succ n ih =>
    obtain ⟨h1, h2⟩ := hp
    have hstep : p.step Frame.zero = (p, Frame.zero) := by
      have e : ({ left := 0, right := 0 } : Frame ℝ) = Frame.zero := by ext <;> simp
      cases p
      simp_all [step, chan, e]
    simp only [List.replicate_succ, process, hstep]
    exact ⟨ih.1, by rw [ih.2]⟩

theorem chain_silent (dt : ℝ) (info : Info ℝ) :
    Delay.SilentChain (chain : FxChain ℝ (List (ProbeFx ℝ))) dt info (fun s => ∀ p ∈ s, p.Quiet) := by
  intro s n hs
  show (∀ p ∈ (chainProcess s _).1, p.Quiet) ∧ (chainProcess s _).2 = _
  induction s with
  | nil => simp [chainProcess]
  | cons p ps ih =>
    have hp := process_quiet p (hs p (by simp)) n
    have := ih (fun q hq => hs q (by simp [hq]))
    simp only [chainProcess, hp.1, hp.2]
    refine ⟨?_, this.2⟩
    intro q hq
    simp only [List.mem_cons] at hq
    rcases hq with rfl | hq
    · exact hs _ (by simp)
    · exact this.1 q hq

end ProbeFx
end K
