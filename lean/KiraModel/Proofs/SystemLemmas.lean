/-
  SystemLemmas.lean — the whole-system model (Model/System.lean) keeps the scratch-buffer invariant of C02
  (`Renderer.Clean`) under everything that can happen to it, and a generic ghost-log wrapper of a component
  record (`Comps.logged`) used to state "each frame exactly once" for components that keep no log themselves.
  Generic in the number type.
-/
import KiraModel.Proofs.SystemLenLemmas
import KiraModel.Proofs.FlowLemmas

set_option linter.unusedSectionVars false

namespace K

variable {α : Type} [Add α] [Sub α] [Mul α] [Div α] [Neg α] [LT α] [LE α]
  [DecidableLT α] [DecidableLE α] [OfScientific α] [KOps α]

/-! ### ghost call logs -/

section logged
variable {S E P : Type}

/-- the same components, each carrying a ghost list of the slice lengths it has been asked for; the log is
    written, never read: the first components evolve exactly as the unlogged ones (`logged_erase_*`) -/
def Comps.logged (C : Comps α S E P) : Comps α (S × List Nat) (E × List Nat) P :=
  { sndStep := fun s buf dt info =>
      (((C.sndStep s.1 buf dt info).1, s.2 ++ [buf.length]), (C.sndStep s.1 buf dt info).2)
    sndStart := fun s => (C.sndStart s.1, s.2)
    sndFinished := fun s => C.sndFinished s.1
    fxStep := fun e buf dt info =>
      (((C.fxStep e.1 buf dt info).1, e.2 ++ [buf.length]), (C.fxStep e.1 buf dt info).2)
    fxStart := fun e => (C.fxStart e.1, e.2)
    spStep := C.spStep, spInfo := C.spInfo, spStart := C.spStart }

theorem Comps.logged_erase_snd (C : Comps α S E P) (s : S × List Nat) (buf : List (Frame α)) (dt : α) (info : Info α) :
    ((C.logged.sndStep s buf dt info).1.1, (C.logged.sndStep s buf dt info).2) = C.sndStep s.1 buf dt info := rfl
theorem Comps.logged_erase_fx (C : Comps α S E P) (e : E × List Nat) (buf : List (Frame α)) (dt : α) (info : Info α) :
    ((C.logged.fxStep e buf dt info).1.1, (C.logged.fxStep e buf dt info).2) = C.fxStep e.1 buf dt info := rfl

theorem Comps.logged_lenPres (C : Comps α S E P) (h : C.LenPres) : C.logged.LenPres :=
  ⟨fun s buf dt info => h.snd s.1 buf dt info, fun e buf dt info => h.fx e.1 buf dt info, h.sp⟩

theorem Comps.logged_logging (C : Comps α S E P) : C.logged.Logging Prod.snd Prod.snd :=
  ⟨fun _ _ _ _ => rfl, fun _ _ _ _ => rfl⟩

end logged

/-! ### `Clean` under the operations of Model/System.lean -/

section clean
variable {S E P : Type}

theorem Trk.mapComps_clean (ibs : Nat) (fs : S → S) (fe : E → E) (t : Trk α S E P) :
    Trk.Clean ibs t → Trk.Clean ibs (Trk.mapComps fs fe t) := by
  refine Trk.rec (motive_1 := fun t => Trk.Clean ibs t → Trk.Clean ibs (Trk.mapComps fs fe t))
    (motive_2 := fun ts => Trk.CleanList ibs ts → Trk.CleanList ibs (Trk.mapCompsList fs fe ts)) ?_ ?_ ?_ t
  · intro d children pending ihc ihp h
    obtain ⟨hd, hc, hp⟩ := h
    rw [Trk.mapComps]; exact ⟨hd, ihc hc, ihp hp⟩
  · intro _; simp [Trk.mapCompsList, Trk.CleanList]
  · intro t ts iht ihts h
    rw [Trk.mapCompsList]; exact ⟨iht h.1, ihts h.2⟩

theorem Trk.mapCompsList_clean (ibs : Nat) (fs : S → S) (fe : E → E) (ts : List (Trk α S E P))
    (h : Trk.CleanList ibs ts) : Trk.CleanList ibs (Trk.mapCompsList fs fe ts) := by
  induction ts with
  | nil => simp [Trk.mapCompsList, Trk.CleanList]
  | cons t ts ih => rw [Trk.mapCompsList]; exact ⟨Trk.mapComps_clean ibs fs fe t h.1, ih h.2⟩

theorem Trk.mapArenaFx_clean (ibs : Nat) (f : E → E) (t : Trk α S E P) :
    Trk.Clean ibs t → Trk.Clean ibs (Trk.mapArenaFx f t) := by
  refine Trk.rec (motive_1 := fun t => Trk.Clean ibs t → Trk.Clean ibs (Trk.mapArenaFx f t))
    (motive_2 := fun ts => Trk.CleanList ibs ts → Trk.CleanList ibs (Trk.mapArenaFxList f ts)) ?_ ?_ ?_ t
  · intro d children pending ihc _ h
    obtain ⟨hd, hc, hp⟩ := h
    rw [Trk.mapArenaFx]; exact ⟨hd, ihc hc, hp⟩
  · intro _; simp [Trk.mapArenaFxList, Trk.CleanList]
  · intro t ts iht ihts h
    rw [Trk.mapArenaFxList]; exact ⟨iht h.1, ihts h.2⟩

theorem Trk.mapArenaFxList_clean (ibs : Nat) (f : E → E) (ts : List (Trk α S E P))
    (h : Trk.CleanList ibs ts) : Trk.CleanList ibs (Trk.mapArenaFxList f ts) := by
  induction ts with
  | nil => simp [Trk.mapArenaFxList, Trk.CleanList]
  | cons t ts ih => rw [Trk.mapArenaFxList]; exact ⟨Trk.mapArenaFx_clean ibs f t h.1, ih h.2⟩

theorem Mixer.mapComps_clean (ibs : Nat) (fs : S → S) (fe : E → E) (m : Mixer α S E P) (h : Mixer.Clean ibs m) :
    Mixer.Clean ibs (m.mapComps fs fe) := by
  refine ⟨h.temp, h.main, Trk.mapCompsList_clean ibs fs fe _ h.subs, Trk.mapCompsList_clean ibs fs fe _ h.pending, ?_, ?_⟩
  · intro s hs
    simp only [Mixer.mapComps, List.mem_map] at hs
    obtain ⟨s0, hs0, rfl⟩ := hs
    exact h.sends s0 hs0
  · intro s hs
    simp only [Mixer.mapComps, List.mem_map] at hs
    obtain ⟨s0, hs0, rfl⟩ := hs
    exact h.pendingSends s0 hs0

theorem Mixer.mapArenaFx_clean (ibs : Nat) (f : E → E) (m : Mixer α S E P) (h : Mixer.Clean ibs m) :
    Mixer.Clean ibs (m.mapArenaFx f) := by
  refine ⟨h.temp, h.main, Trk.mapArenaFxList_clean ibs f _ h.subs, h.pending, ?_, h.pendingSends⟩
  intro s hs
  simp only [Mixer.mapArenaFx, List.mem_map] at hs
  obtain ⟨s0, hs0, rfl⟩ := hs
  exact h.sends s0 hs0

theorem Trk.buildV_clean (id : Nat) (v : Value α α) (fx : List E) (sends : List (Nat × Value α α)) (persist : Bool)
    (ibs : Nat) : Trk.Clean ibs (Trk.buildV (S := S) (P := P) id v fx sends persist ibs) := by
  simp [Trk.buildV, Trk.Clean, Trk.CleanList]

theorem Mixer.newV_clean (v : Value α α) (fx : List E) (ibs : Nat) :
    Mixer.Clean ibs (Mixer.newV (S := S) (P := P) v fx ibs) :=
  ⟨rfl, rfl, trivial, trivial, by simp [Mixer.newV], by simp [Mixer.newV]⟩

theorem Mixer.hPlayMain_clean (ibs : Nat) (x : S) (m : Mixer α S E P) (h : Mixer.Clean ibs m) :
    Mixer.Clean ibs (m.hPlayMain x) := ⟨h.temp, h.main, h.subs, h.pending, h.sends, h.pendingSends⟩

theorem Mixer.hSetMainVolume_clean (ibs : Nat) (v : Value α α) (tw : Tween α) (m : Mixer α S E P)
    (h : Mixer.Clean ibs m) : Mixer.Clean ibs (m.hSetMainVolume v tw) :=
  ⟨h.temp, h.main, h.subs, h.pending, h.sends, h.pendingSends⟩

end clean

/-! ### the system -/

namespace System
variable {n : Nat}

/-- the invariant of the whole-system model: C02's clean scratch buffers and a usable buffer size -/
def Ok (s : System α n) : Prop := s.r.Clean ∧ 1 ≤ s.r.ibs

theorem new_ok (fuel ibs sr : Nat) (hibs : 1 ≤ ibs) (v : Value α α) (fx : List (SysFx α n)) :
    (System.new fuel ibs sr v fx).Ok :=
  ⟨⟨rfl, Mixer.newV_clean v _ ibs⟩, hibs⟩

theorem withMixer_ok (s : System α n) (f : Mixer α (SysSnd α) (SysFx α n) (SysSpatial α) → Mixer α (SysSnd α) (SysFx α n) (SysSpatial α))
    (hf : ∀ m, Mixer.Clean s.r.ibs m → Mixer.Clean s.r.ibs (f m)) (h : s.Ok) : (s.withMixer f).Ok :=
  ⟨⟨h.1.1, hf _ h.1.2⟩, h.2⟩

theorem withEnv_ok (s : System α n) (f : SysEnv α → SysEnv α) (h : s.Ok) : (s.withEnv f).Ok := h

theorem changeRate_ok (s : System α n) (sr : Nat) (h : s.Ok) : (s.changeRate sr).Ok :=
  ⟨⟨h.1.1, Mixer.mapArenaFx_clean _ _ _ h.1.2⟩, h.2⟩

theorem addSubTrack_ok (s : System α n) (parent : Option Nat) (id : Nat) (v : Value α α) (fx : List (SysFx α n))
    (sends : List (Nat × Value α α)) (persist : Bool) (h : s.Ok) : (s.addSubTrack parent id v fx sends persist).Ok := by
  unfold System.addSubTrack
  cases parent with
  | none => exact withMixer_ok s _ (fun m hm => Mixer.hAddSubTrack_clean _ _ (Trk.buildV_clean ..) m hm) h
  | some p =>
    exact withMixer_ok s _ (fun m hm => Mixer.mapTrack_clean _ p _
      (fun t ht => Trk.hAddSubTrack_clean _ _ t (Trk.buildV_clean ..) ht) m hm) h

theorem addSpatialSubTrack_ok (s : System α n) (parent : Option Nat) (id : Nat) (sp : SysSpatial α) (v : Value α α)
    (fx : List (SysFx α n)) (sends : List (Nat × Value α α)) (persist : Bool) (h : s.Ok) :
    (s.addSpatialSubTrack parent id sp v fx sends persist).Ok := by
  unfold System.addSpatialSubTrack
  have hb : ∀ fx' : List (SysFx α n), Trk.Clean s.r.ibs (Trk.mapData (fun d => { d with spatial := some sp })
      (Trk.buildV (S := SysSnd α) (P := SysSpatial α) id v fx' sends persist s.r.ibs)) :=
    fun fx' => Trk.mapData_clean _ _ (fun _ => rfl) _ (Trk.buildV_clean id v fx' sends persist s.r.ibs)
  cases parent with
  | none => exact withMixer_ok s _ (fun m hm => Mixer.hAddSubTrack_clean _ _ (hb _) m hm) h
  | some p =>
    exact withMixer_ok s _ (fun m hm => Mixer.mapTrack_clean _ p _
      (fun t ht => Trk.hAddSubTrack_clean _ _ t (hb _) ht) m hm) h

theorem addSendTrack_ok (s : System α n) (id : Nat) (v : Value α α) (fx : List (SysFx α n)) (h : s.Ok) :
    (s.addSendTrack id v fx).Ok :=
  withMixer_ok s _ (fun m hm => Mixer.hAddSendTrack_clean _ _ rfl m hm) h

theorem play_ok (s : System α n) (track : Option Nat) (id : Nat) (d : StaticSoundData α) (s' : System α n)
    (hp : s.play track id d = .ok s') (h : s.Ok) : s'.Ok := by
  unfold System.play at hp
  split at hp
  · cases hp
  · cases track with
    | none =>
      simp only [Except.ok.injEq] at hp; subst hp
      exact withMixer_ok s _ (fun m hm => Mixer.hPlayMain_clean _ _ m hm) h
    | some t =>
      simp only [Except.ok.injEq] at hp; subst hp
      exact withMixer_ok s _ (fun m hm => Mixer.mapTrack_clean _ t _
        (fun t ht => Trk.mapData_clean (S := SysSnd α) _
          (fun d => { d with pendingSounds := d.pendingSounds ++ [(⟨id, _, none⟩ : SysSnd α)] }) (fun _ => rfl) t ht) m hm) h

theorem soundCommand_ok (s : System α n) (sid : Nat) (c : Command α) (h : s.Ok) : (s.soundCommand sid c).Ok :=
  withMixer_ok s _ (fun m hm => Mixer.mapComps_clean _ _ _ m hm) h

theorem fxCommand_ok (s : System α n) (eid : Nat) (c : FxCmd α) (h : s.Ok) : (s.fxCommand eid c).Ok :=
  withMixer_ok s _ (fun m hm => Mixer.mapComps_clean _ _ _ m hm) h

/-- a `TrackHandle` method: it edits the data of one track and leaves the scratch buffer alone -/
theorem trackOp_ok (s : System α n) (id : Nat) (g : TrkData α (SysSnd α) (SysFx α n) (SysSpatial α) → TrkData α (SysSnd α) (SysFx α n) (SysSpatial α))
    (hg : ∀ d, (g d).temp = d.temp) (h : s.Ok) : (s.withMixer (Mixer.mapTrack id (Trk.mapData g))).Ok :=
  withMixer_ok s _ (fun m hm => Mixer.mapTrack_clean _ id _ (fun t ht => Trk.mapData_clean _ g hg t ht) m hm) h

theorem setMainVolume_ok (s : System α n) (v : Value α α) (tw : Tween α) (h : s.Ok) :
    (s.withMixer (Mixer.hSetMainVolume v tw)).Ok :=
  withMixer_ok s _ (fun m hm => Mixer.hSetMainVolume_clean _ v tw m hm) h

theorem sendOp_ok (s : System α n) (id : Nat) (f : SendTrk α (SysFx α n) → SendTrk α (SysFx α n))
    (hf : ∀ x, (f x).input = x.input) (h : s.Ok) : (s.withMixer (Mixer.mapSend id f)).Ok :=
  withMixer_ok s _ (fun m hm => Mixer.mapSend_clean _ id f hf m hm) h

end System

end K
