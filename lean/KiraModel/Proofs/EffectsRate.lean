/-
  EffectsRate.lean — helper lemmas for the effect part of C16: histories of rate changes /
  `on_start_processing` / process calls of a delay, and what they preserve (line length, delay time,
  any property of the nested effects that their own `process` preserves).
-/
import KiraModel.Proofs.EffectsBDelay
import Mathlib.Algebra.Order.Floor.Semiring

namespace K

variable {φ : Type}

/-- `⌊x·sr⌋` frames last `x` seconds to within one frame, at every rate -/
theorem natFloor_frames_seconds (x : ℝ) (hx : 0 ≤ x) (sr : ℕ) (hsr : 0 < sr) :
    (⌊x * (sr : ℝ)⌋₊ : ℝ) / sr ≤ x ∧ x < ((⌊x * (sr : ℝ)⌋₊ : ℝ) + 1) / sr := by
  have hpos : (0 : ℝ) < sr := by exact_mod_cast hsr
  constructor
  · rw [div_le_iff₀ hpos]
    exact Nat.floor_le (mul_nonneg hx hpos.le)
  · rw [lt_div_iff₀ hpos]
    exact Nat.lt_floor_add_one _

namespace Delay
open LineFx

/-- the sub-chunk loop keeps the line length and every property of the nested effects' state that the
    nested effects' own `process` keeps (any parameter states) -/
theorem chunks_inv (C : FxChain ℝ φ) (fb mx : Parameter ℝ ℝ) (dt : ℝ) (info : Info ℝ)
    (hlen : ∀ s xs, (C.process s xs dt info).2.length = xs.length)
    (P : φ → Prop) (hP : ∀ s xs, P s → P (C.process s xs dt info).1) (tempLen L : ℕ) :
    ∀ (fuel : ℕ) (st : List (Frame ℝ) × φ) (xs : List (Frame ℝ)) r, st.1.length = L → P st.2 →
      chunks C fb mx dt info tempLen L fuel st xs = .ok r → r.1.1.length = L ∧ P r.1.2 := by
  intro fuel
  induction fuel with
  | zero =>
    intro st xs r hst hp h
    cases xs with
    | nil => simp [chunks] at h; rw [← h]; exact ⟨hst, hp⟩
    | cons x xs => simp [chunks] at h
  | succ fuel ih =>
    intro st xs r hst hp h
    cases xs with
    | nil => simp [chunks] at h; rw [← h]; exact ⟨hst, hp⟩
    | cons x xs =>
      rw [chunks] at h
      by_cases hoob : tempLen < ((x :: xs).take L).length
      · rw [if_pos hoob] at h; cases h
      · rw [if_neg hoob] at h
        have hcl : ((x :: xs).take L).length ≤ st.1.length := by
          rw [hst]; simp only [List.length_take]; exact Nat.min_le_left _ _
        have hb := chunkPure_buf_length C fb mx dt info hlen st _ hcl
        have hp' : P (chunkPure C fb mx dt info st ((x :: xs).take L)).1.2 := hP _ _ hp
        dsimp only at h
        split at h
        · rename_i st2 o2 heq
          have := ih _ _ (st2, o2) (by rw [hb, hst]) hp' heq
          cases h
          exact this
        · cases h

/-- a successful process call keeps the line length, the delay time, the temp-buffer size and every
    property of the nested effects that their own `process` keeps -/
theorem process_inv (C : FxChain ℝ φ) (d : Delay ℝ φ) (xs : List (Frame ℝ)) (dt : ℝ) (info : Info ℝ)
    (hlen : ∀ s ys, (C.process s ys dt info).2.length = ys.length)
    (P : φ → Prop) (hP : ∀ s ys, P s → P (C.process s ys dt info).1) (hp : P d.fx)
    (r : Delay ℝ φ × List (Frame ℝ)) (h : d.process C xs dt info = .ok r) :
    r.1.buffer.length = d.buffer.length ∧ r.1.delayNs = d.delayNs ∧ r.1.tempLen = d.tempLen ∧ P r.1.fx := by
  unfold Delay.process at h
  dsimp only at h
  split at h
  · cases h
  · split at h
    · rename_i st o heq
      have := chunks_inv C _ _ dt info hlen P hP d.tempLen d.buffer.length xs.length (d.buffer, d.fx) xs
        (st, o) rfl hp heq
      cases h
      exact ⟨this.1, rfl, rfl, this.2⟩
    · cases h

end Delay

/-- what can happen to an effect between `init` and an observation (audio thread) -/
inductive RateEvent where
  /-- `Effect::on_change_sample_rate(sr)` -/
  | rate (sr : ℕ)
  /-- `Effect::on_start_processing()` -/
  | start
  /-- `Effect::process(xs, dt, info)` (one that does not panic) -/
  | proc (xs : List (Frame ℝ)) (dt : ℝ) (info : Info ℝ)

/-- one event on (delay, sample rate in force); `none` when the process call faults -/
noncomputable def Delay.applyEvent (C : FxChain ℝ φ) (st : Delay ℝ φ × ℕ) : RateEvent → Option (Delay ℝ φ × ℕ)
  | .rate sr => some (st.1.changeRate C sr, sr)
  | .start => some (st.1.startProcessing C, st.2)
  | .proc xs dt info =>
    match st.1.process C xs dt info with
    | .ok r => some (r.1, st.2)
    | .error _ => none

/-- the nested effects expose the rate they believe in (`known`), and every callback treats it as the
    trait contract says: `init` / `on_change_sample_rate` store the new rate, nothing else touches it -/
structure FxChain.TracksRate (C : FxChain ℝ φ) (known : φ → ℕ) : Prop where
  init : ∀ s sr ibs, known (C.init s sr ibs) = sr
  change : ∀ s sr, known (C.changeRate s sr) = sr
  start : ∀ s, known (C.startProcessing s) = known s
  proc : ∀ s xs dt info, known (C.process s xs dt info).1 = known s

/-- the invariant of every history: line length = `frames(delay, rate in force)`, delay time untouched, and any
    relation `Q` between the nested effects' state and the rate in force that a rate change establishes and
    `on_start_processing` / `process` keep -/
theorem Delay.history_inv (C : FxChain ℝ φ) (Q : φ → ℕ → Prop)
    (hQrate : ∀ s sr, Q (C.changeRate s sr) sr)
    (hQstart : ∀ s sr, Q s sr → Q (C.startProcessing s) sr)
    (hQproc : ∀ s sr xs dt info, Q s sr → Q (C.process s xs dt info).1 sr)
    (hlen : ∀ dt info s xs, (C.process s xs dt info).2.length = xs.length)
    (ns : ℕ) (evs : List RateEvent) :
    ∀ (st st' : Delay ℝ φ × ℕ),
      (st.1.buffer.length = Delay.frames ns st.2 ∧ st.1.delayNs = ns ∧ Q st.1.fx st.2) →
      evs.foldlM (Delay.applyEvent C) st = some st' →
      (st'.1.buffer.length = Delay.frames ns st'.2 ∧ st'.1.delayNs = ns ∧ Q st'.1.fx st'.2) := by
  induction evs with
  | nil => intro st st' h0 h; simp only [List.foldlM_nil] at h; cases h; exact h0
  | cons e rest ih =>
    intro st st' h0 h
    simp only [List.foldlM_cons] at h
    cases hs : Delay.applyEvent C st e with
    | none => simp [hs] at h
    | some s1 =>
      simp only [hs] at h
      refine ih s1 st' ?_ h
      obtain ⟨hb, hn, hk⟩ := h0
      cases e with
      | rate sr =>
        simp only [Delay.applyEvent, Option.some.injEq] at hs; subst hs
        exact ⟨by simp [Delay.changeRate, hn], hn, hQrate _ _⟩
      | start =>
        simp only [Delay.applyEvent, Option.some.injEq] at hs; subst hs
        exact ⟨hb, hn, hQstart _ _ hk⟩
      | proc xs dt info =>
        simp only [Delay.applyEvent] at hs
        split at hs
        · rename_i r hr
          simp only [Option.some.injEq] at hs; subst hs
          have := Delay.process_inv C st.1 xs dt info (hlen dt info) (fun s => Q s st.2)
            (fun s ys hs => hQproc s st.2 ys dt info hs) hk r hr
          exact ⟨by rw [this.1]; exact hb, by rw [this.2.1]; exact hn, this.2.2.2⟩
        · cases hs

end K
