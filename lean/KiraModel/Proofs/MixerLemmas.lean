/-
  MixerLemmas.lean — buffer algebra, the closed signal-flow specification of the mixer, and the proof
  that the imperative model (shared temp buffers, in-place accumulation) refines it.
  Everything here is generic in the number type `α` (it holds for the Float twin as well as over ℝ):
  the refinement is about buffer handling, not arithmetic.
-/
import KiraModel.Model.Probe

set_option linter.unusedSectionVars false

namespace K

variable {α : Type} [Add α] [Sub α] [Mul α] [Div α] [Neg α] [LT α] [LE α]
  [DecidableLT α] [DecidableLE α] [OfScientific α] [KOps α]

/-! ### buffers -/

@[simp] theorem length_zeros (n : Nat) : (zeros n : List (Frame α)).length = n := by simp [zeros]
@[simp] theorem length_fillZero (b : List (Frame α)) : (fillZero b).length = b.length := by simp [fillZero]
@[simp] theorem fillZero_zeros (n : Nat) : fillZero (zeros n : List (Frame α)) = zeros n := by simp [fillZero]

theorem take_zeros (n m : Nat) (h : n ≤ m) : (zeros m : List (Frame α)).take n = zeros n := by
  simp [zeros, List.take_replicate, Nat.min_eq_left h]

theorem drop_zeros (n m : Nat) : (zeros m : List (Frame α)).drop n = zeros (m - n) := by
  simp [zeros, List.drop_replicate]

theorem zeros_append (a b : Nat) : (zeros a ++ zeros b : List (Frame α)) = zeros (a + b) := by
  simp [zeros, List.replicate_append_replicate]

@[simp] theorem length_addInto (o b : List (Frame α)) : (addInto o b).length = o.length := by
  induction o generalizing b with
  | nil => cases b <;> simp [addInto]
  | cons x xs ih => cases b <;> simp [addInto, ih]

@[simp] theorem addInto_nil_right (o : List (Frame α)) : addInto o [] = o := by
  cases o <;> simp [addInto]

@[simp] theorem addInto_nil_left (b : List (Frame α)) : addInto ([] : List (Frame α)) b = [] := by
  cases b <;> simp [addInto]

/-- only the first `out.len()` frames of the added buffer matter -/
theorem addInto_append_right (o r x : List (Frame α)) (h : r.length = o.length) :
    addInto o (r ++ x) = addInto o r := by
  induction o generalizing r with
  | nil => simp
  | cons a as ih =>
    cases r with
    | nil => simp at h
    | cons b bs => simp [addInto, ih bs (by simpa using h)]

theorem addInto_append (o1 o2 b1 b2 : List (Frame α)) (h : b1.length = o1.length) :
    addInto (o1 ++ o2) (b1 ++ b2) = addInto o1 b1 ++ addInto o2 b2 := by
  induction o1 generalizing b1 with
  | nil => cases b1 with
    | nil => simp
    | cons _ _ => simp at h
  | cons a as ih =>
    cases b1 with
    | nil => simp at h
    | cons b bs => simp [addInto, ih bs (by simpa using h)]

@[simp] theorem length_writeBack (r buf : List (Frame α)) :
    (writeBack r buf).length = r.length + (buf.length - r.length) := by
  simp [writeBack]

/-- the three facts about one "lend a clean slice, add the result, clear" round on a clean scratch buffer -/
theorem lend_round (ibs n : Nat) (hn : n ≤ ibs) (r out : List (Frame α)) (hr : r.length = n)
    (ho : out.length = n) :
    (zeros ibs : List (Frame α)).take out.length = zeros n
      ∧ addInto out (writeBack r (zeros ibs)) = addInto out r
      ∧ fillZero (writeBack r (zeros ibs : List (Frame α))) = zeros ibs := by
  refine ⟨by rw [ho]; exact take_zeros n ibs hn, ?_, ?_⟩
  · unfold writeBack; exact addInto_append_right out r _ (by omega)
  · unfold fillZero; congr 1; simp [writeBack, hr]; omega

@[simp] theorem length_gainLoop (g : α → α) (n i : Nat) (l : List (Frame α)) :
    (gainLoop g n i l).length = l.length := by
  induction l generalizing i with
  | nil => simp [gainLoop]
  | cons x xs ih => simp [gainLoop, ih]

theorem gainLoop_append (g : α → α) (n i : Nat) (l1 l2 : List (Frame α)) :
    gainLoop g n i (l1 ++ l2) = gainLoop g n i l1 ++ gainLoop g n (i + l1.length) l2 := by
  induction l1 generalizing i with
  | nil => simp [gainLoop]
  | cons x xs ih =>
    simp only [List.cons_append, gainLoop, ih, List.length_cons]
    congr 3; omega

/-! ### components cannot resize the slice they are lent -/

/-- A `&mut [Frame]` has a fixed length: whatever a sound / effect / spatialiser does, the slice it
    returns is as long as the slice it was lent. -/
structure Comps.LenPres {S E P : Type} (C : Comps α S E P) : Prop where
  snd : ∀ s buf dt info, (C.sndStep s buf dt info).2.length = buf.length
  fx : ∀ e buf dt info, (C.fxStep e buf dt info).2.length = buf.length
  sp : ∀ p buf dt info, (C.spStep p buf dt info).2.length = buf.length

section
variable {S E P : Type} (C : Comps α S E P)

theorem length_runEffects (hC : C.LenPres) (dt : α) (info : Info α) (es : List E) (out : List (Frame α)) :
    (runEffects C dt info es out).2.length = out.length := by
  induction es generalizing out with
  | nil => simp [runEffects]
  | cons e es ih => simp [runEffects, ih, hC.fx]

theorem length_runEffects_fst (dt : α) (info : Info α) (es : List E) (out : List (Frame α)) :
    (runEffects C dt info es out).1.length = es.length := by
  induction es generalizing out with
  | nil => simp [runEffects]
  | cons e es ih => simp [runEffects, ih]

/-! ### the closed specification -/

/-- `Σ` of buffers onto a bus, in order: `bus += b` for each `b` -/
def mixInto (bus : List (Frame α)) (bufs : List (List (Frame α))) : List (Frame α) :=
  bufs.foldl addInto bus

@[simp] theorem length_mixInto (bus : List (Frame α)) (bufs : List (List (Frame α))) :
    (mixInto bus bufs).length = bus.length := by
  induction bufs generalizing bus with
  | nil => simp [mixInto]
  | cons b bs ih => simpa [mixInto] using ih (addInto bus b)

/-- every sound renders its `n` frames from silence: (new sounds, their signals `x_s`) -/
def specSounds (dt : α) (info : Info α) (n : Nat) (ss : List S) : List S × List (List (Frame α)) :=
  ((ss.map (fun s => C.sndStep s (zeros n) dt info)).map Prod.fst,
   (ss.map (fun s => C.sndStep s (zeros n) dt info)).map Prod.snd)

/-- the sound loop on a clean scratch buffer is `bus + Σ x_s`, and leaves the scratch buffer clean -/
theorem runSounds_spec (hC : C.LenPres) (dt : α) (info : Info α) (ibs n : Nat) (hn : n ≤ ibs)
    (ss : List S) (out : List (Frame α)) (ho : out.length = n) :
    runSounds C dt info ss out (zeros ibs)
      = ((specSounds C dt info n ss).1, mixInto out (specSounds C dt info n ss).2, zeros ibs) := by
  induction ss generalizing out with
  | nil => simp [runSounds, specSounds, mixInto]
  | cons s ss ih =>
    have hr : (C.sndStep s (zeros n) dt info).2.length = n := by rw [hC.snd]; simp
    obtain ⟨h1, h2, h3⟩ := lend_round ibs n hn (C.sndStep s (zeros n) dt info).2 out hr ho
    simp only [runSounds, h1, h2, h3]
    rw [ih (addInto out (C.sndStep s (zeros n) dt info).2) (by simp [ho])]
    simp [specSounds, mixInto]

/-- mirrors the documented flow of one send track: `h ⊙ F(bus + routed)`; `routed` = its input buffer -/
def SendTrk.spec (t : SendTrk α E) (n : Nat) (dt : α) (info : Info α) : SendTrk α E × List (Frame α) :=
  t.process C (zeros n) dt info

/-- the part of the flow after the children: `g ⊙ S(E(bus + Σ_sounds x_s))`, then the sends -/
def Trk.specPost (dt : α) (info : Info α) (n : Nat) (d : TrkData α S E P)
    (children pending : List (Trk α S E P)) (bus : List (Frame α)) (sends : List (SendTrk α E)) :
    Trk α S E P × List (Frame α) × List (SendTrk α E) :=
  let rs := specSounds C dt info n d.sounds
  let re := runEffects C dt info d.effects (mixInto bus rs.2)
  let rp := Trk.spatialStage C dt info n d.spatial re.2
  let y := gainLoop (Trk.frameGain d.volume d.psm) n 0 rp.2
  (.node { d with sounds := rs.1, effects := re.1, spatial := rp.1 } children pending, y,
    feedSends d.routes y sends)

mutual
/-- The documented signal flow of one sub-track for a chunk of `n` frames, with no scratch buffers:
    `y_t = if advancing then g_t ⊙ S_t(E_t(Σ_children y_c + Σ_sounds x_s)) else 0`; the post-fader
    signal `y_t` is what is sent (times the route volume) to the send tracks. -/
def Trk.spec (dt : α) (parentInfo : Info α) (n : Nat) :
    Trk α S E P → List (SendTrk α E) → Trk α S E P × List (Frame α) × List (SendTrk α E)
  | .node d children pending, sends =>
    let info := Trk.trackInfo C d parentInfo
    let d2 := Trk.preUpdate dt info n d
    if !Trk.advancing d2 then
      (.node d2 children pending, zeros n, sends)
    else
      let rc := Trk.specChildren dt info n children sends
      Trk.specPost C dt info n d2 rc.1 pending (mixInto (zeros n) rc.2.1) rc.2.2
/-- the children in arena order: (new children, their signals `y_c`, send tracks after their feeds) -/
def Trk.specChildren (dt : α) (info : Info α) (n : Nat) :
    List (Trk α S E P) → List (SendTrk α E) →
      List (Trk α S E P) × List (List (Frame α)) × List (SendTrk α E)
  | [], sends => ([], [], sends)
  | t :: ts, sends =>
    let r := Trk.spec dt info n t sends
    let r' := Trk.specChildren dt info n ts r.2.2
    (r.1 :: r'.1, r.2.1 :: r'.2.1, r'.2.2)
end

/-! ### clean scratch buffers -/

mutual
/-- every scratch buffer in the tree (rings included) is `internal_buffer_size` frames of silence -/
def Trk.Clean (ibs : Nat) : Trk α S E P → Prop
  | .node d children pending => d.temp = zeros ibs ∧ Trk.CleanList ibs children ∧ Trk.CleanList ibs pending
def Trk.CleanList (ibs : Nat) : List (Trk α S E P) → Prop
  | [] => True
  | t :: ts => Trk.Clean ibs t ∧ Trk.CleanList ibs ts
end

theorem Trk.cleanList_iff (ibs : Nat) (ts : List (Trk α S E P)) :
    Trk.CleanList ibs ts ↔ ∀ t ∈ ts, Trk.Clean ibs t := by
  induction ts with
  | nil => simp [Trk.CleanList]
  | cons t ts ih => simp [Trk.CleanList, ih]

theorem Trk.cleanList_append (ibs : Nat) (a b : List (Trk α S E P)) :
    Trk.CleanList ibs (a ++ b) ↔ Trk.CleanList ibs a ∧ Trk.CleanList ibs b := by
  simp only [Trk.cleanList_iff, List.mem_append]
  constructor
  · intro h; exact ⟨fun t ht => h t (Or.inl ht), fun t ht => h t (Or.inr ht)⟩
  · rintro ⟨h1, h2⟩ t (ht | ht); exact h1 t ht; exact h2 t ht

theorem Trk.cleanList_reverse (ibs : Nat) (a : List (Trk α S E P)) :
    Trk.CleanList ibs a.reverse ↔ Trk.CleanList ibs a := by
  simp [Trk.cleanList_iff]

/-! ### refinement -/

theorem Trk.preUpdate_temp (dt : α) (info : Info α) (n : Nat) (d : TrkData α S E P) :
    (Trk.preUpdate dt info n d).temp = d.temp := by
  unfold Trk.preUpdate Trk.publish; dsimp only; split <;> rfl

theorem length_spatialStage (hC : C.LenPres) (dt : α) (info : Info α) (n : Nat) (sp : Option P)
    (buf : List (Frame α)) : (Trk.spatialStage C dt info n sp buf).2.length = buf.length := by
  unfold Trk.spatialStage; cases sp <;> simp [hC.sp]

/-- after the children, on a clean scratch buffer, the imperative tail is the specification's tail -/
theorem Trk.postChildren_spec (hC : C.LenPres) (dt : α) (info : Info α) (ibs n : Nat) (hn : n ≤ ibs)
    (d : TrkData α S E P) (hd : d.temp = zeros ibs) (children pending : List (Trk α S E P))
    (bus : List (Frame α)) (hb : bus.length = n) (sends : List (SendTrk α E)) :
    Trk.postChildren C dt info n d children pending bus (zeros ibs) sends
      = Trk.specPost C dt info n d children pending bus sends := by
  unfold Trk.postChildren Trk.specPost
  simp only [runSounds_spec C hC dt info ibs n hn d.sounds bus hb]
  rw [← hd]

theorem length_specPost (hC : C.LenPres) (dt : α) (info : Info α) (n : Nat) (d : TrkData α S E P)
    (children pending : List (Trk α S E P)) (bus : List (Frame α)) (hb : bus.length = n)
    (sends : List (SendTrk α E)) :
    (Trk.specPost C dt info n d children pending bus sends).2.1.length = n := by
  unfold Trk.specPost
  simp [length_spatialStage C hC, length_runEffects C hC, hb]

/-- the statement proved by induction on the tree (motive for one track) -/
def RefinesAt (C : Comps α S E P) (ibs : Nat) (t : Trk α S E P) : Prop :=
  Trk.Clean ibs t → ∀ (dt : α) (pinfo : Info α) (n : Nat), n ≤ ibs → ∀ sends,
    Trk.process C dt pinfo t (zeros n) sends = Trk.spec C dt pinfo n t sends
      ∧ (Trk.spec C dt pinfo n t sends).2.1.length = n
      ∧ Trk.Clean ibs (Trk.spec C dt pinfo n t sends).1

/-- (motive for a list of sub-tracks) the loop over sub-tracks on a clean scratch buffer adds the
    children's signals to the bus in order and leaves the scratch buffer clean -/
def RefinesListAt (C : Comps α S E P) (ibs : Nat) (ts : List (Trk α S E P)) : Prop :=
  Trk.CleanList ibs ts → ∀ (dt : α) (info : Info α) (n : Nat), n ≤ ibs → ∀ (out : List (Frame α)) sends,
    out.length = n →
    Trk.processChildren C dt info ts out (zeros ibs) sends
      = ((Trk.specChildren C dt info n ts sends).1, mixInto out (Trk.specChildren C dt info n ts sends).2.1,
          zeros ibs, (Trk.specChildren C dt info n ts sends).2.2)
      ∧ Trk.CleanList ibs (Trk.specChildren C dt info n ts sends).1

theorem Trk.refines (hC : C.LenPres) (ibs : Nat) (t : Trk α S E P) : RefinesAt C ibs t := by
  refine Trk.rec (motive_1 := RefinesAt C ibs) (motive_2 := RefinesListAt C ibs) ?_ ?_ ?_ t
  · -- node
    intro d children pending ihc _ hclean dt pinfo n hn sends
    obtain ⟨hd, hcc, hcp⟩ := hclean
    have htemp := Trk.preUpdate_temp dt (Trk.trackInfo C d pinfo) n d
    rw [Trk.process, Trk.spec]
    simp only [length_zeros, fillZero_zeros]
    by_cases hadv : Trk.advancing (Trk.preUpdate dt (Trk.trackInfo C d pinfo) n d) = true
    · simp only [hadv, Bool.not_true, Bool.false_eq_true, if_false]
      have hch := ihc hcc dt (Trk.trackInfo C d pinfo) n hn (zeros n) sends (by simp)
      rw [htemp, hd, hch.1]
      dsimp only
      have hb : (mixInto (zeros n) (Trk.specChildren C dt (Trk.trackInfo C d pinfo) n children sends).2.1).length = n := by simp
      refine ⟨?_, ?_, ?_⟩
      · rw [Trk.postChildren_spec C hC dt _ ibs n hn _ rfl _ _ _ hb]
        unfold Trk.specPost; simp only [htemp, hd]
      · exact length_specPost C hC dt _ n _ _ _ _ hb _
      · unfold Trk.specPost; exact ⟨by simp only [htemp, hd], hch.2, hcp⟩
    · simp only [hadv, Bool.not_false, if_true]
      exact ⟨trivial, by simp, by rw [Trk.Clean, htemp, hd]; exact ⟨rfl, hcc, hcp⟩⟩
  · -- []
    intro _ dt info n _ out sends _
    simp [Trk.processChildren, Trk.specChildren, mixInto, Trk.CleanList]
  · -- cons
    intro t ts iht ihts hclean dt info n hn out sends ho
    obtain ⟨hct, hcts⟩ := hclean
    obtain ⟨h1, h2, h3⟩ := iht hct dt info n hn sends
    rw [Trk.processChildren, Trk.specChildren]
    obtain ⟨e1, e2, e3⟩ := lend_round ibs n hn (Trk.spec C dt info n t sends).2.1 out h2 ho
    simp only [e1, h1, e2, e3]
    obtain ⟨g1, g2⟩ := ihts hcts dt info n hn (addInto out (Trk.spec C dt info n t sends).2.1)
      (Trk.spec C dt info n t sends).2.2 (by simp [ho])
    rw [g1]
    exact ⟨by simp [mixInto], h3, g2⟩

/-! ### send tracks, main track, mixer -/

/-- all send-track input buffers have `internal_buffer_size` frames -/
def SendsLen (ibs : Nat) (sends : List (SendTrk α E)) : Prop := ∀ s ∈ sends, s.input.length = ibs

theorem sendsAddInput_len (ibs : Nat) (sends : List (SendTrk α E)) (id : Nat) (buf : List (Frame α)) (v : α)
    (h : SendsLen ibs sends) : SendsLen ibs (sendsAddInput sends id buf v) := by
  intro s hs
  simp only [sendsAddInput, List.mem_map] at hs
  obtain ⟨s0, hs0, rfl⟩ := hs
  split
  · simp [SendTrk.addInput, h s0 hs0]
  · exact h s0 hs0

theorem feedSends_len (ibs : Nat) (routes : List (Route α)) (out : List (Frame α)) (sends : List (SendTrk α E))
    (h : SendsLen ibs sends) : SendsLen ibs (feedSends routes out sends) := by
  unfold feedSends
  induction routes generalizing sends with
  | nil => simpa using h
  | cons r rs ih => exact ih _ (sendsAddInput_len ibs sends _ _ _ h)

theorem Trk.spec_sendsLen (ibs : Nat) (t : Trk α S E P) :
    ∀ (dt : α) (pinfo : Info α) (n : Nat) (sends : List (SendTrk α E)), SendsLen ibs sends →
      SendsLen ibs (Trk.spec C dt pinfo n t sends).2.2 := by
  refine Trk.rec
    (motive_1 := fun t => ∀ (dt : α) (pinfo : Info α) (n : Nat) (sends : List (SendTrk α E)), SendsLen ibs sends →
      SendsLen ibs (Trk.spec C dt pinfo n t sends).2.2)
    (motive_2 := fun ts => ∀ (dt : α) (info : Info α) (n : Nat) (sends : List (SendTrk α E)), SendsLen ibs sends →
      SendsLen ibs (Trk.specChildren C dt info n ts sends).2.2) ?_ ?_ ?_ t
  · intro d children pending ihc _ dt pinfo n sends h
    rw [Trk.spec]
    dsimp only
    split
    · exact h
    · unfold Trk.specPost; exact feedSends_len ibs _ _ _ (ihc dt _ n sends h)
  · intro dt info n sends h; simpa [Trk.specChildren] using h
  · intro t ts iht ihts dt info n sends h
    rw [Trk.specChildren]; exact ihts dt info n _ (iht dt info n sends h)

theorem Trk.specChildren_sendsLen (ibs : Nat) (ts : List (Trk α S E P)) (dt : α) (info : Info α) (n : Nat)
    (sends : List (SendTrk α E)) (h : SendsLen ibs sends) :
    SendsLen ibs (Trk.specChildren C dt info n ts sends).2.2 := by
  induction ts generalizing sends with
  | nil => simpa [Trk.specChildren] using h
  | cons t ts ih => rw [Trk.specChildren]; exact ih _ (Trk.spec_sendsLen C ibs t dt info n sends h)

theorem SendTrk.length_process (hC : C.LenPres) (s : SendTrk α E) (out : List (Frame α)) (dt : α) (info : Info α) :
    (s.process C out dt info).2.length = out.length := by
  unfold SendTrk.process; simp [length_runEffects C hC]

/-- the send tracks in arena order, each rendering `h_k ⊙ F_k(routed_k)` from silence:
    (new send tracks, their signals `z_k`) -/
def specSends (dt : α) (info : Info α) (n : Nat) (ss : List (SendTrk α E)) :
    List (SendTrk α E) × List (List (Frame α)) :=
  ((ss.map (fun s => s.process C (zeros n) dt info)).map Prod.fst,
   (ss.map (fun s => s.process C (zeros n) dt info)).map Prod.snd)

theorem Mixer.processSends_spec (hC : C.LenPres) (dt : α) (info : Info α) (ibs n : Nat) (hn : n ≤ ibs)
    (ss : List (SendTrk α E)) (out : List (Frame α)) (ho : out.length = n) :
    Mixer.processSends C dt info ss out (zeros ibs)
      = ((specSends C dt info n ss).1, mixInto out (specSends C dt info n ss).2, zeros ibs) := by
  induction ss generalizing out with
  | nil => simp [Mixer.processSends, specSends, mixInto]
  | cons s ss ih =>
    have hr : (s.process C (zeros n) dt info).2.length = n := by rw [SendTrk.length_process C hC]; simp
    obtain ⟨h1, h2, h3⟩ := lend_round ibs n hn (s.process C (zeros n) dt info).2 out hr ho
    simp only [Mixer.processSends, h1, h2, h3]
    rw [ih (addInto out (s.process C (zeros n) dt info).2) (by simp [ho])]
    simp [specSends, mixInto]

/-- after the send pass every input buffer is silent again -/
theorem specSends_inputs_clean (dt : α) (info : Info α) (ibs n : Nat) (ss : List (SendTrk α E))
    (h : SendsLen ibs ss) : ∀ s ∈ (specSends C dt info n ss).1, s.input = zeros ibs := by
  intro s hs
  simp only [specSends, List.map_map, List.mem_map] at hs
  obtain ⟨s0, hs0, rfl⟩ := hs
  simp [SendTrk.process, fillZero, h s0 hs0]

/-- the main track's flow: `m ⊙ M(bus + Σ_main sounds)` -/
def MainTrk.spec (t : MainTrk α S E) (bus : List (Frame α)) (dt : α) (info : Info α) :
    MainTrk α S E × List (Frame α) :=
  let n := bus.length
  let vol := (t.volume.update tw32 (dt * (KOps.ofNat n : α)) info).1
  let rs := specSounds C dt info n t.sounds
  let re := runEffects C dt info t.effects (mixInto bus rs.2)
  ({ t with volume := vol, sounds := rs.1, effects := re.1 },
    gainLoop (fun tic => asAmplitude (vol.interpolatedValue tw32 tic)) n 0 re.2)

theorem MainTrk.process_spec (hC : C.LenPres) (t : MainTrk α S E) (ibs : Nat) (ht : t.temp = zeros ibs)
    (bus : List (Frame α)) (hn : bus.length ≤ ibs) (dt : α) (info : Info α) :
    t.process C bus dt info = MainTrk.spec C t bus dt info := by
  unfold MainTrk.process MainTrk.spec
  simp only [ht, runSounds_spec C hC dt info ibs bus.length hn t.sounds bus rfl]

/-- The documented signal flow of the whole mixer for a chunk of `n` frames:
    `out = m ⊙ M(Σ_top y_t + Σ_k z_k + Σ_main x_s)`. -/
def Mixer.spec (m : Mixer α S E P) (n : Nat) (dt : α) (info : Info α) : Mixer α S E P × List (Frame α) :=
  let rt := Trk.specChildren C dt info n m.subTracks m.sendTracks
  let rs := specSends C dt info n rt.2.2
  let rm := MainTrk.spec C m.main (mixInto (mixInto (zeros n) rt.2.1) rs.2) dt info
  ({ m with subTracks := rt.1, sendTracks := rs.1, main := rm.1 }, rm.2)

/-- every scratch buffer of the mixer and every send-track input buffer is silent -/
structure Mixer.Clean (ibs : Nat) (m : Mixer α S E P) : Prop where
  temp : m.temp = zeros ibs
  main : m.main.temp = zeros ibs
  subs : Trk.CleanList ibs m.subTracks
  pending : Trk.CleanList ibs m.pendingSubTracks
  sends : ∀ s ∈ m.sendTracks, s.input = zeros ibs
  pendingSends : ∀ s ∈ m.pendingSendTracks, s.input = zeros ibs

theorem Mixer.refines (hC : C.LenPres) (ibs : Nat) (m : Mixer α S E P) (hm : Mixer.Clean ibs m)
    (n : Nat) (hn : n ≤ ibs) (dt : α) (info : Info α) :
    m.process C (zeros n) dt info = Mixer.spec C m n dt info
      ∧ (Mixer.spec C m n dt info).2.length = n
      ∧ Mixer.Clean ibs (Mixer.spec C m n dt info).1 := by
  have hlist : RefinesListAt C ibs m.subTracks := by
    have : ∀ ts : List (Trk α S E P), RefinesListAt C ibs ts := by
      intro ts
      induction ts with
      | nil => intro _ dt info n _ out sends _; simp [Trk.processChildren, Trk.specChildren, mixInto, Trk.CleanList]
      | cons t ts ih =>
        intro hclean dt info n hn out sends ho
        obtain ⟨hct, hcts⟩ := hclean
        obtain ⟨h1, h2, h3⟩ := Trk.refines C hC ibs t hct dt info n hn sends
        rw [Trk.processChildren, Trk.specChildren]
        obtain ⟨e1, e2, e3⟩ := lend_round ibs n hn (Trk.spec C dt info n t sends).2.1 out h2 ho
        simp only [e1, h1, e2, e3]
        obtain ⟨g1, g2⟩ := ih hcts dt info n hn (addInto out (Trk.spec C dt info n t sends).2.1)
          (Trk.spec C dt info n t sends).2.2 (by simp [ho])
        rw [g1]
        exact ⟨by simp [mixInto], h3, g2⟩
    exact this _
  obtain ⟨ht, hct⟩ := hlist hm.subs dt info n hn (zeros n) m.sendTracks (by simp)
  have hlen : SendsLen ibs m.sendTracks := fun s hs => by rw [hm.sends s hs]; simp
  have hlen' := Trk.specChildren_sendsLen C ibs m.subTracks dt info n m.sendTracks hlen
  have hbus : (mixInto (mixInto (zeros n) (Trk.specChildren C dt info n m.subTracks m.sendTracks).2.1)
      (specSends C dt info n (Trk.specChildren C dt info n m.subTracks m.sendTracks).2.2).2).length = n := by simp
  refine ⟨?_, ?_, ?_⟩
  · unfold Mixer.process Mixer.spec
    simp only [hm.temp, ht]
    rw [Mixer.processSends_spec C hC dt info ibs n hn _ _ (by simp)]
    dsimp only
    rw [MainTrk.process_spec C hC m.main ibs hm.main _ (by rw [hbus]; exact hn)]
  · unfold Mixer.spec MainTrk.spec
    simp [length_runEffects C hC]
  · unfold Mixer.spec MainTrk.spec
    exact ⟨hm.temp, hm.main, hct, hm.pending, specSends_inputs_clean C dt info ibs n _ hlen', hm.pendingSends⟩

/-! ### `Clean` is an invariant of everything else that happens to a mixer -/

theorem Trk.readCommands_temp (d : TrkData α S E P) : (Trk.readCommands d).temp = d.temp := by
  unfold Trk.readCommands Trk.publish; dsimp only
  split <;> split <;> rfl

theorem Trk.onStart_clean (ibs : Nat) (t : Trk α S E P) : Trk.Clean ibs t → Trk.Clean ibs (Trk.onStart C t) := by
  refine Trk.rec (motive_1 := fun t => Trk.Clean ibs t → Trk.Clean ibs (Trk.onStart C t))
    (motive_2 := fun ts => Trk.CleanList ibs ts →
      Trk.CleanList ibs (Trk.onStartKept C ts) ∧ Trk.CleanList ibs (Trk.onStartList C ts)) ?_ ?_ ?_ t
  · intro d children pending ihc ihp h
    obtain ⟨hd, hc, hp⟩ := h
    rw [Trk.onStart, Trk.Clean]
    refine ⟨by simp only [Trk.readCommands_temp, hd], ?_, trivial⟩
    rw [Trk.cleanList_append, Trk.cleanList_reverse]
    exact ⟨(ihp hp).2, (ihc hc).1⟩
  · intro _; simp [Trk.onStartKept, Trk.onStartList, Trk.CleanList]
  · intro t ts iht ihts h
    obtain ⟨ht, hts⟩ := h
    rw [Trk.onStartKept, Trk.onStartList]
    refine ⟨?_, iht ht, (ihts hts).2⟩
    split
    · exact (ihts hts).1
    · exact ⟨iht ht, (ihts hts).1⟩

theorem Trk.onStartLists_clean (ibs : Nat) (ts : List (Trk α S E P)) (h : Trk.CleanList ibs ts) :
    Trk.CleanList ibs (Trk.onStartKept C ts) ∧ Trk.CleanList ibs (Trk.onStartList C ts) := by
  induction ts with
  | nil => simp [Trk.onStartKept, Trk.onStartList, Trk.CleanList]
  | cons t ts ih =>
    obtain ⟨ht, hts⟩ := h
    rw [Trk.onStartKept, Trk.onStartList]
    refine ⟨?_, Trk.onStart_clean C ibs t ht, (ih hts).2⟩
    split
    · exact (ih hts).1
    · exact ⟨Trk.onStart_clean C ibs t ht, (ih hts).1⟩

theorem Mixer.onStart_clean (ibs : Nat) (m : Mixer α S E P) (h : Mixer.Clean ibs m) :
    Mixer.Clean ibs (m.onStart C) := by
  unfold Mixer.onStart
  refine ⟨h.temp, h.main, ?_, trivial, ?_, by simp⟩
  · rw [Trk.cleanList_append, Trk.cleanList_reverse]
    exact ⟨(Trk.onStartLists_clean C ibs _ h.pending).2, (Trk.onStartLists_clean C ibs _ h.subs).1⟩
  · intro s hs
    simp only [removeAndAdd, List.mem_map, List.mem_append, List.mem_reverse, List.mem_filter] at hs
    obtain ⟨s0, hs0, rfl⟩ := hs
    unfold SendTrk.onStart
    rcases hs0 with hs0 | hs0
    · exact h.pendingSends s0 hs0
    · exact h.sends s0 hs0.1

/-- a handle operation that leaves the scratch buffers alone keeps the tree clean, wherever the track is -/
theorem Trk.mapAt_clean (ibs id : Nat) (f : Trk α S E P → Trk α S E P)
    (hf : ∀ t, Trk.Clean ibs t → Trk.Clean ibs (f t)) (t : Trk α S E P) :
    Trk.Clean ibs t → Trk.Clean ibs (Trk.mapAt id f t) := by
  refine Trk.rec (motive_1 := fun t => Trk.Clean ibs t → Trk.Clean ibs (Trk.mapAt id f t))
    (motive_2 := fun ts => Trk.CleanList ibs ts → Trk.CleanList ibs (Trk.mapAtList id f ts)) ?_ ?_ ?_ t
  · intro d children pending ihc ihp h
    rw [Trk.mapAt]
    split
    · exact hf _ h
    · obtain ⟨hd, hc, hp⟩ := h
      exact ⟨hd, ihc hc, ihp hp⟩
  · intro _; simp [Trk.mapAtList, Trk.CleanList]
  · intro t ts iht ihts h
    rw [Trk.mapAtList]; exact ⟨iht h.1, ihts h.2⟩

theorem Trk.mapAtList_clean (ibs id : Nat) (f : Trk α S E P → Trk α S E P)
    (hf : ∀ t, Trk.Clean ibs t → Trk.Clean ibs (f t)) (ts : List (Trk α S E P)) (h : Trk.CleanList ibs ts) :
    Trk.CleanList ibs (Trk.mapAtList id f ts) := by
  induction ts with
  | nil => simp [Trk.mapAtList, Trk.CleanList]
  | cons t ts ih => rw [Trk.mapAtList]; exact ⟨Trk.mapAt_clean ibs id f hf t h.1, ih h.2⟩

theorem Trk.mapData_clean (ibs : Nat) (g : TrkData α S E P → TrkData α S E P) (hg : ∀ d, (g d).temp = d.temp)
    (t : Trk α S E P) (h : Trk.Clean ibs t) : Trk.Clean ibs (Trk.mapData g t) := by
  cases t with
  | node d c p => obtain ⟨hd, hc, hp⟩ := h; exact ⟨by rw [hg, hd], hc, hp⟩

theorem Trk.build_clean (id : Nat) (v : α) (fx : List E) (sends : List (Nat × α)) (persist : Bool) (ibs : Nat) :
    Trk.Clean ibs (Trk.build (S := S) (P := P) id v fx sends persist ibs) := by
  simp [Trk.build, Trk.Clean, Trk.CleanList]

theorem Trk.hAddSubTrack_clean (ibs : Nat) (child t : Trk α S E P) (hc : Trk.Clean ibs child)
    (h : Trk.Clean ibs t) : Trk.Clean ibs (Trk.hAddSubTrack child t) := by
  cases t with
  | node d c p =>
    obtain ⟨hd, hcc, hp⟩ := h
    exact ⟨hd, hcc, (Trk.cleanList_append ibs p [child]).mpr ⟨hp, hc, trivial⟩⟩

/-- every handle operation on sub-tracks keeps the mixer clean -/
theorem Mixer.mapTrack_clean (ibs id : Nat) (f : Trk α S E P → Trk α S E P)
    (hf : ∀ t, Trk.Clean ibs t → Trk.Clean ibs (f t)) (m : Mixer α S E P) (h : Mixer.Clean ibs m) :
    Mixer.Clean ibs (m.mapTrack id f) :=
  ⟨h.temp, h.main, Trk.mapAtList_clean ibs id f hf _ h.subs, Trk.mapAtList_clean ibs id f hf _ h.pending,
    h.sends, h.pendingSends⟩

theorem Mixer.new_clean (v : α) (fx : List E) (ibs : Nat) :
    Mixer.Clean ibs (Mixer.new (S := S) (P := P) v fx ibs) :=
  ⟨rfl, rfl, trivial, trivial, by simp [Mixer.new], by simp [Mixer.new]⟩

theorem Mixer.hAddSubTrack_clean (ibs : Nat) (t : Trk α S E P) (ht : Trk.Clean ibs t) (m : Mixer α S E P)
    (h : Mixer.Clean ibs m) : Mixer.Clean ibs (m.hAddSubTrack t) :=
  ⟨h.temp, h.main, h.subs, (Trk.cleanList_append ibs _ [t]).mpr ⟨h.pending, ht, trivial⟩, h.sends, h.pendingSends⟩

theorem Mixer.hAddSendTrack_clean (ibs : Nat) (s : SendTrk α E) (hs : s.input = zeros ibs) (m : Mixer α S E P)
    (h : Mixer.Clean ibs m) : Mixer.Clean ibs (m.hAddSendTrack s) :=
  ⟨h.temp, h.main, h.subs, h.pending, h.sends, by
    intro x hx
    simp only [Mixer.hAddSendTrack, List.mem_append, List.mem_singleton] at hx
    rcases hx with hx | rfl
    · exact h.pendingSends x hx
    · exact hs⟩

theorem Mixer.mapSend_clean (ibs id : Nat) (f : SendTrk α E → SendTrk α E) (hf : ∀ s, (f s).input = s.input)
    (m : Mixer α S E P) (h : Mixer.Clean ibs m) : Mixer.Clean ibs (m.mapSend id f) := by
  refine ⟨h.temp, h.main, h.subs, h.pending, ?_, ?_⟩
  · intro s hs
    simp only [Mixer.mapSend, List.mem_map] at hs
    obtain ⟨s0, hs0, rfl⟩ := hs
    split
    · rw [hf]; exact h.sends s0 hs0
    · exact h.sends s0 hs0
  · intro s hs
    simp only [Mixer.mapSend, List.mem_map] at hs
    obtain ⟨s0, hs0, rfl⟩ := hs
    split
    · rw [hf]; exact h.pendingSends s0 hs0
    · exact h.pendingSends s0 hs0

end

end K
