/-
  ChunkLemmas.lean — chunk homomorphism (C11): rendering `a + b` frames in one chunk equals rendering
  `a` frames and then `b` frames, for settled parameters and chunk-homomorphic components; lifted through
  tracks, send tracks, main track, mixer and the renderer's chunk loop.  Over ℝ.
-/
import KiraModel.Proofs.FlowLemmas
import KiraModel.Proofs.RealOps
import KiraModel.Proofs.EffectsACommon

set_option linter.unusedSectionVars false

namespace K

/-! ### buffers -/

theorem take_addInto (o s : List (Frame ℝ)) (n : Nat) (hs : s.length = n) (hn : n ≤ o.length) :
    (addInto o s).take n = addInto (o.take n) s := by
  induction o generalizing s n with
  | nil =>
    have : n = 0 := by simpa using hn
    subst this; cases s <;> simp_all
  | cons x xs ih =>
    cases s with
    | nil => simp at hs; subst hs; simp
    | cons y ys =>
      cases n with
      | zero => simp at hs
      | succ k => simp [addInto, ih ys k (by simpa using hs) (by simpa using hn)]

theorem addInto_zeros_left_take (inp : List (Frame ℝ)) (n : Nat) (h : n ≤ inp.length) :
    addInto (zeros n) inp = inp.take n := by
  induction n generalizing inp with
  | zero => simp [zeros]
  | succ k ih =>
    cases inp with
    | nil => simp at h
    | cons x xs =>
      have : (zeros (k + 1) : List (Frame ℝ)) = Frame.zero :: zeros k := by simp [zeros, List.replicate_succ]
      rw [this, addInto, List.take_succ_cons, ih xs (by simpa using h)]
      congr 1
      cases x; simp [Frame.add, Frame.zero]

theorem mixInto_hom (b1 b2 : List (Frame ℝ)) (xs ys : List (List (Frame ℝ)))
    (hx : ∀ x ∈ xs, x.length = b1.length) (hl : xs.length = ys.length) :
    mixInto (b1 ++ b2) (List.zipWith (· ++ ·) xs ys) = mixInto b1 xs ++ mixInto b2 ys := by
  induction xs generalizing ys b1 b2 with
  | nil => cases ys with
    | nil => simp [mixInto]
    | cons _ _ => simp at hl
  | cons x xs ih =>
    cases ys with
    | nil => simp at hl
    | cons y ys =>
      simp only [List.zipWith_cons_cons, mixInto, List.foldl_cons]
      rw [addInto_append b1 b2 x y (hx x (by simp))]
      exact ih (addInto b1 x) (addInto b2 y) ys (fun z hz => by rw [length_addInto]; exact hx z (by simp [hz]))
        (by simpa using hl)

theorem gainLoop_const (k : ℝ) (n i : Nat) (l : List (Frame ℝ)) :
    gainLoop (fun _ => k) n i l = l.map (fun f => Frame.scale f k) := by
  induction l generalizing i with
  | nil => simp [gainLoop]
  | cons x xs ih => simp [gainLoop, ih]

/-! ### settled parameters -/

/- `Parameter.Settled` (a parameter that is not moving: stagnant, previous value = current value) is the
   definition of Proofs/EffectsACommon.lean (polymorphic in the value type); the two `f32` lemmas below keep
   the argument order this file uses. -/

theorem Parameter.settled_update32 (p : Parameter ℝ ℝ) (h : p.Settled) (dt : ℝ) (info : Info ℝ) :
    (p.update tw32 dt info).1 = p := by
  unfold Parameter.update
  simp only [h.1, if_true]
  cases p; simp_all [Parameter.Settled]

theorem Parameter.settled_interp (p : Parameter ℝ ℝ) (h : p.Settled) (tic : ℝ) :
    p.interpolatedValue tw32 tic = p.raw := by
  simp [Parameter.interpolatedValue, tw32, lerp32, h.2]

/-- simply playing, fade not moving -/
def Psm.Settled (m : Psm ℝ) : Prop := m.state = .playing ∧ Parameter.Settled m.fade

theorem Psm.settled_update (m : Psm ℝ) (h : m.Settled) (dt : ℝ) (info : Info ℝ) :
    m.update dt info = (m, false) := by
  unfold Psm.update
  simp only [h.1, Parameter.settled_update32 m.fade h.2]
  cases m; simp_all [Psm.Settled]

section
variable {S E P : Type} (C : Comps ℝ S E P)

/-- all of the track's own parameters are settled, it is simply playing, and it is not spatial -/
def TrkData.Settled (d : TrkData ℝ S E P) : Prop :=
  Parameter.Settled d.volume ∧ Psm.Settled d.psm ∧ (∀ r ∈ d.routes, Parameter.Settled r.volume) ∧ d.spatial = none

theorem Trk.preUpdate_settled (dt : ℝ) (info : Info ℝ) (n : Nat) (d : TrkData ℝ S E P) (h : d.Settled) :
    Trk.preUpdate dt info n d = d := by
  obtain ⟨hv, hp, hr, _⟩ := h
  unfold Trk.preUpdate
  simp only [Psm.settled_update d.psm hp, Parameter.settled_update32 d.volume hv, Bool.false_eq_true, if_false]
  have : d.routes.map (fun (r : Route ℝ) => ({ r with volume := (r.volume.update tw32 (dt * (KOps.ofNat n : ℝ)) info).1 } : Route ℝ))
      = d.routes := by
    conv => rhs; rw [← List.map_id d.routes]
    apply List.map_congr_left
    intro r hr'; simp [Parameter.settled_update32 r.volume (hr r hr')]
  rw [this]

theorem Trk.frameGain_settled (d : TrkData ℝ S E P) (h : d.Settled) :
    Trk.frameGain d.volume d.psm = fun _ => asAmplitude d.volume.raw * asAmplitude d.psm.fade.raw := by
  funext tic
  simp [Trk.frameGain, Psm.interpolatedFadeVolume, Parameter.settled_interp _ h.1,
    Parameter.settled_interp _ h.2.1.2]

mutual
/-- every track of the inserted subtree is settled -/
def Trk.Settled : Trk ℝ S E P → Prop
  | .node d children _ => d.Settled ∧ Trk.SettledList children
def Trk.SettledList : List (Trk ℝ S E P) → Prop
  | [] => True
  | t :: ts => Trk.Settled t ∧ Trk.SettledList ts
end

/-! ### chunk-homomorphic components -/

/-- Rendering `a + b` frames at once is rendering `a` frames and then `b` frames (per-frame state
    advance), for the constant `dt` and any constant `Info`. -/
structure Comps.ChunkHom (C : Comps ℝ S E P) (dt : ℝ) : Prop where
  snd : ∀ s info a b, C.sndStep s (zeros (a + b)) dt info
    = ((C.sndStep (C.sndStep s (zeros a) dt info).1 (zeros b) dt info).1,
       (C.sndStep s (zeros a) dt info).2 ++ (C.sndStep (C.sndStep s (zeros a) dt info).1 (zeros b) dt info).2)
  fx : ∀ e info xs ys, C.fxStep e (xs ++ ys) dt info
    = ((C.fxStep (C.fxStep e xs dt info).1 ys dt info).1,
       (C.fxStep e xs dt info).2 ++ (C.fxStep (C.fxStep e xs dt info).1 ys dt info).2)

/-- **Invariant-relative chunk homomorphism.**  The components are chunk-homomorphic on the sound states
    satisfying `IS` and the effect states satisfying `IE`, for slices of at most `B` frames (the internal
    buffer size: a delay faults on a longer slice), and the two invariants are preserved by `process`.
    This is what kira's real sounds and effects satisfy (`IS`, `IE` = parameters settled, in domain, no
    latched panic, …); `Comps.ChunkHom` is the special case `IS = IE = fun _ => True`. -/
structure Comps.ChunkHomOn (C : Comps ℝ S E P) (IS : S → Prop) (IE : E → Prop) (B : Nat) (dt : ℝ) : Prop where
  snd : ∀ s info a b, IS s → a + b ≤ B → C.sndStep s (zeros (a + b)) dt info
    = ((C.sndStep (C.sndStep s (zeros a) dt info).1 (zeros b) dt info).1,
       (C.sndStep s (zeros a) dt info).2 ++ (C.sndStep (C.sndStep s (zeros a) dt info).1 (zeros b) dt info).2)
  sndInv : ∀ s info n, IS s → n ≤ B → IS (C.sndStep s (zeros n) dt info).1
  fx : ∀ e info xs ys, IE e → xs.length + ys.length ≤ B → C.fxStep e (xs ++ ys) dt info
    = ((C.fxStep (C.fxStep e xs dt info).1 ys dt info).1,
       (C.fxStep e xs dt info).2 ++ (C.fxStep (C.fxStep e xs dt info).1 ys dt info).2)
  fxInv : ∀ e info xs, IE e → xs.length ≤ B → IE (C.fxStep e xs dt info).1

/-- the unconditional notion is the invariant-relative one with trivial invariants, for every bound -/
theorem Comps.ChunkHom.on {dt : ℝ} (h : C.ChunkHom dt) (B : Nat) :
    C.ChunkHomOn (fun _ => True) (fun _ => True) B dt :=
  ⟨fun s info a b _ _ => h.snd s info a b, fun _ _ _ _ _ => trivial,
   fun e info xs ys _ _ => h.fx e info xs ys, fun _ _ _ _ _ => trivial⟩

theorem Comps.ChunkHomOn.mono {IS : S → Prop} {IE : E → Prop} {B B' : Nat} {dt : ℝ}
    (h : C.ChunkHomOn IS IE B dt) (hB : B' ≤ B) : C.ChunkHomOn IS IE B' dt :=
  ⟨fun s info a b hs hab => h.snd s info a b hs (by omega), fun s info n hs hn => h.sndInv s info n hs (by omega),
   fun e info xs ys he hl => h.fx e info xs ys he (by omega), fun e info xs he hl => h.fxInv e info xs he (by omega)⟩

variable {IS : S → Prop} {IE : E → Prop} {B : Nat}

theorem specSounds_hom_on (dt : ℝ) (hH : C.ChunkHomOn IS IE B dt) (info : Info ℝ) (a b : Nat) (hab : a + b ≤ B)
    (ss : List S) (hss : ∀ s ∈ ss, IS s) :
    specSounds C dt info (a + b) ss
      = ((specSounds C dt info b (specSounds C dt info a ss).1).1,
         List.zipWith (· ++ ·) (specSounds C dt info a ss).2 (specSounds C dt info b (specSounds C dt info a ss).1).2) := by
  induction ss with
  | nil => simp [specSounds]
  | cons s ss ih =>
    have ih := ih (fun x hx => hss x (by simp [hx]))
    simp only [specSounds, List.map_cons, Prod.mk.injEq] at ih ⊢
    rw [hH.snd s info a b (hss s (by simp)) hab]
    exact ⟨by simp [ih.1], by simp [ih.2]⟩

theorem specSounds_inv_on (dt : ℝ) (hH : C.ChunkHomOn IS IE B dt) (info : Info ℝ) (n : Nat) (hn : n ≤ B)
    (ss : List S) (hss : ∀ s ∈ ss, IS s) : ∀ s ∈ (specSounds C dt info n ss).1, IS s := by
  intro s hs
  simp only [specSounds, List.map_map, List.mem_map] at hs
  obtain ⟨s0, hs0, rfl⟩ := hs
  exact hH.sndInv s0 info n (hss s0 hs0) hn

theorem specSounds_lengths (hC : C.LenPres) (dt : ℝ) (info : Info ℝ) (n : Nat) (ss : List S) :
    (∀ x ∈ (specSounds C dt info n ss).2, x.length = n) ∧ (specSounds C dt info n ss).2.length = ss.length
      ∧ (specSounds C dt info n ss).1.length = ss.length := by
  refine ⟨?_, by simp [specSounds], by simp [specSounds]⟩
  intro x hx
  simp only [specSounds, List.map_map, List.mem_map] at hx
  obtain ⟨s, _, rfl⟩ := hx
  simp [hC.snd]

theorem runEffects_hom_on (hC : C.LenPres) (dt : ℝ) (hH : C.ChunkHomOn IS IE B dt) (info : Info ℝ) (es : List E)
    (hes : ∀ e ∈ es, IE e) (xs ys : List (Frame ℝ)) (hl : xs.length + ys.length ≤ B) :
    runEffects C dt info es (xs ++ ys)
      = ((runEffects C dt info (runEffects C dt info es xs).1 ys).1,
         (runEffects C dt info es xs).2 ++ (runEffects C dt info (runEffects C dt info es xs).1 ys).2) := by
  induction es generalizing xs ys with
  | nil => simp [runEffects]
  | cons e es ih =>
    simp only [runEffects]
    rw [hH.fx e info xs ys (hes e (by simp)) hl]
    dsimp only
    rw [ih (fun x hx => hes x (by simp [hx])) _ _ (by rw [hC.fx, hC.fx]; exact hl)]

theorem runEffects_inv_on (hC : C.LenPres) (dt : ℝ) (hH : C.ChunkHomOn IS IE B dt) (info : Info ℝ) (es : List E)
    (hes : ∀ e ∈ es, IE e) (xs : List (Frame ℝ)) (hl : xs.length ≤ B) :
    ∀ e ∈ (runEffects C dt info es xs).1, IE e := by
  induction es generalizing xs with
  | nil => intro e he; simp [runEffects] at he
  | cons e0 es ih =>
    intro e he
    simp only [runEffects, List.mem_cons] at he
    rcases he with rfl | he
    · exact hH.fxInv e0 info xs (hes e0 (by simp)) hl
    · exact ih (fun x hx => hes x (by simp [hx])) _ (by rw [hC.fx]; exact hl) e he

/-! ### every component of a tree satisfies the invariants -/

/-- the sounds and effects in a track's arenas satisfy the component invariants -/
def TrkData.CompsOk (IS : S → Prop) (IE : E → Prop) (d : TrkData ℝ S E P) : Prop :=
  (∀ s ∈ d.sounds, IS s) ∧ (∀ e ∈ d.effects, IE e)

mutual
/-- every sound and effect that is processed in the subtree (arenas; rings are not processed) satisfies
    the component invariants -/
def Trk.CompsOk (IS : S → Prop) (IE : E → Prop) : Trk ℝ S E P → Prop
  | .node d children _ => d.CompsOk IS IE ∧ Trk.CompsOkList IS IE children
def Trk.CompsOkList (IS : S → Prop) (IE : E → Prop) : List (Trk ℝ S E P) → Prop
  | [] => True
  | t :: ts => Trk.CompsOk IS IE t ∧ Trk.CompsOkList IS IE ts
end

theorem Trk.compsOk_true (t : Trk ℝ S E P) : Trk.CompsOk (fun _ => True) (fun _ => True) t := by
  refine Trk.rec (motive_1 := fun t => Trk.CompsOk (fun _ => True) (fun _ => True) t)
    (motive_2 := fun ts => Trk.CompsOkList (fun _ => True) (fun _ => True) ts) ?_ ?_ ?_ t
  · intro d c p ihc _; exact ⟨⟨fun _ _ => trivial, fun _ _ => trivial⟩, ihc⟩
  · trivial
  · intro t ts iht ihts; exact ⟨iht, ihts⟩

theorem Trk.compsOkList_true (ts : List (Trk ℝ S E P)) : Trk.CompsOkList (fun _ => True) (fun _ => True) ts := by
  induction ts with
  | nil => trivial
  | cons t ts ih => exact ⟨Trk.compsOk_true t, ih⟩

/-! ### what reaches the send tracks -/

/-- The input buffers of the send tracks in three runs — one chunk of `a + b` frames (`sab`), and the
    two chunks of `a` and `b` frames (`sa`, `sb`) — hold the same routed signal: same send tracks in the
    same order, and the first `a + b` frames of the one are the first `a` then the first `b` of the others. -/
def FeedRel (a b : Nat) : List (SendTrk ℝ E) → List (SendTrk ℝ E) → List (SendTrk ℝ E) → Prop
  | [], [], [] => True
  | x :: xs, y :: ys, z :: zs =>
    x.id = y.id ∧ y.id = z.id ∧ a + b ≤ x.input.length ∧ a ≤ y.input.length ∧ b ≤ z.input.length
      ∧ x.input.take (a + b) = y.input.take a ++ z.input.take b ∧ FeedRel a b xs ys zs
  | _, _, _ => False

theorem sendsAddInput_feedRel (a b : Nat) (sab sa sb : List (SendTrk ℝ E)) (h : FeedRel a b sab sa sb)
    (id : Nat) (y1 y2 : List (Frame ℝ)) (h1 : y1.length = a) (h2 : y2.length = b) (v : ℝ) :
    FeedRel a b (sendsAddInput sab id (y1 ++ y2) v) (sendsAddInput sa id y1 v) (sendsAddInput sb id y2 v) := by
  induction sab generalizing sa sb with
  | nil =>
    cases sa <;> cases sb <;> simp_all [FeedRel, sendsAddInput]
  | cons x xs ih =>
    cases sa with
    | nil => cases sb <;> simp [FeedRel] at h
    | cons y ys =>
      cases sb with
      | nil => simp [FeedRel] at h
      | cons z zs =>
        obtain ⟨e1, e2, l1, l2, l3, ht, hrest⟩ := h
        have hrec := ih ys zs hrest
        simp only [sendsAddInput, List.map_cons] at hrec ⊢
        by_cases hid : x.id = id
        · have hy : y.id = id := by rw [← e1]; exact hid
          have hz : z.id = id := by rw [← e2]; exact hy
          simp only [hid, hy, hz, if_true, FeedRel]
          refine ⟨by simp [SendTrk.addInput, hid, hy], ?_, ?_, ?_, ?_, ?_, hrec⟩
          · simp [SendTrk.addInput, hy, hz]
          · simpa [SendTrk.addInput] using l1
          · simpa [SendTrk.addInput] using l2
          · simpa [SendTrk.addInput] using l3
          · simp only [SendTrk.addInput, List.map_append]
            set s1 := y1.map (fun f => Frame.scale f (asAmplitude v))
            set s2 := y2.map (fun f => Frame.scale f (asAmplitude v))
            have hs1 : s1.length = a := by simp [s1, h1]
            have hs2 : s2.length = b := by simp [s2, h2]
            rw [take_addInto x.input (s1 ++ s2) (a + b) (by simp [hs1, hs2]) l1, ht,
              addInto_append _ _ s1 s2 (by simp [hs1, l2]),
              take_addInto y.input s1 a hs1 l2, take_addInto z.input s2 b hs2 l3]
        · have hy : ¬ y.id = id := by rw [← e1]; exact hid
          have hz : ¬ z.id = id := by rw [← e2]; exact hy
          simp only [hid, hy, hz, if_false, FeedRel]
          exact ⟨e1, e2, l1, l2, l3, ht, hrec⟩

theorem feedSends_feedRel (a b : Nat) (routes : List (Route ℝ)) (sab sa sb : List (SendTrk ℝ E))
    (h : FeedRel a b sab sa sb) (y1 y2 : List (Frame ℝ)) (h1 : y1.length = a) (h2 : y2.length = b) :
    FeedRel a b (feedSends routes (y1 ++ y2) sab) (feedSends routes y1 sa) (feedSends routes y2 sb) := by
  unfold feedSends
  induction routes generalizing sab sa sb with
  | nil => simpa using h
  | cons r rs ih =>
    simp only [List.foldl_cons]
    exact ih _ _ _ (sendsAddInput_feedRel a b sab sa sb h r.to y1 y2 h1 h2 _)

/-! ### tracks -/

theorem Trk.spec_settled (dt : ℝ) (pinfo : Info ℝ) (n : Nat) (d : TrkData ℝ S E P) (hd : d.Settled)
    (children pending : List (Trk ℝ S E P)) (sends : List (SendTrk ℝ E)) :
    Trk.spec C dt pinfo n (.node d children pending) sends
      = Trk.specPost C dt pinfo n d (Trk.specChildren C dt pinfo n children sends).1 pending
          (mixInto (zeros n) (Trk.specChildren C dt pinfo n children sends).2.1)
          (Trk.specChildren C dt pinfo n children sends).2.2 := by
  have hinfo : Trk.trackInfo C d pinfo = pinfo := by simp [Trk.trackInfo, hd.2.2.2]
  rw [Trk.spec]
  simp only [hinfo, Trk.preUpdate_settled dt pinfo n d hd]
  have : Trk.advancing d = true := by
    simp [Trk.advancing, Psm.playbackState, hd.2.1.1, PlaybackState.isAdvancing]
  simp [this]

/-- the settled tail of a track: `y = g · E(bus + Σ sounds)` with a constant gain `g` -/
theorem Trk.specPost_settled (dt : ℝ) (info : Info ℝ) (n : Nat) (d : TrkData ℝ S E P) (hd : d.Settled)
    (children pending : List (Trk ℝ S E P)) (bus : List (Frame ℝ)) (sends : List (SendTrk ℝ E)) :
    Trk.specPost C dt info n d children pending bus sends
      = (.node { d with sounds := (specSounds C dt info n d.sounds).1,
                        effects := (runEffects C dt info d.effects (mixInto bus (specSounds C dt info n d.sounds).2)).1 }
            children pending,
          (runEffects C dt info d.effects (mixInto bus (specSounds C dt info n d.sounds).2)).2.map
            (fun f => Frame.scale f (asAmplitude d.volume.raw * asAmplitude d.psm.fade.raw)),
          feedSends d.routes ((runEffects C dt info d.effects (mixInto bus (specSounds C dt info n d.sounds).2)).2.map
            (fun f => Frame.scale f (asAmplitude d.volume.raw * asAmplitude d.psm.fade.raw))) sends) := by
  unfold Trk.specPost
  simp only [Trk.spatialStage, hd.2.2.2, Trk.frameGain_settled d hd, gainLoop_const]

theorem Trk.specPost_hom_on (hC : C.LenPres) (dt : ℝ) (hH : C.ChunkHomOn IS IE B dt) (info : Info ℝ) (a b : Nat)
    (hab : a + b ≤ B)
    (d : TrkData ℝ S E P) (hd : d.Settled) (hdc : d.CompsOk IS IE) (cab ca cb pending : List (Trk ℝ S E P))
    (bus1 bus2 : List (Frame ℝ)) (h1 : bus1.length = a) (h2 : bus2.length = b)
    (sab sa sb : List (SendTrk ℝ E)) (hrel : FeedRel a b sab sa sb) :
    (Trk.specPost C dt info a d ca pending bus1 sa).1.data.Settled
      ∧ (Trk.specPost C dt info (a + b) d cab pending (bus1 ++ bus2) sab).1.data
          = (Trk.specPost C dt info b (Trk.specPost C dt info a d ca pending bus1 sa).1.data cb pending bus2 sb).1.data
      ∧ (Trk.specPost C dt info (a + b) d cab pending (bus1 ++ bus2) sab).2.1
          = (Trk.specPost C dt info a d ca pending bus1 sa).2.1
            ++ (Trk.specPost C dt info b (Trk.specPost C dt info a d ca pending bus1 sa).1.data cb pending bus2 sb).2.1
      ∧ FeedRel a b (Trk.specPost C dt info (a + b) d cab pending (bus1 ++ bus2) sab).2.2
          (Trk.specPost C dt info a d ca pending bus1 sa).2.2
          (Trk.specPost C dt info b (Trk.specPost C dt info a d ca pending bus1 sa).1.data cb pending bus2 sb).2.2
      ∧ (Trk.specPost C dt info a d ca pending bus1 sa).2.1.length = a
      ∧ (Trk.specPost C dt info b (Trk.specPost C dt info a d ca pending bus1 sa).1.data cb pending bus2 sb).2.1.length = b
      ∧ (Trk.specPost C dt info a d ca pending bus1 sa).1.data.CompsOk IS IE := by
  have hda : ({ d with sounds := (specSounds C dt info a d.sounds).1,
                       effects := (runEffects C dt info d.effects (mixInto bus1 (specSounds C dt info a d.sounds).2)).1 }
      : TrkData ℝ S E P).Settled := hd
  rw [Trk.specPost_settled C dt info a d hd, Trk.specPost_settled C dt info (a + b) d hd]
  simp only [Trk.data]
  rw [Trk.specPost_settled C dt info b _ hda]
  simp only [Trk.data]
  obtain ⟨la, lla, _⟩ := specSounds_lengths C hC dt info a d.sounds
  obtain ⟨lb, llb, _⟩ := specSounds_lengths C hC dt info b (specSounds C dt info a d.sounds).1
  have hmix : mixInto (bus1 ++ bus2) (specSounds C dt info (a + b) d.sounds).2
      = mixInto bus1 (specSounds C dt info a d.sounds).2
        ++ mixInto bus2 (specSounds C dt info b (specSounds C dt info a d.sounds).1).2 := by
    rw [specSounds_hom_on C dt hH info a b hab d.sounds hdc.1]
    exact mixInto_hom bus1 bus2 _ _ (fun x hx => by rw [la x hx, h1])
      (by rw [lla, llb, (specSounds_lengths C hC dt info a d.sounds).2.2])
  have hfx := runEffects_hom_on C hC dt hH info d.effects hdc.2 (mixInto bus1 (specSounds C dt info a d.sounds).2)
    (mixInto bus2 (specSounds C dt info b (specSounds C dt info a d.sounds).1).2)
    (by simp only [length_mixInto, h1, h2]; exact hab)
  refine ⟨hda, ?_, ?_, ?_, ?_, ?_, ?_⟩
  · rw [hmix, hfx]; simp [specSounds_hom_on C dt hH info a b hab d.sounds hdc.1]
  · rw [hmix, hfx]; simp
  · rw [hmix, hfx]
    simp only [List.map_append]
    exact feedSends_feedRel a b d.routes sab sa sb hrel _ _
      (by simp [length_runEffects C hC, h1]) (by simp [length_runEffects C hC, h2])
  · simp [length_runEffects C hC, h1]
  · simp [length_runEffects C hC, h2]
  · exact ⟨specSounds_inv_on C dt hH info a (by omega) d.sounds hdc.1,
      runEffects_inv_on C hC dt hH info d.effects hdc.2 _ (by simp only [length_mixInto, h1]; omega)⟩

/-- motive for one track (invariant-relative) -/
def HomAtOn (C : Comps ℝ S E P) (IS : S → Prop) (IE : E → Prop) (B : Nat) (dt : ℝ) (t : Trk ℝ S E P) : Prop :=
  Trk.Settled t → Trk.CompsOk IS IE t → ∀ (pinfo : Info ℝ) (a b : Nat), a + b ≤ B →
    ∀ (sab sa sb : List (SendTrk ℝ E)), FeedRel a b sab sa sb →
    (Trk.spec C dt pinfo (a + b) t sab).1 = (Trk.spec C dt pinfo b (Trk.spec C dt pinfo a t sa).1 sb).1
      ∧ (Trk.spec C dt pinfo (a + b) t sab).2.1
          = (Trk.spec C dt pinfo a t sa).2.1 ++ (Trk.spec C dt pinfo b (Trk.spec C dt pinfo a t sa).1 sb).2.1
      ∧ FeedRel a b (Trk.spec C dt pinfo (a + b) t sab).2.2 (Trk.spec C dt pinfo a t sa).2.2
          (Trk.spec C dt pinfo b (Trk.spec C dt pinfo a t sa).1 sb).2.2
      ∧ Trk.Settled (Trk.spec C dt pinfo a t sa).1
      ∧ (Trk.spec C dt pinfo a t sa).2.1.length = a
      ∧ (Trk.spec C dt pinfo b (Trk.spec C dt pinfo a t sa).1 sb).2.1.length = b
      ∧ Trk.CompsOk IS IE (Trk.spec C dt pinfo a t sa).1

/-- motive for a list of sub-tracks (invariant-relative) -/
def HomListAtOn (C : Comps ℝ S E P) (IS : S → Prop) (IE : E → Prop) (B : Nat) (dt : ℝ) (ts : List (Trk ℝ S E P)) : Prop :=
  Trk.SettledList ts → Trk.CompsOkList IS IE ts → ∀ (info : Info ℝ) (a b : Nat), a + b ≤ B →
    ∀ (sab sa sb : List (SendTrk ℝ E)), FeedRel a b sab sa sb →
    (Trk.specChildren C dt info (a + b) ts sab).1
        = (Trk.specChildren C dt info b (Trk.specChildren C dt info a ts sa).1 sb).1
      ∧ (Trk.specChildren C dt info (a + b) ts sab).2.1
          = List.zipWith (· ++ ·) (Trk.specChildren C dt info a ts sa).2.1
              (Trk.specChildren C dt info b (Trk.specChildren C dt info a ts sa).1 sb).2.1
      ∧ FeedRel a b (Trk.specChildren C dt info (a + b) ts sab).2.2 (Trk.specChildren C dt info a ts sa).2.2
          (Trk.specChildren C dt info b (Trk.specChildren C dt info a ts sa).1 sb).2.2
      ∧ Trk.SettledList (Trk.specChildren C dt info a ts sa).1
      ∧ (∀ x ∈ (Trk.specChildren C dt info a ts sa).2.1, x.length = a)
      ∧ (Trk.specChildren C dt info a ts sa).2.1.length
          = (Trk.specChildren C dt info b (Trk.specChildren C dt info a ts sa).1 sb).2.1.length
      ∧ Trk.CompsOkList IS IE (Trk.specChildren C dt info a ts sa).1

theorem Trk.spec_hom_on (hC : C.LenPres) (dt : ℝ) (hH : C.ChunkHomOn IS IE B dt) (t : Trk ℝ S E P) :
    HomAtOn C IS IE B dt t := by
  refine Trk.rec (motive_1 := HomAtOn C IS IE B dt) (motive_2 := HomListAtOn C IS IE B dt) ?_ ?_ ?_ t
  · intro d children pending ihc _ hs hc pinfo a b hab sab sa sb hrel
    obtain ⟨hd, hcs⟩ := hs
    obtain ⟨hdc, hcc⟩ := hc
    obtain ⟨c1, c2, c3, c4, c5, c6, c7⟩ := ihc hcs hcc pinfo a b hab sab sa sb hrel
    rw [Trk.spec_settled C dt pinfo a d hd, Trk.spec_settled C dt pinfo (a + b) d hd]
    have hbus : mixInto (zeros (a + b)) (Trk.specChildren C dt pinfo (a + b) children sab).2.1
        = mixInto (zeros a) (Trk.specChildren C dt pinfo a children sa).2.1
          ++ mixInto (zeros b) (Trk.specChildren C dt pinfo b (Trk.specChildren C dt pinfo a children sa).1 sb).2.1 := by
      rw [c2, ← zeros_append]
      exact mixInto_hom _ _ _ _ (fun x hx => by rw [c5 x hx]; simp) c6
    obtain ⟨p1, p2, p3, p4, p5, p6, p7⟩ := Trk.specPost_hom_on C hC dt hH pinfo a b hab d hd hdc
      (Trk.specChildren C dt pinfo (a + b) children sab).1 (Trk.specChildren C dt pinfo a children sa).1
      (Trk.specChildren C dt pinfo b (Trk.specChildren C dt pinfo a children sa).1 sb).1 pending
      (mixInto (zeros a) (Trk.specChildren C dt pinfo a children sa).2.1)
      (mixInto (zeros b) (Trk.specChildren C dt pinfo b (Trk.specChildren C dt pinfo a children sa).1 sb).2.1)
      (by simp) (by simp) _ _ _ c3
    -- the track after the first chunk is `node (data) (children after a) pending`
    have hnode : (Trk.specPost C dt pinfo a d (Trk.specChildren C dt pinfo a children sa).1 pending
        (mixInto (zeros a) (Trk.specChildren C dt pinfo a children sa).2.1)
        (Trk.specChildren C dt pinfo a children sa).2.2).1
        = .node (Trk.specPost C dt pinfo a d (Trk.specChildren C dt pinfo a children sa).1 pending
            (mixInto (zeros a) (Trk.specChildren C dt pinfo a children sa).2.1)
            (Trk.specChildren C dt pinfo a children sa).2.2).1.data
          (Trk.specChildren C dt pinfo a children sa).1 pending := by
      unfold Trk.specPost; rfl
    rw [hnode, Trk.spec_settled C dt pinfo b _ p1, hbus]
    refine ⟨?_, p3, p4, ⟨p1, c4⟩, p5, p6, ⟨p7, c7⟩⟩
    have hn2 : ∀ (n : Nat) (dd : TrkData ℝ S E P) (cc pp : List (Trk ℝ S E P)) (bus : List (Frame ℝ))
        (ss : List (SendTrk ℝ E)),
        (Trk.specPost C dt pinfo n dd cc pp bus ss).1 = .node (Trk.specPost C dt pinfo n dd cc pp bus ss).1.data cc pp := by
      intro n dd cc pp bus ss; unfold Trk.specPost; rfl
    rw [hn2 (a + b), hn2 b, p2, c1]
  · intro _ _ info a b _ sab sa sb hrel
    simp [Trk.specChildren, Trk.SettledList, Trk.CompsOkList, hrel]
  · intro t ts iht ihts hs hc info a b hab sab sa sb hrel
    obtain ⟨t1, t2, t3, t4, t5, t6, t7⟩ := iht hs.1 hc.1 info a b hab sab sa sb hrel
    obtain ⟨l1, l2, l3, l4, l5, l6, l7⟩ := ihts hs.2 hc.2 info a b hab _ _ _ t3
    simp only [Trk.specChildren]
    refine ⟨by rw [t1, l1], by rw [t2, l2]; rfl, l3, ⟨t4, l4⟩, ?_, by simp [l6], ⟨t7, l7⟩⟩
    intro x hx
    rcases List.mem_cons.mp hx with rfl | hx
    · exact t5
    · exact l5 x hx

theorem Trk.specChildren_hom_on (hC : C.LenPres) (dt : ℝ) (hH : C.ChunkHomOn IS IE B dt) (ts : List (Trk ℝ S E P)) :
    HomListAtOn C IS IE B dt ts := by
  induction ts with
  | nil =>
    intro _ _ info a b _ sab sa sb hrel
    simp [Trk.specChildren, Trk.SettledList, Trk.CompsOkList, hrel]
  | cons t ts ih =>
    intro hs hc info a b hab sab sa sb hrel
    obtain ⟨t1, t2, t3, t4, t5, t6, t7⟩ := Trk.spec_hom_on C hC dt hH t hs.1 hc.1 info a b hab sab sa sb hrel
    obtain ⟨l1, l2, l3, l4, l5, l6, l7⟩ := ih hs.2 hc.2 info a b hab _ _ _ t3
    simp only [Trk.specChildren]
    refine ⟨by rw [t1, l1], by rw [t2, l2]; rfl, l3, ⟨t4, l4⟩, ?_, by simp [l6], ⟨t7, l7⟩⟩
    intro x hx
    rcases List.mem_cons.mp hx with rfl | hx
    · exact t5
    · exact l5 x hx

/-- motive for one track -/
def HomAt (C : Comps ℝ S E P) (dt : ℝ) (t : Trk ℝ S E P) : Prop :=
  Trk.Settled t → ∀ (pinfo : Info ℝ) (a b : Nat) (sab sa sb : List (SendTrk ℝ E)), FeedRel a b sab sa sb →
    (Trk.spec C dt pinfo (a + b) t sab).1 = (Trk.spec C dt pinfo b (Trk.spec C dt pinfo a t sa).1 sb).1
      ∧ (Trk.spec C dt pinfo (a + b) t sab).2.1
          = (Trk.spec C dt pinfo a t sa).2.1 ++ (Trk.spec C dt pinfo b (Trk.spec C dt pinfo a t sa).1 sb).2.1
      ∧ FeedRel a b (Trk.spec C dt pinfo (a + b) t sab).2.2 (Trk.spec C dt pinfo a t sa).2.2
          (Trk.spec C dt pinfo b (Trk.spec C dt pinfo a t sa).1 sb).2.2
      ∧ Trk.Settled (Trk.spec C dt pinfo a t sa).1
      ∧ (Trk.spec C dt pinfo a t sa).2.1.length = a
      ∧ (Trk.spec C dt pinfo b (Trk.spec C dt pinfo a t sa).1 sb).2.1.length = b

/-- the unconditional version: the special case of trivial invariants -/
theorem Trk.spec_hom (hC : C.LenPres) (dt : ℝ) (hH : C.ChunkHom dt) (t : Trk ℝ S E P) : HomAt C dt t := by
  intro hs pinfo a b sab sa sb hrel
  obtain ⟨h1, h2, h3, h4, h5, h6, _⟩ := Trk.spec_hom_on C hC dt (Comps.ChunkHom.on C hH (a + b)) t hs
    (Trk.compsOk_true t) pinfo a b (Nat.le_refl _) sab sa sb hrel
  exact ⟨h1, h2, h3, h4, h5, h6⟩

/-! ### feeding only touches input buffers -/

/-- a send track with its input buffer blanked: everything a feed leaves alone -/
def SendTrk.core (s : SendTrk ℝ E) : SendTrk ℝ E := { s with input := [] }

theorem sendsAddInput_core (sends : List (SendTrk ℝ E)) (id : Nat) (buf : List (Frame ℝ)) (v : ℝ) :
    (sendsAddInput sends id buf v).map SendTrk.core = sends.map SendTrk.core := by
  unfold sendsAddInput
  rw [List.map_map]; apply List.map_congr_left
  intro s _; simp only [Function.comp]; split <;> simp [SendTrk.addInput, SendTrk.core]

theorem feedSends_core (routes : List (Route ℝ)) (out : List (Frame ℝ)) (sends : List (SendTrk ℝ E)) :
    (feedSends routes out sends).map SendTrk.core = sends.map SendTrk.core := by
  unfold feedSends
  induction routes generalizing sends with
  | nil => simp
  | cons r rs ih => simp only [List.foldl_cons]; rw [ih, sendsAddInput_core]

theorem Trk.spec_core (t : Trk ℝ S E P) :
    ∀ (dt : ℝ) (pinfo : Info ℝ) (n : Nat) (sends : List (SendTrk ℝ E)),
      (Trk.spec C dt pinfo n t sends).2.2.map SendTrk.core = sends.map SendTrk.core := by
  refine Trk.rec
    (motive_1 := fun t => ∀ (dt : ℝ) (pinfo : Info ℝ) (n : Nat) (sends : List (SendTrk ℝ E)),
      (Trk.spec C dt pinfo n t sends).2.2.map SendTrk.core = sends.map SendTrk.core)
    (motive_2 := fun ts => ∀ (dt : ℝ) (info : Info ℝ) (n : Nat) (sends : List (SendTrk ℝ E)),
      (Trk.specChildren C dt info n ts sends).2.2.map SendTrk.core = sends.map SendTrk.core) ?_ ?_ ?_ t
  · intro d children pending ihc _ dt pinfo n sends
    rw [Trk.spec]; dsimp only
    split
    · rfl
    · unfold Trk.specPost; dsimp only; rw [feedSends_core, ihc]
  · intro dt info n sends; simp [Trk.specChildren]
  · intro t ts iht ihts dt info n sends
    rw [Trk.specChildren]; dsimp only; rw [ihts, iht]

theorem Trk.specChildren_core (ts : List (Trk ℝ S E P)) (dt : ℝ) (info : Info ℝ) (n : Nat)
    (sends : List (SendTrk ℝ E)) :
    (Trk.specChildren C dt info n ts sends).2.2.map SendTrk.core = sends.map SendTrk.core := by
  induction ts generalizing sends with
  | nil => simp [Trk.specChildren]
  | cons t ts ih => rw [Trk.specChildren]; dsimp only; rw [ih, Trk.spec_core]

/-! ### send tracks -/

/-- a settled send track rendering `n ≤ |input|` frames from silence -/
theorem SendTrk.process_settled (s : SendTrk ℝ E) (hv : Parameter.Settled s.volume) (n : Nat) (hn : n ≤ s.input.length)
    (dt : ℝ) (info : Info ℝ) :
    s.process C (zeros n) dt info
      = ({ s with input := zeros s.input.length, effects := (runEffects C dt info s.effects (s.input.take n)).1 },
         (runEffects C dt info s.effects (s.input.take n)).2.map (fun f => Frame.scale f (asAmplitude s.volume.raw))) := by
  unfold SendTrk.process
  simp only [length_zeros, Parameter.settled_update32 s.volume hv, addInto_zeros_left_take s.input n hn, fillZero]
  have : (fun tic => asAmplitude (s.volume.interpolatedValue tw32 tic)) = fun _ => asAmplitude s.volume.raw := by
    funext tic; rw [Parameter.settled_interp s.volume hv]
  rw [this, gainLoop_const]

/-- the send pass is a chunk homomorphism: given the routed signals agree (`FeedRel`), the send tracks
    of the three runs agree outside their input buffers, and the third run's effects are the second's
    after its chunk -/
theorem specSends_hom_on (hC : C.LenPres) (dt : ℝ) (hH : C.ChunkHomOn IS IE B dt) (info : Info ℝ) (a b ibs : Nat)
    (hab : a + b ≤ B)
    (sab sa sb : List (SendTrk ℝ E)) (hrel : FeedRel a b sab sa sb)
    (h1 : sab.map SendTrk.core = sa.map SendTrk.core)
    (h2 : sb.map SendTrk.core = (specSends C dt info a sa).1.map SendTrk.core)
    (hl1 : ∀ s ∈ sab, s.input.length = ibs) (hl3 : ∀ s ∈ sb, s.input.length = ibs)
    (hv : ∀ s ∈ sa, Parameter.Settled s.volume) (hve : ∀ s ∈ sa, ∀ e ∈ s.effects, IE e) :
    (specSends C dt info (a + b) sab).1 = (specSends C dt info b sb).1
      ∧ (specSends C dt info (a + b) sab).2
          = List.zipWith (· ++ ·) (specSends C dt info a sa).2 (specSends C dt info b sb).2 := by
  induction sab generalizing sa sb with
  | nil => cases sa <;> cases sb <;> simp_all [FeedRel, specSends]
  | cons x xs ih =>
    cases sa with
    | nil => cases sb <;> simp [FeedRel] at hrel
    | cons y ys =>
      cases sb with
      | nil => simp [FeedRel] at hrel
      | cons z zs =>
        obtain ⟨_, _, l1, l2, l3, ht, hrest⟩ := hrel
        simp only [List.map_cons, List.cons.injEq] at h1
        have h2' : SendTrk.core z = SendTrk.core (y.process C (zeros a) dt info).1
            ∧ zs.map SendTrk.core = (specSends C dt info a ys).1.map SendTrk.core := by
          simpa [specSends] using h2
        obtain ⟨r1, r2⟩ := ih ys zs hrest h1.2 h2'.2 (fun s hs => hl1 s (by simp [hs])) (fun s hs => hl3 s (by simp [hs]))
          (fun s hs => hv s (by simp [hs])) (fun s hs => hve s (by simp [hs]))
        have hvy : Parameter.Settled y.volume := hv y (by simp)
        have hxy : x.volume = y.volume ∧ x.effects = y.effects ∧ x.id = y.id ∧ x.marked = y.marked ∧ x.cmdVolume = y.cmdVolume := by
          have := h1.1; simp only [SendTrk.core, SendTrk.mk.injEq] at this; tauto
        have hvx : Parameter.Settled x.volume := hxy.1 ▸ hvy
        rw [SendTrk.process_settled C y hvy a l2] at h2'
        have hzy : z.volume = y.volume ∧ z.effects = (runEffects C dt info y.effects (y.input.take a)).1
            ∧ z.id = y.id ∧ z.marked = y.marked ∧ z.cmdVolume = y.cmdVolume := by
          have := h2'.1; simp only [SendTrk.core, SendTrk.mk.injEq] at this; tauto
        have hvz : Parameter.Settled z.volume := hzy.1 ▸ hvy
        have px := SendTrk.process_settled C x hvx (a + b) l1 dt info
        have py := SendTrk.process_settled C y hvy a l2 dt info
        have pz := SendTrk.process_settled C z hvz b l3 dt info
        have hfx := runEffects_hom_on C hC dt hH info y.effects (hve y (by simp)) (y.input.take a) (z.input.take b)
          (by simp only [List.length_take]; omega)
        simp only [specSends, List.map_cons, List.zipWith_cons_cons, List.cons.injEq] at r1 r2 ⊢
        rw [px, py, pz, ht, hxy.2.1, hzy.2.1, hxy.1, hzy.1, hfx]
        refine ⟨⟨?_, r1⟩, ⟨by simp, r2⟩⟩
        have e1 : x.input.length = z.input.length := by rw [hl1 x (by simp), hl3 z (by simp)]
        cases x; cases z; simp_all

/-- the effects of settled send tracks keep their invariant through the send pass -/
theorem specSends_inv_on (hC : C.LenPres) (dt : ℝ) (hH : C.ChunkHomOn IS IE B dt) (info : Info ℝ) (n : Nat) (hn : n ≤ B)
    (ss : List (SendTrk ℝ E)) (hve : ∀ s ∈ ss, ∀ e ∈ s.effects, IE e) :
    ∀ s ∈ (specSends C dt info n ss).1, ∀ e ∈ s.effects, IE e := by
  intro s hs
  simp only [specSends, List.map_map, List.mem_map] at hs
  obtain ⟨s0, hs0, rfl⟩ := hs
  simp only [Function.comp, SendTrk.process]
  exact runEffects_inv_on C hC dt hH info s0.effects (hve s0 hs0) _ (by simp only [length_addInto, length_zeros]; exact hn)

theorem specSends_lengths (hC : C.LenPres) (dt : ℝ) (info : Info ℝ) (n : Nat) (ss : List (SendTrk ℝ E)) :
    (∀ x ∈ (specSends C dt info n ss).2, x.length = n) ∧ (specSends C dt info n ss).2.length = ss.length := by
  refine ⟨?_, by simp [specSends]⟩
  intro x hx
  simp only [specSends, List.map_map, List.mem_map] at hx
  obtain ⟨s, _, rfl⟩ := hx
  simp [SendTrk.length_process C hC]

theorem specSends_core (dt : ℝ) (info : Info ℝ) (n : Nat) (ss : List (SendTrk ℝ E))
    (hv : ∀ s ∈ ss, Parameter.Settled s.volume) :
    ∀ s ∈ (specSends C dt info n ss).1, Parameter.Settled s.volume := by
  intro s hs
  simp only [specSends, List.map_map, List.mem_map] at hs
  obtain ⟨s0, hs0, rfl⟩ := hs
  simp [SendTrk.process, Parameter.settled_update32 s0.volume (hv s0 hs0), hv s0 hs0]

/-! ### main track and mixer -/

theorem MainTrk.spec_hom_on (hC : C.LenPres) (dt : ℝ) (hH : C.ChunkHomOn IS IE B dt) (info : Info ℝ) (t : MainTrk ℝ S E)
    (hv : Parameter.Settled t.volume) (hsS : ∀ s ∈ t.sounds, IS s) (hsE : ∀ e ∈ t.effects, IE e)
    (bus1 bus2 : List (Frame ℝ)) (hl : bus1.length + bus2.length ≤ B) :
    (MainTrk.spec C t (bus1 ++ bus2) dt info).1
        = (MainTrk.spec C (MainTrk.spec C t bus1 dt info).1 bus2 dt info).1
      ∧ (MainTrk.spec C t (bus1 ++ bus2) dt info).2
        = (MainTrk.spec C t bus1 dt info).2 ++ (MainTrk.spec C (MainTrk.spec C t bus1 dt info).1 bus2 dt info).2
      ∧ Parameter.Settled (MainTrk.spec C t bus1 dt info).1.volume
      ∧ (∀ s ∈ (MainTrk.spec C t bus1 dt info).1.sounds, IS s)
      ∧ (∀ e ∈ (MainTrk.spec C t bus1 dt info).1.effects, IE e) := by
  have hg : (fun tic => asAmplitude (t.volume.interpolatedValue tw32 tic)) = fun _ => asAmplitude t.volume.raw := by
    funext tic; rw [Parameter.settled_interp t.volume hv]
  obtain ⟨la, lla, _⟩ := specSounds_lengths C hC dt info bus1.length t.sounds
  obtain ⟨_, llb, _⟩ := specSounds_lengths C hC dt info bus2.length (specSounds C dt info bus1.length t.sounds).1
  have hmix : mixInto (bus1 ++ bus2) (specSounds C dt info (bus1.length + bus2.length) t.sounds).2
      = mixInto bus1 (specSounds C dt info bus1.length t.sounds).2
        ++ mixInto bus2 (specSounds C dt info bus2.length (specSounds C dt info bus1.length t.sounds).1).2 := by
    rw [specSounds_hom_on C dt hH info _ _ hl t.sounds hsS]
    exact mixInto_hom bus1 bus2 _ _ (fun x hx => la x hx)
      (by rw [lla, llb, (specSounds_lengths C hC dt info bus1.length t.sounds).2.2])
  have hfx := runEffects_hom_on C hC dt hH info t.effects hsE (mixInto bus1 (specSounds C dt info bus1.length t.sounds).2)
    (mixInto bus2 (specSounds C dt info bus2.length (specSounds C dt info bus1.length t.sounds).1).2)
    (by simp only [length_mixInto]; exact hl)
  have hinvS := specSounds_inv_on C dt hH info bus1.length (by omega) t.sounds hsS
  have hinvE := runEffects_inv_on C hC dt hH info t.effects hsE (mixInto bus1 (specSounds C dt info bus1.length t.sounds).2)
    (by simp only [length_mixInto]; omega)
  unfold MainTrk.spec
  simp only [List.length_append, Parameter.settled_update32 t.volume hv, hg, gainLoop_const]
  rw [hmix, hfx]
  refine ⟨?_, by simp, hv, hinvS, hinvE⟩
  simp [specSounds_hom_on C dt hH info bus1.length bus2.length hl t.sounds hsS]

/-- a mixer in which nothing is moving: every sub-track settled, main and send volumes settled -/
structure Mixer.Settled (m : Mixer ℝ S E P) : Prop where
  subs : Trk.SettledList m.subTracks
  main : Parameter.Settled m.main.volume
  sends : ∀ s ∈ m.sendTracks, Parameter.Settled s.volume

theorem feedRel_zeros (a b ibs : Nat) (hab : a + b ≤ ibs) (xs ys zs : List (SendTrk ℝ E))
    (h1 : xs.map (·.id) = ys.map (·.id)) (h2 : ys.map (·.id) = zs.map (·.id))
    (hx : ∀ s ∈ xs, s.input = zeros ibs) (hy : ∀ s ∈ ys, s.input = zeros ibs) (hz : ∀ s ∈ zs, s.input = zeros ibs) :
    FeedRel a b xs ys zs := by
  induction xs generalizing ys zs with
  | nil => cases ys <;> cases zs <;> simp_all [FeedRel]
  | cons x xs ih =>
    cases ys with
    | nil => simp at h1
    | cons y ys =>
      cases zs with
      | nil => simp at h2
      | cons z zs =>
        simp only [List.map_cons, List.cons.injEq] at h1 h2
        refine ⟨h1.1, h2.1, ?_, ?_, ?_, ?_, ih ys zs h1.2 h2.2 (fun s hs => hx s (by simp [hs]))
          (fun s hs => hy s (by simp [hs])) (fun s hs => hz s (by simp [hs]))⟩
        · rw [hx x (by simp)]; simpa using hab
        · rw [hy y (by simp)]; simp; omega
        · rw [hz z (by simp)]; simp; omega
        · rw [hx x (by simp), hy y (by simp), hz z (by simp), take_zeros _ _ hab, take_zeros _ _ (by omega),
            take_zeros _ _ (by omega), zeros_append]

theorem specSends_ids (dt : ℝ) (info : Info ℝ) (n : Nat) (ss : List (SendTrk ℝ E)) :
    (specSends C dt info n ss).1.map (·.id) = ss.map (·.id) := by
  simp [specSends, List.map_map, Function.comp_def, SendTrk.process]

theorem core_ids (xs ys : List (SendTrk ℝ E)) (h : xs.map SendTrk.core = ys.map SendTrk.core) :
    xs.map (·.id) = ys.map (·.id) := by
  have := congrArg (List.map (fun s : SendTrk ℝ E => s.id)) h
  simpa [List.map_map, Function.comp_def, SendTrk.core] using this

/-- every sound and effect the mixer processes (arenas of the tree, send tracks, main track) satisfies
    the component invariants -/
structure Mixer.CompsOk (IS : S → Prop) (IE : E → Prop) (m : Mixer ℝ S E P) : Prop where
  subs : Trk.CompsOkList IS IE m.subTracks
  mainS : ∀ s ∈ m.main.sounds, IS s
  mainE : ∀ e ∈ m.main.effects, IE e
  sends : ∀ s ∈ m.sendTracks, ∀ e ∈ s.effects, IE e

theorem Mixer.compsOk_true (m : Mixer ℝ S E P) : Mixer.CompsOk (fun _ => True) (fun _ => True) m :=
  ⟨Trk.compsOkList_true _, fun _ _ => trivial, fun _ _ => trivial, fun _ _ _ _ => trivial⟩

/-- **chunk homomorphism of the whole mixer** (on the specification), relative to component invariants:
    components chunk-homomorphic on `IS` / `IE` for slices of at most `B ≥ ibs` frames -/
theorem Mixer.spec_hom_on (hC : C.LenPres) (dt : ℝ) (hH : C.ChunkHomOn IS IE B dt) (info : Info ℝ) (ibs : Nat)
    (hB : ibs ≤ B)
    (m : Mixer ℝ S E P) (hm : Mixer.Clean ibs m) (hs : Mixer.Settled m) (hc : Mixer.CompsOk IS IE m)
    (a b : Nat) (hab : a + b ≤ ibs) :
    Mixer.spec C m (a + b) dt info
      = ((Mixer.spec C (Mixer.spec C m a dt info).1 b dt info).1,
         (Mixer.spec C m a dt info).2 ++ (Mixer.spec C (Mixer.spec C m a dt info).1 b dt info).2)
      ∧ Mixer.Settled (Mixer.spec C m a dt info).1
      ∧ Mixer.CompsOk IS IE (Mixer.spec C m a dt info).1 := by
  have habB : a + b ≤ B := by omega
  have hlen : SendsLen ibs m.sendTracks := fun s hs' => by rw [hm.sends s hs']; simp
  -- the send tracks after the first chunk: clean inputs, same ids
  have hclean1 := specSends_inputs_clean C dt info ibs a _
    (Trk.specChildren_sendsLen C ibs m.subTracks dt info a m.sendTracks hlen)
  have hcoreA := Trk.specChildren_core C m.subTracks dt info a m.sendTracks
  have hid1 : (specSends C dt info a (Trk.specChildren C dt info a m.subTracks m.sendTracks).2.2).1.map (·.id)
      = m.sendTracks.map (·.id) := by rw [specSends_ids, core_ids _ _ hcoreA]
  have hrel0 : FeedRel a b m.sendTracks m.sendTracks
      (specSends C dt info a (Trk.specChildren C dt info a m.subTracks m.sendTracks).2.2).1 :=
    feedRel_zeros a b ibs hab _ _ _ rfl hid1.symm hm.sends hm.sends hclean1
  obtain ⟨c1, c2, c3, c4, c5, c6, c7⟩ :=
    Trk.specChildren_hom_on C hC dt hH m.subTracks hs.subs hc.subs info a b habB _ _ _ hrel0
  -- settledness of the send volumes, invariants of the send effects along the way
  have hvA : ∀ s ∈ (Trk.specChildren C dt info a m.subTracks m.sendTracks).2.2, Parameter.Settled s.volume := by
    intro s hs'
    have hmem : SendTrk.core s ∈ m.sendTracks.map SendTrk.core := by rw [← hcoreA]; exact List.mem_map_of_mem hs'
    obtain ⟨s0, hs0, e⟩ := List.mem_map.mp hmem
    have : s.volume = s0.volume := by
      have := congrArg SendTrk.volume e; simpa [SendTrk.core] using this.symm
    rw [this]; exact hs.sends s0 hs0
  have hveA : ∀ s ∈ (Trk.specChildren C dt info a m.subTracks m.sendTracks).2.2, ∀ e ∈ s.effects, IE e := by
    intro s hs'
    have hmem : SendTrk.core s ∈ m.sendTracks.map SendTrk.core := by rw [← hcoreA]; exact List.mem_map_of_mem hs'
    obtain ⟨s0, hs0, e⟩ := List.mem_map.mp hmem
    have : s.effects = s0.effects := by
      have := congrArg SendTrk.effects e; simpa [SendTrk.core] using this.symm
    rw [this]; exact hc.sends s0 hs0
  set M1 := (Mixer.spec C m a dt info).1 with hM1
  have hM1sends : M1.sendTracks = (specSends C dt info a (Trk.specChildren C dt info a m.subTracks m.sendTracks).2.2).1 := rfl
  have hM1subs : M1.subTracks = (Trk.specChildren C dt info a m.subTracks m.sendTracks).1 := rfl
  obtain ⟨_, _, mv, mS, mE⟩ := MainTrk.spec_hom_on C hC dt hH info m.main hs.main hc.mainS hc.mainE
    (mixInto (mixInto (zeros a) (Trk.specChildren C dt info a m.subTracks m.sendTracks).2.1)
      (specSends C dt info a (Trk.specChildren C dt info a m.subTracks m.sendTracks).2.2).2) []
    (by simp only [length_mixInto, length_zeros, List.length_nil]; omega)
  have hsettled1 : Mixer.Settled M1 := ⟨c4, mv, specSends_core C dt info a _ hvA⟩
  have hcomps1 : Mixer.CompsOk IS IE M1 :=
    ⟨c7, mS, mE, specSends_inv_on C hC dt hH info a (by omega) _ hveA⟩
  refine ⟨?_, hsettled1, hcomps1⟩
  -- send pass
  have hcoreAB := Trk.specChildren_core C m.subTracks dt info (a + b) m.sendTracks
  have hcoreB := Trk.specChildren_core C M1.subTracks dt info b M1.sendTracks
  have hlenAB := Trk.specChildren_sendsLen C ibs m.subTracks dt info (a + b) m.sendTracks hlen
  have hlenB := Trk.specChildren_sendsLen C ibs M1.subTracks dt info b M1.sendTracks
    (fun s hs' => by rw [hM1sends] at hs'; rw [hclean1 s hs']; simp)
  obtain ⟨s1, s2⟩ := specSends_hom_on C hC dt hH info a b ibs habB
    (Trk.specChildren C dt info (a + b) m.subTracks m.sendTracks).2.2
    (Trk.specChildren C dt info a m.subTracks m.sendTracks).2.2
    (Trk.specChildren C dt info b M1.subTracks M1.sendTracks).2.2
    (by rw [hM1subs, hM1sends]; exact c3) (by rw [hcoreAB, hcoreA]) (by rw [hcoreB, hM1sends]) hlenAB hlenB hvA hveA
  -- buses
  obtain ⟨sa1, sa2⟩ := specSends_lengths C hC dt info a (Trk.specChildren C dt info a m.subTracks m.sendTracks).2.2
  obtain ⟨_, sb2⟩ := specSends_lengths C hC dt info b (Trk.specChildren C dt info b M1.subTracks M1.sendTracks).2.2
  have hbus : mixInto (mixInto (zeros (a + b)) (Trk.specChildren C dt info (a + b) m.subTracks m.sendTracks).2.1)
        (specSends C dt info (a + b) (Trk.specChildren C dt info (a + b) m.subTracks m.sendTracks).2.2).2
      = mixInto (mixInto (zeros a) (Trk.specChildren C dt info a m.subTracks m.sendTracks).2.1)
          (specSends C dt info a (Trk.specChildren C dt info a m.subTracks m.sendTracks).2.2).2
        ++ mixInto (mixInto (zeros b) (Trk.specChildren C dt info b M1.subTracks M1.sendTracks).2.1)
          (specSends C dt info b (Trk.specChildren C dt info b M1.subTracks M1.sendTracks).2.2).2 := by
    rw [s2, c2, ← zeros_append, hM1subs, hM1sends]
    rw [mixInto_hom (zeros a) (zeros b) _ _ (fun x hx => by rw [c5 x hx]; simp) c6]
    refine mixInto_hom _ _ _ _ (fun x hx => by rw [sa1 x hx]; simp) ?_
    rw [sa2, ← hM1subs, ← hM1sends, sb2]
    have e1 := congrArg List.length hcoreA
    have e2 := congrArg List.length hcoreB
    have e3 := congrArg List.length hid1
    simp only [List.length_map] at e1 e2 e3
    rw [e1, e2, hM1sends, e3]
  obtain ⟨m1, m2, _⟩ := MainTrk.spec_hom_on C hC dt hH info m.main hs.main hc.mainS hc.mainE
    (mixInto (mixInto (zeros a) (Trk.specChildren C dt info a m.subTracks m.sendTracks).2.1)
      (specSends C dt info a (Trk.specChildren C dt info a m.subTracks m.sendTracks).2.2).2)
    (mixInto (mixInto (zeros b) (Trk.specChildren C dt info b M1.subTracks M1.sendTracks).2.1)
      (specSends C dt info b (Trk.specChildren C dt info b M1.subTracks M1.sendTracks).2.2).2)
    (by simp only [length_mixInto, length_zeros]; exact habB)
  have hM1main : M1.main = (MainTrk.spec C m.main
      (mixInto (mixInto (zeros a) (Trk.specChildren C dt info a m.subTracks m.sendTracks).2.1)
        (specSends C dt info a (Trk.specChildren C dt info a m.subTracks m.sendTracks).2.2).2) dt info).1 := rfl
  show Mixer.spec C m (a + b) dt info = _
  unfold Mixer.spec
  simp only [hbus]
  rw [Prod.mk.injEq]
  constructor
  · have e1 : (Trk.specChildren C dt info (a + b) m.subTracks m.sendTracks).1
        = (Trk.specChildren C dt info b M1.subTracks M1.sendTracks).1 := by rw [c1, hM1subs, hM1sends]
    rw [e1, s1, m1]
    rfl
  · rw [m2]; rfl

/-- **chunk homomorphism of the whole mixer** (on the specification): the unconditional version, the
    special case of trivial invariants -/
theorem Mixer.spec_hom (hC : C.LenPres) (dt : ℝ) (hH : C.ChunkHom dt) (info : Info ℝ) (ibs : Nat)
    (m : Mixer ℝ S E P) (hm : Mixer.Clean ibs m) (hs : Mixer.Settled m) (a b : Nat) (hab : a + b ≤ ibs) :
    Mixer.spec C m (a + b) dt info
      = ((Mixer.spec C (Mixer.spec C m a dt info).1 b dt info).1,
         (Mixer.spec C m a dt info).2 ++ (Mixer.spec C (Mixer.spec C m a dt info).1 b dt info).2)
      ∧ Mixer.Settled (Mixer.spec C m a dt info).1 := by
  obtain ⟨h1, h2, _⟩ := Mixer.spec_hom_on C hC dt (Comps.ChunkHom.on C hH ibs) info ibs (Nat.le_refl _) m hm hs
    (Mixer.compsOk_true m) a b hab
  exact ⟨h1, h2⟩

end
end K
