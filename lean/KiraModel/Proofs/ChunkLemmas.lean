/-
  ChunkLemmas.lean — chunk homomorphism (C11): rendering `a + b` frames in one chunk equals rendering
  `a` frames and then `b` frames, for settled parameters and chunk-homomorphic components; lifted through
  tracks, send tracks, main track, mixer and the renderer's chunk loop.  Over ℝ.
-/
import KiraModel.Proofs.FlowLemmas
import KiraModel.Proofs.RealOps

set_option linter.unusedSectionVars false

namespace K

/-! ### buffers -/

theorem take_addInto (o s : List (Frame ℝ)) (n : Nat) (hs : s.length = n) (hn : n ≤ o.length) :
    (addInto o s).take n = addInto (o.take n) s := by
  induction o generalizing s n with
  | nil =>
    have : n = 0 := by simpa using hn
    subst this; cases s <;> simp_all
  | cons x xs ih =>
    cases s with
    | nil => simp at hs; subst hs; simp
    | cons y ys =>
      cases n with
      | zero => simp at hs
      | succ k => simp [addInto, ih ys k (by simpa using hs) (by simpa using hn)]

theorem addInto_zeros_left_take (inp : List (Frame ℝ)) (n : Nat) (h : n ≤ inp.length) :
    addInto (zeros n) inp = inp.take n := by
  induction n generalizing inp with
  | zero => simp [zeros]
  | succ k ih =>
    cases inp with
    | nil => simp at h
    | cons x xs =>
      have : (zeros (k + 1) : List (Frame ℝ)) = Frame.zero :: zeros k := by simp [zeros, List.replicate_succ]
      rw [this, addInto, List.take_succ_cons, ih xs (by simpa using h)]
      congr 1
      cases x; simp [Frame.add, Frame.zero]

theorem mixInto_hom (b1 b2 : List (Frame ℝ)) (xs ys : List (List (Frame ℝ)))
    (hx : ∀ x ∈ xs, x.length = b1.length) (hl : xs.length = ys.length) :
    mixInto (b1 ++ b2) (List.zipWith (· ++ ·) xs ys) = mixInto b1 xs ++ mixInto b2 ys := by
  induction xs generalizing ys b1 b2 with
  | nil => cases ys with
    | nil => simp [mixInto]
    | cons _ _ => simp at hl
  | cons x xs ih =>
    cases ys with
    | nil => simp at hl
    | cons y ys =>
      simp only [List.zipWith_cons_cons, mixInto, List.foldl_cons]
      rw [addInto_append b1 b2 x y (hx x (by simp))]
      exact ih (addInto b1 x) (addInto b2 y) ys (fun z hz => by rw [length_addInto]; exact hx z (by simp [hz]))
        (by simpa using hl)

theorem gainLoop_const (k : ℝ) (n i : Nat) (l : List (Frame ℝ)) :
    gainLoop (fun _ => k) n i l = l.map (fun f => Frame.scale f k) := by
  induction l generalizing i with
  | nil => simp [gainLoop]
  | cons x xs ih => simp [gainLoop, ih]

/-! ### settled parameters -/

/-- a parameter that is not moving: stagnant, previous value = current value -/
def Parameter.Settled (p : Parameter ℝ ℝ) : Prop := p.stagnant = true ∧ p.prev = p.raw

theorem Parameter.settled_update (p : Parameter ℝ ℝ) (h : p.Settled) (dt : ℝ) (info : Info ℝ) :
    (p.update tw32 dt info).1 = p := by
  unfold Parameter.update
  simp only [h.1, if_true]
  cases p; simp_all [Parameter.Settled]

theorem Parameter.settled_interp (p : Parameter ℝ ℝ) (h : p.Settled) (tic : ℝ) :
    p.interpolatedValue tw32 tic = p.raw := by
  simp [Parameter.interpolatedValue, tw32, lerp32, h.2]

/-- simply playing, fade not moving -/
def Psm.Settled (m : Psm ℝ) : Prop := m.state = .playing ∧ Parameter.Settled m.fade

theorem Psm.settled_update (m : Psm ℝ) (h : m.Settled) (dt : ℝ) (info : Info ℝ) :
    m.update dt info = (m, false) := by
  unfold Psm.update
  simp only [h.1, Parameter.settled_update m.fade h.2]
  cases m; simp_all [Psm.Settled]

section
variable {S E P : Type} (C : Comps ℝ S E P)

/-- all of the track's own parameters are settled, it is simply playing, and it is not spatial -/
def TrkData.Settled (d : TrkData ℝ S E P) : Prop :=
  Parameter.Settled d.volume ∧ Psm.Settled d.psm ∧ (∀ r ∈ d.routes, Parameter.Settled r.volume) ∧ d.spatial = none

theorem Trk.preUpdate_settled (dt : ℝ) (info : Info ℝ) (n : Nat) (d : TrkData ℝ S E P) (h : d.Settled) :
    Trk.preUpdate dt info n d = d := by
  obtain ⟨hv, hp, hr, _⟩ := h
  unfold Trk.preUpdate
  simp only [Psm.settled_update d.psm hp, Parameter.settled_update d.volume hv, Bool.false_eq_true, if_false]
  have : d.routes.map (fun (r : Route ℝ) => ({ r with volume := (r.volume.update tw32 (dt * (KOps.ofNat n : ℝ)) info).1 } : Route ℝ))
      = d.routes := by
    conv => rhs; rw [← List.map_id d.routes]
    apply List.map_congr_left
    intro r hr'; simp [Parameter.settled_update r.volume (hr r hr')]
  rw [this]

theorem Trk.frameGain_settled (d : TrkData ℝ S E P) (h : d.Settled) :
    Trk.frameGain d.volume d.psm = fun _ => asAmplitude d.volume.raw * asAmplitude d.psm.fade.raw := by
  funext tic
  simp [Trk.frameGain, Psm.interpolatedFadeVolume, Parameter.settled_interp _ h.1,
    Parameter.settled_interp _ h.2.1.2]

mutual
/-- every track of the inserted subtree is settled -/
def Trk.Settled : Trk ℝ S E P → Prop
  | .node d children _ => d.Settled ∧ Trk.SettledList children
def Trk.SettledList : List (Trk ℝ S E P) → Prop
  | [] => True
  | t :: ts => Trk.Settled t ∧ Trk.SettledList ts
end

/-! ### chunk-homomorphic components -/

/-- Rendering `a + b` frames at once is rendering `a` frames and then `b` frames (per-frame state
    advance), for the constant `dt` and any constant `Info`. -/
structure Comps.ChunkHom (C : Comps ℝ S E P) (dt : ℝ) : Prop where
  snd : ∀ s info a b, C.sndStep s (zeros (a + b)) dt info
    = ((C.sndStep (C.sndStep s (zeros a) dt info).1 (zeros b) dt info).1,
       (C.sndStep s (zeros a) dt info).2 ++ (C.sndStep (C.sndStep s (zeros a) dt info).1 (zeros b) dt info).2)
  fx : ∀ e info xs ys, C.fxStep e (xs ++ ys) dt info
    = ((C.fxStep (C.fxStep e xs dt info).1 ys dt info).1,
       (C.fxStep e xs dt info).2 ++ (C.fxStep (C.fxStep e xs dt info).1 ys dt info).2)

theorem specSounds_hom (dt : ℝ) (hH : C.ChunkHom dt) (info : Info ℝ) (a b : Nat) (ss : List S) :
    specSounds C dt info (a + b) ss
      = ((specSounds C dt info b (specSounds C dt info a ss).1).1,
         List.zipWith (· ++ ·) (specSounds C dt info a ss).2 (specSounds C dt info b (specSounds C dt info a ss).1).2) := by
  induction ss with
  | nil => simp [specSounds]
  | cons s ss ih =>
    simp only [specSounds, List.map_cons, Prod.mk.injEq] at ih ⊢
    rw [hH.snd s info a b]
    exact ⟨by simp [ih.1], by simp [ih.2]⟩

theorem specSounds_lengths (hC : C.LenPres) (dt : ℝ) (info : Info ℝ) (n : Nat) (ss : List S) :
    (∀ x ∈ (specSounds C dt info n ss).2, x.length = n) ∧ (specSounds C dt info n ss).2.length = ss.length
      ∧ (specSounds C dt info n ss).1.length = ss.length := by
  refine ⟨?_, by simp [specSounds], by simp [specSounds]⟩
  intro x hx
  simp only [specSounds, List.map_map, List.mem_map] at hx
  obtain ⟨s, _, rfl⟩ := hx
  simp [hC.snd]

theorem runEffects_hom (dt : ℝ) (hH : C.ChunkHom dt) (info : Info ℝ) (es : List E)
    (xs ys : List (Frame ℝ)) :
    runEffects C dt info es (xs ++ ys)
      = ((runEffects C dt info (runEffects C dt info es xs).1 ys).1,
         (runEffects C dt info es xs).2 ++ (runEffects C dt info (runEffects C dt info es xs).1 ys).2) := by
  induction es generalizing xs ys with
  | nil => simp [runEffects]
  | cons e es ih =>
    simp only [runEffects]
    rw [hH.fx e info xs ys]
    dsimp only
    rw [ih]

/-! ### what reaches the send tracks -/

/-- The input buffers of the send tracks in three runs — one chunk of `a + b` frames (`sab`), and the
    two chunks of `a` and `b` frames (`sa`, `sb`) — hold the same routed signal: same send tracks in the
    same order, and the first `a + b` frames of the one are the first `a` then the first `b` of the others. -/
def FeedRel (a b : Nat) : List (SendTrk ℝ E) → List (SendTrk ℝ E) → List (SendTrk ℝ E) → Prop
  | [], [], [] => True
  | x :: xs, y :: ys, z :: zs =>
    x.id = y.id ∧ y.id = z.id ∧ a + b ≤ x.input.length ∧ a ≤ y.input.length ∧ b ≤ z.input.length
      ∧ x.input.take (a + b) = y.input.take a ++ z.input.take b ∧ FeedRel a b xs ys zs
  | _, _, _ => False

theorem sendsAddInput_feedRel (a b : Nat) (sab sa sb : List (SendTrk ℝ E)) (h : FeedRel a b sab sa sb)
    (id : Nat) (y1 y2 : List (Frame ℝ)) (h1 : y1.length = a) (h2 : y2.length = b) (v : ℝ) :
    FeedRel a b (sendsAddInput sab id (y1 ++ y2) v) (sendsAddInput sa id y1 v) (sendsAddInput sb id y2 v) := by
  induction sab generalizing sa sb with
  | nil =>
    cases sa <;> cases sb <;> simp_all [FeedRel, sendsAddInput]
  | cons x xs ih =>
    cases sa with
    | nil => cases sb <;> simp [FeedRel] at h
    | cons y ys =>
      cases sb with
      | nil => simp [FeedRel] at h
      | cons z zs =>
        obtain ⟨e1, e2, l1, l2, l3, ht, hrest⟩ := h
        have hrec := ih ys zs hrest
        simp only [sendsAddInput, List.map_cons] at hrec ⊢
        by_cases hid : x.id = id
        · have hy : y.id = id := by rw [← e1]; exact hid
          have hz : z.id = id := by rw [← e2]; exact hy
          simp only [hid, hy, hz, if_true, FeedRel]
          refine ⟨by simp [SendTrk.addInput, hid, hy], ?_, ?_, ?_, ?_, ?_, hrec⟩
          · simp [SendTrk.addInput, hy, hz]
          · simpa [SendTrk.addInput] using l1
          · simpa [SendTrk.addInput] using l2
          · simpa [SendTrk.addInput] using l3
          · simp only [SendTrk.addInput, List.map_append]
            set s1 := y1.map (fun f => Frame.scale f (asAmplitude v))
            set s2 := y2.map (fun f => Frame.scale f (asAmplitude v))
            have hs1 : s1.length = a := by simp [s1, h1]
            have hs2 : s2.length = b := by simp [s2, h2]
            rw [take_addInto x.input (s1 ++ s2) (a + b) (by simp [hs1, hs2]) l1, ht,
              addInto_append _ _ s1 s2 (by simp [hs1, l2]),
              take_addInto y.input s1 a hs1 l2, take_addInto z.input s2 b hs2 l3]
        · have hy : ¬ y.id = id := by rw [← e1]; exact hid
          have hz : ¬ z.id = id := by rw [← e2]; exact hy
          simp only [hid, hy, hz, if_false, FeedRel]
          exact ⟨e1, e2, l1, l2, l3, ht, hrec⟩

theorem feedSends_feedRel (a b : Nat) (routes : List (Route ℝ)) (sab sa sb : List (SendTrk ℝ E))
    (h : FeedRel a b sab sa sb) (y1 y2 : List (Frame ℝ)) (h1 : y1.length = a) (h2 : y2.length = b) :
    FeedRel a b (feedSends routes (y1 ++ y2) sab) (feedSends routes y1 sa) (feedSends routes y2 sb) := by
  unfold feedSends
  induction routes generalizing sab sa sb with
  | nil => simpa using h
  | cons r rs ih =>
    simp only [List.foldl_cons]
    exact ih _ _ _ (sendsAddInput_feedRel a b sab sa sb h r.to y1 y2 h1 h2 _)

/-! ### tracks -/

theorem Trk.spec_settled (dt : ℝ) (pinfo : Info ℝ) (n : Nat) (d : TrkData ℝ S E P) (hd : d.Settled)
    (children pending : List (Trk ℝ S E P)) (sends : List (SendTrk ℝ E)) :
    Trk.spec C dt pinfo n (.node d children pending) sends
      = Trk.specPost C dt pinfo n d (Trk.specChildren C dt pinfo n children sends).1 pending
          (mixInto (zeros n) (Trk.specChildren C dt pinfo n children sends).2.1)
          (Trk.specChildren C dt pinfo n children sends).2.2 := by
  have hinfo : Trk.trackInfo C d pinfo = pinfo := by simp [Trk.trackInfo, hd.2.2.2]
  rw [Trk.spec]
  simp only [hinfo, Trk.preUpdate_settled dt pinfo n d hd]
  have : Trk.advancing d = true := by
    simp [Trk.advancing, Psm.playbackState, hd.2.1.1, PlaybackState.isAdvancing]
  simp [this]

/-- the settled tail of a track: `y = g · E(bus + Σ sounds)` with a constant gain `g` -/
theorem Trk.specPost_settled (dt : ℝ) (info : Info ℝ) (n : Nat) (d : TrkData ℝ S E P) (hd : d.Settled)
    (children pending : List (Trk ℝ S E P)) (bus : List (Frame ℝ)) (sends : List (SendTrk ℝ E)) :
    Trk.specPost C dt info n d children pending bus sends
      = (.node { d with sounds := (specSounds C dt info n d.sounds).1,
                        effects := (runEffects C dt info d.effects (mixInto bus (specSounds C dt info n d.sounds).2)).1 }
            children pending,
          (runEffects C dt info d.effects (mixInto bus (specSounds C dt info n d.sounds).2)).2.map
            (fun f => Frame.scale f (asAmplitude d.volume.raw * asAmplitude d.psm.fade.raw)),
          feedSends d.routes ((runEffects C dt info d.effects (mixInto bus (specSounds C dt info n d.sounds).2)).2.map
            (fun f => Frame.scale f (asAmplitude d.volume.raw * asAmplitude d.psm.fade.raw))) sends) := by
  unfold Trk.specPost
  simp only [Trk.spatialStage, hd.2.2.2, Trk.frameGain_settled d hd, gainLoop_const]

theorem Trk.specPost_hom (hC : C.LenPres) (dt : ℝ) (hH : C.ChunkHom dt) (info : Info ℝ) (a b : Nat)
    (d : TrkData ℝ S E P) (hd : d.Settled) (cab ca cb pending : List (Trk ℝ S E P))
    (bus1 bus2 : List (Frame ℝ)) (h1 : bus1.length = a) (h2 : bus2.length = b)
    (sab sa sb : List (SendTrk ℝ E)) (hrel : FeedRel a b sab sa sb) :
    (Trk.specPost C dt info a d ca pending bus1 sa).1.data.Settled
      ∧ (Trk.specPost C dt info (a + b) d cab pending (bus1 ++ bus2) sab).1.data
          = (Trk.specPost C dt info b (Trk.specPost C dt info a d ca pending bus1 sa).1.data cb pending bus2 sb).1.data
      ∧ (Trk.specPost C dt info (a + b) d cab pending (bus1 ++ bus2) sab).2.1
          = (Trk.specPost C dt info a d ca pending bus1 sa).2.1
            ++ (Trk.specPost C dt info b (Trk.specPost C dt info a d ca pending bus1 sa).1.data cb pending bus2 sb).2.1
      ∧ FeedRel a b (Trk.specPost C dt info (a + b) d cab pending (bus1 ++ bus2) sab).2.2
          (Trk.specPost C dt info a d ca pending bus1 sa).2.2
          (Trk.specPost C dt info b (Trk.specPost C dt info a d ca pending bus1 sa).1.data cb pending bus2 sb).2.2
      ∧ (Trk.specPost C dt info a d ca pending bus1 sa).2.1.length = a
      ∧ (Trk.specPost C dt info b (Trk.specPost C dt info a d ca pending bus1 sa).1.data cb pending bus2 sb).2.1.length = b := by
  have hda : ({ d with sounds := (specSounds C dt info a d.sounds).1,
                       effects := (runEffects C dt info d.effects (mixInto bus1 (specSounds C dt info a d.sounds).2)).1 }
      : TrkData ℝ S E P).Settled := hd
  rw [Trk.specPost_settled C dt info a d hd, Trk.specPost_settled C dt info (a + b) d hd]
  simp only [Trk.data]
  rw [Trk.specPost_settled C dt info b _ hda]
  simp only [Trk.data]
  obtain ⟨la, lla, _⟩ := specSounds_lengths C hC dt info a d.sounds
  obtain ⟨lb, llb, _⟩ := specSounds_lengths C hC dt info b (specSounds C dt info a d.sounds).1
  have hmix : mixInto (bus1 ++ bus2) (specSounds C dt info (a + b) d.sounds).2
      = mixInto bus1 (specSounds C dt info a d.sounds).2
        ++ mixInto bus2 (specSounds C dt info b (specSounds C dt info a d.sounds).1).2 := by
    rw [specSounds_hom C dt hH info a b d.sounds]
    exact mixInto_hom bus1 bus2 _ _ (fun x hx => by rw [la x hx, h1])
      (by rw [lla, llb, (specSounds_lengths C hC dt info a d.sounds).2.2])
  have hfx := runEffects_hom C dt hH info d.effects (mixInto bus1 (specSounds C dt info a d.sounds).2)
    (mixInto bus2 (specSounds C dt info b (specSounds C dt info a d.sounds).1).2)
  refine ⟨hda, ?_, ?_, ?_, ?_, ?_⟩
  · rw [hmix, hfx]; simp [specSounds_hom C dt hH info a b d.sounds]
  · rw [hmix, hfx]; simp
  · rw [hmix, hfx]
    simp only [List.map_append]
    exact feedSends_feedRel a b d.routes sab sa sb hrel _ _
      (by simp [length_runEffects C hC, h1]) (by simp [length_runEffects C hC, h2])
  · simp [length_runEffects C hC, h1]
  · simp [length_runEffects C hC, h2]

/-- motive for one track -/
def HomAt (C : Comps ℝ S E P) (dt : ℝ) (t : Trk ℝ S E P) : Prop :=
  Trk.Settled t → ∀ (pinfo : Info ℝ) (a b : Nat) (sab sa sb : List (SendTrk ℝ E)), FeedRel a b sab sa sb →
    (Trk.spec C dt pinfo (a + b) t sab).1 = (Trk.spec C dt pinfo b (Trk.spec C dt pinfo a t sa).1 sb).1
      ∧ (Trk.spec C dt pinfo (a + b) t sab).2.1
          = (Trk.spec C dt pinfo a t sa).2.1 ++ (Trk.spec C dt pinfo b (Trk.spec C dt pinfo a t sa).1 sb).2.1
      ∧ FeedRel a b (Trk.spec C dt pinfo (a + b) t sab).2.2 (Trk.spec C dt pinfo a t sa).2.2
          (Trk.spec C dt pinfo b (Trk.spec C dt pinfo a t sa).1 sb).2.2
      ∧ Trk.Settled (Trk.spec C dt pinfo a t sa).1
      ∧ (Trk.spec C dt pinfo a t sa).2.1.length = a
      ∧ (Trk.spec C dt pinfo b (Trk.spec C dt pinfo a t sa).1 sb).2.1.length = b

/-- motive for a list of sub-tracks -/
def HomListAt (C : Comps ℝ S E P) (dt : ℝ) (ts : List (Trk ℝ S E P)) : Prop :=
  Trk.SettledList ts → ∀ (info : Info ℝ) (a b : Nat) (sab sa sb : List (SendTrk ℝ E)), FeedRel a b sab sa sb →
    (Trk.specChildren C dt info (a + b) ts sab).1
        = (Trk.specChildren C dt info b (Trk.specChildren C dt info a ts sa).1 sb).1
      ∧ (Trk.specChildren C dt info (a + b) ts sab).2.1
          = List.zipWith (· ++ ·) (Trk.specChildren C dt info a ts sa).2.1
              (Trk.specChildren C dt info b (Trk.specChildren C dt info a ts sa).1 sb).2.1
      ∧ FeedRel a b (Trk.specChildren C dt info (a + b) ts sab).2.2 (Trk.specChildren C dt info a ts sa).2.2
          (Trk.specChildren C dt info b (Trk.specChildren C dt info a ts sa).1 sb).2.2
      ∧ Trk.SettledList (Trk.specChildren C dt info a ts sa).1
      ∧ (∀ x ∈ (Trk.specChildren C dt info a ts sa).2.1, x.length = a)
      ∧ (Trk.specChildren C dt info a ts sa).2.1.length
          = (Trk.specChildren C dt info b (Trk.specChildren C dt info a ts sa).1 sb).2.1.length

theorem Trk.spec_hom (hC : C.LenPres) (dt : ℝ) (hH : C.ChunkHom dt) (t : Trk ℝ S E P) : HomAt C dt t := by
  refine Trk.rec (motive_1 := HomAt C dt) (motive_2 := HomListAt C dt) ?_ ?_ ?_ t
  · intro d children pending ihc _ hs pinfo a b sab sa sb hrel
    obtain ⟨hd, hcs⟩ := hs
    obtain ⟨c1, c2, c3, c4, c5, c6⟩ := ihc hcs pinfo a b sab sa sb hrel
    rw [Trk.spec_settled C dt pinfo a d hd, Trk.spec_settled C dt pinfo (a + b) d hd]
    have hbus : mixInto (zeros (a + b)) (Trk.specChildren C dt pinfo (a + b) children sab).2.1
        = mixInto (zeros a) (Trk.specChildren C dt pinfo a children sa).2.1
          ++ mixInto (zeros b) (Trk.specChildren C dt pinfo b (Trk.specChildren C dt pinfo a children sa).1 sb).2.1 := by
      rw [c2, ← zeros_append]
      exact mixInto_hom _ _ _ _ (fun x hx => by rw [c5 x hx]; simp) c6
    obtain ⟨p1, p2, p3, p4, p5, p6⟩ := Trk.specPost_hom C hC dt hH pinfo a b d hd
      (Trk.specChildren C dt pinfo (a + b) children sab).1 (Trk.specChildren C dt pinfo a children sa).1
      (Trk.specChildren C dt pinfo b (Trk.specChildren C dt pinfo a children sa).1 sb).1 pending
      (mixInto (zeros a) (Trk.specChildren C dt pinfo a children sa).2.1)
      (mixInto (zeros b) (Trk.specChildren C dt pinfo b (Trk.specChildren C dt pinfo a children sa).1 sb).2.1)
      (by simp) (by simp) _ _ _ c3
    -- the track after the first chunk is `node (data) (children after a) pending`
    have hnode : (Trk.specPost C dt pinfo a d (Trk.specChildren C dt pinfo a children sa).1 pending
        (mixInto (zeros a) (Trk.specChildren C dt pinfo a children sa).2.1)
        (Trk.specChildren C dt pinfo a children sa).2.2).1
        = .node (Trk.specPost C dt pinfo a d (Trk.specChildren C dt pinfo a children sa).1 pending
            (mixInto (zeros a) (Trk.specChildren C dt pinfo a children sa).2.1)
            (Trk.specChildren C dt pinfo a children sa).2.2).1.data
          (Trk.specChildren C dt pinfo a children sa).1 pending := by
      unfold Trk.specPost; rfl
    rw [hnode, Trk.spec_settled C dt pinfo b _ p1, hbus]
    refine ⟨?_, p3, p4, ⟨p1, c4⟩, p5, p6⟩
    have hn2 : ∀ (n : Nat) (dd : TrkData ℝ S E P) (cc pp : List (Trk ℝ S E P)) (bus : List (Frame ℝ))
        (ss : List (SendTrk ℝ E)),
        (Trk.specPost C dt pinfo n dd cc pp bus ss).1 = .node (Trk.specPost C dt pinfo n dd cc pp bus ss).1.data cc pp := by
      intro n dd cc pp bus ss; unfold Trk.specPost; rfl
    rw [hn2 (a + b), hn2 b, p2, c1]
  · intro _ info a b sab sa sb hrel
    simp [Trk.specChildren, Trk.SettledList, hrel]
  · intro t ts iht ihts hs info a b sab sa sb hrel
    obtain ⟨t1, t2, t3, t4, t5, t6⟩ := iht hs.1 info a b sab sa sb hrel
    obtain ⟨l1, l2, l3, l4, l5, l6⟩ := ihts hs.2 info a b _ _ _ t3
    simp only [Trk.specChildren]
    refine ⟨by rw [t1, l1], by rw [t2, l2]; rfl, l3, ⟨t4, l4⟩, ?_, by simp [l6]⟩
    intro x hx
    rcases List.mem_cons.mp hx with rfl | hx
    · exact t5
    · exact l5 x hx

theorem Trk.specChildren_hom (hC : C.LenPres) (dt : ℝ) (hH : C.ChunkHom dt) (ts : List (Trk ℝ S E P)) :
    HomListAt C dt ts := by
  induction ts with
  | nil => intro _ info a b sab sa sb hrel; simp [Trk.specChildren, Trk.SettledList, hrel]
  | cons t ts ih =>
    intro hs info a b sab sa sb hrel
    obtain ⟨t1, t2, t3, t4, t5, t6⟩ := Trk.spec_hom C hC dt hH t hs.1 info a b sab sa sb hrel
    obtain ⟨l1, l2, l3, l4, l5, l6⟩ := ih hs.2 info a b _ _ _ t3
    simp only [Trk.specChildren]
    refine ⟨by rw [t1, l1], by rw [t2, l2]; rfl, l3, ⟨t4, l4⟩, ?_, by simp [l6]⟩
    intro x hx
    rcases List.mem_cons.mp hx with rfl | hx
    · exact t5
    · exact l5 x hx

/-! ### feeding only touches input buffers -/

/-- a send track with its input buffer blanked: everything a feed leaves alone -/
def SendTrk.core (s : SendTrk ℝ E) : SendTrk ℝ E := { s with input := [] }

theorem sendsAddInput_core (sends : List (SendTrk ℝ E)) (id : Nat) (buf : List (Frame ℝ)) (v : ℝ) :
    (sendsAddInput sends id buf v).map SendTrk.core = sends.map SendTrk.core := by
  unfold sendsAddInput
  rw [List.map_map]; apply List.map_congr_left
  intro s _; simp only [Function.comp]; split <;> simp [SendTrk.addInput, SendTrk.core]

theorem feedSends_core (routes : List (Route ℝ)) (out : List (Frame ℝ)) (sends : List (SendTrk ℝ E)) :
    (feedSends routes out sends).map SendTrk.core = sends.map SendTrk.core := by
  unfold feedSends
  induction routes generalizing sends with
  | nil => simp
  | cons r rs ih => simp only [List.foldl_cons]; rw [ih, sendsAddInput_core]

theorem Trk.spec_core (t : Trk ℝ S E P) :
    ∀ (dt : ℝ) (pinfo : Info ℝ) (n : Nat) (sends : List (SendTrk ℝ E)),
      (Trk.spec C dt pinfo n t sends).2.2.map SendTrk.core = sends.map SendTrk.core := by
  refine Trk.rec
    (motive_1 := fun t => ∀ (dt : ℝ) (pinfo : Info ℝ) (n : Nat) (sends : List (SendTrk ℝ E)),
      (Trk.spec C dt pinfo n t sends).2.2.map SendTrk.core = sends.map SendTrk.core)
    (motive_2 := fun ts => ∀ (dt : ℝ) (info : Info ℝ) (n : Nat) (sends : List (SendTrk ℝ E)),
      (Trk.specChildren C dt info n ts sends).2.2.map SendTrk.core = sends.map SendTrk.core) ?_ ?_ ?_ t
  · intro d children pending ihc _ dt pinfo n sends
    rw [Trk.spec]; dsimp only
    split
    · rfl
    · unfold Trk.specPost; dsimp only; rw [feedSends_core, ihc]
  · intro dt info n sends; simp [Trk.specChildren]
  · intro t ts iht ihts dt info n sends
    rw [Trk.specChildren]; dsimp only; rw [ihts, iht]

theorem Trk.specChildren_core (ts : List (Trk ℝ S E P)) (dt : ℝ) (info : Info ℝ) (n : Nat)
    (sends : List (SendTrk ℝ E)) :
    (Trk.specChildren C dt info n ts sends).2.2.map SendTrk.core = sends.map SendTrk.core := by
  induction ts generalizing sends with
  | nil => simp [Trk.specChildren]
  | cons t ts ih => rw [Trk.specChildren]; dsimp only; rw [ih, Trk.spec_core]

/-! ### send tracks -/

/-- a settled send track rendering `n ≤ |input|` frames from silence -/
theorem SendTrk.process_settled (s : SendTrk ℝ E) (hv : Parameter.Settled s.volume) (n : Nat) (hn : n ≤ s.input.length)
    (dt : ℝ) (info : Info ℝ) :
    s.process C (zeros n) dt info
      = ({ s with input := zeros s.input.length, effects := (runEffects C dt info s.effects (s.input.take n)).1 },
         (runEffects C dt info s.effects (s.input.take n)).2.map (fun f => Frame.scale f (asAmplitude s.volume.raw))) := by
  unfold SendTrk.process
  simp only [length_zeros, Parameter.settled_update s.volume hv, addInto_zeros_left_take s.input n hn, fillZero]
  have : (fun tic => asAmplitude (s.volume.interpolatedValue tw32 tic)) = fun _ => asAmplitude s.volume.raw := by
    funext tic; rw [Parameter.settled_interp s.volume hv]
  rw [this, gainLoop_const]

/-- the send pass is a chunk homomorphism: given the routed signals agree (`FeedRel`), the send tracks
    of the three runs agree outside their input buffers, and the third run's effects are the second's
    after its chunk -/
theorem specSends_hom (dt : ℝ) (hH : C.ChunkHom dt) (info : Info ℝ) (a b ibs : Nat)
    (sab sa sb : List (SendTrk ℝ E)) (hrel : FeedRel a b sab sa sb)
    (h1 : sab.map SendTrk.core = sa.map SendTrk.core)
    (h2 : sb.map SendTrk.core = (specSends C dt info a sa).1.map SendTrk.core)
    (hl1 : ∀ s ∈ sab, s.input.length = ibs) (hl3 : ∀ s ∈ sb, s.input.length = ibs)
    (hv : ∀ s ∈ sa, Parameter.Settled s.volume) :
    (specSends C dt info (a + b) sab).1 = (specSends C dt info b sb).1
      ∧ (specSends C dt info (a + b) sab).2
          = List.zipWith (· ++ ·) (specSends C dt info a sa).2 (specSends C dt info b sb).2 := by
  induction sab generalizing sa sb with
  | nil => cases sa <;> cases sb <;> simp_all [FeedRel, specSends]
  | cons x xs ih =>
    cases sa with
    | nil => cases sb <;> simp [FeedRel] at hrel
    | cons y ys =>
      cases sb with
      | nil => simp [FeedRel] at hrel
      | cons z zs =>
        obtain ⟨_, _, l1, l2, l3, ht, hrest⟩ := hrel
        simp only [List.map_cons, List.cons.injEq] at h1
        have h2' : SendTrk.core z = SendTrk.core (y.process C (zeros a) dt info).1
            ∧ zs.map SendTrk.core = (specSends C dt info a ys).1.map SendTrk.core := by
          simpa [specSends] using h2
        obtain ⟨r1, r2⟩ := ih ys zs hrest h1.2 h2'.2 (fun s hs => hl1 s (by simp [hs])) (fun s hs => hl3 s (by simp [hs]))
          (fun s hs => hv s (by simp [hs]))
        have hvy : Parameter.Settled y.volume := hv y (by simp)
        have hxy : x.volume = y.volume ∧ x.effects = y.effects ∧ x.id = y.id ∧ x.marked = y.marked ∧ x.cmdVolume = y.cmdVolume := by
          have := h1.1; simp only [SendTrk.core, SendTrk.mk.injEq] at this; tauto
        have hvx : Parameter.Settled x.volume := hxy.1 ▸ hvy
        rw [SendTrk.process_settled C y hvy a l2] at h2'
        have hzy : z.volume = y.volume ∧ z.effects = (runEffects C dt info y.effects (y.input.take a)).1
            ∧ z.id = y.id ∧ z.marked = y.marked ∧ z.cmdVolume = y.cmdVolume := by
          have := h2'.1; simp only [SendTrk.core, SendTrk.mk.injEq] at this; tauto
        have hvz : Parameter.Settled z.volume := hzy.1 ▸ hvy
        have px := SendTrk.process_settled C x hvx (a + b) l1 dt info
        have py := SendTrk.process_settled C y hvy a l2 dt info
        have pz := SendTrk.process_settled C z hvz b l3 dt info
        have hfx := runEffects_hom C dt hH info y.effects (y.input.take a) (z.input.take b)
        simp only [specSends, List.map_cons, List.zipWith_cons_cons, List.cons.injEq] at r1 r2 ⊢
        rw [px, py, pz, ht, hxy.2.1, hzy.2.1, hxy.1, hzy.1, hfx]
        refine ⟨⟨?_, r1⟩, ⟨by simp, r2⟩⟩
        have e1 : x.input.length = z.input.length := by rw [hl1 x (by simp), hl3 z (by simp)]
        cases x; cases z; simp_all

theorem specSends_lengths (hC : C.LenPres) (dt : ℝ) (info : Info ℝ) (n : Nat) (ss : List (SendTrk ℝ E)) :
    (∀ x ∈ (specSends C dt info n ss).2, x.length = n) ∧ (specSends C dt info n ss).2.length = ss.length := by
  refine ⟨?_, by simp [specSends]⟩
  intro x hx
  simp only [specSends, List.map_map, List.mem_map] at hx
  obtain ⟨s, _, rfl⟩ := hx
  simp [SendTrk.length_process C hC]

theorem specSends_core (dt : ℝ) (info : Info ℝ) (n : Nat) (ss : List (SendTrk ℝ E))
    (hv : ∀ s ∈ ss, Parameter.Settled s.volume) :
    ∀ s ∈ (specSends C dt info n ss).1, Parameter.Settled s.volume := by
  intro s hs
  simp only [specSends, List.map_map, List.mem_map] at hs
  obtain ⟨s0, hs0, rfl⟩ := hs
  simp [SendTrk.process, Parameter.settled_update s0.volume (hv s0 hs0), hv s0 hs0]

/-! ### main track and mixer -/

theorem MainTrk.spec_hom (hC : C.LenPres) (dt : ℝ) (hH : C.ChunkHom dt) (info : Info ℝ) (t : MainTrk ℝ S E)
    (hv : Parameter.Settled t.volume) (bus1 bus2 : List (Frame ℝ)) :
    (MainTrk.spec C t (bus1 ++ bus2) dt info).1
        = (MainTrk.spec C (MainTrk.spec C t bus1 dt info).1 bus2 dt info).1
      ∧ (MainTrk.spec C t (bus1 ++ bus2) dt info).2
        = (MainTrk.spec C t bus1 dt info).2 ++ (MainTrk.spec C (MainTrk.spec C t bus1 dt info).1 bus2 dt info).2
      ∧ Parameter.Settled (MainTrk.spec C t bus1 dt info).1.volume := by
  have hg : (fun tic => asAmplitude (t.volume.interpolatedValue tw32 tic)) = fun _ => asAmplitude t.volume.raw := by
    funext tic; rw [Parameter.settled_interp t.volume hv]
  obtain ⟨la, lla, _⟩ := specSounds_lengths C hC dt info bus1.length t.sounds
  obtain ⟨_, llb, _⟩ := specSounds_lengths C hC dt info bus2.length (specSounds C dt info bus1.length t.sounds).1
  have hmix : mixInto (bus1 ++ bus2) (specSounds C dt info (bus1.length + bus2.length) t.sounds).2
      = mixInto bus1 (specSounds C dt info bus1.length t.sounds).2
        ++ mixInto bus2 (specSounds C dt info bus2.length (specSounds C dt info bus1.length t.sounds).1).2 := by
    rw [specSounds_hom C dt hH info _ _ t.sounds]
    exact mixInto_hom bus1 bus2 _ _ (fun x hx => la x hx)
      (by rw [lla, llb, (specSounds_lengths C hC dt info bus1.length t.sounds).2.2])
  have hfx := runEffects_hom C dt hH info t.effects (mixInto bus1 (specSounds C dt info bus1.length t.sounds).2)
    (mixInto bus2 (specSounds C dt info bus2.length (specSounds C dt info bus1.length t.sounds).1).2)
  unfold MainTrk.spec
  simp only [List.length_append, Parameter.settled_update t.volume hv, hg, gainLoop_const]
  rw [hmix, hfx]
  refine ⟨?_, by simp, hv⟩
  simp [specSounds_hom C dt hH info bus1.length bus2.length t.sounds]

/-- a mixer in which nothing is moving: every sub-track settled, main and send volumes settled -/
structure Mixer.Settled (m : Mixer ℝ S E P) : Prop where
  subs : Trk.SettledList m.subTracks
  main : Parameter.Settled m.main.volume
  sends : ∀ s ∈ m.sendTracks, Parameter.Settled s.volume

theorem feedRel_zeros (a b ibs : Nat) (hab : a + b ≤ ibs) (xs ys zs : List (SendTrk ℝ E))
    (h1 : xs.map (·.id) = ys.map (·.id)) (h2 : ys.map (·.id) = zs.map (·.id))
    (hx : ∀ s ∈ xs, s.input = zeros ibs) (hy : ∀ s ∈ ys, s.input = zeros ibs) (hz : ∀ s ∈ zs, s.input = zeros ibs) :
    FeedRel a b xs ys zs := by
  induction xs generalizing ys zs with
  | nil => cases ys <;> cases zs <;> simp_all [FeedRel]
  | cons x xs ih =>
    cases ys with
    | nil => simp at h1
    | cons y ys =>
      cases zs with
      | nil => simp at h2
      | cons z zs =>
        simp only [List.map_cons, List.cons.injEq] at h1 h2
        refine ⟨h1.1, h2.1, ?_, ?_, ?_, ?_, ih ys zs h1.2 h2.2 (fun s hs => hx s (by simp [hs]))
          (fun s hs => hy s (by simp [hs])) (fun s hs => hz s (by simp [hs]))⟩
        · rw [hx x (by simp)]; simpa using hab
        · rw [hy y (by simp)]; simp; omega
        · rw [hz z (by simp)]; simp; omega
        · rw [hx x (by simp), hy y (by simp), hz z (by simp), take_zeros _ _ hab, take_zeros _ _ (by omega),
            take_zeros _ _ (by omega), zeros_append]

theorem specSends_ids (dt : ℝ) (info : Info ℝ) (n : Nat) (ss : List (SendTrk ℝ E)) :
    (specSends C dt info n ss).1.map (·.id) = ss.map (·.id) := by
  simp [specSends, List.map_map, Function.comp_def, SendTrk.process]

theorem core_ids (xs ys : List (SendTrk ℝ E)) (h : xs.map SendTrk.core = ys.map SendTrk.core) :
    xs.map (·.id) = ys.map (·.id) := by
  have := congrArg (List.map (fun s : SendTrk ℝ E => s.id)) h
  simpa [List.map_map, Function.comp_def, SendTrk.core] using this

/-- **chunk homomorphism of the whole mixer** (on the specification) -/
theorem Mixer.spec_hom (hC : C.LenPres) (dt : ℝ) (hH : C.ChunkHom dt) (info : Info ℝ) (ibs : Nat)
    (m : Mixer ℝ S E P) (hm : Mixer.Clean ibs m) (hs : Mixer.Settled m) (a b : Nat) (hab : a + b ≤ ibs) :
    Mixer.spec C m (a + b) dt info
      = ((Mixer.spec C (Mixer.spec C m a dt info).1 b dt info).1,
         (Mixer.spec C m a dt info).2 ++ (Mixer.spec C (Mixer.spec C m a dt info).1 b dt info).2)
      ∧ Mixer.Settled (Mixer.spec C m a dt info).1 := by
  have hlen : SendsLen ibs m.sendTracks := fun s hs' => by rw [hm.sends s hs']; simp
  -- the send tracks after the first chunk: clean inputs, same ids
  have hclean1 := specSends_inputs_clean C dt info ibs a _
    (Trk.specChildren_sendsLen C ibs m.subTracks dt info a m.sendTracks hlen)
  have hcoreA := Trk.specChildren_core C m.subTracks dt info a m.sendTracks
  have hid1 : (specSends C dt info a (Trk.specChildren C dt info a m.subTracks m.sendTracks).2.2).1.map (·.id)
      = m.sendTracks.map (·.id) := by rw [specSends_ids, core_ids _ _ hcoreA]
  have hrel0 : FeedRel a b m.sendTracks m.sendTracks
      (specSends C dt info a (Trk.specChildren C dt info a m.subTracks m.sendTracks).2.2).1 :=
    feedRel_zeros a b ibs hab _ _ _ rfl hid1.symm hm.sends hm.sends hclean1
  obtain ⟨c1, c2, c3, c4, c5, c6⟩ := Trk.specChildren_hom C hC dt hH m.subTracks hs.subs info a b _ _ _ hrel0
  -- settledness of the send volumes along the way
  have hvA : ∀ s ∈ (Trk.specChildren C dt info a m.subTracks m.sendTracks).2.2, Parameter.Settled s.volume := by
    intro s hs'
    have hmem : SendTrk.core s ∈ m.sendTracks.map SendTrk.core := by rw [← hcoreA]; exact List.mem_map_of_mem hs'
    obtain ⟨s0, hs0, e⟩ := List.mem_map.mp hmem
    have : s.volume = s0.volume := by
      have := congrArg SendTrk.volume e; simpa [SendTrk.core] using this.symm
    rw [this]; exact hs.sends s0 hs0
  set M1 := (Mixer.spec C m a dt info).1 with hM1
  have hM1sends : M1.sendTracks = (specSends C dt info a (Trk.specChildren C dt info a m.subTracks m.sendTracks).2.2).1 := rfl
  have hM1subs : M1.subTracks = (Trk.specChildren C dt info a m.subTracks m.sendTracks).1 := rfl
  have hsettled1 : Mixer.Settled M1 :=
    ⟨c4, (MainTrk.spec_hom C hC dt hH info m.main hs.main _ []).2.2, specSends_core C dt info a _ hvA⟩
  refine ⟨?_, hsettled1⟩
  -- send pass
  have hcoreAB := Trk.specChildren_core C m.subTracks dt info (a + b) m.sendTracks
  have hcoreB := Trk.specChildren_core C M1.subTracks dt info b M1.sendTracks
  have hlenAB := Trk.specChildren_sendsLen C ibs m.subTracks dt info (a + b) m.sendTracks hlen
  have hlenB := Trk.specChildren_sendsLen C ibs M1.subTracks dt info b M1.sendTracks
    (fun s hs' => by rw [hM1sends] at hs'; rw [hclean1 s hs']; simp)
  obtain ⟨s1, s2⟩ := specSends_hom C dt hH info a b ibs
    (Trk.specChildren C dt info (a + b) m.subTracks m.sendTracks).2.2
    (Trk.specChildren C dt info a m.subTracks m.sendTracks).2.2
    (Trk.specChildren C dt info b M1.subTracks M1.sendTracks).2.2
    (by rw [hM1subs, hM1sends]; exact c3) (by rw [hcoreAB, hcoreA]) (by rw [hcoreB, hM1sends]) hlenAB hlenB hvA
  -- buses
  obtain ⟨sa1, sa2⟩ := specSends_lengths C hC dt info a (Trk.specChildren C dt info a m.subTracks m.sendTracks).2.2
  obtain ⟨_, sb2⟩ := specSends_lengths C hC dt info b (Trk.specChildren C dt info b M1.subTracks M1.sendTracks).2.2
  have hbus : mixInto (mixInto (zeros (a + b)) (Trk.specChildren C dt info (a + b) m.subTracks m.sendTracks).2.1)
        (specSends C dt info (a + b) (Trk.specChildren C dt info (a + b) m.subTracks m.sendTracks).2.2).2
      = mixInto (mixInto (zeros a) (Trk.specChildren C dt info a m.subTracks m.sendTracks).2.1)
          (specSends C dt info a (Trk.specChildren C dt info a m.subTracks m.sendTracks).2.2).2
        ++ mixInto (mixInto (zeros b) (Trk.specChildren C dt info b M1.subTracks M1.sendTracks).2.1)
          (specSends C dt info b (Trk.specChildren C dt info b M1.subTracks M1.sendTracks).2.2).2 := by
    rw [s2, c2, ← zeros_append, hM1subs, hM1sends]
    rw [mixInto_hom (zeros a) (zeros b) _ _ (fun x hx => by rw [c5 x hx]; simp) c6]
    refine mixInto_hom _ _ _ _ (fun x hx => by rw [sa1 x hx]; simp) ?_
    rw [sa2, ← hM1subs, ← hM1sends, sb2]
    have e1 := congrArg List.length hcoreA
    have e2 := congrArg List.length hcoreB
    have e3 := congrArg List.length hid1
    simp only [List.length_map] at e1 e2 e3
    rw [e1, e2, hM1sends, e3]
  obtain ⟨m1, m2, _⟩ := MainTrk.spec_hom C hC dt hH info m.main hs.main
    (mixInto (mixInto (zeros a) (Trk.specChildren C dt info a m.subTracks m.sendTracks).2.1)
      (specSends C dt info a (Trk.specChildren C dt info a m.subTracks m.sendTracks).2.2).2)
    (mixInto (mixInto (zeros b) (Trk.specChildren C dt info b M1.subTracks M1.sendTracks).2.1)
      (specSends C dt info b (Trk.specChildren C dt info b M1.subTracks M1.sendTracks).2.2).2)
  have hM1main : M1.main = (MainTrk.spec C m.main
      (mixInto (mixInto (zeros a) (Trk.specChildren C dt info a m.subTracks m.sendTracks).2.1)
        (specSends C dt info a (Trk.specChildren C dt info a m.subTracks m.sendTracks).2.2).2) dt info).1 := rfl
  show Mixer.spec C m (a + b) dt info = _
  unfold Mixer.spec
  simp only [hbus]
  rw [Prod.mk.injEq]
  constructor
  · have e1 : (Trk.specChildren C dt info (a + b) m.subTracks m.sendTracks).1
        = (Trk.specChildren C dt info b M1.subTracks M1.sendTracks).1 := by rw [c1, hM1subs, hM1sends]
    rw [e1, s1, m1]
    rfl
  · rw [m2]; rfl

end
end K
