/-
  Helper lemmas for the clock model over ℝ (Model/Clock.lean).
-/
import KiraModel.Proofs.ParameterLemmas
import KiraModel.Proofs.ClockTimeLemmas
import KiraModel.Model.Clock

namespace K
namespace Clock

open ClockTime

/-- the real number a clock's state denotes (`NotStarted` reads as 0, as `Info::clock_info` does) -/
noncomputable def val (c : Clock ℝ) : ℝ := ClockTime.val c.state.time

/-- well-formed: the fractional position is in [0, 1) -/
def WF (c : Clock ℝ) : Prop := ClockTime.WF c.state.time

/-- the speed parameter is at rest (no tween in flight, not linked to a modulator) at `v` ticks per second -/
def SteadySpeed (c : Clock ℝ) (v : ℝ) : Prop :=
  c.speed.stagnant = true ∧ c.speed.raw.asTicksPerSecond = v

/-- the loop the code used to run, `while *tick_timer >= 1.0 { *tick_timer -= 1.0; *ticks += 1; }`
    (`none` = fuel exhausted: over the floats it never ends once the timer is 2^53 or more).  Kept as
    the specification of `tickStep`, the closed form the repaired code computes. -/
def tickLoop {α : Type} [Sub α] [LE α] [DecidableLE α] [OfScientific α] : Nat → Nat → α → Option (Nat × α)
  | 0, _, _ => none
  | fuel + 1, ticks, timer =>
    if (1.0 : α) ≤ timer then tickLoop fuel (ticks + 1) (timer - (1.0 : α)) else some (ticks, timer)

/-- closed form of the tick loop: with enough fuel it ends with `⌊timer⌋` more ticks and the
    fractional part of the timer; any two sufficient fuels agree. -/
theorem tickLoop_spec : ∀ (fuel n : ℕ) (t : ℝ), 0 ≤ t → ⌊t⌋₊ < fuel →
    tickLoop fuel n t = some (n + ⌊t⌋₊, Int.fract t) := by
  intro fuel
  induction fuel with
  | zero => intro n t _ h; omega
  | succ fuel ih =>
    intro n t ht hf
    unfold tickLoop
    simp only [lit_1]
    by_cases h1 : (1 : ℝ) ≤ t
    · simp only [h1, if_true]
      have hfl : 1 ≤ ⌊t⌋₊ := Nat.le_floor (by simpa using h1)
      have hsub : ⌊t - 1⌋₊ = ⌊t⌋₊ - 1 := Nat.floor_sub_one t
      rw [ih (n + 1) (t - 1) (by linarith) (by omega), hsub, Int.fract_sub_one]
      congr 2; omega
    · simp only [h1, if_false]
      have hlt : t < 1 := not_le.mp h1
      have h0 : ⌊t⌋₊ = 0 := Nat.floor_eq_zero.mpr hlt
      rw [h0, Int.fract_eq_self.mpr ⟨ht, hlt⟩]; simp

/-- what the repaired code computes, over ℝ: `⌊timer⌋` more ticks and the fractional part when the
    timer reached 1, nothing otherwise -/
theorem tickStep_real (n : ℕ) (t : ℝ) :
    tickStep n t = if 1 ≤ t then (n + ⌊t⌋₊, Int.fract t) else (n, t) := by
  unfold tickStep
  simp only [lit_1, lit_0, floor_real, toNatSat_real, isFinite_real, satU64_real, if_true]
  by_cases h1 : (1 : ℝ) ≤ t
  · simp only [h1, if_true]
    have h0 : (0 : ℤ) ≤ ⌊t⌋ := Int.floor_nonneg.mpr (by linarith)
    have e : ⌊((⌊t⌋ : ℤ) : ℝ)⌋₊ = ⌊t⌋₊ := by
      rw [← Int.floor_toNat, ← Int.floor_toNat, Int.floor_intCast]
    rw [e]; rfl
  · simp only [h1, if_false]

/-- the same for a non-negative timer, without the case split -/
theorem tickStep_nonneg (n : ℕ) (t : ℝ) (ht : 0 ≤ t) : tickStep n t = (n + ⌊t⌋₊, Int.fract t) := by
  rw [tickStep_real]
  by_cases h1 : (1 : ℝ) ≤ t
  · simp [h1]
  · have hlt : t < 1 := not_le.mp h1
    simp [h1, Nat.floor_eq_zero.mpr hlt, Int.fract_eq_self.mpr ⟨ht, hlt⟩]

/-- **closed form = loop wherever the loop terminates** (every timer, negative ones included, every
    fuel): if the old tick loop returns, the repaired code returns the same ticks and timer. -/
theorem tickStep_eq_loop : ∀ (fuel n : ℕ) (t : ℝ) (r : ℕ × ℝ), tickLoop fuel n t = some r → tickStep n t = r := by
  intro fuel
  induction fuel with
  | zero => intro n t r h; simp [tickLoop] at h
  | succ fuel ih =>
    intro n t r h
    unfold tickLoop at h
    simp only [lit_1] at h
    by_cases h1 : (1 : ℝ) ≤ t
    · simp only [h1, if_true] at h
      have hrec := ih (n + 1) (t - 1) r h
      rw [← hrec, tickStep_nonneg n t (by linarith), tickStep_nonneg (n + 1) (t - 1) (by linarith),
        Nat.floor_sub_one, Int.fract_sub_one]
      have hfl : 1 ≤ ⌊t⌋₊ := Nat.le_floor (by simpa using h1)
      congr 1; omega
    · simp only [h1, if_false, Option.some.injEq] at h
      rw [tickStep_real]; simp [h1, h]

/-- a well-formed clock time is determined by the real number it denotes -/
theorem time_eq_of_val (t : ClockTime ℝ) (h : ClockTime.WF t) :
    t = ⟨⌊ClockTime.val t⌋₊, Int.fract (ClockTime.val t)⟩ := by
  obtain ⟨h0, h1⟩ := h
  have hfl : ⌊ClockTime.val t⌋₊ = t.ticks := by
    unfold ClockTime.val
    rw [Nat.floor_eq_iff (by positivity)]
    constructor <;> linarith
  have hfr : Int.fract (ClockTime.val t) = t.fraction := by
    unfold ClockTime.val
    rw [Int.fract_eq_iff]
    exact ⟨h0, h1, t.ticks, by simp⟩
  rw [hfl, hfr]

theorem steady_update (c : Clock ℝ) (v dt : ℝ) (info : Info ℝ) (h : SteadySpeed c v) :
    (c.speed.update twCs dt info).1.stagnant = true ∧ (c.speed.update twCs dt info).1.raw = c.speed.raw := by
  rw [Parameter.update_stagnant _ _ _ _ h.1]
  exact ⟨h.1, rfl⟩

/-- one update of a ticking clock: it advances by (new speed) × dt — whatever the speed and the step
    (no fuel: the tick count is computed, not looped) -/
theorem update_ticking (c : Clock ℝ) (dt : ℝ) (info : Info ℝ)
    (htick : c.ticking = true) (hwf : WF c) (hdt : 0 ≤ dt)
    (hv : 0 ≤ (c.speed.update twCs dt info).1.raw.asTicksPerSecond) :
    val (c.update dt info).1 = val c + (c.speed.update twCs dt info).1.raw.asTicksPerSecond * dt
      ∧ WF (c.update dt info).1 ∧ (c.update dt info).1.ticking = true
      ∧ (c.update dt info).1.speed = (c.speed.update twCs dt info).1
      ∧ (c.update dt info).1.cmds = c.cmds ∧ (c.update dt info).1.shared = c.shared := by
  set v := (c.speed.update twCs dt info).1.raw.asTicksPerSecond with hvdef
  have hvd : 0 ≤ v * dt := mul_nonneg hv hdt
  -- the timer before the tick count
  obtain ⟨t0, f0, hstate, hf0, hf1⟩ : ∃ (t0 : ℕ) (f0 : ℝ), c.state.time = ⟨t0, f0⟩ ∧ 0 ≤ f0 ∧ f0 < 1 :=
    ⟨c.state.time.ticks, c.state.time.fraction, rfl, hwf.1, hwf.2⟩
  have hval : val c = (t0 : ℝ) + f0 := by unfold val; rw [hstate]; rfl
  have htimer : 0 ≤ f0 + v * dt := by linarith
  have hloop := tickStep_nonneg t0 (f0 + v * dt) htimer
  have hfloor : ((⌊f0 + v * dt⌋₊ : ℕ) : ℝ) + Int.fract (f0 + v * dt) = f0 + v * dt := by
    have h1 := Int.floor_add_fract (f0 + v * dt)
    have h2 : ((⌊f0 + v * dt⌋₊ : ℕ) : ℝ) = ((⌊f0 + v * dt⌋ : ℤ) : ℝ) := by
      rw [← Int.floor_toNat]
      have : (0 : ℤ) ≤ ⌊f0 + v * dt⌋ := Int.floor_nonneg.mpr htimer
      have h3 : ((⌊f0 + v * dt⌋.toNat : ℤ) : ℝ) = ((⌊f0 + v * dt⌋ : ℤ) : ℝ) := by
        rw [Int.toNat_of_nonneg this]
      exact_mod_cast h3
    rw [h2]; exact h1
  unfold update
  simp only [htick, Bool.not_true, Bool.false_eq_true, if_false, Parameter.value]
  cases hs : c.state with
  | notStarted =>
    rw [hs] at hstate
    simp only [ClockState.time, ClockTime.mk.injEq, lit_0] at hstate
    obtain ⟨rfl, rfl⟩ := hstate
    simp only [lit_0] at hloop ⊢
    rw [← hvdef, hloop]
    refine ⟨?_, ?_, trivial, trivial, trivial, trivial⟩
    · unfold val; rw [hs]; simp only [ClockState.time, ClockTime.val, lit_0]
      push_cast; linarith
    · unfold WF; simp only [ClockState.time, ClockTime.WF]
      exact ⟨Int.fract_nonneg _, Int.fract_lt_one _⟩
  | started t f =>
    rw [hs] at hstate
    simp only [ClockState.time, ClockTime.mk.injEq] at hstate
    obtain ⟨rfl, rfl⟩ := hstate
    simp only
    rw [← hvdef, hloop]
    refine ⟨?_, ?_, trivial, trivial, trivial, trivial⟩
    · unfold val; rw [hs]; simp only [ClockState.time, ClockTime.val]
      push_cast; linarith
    · unfold WF; simp only [ClockState.time, ClockTime.WF]
      exact ⟨Int.fract_nonneg _, Int.fract_lt_one _⟩

/-- one update of a clock that is not ticking: only the speed parameter moves -/
theorem update_not_ticking (c : Clock ℝ) (dt : ℝ) (info : Info ℝ) (h : c.ticking = false) :
    c.update dt info = ({ c with speed := (c.speed.update twCs dt info).1 }, none) := by
  unfold update; simp [h]

/-- whatever the clock does, one update advances its speed parameter exactly once, with the same
    `dt` and `Info`, and touches neither the ticking flag, the command slots nor the shared words -/
theorem update_frame (c : Clock ℝ) (dt : ℝ) (info : Info ℝ) :
    (c.update dt info).1.speed = (c.speed.update twCs dt info).1 ∧ (c.update dt info).1.ticking = c.ticking
      ∧ (c.update dt info).1.cmds = c.cmds ∧ (c.update dt info).1.shared = c.shared := by
  unfold update
  by_cases ht : c.ticking = true
  · simp [ht]
  · have hf : c.ticking = false := by simpa using ht
    simp [hf]

/-- a run of updates at a steady speed `v ≥ 0`: the clock advances by `v × Σ dt`, whatever the
    partition and however large the steps -/
theorem run_steady (info : Info ℝ) (v : ℝ) (hv : 0 ≤ v) :
    ∀ (dts : List ℝ) (c : Clock ℝ), c.ticking = true → WF c → SteadySpeed c v →
      (∀ dt ∈ dts, 0 ≤ dt) →
      val (c.run info dts) = val c + v * dts.sum ∧ WF (c.run info dts)
        ∧ (c.run info dts).ticking = true ∧ SteadySpeed (c.run info dts) v := by
  intro dts
  induction dts with
  | nil => intro c ht hwf hs _; exact ⟨by simp [run], hwf, ht, hs⟩
  | cons dt rest ih =>
    intro c ht hwf hs hnn
    have hsu := steady_update c v dt info hs
    have hveq : (c.speed.update twCs dt info).1.raw.asTicksPerSecond = v := by rw [hsu.2]; exact hs.2
    obtain ⟨hval, hwf1, ht1, hsp, _, _⟩ :=
      update_ticking c dt info ht hwf (hnn dt (by simp)) (by rw [hveq]; exact hv)
    have hs1 : SteadySpeed (c.update dt info).1 v := by
      unfold SteadySpeed; rw [hsp]; exact ⟨hsu.1, hveq⟩
    obtain ⟨hval2, hwf2, ht2, hs2⟩ :=
      ih (c.update dt info).1 ht1 hwf1 hs1 (fun x hx => hnn x (by simp [hx]))
    refine ⟨?_, hwf2, ht2, hs2⟩
    simp only [run]
    rw [hval2, hval, hveq, List.sum_cons]; ring

/-- a run of updates of a clock that is not ticking changes nothing but the speed parameter -/
theorem run_not_ticking (info : Info ℝ) :
    ∀ (dts : List ℝ) (c : Clock ℝ), c.ticking = false →
      (c.run info dts).state = c.state ∧ (c.run info dts).ticking = false
        ∧ (c.run info dts).shared = c.shared ∧ (c.run info dts).cmds = c.cmds := by
  intro dts
  induction dts with
  | nil => intro c h; exact ⟨rfl, h, rfl, rfl⟩
  | cons dt rest ih =>
    intro c h
    obtain ⟨h1, h2, h3, h4⟩ := ih { c with speed := (c.speed.update twCs dt info).1 } h
    simp only [run, update_not_ticking c dt info h]
    exact ⟨h1, h2, h3, h4⟩

/-- over a run the speed parameter follows `Parameter.run` on the same steps (C06's time base is
    the clock's own update) -/
theorem run_speed (info : Info ℝ) :
    ∀ (dts : List ℝ) (c : Clock ℝ), (c.run info dts).speed = (c.speed.run twCs info dts).1 := by
  intro dts
  induction dts with
  | nil => intro c; rfl
  | cons dt rest ih =>
    intro c
    simp only [run]
    rw [ih (c.update dt info).1, (update_frame c dt info).1]
    rfl

end Clock
end K
