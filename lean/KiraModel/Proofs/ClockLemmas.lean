/-
  Helper lemmas for the clock model over ℝ (Model/Clock.lean).
-/
import KiraModel.Proofs.ParameterLemmas
import KiraModel.Proofs.ClockTimeLemmas
import KiraModel.Model.Clock

namespace K
namespace Clock

open ClockTime

/-- the real number a clock's state denotes (`NotStarted` reads as 0, as `Info::clock_info` does) -/
noncomputable def val (c : Clock ℝ) : ℝ := ClockTime.val c.state.time

/-- well-formed: the fractional position is in [0, 1) -/
def WF (c : Clock ℝ) : Prop := ClockTime.WF c.state.time

/-- the speed parameter is at rest (no tween in flight, not linked to a modulator) at `v` ticks per second -/
def SteadySpeed (c : Clock ℝ) (v : ℝ) : Prop :=
  c.speed.stagnant = true ∧ c.speed.raw.asTicksPerSecond = v

/-- closed form of the tick loop: with enough fuel it ends with `⌊timer⌋` more ticks and the
    fractional part of the timer; any two sufficient fuels agree. -/
theorem tickLoop_spec : ∀ (fuel n : ℕ) (t : ℝ), 0 ≤ t → ⌊t⌋₊ < fuel →
    tickLoop fuel n t = some (n + ⌊t⌋₊, Int.fract t) := by
  intro fuel
  induction fuel with
  | zero => intro n t _ h; omega
  | succ fuel ih =>
    intro n t ht hf
    unfold tickLoop
    simp only [lit_1]
    by_cases h1 : (1 : ℝ) ≤ t
    · simp only [h1, if_true]
      have hfl : 1 ≤ ⌊t⌋₊ := Nat.le_floor (by simpa using h1)
      have hsub : ⌊t - 1⌋₊ = ⌊t⌋₊ - 1 := Nat.floor_sub_one t
      rw [ih (n + 1) (t - 1) (by linarith) (by omega), hsub, Int.fract_sub_one]
      congr 2; omega
    · simp only [h1, if_false]
      have hlt : t < 1 := not_le.mp h1
      have h0 : ⌊t⌋₊ = 0 := Nat.floor_eq_zero.mpr hlt
      rw [h0, Int.fract_eq_self.mpr ⟨ht, hlt⟩]; simp

/-- a well-formed clock time is determined by the real number it denotes -/
theorem time_eq_of_val (t : ClockTime ℝ) (h : ClockTime.WF t) :
    t = ⟨⌊ClockTime.val t⌋₊, Int.fract (ClockTime.val t)⟩ := by
  obtain ⟨h0, h1⟩ := h
  have hfl : ⌊ClockTime.val t⌋₊ = t.ticks := by
    unfold ClockTime.val
    rw [Nat.floor_eq_iff (by positivity)]
    constructor <;> linarith
  have hfr : Int.fract (ClockTime.val t) = t.fraction := by
    unfold ClockTime.val
    rw [Int.fract_eq_iff]
    exact ⟨h0, h1, t.ticks, by simp⟩
  rw [hfl, hfr]

theorem steady_update (c : Clock ℝ) (v dt : ℝ) (info : Info ℝ) (h : SteadySpeed c v) :
    (c.speed.update twCs dt info).1.stagnant = true ∧ (c.speed.update twCs dt info).1.raw = c.speed.raw := by
  rw [Parameter.update_stagnant _ _ _ _ h.1]
  exact ⟨h.1, rfl⟩

/-- one update of a ticking clock: it advances by (new speed) × dt, for every sufficient fuel -/
theorem update_ticking (fuel : ℕ) (c : Clock ℝ) (dt : ℝ) (info : Info ℝ)
    (htick : c.ticking = true) (hwf : WF c) (hdt : 0 ≤ dt)
    (hv : 0 ≤ (c.speed.update twCs dt info).1.raw.asTicksPerSecond)
    (hfuel : (c.speed.update twCs dt info).1.raw.asTicksPerSecond * dt + 1 ≤ (fuel : ℝ)) :
    ∃ c' r, c.update fuel dt info = some (c', r)
      ∧ val c' = val c + (c.speed.update twCs dt info).1.raw.asTicksPerSecond * dt
      ∧ WF c' ∧ c'.ticking = true ∧ c'.speed = (c.speed.update twCs dt info).1
      ∧ c'.cmds = c.cmds ∧ c'.shared = c.shared := by
  set v := (c.speed.update twCs dt info).1.raw.asTicksPerSecond with hvdef
  have hvd : 0 ≤ v * dt := mul_nonneg hv hdt
  -- the timer before the loop
  obtain ⟨t0, f0, hstate, hf0, hf1⟩ : ∃ (t0 : ℕ) (f0 : ℝ), c.state.time = ⟨t0, f0⟩ ∧ 0 ≤ f0 ∧ f0 < 1 :=
    ⟨c.state.time.ticks, c.state.time.fraction, rfl, hwf.1, hwf.2⟩
  have hval : val c = (t0 : ℝ) + f0 := by unfold val; rw [hstate]; rfl
  have htimer : 0 ≤ f0 + v * dt := by linarith
  have hfl : ⌊f0 + v * dt⌋₊ < fuel := by
    have : (⌊f0 + v * dt⌋₊ : ℝ) ≤ f0 + v * dt := Nat.floor_le htimer
    have : (⌊f0 + v * dt⌋₊ : ℝ) < (fuel : ℝ) := by linarith
    exact_mod_cast this
  have hloop := tickLoop_spec fuel t0 (f0 + v * dt) htimer hfl
  have hfloor : ((⌊f0 + v * dt⌋₊ : ℕ) : ℝ) + Int.fract (f0 + v * dt) = f0 + v * dt := by
    have h1 := Int.floor_add_fract (f0 + v * dt)
    have h2 : ((⌊f0 + v * dt⌋₊ : ℕ) : ℝ) = ((⌊f0 + v * dt⌋ : ℤ) : ℝ) := by
      rw [← Int.floor_toNat]
      have : (0 : ℤ) ≤ ⌊f0 + v * dt⌋ := Int.floor_nonneg.mpr htimer
      have h3 : ((⌊f0 + v * dt⌋.toNat : ℤ) : ℝ) = ((⌊f0 + v * dt⌋ : ℤ) : ℝ) := by
        rw [Int.toNat_of_nonneg this]
      exact_mod_cast h3
    rw [h2]; exact h1
  unfold update
  simp only [htick, Bool.not_true, Bool.false_eq_true, if_false, Parameter.value]
  cases hs : c.state with
  | notStarted =>
    rw [hs] at hstate
    simp only [ClockState.time, ClockTime.mk.injEq, lit_0] at hstate
    obtain ⟨rfl, rfl⟩ := hstate
    simp only [lit_0] at hloop ⊢
    rw [← hvdef, hloop]
    refine ⟨_, _, rfl, ?_, ?_, rfl, rfl, rfl, rfl⟩
    · unfold val; rw [hs]; simp only [ClockState.time, ClockTime.val, lit_0]
      push_cast; linarith
    · unfold WF; simp only [ClockState.time, ClockTime.WF]
      exact ⟨Int.fract_nonneg _, Int.fract_lt_one _⟩
  | started t f =>
    rw [hs] at hstate
    simp only [ClockState.time, ClockTime.mk.injEq] at hstate
    obtain ⟨rfl, rfl⟩ := hstate
    simp only
    rw [← hvdef, hloop]
    refine ⟨_, _, rfl, ?_, ?_, rfl, rfl, rfl, rfl⟩
    · unfold val; rw [hs]; simp only [ClockState.time, ClockTime.val]
      push_cast; linarith
    · unfold WF; simp only [ClockState.time, ClockTime.WF]
      exact ⟨Int.fract_nonneg _, Int.fract_lt_one _⟩

/-- one update of a clock that is not ticking: only the speed parameter moves -/
theorem update_not_ticking (fuel : ℕ) (c : Clock ℝ) (dt : ℝ) (info : Info ℝ) (h : c.ticking = false) :
    c.update fuel dt info = some ({ c with speed := (c.speed.update twCs dt info).1 }, none) := by
  unfold update; simp [h]

/-- whatever the clock does, one update advances its speed parameter exactly once, with the same
    `dt` and `Info`, and touches neither the ticking flag, the command slots nor the shared words -/
theorem update_frame (fuel : ℕ) (c c' : Clock ℝ) (dt : ℝ) (info : Info ℝ) (r : Option ℕ)
    (h : c.update fuel dt info = some (c', r)) :
    c'.speed = (c.speed.update twCs dt info).1 ∧ c'.ticking = c.ticking ∧ c'.cmds = c.cmds
      ∧ c'.shared = c.shared := by
  unfold update at h
  by_cases ht : c.ticking = true
  · simp only [ht, Bool.not_true, Bool.false_eq_true, if_false] at h
    split at h
    · exact absurd h (by simp)
    · simp only [Option.some.injEq, Prod.mk.injEq] at h
      obtain ⟨rfl, _⟩ := h
      exact ⟨rfl, ht.symm ▸ rfl, rfl, rfl⟩
  · have hf : c.ticking = false := by simpa using ht
    simp only [hf, Bool.not_false, if_true, Option.some.injEq, Prod.mk.injEq] at h
    obtain ⟨rfl, _⟩ := h
    exact ⟨rfl, hf.symm, rfl, rfl⟩

/-- a run of updates at a steady speed `v ≥ 0`: the clock advances by `v × Σ dt`, whatever the
    partition, for every fuel that covers the largest single step -/
theorem run_steady (fuel : ℕ) (info : Info ℝ) (v : ℝ) (hv : 0 ≤ v) :
    ∀ (dts : List ℝ) (c : Clock ℝ), c.ticking = true → WF c → SteadySpeed c v →
      (∀ dt ∈ dts, 0 ≤ dt) → (∀ dt ∈ dts, v * dt + 1 ≤ (fuel : ℝ)) →
      ∃ c', c.run fuel info dts = some c' ∧ val c' = val c + v * dts.sum ∧ WF c'
        ∧ c'.ticking = true ∧ SteadySpeed c' v := by
  intro dts
  induction dts with
  | nil => intro c ht hwf hs _ _; exact ⟨c, rfl, by simp, hwf, ht, hs⟩
  | cons dt rest ih =>
    intro c ht hwf hs hnn hfuel
    have hsu := steady_update c v dt info hs
    have hveq : (c.speed.update twCs dt info).1.raw.asTicksPerSecond = v := by rw [hsu.2]; exact hs.2
    obtain ⟨c1, r, hu, hval, hwf1, ht1, hsp, _, _⟩ :=
      update_ticking fuel c dt info ht hwf (hnn dt (by simp)) (by rw [hveq]; exact hv)
        (by rw [hveq]; exact hfuel dt (by simp))
    have hs1 : SteadySpeed c1 v := by
      unfold SteadySpeed; rw [hsp]; exact ⟨hsu.1, hveq⟩
    obtain ⟨c2, hr, hval2, hwf2, ht2, hs2⟩ :=
      ih c1 ht1 hwf1 hs1 (fun x hx => hnn x (by simp [hx])) (fun x hx => hfuel x (by simp [hx]))
    refine ⟨c2, ?_, ?_, hwf2, ht2, hs2⟩
    · simp only [run, hu]; exact hr
    · rw [hval2, hval, hveq, List.sum_cons]; ring

/-- a run of updates of a clock that is not ticking changes nothing but the speed parameter -/
theorem run_not_ticking (fuel : ℕ) (info : Info ℝ) :
    ∀ (dts : List ℝ) (c : Clock ℝ), c.ticking = false →
      ∃ c', c.run fuel info dts = some c' ∧ c'.state = c.state ∧ c'.ticking = false
        ∧ c'.shared = c.shared ∧ c'.cmds = c.cmds := by
  intro dts
  induction dts with
  | nil => intro c h; exact ⟨c, rfl, rfl, h, rfl, rfl⟩
  | cons dt rest ih =>
    intro c h
    obtain ⟨c2, hr, h1, h2, h3, h4⟩ := ih { c with speed := (c.speed.update twCs dt info).1 } h
    exact ⟨c2, by simp only [run, update_not_ticking fuel c dt info h]; exact hr, h1, h2, h3, h4⟩

/-- over a run the speed parameter follows `Parameter.run` on the same steps (C06's time base is
    the clock's own update) -/
theorem run_speed (fuel : ℕ) (info : Info ℝ) :
    ∀ (dts : List ℝ) (c c' : Clock ℝ), c.run fuel info dts = some c' →
      c'.speed = (c.speed.run twCs info dts).1 := by
  intro dts
  induction dts with
  | nil => intro c c' h; simp only [run, Option.some.injEq] at h; subst h; rfl
  | cons dt rest ih =>
    intro c c' h
    simp only [run] at h
    cases hu : c.update fuel dt info with
    | none => rw [hu] at h; exact absurd h (by simp)
    | some p =>
      obtain ⟨c1, r⟩ := p
      rw [hu] at h
      have := ih c1 c' h
      rw [this, (update_frame fuel c c1 dt info r hu).1]
      rfl

end Clock
end K
