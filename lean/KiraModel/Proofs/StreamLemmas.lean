/-
  StreamLemmas.lean — helper lemmas for C09 (streaming ≡ static).
-/
import KiraModel.Proofs.StaticLemmas
import KiraModel.Proofs.DecoderLemmas
import KiraModel.Model.StreamingSound

namespace K
end K
