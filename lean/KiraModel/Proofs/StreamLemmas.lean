/-
  StreamLemmas.lean — helper lemmas for C09 (streaming ≡ static) and for the ring invariant C10 uses.

  The common yardstick of the two implementations is the *walk* of a transport from the start
  position: `trAt W k` = the transport after `k` `increment_position` calls.  The static sound is
  always three steps ahead of what is heard (`StaticSound::new` primes the resampler with three
  frames), the streaming decoder `pushes − 1` steps; the ring holds the entries `pops … pushes − 1`
  of the sequence `ringSeq` (a zero "previous" frame, then one entry per step of the walk).
-/
import KiraModel.Proofs.StaticLemmas
import KiraModel.Proofs.LifecycleLemmas
import KiraModel.Proofs.TransportLemmas
import KiraModel.Proofs.DecoderLemmas
import KiraModel.Model.StreamingSound

namespace K
namespace Streaming

open StaticSound
open Wav (Err)
open Dec (Decoder)

/-! ### the world both sounds play: audio data, slice, start transport -/

/-- the audio (all frames the decoder stands for / the static sound holds), the slice, and the transport
    both sounds start from (start position and loop region from the settings, playing) -/
structure World where
  frames : Array (Frame ℝ)
  slice : Option (Nat × Nat)
  t0 : Transport

namespace World

/-- `num_frames`: frames of the slice -/
def n (W : World) : Nat :=
  match W.slice with
  | some (a, b) => b - a
  | none => W.frames.size

/-- first frame of the slice in the data -/
def start (W : World) : Nat :=
  match W.slice with
  | some (a, _) => a
  | none => 0

/-- in-domain: the slice lies inside the data, the loop region (if any) is valid, the transport is fresh -/
structure Ok (W : World) : Prop where
  slice_ok : match W.slice with
    | some (a, b) => a ≤ b ∧ b ≤ W.frames.size
    | none => True
  valid : W.t0.ValidLoop W.n
  playing : W.t0.playing = true

/-- the frame both sounds fetch for play-head position `p`: data frame `slice.start + p` inside the
    slice, silence outside -/
noncomputable def srcAt (W : World) (p : Nat) : Frame ℝ :=
  if p < W.n then (W.frames[p + W.start]?).getD Frame.zero else Frame.zero

/-- `increment_position` as a total function (it cannot fault with a valid loop region) -/
def incr (W : World) (t : Transport) : Transport :=
  match t.increment W.n with
  | .ok t' => t'
  | .error _ => t

/-- the transport after `k` steps of the walk -/
def trAt (W : World) : Nat → Transport
  | 0 => W.t0
  | k + 1 => W.incr (W.trAt k)

/-- is the walk still playing at step `k`? -/
def pl (W : World) (k : Nat) : Bool := (W.trAt k).playing

theorem trAt_valid (W : World) (h : W.Ok) : ∀ k, (W.trAt k).ValidLoop W.n ∧ (W.trAt k).loopRegion = W.t0.loopRegion := by
  intro k
  induction k with
  | zero => exact ⟨h.valid, rfl⟩
  | succ k ih =>
    obtain ⟨t', h1, h2⟩ := Transport.increment_total (W.trAt k) W.n ih.1
    have : W.trAt (k + 1) = t' := by simp [trAt, incr, h1]
    rw [this]
    refine ⟨?_, by rw [h2, ih.2]⟩
    unfold Transport.ValidLoop; rw [h2]; exact ih.1

/-- **the walk never faults** -/
theorem trAt_step (W : World) (h : W.Ok) (k : Nat) : (W.trAt k).increment W.n = .ok (W.trAt (k + 1)) := by
  obtain ⟨t', h1, _⟩ := Transport.increment_total (W.trAt k) W.n (W.trAt_valid h k).1
  rw [h1]; simp [trAt, incr, h1]

theorem trAt_stopped (W : World) (k : Nat) (hp : W.pl k = false) : W.trAt (k + 1) = W.trAt k := by
  have := Transport.increment_stopped (W.trAt k) W.n hp
  simp [trAt, incr, this]

/-- a transport that has stopped stays stopped -/
theorem pl_antitone (W : World) (k : Nat) (hp : W.pl k = false) : ∀ d, W.pl (k + d) = false := by
  intro d
  induction d with
  | zero => exact hp
  | succ d ih =>
    have := W.trAt_stopped (k + d) ih
    show (W.trAt (k + d + 1)).playing = false
    rw [this]; exact ih

theorem pl_of_later (W : World) (j k : Nat) (hjk : j ≤ k) (hp : W.pl k = true) : W.pl j = true := by
  by_contra hc
  have hf : W.pl j = false := by simpa using hc
  have := W.pl_antitone j hf (k - j)
  rw [show j + (k - j) = k by omega] at this
  rw [this] at hp; cases hp

/-- a stopped transport stands at or after the end of the sound -/
theorem stopped_position (W : World) (h : W.Ok) : ∀ k, W.pl k = false → W.n ≤ (W.trAt k).position := by
  intro k
  induction k with
  | zero => intro hp; have := h.playing; simp [pl, trAt] at hp; rw [this] at hp; cases hp
  | succ k ih =>
    intro hp
    cases hk : W.pl k with
    | false => rw [W.trAt_stopped k hk]; exact ih hk
    | true =>
      have hs := W.trAt_step h k
      have hpk : (W.trAt k).playing = true := hk
      cases hl : (W.trAt k).loopRegion with
      | none =>
        rw [Transport.increment_noLoop _ _ hpk hl] at hs
        injection hs with hs
        have hp' : (W.trAt (k + 1)).playing = false := hp
        rw [← hs] at hp' ⊢
        simp only [decide_eq_false_iff_not, Nat.not_lt] at hp'
        exact hp'
      | some r =>
        obtain ⟨ls, le⟩ := r
        have hv : ls < le ∧ le ≤ W.n := by
          have := (W.trAt_valid h k).1
          simpa [Transport.ValidLoop, hl] using this
        rw [Transport.increment_loop _ _ ls le hpk hl hv.1] at hs
        injection hs with hs
        have hp' : (W.trAt (k + 1)).playing = false := hp
        rw [← hs] at hp' ⊢
        simp only [decide_eq_false_iff_not, Nat.not_lt] at hp'
        exact hp'

/-- the frame fetched at a stopped step is silence -/
theorem srcAt_stopped (W : World) (h : W.Ok) (k : Nat) (hp : W.pl k = false) :
    W.srcAt (W.trAt k).position = Frame.zero := by
  have := W.stopped_position h k hp
  unfold srcAt
  have hn : ¬ (W.trAt k).position < W.n := by omega
  simp [hn]

/-- where the walk ends: `none` = never (it loops for ever), `some L` = step `L` is the first that is not
    playing (`L ≥ 1`: a fresh transport plays) -/
def EndsAt (W : World) (L : Option Nat) : Prop :=
  match L with
  | none => ∀ k, W.pl k = true
  | some L => 1 ≤ L ∧ ∀ k, W.pl k = decide (k < L)

theorem exists_endsAt (W : World) (h : W.Ok) : ∃ L, W.EndsAt L := by
  by_cases hex : ∃ k, W.pl k = false
  · classical
    refine ⟨some (Nat.find hex), ?_, ?_⟩
    · by_contra hc
      have h0 : Nat.find hex = 0 := by omega
      have := Nat.find_spec hex
      rw [h0] at this
      have hp := h.playing
      simp [pl, trAt, hp] at this
    · intro k
      by_cases hk : k < Nat.find hex
      · have := Nat.find_min hex hk
        simp only [Bool.not_eq_false] at this
        simp [this, hk]
      · have hs := Nat.find_spec hex
        have := W.pl_antitone _ hs (k - Nat.find hex)
        rw [show Nat.find hex + (k - Nat.find hex) = k by omega] at this
        simp [this, hk]
  · refine ⟨none, ?_⟩
    intro k
    by_contra hc
    exact hex ⟨k, by simpa using hc⟩

/-! ### what the static sound's resampler holds after `j` position updates -/

/-- frame of window entry `i` counted from the very first (the resampler starts with four silent entries) -/
noncomputable def vFrame (W : World) (i : Nat) : Frame ℝ :=
  if i < 4 then Frame.zero else W.srcAt (W.trAt (i - 4)).position

/-- `frame_index` of window entry `i` -/
def vIndex (W : World) (i : Nat) : Nat :=
  if i < 4 then W.t0.position else (W.trAt (i - 4)).position

/-- `time_until_empty` after `j` pushes -/
def tue (W : World) : Nat → Nat
  | 0 => 0
  | j + 1 => if W.pl j then 4 else W.tue j - 1

/-- the resampler after `j` position updates -/
noncomputable def resAt (W : World) (j : Nat) : Resampler ℝ :=
  { f0 := ⟨W.vFrame j, W.vIndex j⟩
    f1 := ⟨W.vFrame (j + 1), W.vIndex (j + 1)⟩
    f2 := ⟨W.vFrame (j + 2), W.vIndex (j + 2)⟩
    f3 := ⟨W.vFrame (j + 3), W.vIndex (j + 3)⟩
    timeUntilEmpty := W.tue j }

theorem tue_closed (W : World) (L : Option Nat) (hL : W.EndsAt L) (j : Nat) :
    W.tue j = match L with
      | none => if j = 0 then 0 else 4
      | some L => if j = 0 then 0 else if j ≤ L then 4 else 4 - (j - L) := by
  induction j with
  | zero => cases L <;> simp [tue]
  | succ j ih =>
    cases L with
    | none =>
      have : W.pl j = true := hL j
      simp [tue, this]
    | some L =>
      obtain ⟨h1, hpl⟩ := hL
      simp only [tue, hpl j, ih]
      by_cases hj : j < L
      · have : j + 1 ≤ L := hj
        simp [hj, this]
      · have h2 : ¬ j + 1 ≤ L := by omega
        simp only [hj, decide_false, Bool.false_eq_true, if_false, h2, Nat.succ_ne_zero]
        by_cases h0 : j = 0
        · omega
        · simp only [h0, if_false]
          by_cases h3 : j ≤ L
          · simp only [h3, if_true]; omega
          · simp only [h3, if_false]; omega

/-- the static sound's stop condition after `j` updates (`!transport.playing && resampler.empty()`) -/
def staticStops (W : World) (j : Nat) : Bool := !W.pl j && W.tue j == 0

/-! ### what the streaming sound's ring holds -/

/-- the sequence of ring entries: the pre-seeded zero "previous" frame, then one entry per step of the walk -/
noncomputable def ringSeq (W : World) : Nat → TimestampedFrame ℝ
  | 0 => ⟨Frame.zero, 0⟩
  | k + 1 => ⟨W.srcAt (W.trAt k).position, (W.trAt k).position⟩

theorem ringSeq_frame (W : World) (k : Nat) : (W.ringSeq k).frame = W.vFrame (k + 3) := by
  cases k with
  | zero => simp [ringSeq, vFrame]
  | succ k =>
    have : ¬ k + 1 + 3 < 4 := by omega
    simp [ringSeq, vFrame, this]

theorem ringSeq_index (W : World) (k : Nat) : (W.ringSeq (k + 1)).index = W.vIndex (k + 4) := by
  simp [ringSeq, vIndex]

/-- entries `a … m − 1` of the sequence -/
noncomputable def ringSlice (W : World) (a m : Nat) : List (TimestampedFrame ℝ) :=
  (List.range' a (m - a)).map W.ringSeq

theorem ringSlice_getElem? (W : World) (a m i : Nat) :
    (W.ringSlice a m)[i]? = if a + i < m then some (W.ringSeq (a + i)) else none := by
  unfold ringSlice
  rw [List.getElem?_map]
  by_cases h : a + i < m
  · have : i < m - a := by omega
    rw [List.getElem?_range' this]
    simp [h]
  · have : (List.range' a (m - a)).length ≤ i := by simp; omega
    rw [List.getElem?_eq_none this]
    simp [h]

theorem ringSlice_length (W : World) (a m : Nat) : (W.ringSlice a m).length = m - a := by
  simp [ringSlice]

theorem ringSlice_push (W : World) (a m : Nat) (h : a ≤ m) :
    W.ringSlice a m ++ [W.ringSeq m] = W.ringSlice a (m + 1) := by
  unfold ringSlice
  have : m + 1 - a = (m - a) + 1 := by omega
  rw [this, List.range'_concat, List.map_append]
  have e : a + (m - a) = m := by omega
  simp [e]

theorem ringSlice_pop (W : World) (a m : Nat) (h : a < m) :
    W.ringSlice a m = W.ringSeq a :: W.ringSlice (a + 1) m := by
  unfold ringSlice
  have : m - a = (m - (a + 1)) + 1 := by omega
  rw [this, List.range'_succ]
  simp

theorem ringSlice_empty (W : World) (a m : Nat) (h : m ≤ a) : W.ringSlice a m = [] := by
  unfold ringSlice
  have : m - a = 0 := by omega
  simp [this]

end World

/-! ### the static sound along the walk -/

/-- the static sound plays the world `W` forwards -/
structure StaticIn (W : World) (st : StaticSound ℝ) : Prop where
  frames : st.frames = W.frames
  slice : st.slice = W.slice
  reverse : st.reverse = false

/-- … and has made `j` position updates -/
structure StaticAt (W : World) (st : StaticSound ℝ) (j : Nat) : Prop extends StaticIn W st where
  transport : st.transport = W.trAt j
  resampler : st.resampler = W.resAt j

theorem StaticIn.nFrames {W : World} {st : StaticSound ℝ} (h : StaticIn W st) (hW : W.Ok) : st.nFrames = W.n := by
  have hs := hW.slice_ok
  unfold StaticSound.nFrames World.n; rw [h.slice, h.frames]
  cases hsl : W.slice with
  | none => rfl
  | some ab =>
    obtain ⟨a, b⟩ := ab
    simp only [hsl] at hs ⊢
    omega

theorem StaticIn.sliceStart {W : World} {st : StaticSound ℝ} (h : StaticIn W st) : st.sliceStart = W.start := by
  unfold StaticSound.sliceStart World.start; rw [h.slice]
  cases W.slice with
  | none => rfl
  | some ab => cases ab; rfl

/-- what a lookup at play-head position `p` pushes -/
theorem static_lookup {W : World} {st : StaticSound ℝ} (h : StaticIn W st) (hW : W.Ok) (p : Nat) :
    ∃ fo, frameAtIndex p st.frames st.slice = .ok fo ∧ fo.getD Frame.zero = W.srcAt p := by
  unfold World.srcAt
  by_cases hp : p < W.n
  · obtain ⟨f, hf, hg, _⟩ := (frameAtIndex_ok st p).1 (by rw [h.nFrames hW]; exact hp)
    refine ⟨some f, hf, ?_⟩
    rw [h.sliceStart, h.frames] at hg
    simp [hp, hg]
  · have := (frameAtIndex_ok st p).2 (by rw [h.nFrames hW]; omega)
    exact ⟨none, this, by simp [hp]⟩

/-- **one position update of the static sound along the walk** (forwards: playback rate not negative) -/
theorem static_update {W : World} (hW : W.Ok) {st : StaticSound ℝ} {j : Nat} (h : StaticAt W st j)
    (hr : signNeg st.playbackRate.value = false) :
    st.updatePosition = .ok { st with transport := W.trAt (j + 1), resampler := W.resAt (j + 1),
                                       core := if W.staticStops (j + 1) then st.core.markStopped else st.core } := by
  have hbw : ∀ r : Resampler ℝ, isPlayingBackwards { st with resampler := r } = false := by
    intro r; simp [isPlayingBackwards, h.reverse, hr]
  have hmove : ∀ r : Resampler ℝ, moveTransport { st with resampler := r } = .ok (W.trAt (j + 1)) := by
    intro r
    unfold moveTransport
    rw [hbw r]
    simp only [Bool.false_eq_true, if_false]
    have : numFrames st.frames.size st.slice = .ok W.n := by
      rw [numFrames_ok st, h.toStaticIn.nFrames hW]
    simp only [this]
    show st.transport.increment W.n = _
    rw [h.transport]; exact W.trAt_step hW j
  have hf4 : ¬ j + 3 + 1 < 4 := by omega
  unfold updatePosition pushFrameToResampler
  cases hp : W.pl j with
  | true =>
    have hp' : st.transport.playing = true := by rw [h.transport]; exact hp
    obtain ⟨fo, hfo, hget⟩ := static_lookup h.toStaticIn hW st.transport.position
    simp only [hp', if_true, hfo, hmove]
    have hres : st.resampler.pushFrame (some (fo.getD Frame.zero)) st.transport.position = W.resAt (j + 1) := by
      rw [h.resampler, hget, h.transport]
      simp [Resampler.pushFrame, World.resAt, World.vFrame, World.vIndex, World.tue, hp, hf4]
    rw [hres]
    have : (!(W.trAt (j + 1)).playing && (W.resAt (j + 1)).empty) = W.staticStops (j + 1) := by
      simp [World.staticStops, World.pl, Resampler.empty, World.resAt]
    simp only [this]
    split <;> rfl
  | false =>
    have hp' : st.transport.playing = false := by rw [h.transport]; exact hp
    simp only [hp', Bool.false_eq_true, if_false, hmove]
    have hres : st.resampler.pushFrame none st.transport.position = W.resAt (j + 1) := by
      rw [h.resampler, h.transport]
      have hz := W.srcAt_stopped hW j hp
      simp [Resampler.pushFrame, World.resAt, World.vFrame, World.vIndex, World.tue, hp, hf4, hz]
    rw [hres]
    have : (!(W.trAt (j + 1)).playing && (W.resAt (j + 1)).empty) = W.staticStops (j + 1) := by
      simp [World.staticStops, World.pl, Resampler.empty, World.resAt]
    simp only [this]
    split <;> rfl


theorem markStopped_idem (c : SoundCore ℝ) : c.markStopped.markStopped = c.markStopped := by
  simp [SoundCore.markStopped, SoundCore.syncShared, Psm.markAsStopped, Psm.playbackState]

theorem World.staticStops_succ (W : World) (j : Nat) (h : W.staticStops j = true) : W.staticStops (j + 1) = true := by
  simp only [World.staticStops, Bool.and_eq_true, Bool.not_eq_true', beq_iff_eq] at h ⊢
  obtain ⟨hp, ht⟩ := h
  have hp1 : W.pl (j + 1) = false := W.pl_antitone j hp 1
  refine ⟨hp1, ?_⟩
  simp [World.tue, hp, ht]

theorem World.staticStops_mono (W : World) (j d : Nat) (h : W.staticStops j = true) : W.staticStops (j + d) = true := by
  induction d with
  | zero => exact h
  | succ d ih => exact W.staticStops_succ (j + d) ih

/-- **`k` position updates of the static sound along the walk** -/
theorem static_updN {W : World} (hW : W.Ok) : ∀ (k : Nat) {st : StaticSound ℝ} {j : Nat}, StaticAt W st j →
    signNeg st.playbackRate.value = false →
    updN k st = .ok { st with transport := W.trAt (j + k), resampler := W.resAt (j + k),
                              core := if 1 ≤ k ∧ W.staticStops (j + k) = true then st.core.markStopped else st.core } := by
  intro k
  induction k with
  | zero =>
    intro st j h _
    simp only [updN, Nat.add_zero, Nat.le_zero_eq, Nat.succ_ne_zero, false_and, if_false]
    rw [← h.transport, ← h.resampler]
  | succ k ih =>
    intro st j h hr
    rw [updN_succ, static_update hW h hr]
    simp only []
    have h1 : ∀ c : SoundCore ℝ, StaticAt W ({ st with transport := W.trAt (j + 1), resampler := W.resAt (j + 1), core := c } : StaticSound ℝ) (j + 1) :=
      fun c => { frames := h.frames, slice := h.slice, reverse := h.reverse, transport := rfl, resampler := rfl }
    rw [ih (h1 _) hr]
    have e : j + 1 + k = j + (k + 1) := by omega
    simp only [e]
    congr 2
    by_cases hk : 1 ≤ k
    · by_cases hs : W.staticStops (j + (k + 1)) = true
      · have : 1 ≤ k + 1 := by omega
        simp only [hk, hs, this, and_self, if_true]
        split <;> simp [markStopped_idem]
      · have hs1 : ¬ W.staticStops (j + 1) = true := by
          intro hc
          have := W.staticStops_mono (j + 1) k hc
          rw [e] at this; exact hs this
        simp [hs, hs1]
    · have hk0 : k = 0 := by omega
      subst hk0
      simp

/-! ### the streaming sound's position loop -/

theorem popFrame_eq {σ : Type} (s : Sys σ ℝ) :
    s.popFrame = { s with ring := { s.ring with items := s.ring.items.drop 1 } } := by
  unfold Sys.popFrame Ring.pop
  cases h : s.ring.items with
  | nil =>
    simp only [List.drop_nil]
    have : ({ s.ring with items := [] } : Ring (TimestampedFrame ℝ)) = s.ring := by
      cases hr : s.ring; simp_all
    rw [this]
  | cons x xs => simp

/-- the `while fractional_position >= 1.0` loop pops `⌊frac⌋` entries (as far as there are any) and leaves
    the fractional part — for every fuel that is large enough -/
theorem stepPos_spec {σ : Type} : ∀ (fuel : Nat) (s : Sys σ ℝ), 0 ≤ s.frac → ⌊s.frac⌋₊ < fuel →
    Sys.stepPos fuel s = .ok { s with frac := s.frac - (⌊s.frac⌋₊ : ℝ),
                                      ring := { s.ring with items := s.ring.items.drop ⌊s.frac⌋₊ } } := by
  intro fuel
  induction fuel with
  | zero => intro s _ h; omega
  | succ fuel ih =>
    intro s h0 hf
    rw [Sys.stepPos]
    by_cases h1 : (1 : ℝ) ≤ s.frac
    · have hm : ⌊s.frac⌋₊ = ⌊s.frac - 1⌋₊ + 1 := by
        have := Nat.floor_sub_one s.frac
        have h1' : 1 ≤ ⌊s.frac⌋₊ := Nat.le_floor (by simpa using h1)
        omega
      simp only [lit_1, h1, if_true]
      rw [popFrame_eq]
      have h0' : 0 ≤ s.frac - 1 := by linarith
      rw [ih _ h0' (by show ⌊s.frac - 1⌋₊ < fuel; omega)]
      have e1 : s.frac - 1 - (⌊s.frac - 1⌋₊ : ℝ) = s.frac - ((⌊s.frac - 1⌋₊ + 1 : ℕ) : ℝ) := by push_cast; ring
      have e2 : List.drop ⌊s.frac - 1⌋₊ (List.drop 1 s.ring.items) = List.drop (⌊s.frac - 1⌋₊ + 1) s.ring.items := by
        rw [List.drop_drop, Nat.add_comm]
      simp only [hm, e1, e2]
    · have hz : ⌊s.frac⌋₊ = 0 := Nat.floor_eq_zero.mpr (not_le.mp h1)
      simp only [lit_1, h1, if_false, hz, List.drop_zero, Nat.cast_zero, sub_zero]

theorem World.ringSlice_drop (W : World) (a m k : Nat) : (W.ringSlice a m).drop k = W.ringSlice (a + k) m := by
  apply List.ext_getElem?
  intro i
  rw [List.getElem?_drop, W.ringSlice_getElem?, W.ringSlice_getElem?]
  have : a + (k + i) = a + k + i := by omega
  rw [this]


/-! ### the streaming sound along the walk -/

/-- the streaming sound plays the world `W` through a decoder that meets the `Decoder` contract -/
structure StreamIn {σ : Type} (W : World) (pos : σ → Nat) (good : σ → Prop) (s : Sys σ ℝ) : Prop where
  cfg_slice : s.cfg.slice = W.slice
  cfg_n : s.cfg.numFrames = W.n
  inv : Dec.Inv W.frames.toList pos good s.ds

/-- … the audio side has made `a` position steps (pop attempts) and the decoder `m` pushes (the pre-seeded
    entry included): **the ring holds entries `a … m − 1` of the sequence** -/
structure StreamAt {σ : Type} (W : World) (s : Sys σ ℝ) (a m : Nat) : Prop where
  ring : s.ring.items = W.ringSlice a m
  transport : s.transport = W.trAt (m - 1)
  m_pos : 1 ≤ m
  played : ∀ k, k + 1 < m → W.pl k = true
  reached : s.reachedEnd = !W.pl (m - 1)

theorem World.staticStops_none (W : World) (hL : W.EndsAt none) (j : Nat) : W.staticStops j = false := by
  have : W.pl j = true := hL j
  simp [World.staticStops, this]

theorem World.staticStops_some (W : World) (L : Nat) (hL : W.EndsAt (some L)) (j : Nat) :
    W.staticStops j = true ↔ L + 4 ≤ j := by
  have ht := W.tue_closed (some L) hL j
  obtain ⟨h1, hpl⟩ := hL
  simp only [World.staticStops, Bool.and_eq_true, Bool.not_eq_true', beq_iff_eq, hpl j, decide_eq_false_iff_not,
    Nat.not_lt]
  simp only [] at ht
  rw [ht]
  constructor
  · rintro ⟨h2, h3⟩
    by_cases hj0 : j = 0
    · omega
    · simp only [hj0, if_false] at h3
      by_cases hjl : j ≤ L
      · simp [hjl] at h3
      · simp only [hjl, if_false] at h3; omega
  · intro h
    refine ⟨by omega, ?_⟩
    have hj0 : ¬ j = 0 := by omega
    have hjl : ¬ j ≤ L := by omega
    simp only [hj0, hjl, if_false]; omega

/-- the reach of the decoder in terms of the end of the walk -/
theorem StreamAt.reached_iff {σ : Type} {W : World} {s : Sys σ ℝ} {a m : Nat} (h : StreamAt W s a m) (L : Nat)
    (hL : W.EndsAt (some L)) : (s.reachedEnd = true ↔ m = L + 1) ∧ m ≤ L + 1 := by
  obtain ⟨h1, hpl⟩ := hL
  have hm := h.m_pos
  have hle : m ≤ L + 1 := by
    by_contra hc
    have := h.played (m - 2) (by omega)
    rw [hpl] at this
    simp only [decide_eq_true_eq] at this
    omega
  refine ⟨?_, hle⟩
  rw [h.reached, hpl]
  simp only [Bool.not_eq_true', decide_eq_false_iff_not, Nat.not_lt]
  omega

theorem StreamAt.reached_none {σ : Type} {W : World} {s : Sys σ ℝ} {a m : Nat} (h : StreamAt W s a m)
    (hL : W.EndsAt none) : s.reachedEnd = false := by
  rw [h.reached, hL (m - 1)]; rfl

/-- the four frames the interpolator sees, when the decoder is ahead: the walk's entries `a … a + 3` -/
theorem nextFrame_eq {σ : Type} {W : World} (hW : W.Ok) {s : Sys σ ℝ} {a m : Nat} (h : StreamAt W s a m)
    (hahead : s.reachedEnd = true ∨ a + 4 ≤ m) (i : Nat) (hi : i < 4) :
    s.nextFrame i = W.vFrame (a + i + 3) := by
  unfold Sys.nextFrame
  rw [h.ring, W.ringSlice_getElem?]
  by_cases hlt : a + i < m
  · simp only [hlt, if_true]
    exact W.ringSeq_frame (a + i)
  · simp only [hlt, if_false]
    have hre : s.reachedEnd = true := by
      rcases hahead with h1 | h1
      · exact h1
      · omega
    rw [h.reached] at hre
    have hp : W.pl (m - 1) = false := by simpa using hre
    have hm := h.m_pos
    have hp2 := W.pl_antitone (m - 1) hp (a + i - m)
    have e : m - 1 + (a + i - m) = a + i - 1 := by omega
    rw [e] at hp2
    have hz := W.srcAt_stopped hW (a + i - 1) hp2
    have hn4 : ¬ a + i + 3 < 4 := by omega
    have e2 : a + i + 3 - 4 = a + i - 1 := by omega
    simp [World.vFrame, hn4, e2, hz]

theorem markStopped_of_stopped (c : SoundCore ℝ) (hs : c.psm.playbackState = .stopped) (hsync : c.InSync) :
    c.markStopped = c := by
  have hst : c.psm.state = .stopped := by
    unfold Psm.playbackState at hs
    cases h : c.psm.state <;> simp_all
  unfold SoundCore.InSync at hsync
  cases c with
  | mk psm startTime shared =>
    cases psm with
    | mk state fade =>
      simp only [] at hst hsync hs
      subst hst
      simp [SoundCore.markStopped, SoundCore.syncShared, Psm.markAsStopped, Psm.playbackState, hsync]


/-! ### the bisimulation relation and one output frame -/

/-- **the relation**: the static sound's resampler window is the first four ring entries (both sit at step
    `a` of the walk, the static transport three steps further), same fraction, same parameters, same
    life-cycle core, same pending commands (none for the decoder), no decoder error -/
structure Bisim {σ : Type} (W : World) (pos : σ → Nat) (good : σ → Prop) (st : StaticSound ℝ) (s : Sys σ ℝ)
    (a m : Nat) : Prop where
  sAt : StaticAt W st (a + 3)
  tIn : StreamIn W pos good s
  tAt : StreamAt W s a m
  frac : st.frac = s.frac
  sampleRate : st.sampleRate = s.sampleRate
  volume : st.volume = s.volume
  playbackRate : st.playbackRate = s.playbackRate
  panning : st.panning = s.panning
  core : st.core = s.core
  cmds : st.cmds = s.cmds
  noSeek : s.cmds.setLoopRegion = none ∧ s.cmds.seekBy = none ∧ s.cmds.seekTo = none
  frac_nonneg : 0 ≤ s.frac
  frac_lt : s.frac < 1
  inSync : s.core.InSync
  endStopped : s.reachedEnd = true → m ≤ a → s.core.psm.playbackState = .stopped
  a_le : s.reachedEnd = false → a ≤ m
  noErr : s.encounteredError = false
  cap : s.ring.cap = bufferSize

/-- what the C09 premise says about one output frame: playback rate not negative, and the decoder has
    buffered the four-frame window plus every frame this output frame steps over (or has reached the end) -/
structure FrameOk {σ : Type} (s : Sys σ ℝ) (t dt : ℝ) (fuel : Nat) : Prop where
  dt_nonneg : 0 ≤ dt
  rate_nonneg : 0 ≤ s.playbackRate.interpolatedValue tw64 t
  rate_sign : signNeg s.playbackRate.value = false
  fuel_ok : ⌊s.frac + s.fracStep t dt⌋₊ < fuel
  ahead : s.reachedEnd = true ∨ 4 + ⌊s.frac + s.fracStep t dt⌋₊ ≤ s.ring.len

theorem fracStep_nonneg {σ : Type} (s : Sys σ ℝ) (t dt : ℝ) (hdt : 0 ≤ dt) : 0 ≤ s.fracStep t dt := by
  unfold Sys.fracStep
  rw [fmax_real]
  have h1 : (0 : ℝ) ≤ (KOps.ofNat s.sampleRate : ℝ) := by simp
  have h2 : (0 : ℝ) ≤ max (s.playbackRate.interpolatedValue tw64 t) (0.0 : ℝ) := by simp
  exact mul_nonneg (mul_nonneg h1 h2) hdt

theorem fracStep_eq {σ : Type} {st : StaticSound ℝ} {s : Sys σ ℝ} (hsr : st.sampleRate = s.sampleRate)
    (hpr : st.playbackRate = s.playbackRate) (t dt : ℝ) (hrate : 0 ≤ s.playbackRate.interpolatedValue tw64 t) :
    st.fracStep t dt = s.fracStep t dt := by
  unfold StaticSound.fracStep Sys.fracStep
  rw [hsr, hpr, fmax_real, abs_real, abs_of_nonneg hrate, lit_0, max_eq_left hrate]

theorem shade_eq {σ : Type} {st : StaticSound ℝ} {s : Sys σ ℝ} (hv : st.volume = s.volume)
    (hp : st.panning = s.panning) (hc : st.core = s.core) (t : ℝ) (f : Frame ℝ) :
    st.shade t f = s.shade t f := by
  unfold StaticSound.shade Sys.shade
  rw [hv, hp, hc]

/-- **one output frame**: same output, and the relation holds again `k = ⌊frac + step⌋` steps further -/
theorem frame_bisim {σ : Type} {W : World} (hW : W.Ok) {pos : σ → Nat} {good : σ → Prop}
    {st : StaticSound ℝ} {s : Sys σ ℝ} {a m : Nat} (B : Bisim W pos good st s a m)
    (t dt : ℝ) (fuel : Nat) (F : FrameOk s t dt fuel) :
    ∃ st' s' out, st.renderFrame fuel t dt = .ok (st', out) ∧ s.renderFrame fuel t dt = .ok (s', out) ∧
      Bisim W pos good st' s' (a + ⌊s.frac + s.fracStep t dt⌋₊) m ∧
      s'.playbackRate = s.playbackRate ∧ s'.reachedEnd = s.reachedEnd ∧ s'.sampleRate = s.sampleRate := by
  have hstep := fracStep_eq B.sampleRate B.playbackRate t dt F.rate_nonneg
  have hsn := fracStep_nonneg s t dt F.dt_nonneg
  have h0 : 0 ≤ s.frac + s.fracStep t dt := add_nonneg B.frac_nonneg hsn
  set k := ⌊s.frac + s.fracStep t dt⌋₊ with hk
  have hAh : s.reachedEnd = true ∨ a + 4 + k ≤ m := by
    rcases F.ahead with h | h
    · exact Or.inl h
    · right
      have hl : s.ring.len = m - a := by
        show s.ring.items.length = m - a
        rw [B.tAt.ring, W.ringSlice_length]
      rw [hl] at h; omega
  have hsign : signNeg st.playbackRate.value = false := by rw [B.playbackRate]; exact F.rate_sign
  -- the static side
  have hS := StaticSound.renderFrame_spec fuel st t dt (by rw [B.frac, hstep]; exact h0)
    (by rw [B.frac, hstep]; exact F.fuel_ok)
  rw [B.frac, hstep, ← hk, static_updN hW k B.sAt hsign] at hS
  simp only [Except.map, setFrac] at hS
  -- the streaming side
  have hring : List.drop k s.ring.items = W.ringSlice (a + k) m := by
    rw [B.tAt.ring, W.ringSlice_drop]
  have hT : s.renderFrame fuel t dt = .ok (Sys.checkEnd ({ s with frac := s.frac + s.fracStep t dt - (k : ℝ), ring := { s.ring with items := W.ringSlice (a + k) m } } : Sys σ ℝ), s.shade t s.rawFrame) := by
    unfold Sys.renderFrame
    rw [stepPos_spec fuel _ (by simpa using h0) (by simpa using F.fuel_ok)]
    simp only [← hk, hring]
  -- the two outputs
  have hahead0 : s.reachedEnd = true ∨ a + 4 ≤ m := by
    rcases hAh with h | h
    · exact Or.inl h
    · exact Or.inr (by omega)
  have hout : st.shade t (st.resampler.get s.frac) = s.shade t s.rawFrame := by
    rw [shade_eq B.volume B.panning B.core]
    congr 1
    unfold Sys.rawFrame Resampler.get
    rw [nextFrame_eq hW B.tAt hahead0 0 (by omega), nextFrame_eq hW B.tAt hahead0 1 (by omega),
      nextFrame_eq hW B.tAt hahead0 2 (by omega), nextFrame_eq hW B.tAt hahead0 3 (by omega), B.sAt.resampler]
    simp [World.resAt]
  -- the two cores
  have hcore : (if 1 ≤ k ∧ W.staticStops (a + 3 + k) = true then st.core.markStopped else st.core)
      = (Sys.checkEnd ({ s with frac := s.frac + s.fracStep t dt - (k : ℝ), ring := { s.ring with items := W.ringSlice (a + k) m } } : Sys σ ℝ)).core := by
    unfold Sys.checkEnd
    simp only []
    rw [B.core]
    obtain ⟨L, hL⟩ := W.exists_endsAt hW
    have hempty : (W.ringSlice (a + k) m).isEmpty = decide (m ≤ a + k) := by
      have := W.ringSlice_length (a + k) m
      cases hl : W.ringSlice (a + k) m with
      | nil => rw [hl] at this; simp at this; simp; omega
      | cons x xs => rw [hl] at this; simp at this; simp; omega
    rw [hempty]
    cases L with
    | none =>
      have h1 := W.staticStops_none hL (a + 3 + k)
      have h2 := B.tAt.reached_none hL
      simp [h1, h2]
    | some L =>
      have h1 := W.staticStops_some L hL (a + 3 + k)
      obtain ⟨h2, h3⟩ := B.tAt.reached_iff L hL
      by_cases hre : s.reachedEnd = true
      · have hm : m = L + 1 := h2.mp hre
        by_cases hk1 : 1 ≤ k
        · by_cases hge : m ≤ a + k
          · have : L + 4 ≤ a + 3 + k := by omega
            simp [hre, hge, hk1, h1.mpr this]
          · have : ¬ L + 4 ≤ a + 3 + k := by omega
            have hs : ¬ W.staticStops (a + 3 + k) = true := fun hc => this (h1.mp hc)
            simp [hre, hge, hs]
        · have hk0 : k = 0 := by omega
          by_cases hge : m ≤ a + k
          · have hstopped := B.endStopped hre (by omega)
            have := markStopped_of_stopped s.core hstopped B.inSync
            have hge' : m ≤ a := by omega
            simp [hre, hge', hk0, this]
          · have hge' : ¬ m ≤ a := by omega
            simp [hre, hge', hk0]
      · have hre' : s.reachedEnd = false := by simpa using hre
        have hml : ¬ m = L + 1 := fun hc => hre (h2.mpr hc)
        have hah : a + 4 + k ≤ m := by
          rcases hAh with h | h
          · exact absurd h hre
          · exact h
        have : ¬ L + 4 ≤ a + 3 + k := by omega
        have hs : ¬ W.staticStops (a + 3 + k) = true := fun hc => this (h1.mp hc)
        simp [hre', hs]
  refine ⟨_, Sys.checkEnd ({ s with frac := s.frac + s.fracStep t dt - (k : ℝ), ring := { s.ring with items := W.ringSlice (a + k) m } } : Sys σ ℝ), _, hS, ?_, ?_, ?_, ?_, ?_⟩
  · rw [hT, hout]
  · have hfl := floor_frac_bounds (s.frac + s.fracStep t dt) h0
    rw [← hk] at hfl
    have hcs : ∀ x : Sys σ ℝ, (Sys.checkEnd x).frac = x.frac ∧ (Sys.checkEnd x).ring = x.ring ∧
        (Sys.checkEnd x).cfg = x.cfg ∧ (Sys.checkEnd x).ds = x.ds ∧ (Sys.checkEnd x).transport = x.transport ∧
        (Sys.checkEnd x).reachedEnd = x.reachedEnd ∧ (Sys.checkEnd x).sampleRate = x.sampleRate ∧
        (Sys.checkEnd x).volume = x.volume ∧ (Sys.checkEnd x).playbackRate = x.playbackRate ∧
        (Sys.checkEnd x).panning = x.panning ∧ (Sys.checkEnd x).cmds = x.cmds ∧
        (Sys.checkEnd x).encounteredError = x.encounteredError := by
      intro x; unfold Sys.checkEnd; split <;> simp
    set x : Sys σ ℝ := { s with frac := s.frac + s.fracStep t dt - (k : ℝ), ring := { s.ring with items := W.ringSlice (a + k) m } } with hx
    obtain ⟨c1, c2, c3, c4, c5, c6, c7, c8, c9, c10, c11, c12⟩ := hcs x
    have hcoreSync : (Sys.checkEnd x).core.InSync ∧
        ((Sys.checkEnd x).reachedEnd = true → m ≤ a + k → (Sys.checkEnd x).core.psm.playbackState = .stopped) := by
      unfold Sys.checkEnd
      by_cases hc : (x.reachedEnd && x.ring.items.isEmpty) = true
      · simp only [hc, if_true]
        have hm := markStopped_isStopped x.core
        refine ⟨?_, fun _ _ => ?_⟩
        · unfold SoundCore.InSync; rw [hm.2]; simp [Psm.playbackState, hm.1]
        · simp [Psm.playbackState, hm.1]
      · simp only [hc]
        refine ⟨B.inSync, fun hre hle => ?_⟩
        exfalso; apply hc
        have : x.ring.items = [] := by
          show W.ringSlice (a + k) m = []
          exact W.ringSlice_empty _ _ hle
        have hre' : x.reachedEnd = true := by simpa using hre
        simp [hre', this]
    exact {
      sAt := { frames := B.sAt.frames, slice := B.sAt.slice, reverse := B.sAt.reverse,
               transport := by show W.trAt (a + 3 + k) = W.trAt (a + k + 3); congr 1; omega,
               resampler := by show W.resAt (a + 3 + k) = W.resAt (a + k + 3); congr 1; omega }
      tIn := { cfg_slice := by rw [c3]; exact B.tIn.cfg_slice, cfg_n := by rw [c3]; exact B.tIn.cfg_n,
               inv := by rw [c4]; exact B.tIn.inv }
      tAt := { ring := by rw [c2], transport := by rw [c5]; exact B.tAt.transport, m_pos := B.tAt.m_pos,
               played := B.tAt.played, reached := by rw [c6]; exact B.tAt.reached }
      frac := by rw [c1]
      sampleRate := by rw [c7]; exact B.sampleRate
      volume := by rw [c8]; exact B.volume
      playbackRate := by rw [c9]; exact B.playbackRate
      panning := by rw [c10]; exact B.panning
      core := hcore
      cmds := by rw [c11]; exact B.cmds
      noSeek := by rw [c11]; exact B.noSeek
      frac_nonneg := by rw [c1]; exact hfl.1
      frac_lt := by rw [c1]; exact hfl.2
      inSync := hcoreSync.1
      endStopped := hcoreSync.2
      a_le := by
        rw [c6]; intro hre
        rcases hAh with h | h
        · rw [hre] at h; cases h
        · omega
      noErr := by rw [c12]; exact B.noErr
      cap := by rw [c2]; exact B.cap }
  · exact (by unfold Sys.checkEnd; split <;> rfl)
  · exact (by unfold Sys.checkEnd; split <;> rfl)
  · exact (by unfold Sys.checkEnd; split <;> rfl)


/-! ### a whole `process` call, `on_start_processing`, commands -/

/-- chunk time of output frame `i` of `len` -/
noncomputable def chunkTime (i len : Nat) : ℝ := (KOps.ofNat (i + 1) : ℝ) / (KOps.ofNat len : ℝ)

/-- the C09 premise for the remaining `k` frames of a render loop (a statement about the streaming run only:
    at every output frame the playback rate is not negative and the decoder is ahead) -/
def LoopOk {σ : Type} (fuel : Nat) (dt : ℝ) (len : Nat) : Nat → Nat → Sys σ ℝ → Prop
  | 0, _, _ => True
  | k + 1, i, s =>
    FrameOk s (chunkTime i len) dt fuel ∧
    ∀ s' f, s.renderFrame fuel (chunkTime i len) dt = .ok (s', f) → LoopOk fuel dt len k (i + 1) s'

theorem loop_bisim {σ : Type} {W : World} (hW : W.Ok) {pos : σ → Nat} {good : σ → Prop} (fuel : Nat) (dt : ℝ)
    (len m : Nat) : ∀ (k i a : Nat) (st : StaticSound ℝ) (s : Sys σ ℝ), Bisim W pos good st s a m →
    LoopOk fuel dt len k i s →
    ∃ st' s' outs a', StaticSound.renderLoop fuel dt len k i st = .ok (st', outs) ∧
      Sys.renderLoop fuel dt len k i s = .ok (s', outs) ∧ Bisim W pos good st' s' a' m ∧ a ≤ a' ∧
      outs.length = k := by
  intro k
  induction k with
  | zero => intro i a st s B _; exact ⟨st, s, [], a, rfl, rfl, B, Nat.le_refl _, rfl⟩
  | succ k ih =>
    intro i a st s B hok
    obtain ⟨hF, hnext⟩ := hok
    obtain ⟨st1, s1, out, h1, h2, B1, _, _, _⟩ := frame_bisim hW B _ dt fuel hF
    obtain ⟨st', s', outs, a', h3, h4, B', hle, hlen⟩ := ih (i + 1) _ st1 s1 B1 (hnext s1 out h2)
    unfold chunkTime at h1 h2
    refine ⟨st', s', out :: outs, a', ?_, ?_, B', by omega, by simp [hlen]⟩
    · rw [StaticSound.renderLoop, h1]; simp only [h3]
    · rw [Sys.renderLoop, h2]; simp only [h4]

/-- the state after the parameter updates and the life-cycle gate of `process` (static) -/
noncomputable def gatedS (st : StaticSound ℝ) (len : Nat) (dt : ℝ) (info : Info ℝ) : StaticSound ℝ :=
  { st with volume := (st.volume.update tw32 (dt * (KOps.ofNat len : ℝ)) info).1, playbackRate := (st.playbackRate.update tw64 (dt * (KOps.ofNat len : ℝ)) info).1, panning := (st.panning.update tw32 (dt * (KOps.ofNat len : ℝ)) info).1, core := (st.core.gate (dt * (KOps.ofNat len : ℝ)) info).1 }

/-- the state after the parameter updates and the life-cycle gate of `process` (streaming) -/
noncomputable def gatedT {σ : Type} (s : Sys σ ℝ) (len : Nat) (dt : ℝ) (info : Info ℝ) : Sys σ ℝ :=
  { s with volume := (s.volume.update tw32 (dt * (KOps.ofNat len : ℝ)) info).1, playbackRate := (s.playbackRate.update tw64 (dt * (KOps.ofNat len : ℝ)) info).1, panning := (s.panning.update tw32 (dt * (KOps.ofNat len : ℝ)) info).1, core := (s.core.gate (dt * (KOps.ofNat len : ℝ)) info).1 }

theorem static_process_eq (fuel : Nat) (st : StaticSound ℝ) (len : Nat) (dt : ℝ) (info : Info ℝ) :
    st.process fuel len dt info = if (st.core.gate (dt * (KOps.ofNat len : ℝ)) info).2 = true
      then StaticSound.renderLoop fuel dt len len 0 (gatedS st len dt info)
      else .ok (gatedS st len dt info, List.replicate len Frame.zero) := rfl

theorem stream_processOk_eq {σ : Type} (fuel : Nat) (s : Sys σ ℝ) (len : Nat) (dt : ℝ) (info : Info ℝ) :
    s.processOk fuel len dt info = if (s.core.gate (dt * (KOps.ofNat len : ℝ)) info).2 = true
      then (if ((gatedT s len dt info).ring.len < 2 && !(gatedT s len dt info).reachedEnd) = true
        then .ok (gatedT s len dt info, List.replicate len Frame.zero)
        else Sys.renderLoop fuel dt len len 0 (gatedT s len dt info))
      else .ok (gatedT s len dt info, List.replicate len Frame.zero) := rfl

theorem gated_bisim {σ : Type} {W : World} {pos : σ → Nat} {good : σ → Prop}
    {st : StaticSound ℝ} {s : Sys σ ℝ} {a m : Nat} (B : Bisim W pos good st s a m) (len : Nat) (dt : ℝ) (info : Info ℝ) :
    Bisim W pos good (gatedS st len dt info) (gatedT s len dt info) a m :=
  { sAt := { frames := B.sAt.frames, slice := B.sAt.slice, reverse := B.sAt.reverse,
             transport := B.sAt.transport, resampler := B.sAt.resampler }
    tIn := { cfg_slice := B.tIn.cfg_slice, cfg_n := B.tIn.cfg_n, inv := B.tIn.inv }
    tAt := { ring := B.tAt.ring, transport := B.tAt.transport, m_pos := B.tAt.m_pos, played := B.tAt.played,
             reached := B.tAt.reached }
    frac := B.frac
    sampleRate := B.sampleRate
    volume := by show (st.volume.update _ _ _).1 = (s.volume.update _ _ _).1; rw [B.volume]
    playbackRate := by show (st.playbackRate.update _ _ _).1 = (s.playbackRate.update _ _ _).1; rw [B.playbackRate]
    panning := by show (st.panning.update _ _ _).1 = (s.panning.update _ _ _).1; rw [B.panning]
    core := by show (st.core.gate _ _).1 = (s.core.gate _ _).1; rw [B.core]
    cmds := B.cmds
    noSeek := B.noSeek
    frac_nonneg := B.frac_nonneg
    frac_lt := B.frac_lt
    inSync := SoundCore.apply_inSync s.core (.gate _ info) B.inSync
    endStopped := fun hre hle => SoundCore.apply_stopped s.core (.gate _ info) (B.endStopped hre hle)
    a_le := B.a_le
    noErr := B.noErr
    cap := B.cap }

/-- the C09 premise for one `process` call: if the life-cycle gate lets the sound render, every frame is `FrameOk` -/
def ProcOk {σ : Type} (fuel : Nat) (s : Sys σ ℝ) (len : Nat) (dt : ℝ) (info : Info ℝ) : Prop :=
  (s.core.gate (dt * (KOps.ofNat len : ℝ)) info).2 = true → LoopOk fuel dt len len 0 (gatedT s len dt info)

/-- **one `process` call**: same output frames, and the relation holds again -/
theorem process_bisim {σ : Type} {W : World} (hW : W.Ok) {pos : σ → Nat} {good : σ → Prop}
    {st : StaticSound ℝ} {s : Sys σ ℝ} {a m : Nat} (B : Bisim W pos good st s a m) (fuel len : Nat) (dt : ℝ)
    (info : Info ℝ) (hok : ProcOk fuel s len dt info) :
    ∃ st' s' outs a', st.process fuel len dt info = .ok (st', outs) ∧ s.process fuel len dt info = .ok (s', outs) ∧
      Bisim W pos good st' s' a' m ∧ a ≤ a' ∧ outs.length = len := by
  have Bg := gated_bisim B len dt info
  unfold Sys.process
  simp only [B.noErr, Bool.false_eq_true, if_false]
  rw [static_process_eq, stream_processOk_eq, B.core]
  by_cases hg : (s.core.gate (dt * (KOps.ofNat len : ℝ)) info).2 = true
  · simp only [hg, if_true]
    have hloop := hok hg
    obtain ⟨st', s', outs, a', h1, h2, B', hle, hlen⟩ := loop_bisim hW fuel dt len m len 0 a _ _ Bg hloop
    refine ⟨st', s', outs, a', h1, ?_, B', hle, hlen⟩
    cases len with
    | zero =>
      simp only [Sys.renderLoop] at h2 ⊢
      split
      · rw [← h2]; rfl
      · exact h2
    | succ n =>
      obtain ⟨hF, _⟩ := hloop
      have : ¬ ((gatedT s (n + 1) dt info).ring.len < 2 && !(gatedT s (n + 1) dt info).reachedEnd) = true := by
        rcases hF.ahead with h | h
        · simp [h]
        · have : ¬ (gatedT s (n + 1) dt info).ring.len < 2 := by omega
          simp [this]
      simp only [this, if_false]
      exact h2
  · simp only [hg, if_false]
    exact ⟨_, _, _, a, rfl, rfl, Bg, Nat.le_refl _, by simp⟩


open SoundCore in
/-- the three life-cycle commands move the core along life-cycle events -/
theorem lifeCmds_reach (c : Commands ℝ) (core : SoundCore ℝ) :
    Reach core (applyOpt c.stop (fun tw core => core.stop tw)
      (applyOpt c.resume (fun p core => core.resume p.1 p.2) (applyOpt c.pause (fun tw core => core.pause tw) core))) :=
  ((applyOpt_reach c.pause _ core (fun tw c => Reach.single c (.pause tw))).trans
    (applyOpt_reach c.resume _ _ (fun p c => Reach.single c (.resume p.1 p.2)))).trans
    (applyOpt_reach c.stop _ _ (fun tw c => Reach.single c (.stop tw)))

/-- `on_start_processing` touches the reported position / current frame, the six audio-side command slots,
    the three parameters and the life-cycle core — nothing else -/
theorem onStartProcessing_eq {σ : Type} (s : Sys σ ℝ) :
    s.onStartProcessing = { s with currentFrame := s.updateCurrentFrame.currentFrame, sharedPosition := s.updateCurrentFrame.position, cmds := { s.cmds with setVolume := none, setPlaybackRate := none, setPanning := none, pause := none, resume := none, stop := none }, volume := StaticSound.readParam s.volume s.cmds.setVolume, playbackRate := StaticSound.readParam s.playbackRate s.cmds.setPlaybackRate, panning := StaticSound.readParam s.panning s.cmds.setPanning, core := (applyOpt s.cmds.stop (fun tw core => core.stop tw) (applyOpt s.cmds.resume (fun p core => core.resume p.1 p.2) (applyOpt s.cmds.pause (fun tw core => core.pause tw) s.core))) } := by
  unfold Sys.onStartProcessing Sys.updateCurrentFrame Sys.readCommands
  split <;> rfl

/-- **`on_start_processing`** (no pending seek / loop command): the relation holds again -/
theorem onStart_bisim {σ : Type} {W : World} {pos : σ → Nat} {good : σ → Prop}
    {st : StaticSound ℝ} {s : Sys σ ℝ} {a m : Nat} (B : Bisim W pos good st s a m) :
    ∃ st', st.onStartProcessing = .ok st' ∧ Bisim W pos good st' s.onStartProcessing a m ∧
      st'.sharedPosition = (KOps.ofNat st.resampler.currentFrameIndex : ℝ) / (KOps.ofNat st.sampleRate : ℝ) := by
  obtain ⟨h1, h2, h3⟩ := B.noSeek
  have g1 : st.cmds.setLoopRegion = none := by rw [B.cmds]; exact h1
  have g2 : st.cmds.seekBy = none := by rw [B.cmds]; exact h2
  have g3 : st.cmds.seekTo = none := by rw [B.cmds]; exact h3
  refine ⟨readLifeCmds st.cmds (readParamCmds { st with sharedPosition := (KOps.ofNat st.resampler.currentFrameIndex : ℝ) / (KOps.ofNat st.sampleRate : ℝ) }), ?_, ?_, ?_⟩
  · unfold StaticSound.onStartProcessing StaticSound.readCommands readLoopCmd readSeekCmds
    simp only [g1, g2, g3, applyOptE, andThen]
  · have hcmds : ({} : Commands ℝ) = { s.cmds with setVolume := none, setPlaybackRate := none, setPanning := none, pause := none, resume := none, stop := none } := by
      cases hc : s.cmds
      simp only [hc] at h1 h2 h3
      subst h1 h2 h3
      rfl
    have hreach := lifeCmds_reach s.cmds s.core
    rw [onStartProcessing_eq]
    exact {
      sAt := { frames := B.sAt.frames, slice := B.sAt.slice, reverse := B.sAt.reverse,
               transport := B.sAt.transport, resampler := B.sAt.resampler }
      tIn := { cfg_slice := B.tIn.cfg_slice, cfg_n := B.tIn.cfg_n, inv := B.tIn.inv }
      tAt := { ring := B.tAt.ring, transport := B.tAt.transport, m_pos := B.tAt.m_pos, played := B.tAt.played,
               reached := B.tAt.reached }
      frac := B.frac
      sampleRate := B.sampleRate
      volume := by
        show StaticSound.readParam st.volume st.cmds.setVolume = StaticSound.readParam s.volume s.cmds.setVolume
        rw [B.volume, B.cmds]
      playbackRate := by
        show StaticSound.readParam st.playbackRate st.cmds.setPlaybackRate = StaticSound.readParam s.playbackRate s.cmds.setPlaybackRate
        rw [B.playbackRate, B.cmds]
      panning := by
        show StaticSound.readParam st.panning st.cmds.setPanning = StaticSound.readParam s.panning s.cmds.setPanning
        rw [B.panning, B.cmds]
      core := by
        unfold readLifeCmds readParamCmds
        simp only []
        rw [B.core, B.cmds]
      cmds := hcmds
      noSeek := ⟨h1, h2, h3⟩
      frac_nonneg := B.frac_nonneg
      frac_lt := B.frac_lt
      inSync := SoundCore.reach_inSync hreach B.inSync
      endStopped := fun hre hle => SoundCore.reach_stopped hreach (B.endStopped hre hle)
      a_le := B.a_le
      noErr := B.noErr
      cap := B.cap }
  · rfl

/-- a command that is not for the decoder (`set_loop_region`, `seek_by`, `seek_to`) -/
def AudioCmd : Command ℝ → Prop
  | .setLoopRegion _ => False
  | .seekBy _ => False
  | .seekTo _ => False
  | _ => True

/-- **a handle command** written to both handles: the relation holds again -/
theorem write_bisim {σ : Type} {W : World} {pos : σ → Nat} {good : σ → Prop}
    {st : StaticSound ℝ} {s : Sys σ ℝ} {a m : Nat} (B : Bisim W pos good st s a m) (c : Command ℝ) (hc : AudioCmd c) :
    Bisim W pos good { st with cmds := st.cmds.write c } (s.write c) a m :=
  { sAt := { frames := B.sAt.frames, slice := B.sAt.slice, reverse := B.sAt.reverse,
             transport := B.sAt.transport, resampler := B.sAt.resampler }
    tIn := { cfg_slice := B.tIn.cfg_slice, cfg_n := B.tIn.cfg_n, inv := B.tIn.inv }
    tAt := { ring := B.tAt.ring, transport := B.tAt.transport, m_pos := B.tAt.m_pos, played := B.tAt.played,
             reached := B.tAt.reached }
    frac := B.frac
    sampleRate := B.sampleRate
    volume := B.volume
    playbackRate := B.playbackRate
    panning := B.panning
    core := B.core
    cmds := by show st.cmds.write c = s.cmds.write c; rw [B.cmds]
    noSeek := by
      obtain ⟨h1, h2, h3⟩ := B.noSeek
      cases c with
      | setLoopRegion r => exact absurd hc (by simp [AudioCmd])
      | seekBy x => exact absurd hc (by simp [AudioCmd])
      | seekTo x => exact absurd hc (by simp [AudioCmd])
      | _ => exact ⟨h1, h2, h3⟩
    frac_nonneg := B.frac_nonneg
    frac_lt := B.frac_lt
    inSync := B.inSync
    endStopped := B.endStopped
    a_le := B.a_le
    noErr := B.noErr
    cap := B.cap }


/-! ### one iteration of the decoder loop -/

theorem cfgOk_of_world (W : World) (hW : W.Ok) (cfg : Dec.Cfg) (h1 : cfg.slice = W.slice) (h2 : cfg.numFrames = W.n) :
    Dec.CfgOk W.frames.toList cfg := by
  unfold Dec.CfgOk
  have hs := hW.slice_ok
  unfold World.n at h2
  rw [h1]
  cases hsl : W.slice with
  | none => simp only [hsl] at h2 ⊢; simp [h2]
  | some ab =>
    obtain ⟨x, y⟩ := ab
    simp only [hsl] at h2 hs ⊢
    exact ⟨hs.1, by simpa using hs.2, h2⟩

/-- C18's specification of `frame_at_index` is the world's `srcAt` -/
theorem want_eq_srcAt (W : World) (hW : W.Ok) (cfg : Dec.Cfg) (h1 : cfg.slice = W.slice) (h2 : cfg.numFrames = W.n)
    (p : Nat) (f : Frame ℝ) (h : Dec.want W.frames.toList cfg p = some f) : f = W.srcAt p := by
  have hs := hW.slice_ok
  unfold Dec.want Dec.Cfg.span Dec.Cfg.start at h
  unfold World.srcAt World.n World.start
  unfold World.n at h2
  rw [h1] at h
  cases hsl : W.slice with
  | none =>
    simp only [hsl] at h h2 hs ⊢
    rw [h2] at h
    by_cases hp : p < W.frames.size
    · simp only [hp, if_true, Nat.zero_add, Nat.add_zero] at h ⊢
      rw [Array.getElem?_toList] at h
      rw [h]; rfl
    · simp only [hp, if_false] at h ⊢
      injection h with h; exact h.symm
  | some ab =>
    obtain ⟨x, y⟩ := ab
    simp only [hsl] at h h2 hs ⊢
    by_cases hp : p < y - x
    · simp only [hp, if_true] at h ⊢
      rw [Array.getElem?_toList, Nat.add_comm] at h
      rw [h]; rfl
    · simp only [hp, if_false] at h ⊢
      injection h with h; exact h.symm

/-- **what one `run` pushes**: the next entry of the sequence, whatever the decoder's packets and seeks -/
theorem produce_at {σ : Type} {W : World} (hW : W.Ok) {D : Decoder σ ℝ} {pos : σ → Nat} {good : σ → Prop}
    (C : Dec.Contract D W.frames.toList pos good) {s : Sys σ ℝ} {a m : Nat} (hin : StreamIn W pos good s)
    (hat : StreamAt W s a m) (hle : a ≤ m) (hroom : m - a < s.ring.cap) (hre : s.reachedEnd = false)
    (fuel : Nat) (hfuel : W.frames.size < fuel) :
    ∃ ds', Dec.Inv W.frames.toList pos good ds' ∧
      Sys.produce D fuel s = (if W.pl m = true then RunOutcome.ok .continue else RunOutcome.ok .end, { s with ds := ds', ring := { s.ring with items := W.ringSlice a (m + 1) }, transport := W.trAt m, reachedEnd := !W.pl m }) := by
  have hm := hat.m_pos
  have hcfg := cfgOk_of_world W hW s.cfg hin.cfg_slice hin.cfg_n
  obtain ⟨f, ds', hfa, hwant, hinv', _, _⟩ := Dec.frameAtIndex_correct D W.frames.toList pos good C s.cfg hcfg fuel
    (by simpa using hfuel) s.ds hin.inv s.transport.position
  have hf := want_eq_srcAt W hW s.cfg hin.cfg_slice hin.cfg_n _ f hwant
  refine ⟨ds', hinv', ?_⟩
  unfold Sys.produce
  rw [hfa]
  simp only []
  have hentry : (⟨f, s.transport.position⟩ : TimestampedFrame ℝ) = W.ringSeq m := by
    rw [hf, hat.transport]
    have : m = (m - 1) + 1 := by omega
    conv_rhs => rw [this]
    rfl
  have hpush : s.ring.push ⟨f, s.transport.position⟩ = some { s.ring with items := W.ringSlice a (m + 1) } := by
    unfold Ring.push
    have hl : s.ring.items.length < s.ring.cap := by rw [hat.ring, W.ringSlice_length]; exact hroom
    simp only [hl, if_true]
    rw [hentry, hat.ring, W.ringSlice_push a m hle]
  rw [hpush]
  simp only []
  have hinc : s.transport.increment s.cfg.numFrames = .ok (W.trAt m) := by
    rw [hat.transport, hin.cfg_n]
    have := W.trAt_step hW (m - 1)
    have e : m - 1 + 1 = m := by omega
    rw [e] at this; exact this
  rw [hinc]
  simp only []
  cases hp : W.pl m with
  | true =>
    have : (W.trAt m).playing = true := hp
    simp [this, hre]
  | false =>
    have : (W.trAt m).playing = false := hp
    simp [this]

/-- `run` with no pending decoder command, a ring that is not full and a sound that is neither Stopped nor dropped
    is `produce` -/
theorem run_eq_produce {σ : Type} (D : Decoder σ ℝ) (fuel : Nat) (s : Sys σ ℝ) (h0 : s.core.shared ≠ .stopped)
    (hd : s.soundDropped = false) (hfull : s.ring.isFull = false) (h1 : s.cmds.setLoopRegion = none) (h2 : s.cmds.seekBy = none)
    (h3 : s.cmds.seekTo = none) : Sys.run D fuel s = Sys.produce D fuel s := by
  unfold Sys.run
  have hl : Sys.readLoopCmd s = s := by unfold Sys.readLoopCmd; simp [h1]
  simp only [h0, if_false, hd, hfull, Bool.false_eq_true, hl]
  unfold Sys.readSeekByCmd
  simp only [h2]
  unfold Sys.readSeekToCmd
  simp only [h3]

/-- the decoder's move in a history (`Op.decode`) -/
noncomputable def decodeStep {σ : Type} (D : Decoder σ ℝ) (fuel : Nat) (s : Sys σ ℝ) : Sys σ ℝ :=
  if s.reachedEnd || s.encounteredError then s else (Sys.threadIter D fuel s).2

/-- **one iteration of the decoder loop**: the relation holds again (with one more entry pushed, or unchanged) -/
theorem decode_bisim {σ : Type} {W : World} (hW : W.Ok) {D : Decoder σ ℝ} {pos : σ → Nat} {good : σ → Prop}
    (C : Dec.Contract D W.frames.toList pos good) {st : StaticSound ℝ} {s : Sys σ ℝ} {a m : Nat}
    (B : Bisim W pos good st s a m) (fuel : Nat) (hfuel : W.frames.size < fuel) :
    ∃ m', Bisim W pos good st (decodeStep D fuel s) a m' ∧ m ≤ m' := by
  unfold decodeStep
  by_cases hre : s.reachedEnd = true
  · simp only [hre, Bool.true_or, if_true]; exact ⟨m, B, Nat.le_refl _⟩
  · have hre' : s.reachedEnd = false := by simpa using hre
    simp only [hre', B.noErr, Bool.or_self, Bool.false_eq_true, if_false]
    unfold Sys.threadIter
    by_cases h0 : s.core.shared = .stopped
    · have : Sys.run D fuel s = (.ok .end, s) := by unfold Sys.run; simp [h0]
      rw [this]; exact ⟨m, B, Nat.le_refl _⟩
    · by_cases hd : s.soundDropped = true
      · have : Sys.run D fuel s = (.ok .end, s) := by unfold Sys.run; simp [h0, hd]
        rw [this]; exact ⟨m, B, Nat.le_refl _⟩
      · have hd' : s.soundDropped = false := by simpa using hd
        by_cases hfull : s.ring.isFull = true
        · have : Sys.run D fuel s = (.ok .wait, s) := by unfold Sys.run; simp [h0, hd', hfull]
          rw [this]; exact ⟨m, B, Nat.le_refl _⟩
        · have hfull' : s.ring.isFull = false := by simpa using hfull
          rw [run_eq_produce D fuel s h0 hd' hfull' B.noSeek.1 B.noSeek.2.1 B.noSeek.2.2]
          have hle := B.a_le hre'
          have hroom : m - a < s.ring.cap := by
            unfold Ring.isFull at hfull'
            rw [B.tAt.ring, W.ringSlice_length] at hfull'
            simpa using hfull'
          obtain ⟨ds', hinv', hp⟩ := produce_at hW C B.tIn B.tAt hle hroom hre' fuel hfuel
          rw [hp]
          have hB : Bisim W pos good st ({ s with ds := ds', ring := { s.ring with items := W.ringSlice a (m + 1) }, transport := W.trAt m, reachedEnd := !W.pl m } : Sys σ ℝ) a (m + 1) :=
            { sAt := B.sAt
              tIn := { cfg_slice := B.tIn.cfg_slice, cfg_n := B.tIn.cfg_n, inv := hinv' }
              tAt := { ring := rfl, transport := rfl, m_pos := by omega
                       played := by
                         intro k hk
                         have hpm : W.pl (m - 1) = true := by
                           have := B.tAt.reached; rw [hre'] at this; simpa using this.symm
                         exact W.pl_of_later k (m - 1) (by omega) hpm
                       reached := rfl }
              frac := B.frac
              sampleRate := B.sampleRate
              volume := B.volume
              playbackRate := B.playbackRate
              panning := B.panning
              core := B.core
              cmds := B.cmds
              noSeek := B.noSeek
              frac_nonneg := B.frac_nonneg
              frac_lt := B.frac_lt
              inSync := B.inSync
              endStopped := fun _ hle' => by omega
              a_le := fun _ => by omega
              noErr := B.noErr
              cap := B.cap }
          refine ⟨m + 1, ?_, by omega⟩
          cases hpl : W.pl m with
          | true => rw [hpl] at hB; simpa using hB
          | false => rw [hpl] at hB; simpa using hB


/-! ### whole histories -/

/-- `pop_error` only touches the error ring -/
theorem popError_bisim {σ : Type} {W : World} {pos : σ → Nat} {good : σ → Prop}
    {st : StaticSound ℝ} {s : Sys σ ℝ} {a m : Nat} (B : Bisim W pos good st s a m) :
    Bisim W pos good st (s.popError).2 a m := by
  unfold Sys.popError
  cases s.errRing.pop with
  | none => exact B
  | some r =>
    exact { sAt := B.sAt
            tIn := { cfg_slice := B.tIn.cfg_slice, cfg_n := B.tIn.cfg_n, inv := B.tIn.inv }
            tAt := { ring := B.tAt.ring, transport := B.tAt.transport, m_pos := B.tAt.m_pos,
                     played := B.tAt.played, reached := B.tAt.reached }
            frac := B.frac, sampleRate := B.sampleRate, volume := B.volume, playbackRate := B.playbackRate
            panning := B.panning, core := B.core, cmds := B.cmds, noSeek := B.noSeek
            frac_nonneg := B.frac_nonneg, frac_lt := B.frac_lt, inSync := B.inSync
            endStopped := B.endStopped, a_le := B.a_le, noErr := B.noErr, cap := B.cap }

/-- the static sound's view of a history of the streaming sound: the same handle commands and callbacks;
    decoder iterations and `pop_error` have no counterpart -/
def staticOp : Op ℝ → Option (StaticSound.Op ℝ)
  | .command c => some (.command c)
  | .popError => none
  | .startProcessing => some .startProcessing
  | .process len dt info => some (.process len dt info)
  | .decode => none

/-- the C09 premise for one step of a history -/
def OpOk {σ : Type} (fuel : Nat) (s : Sys σ ℝ) : Op ℝ → Prop
  | .command c => AudioCmd c
  | .process len dt info => ProcOk fuel s len dt info
  | _ => True

/-- the C09 premise for a history (a statement about the streaming run only): no seek / loop commands,
    playback rates not negative and the decoder ahead at every rendered frame -/
def Good {σ : Type} (D : Decoder σ ℝ) (fuel : Nat) : List (Op ℝ) → Sys σ ℝ → Prop
  | [], _ => True
  | op :: ops, s => OpOk fuel s op ∧ ∀ s' out, Sys.step D fuel s op = .ok (s', out) → Good D fuel ops s'

/-- **every history**: same output frames, and the relation holds again at the end (hence after every prefix) -/
theorem run_bisim {σ : Type} {W : World} (hW : W.Ok) {D : Decoder σ ℝ} {pos : σ → Nat} {good : σ → Prop}
    (C : Dec.Contract D W.frames.toList pos good) (fuel : Nat) (hfuel : W.frames.size < fuel) :
    ∀ (ops : List (Op ℝ)) (st : StaticSound ℝ) (s : Sys σ ℝ) (a m : Nat), Bisim W pos good st s a m →
      Good D fuel ops s →
      ∃ st' s' outs a' m', StaticSound.run fuel st (ops.filterMap staticOp) = .ok (st', outs) ∧
        Sys.runOps D fuel s ops = .ok (s', outs) ∧ Bisim W pos good st' s' a' m' := by
  intro ops
  induction ops with
  | nil => intro st s a m B _; exact ⟨st, s, [], a, m, rfl, rfl, B⟩
  | cons op ops ih =>
    intro st s a m B hgood
    obtain ⟨hop, hnext⟩ := hgood
    cases op with
    | command c =>
      have B1 := write_bisim B c hop
      have hs : Sys.step D fuel s (.command c) = .ok (s.write c, []) := rfl
      obtain ⟨st', s', outs, a', m', h1, h2, B'⟩ := ih _ _ a m B1 (hnext _ _ hs)
      refine ⟨st', s', outs, a', m', ?_, ?_, B'⟩
      · simp only [List.filterMap_cons, staticOp]
        rw [StaticSound.run_cons]
        simp only [StaticSound.step, h1, List.nil_append]
      · rw [Sys.runOps, hs]; simp only [h2, List.nil_append]
    | popError =>
      have B1 := popError_bisim B
      have hs : Sys.step D fuel s .popError = .ok ((s.popError).2, []) := rfl
      obtain ⟨st', s', outs, a', m', h1, h2, B'⟩ := ih _ _ a m B1 (hnext _ _ hs)
      refine ⟨st', s', outs, a', m', ?_, ?_, B'⟩
      · simp only [List.filterMap_cons, staticOp]; exact h1
      · rw [Sys.runOps, hs]; simp only [h2, List.nil_append]
    | startProcessing =>
      obtain ⟨st1, hst1, B1, _⟩ := onStart_bisim B
      have hs : Sys.step D fuel s .startProcessing = .ok (s.onStartProcessing, []) := rfl
      obtain ⟨st', s', outs, a', m', h1, h2, B'⟩ := ih _ _ a m B1 (hnext _ _ hs)
      refine ⟨st', s', outs, a', m', ?_, ?_, B'⟩
      · simp only [List.filterMap_cons, staticOp]
        rw [StaticSound.run_cons]
        simp only [StaticSound.step, hst1, h1, List.nil_append]
      · rw [Sys.runOps, hs]; simp only [h2, List.nil_append]
    | process len dt info =>
      obtain ⟨st1, s1, o1, a1, hp1, hp2, B1, _, _⟩ := process_bisim hW B fuel len dt info hop
      have hs : Sys.step D fuel s (.process len dt info) = .ok (s1, o1) := hp2
      obtain ⟨st', s', outs, a', m', h1, h2, B'⟩ := ih _ _ a1 m B1 (hnext _ _ hs)
      refine ⟨st', s', o1 ++ outs, a', m', ?_, ?_, B'⟩
      · simp only [List.filterMap_cons, staticOp]
        rw [StaticSound.run_cons]
        simp only [StaticSound.step, hp1, h1]
      · rw [Sys.runOps, hs]; simp only [h2]
    | decode =>
      obtain ⟨m1, B1, _⟩ := decode_bisim hW C B fuel hfuel
      have hs : Sys.step D fuel s .decode = .ok (decodeStep D fuel s, []) := rfl
      obtain ⟨st', s', outs, a', m', h1, h2, B'⟩ := ih _ _ a m1 B1 (hnext _ _ hs)
      refine ⟨st', s', outs, a', m', ?_, ?_, B'⟩
      · simp only [List.filterMap_cons, staticOp]; exact h1
      · rw [Sys.runOps, hs]; simp only [h2, List.nil_append]


/-! ### the two freshly built sounds are related -/

/-- the world a static sound data describes (forwards) -/
noncomputable def worldOf (d : StaticSoundData ℝ) : World :=
  { frames := d.frames, slice := d.slice,
    t0 := { position := d.settings.startPosition.intoSamples d.sampleRate,
            loopRegion := Transport.validLoop (d.settings.loopRegion.map (fun r => r.toSamples d.sampleRate
              (match d.slice with | some (a, b) => b - a | none => d.frames.size))),
            playing := true } }

/-- the streaming data describes the same sound as the static data -/
structure SameSound {σ : Type} (d : StaticSoundData ℝ) (sd : StreamingSoundData σ ℝ) : Prop where
  sampleRate : sd.sampleRate = d.sampleRate
  decFrames : sd.decFrames = d.frames.size
  slice : sd.slice = d.slice
  startTime : sd.settings.startTime = d.settings.startTime
  startPosition : sd.settings.startPosition = d.settings.startPosition
  loopRegion : sd.settings.loopRegion = d.settings.loopRegion
  volume : sd.settings.volume = d.settings.volume
  playbackRate : sd.settings.playbackRate = d.settings.playbackRate
  panning : sd.settings.panning = d.settings.panning
  fadeInTween : sd.settings.fadeInTween = d.settings.fadeInTween
  forwards : d.settings.reverse = false

theorem World.staticStops_three (W : World) (hW : W.Ok) : W.staticStops 3 = false := by
  have h0 : W.pl 0 = true := hW.playing
  unfold World.staticStops
  cases h2 : W.pl 2 with
  | true => have := W.pl_of_later 2 2 (Nat.le_refl _) h2; simp [World.tue, h2]
  | false =>
    cases h1 : W.pl 1 with
    | true => simp [World.tue, h2, h1]
    | false => simp [World.tue, h2, h1, h0]

theorem sched_new {σ : Type} {D : Decoder σ ℝ} {src : List (Frame ℝ)} {pos : σ → Nat} {good : σ → Prop}
    (C : Dec.Contract D src pos good) (s0 : σ) (slice : Option (Nat × Nat))
    (hs : match slice with | some (a, b) => a ≤ b ∧ b ≤ src.length | none => True) (p : Nat) (hp : p ≤ src.length) :
    ∃ j s', Dec.Sched.new D s0 slice src.length p
        = .ok (⟨slice, match slice with | some (a, b) => b - a | none => src.length⟩, ⟨s', j, none, p, true⟩) ∧
      Dec.Inv src pos good (⟨s', j, none, p, true⟩ : Dec.Sched σ ℝ) := by
  obtain ⟨j, s', hseek, _, hpos, hgood⟩ := C.seek_ok s0 p hp
  refine ⟨j, s', ?_, ⟨hgood, hpos.symm, fun c hc => by cases hc⟩⟩
  unfold Dec.Sched.new
  cases slice with
  | none => simp only [hseek]
  | some ab =>
    obtain ⟨x, y⟩ := ab
    simp only [] at hs
    have : ¬ y < x := by omega
    simp only [this, if_false, hseek]

/-- **`StaticSoundData::into_sound` and `StreamingSoundData::split` start related**: the static window
    `[silence, F(p), F(p+1), F(p+2)]` and the ring holding the pre-seeded silent frame -/
theorem new_bisim {σ : Type} {D : Decoder σ ℝ} {pos : σ → Nat} {good : σ → Prop}
    (d : StaticSoundData ℝ) (sd : StreamingSoundData σ ℝ) (C : Dec.Contract D d.frames.toList pos good)
    (hsame : SameSound d sd) (hW : (worldOf d).Ok)
    (hstart : d.settings.startPosition.intoSamples d.sampleRate ≤ d.frames.size)
    (hsign : signNeg (Parameter.new d.settings.playbackRate (1.0 : ℝ)).value = false) :
    ∃ st s, StaticSound.new d = .ok st ∧ Sys.new D sd = .ok s ∧ Bisim (worldOf d) pos good st s 0 1 := by
  set W := worldOf d with hWdef
  have hn : numFrames d.frames.size d.slice = .ok W.n := by
    have hs : (match d.slice with | some (a, b) => a ≤ b ∧ b ≤ d.frames.size | none => True) := hW.slice_ok
    unfold numFrames World.n
    show (match d.slice with | some (s, e) => _ | none => _) = _
    cases hsl : d.slice with
    | none => simp [hWdef, worldOf, hsl]
    | some ab =>
      obtain ⟨x, y⟩ := ab
      rw [hsl] at hs
      have : min y d.frames.size - x = y - x := by omega
      simp [hWdef, worldOf, hsl, this]
  have hWn : W.n = (match d.slice with | some (a, b) => b - a | none => d.frames.size) := rfl
  -- the static sound
  obtain ⟨s0, hinit, hs0⟩ : ∃ s0, init d = .ok s0 ∧ s0 = ({ cmds := {}, sampleRate := d.sampleRate, frames := d.frames, slice := d.slice, reverse := d.settings.reverse, core := SoundCore.new d.settings.startTime d.settings.fadeInTween, resampler := Resampler.new W.t0.position, transport := W.t0, frac := (0.0 : ℝ), volume := Parameter.new d.settings.volume Psm.identityDb, playbackRate := Parameter.new d.settings.playbackRate (1.0 : ℝ), panning := Parameter.new d.settings.panning (0.0 : ℝ), sharedPosition := (KOps.ofNat W.t0.position : ℝ) / (KOps.ofNat d.sampleRate : ℝ) } : StaticSound ℝ) := by
    refine ⟨_, ?_, rfl⟩
    unfold init
    rw [hn]
    simp only [hsame.forwards, Transport.new, Bool.false_eq_true, if_false]
    rfl
  have hat0 : StaticAt W s0 0 := by
    rw [hs0]
    exact { frames := rfl, slice := rfl, reverse := hsame.forwards, transport := rfl
            resampler := by simp [World.resAt, World.vFrame, World.vIndex, World.tue, Resampler.new] }
  have hsign0 : signNeg s0.playbackRate.value = false := by rw [hs0]; exact hsign
  have hnew : StaticSound.new d = updN 3 s0 := by
    unfold StaticSound.new
    rw [hinit]
    simp only [updN_succ]
    cases s0.updatePosition with
    | error f => rfl
    | ok a =>
      simp only []
      cases a.updatePosition with
      | error f => rfl
      | ok b =>
        simp only []
        cases b.updatePosition <;> rfl
  have hupd := static_updN hW 3 hat0 hsign0
  have hst3 : W.staticStops (0 + 3) = false := W.staticStops_three hW
  simp only [hst3, Bool.false_eq_true, and_false, if_false] at hupd
  -- the streaming sound
  have hslice : (match sd.slice with | some (a, b) => a ≤ b ∧ b ≤ d.frames.toList.length | none => True) := by
    rw [hsame.slice]
    have hs : (match d.slice with | some (a, b) => a ≤ b ∧ b ≤ d.frames.size | none => True) := hW.slice_ok
    cases hsl : d.slice with
    | none => trivial
    | some ab => obtain ⟨x, y⟩ := ab; rw [hsl] at hs; simpa using hs
  obtain ⟨j, s', hsched, hinv⟩ := sched_new C sd.dec sd.slice hslice
    (sd.settings.startPosition.intoSamples sd.sampleRate)
    (by rw [hsame.startPosition, hsame.sampleRate]; simpa using hstart)
  have hlen : d.frames.toList.length = sd.decFrames := by rw [hsame.decFrames]; simp
  rw [hlen] at hsched
  refine ⟨_, ?s, by rw [hnew]; exact hupd, ?hsys, ?hB⟩
  case hsys =>
    unfold Sys.new
    dsimp only
    rw [hsched]
    simp only [Transport.new, Bool.false_eq_true, if_false]
    rfl
  case hB =>
    subst hs0
    have hnumF : (match sd.slice with | some (a, b) => b - a | none => sd.decFrames) = W.n := by
      rw [hsame.slice, hsame.decFrames]
      show _ = World.n (worldOf d)
      unfold World.n worldOf
      cases d.slice with
      | none => rfl
      | some ab => cases ab; rfl
    have htr : ({ position := sd.settings.startPosition.intoSamples sd.sampleRate, loopRegion := Transport.validLoop (sd.settings.loopRegion.map (fun r => r.toSamples sd.sampleRate (match sd.slice with | some (a, b) => b - a | none => sd.decFrames))), playing := true } : Transport) = W.t0 := by
      rw [hsame.startPosition, hsame.sampleRate, hsame.loopRegion, hnumF]
      rfl
    exact {
      sAt := { frames := rfl, slice := rfl, reverse := hsame.forwards, transport := rfl, resampler := rfl }
      tIn := { cfg_slice := hsame.slice, cfg_n := hnumF, inv := hinv }
      tAt := { ring := by simp [World.ringSlice, World.ringSeq], transport := htr, m_pos := Nat.le_refl _,
               played := fun k hk => by omega
               reached := by show false = !W.pl 0; rw [show W.pl 0 = true from hW.playing]; rfl }
      frac := rfl
      sampleRate := hsame.sampleRate.symm
      volume := by show Parameter.new _ _ = Parameter.new _ _; rw [hsame.volume]
      playbackRate := by show Parameter.new _ _ = Parameter.new _ _; rw [hsame.playbackRate]
      panning := by show Parameter.new _ _ = Parameter.new _ _; rw [hsame.panning]
      core := by show SoundCore.new _ _ = SoundCore.new _ _; rw [hsame.startTime, hsame.fadeInTween]
      cmds := rfl
      noSeek := ⟨rfl, rfl, rfl⟩
      frac_nonneg := by show (0 : ℝ) ≤ (0.0 : ℝ); simp
      frac_lt := by show (0.0 : ℝ) < 1; simp
      inSync := SoundCore.new_inSync _ _
      endStopped := fun h _ => by cases h
      a_le := fun _ => by omega
      noErr := rfl
      cap := rfl }


/-! ### the ring invariant without any premise about pace (the decoder may starve the audio thread) -/

/-- what the audio thread's render path can change: parameters, life-cycle core, fraction — and it pops entries -/
structure AudioOnly {σ : Type} (s s' : Sys σ ℝ) : Prop where
  cfg : s'.cfg = s.cfg
  sampleRate : s'.sampleRate = s.sampleRate
  cmds : s'.cmds = s.cmds
  errRing : s'.errRing = s.errRing
  reachedEnd : s'.reachedEnd = s.reachedEnd
  encounteredError : s'.encounteredError = s.encounteredError
  ds : s'.ds = s.ds
  transport : s'.transport = s.transport
  cap : s'.ring.cap = s.ring.cap
  ring : ∃ k, s'.ring.items = s.ring.items.drop k
  soundDropped : s'.soundDropped = s.soundDropped

theorem AudioOnly.refl {σ : Type} (s : Sys σ ℝ) : AudioOnly s s :=
  ⟨rfl, rfl, rfl, rfl, rfl, rfl, rfl, rfl, rfl, ⟨0, by simp⟩, rfl⟩

theorem AudioOnly.trans {σ : Type} {a b c : Sys σ ℝ} (h1 : AudioOnly a b) (h2 : AudioOnly b c) : AudioOnly a c := by
  obtain ⟨k1, hk1⟩ := h1.ring
  obtain ⟨k2, hk2⟩ := h2.ring
  exact ⟨by rw [h2.cfg, h1.cfg], by rw [h2.sampleRate, h1.sampleRate], by rw [h2.cmds, h1.cmds],
    by rw [h2.errRing, h1.errRing], by rw [h2.reachedEnd, h1.reachedEnd],
    by rw [h2.encounteredError, h1.encounteredError], by rw [h2.ds, h1.ds], by rw [h2.transport, h1.transport],
    by rw [h2.cap, h1.cap], ⟨k1 + k2, by rw [hk2, hk1, List.drop_drop]⟩,
    by rw [h2.soundDropped, h1.soundDropped]⟩

theorem stepPos_audioOnly {σ : Type} : ∀ (fuel : Nat) (s s' : Sys σ ℝ), Sys.stepPos fuel s = .ok s' → AudioOnly s s' := by
  intro fuel
  induction fuel with
  | zero =>
    intro s s' h
    rw [Sys.stepPos] at h
    split at h
    · cases h
    · injection h with h; subst h; exact AudioOnly.refl s
  | succ fuel ih =>
    intro s s' h
    rw [Sys.stepPos] at h
    split at h
    · have h1 := ih _ _ h
      rw [popFrame_eq] at h1
      have h0 : AudioOnly s ({ s with frac := s.frac - (1.0 : ℝ), ring := { s.ring with items := s.ring.items.drop 1 } } : Sys σ ℝ) :=
        ⟨rfl, rfl, rfl, rfl, rfl, rfl, rfl, rfl, rfl, ⟨1, rfl⟩, rfl⟩
      exact h0.trans h1
    · injection h with h; subst h; exact AudioOnly.refl s

theorem checkEnd_audioOnly {σ : Type} (s : Sys σ ℝ) : AudioOnly s s.checkEnd := by
  unfold Sys.checkEnd
  split
  · exact ⟨rfl, rfl, rfl, rfl, rfl, rfl, rfl, rfl, rfl, ⟨0, by simp⟩, rfl⟩
  · exact AudioOnly.refl s

theorem renderFrame_audioOnly {σ : Type} (fuel : Nat) (s s' : Sys σ ℝ) (t dt : ℝ) (f : Frame ℝ)
    (h : s.renderFrame fuel t dt = .ok (s', f)) : AudioOnly s s' := by
  unfold Sys.renderFrame at h
  cases hs : Sys.stepPos fuel { s with frac := s.frac + s.fracStep t dt } with
  | error e => simp [hs] at h
  | ok s1 =>
    simp only [hs] at h
    injection h with h
    injection h with h1 h2
    subst h1
    have h0 : AudioOnly s ({ s with frac := s.frac + s.fracStep t dt } : Sys σ ℝ) :=
      ⟨rfl, rfl, rfl, rfl, rfl, rfl, rfl, rfl, rfl, ⟨0, by simp⟩, rfl⟩
    exact (h0.trans (stepPos_audioOnly fuel _ _ hs)).trans (checkEnd_audioOnly s1)

theorem renderLoop_audioOnly {σ : Type} (fuel : Nat) (dt : ℝ) (len : Nat) : ∀ (k i : Nat) (s s' : Sys σ ℝ)
    (outs : List (Frame ℝ)), Sys.renderLoop fuel dt len k i s = .ok (s', outs) → AudioOnly s s' := by
  intro k
  induction k with
  | zero => intro i s s' outs h; rw [Sys.renderLoop] at h; injection h with h; injection h with h1 _; subst h1; exact AudioOnly.refl s
  | succ k ih =>
    intro i s s' outs h
    rw [Sys.renderLoop] at h
    cases h1 : s.renderFrame fuel ((KOps.ofNat (i + 1) : ℝ) / (KOps.ofNat len : ℝ)) dt with
    | error e => rw [h1] at h; exact absurd h (by simp)
    | ok r =>
      obtain ⟨s1, f⟩ := r
      simp only [h1] at h
      cases h2 : Sys.renderLoop fuel dt len k (i + 1) s1 with
      | error e => rw [h2] at h; exact absurd h (by simp)
      | ok r2 =>
        obtain ⟨s2, fs⟩ := r2
        simp only [h2] at h
        injection h with h; injection h with h3 _; subst h3
        exact (renderFrame_audioOnly fuel s s1 _ dt f h1).trans (ih (i + 1) s1 s2 fs h2)

theorem process_audioOnly {σ : Type} (fuel : Nat) (s s' : Sys σ ℝ) (len : Nat) (dt : ℝ) (info : Info ℝ)
    (outs : List (Frame ℝ)) (h : s.process fuel len dt info = .ok (s', outs)) : AudioOnly s s' := by
  unfold Sys.process at h
  split at h
  · injection h with h; injection h with h1 _; subst h1
    exact ⟨rfl, rfl, rfl, rfl, rfl, rfl, rfl, rfl, rfl, ⟨0, by simp⟩, rfl⟩
  · rw [stream_processOk_eq] at h
    have hg : AudioOnly s (gatedT s len dt info) := ⟨rfl, rfl, rfl, rfl, rfl, rfl, rfl, rfl, rfl, ⟨0, rfl⟩, rfl⟩
    split at h
    · split at h
      · injection h with h; injection h with h1 _; subst h1; exact hg
      · exact hg.trans (renderLoop_audioOnly fuel dt len len 0 _ _ _ h)
    · injection h with h; injection h with h1 _; subst h1; exact hg

/-- **the ring invariant**: decoder-side configuration intact, the ring holds entries `a … m − 1` of the
    walk's sequence, no decoder command pending -/
structure RingInv {σ : Type} (W : World) (pos : σ → Nat) (good : σ → Prop) (s : Sys σ ℝ) (a m : Nat) : Prop where
  tIn : StreamIn W pos good s
  tAt : StreamAt W s a m
  a_le : a ≤ m
  noSeek : s.cmds.setLoopRegion = none ∧ s.cmds.seekBy = none ∧ s.cmds.seekTo = none
  cap : s.ring.cap = bufferSize

theorem Bisim.ringInv {σ : Type} {W : World} {pos : σ → Nat} {good : σ → Prop} {st : StaticSound ℝ} {s : Sys σ ℝ}
    {a m : Nat} (B : Bisim W pos good st s a m) : RingInv W pos good s (min a m) m := by
  refine ⟨B.tIn, ?_, Nat.min_le_right _ _, B.noSeek, B.cap⟩
  have hr : s.ring.items = W.ringSlice (min a m) m := by
    rw [B.tAt.ring]
    by_cases h : a ≤ m
    · rw [Nat.min_eq_left h]
    · rw [Nat.min_eq_right (by omega), W.ringSlice_empty a m (by omega), W.ringSlice_empty m m (Nat.le_refl _)]
  exact ⟨hr, B.tAt.transport, B.tAt.m_pos, B.tAt.played, B.tAt.reached⟩

theorem audioOnly_ringInv {σ : Type} {W : World} {pos : σ → Nat} {good : σ → Prop} {s s' : Sys σ ℝ} {a m : Nat}
    (R : RingInv W pos good s a m) (h : AudioOnly s s') : ∃ a', a ≤ a' ∧ RingInv W pos good s' a' m := by
  obtain ⟨k, hk⟩ := h.ring
  refine ⟨min (a + k) m, ?_, ?_⟩
  · have := R.a_le; omega
  · refine ⟨⟨by rw [h.cfg]; exact R.tIn.cfg_slice, by rw [h.cfg]; exact R.tIn.cfg_n, by rw [h.ds]; exact R.tIn.inv⟩,
      ⟨?_, by rw [h.transport]; exact R.tAt.transport, R.tAt.m_pos, R.tAt.played, by rw [h.reachedEnd]; exact R.tAt.reached⟩,
      Nat.min_le_right _ _, by rw [h.cmds]; exact R.noSeek, by rw [h.cap]; exact R.cap⟩
    rw [hk, R.tAt.ring, W.ringSlice_drop]
    by_cases hle : a + k ≤ m
    · rw [Nat.min_eq_left hle]
    · rw [Nat.min_eq_right (by omega), W.ringSlice_empty (a + k) m (by omega), W.ringSlice_empty m m (Nat.le_refl _)]

/-- **every step of every history keeps the ring invariant** — whatever the pace of the decoder -/
theorem ringInv_step {σ : Type} {W : World} (hW : W.Ok) {D : Decoder σ ℝ} {pos : σ → Nat} {good : σ → Prop}
    (C : Dec.Contract D W.frames.toList pos good) (fuel : Nat) (hfuel : W.frames.size < fuel)
    {s s' : Sys σ ℝ} {a m : Nat} (R : RingInv W pos good s a m) (op : Op ℝ)
    (hop : ∀ c, op = .command c → AudioCmd c) (out : List (Frame ℝ)) (h : Sys.step D fuel s op = .ok (s', out)) :
    ∃ a' m', a ≤ a' ∧ m ≤ m' ∧ RingInv W pos good s' a' m' := by
  cases op with
  | command c =>
    have hc := hop c rfl
    injection h with h; injection h with h1 _; subst h1
    refine ⟨a, m, Nat.le_refl _, Nat.le_refl _, ⟨R.tIn.cfg_slice, R.tIn.cfg_n, R.tIn.inv⟩, ⟨R.tAt.ring, R.tAt.transport, R.tAt.m_pos, R.tAt.played, R.tAt.reached⟩, R.a_le, ?_, R.cap⟩
    obtain ⟨h1, h2, h3⟩ := R.noSeek
    cases c with
    | setLoopRegion r => exact absurd hc (by simp [AudioCmd])
    | seekBy x => exact absurd hc (by simp [AudioCmd])
    | seekTo x => exact absurd hc (by simp [AudioCmd])
    | _ => exact ⟨h1, h2, h3⟩
  | popError =>
    injection h with h; injection h with h1 _; subst h1
    refine ⟨a, m, Nat.le_refl _, Nat.le_refl _, ?_⟩
    unfold Sys.popError
    cases s.errRing.pop with
    | none => exact R
    | some r => exact ⟨⟨R.tIn.cfg_slice, R.tIn.cfg_n, R.tIn.inv⟩, ⟨R.tAt.ring, R.tAt.transport, R.tAt.m_pos, R.tAt.played, R.tAt.reached⟩, R.a_le, R.noSeek, R.cap⟩
  | startProcessing =>
    injection h with h; injection h with h1 _; subst h1
    refine ⟨a, m, Nat.le_refl _, Nat.le_refl _, ?_⟩
    rw [onStartProcessing_eq]
    exact ⟨⟨R.tIn.cfg_slice, R.tIn.cfg_n, R.tIn.inv⟩, ⟨R.tAt.ring, R.tAt.transport, R.tAt.m_pos, R.tAt.played, R.tAt.reached⟩, R.a_le, R.noSeek, R.cap⟩
  | process len dt info =>
    obtain ⟨a', hle, R'⟩ := audioOnly_ringInv R (process_audioOnly fuel s s' len dt info out h)
    exact ⟨a', m, hle, Nat.le_refl _, R'⟩
  | decode =>
    injection h with h; injection h with h1 _; subst h1
    by_cases hgone : (s.reachedEnd || s.encounteredError) = true
    · simp only [hgone, if_true]; exact ⟨a, m, Nat.le_refl _, Nat.le_refl _, R⟩
    · have hre' : s.reachedEnd = false := by
        cases h : s.reachedEnd with
        | false => rfl
        | true => rw [h] at hgone; simp at hgone
      simp only [hgone, Bool.false_eq_true, if_false]
      unfold Sys.threadIter
      by_cases h0 : s.core.shared = .stopped
      · have : Sys.run D fuel s = (.ok .end, s) := by unfold Sys.run; simp [h0]
        rw [this]; exact ⟨a, m, Nat.le_refl _, Nat.le_refl _, R⟩
      · by_cases hd : s.soundDropped = true
        · have : Sys.run D fuel s = (.ok .end, s) := by unfold Sys.run; simp [h0, hd]
          rw [this]; exact ⟨a, m, Nat.le_refl _, Nat.le_refl _, R⟩
        · have hd' : s.soundDropped = false := by simpa using hd
          by_cases hfull : s.ring.isFull = true
          · have : Sys.run D fuel s = (.ok .wait, s) := by unfold Sys.run; simp [h0, hd', hfull]
            rw [this]; exact ⟨a, m, Nat.le_refl _, Nat.le_refl _, R⟩
          · have hfull' : s.ring.isFull = false := by simpa using hfull
            rw [run_eq_produce D fuel s h0 hd' hfull' R.noSeek.1 R.noSeek.2.1 R.noSeek.2.2]
            have hroom : m - a < s.ring.cap := by
              unfold Ring.isFull at hfull'
              rw [R.tAt.ring, W.ringSlice_length] at hfull'
              simpa using hfull'
            obtain ⟨ds', hinv', hp⟩ := produce_at hW C R.tIn R.tAt R.a_le hroom hre' fuel hfuel
            rw [hp]
            have hR : RingInv W pos good ({ s with ds := ds', ring := { s.ring with items := W.ringSlice a (m + 1) }, transport := W.trAt m, reachedEnd := !W.pl m } : Sys σ ℝ) a (m + 1) :=
              { tIn := { cfg_slice := R.tIn.cfg_slice, cfg_n := R.tIn.cfg_n, inv := hinv' }
                tAt := { ring := rfl, transport := rfl, m_pos := by omega
                         played := by
                           intro k hk
                           have hpm : W.pl (m - 1) = true := by
                             have := R.tAt.reached; rw [hre'] at this; simpa using this.symm
                           have := R.tAt.m_pos
                           exact W.pl_of_later k (m - 1) (by omega) hpm
                         reached := rfl }
                a_le := by have := R.a_le; omega
                noSeek := R.noSeek
                cap := R.cap }
            refine ⟨a, m + 1, Nat.le_refl _, by omega, ?_⟩
            cases hpl : W.pl m with
            | true => rw [hpl] at hR; simpa using hR
            | false => rw [hpl] at hR; simpa using hR


/-- every history keeps the ring invariant -/
theorem ringInv_run {σ : Type} {W : World} (hW : W.Ok) {D : Decoder σ ℝ} {pos : σ → Nat} {good : σ → Prop}
    (C : Dec.Contract D W.frames.toList pos good) (fuel : Nat) (hfuel : W.frames.size < fuel) :
    ∀ (ops : List (Op ℝ)) (s s' : Sys σ ℝ) (a m : Nat) (outs : List (Frame ℝ)),
      (∀ c, Op.command c ∈ ops → AudioCmd c) → RingInv W pos good s a m →
      Sys.runOps D fuel s ops = .ok (s', outs) → ∃ a' m', a ≤ a' ∧ m ≤ m' ∧ RingInv W pos good s' a' m' := by
  intro ops
  induction ops with
  | nil =>
    intro s s' a m outs _ R h
    rw [Sys.runOps] at h; injection h with h; injection h with h1 _; subst h1
    exact ⟨a, m, Nat.le_refl _, Nat.le_refl _, R⟩
  | cons op ops ih =>
    intro s s' a m outs hc R h
    rw [Sys.runOps] at h
    cases h1 : Sys.step D fuel s op with
    | error e => rw [h1] at h; exact absurd h (by simp)
    | ok r =>
      obtain ⟨s1, o1⟩ := r
      simp only [h1] at h
      cases h2 : Sys.runOps D fuel s1 ops with
      | error e => rw [h2] at h; exact absurd h (by simp)
      | ok r2 =>
        obtain ⟨s2, o2⟩ := r2
        simp only [h2] at h
        injection h with h; injection h with h3 _; subst h3
        obtain ⟨a1, m1, ha1, hm1, R1⟩ := ringInv_step hW C fuel hfuel R op
          (fun c hc' => hc c (by rw [hc']; exact List.mem_cons_self)) o1 h1
        obtain ⟨a2, m2, ha2, hm2, R2⟩ := ih s1 s2 a1 m1 o2 (fun c hc' => hc c (List.mem_cons_of_mem _ hc')) R1 h2
        exact ⟨a2, m2, by omega, by omega, R2⟩

/-- the premise of a history restricts to its prefixes -/
theorem Good.prefix {σ : Type} (D : Decoder σ ℝ) (fuel : Nat) : ∀ (pre post : List (Op ℝ)) (s : Sys σ ℝ),
    Good D fuel (pre ++ post) s → Good D fuel pre s := by
  intro pre
  induction pre with
  | nil => intro _ _ _; trivial
  | cons op pre ih =>
    intro post s h
    obtain ⟨h1, h2⟩ := h
    exact ⟨h1, fun s' out hs => ih post s' (h2 s' out hs)⟩

/-! ### decoders that meet the `Decoder` contract: every packet size, every seek granularity -/

/-- an in-memory decoder over `src` (state = cursor): packets of `c ≥ 1` frames, seeks land on multiples of `g ≥ 1`
    (the suites' `ScriptDecoder` with a constant packet size and no failure) -/
def chunkDecoder (src : List (Frame ℝ)) (c g : Nat) : Decoder Nat ℝ where
  decode p := if p < src.length then .ok ((src.drop p).take (max 1 c), min src.length (p + max 1 c)) else .error .sym
  seek _ i := .ok (min i src.length / max 1 g * max 1 g, min i src.length / max 1 g * max 1 g)

theorem chunkDecoder_contract (src : List (Frame ℝ)) (c g : Nat) :
    Dec.Contract (chunkDecoder src c g) src (fun p => p) (fun _ => True) where
  decode_ok := by
    intro p _ hp
    have hp' : p < src.length := hp
    refine ⟨(src.drop p).take (max 1 c), min src.length (p + max 1 c), ?_, ?_, ?_, ?_, ?_, trivial⟩
    · simp [chunkDecoder, hp']
    · intro hc
      have h1 : ((src.drop p).take (max 1 c)).length = 0 := by rw [hc]; rfl
      have h2 : 1 ≤ max 1 c := Nat.le_max_left _ _
      simp at h1
      omega
    · have h2 : 1 ≤ max 1 c := Nat.le_max_left _ _
      simp only [List.length_take, List.length_drop]
      omega
    · simp only [List.length_take, List.length_drop]
      omega
    · intro k hk
      simp only [List.length_take, List.length_drop] at hk
      rw [List.getElem?_take]
      have : k < max 1 c := by omega
      simp [this, List.getElem?_drop]
  seek_ok := by
    intro s i hi
    refine ⟨_, _, rfl, ?_, rfl, trivial⟩
    have h1 : min i src.length = i := Nat.min_eq_left hi
    rw [h1]
    exact Nat.div_mul_le_self _ _

end Streaming
end K
