/-
  FlowLemmas.lean — silent branches, frozen subtrees, and "every live sound and effect is asked for
  every frame exactly once" (log observers).  Generic in the number type.
-/
import KiraModel.Proofs.RendererLemmas

set_option linter.unusedSectionVars false

namespace K

variable {α : Type} [Add α] [Sub α] [Mul α] [Div α] [Neg α] [LT α] [LE α]
  [DecidableLT α] [DecidableLE α] [OfScientific α] [KOps α]

section
variable {S E P : Type} (C : Comps α S E P)

/-! ### a non-advancing track: silence, nothing below it moves -/

/-- fields that the per-chunk parameter / state update does not touch -/
theorem Trk.preUpdate_fields (dt : α) (info : Info α) (n : Nat) (d : TrkData α S E P) :
    (Trk.preUpdate dt info n d).sounds = d.sounds ∧ (Trk.preUpdate dt info n d).pendingSounds = d.pendingSounds
      ∧ (Trk.preUpdate dt info n d).effects = d.effects ∧ (Trk.preUpdate dt info n d).spatial = d.spatial
      ∧ (Trk.preUpdate dt info n d).temp = d.temp ∧ (Trk.preUpdate dt info n d).id = d.id
      ∧ (Trk.preUpdate dt info n d).marked = d.marked ∧ (Trk.preUpdate dt info n d).persist = d.persist
      ∧ (Trk.preUpdate dt info n d).psm
          = (if (d.psm.update (dt * (KOps.ofNat n : α)) info).2
              then Trk.pausedIfStopped (d.psm.update (dt * (KOps.ofNat n : α)) info).1
              else (d.psm.update (dt * (KOps.ofNat n : α)) info).1) := by
  unfold Trk.preUpdate Trk.publish; dsimp only
  split <;> simp [*]

/-- whether the track turns out to be advancing in a chunk of `n` frames -/
def Trk.advancesIn (dt : α) (parentInfo : Info α) (n : Nat) (t : Trk α S E P) : Bool :=
  Trk.advancing (Trk.preUpdate dt (Trk.trackInfo C t.data parentInfo) n t.data)

/-- **frozen**: a track that is not advancing returns silence, feeds no send track, and leaves every
    sound, effect, child and pending resource exactly as it was -/
theorem Trk.process_frozen (dt : α) (pinfo : Info α) (t : Trk α S E P) (out : List (Frame α))
    (sends : List (SendTrk α E)) (h : Trk.advancesIn C dt pinfo out.length t = false) :
    (Trk.process C dt pinfo t out sends).2.1 = zeros out.length
      ∧ (Trk.process C dt pinfo t out sends).2.2 = sends
      ∧ (Trk.process C dt pinfo t out sends).1.children = t.children
      ∧ (Trk.process C dt pinfo t out sends).1.pending = t.pending
      ∧ (Trk.process C dt pinfo t out sends).1.data.sounds = t.data.sounds
      ∧ (Trk.process C dt pinfo t out sends).1.data.pendingSounds = t.data.pendingSounds
      ∧ (Trk.process C dt pinfo t out sends).1.data.effects = t.data.effects
      ∧ (Trk.process C dt pinfo t out sends).1.data.spatial = t.data.spatial := by
  cases t with
  | node d c p =>
    simp only [Trk.advancesIn, Trk.data] at h
    rw [Trk.process]
    simp only [h, Bool.not_false, if_true, Trk.children, Trk.pending, Trk.data, fillZero]
    obtain ⟨h1, h2, h3, h4, _⟩ := Trk.preUpdate_fields dt (Trk.trackInfo C d pinfo) out.length d
    exact ⟨trivial, trivial, trivial, trivial, h1, h2, h3, h4⟩

/-! ### unrouted / missing send tracks -/

theorem filter_id_map (sends : List (SendTrk α E)) (k : Nat) (f : SendTrk α E → SendTrk α E)
    (hid : ∀ s, (f s).id = s.id) (hfix : ∀ s, s.id = k → f s = s) :
    (sends.map f).filter (fun s => s.id = k) = sends.filter (fun s => s.id = k) := by
  induction sends with
  | nil => simp
  | cons s ss ih =>
    simp only [List.map_cons, List.filter_cons, hid, ih]
    by_cases hk : s.id = k
    · simp [hk, hfix s hk]
    · simp [hk]

theorem sendsAddInput_other (sends : List (SendTrk α E)) (id k : Nat) (buf : List (Frame α)) (v : α)
    (h : id ≠ k) : (sendsAddInput sends id buf v).filter (fun s => s.id = k) = sends.filter (fun s => s.id = k) := by
  unfold sendsAddInput
  apply filter_id_map
  · intro s; split <;> simp [SendTrk.addInput]
  · intro s hs; rw [if_neg]; intro e; exact h (e ▸ hs)

/-- a route to a send track that is not (or no longer, or not yet) in the arena feeds nothing -/
theorem sendsAddInput_missing (sends : List (SendTrk α E)) (id : Nat) (buf : List (Frame α)) (v : α)
    (h : ∀ s ∈ sends, s.id ≠ id) : sendsAddInput sends id buf v = sends := by
  induction sends with
  | nil => simp [sendsAddInput]
  | cons s ss ih =>
    simp only [sendsAddInput, List.map_cons]
    rw [if_neg (h s (by simp))]
    congr 1
    exact ih (fun x hx => h x (by simp [hx]))

theorem feedSends_unrouted (routes : List (Route α)) (out : List (Frame α)) (sends : List (SendTrk α E))
    (k : Nat) (h : ∀ r ∈ routes, r.to ≠ k) :
    (feedSends routes out sends).filter (fun s => s.id = k) = sends.filter (fun s => s.id = k) := by
  unfold feedSends
  induction routes generalizing sends with
  | nil => simp
  | cons r rs ih =>
    simp only [List.foldl_cons]
    rw [ih _ (fun x hx => h x (by simp [hx])), sendsAddInput_other _ _ _ _ _ (h r (by simp))]

mutual
/-- does any track of the (inserted) subtree have a route to send track `k`? -/
def Trk.routesTo (k : Nat) : Trk α S E P → Bool
  | .node d children _ => d.routes.any (fun r => r.to = k) || Trk.routesToList k children
def Trk.routesToList (k : Nat) : List (Trk α S E P) → Bool
  | [] => false
  | t :: ts => Trk.routesTo k t || Trk.routesToList k ts
end

theorem Trk.preUpdate_routes_to (dt : α) (info : Info α) (n : Nat) (d : TrkData α S E P) :
    (Trk.preUpdate dt info n d).routes.map (·.to) = d.routes.map (·.to) := by
  unfold Trk.preUpdate Trk.publish; dsimp only
  split <;> simp [List.map_map, Function.comp_def]

/-- **unrouted**: a subtree without a route to send track `k` leaves `k`'s input untouched -/
theorem Trk.process_unrouted (k : Nat) (t : Trk α S E P) :
    ∀ (dt : α) (pinfo : Info α) (out : List (Frame α)) (sends : List (SendTrk α E)),
      Trk.routesTo k t = false →
      (Trk.process C dt pinfo t out sends).2.2.filter (fun s => s.id = k) = sends.filter (fun s => s.id = k) := by
  refine Trk.rec
    (motive_1 := fun t => ∀ (dt : α) (pinfo : Info α) (out : List (Frame α)) (sends : List (SendTrk α E)),
      Trk.routesTo k t = false →
      (Trk.process C dt pinfo t out sends).2.2.filter (fun s => s.id = k) = sends.filter (fun s => s.id = k))
    (motive_2 := fun ts => ∀ (dt : α) (info : Info α) (out temp : List (Frame α)) (sends : List (SendTrk α E)),
      Trk.routesToList k ts = false →
      (Trk.processChildren C dt info ts out temp sends).2.2.2.filter (fun s => s.id = k)
        = sends.filter (fun s => s.id = k)) ?_ ?_ ?_ t
  · intro d children pending ihc _ dt pinfo out sends h
    rw [Trk.routesTo, Bool.or_eq_false_iff] at h
    rw [Trk.process]
    dsimp only
    split
    · rfl
    · unfold Trk.postChildren
      dsimp only
      rw [feedSends_unrouted, ihc _ _ _ _ _ h.2]
      intro r hr
      have hto := Trk.preUpdate_routes_to dt (Trk.trackInfo C d pinfo) out.length d
      have : r.to ∈ d.routes.map (·.to) := by rw [← hto]; exact List.mem_map_of_mem hr
      obtain ⟨r0, hr0, e⟩ := List.mem_map.mp this
      have := h.1
      simp only [List.any_eq_false, decide_eq_true_eq] at this
      rw [← e]; exact this r0 hr0
  · intro dt info out temp sends _; simp [Trk.processChildren]
  · intro t ts iht ihts dt info out temp sends h
    rw [Trk.routesToList, Bool.or_eq_false_iff] at h
    rw [Trk.processChildren]
    dsimp only
    rw [ihts _ _ _ _ _ h.2, iht _ _ _ _ h.1]

/-! ### every live sound and effect is asked for every frame exactly once -/

/-- Observers of how a component has been driven: `sl s` / `fl e` is the list of slice lengths the
    sound / effect has been asked for so far (the probes of the harness keep exactly this list). -/
structure Comps.Logging (C : Comps α S E P) (sl : S → List Nat) (fl : E → List Nat) : Prop where
  snd : ∀ s buf dt info, sl (C.sndStep s buf dt info).1 = sl s ++ [buf.length]
  fx : ∀ e buf dt info, fl (C.fxStep e buf dt info).1 = fl e ++ [buf.length]

variable (sl : S → List Nat) (fl : E → List Nat)

mutual
/-- the logs of every sound and effect of the inserted subtree -/
def Trk.logs : Trk α S E P → List (List Nat)
  | .node d children _ => d.sounds.map sl ++ d.effects.map fl ++ Trk.logsList children
def Trk.logsList : List (Trk α S E P) → List (List Nat)
  | [] => []
  | t :: ts => Trk.logs t ++ Trk.logsList ts
end

mutual
/-- every track of the inserted subtree is simply playing (no pause / resume in progress) -/
def Trk.Steady : Trk α S E P → Prop
  | .node d children _ => d.psm.state = .playing ∧ Trk.SteadyList children
def Trk.SteadyList : List (Trk α S E P) → Prop
  | [] => True
  | t :: ts => Trk.Steady t ∧ Trk.SteadyList ts
end

theorem Psm.update_playing (m : Psm α) (dt : α) (info : Info α) (h : m.state = .playing) :
    (m.update dt info).1.state = .playing ∧ (m.update dt info).2 = false := by
  unfold Psm.update; simp [h]

theorem Trk.preUpdate_playing (dt : α) (info : Info α) (n : Nat) (d : TrkData α S E P) (h : d.psm.state = .playing) :
    (Trk.preUpdate dt info n d).psm.state = .playing ∧ Trk.advancing (Trk.preUpdate dt info n d) = true := by
  have hp := (Trk.preUpdate_fields dt info n d).2.2.2.2.2.2.2.2
  have := Psm.update_playing d.psm (dt * (KOps.ofNat n : α)) info h
  rw [this.2] at hp
  simp only [Bool.false_eq_true, if_false] at hp
  refine ⟨by rw [hp]; exact this.1, ?_⟩
  unfold Trk.advancing Psm.playbackState
  rw [hp, this.1]; rfl

theorem specSounds_logs (hL : C.Logging sl fl) (dt : α) (info : Info α) (n : Nat) (ss : List S) :
    (specSounds C dt info n ss).1.map sl = (ss.map sl).map (· ++ [n]) := by
  simp [specSounds, List.map_map, Function.comp_def, hL.snd]

theorem runEffects_logs (hC : C.LenPres) (hL : C.Logging sl fl) (dt : α) (info : Info α) (es : List E)
    (out : List (Frame α)) :
    (runEffects C dt info es out).1.map fl = (es.map fl).map (· ++ [out.length]) := by
  induction es generalizing out with
  | nil => simp [runEffects]
  | cons e es ih => simp [runEffects, ih, hL.fx, hC.fx]

/-- **each frame once (one chunk)**: in a steady subtree every sound and every effect is asked for
    exactly one slice of `n` frames, and the subtree stays steady -/
theorem Trk.spec_logs (hC : C.LenPres) (hL : C.Logging sl fl) (t : Trk α S E P) :
    ∀ (dt : α) (pinfo : Info α) (n : Nat) (sends : List (SendTrk α E)), Trk.Steady t →
      Trk.logs sl fl (Trk.spec C dt pinfo n t sends).1 = (Trk.logs sl fl t).map (· ++ [n])
        ∧ Trk.Steady (Trk.spec C dt pinfo n t sends).1
        ∧ (Trk.spec C dt pinfo n t sends).2.1.length = n := by
  refine Trk.rec
    (motive_1 := fun t => ∀ (dt : α) (pinfo : Info α) (n : Nat) (sends : List (SendTrk α E)), Trk.Steady t →
      Trk.logs sl fl (Trk.spec C dt pinfo n t sends).1 = (Trk.logs sl fl t).map (· ++ [n])
        ∧ Trk.Steady (Trk.spec C dt pinfo n t sends).1
        ∧ (Trk.spec C dt pinfo n t sends).2.1.length = n)
    (motive_2 := fun ts => ∀ (dt : α) (info : Info α) (n : Nat) (sends : List (SendTrk α E)), Trk.SteadyList ts →
      Trk.logsList sl fl (Trk.specChildren C dt info n ts sends).1 = (Trk.logsList sl fl ts).map (· ++ [n])
        ∧ Trk.SteadyList (Trk.specChildren C dt info n ts sends).1) ?_ ?_ ?_ t
  · intro d children pending ihc _ dt pinfo n sends hs
    obtain ⟨hd, hcs⟩ := hs
    obtain ⟨hp, hadv⟩ := Trk.preUpdate_playing dt (Trk.trackInfo C d pinfo) n d hd
    obtain ⟨f1, _, f3, _⟩ := Trk.preUpdate_fields dt (Trk.trackInfo C d pinfo) n d
    obtain ⟨c1, c2⟩ := ihc dt (Trk.trackInfo C d pinfo) n sends hcs
    rw [Trk.spec]
    simp only [hadv, Bool.not_true, Bool.false_eq_true, if_false]
    refine ⟨?_, ?_, length_specPost C hC dt _ n _ _ _ _ (by simp) _⟩
    · unfold Trk.specPost
      simp only [Trk.logs, specSounds_logs C sl fl hL, runEffects_logs C sl fl hC hL, f1, f3, c1, List.map_append,
        length_mixInto, length_zeros]
    · unfold Trk.specPost; exact ⟨hp, c2⟩
  · intro dt info n sends _; simp [Trk.specChildren, Trk.logsList, Trk.SteadyList]
  · intro t ts iht ihts dt info n sends hs
    obtain ⟨h1, h2, _⟩ := iht dt info n sends hs.1
    obtain ⟨g1, g2⟩ := ihts dt info n (Trk.spec C dt info n t sends).2.2 hs.2
    rw [Trk.specChildren]
    simp only [Trk.logsList, h1, g1, List.map_append]
    exact ⟨trivial, h2, g2⟩

/-! the same for the whole mixer and for a whole callback -/

theorem sendsAddInput_effects (sends : List (SendTrk α E)) (id : Nat) (buf : List (Frame α)) (v : α) :
    (sendsAddInput sends id buf v).map (·.effects) = sends.map (·.effects) := by
  unfold sendsAddInput
  rw [List.map_map]; apply List.map_congr_left
  intro s _; simp only [Function.comp]; split <;> simp [SendTrk.addInput]

theorem feedSends_effects (routes : List (Route α)) (out : List (Frame α)) (sends : List (SendTrk α E)) :
    (feedSends routes out sends).map (·.effects) = sends.map (·.effects) := by
  unfold feedSends
  induction routes generalizing sends with
  | nil => simp
  | cons r rs ih => simp only [List.foldl_cons]; rw [ih, sendsAddInput_effects]

theorem Trk.spec_send_effects (t : Trk α S E P) :
    ∀ (dt : α) (pinfo : Info α) (n : Nat) (sends : List (SendTrk α E)),
      (Trk.spec C dt pinfo n t sends).2.2.map (·.effects) = sends.map (·.effects) := by
  refine Trk.rec
    (motive_1 := fun t => ∀ (dt : α) (pinfo : Info α) (n : Nat) (sends : List (SendTrk α E)),
      (Trk.spec C dt pinfo n t sends).2.2.map (·.effects) = sends.map (·.effects))
    (motive_2 := fun ts => ∀ (dt : α) (info : Info α) (n : Nat) (sends : List (SendTrk α E)),
      (Trk.specChildren C dt info n ts sends).2.2.map (·.effects) = sends.map (·.effects)) ?_ ?_ ?_ t
  · intro d children pending ihc _ dt pinfo n sends
    rw [Trk.spec]; dsimp only
    split
    · rfl
    · unfold Trk.specPost; dsimp only; rw [feedSends_effects, ihc]
  · intro dt info n sends; simp [Trk.specChildren]
  · intro t ts iht ihts dt info n sends
    rw [Trk.specChildren]; dsimp only; rw [ihts, iht]

theorem Trk.specChildren_send_effects (ts : List (Trk α S E P)) (dt : α) (info : Info α) (n : Nat)
    (sends : List (SendTrk α E)) :
    (Trk.specChildren C dt info n ts sends).2.2.map (·.effects) = sends.map (·.effects) := by
  induction ts generalizing sends with
  | nil => simp [Trk.specChildren]
  | cons t ts ih => rw [Trk.specChildren]; dsimp only; rw [ih, Trk.spec_send_effects]

theorem Trk.specChildren_logs (hC : C.LenPres) (hL : C.Logging sl fl) (ts : List (Trk α S E P)) (dt : α)
    (info : Info α) (n : Nat) (sends : List (SendTrk α E)) (hs : Trk.SteadyList ts) :
    Trk.logsList sl fl (Trk.specChildren C dt info n ts sends).1 = (Trk.logsList sl fl ts).map (· ++ [n])
      ∧ Trk.SteadyList (Trk.specChildren C dt info n ts sends).1 := by
  induction ts generalizing sends with
  | nil => simp [Trk.specChildren, Trk.logsList, Trk.SteadyList]
  | cons t ts ih =>
    obtain ⟨h1, h2, _⟩ := Trk.spec_logs C sl fl hC hL t dt info n sends hs.1
    obtain ⟨g1, g2⟩ := ih (Trk.spec C dt info n t sends).2.2 hs.2
    rw [Trk.specChildren]
    simp only [Trk.logsList, h1, g1, List.map_append]
    exact ⟨trivial, h2, g2⟩

/-- the logs of every sound and effect that is in the mixer's arenas -/
def Mixer.logs (m : Mixer α S E P) : List (List Nat) :=
  m.main.sounds.map sl ++ m.main.effects.map fl ++ (m.sendTracks.map (fun s => s.effects.map fl)).flatten
    ++ Trk.logsList sl fl m.subTracks

theorem specSends_logs (hC : C.LenPres) (hL : C.Logging sl fl) (dt : α) (info : Info α) (n : Nat)
    (ss : List (SendTrk α E)) :
    (specSends C dt info n ss).1.map (fun s => s.effects.map fl)
      = ss.map (fun s => (s.effects.map fl).map (· ++ [n])) := by
  simp only [specSends, List.map_map]
  apply List.map_congr_left
  intro s _
  simp only [Function.comp, SendTrk.process]
  rw [runEffects_logs C sl fl hC hL]; simp

theorem Mixer.spec_logs (hC : C.LenPres) (hL : C.Logging sl fl) (m : Mixer α S E P) (n : Nat) (dt : α)
    (info : Info α) (hs : Trk.SteadyList m.subTracks) :
    Mixer.logs sl fl (Mixer.spec C m n dt info).1 = (Mixer.logs sl fl m).map (· ++ [n])
      ∧ Trk.SteadyList (Mixer.spec C m n dt info).1.subTracks := by
  obtain ⟨h1, h2⟩ := Trk.specChildren_logs C sl fl hC hL m.subTracks dt info n m.sendTracks hs
  refine ⟨?_, h2⟩
  unfold Mixer.spec Mixer.logs MainTrk.spec
  simp only [h1, specSounds_logs C sl fl hL, runEffects_logs C sl fl hC hL, specSends_logs C sl fl hC hL,
    List.map_append, length_mixInto, length_zeros]
  congr 2
  have he := Trk.specChildren_send_effects C m.subTracks dt info n m.sendTracks
  have : (Trk.specChildren C dt info n m.subTracks m.sendTracks).2.2.map (fun s => (s.effects.map fl).map (· ++ [n]))
      = m.sendTracks.map (fun s => (s.effects.map fl).map (· ++ [n])) := by
    have := congrArg (List.map (fun es : List E => (es.map fl).map (· ++ [n]))) he
    simpa [List.map_map, Function.comp_def] using this
  rw [this]
  simp [List.map_flatten, List.map_map, Function.comp_def]

section
variable {X : Type} (V : EnvOps α X)

/-- **each frame once (a whole callback)**: rendering the chunks `ns` asks every sound and effect of a
    steady mixer for exactly the slices `ns`, in that order -/
theorem Renderer.specChunks_logs (hC : C.LenPres) (hL : C.Logging sl fl) (ch : Nat) (r : Renderer α S E P X)
    (ns : List Nat) (hs : Trk.SteadyList r.mixer.subTracks) :
    Mixer.logs sl fl (Renderer.specChunks C V ch r ns).1.mixer = (Mixer.logs sl fl r.mixer).map (· ++ ns)
      ∧ Trk.SteadyList (Renderer.specChunks C V ch r ns).1.mixer.subTracks := by
  induction ns generalizing r with
  | nil => simp [Renderer.specChunks]; exact hs
  | cons n ns ih =>
    simp only [Renderer.specChunks]
    obtain ⟨h1, h2⟩ := Mixer.spec_logs C sl fl hC hL r.mixer n r.dt
      (V.info (V.step r.env (r.dt * (KOps.ofNat n : α)))) hs
    obtain ⟨g1, g2⟩ := ih (r.specChunk C V n ch).1 h2
    refine ⟨?_, g2⟩
    rw [g1]
    show List.map (· ++ ns) (Mixer.logs sl fl (Mixer.spec C r.mixer n r.dt _).1) = _
    rw [h1, List.map_map]
    apply List.map_congr_left; intro l _; simp

end

end
end K
