/-
  MixerPausedLemmas.lean — "each frame exactly once" for mixer trees with paused sub-tracks:
  a component whose whole ancestor chain advances is asked for the chunk, a component under a track that
  does not advance is asked for nothing.  Generic in the number type.
-/
import KiraModel.Proofs.FlowLemmas

set_option linter.unusedSectionVars false

namespace K

variable {α : Type} [Add α] [Sub α] [Mul α] [Div α] [Neg α] [LT α] [LE α]
  [DecidableLT α] [DecidableLE α] [OfScientific α] [KOps α]

section
variable {S E P : Type} (C : Comps α S E P)
variable (sl : S → List Nat) (fl : E → List Nat)

/-! ### one chunk, any playback states: the dynamic ancestor-chain split -/

mutual
/-- the logs expected after one chunk of `n` frames, by the ancestor chain: a track that advances in this
    chunk has `n` appended to each of its own sounds / effects and recurses into its children; below a
    track that does not advance every log is as it was -/
def Trk.logsAfter (dt : α) (pinfo : Info α) (n : Nat) : Trk α S E P → List (List Nat)
  | .node d children pending =>
    if Trk.advancing (Trk.preUpdate dt (Trk.trackInfo C d pinfo) n d) then
      (d.sounds.map sl ++ d.effects.map fl).map (· ++ [n])
        ++ Trk.logsAfterList dt (Trk.trackInfo C d pinfo) n children
    else Trk.logs sl fl (.node d children pending)
def Trk.logsAfterList (dt : α) (info : Info α) (n : Nat) : List (Trk α S E P) → List (List Nat)
  | [] => []
  | t :: ts => Trk.logsAfter dt info n t ++ Trk.logsAfterList dt info n ts
end

/-- **one chunk, any tree, any playback states** -/
theorem Trk.spec_logs_any (hC : C.LenPres) (hL : C.Logging sl fl) (t : Trk α S E P) :
    ∀ (dt : α) (pinfo : Info α) (n : Nat) (sends : List (SendTrk α E)),
      Trk.logs sl fl (Trk.spec C dt pinfo n t sends).1 = Trk.logsAfter C sl fl dt pinfo n t := by
  refine Trk.rec
    (motive_1 := fun t => ∀ (dt : α) (pinfo : Info α) (n : Nat) (sends : List (SendTrk α E)),
      Trk.logs sl fl (Trk.spec C dt pinfo n t sends).1 = Trk.logsAfter C sl fl dt pinfo n t)
    (motive_2 := fun ts => ∀ (dt : α) (info : Info α) (n : Nat) (sends : List (SendTrk α E)),
      Trk.logsList sl fl (Trk.specChildren C dt info n ts sends).1 = Trk.logsAfterList C sl fl dt info n ts)
    ?_ ?_ ?_ t
  · intro d children pending ihc _ dt pinfo n sends
    obtain ⟨f1, _, f3, _⟩ := Trk.preUpdate_fields dt (Trk.trackInfo C d pinfo) n d
    rw [Trk.spec, Trk.logsAfter]
    by_cases hadv : Trk.advancing (Trk.preUpdate dt (Trk.trackInfo C d pinfo) n d) = true
    · simp only [hadv, Bool.false_eq_true, if_false, if_true, Bool.not_true]
      unfold Trk.specPost
      simp only [Trk.logs, specSounds_logs C sl fl hL, runEffects_logs C sl fl hC hL, f1, f3, ihc, List.map_append,
        length_mixInto, length_zeros]
    · simp only [Bool.not_eq_true] at hadv
      simp only [hadv, Bool.not_false, if_true, if_false, Bool.false_eq_true, Trk.logs, f1, f3]
  · intro dt info n sends; simp [Trk.specChildren, Trk.logsList, Trk.logsAfterList]
  · intro t ts iht ihts dt info n sends
    rw [Trk.specChildren]
    simp only [Trk.logsList, Trk.logsAfterList, iht, ihts]

/-! ### settled trees: every track simply playing or simply paused -/

mutual
/-- every track of the inserted subtree is simply playing or simply paused (no fade or timed resume in
    progress): the states that do not change by themselves during a callback -/
def Trk.Resting : Trk α S E P → Prop
  | .node d children _ => (d.psm.state = .playing ∨ d.psm.state = .paused) ∧ Trk.RestingList children
def Trk.RestingList : List (Trk α S E P) → Prop
  | [] => True
  | t :: ts => Trk.Resting t ∧ Trk.RestingList ts
end

mutual
/-- the logs expected after the chunks `ns`, by the (static) ancestor chain: `ns` is appended to the log
    of every sound / effect all of whose ancestors are advancing; below a non-advancing track nothing -/
def Trk.logsPlus (ns : List Nat) : Trk α S E P → List (List Nat)
  | .node d children pending =>
    if Trk.advancing d then
      (d.sounds.map sl ++ d.effects.map fl).map (· ++ ns) ++ Trk.logsPlusList ns children
    else Trk.logs sl fl (.node d children pending)
def Trk.logsPlusList (ns : List Nat) : List (Trk α S E P) → List (List Nat)
  | [] => []
  | t :: ts => Trk.logsPlus ns t ++ Trk.logsPlusList ns ts
end

theorem Trk.logsPlus_nil (t : Trk α S E P) : Trk.logsPlus sl fl [] t = Trk.logs sl fl t := by
  refine Trk.rec
    (motive_1 := fun t => Trk.logsPlus sl fl [] t = Trk.logs sl fl t)
    (motive_2 := fun ts => Trk.logsPlusList sl fl [] ts = Trk.logsList sl fl ts) ?_ ?_ ?_ t
  · intro d children pending ihc _
    rw [Trk.logsPlus]
    split
    · simp [Trk.logs, ihc, Function.comp_def]
    · rfl
  · simp [Trk.logsPlusList, Trk.logsList]
  · intro t ts iht ihts; simp [Trk.logsPlusList, Trk.logsList, iht, ihts]

theorem Psm.update_paused (m : Psm α) (dt : α) (info : Info α) (h : m.state = .paused) :
    (m.update dt info).1.state = .paused ∧ (m.update dt info).2 = false := by
  unfold Psm.update; simp [h]

theorem Trk.advancing_playing (d : TrkData α S E P) (h : d.psm.state = .playing) : Trk.advancing d = true := by
  unfold Trk.advancing Psm.playbackState; rw [h]; rfl

theorem Trk.advancing_paused (d : TrkData α S E P) (h : d.psm.state = .paused) : Trk.advancing d = false := by
  unfold Trk.advancing Psm.playbackState; rw [h]; rfl

theorem Trk.preUpdate_paused (dt : α) (info : Info α) (n : Nat) (d : TrkData α S E P) (h : d.psm.state = .paused) :
    (Trk.preUpdate dt info n d).psm.state = .paused ∧ Trk.advancing (Trk.preUpdate dt info n d) = false := by
  have hp := (Trk.preUpdate_fields dt info n d).2.2.2.2.2.2.2.2
  have := Psm.update_paused d.psm (dt * (KOps.ofNat n : α)) info h
  rw [this.2] at hp
  simp only [Bool.false_eq_true, if_false] at hp
  have hs : (Trk.preUpdate dt info n d).psm.state = .paused := by rw [hp]; exact this.1
  exact ⟨hs, Trk.advancing_paused _ hs⟩

theorem map_app_app (l : List (List Nat)) (n : Nat) (ns : List Nat) :
    (l.map (· ++ [n])).map (· ++ ns) = l.map (· ++ (n :: ns)) := by
  rw [List.map_map]; apply List.map_congr_left; intro x _; simp

/-- **one chunk of a settled tree**: whatever is appended afterwards (`ns`), the logs after the chunk are
    the logs before with `n :: ns` on every advancing chain and nothing on the others; the tree stays
    settled with the same playing / paused pattern -/
theorem Trk.spec_logsPlus (hC : C.LenPres) (hL : C.Logging sl fl) (t : Trk α S E P) :
    ∀ (dt : α) (pinfo : Info α) (n : Nat) (sends : List (SendTrk α E)) (ns : List Nat), Trk.Resting t →
      Trk.logsPlus sl fl ns (Trk.spec C dt pinfo n t sends).1 = Trk.logsPlus sl fl (n :: ns) t
        ∧ Trk.Resting (Trk.spec C dt pinfo n t sends).1 := by
  refine Trk.rec
    (motive_1 := fun t => ∀ (dt : α) (pinfo : Info α) (n : Nat) (sends : List (SendTrk α E)) (ns : List Nat),
      Trk.Resting t →
      Trk.logsPlus sl fl ns (Trk.spec C dt pinfo n t sends).1 = Trk.logsPlus sl fl (n :: ns) t
        ∧ Trk.Resting (Trk.spec C dt pinfo n t sends).1)
    (motive_2 := fun ts => ∀ (dt : α) (info : Info α) (n : Nat) (sends : List (SendTrk α E)) (ns : List Nat),
      Trk.RestingList ts →
      Trk.logsPlusList sl fl ns (Trk.specChildren C dt info n ts sends).1 = Trk.logsPlusList sl fl (n :: ns) ts
        ∧ Trk.RestingList (Trk.specChildren C dt info n ts sends).1) ?_ ?_ ?_ t
  · intro d children pending ihc _ dt pinfo n sends ns hs
    obtain ⟨hd, hcs⟩ := hs
    obtain ⟨f1, _, f3, _⟩ := Trk.preUpdate_fields dt (Trk.trackInfo C d pinfo) n d
    rcases hd with hd | hd
    · obtain ⟨hp, hadv⟩ := Trk.preUpdate_playing dt (Trk.trackInfo C d pinfo) n d hd
      obtain ⟨c1, c2⟩ := ihc dt (Trk.trackInfo C d pinfo) n sends ns hcs
      have ha := Trk.advancing_playing d hd
      have ha2 : ∀ d' : TrkData α S E P, d'.psm = (Trk.preUpdate dt (Trk.trackInfo C d pinfo) n d).psm →
          Trk.advancing d' = true := by
        intro d' h; unfold Trk.advancing at hadv ⊢; rw [h]; exact hadv
      rw [Trk.spec]
      simp only [hadv, Bool.not_true, Bool.false_eq_true, if_false]
      refine ⟨?_, ?_⟩
      · unfold Trk.specPost
        dsimp only
        rw [Trk.logsPlus, Trk.logsPlus, if_pos ha, if_pos]
        · simp only [specSounds_logs C sl fl hL, runEffects_logs C sl fl hC hL, f1, f3,
            c1, List.map_append, length_mixInto, length_zeros, map_app_app]
        · exact ha2 _ rfl
      · unfold Trk.specPost; exact ⟨Or.inl hp, c2⟩
    · obtain ⟨hp, hadv⟩ := Trk.preUpdate_paused dt (Trk.trackInfo C d pinfo) n d hd
      have ha := Trk.advancing_paused d hd
      rw [Trk.spec]
      simp only [hadv, Bool.not_false, if_true]
      refine ⟨?_, Or.inr hp, hcs⟩
      simp only [Trk.logsPlus, ha, hadv, Bool.false_eq_true, if_false, Trk.logs, f1, f3]
  · intro dt info n sends ns _; simp [Trk.specChildren, Trk.logsPlusList, Trk.RestingList]
  · intro t ts iht ihts dt info n sends ns hs
    obtain ⟨h1, h2⟩ := iht dt info n sends ns hs.1
    obtain ⟨g1, g2⟩ := ihts dt info n (Trk.spec C dt info n t sends).2.2 ns hs.2
    rw [Trk.specChildren]
    simp only [Trk.logsPlusList, h1, g1]
    exact ⟨trivial, h2, g2⟩

theorem Trk.specChildren_logsPlus (hC : C.LenPres) (hL : C.Logging sl fl) (ts : List (Trk α S E P)) (dt : α)
    (info : Info α) (n : Nat) (sends : List (SendTrk α E)) (ns : List Nat) (hs : Trk.RestingList ts) :
    Trk.logsPlusList sl fl ns (Trk.specChildren C dt info n ts sends).1 = Trk.logsPlusList sl fl (n :: ns) ts
      ∧ Trk.RestingList (Trk.specChildren C dt info n ts sends).1 := by
  induction ts generalizing sends with
  | nil => simp [Trk.specChildren, Trk.logsPlusList, Trk.RestingList]
  | cons t ts ih =>
    obtain ⟨h1, h2⟩ := Trk.spec_logsPlus C sl fl hC hL t dt info n sends ns hs.1
    obtain ⟨g1, g2⟩ := ih (Trk.spec C dt info n t sends).2.2 hs.2
    rw [Trk.specChildren]
    simp only [Trk.logsPlusList, h1, g1]
    exact ⟨trivial, h2, g2⟩

/-! ### the whole mixer, a whole callback -/

/-- the logs of the mixer's own components (main track sounds / effects, send-track effects: these have no
    pausable ancestor) -/
def Mixer.ownLogs (m : Mixer α S E P) : List (List Nat) :=
  m.main.sounds.map sl ++ m.main.effects.map fl ++ (m.sendTracks.map (fun s => s.effects.map fl)).flatten

/-- expected logs of the whole mixer after the chunks `ns` -/
def Mixer.logsPlus (ns : List Nat) (m : Mixer α S E P) : List (List Nat) :=
  (Mixer.ownLogs sl fl m).map (· ++ ns) ++ Trk.logsPlusList sl fl ns m.subTracks

theorem Mixer.logs_eq (m : Mixer α S E P) :
    Mixer.logs sl fl m = Mixer.ownLogs sl fl m ++ Trk.logsList sl fl m.subTracks := rfl

theorem Trk.logsPlusList_nil (ts : List (Trk α S E P)) : Trk.logsPlusList sl fl [] ts = Trk.logsList sl fl ts := by
  induction ts with
  | nil => simp [Trk.logsPlusList, Trk.logsList]
  | cons t ts ih => simp [Trk.logsPlusList, Trk.logsList, ih, Trk.logsPlus_nil]

theorem Mixer.logsPlus_nil (m : Mixer α S E P) : Mixer.logsPlus sl fl [] m = Mixer.logs sl fl m := by
  rw [Mixer.logs_eq, Mixer.logsPlus, Trk.logsPlusList_nil]; simp

/-- the mixer's own components are asked for every chunk, whatever the sub-tracks do -/
theorem Mixer.spec_ownLogs (hC : C.LenPres) (hL : C.Logging sl fl) (m : Mixer α S E P) (n : Nat) (dt : α)
    (info : Info α) :
    Mixer.ownLogs sl fl (Mixer.spec C m n dt info).1 = (Mixer.ownLogs sl fl m).map (· ++ [n]) := by
  unfold Mixer.spec Mixer.ownLogs MainTrk.spec
  simp only [specSounds_logs C sl fl hL, runEffects_logs C sl fl hC hL, specSends_logs C sl fl hC hL,
    List.map_append, length_mixInto, length_zeros]
  congr 1
  have he := Trk.specChildren_send_effects C m.subTracks dt info n m.sendTracks
  have : (Trk.specChildren C dt info n m.subTracks m.sendTracks).2.2.map (fun s => (s.effects.map fl).map (· ++ [n]))
      = m.sendTracks.map (fun s => (s.effects.map fl).map (· ++ [n])) := by
    have := congrArg (List.map (fun es : List E => (es.map fl).map (· ++ [n]))) he
    simpa [List.map_map, Function.comp_def] using this
  rw [this]
  simp [List.map_flatten, List.map_map, Function.comp_def]

theorem Mixer.spec_logsPlus (hC : C.LenPres) (hL : C.Logging sl fl) (m : Mixer α S E P) (n : Nat) (dt : α)
    (info : Info α) (ns : List Nat) (hs : Trk.RestingList m.subTracks) :
    Mixer.logsPlus sl fl ns (Mixer.spec C m n dt info).1 = Mixer.logsPlus sl fl (n :: ns) m
      ∧ Trk.RestingList (Mixer.spec C m n dt info).1.subTracks := by
  obtain ⟨h1, h2⟩ := Trk.specChildren_logsPlus C sl fl hC hL m.subTracks dt info n m.sendTracks ns hs
  refine ⟨?_, h2⟩
  unfold Mixer.logsPlus
  rw [Mixer.spec_ownLogs C sl fl hC hL, map_app_app]
  congr 1

/-! ### the live mask: which components have a fully advancing ancestor chain -/

mutual
/-- one flag per sound / effect of the subtree (in `Trk.logs` order): `true` iff the track holding it and
    all of that track's ancestors inside the subtree are advancing -/
def Trk.mask : Trk α S E P → List Bool
  | .node d children pending =>
    if Trk.advancing d then
      (d.sounds.map sl ++ d.effects.map fl).map (fun _ => true) ++ Trk.maskList children
    else (Trk.logs sl fl (.node d children pending)).map (fun _ => false)
def Trk.maskList : List (Trk α S E P) → List Bool
  | [] => []
  | t :: ts => Trk.mask t ++ Trk.maskList ts
end

/-- flags for the whole mixer: its own components (main track, send tracks) are always live -/
def Mixer.live (m : Mixer α S E P) : List Bool :=
  (Mixer.ownLogs sl fl m).map (fun _ => true) ++ Trk.maskList sl fl m.subTracks

/-- `b` is `a` with `ns` appended exactly at the flagged positions -/
def Asked (ns : List Nat) : List Bool → List (List Nat) → List (List Nat) → Prop
  | [], [], [] => True
  | m :: ms, a :: as, b :: bs => (b = if m then a ++ ns else a) ∧ Asked ns ms as bs
  | _, _, _ => False

theorem Asked.append (ns : List Nat) : ∀ (m1 : List Bool) (a1 b1 : List (List Nat)) (m2 : List Bool)
    (a2 b2 : List (List Nat)), Asked ns m1 a1 b1 → Asked ns m2 a2 b2 → Asked ns (m1 ++ m2) (a1 ++ a2) (b1 ++ b2)
  | [], [], [], _, _, _, _, h2 => by simpa using h2
  | m :: ms, a :: as, b :: bs, m2, a2, b2, h1, h2 => by
    simp only [List.cons_append, Asked] at h1 ⊢
    exact ⟨h1.1, Asked.append ns ms as bs m2 a2 b2 h1.2 h2⟩
  | [], [], _ :: _, _, _, _, h1, _ => by simp [Asked] at h1
  | [], _ :: _, _, _, _, _, h1, _ => by simp [Asked] at h1
  | _ :: _, [], _, _, _, _, h1, _ => by simp [Asked] at h1
  | _ :: _, _ :: _, [], _, _, _, h1, _ => by simp [Asked] at h1

theorem Asked.all_true (ns : List Nat) (a : List (List Nat)) :
    Asked ns (a.map (fun _ => true)) a (a.map (· ++ ns)) := by
  induction a with
  | nil => simp [Asked]
  | cons x xs ih => simp [Asked, ih]

theorem Asked.all_false (ns : List Nat) (a : List (List Nat)) : Asked ns (a.map (fun _ => false)) a a := by
  induction a with
  | nil => simp [Asked]
  | cons x xs ih => simp [Asked, ih]

theorem Asked.getD (ns : List Nat) : ∀ (m : List Bool) (a b : List (List Nat)), Asked ns m a b → ∀ i : Nat,
    b.getD i [] = if m.getD i false then a.getD i [] ++ ns else a.getD i []
  | [], [], [], _, i => by simp
  | m :: ms, a :: as, b :: bs, h, i => by
    simp only [Asked] at h
    cases i with
    | zero => simpa using h.1
    | succ j => simpa using Asked.getD ns ms as bs h.2 j
  | [], [], _ :: _, h, _ => by simp [Asked] at h
  | [], _ :: _, _, h, _ => by simp [Asked] at h
  | _ :: _, [], _, h, _ => by simp [Asked] at h
  | _ :: _, _ :: _, [], h, _ => by simp [Asked] at h

theorem Trk.logsPlus_asked (ns : List Nat) (t : Trk α S E P) :
    Asked ns (Trk.mask sl fl t) (Trk.logs sl fl t) (Trk.logsPlus sl fl ns t) := by
  refine Trk.rec
    (motive_1 := fun t => Asked ns (Trk.mask sl fl t) (Trk.logs sl fl t) (Trk.logsPlus sl fl ns t))
    (motive_2 := fun ts => Asked ns (Trk.maskList sl fl ts) (Trk.logsList sl fl ts) (Trk.logsPlusList sl fl ns ts))
    ?_ ?_ ?_ t
  · intro d children pending ihc _
    rw [Trk.mask, Trk.logsPlus]
    split
    · rw [Trk.logs]
      exact Asked.append ns _ _ _ _ _ _ (Asked.all_true ns _) ihc
    · exact Asked.all_false ns _
  · simp [Trk.maskList, Trk.logsList, Trk.logsPlusList, Asked]
  · intro t ts iht ihts
    rw [Trk.maskList, Trk.logsList, Trk.logsPlusList]
    exact Asked.append ns _ _ _ _ _ _ iht ihts

theorem Mixer.logsPlus_asked (ns : List Nat) (m : Mixer α S E P) :
    Asked ns (Mixer.live sl fl m) (Mixer.logs sl fl m) (Mixer.logsPlus sl fl ns m) := by
  rw [Mixer.logs_eq, Mixer.live, Mixer.logsPlus]
  refine Asked.append ns _ _ _ _ _ _ (Asked.all_true ns _) ?_
  induction m.subTracks with
  | nil => simp [Trk.maskList, Trk.logsList, Trk.logsPlusList, Asked]
  | cons t ts ih =>
    rw [Trk.maskList, Trk.logsList, Trk.logsPlusList]
    exact Asked.append ns _ _ _ _ _ _ (Trk.logsPlus_asked sl fl ns t) ih

section
variable {X : Type} (V : EnvOps α X)

/-- **a whole callback of a settled mixer** -/
theorem Renderer.specChunks_logsPlus (hC : C.LenPres) (hL : C.Logging sl fl) (ch : Nat) (r : Renderer α S E P X)
    (cs ns : List Nat) (hs : Trk.RestingList r.mixer.subTracks) :
    Mixer.logsPlus sl fl ns (Renderer.specChunks C V ch r cs).1.mixer = Mixer.logsPlus sl fl (cs ++ ns) r.mixer
      ∧ Trk.RestingList (Renderer.specChunks C V ch r cs).1.mixer.subTracks := by
  induction cs generalizing r with
  | nil => simp [Renderer.specChunks]; exact hs
  | cons n cs ih =>
    simp only [Renderer.specChunks]
    obtain ⟨h1, h2⟩ := Mixer.spec_logsPlus C sl fl hC hL r.mixer n r.dt
      (V.info (V.step r.env (r.dt * (KOps.ofNat n : α)))) (cs ++ ns) hs
    obtain ⟨g1, g2⟩ := ih (r.specChunk C V n ch).1 h2
    refine ⟨?_, g2⟩
    rw [g1]
    exact h1

/-- a whole device callback of a clean renderer with a settled tree -/
theorem Renderer.processLoop_logsPlus (hC : C.LenPres) (hL : C.Logging sl fl) (ch : Nat) (r : Renderer α S E P X)
    (hr : r.Clean) (hs : Trk.RestingList r.mixer.subTracks) (frames : Nat) :
    Mixer.logs sl fl (Renderer.processLoop C V ch frames r frames).1.mixer
        = Mixer.logsPlus sl fl (chunkSizes frames r.ibs frames) r.mixer
      ∧ Trk.RestingList (Renderer.processLoop C V ch frames r frames).1.mixer.subTracks
      ∧ (Renderer.processLoop C V ch frames r frames).1.Clean := by
  have hb := chunkSizes_bound frames r.ibs frames
  obtain ⟨e1, e2⟩ := Renderer.runChunks_spec C V hC ch r hr _ (fun n hn => (hb n hn).1)
  rw [Renderer.processLoop_eq, e1]
  obtain ⟨h1, h2⟩ := Renderer.specChunks_logsPlus C sl fl V hC hL ch r (chunkSizes frames r.ibs frames) [] hs
  rw [Mixer.logsPlus_nil, List.append_nil] at h1
  exact ⟨h1, h2, e2⟩

/-- **a session**: device callbacks (of any sizes) on a clean renderer whose tree is settled at the start
    of the callback, interleaved with arbitrary commands that keep the component logs (pause, resume,
    volume, … — anything that does not itself drive a sound or effect).  The third index is, per
    component position, the sum of the callback sizes during which its ancestor chain was advancing. -/
inductive Renderer.Session (ch : Nat) : Renderer α S E P X → Renderer α S E P X → (Nat → Nat) → Prop where
  | done (r : Renderer α S E P X) : Renderer.Session ch r r (fun _ => 0)
  | callback (r r'' : Renderer α S E P X) (frames : Nat) (tot : Nat → Nat) (hr : r.Clean)
      (hs : Trk.RestingList r.mixer.subTracks) (hibs : 0 < r.ibs) :
      Renderer.Session ch (Renderer.processLoop C V ch frames r frames).1 r'' tot →
      Renderer.Session ch r r''
        (fun i => (if (Mixer.live sl fl r.mixer).getD i false then frames else 0) + tot i)
  | command (r r' r'' : Renderer α S E P X) (tot : Nat → Nat)
      (h : Mixer.logs sl fl r'.mixer = Mixer.logs sl fl r.mixer) :
      Renderer.Session ch r' r'' tot → Renderer.Session ch r r'' tot

theorem Renderer.Session.count (hC : C.LenPres) (hL : C.Logging sl fl) (ch : Nat) (r r'' : Renderer α S E P X)
    (tot : Nat → Nat) (h : Renderer.Session C sl fl V ch r r'' tot) (i : Nat) :
    ((Mixer.logs sl fl r''.mixer).getD i []).sum = ((Mixer.logs sl fl r.mixer).getD i []).sum + tot i := by
  induction h with
  | done r => simp
  | callback r r'' frames tot hr hs hibs _ ih =>
    rw [ih, (Renderer.processLoop_logsPlus C sl fl V hC hL ch r hr hs frames).1,
      Asked.getD _ _ _ _ (Mixer.logsPlus_asked sl fl _ r.mixer) i]
    have hsum := chunkSizes_sum frames r.ibs frames hibs (Nat.le_refl _)
    by_cases hl : (Mixer.live sl fl r.mixer).getD i false = true
    · simp only [hl, if_true, List.sum_append, hsum]; omega
    · simp only [hl, if_false, Bool.false_eq_true]; omega
  | command r r' r'' tot h _ ih => rw [ih, h]

end

end
end K
