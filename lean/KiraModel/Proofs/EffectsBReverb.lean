/-
  EffectsBReverb.lean — the reverb over ℝ: stagnant parameters, splitting, dry identity, silence.
  Helper lemmas for C13_b / C14_b.
-/
import KiraModel.Proofs.EffectsBFrame

namespace K
open LineFx

namespace Reverb

theorem widen_zero (sw : ℝ) : widen (Frame.zero : Frame ℝ) sw = Frame.zero := by
  ext <;> simp [widen]

theorem widthAt_settled (p : Parameter ℝ ℝ) (n i : ℕ) : widthAt p.settle n i = p.raw := by
  have h : p.settle.prev = p.settle.raw := rfl
  simp [widthAt, Parameter.interp_const64 _ h]

/-- the per-frame loop with constant stereo width `sw` and clamped mix `m` -/
noncomputable def framesC (sw m fb dp : ℝ) :
    ReverbLines ℝ → List (Frame ℝ) → Except FxFault (ReverbLines ℝ × List (Frame ℝ))
  | ls, [] => .ok (ls, [])
  | ls, x :: xs =>
    match ls.frame x fb dp with
    | .error e => .error e
    | .ok (ls1, o) =>
      match framesC sw m fb dp ls1 xs with
      | .error e => .error e
      | .ok (ls2, ys) => .ok (ls2, blend (widen o sw) x m :: ys)

theorem frames_settled (swP mixP : Parameter ℝ ℝ) (fb dp : ℝ) (n : ℕ) (ls : ReverbLines ℝ)
    (xs : List (Frame ℝ)) (i : ℕ) :
    frames swP.settle mixP.settle fb dp n i ls xs = framesC swP.raw (clamp mixP.raw 0 1) fb dp ls xs := by
  induction xs generalizing ls i with
  | nil => rfl
  | cons x xs ih =>
    simp only [frames, framesC, widthAt_settled, mixAt_settled]
    cases ls.frame x fb dp with
    | error e => rfl
    | ok v =>
      obtain ⟨ls1, o⟩ := v
      simp only [ih]
      generalize framesC swP.raw (clamp mixP.raw 0 1) fb dp ls1 xs = q
      rcases q with e | ⟨a, b⟩ <;> rfl

theorem framesC_append (sw m fb dp : ℝ) (ls : ReverbLines ℝ) (xs ys : List (Frame ℝ)) :
    framesC sw m fb dp ls (xs ++ ys)
      = match framesC sw m fb dp ls xs with
        | .error e => .error e
        | .ok (ls1, o1) =>
          match framesC sw m fb dp ls1 ys with
          | .error e => .error e
          | .ok (ls2, o2) => .ok (ls2, o1 ++ o2) := by
  induction xs generalizing ls with
  | nil =>
    simp only [List.nil_append, framesC]
    cases framesC sw m fb dp ls ys with
    | error e => rfl
    | ok v => rfl
  | cons x xs ih =>
    simp only [List.cons_append, framesC]
    cases ls.frame x fb dp with
    | error e => rfl
    | ok v =>
      obtain ⟨ls1, o⟩ := v
      simp only [ih]
      cases framesC sw m fb dp ls1 xs with
      | error e => rfl
      | ok w =>
        obtain ⟨ls2, o1⟩ := w
        simp only
        cases framesC sw m fb dp ls2 ys with
        | error e => rfl
        | ok u => rfl

/-- all four parameters idle on fixed values -/
def Stagnant (r : Reverb ℝ) : Prop :=
  r.feedback.stagnant = true ∧ r.damping.stagnant = true ∧ r.stereoWidth.stagnant = true ∧ r.mix.stagnant = true

/-- the reverb after a `process` call with stagnant parameters that left the lines as `ls'` -/
def settled (r : Reverb ℝ) (ls' : ReverbLines ℝ) : Reverb ℝ :=
  { r with feedback := r.feedback.settle, damping := r.damping.settle,
           stereoWidth := r.stereoWidth.settle, mix := r.mix.settle, state := some ls' }

theorem settled_stagnant (r : Reverb ℝ) (hr : r.Stagnant) (ls' : ReverbLines ℝ) : (r.settled ls').Stagnant := hr

/-- `process` of a reverb with stagnant parameters -/
theorem process_settled (r : Reverb ℝ) (hr : r.Stagnant) (xs : List (Frame ℝ)) (dt : ℝ) (info : Info ℝ) :
    r.process xs dt info
      = match r.state with
        | none => .error .panic
        | some ls =>
          match framesC r.stereoWidth.raw (clamp r.mix.raw 0 1) r.feedback.raw r.damping.raw ls xs with
          | .error e => .error e
          | .ok (ls', out) => .ok (r.settled ls', out) := by
  obtain ⟨h1, h2, h3, h4⟩ := hr
  unfold process
  cases hst : r.state with
  | none => rfl
  | some ls =>
    simp only [Parameter.update_stagnant_fst _ _ _ _ h1, Parameter.update_stagnant_fst _ _ _ _ h2,
      Parameter.update_stagnant_fst _ _ _ _ h3, Parameter.update_stagnant_fst _ _ _ _ h4]
    simp only [← Parameter.settle.eq_1, frames_settled, Parameter.value, r32_real]
    generalize framesC r.stereoWidth.raw (clamp r.mix.raw 0 1) r.feedback.raw r.damping.raw ls xs = q
    rcases q with e | ⟨a, b⟩ <;> rfl

/-! ### dry identity -/

theorem frames_dry (swP mixP : Parameter ℝ ℝ) (hp : mixP.raw ≤ 0) (fb dp : ℝ) (n : ℕ) :
    ∀ (xs : List (Frame ℝ)) (i : ℕ) (ls : ReverbLines ℝ) r,
      frames swP mixP.settle fb dp n i ls xs = .ok r → r.2 = xs := by
  intro xs
  induction xs with
  | nil => intro i ls r h; simp [frames] at h; rw [← h]
  | cons x xs ih =>
    intro i ls r h
    rw [frames] at h
    split at h
    · cases h
    · rename_i ls1 o heq
      try dsimp only at h
      split at h
      · cases h
      · rename_i ls2 ys heq2
        have := ih _ _ (ls2, ys) heq2
        simp only at this
        cases h
        simp [mixAt_dry mixP hp, blend_dry, this]

end Reverb

/-! ### the lines: what one step does (over ℝ) -/

namespace Comb

/-- a comb line whose index is inside its (hence non-empty) buffer -/
def WF (c : Comb ℝ) : Prop := c.idx < c.buffer.size

/-- the low-pass state after one step -/
noncomputable def nextStore (c : Comb ℝ) (dp : ℝ) (h : c.WF) : ℝ := c.buffer[c.idx]'h * (1 - dp) + c.store * dp

theorem process_ok (c : Comb ℝ) (h : c.WF) (x fb dp : ℝ) :
    c.process x fb dp
      = .ok (⟨c.nextStore dp h, c.buffer.setIfInBounds c.idx (x + c.nextStore dp h * fb),
              (c.idx + 1) % c.buffer.size⟩, c.buffer[c.idx]'h) := by
  obtain ⟨store, buffer, idx⟩ := c
  simp only [WF] at h
  simp [process, nextStore, Array.getElem?_eq_getElem h]

theorem process_err (c : Comb ℝ) (h : ¬ c.WF) (x fb dp : ℝ) : c.process x fb dp = .error .indexOOB := by
  obtain ⟨store, buffer, idx⟩ := c
  simp only [WF, not_lt] at h
  simp [process, Array.getElem?_eq_none h]

theorem process_wf (c : Comb ℝ) (h : c.WF) (x fb dp : ℝ) r (hr : c.process x fb dp = .ok r) :
    r.1.WF ∧ r.1.buffer.size = c.buffer.size := by
  rw [process_ok c h] at hr
  cases hr
  simp only [WF, Array.size_setIfInBounds]
  exact ⟨Nat.mod_lt _ (Nat.lt_of_le_of_lt (Nat.zero_le _) h), trivial⟩

theorem new_wf (n : ℕ) (h : 1 ≤ n) : (Comb.new n : Comb ℝ).WF := by
  simp [WF, new]; omega

/-- store and every slot are zero -/
def Silent (c : Comb ℝ) : Prop := c.store = 0 ∧ ∀ i (h : i < c.buffer.size), c.buffer[i] = 0

theorem new_silent (n : ℕ) : (Comb.new n : Comb ℝ).Silent := by
  refine ⟨by simp [new], ?_⟩
  intro i h
  simp [new]

theorem process_silent (c : Comb ℝ) (hc : c.Silent) (fb dp : ℝ) r (hr : c.process 0 fb dp = .ok r) :
    r.1.Silent ∧ r.2 = 0 := by
  by_cases h : c.WF
  · rw [process_ok c h] at hr
    cases hr
    have hs : c.nextStore dp h = 0 := by simp [nextStore, hc.1, hc.2 c.idx h]
    refine ⟨⟨hs, ?_⟩, hc.2 _ h⟩
    intro i hi
    simp only [Array.size_setIfInBounds] at hi
    simp only [hs]
    rw [Array.getElem_setIfInBounds hi]
    split
    · simp
    · exact hc.2 i hi
  · rw [process_err c h] at hr; cases hr

end Comb

namespace AllPass

def WF (a : AllPass ℝ) : Prop := a.idx < a.buffer.size

theorem process_ok (a : AllPass ℝ) (h : a.WF) (x : ℝ) :
    a.process x
      = .ok (⟨a.buffer.setIfInBounds a.idx (x + a.buffer[a.idx]'h * (Gen.allPassFeedback : ℝ)),
              (a.idx + 1) % a.buffer.size⟩, -x + a.buffer[a.idx]'h) := by
  obtain ⟨buffer, idx⟩ := a
  simp only [WF] at h
  simp [process, Array.getElem?_eq_getElem h]

theorem process_err (a : AllPass ℝ) (h : ¬ a.WF) (x : ℝ) : a.process x = .error .indexOOB := by
  obtain ⟨buffer, idx⟩ := a
  simp only [WF, not_lt] at h
  simp [process, Array.getElem?_eq_none h]

theorem process_wf (a : AllPass ℝ) (h : a.WF) (x : ℝ) r (hr : a.process x = .ok r) :
    r.1.WF ∧ r.1.buffer.size = a.buffer.size := by
  rw [process_ok a h] at hr
  cases hr
  simp only [WF, Array.size_setIfInBounds]
  exact ⟨Nat.mod_lt _ (Nat.lt_of_le_of_lt (Nat.zero_le _) h), trivial⟩

theorem new_wf (n : ℕ) (h : 1 ≤ n) : (AllPass.new n : AllPass ℝ).WF := by
  simp [WF, new]; omega

def Silent (a : AllPass ℝ) : Prop := ∀ i (h : i < a.buffer.size), a.buffer[i] = 0

theorem new_silent (n : ℕ) : (AllPass.new n : AllPass ℝ).Silent := by
  intro i h
  simp [new]

theorem process_silent (a : AllPass ℝ) (ha : a.Silent) r (hr : a.process 0 = .ok r) :
    r.1.Silent ∧ r.2 = 0 := by
  by_cases h : a.WF
  · rw [process_ok a h] at hr
    cases hr
    refine ⟨?_, by simp [ha _ h]⟩
    intro i hi
    simp only [Array.size_setIfInBounds] at hi
    rw [Array.getElem_setIfInBounds hi]
    split
    · simp [ha _ h]
    · exact ha i hi
  · rw [process_err a h] at hr; cases hr

end AllPass

/-! ### the network: silence, well-formedness (no faults) -/

namespace ReverbLines

def Silent (ls : ReverbLines ℝ) : Prop :=
  (∀ p ∈ ls.combs, p.1.Silent ∧ p.2.Silent) ∧ (∀ p ∈ ls.allPasses, p.1.Silent ∧ p.2.Silent)

/-- every line non-empty with its index in range -/
def WF (ls : ReverbLines ℝ) : Prop :=
  (∀ p ∈ ls.combs, p.1.WF ∧ p.2.WF) ∧ (∀ p ∈ ls.allPasses, p.1.WF ∧ p.2.WF)

theorem combBank_silent (fb dp : ℝ) : ∀ (cs : List (Comb ℝ × Comb ℝ)) (acc : Frame ℝ) r,
    (∀ p ∈ cs, p.1.Silent ∧ p.2.Silent) → combBank 0 fb dp cs acc = .ok r →
    (∀ p ∈ r.1, p.1.Silent ∧ p.2.Silent) ∧ r.2 = acc := by
  intro cs
  induction cs with
  | nil => intro acc r _ h; simp [combBank] at h; rw [← h]; simp
  | cons c cs ih =>
    intro acc r hs h
    obtain ⟨l, rr⟩ := c
    rw [combBank] at h
    split at h
    · cases h
    · rename_i l' ol hl
      try dsimp only at h
      split at h
      · cases h
      · rename_i r' or hr
        try dsimp only at h
        split at h
        · cases h
        · rename_i rest' out hrest
          have h1 := Comb.process_silent l (hs (l, rr) (by simp)).1 fb dp (l', ol) hl
          have h2 := Comb.process_silent rr (hs (l, rr) (by simp)).2 fb dp (r', or) hr
          have h3 := ih _ (rest', out) (fun p hp => hs p (by simp [hp])) hrest
          cases h
          refine ⟨?_, ?_⟩
          · intro p hp
            simp only [List.mem_cons] at hp
            rcases hp with rfl | hp
            · exact ⟨h1.1, h2.1⟩
            · exact h3.1 p hp
          · rw [h3.2]; simp only at h1 h2; ext <;> simp [h1.2, h2.2]

theorem allPassChain_silent : ∀ (as : List (AllPass ℝ × AllPass ℝ)) r,
    (∀ p ∈ as, p.1.Silent ∧ p.2.Silent) → allPassChain as (Frame.zero : Frame ℝ) = .ok r →
    (∀ p ∈ r.1, p.1.Silent ∧ p.2.Silent) ∧ r.2 = Frame.zero := by
  intro as
  induction as with
  | nil => intro r _ h; simp [allPassChain] at h; rw [← h]; simp
  | cons c cs ih =>
    intro r hs h
    obtain ⟨l, rr⟩ := c
    rw [allPassChain] at h
    simp only [FrameB.zero_left, FrameB.zero_right] at h
    split at h
    · cases h
    · rename_i l' ol hl
      try dsimp only at h
      split at h
      · cases h
      · rename_i r' or hr
        try dsimp only at h
        have h1 := AllPass.process_silent l (hs (l, rr) (by simp)).1 (l', ol) hl
        have h2 := AllPass.process_silent rr (hs (l, rr) (by simp)).2 (r', or) hr
        simp only at h1 h2
        have hz : ({ left := ol, right := or } : Frame ℝ) = Frame.zero := by ext <;> simp [h1.2, h2.2]
        rw [hz] at h
        split at h
        · cases h
        · rename_i rest' out hrest
          have h3 := ih (rest', out) (fun p hp => hs p (by simp [hp])) hrest
          cases h
          refine ⟨?_, h3.2⟩
          intro p hp
          simp only [List.mem_cons] at hp
          rcases hp with rfl | hp
          · exact ⟨h1.1, h2.1⟩
          · exact h3.1 p hp

theorem frame_silent (ls : ReverbLines ℝ) (hs : ls.Silent) (fb dp : ℝ) r
    (h : ls.frame Frame.zero fb dp = .ok r) : r.1.Silent ∧ r.2 = Frame.zero := by
  obtain ⟨combs, aps⟩ := ls
  simp only [frame, FrameB.zero_left, FrameB.zero_right, r32_real, add_zero, zero_mul] at h
  split at h
  · cases h
  · rename_i combs' o1 hc
    try dsimp only at h
    have h1 := combBank_silent fb dp combs Frame.zero (combs', o1) hs.1 hc
    simp only at h1
    rw [h1.2] at h
    split at h
    · cases h
    · rename_i aps' o2 ha
      have h2 := allPassChain_silent aps (aps', o2) hs.2 ha
      cases h
      exact ⟨⟨h1.1, h2.1⟩, h2.2⟩

theorem init_silent (sr : ℕ) : (ReverbLines.init sr : ReverbLines ℝ).Silent := by
  constructor
  · intro p hp
    simp only [init, List.mem_map] at hp
    obtain ⟨t, _, rfl⟩ := hp
    exact ⟨Comb.new_silent _, Comb.new_silent _⟩
  · intro p hp
    simp only [init, List.mem_map] at hp
    obtain ⟨t, _, rfl⟩ := hp
    exact ⟨AllPass.new_silent _, AllPass.new_silent _⟩

theorem combBank_wf (x fb dp : ℝ) : ∀ (cs : List (Comb ℝ × Comb ℝ)) (acc : Frame ℝ),
    (∀ p ∈ cs, p.1.WF ∧ p.2.WF) → ∃ r, combBank x fb dp cs acc = .ok r ∧ ∀ p ∈ r.1, p.1.WF ∧ p.2.WF := by
  intro cs
  induction cs with
  | nil => intro acc _; exact ⟨_, rfl, by simp⟩
  | cons c cs ih =>
    intro acc hs
    obtain ⟨l, rr⟩ := c
    have hl := (hs (l, rr) (by simp)).1
    have hr := (hs (l, rr) (by simp)).2
    obtain ⟨pl, hpl⟩ : ∃ pl, l.process x fb dp = .ok pl := ⟨_, Comb.process_ok l hl x fb dp⟩
    obtain ⟨pr, hpr⟩ : ∃ pr, rr.process x fb dp = .ok pr := ⟨_, Comb.process_ok rr hr x fb dp⟩
    obtain ⟨r, h3, h4⟩ := ih ⟨acc.left + pl.2, acc.right + pr.2⟩ (fun p hp => hs p (by simp [hp]))
    refine ⟨((pl.1, pr.1) :: r.1, r.2), ?_, ?_⟩
    · rw [combBank]
      simp only [hpl, hpr, r32_real, h3]
    · intro p hp
      simp only [List.mem_cons] at hp
      rcases hp with rfl | hp
      · exact ⟨(Comb.process_wf l hl x fb dp _ hpl).1, (Comb.process_wf rr hr x fb dp _ hpr).1⟩
      · exact h4 p hp

theorem allPassChain_wf : ∀ (as : List (AllPass ℝ × AllPass ℝ)) (acc : Frame ℝ),
    (∀ p ∈ as, p.1.WF ∧ p.2.WF) → ∃ r, allPassChain as acc = .ok r ∧ ∀ p ∈ r.1, p.1.WF ∧ p.2.WF := by
  intro as
  induction as with
  | nil => intro acc _; exact ⟨_, rfl, by simp⟩
  | cons c cs ih =>
    intro acc hs
    obtain ⟨l, rr⟩ := c
    have hl := (hs (l, rr) (by simp)).1
    have hr := (hs (l, rr) (by simp)).2
    obtain ⟨pl, hpl⟩ : ∃ pl, l.process acc.left = .ok pl := ⟨_, AllPass.process_ok l hl _⟩
    obtain ⟨pr, hpr⟩ : ∃ pr, rr.process acc.right = .ok pr := ⟨_, AllPass.process_ok rr hr _⟩
    obtain ⟨r, h3, h4⟩ := ih ⟨pl.2, pr.2⟩ (fun p hp => hs p (by simp [hp]))
    refine ⟨((pl.1, pr.1) :: r.1, r.2), ?_, ?_⟩
    · rw [allPassChain]
      simp only [hpl, hpr, h3]
    · intro p hp
      simp only [List.mem_cons] at hp
      rcases hp with rfl | hp
      · exact ⟨(AllPass.process_wf l hl _ _ hpl).1, (AllPass.process_wf rr hr _ _ hpr).1⟩
      · exact h4 p hp

theorem frame_wf (ls : ReverbLines ℝ) (hw : ls.WF) (x : Frame ℝ) (fb dp : ℝ) :
    ∃ r, ls.frame x fb dp = .ok r ∧ r.1.WF := by
  obtain ⟨combs, aps⟩ := ls
  obtain ⟨r1, h1, w1⟩ := combBank_wf ((x.left + x.right) * (Gen.reverbGain : ℝ)) fb dp combs Frame.zero hw.1
  obtain ⟨r2, h2, w2⟩ := allPassChain_wf aps r1.2 hw.2
  refine ⟨(⟨r1.1, r2.1⟩, r2.2), ?_, ⟨w1, w2⟩⟩
  simp only [frame, r32_real, h1, h2]

theorem combBank_err_kind (x fb dp : ℝ) : ∀ (cs : List (Comb ℝ × Comb ℝ)) (acc : Frame ℝ) e,
    combBank x fb dp cs acc = .error e → e = .indexOOB := by
  intro cs
  induction cs with
  | nil => intro acc e h; simp [combBank] at h
  | cons c cs ih =>
    intro acc e h
    obtain ⟨l, rr⟩ := c
    rw [combBank] at h
    by_cases hl : l.WF
    · by_cases hr : rr.WF
      · simp only [Comb.process_ok l hl, Comb.process_ok rr hr] at h
        split at h
        · rename_i e' he
          cases h
          exact ih _ _ he
        · cases h
      · simp only [Comb.process_ok l hl, Comb.process_err rr hr] at h
        cases h; rfl
    · simp only [Comb.process_err l hl] at h
      cases h; rfl

theorem allPassChain_err : ∀ (as : List (AllPass ℝ × AllPass ℝ)) (acc : Frame ℝ),
    (∃ p ∈ as, ¬ p.1.WF ∨ ¬ p.2.WF) → allPassChain as acc = .error .indexOOB := by
  intro as
  induction as with
  | nil => intro acc h; simp at h
  | cons c cs ih =>
    intro acc h
    obtain ⟨l, rr⟩ := c
    rw [allPassChain]
    by_cases hl : l.WF
    · by_cases hr : rr.WF
      · simp only [AllPass.process_ok l hl, AllPass.process_ok rr hr]
        have : ∃ p ∈ cs, ¬ p.1.WF ∨ ¬ p.2.WF := by
          obtain ⟨p, hp, hbad⟩ := h
          simp only [List.mem_cons] at hp
          rcases hp with rfl | hp
          · rcases hbad with hb | hb
            · exact absurd hl hb
            · exact absurd hr hb
          · exact ⟨p, hp, hbad⟩
        rw [ih _ this]
      · simp only [AllPass.process_ok l hl, AllPass.process_err rr hr]
    · simp only [AllPass.process_err l hl]

/-- a network with an empty all-pass line faults on every frame -/
theorem frame_err (ls : ReverbLines ℝ) (h : ∃ p ∈ ls.allPasses, ¬ p.1.WF ∨ ¬ p.2.WF) (x : Frame ℝ) (fb dp : ℝ) :
    ls.frame x fb dp = .error .indexOOB := by
  obtain ⟨combs, aps⟩ := ls
  simp only [frame]
  split
  · rename_i e he
    rw [combBank_err_kind _ _ _ _ _ _ he]
  · rename_i combs' o1 hc
    simp only [allPassChain_err aps o1 h]

/-- `adjust_buffer_size` over ℝ is the floor of `n · sr / 44100` -/
theorem adjust_real (sr n : ℕ) :
    adjust ℝ sr n = ⌊(n : ℝ) * ((sr : ℝ) / (Gen.reverbReferenceSampleRate : ℝ))⌋₊ := rfl

theorem adjust_pos (sr n : ℕ) (h : Gen.reverbReferenceSampleRate ≤ n * sr) : 1 ≤ adjust ℝ sr n := by
  rw [adjust_real]
  apply Nat.le_floor
  have h' : ((Gen.reverbReferenceSampleRate : ℕ) : ℝ) ≤ (n : ℝ) * (sr : ℝ) := by exact_mod_cast h
  have hpos : (0 : ℝ) < (Gen.reverbReferenceSampleRate : ℝ) := by norm_num [Gen.reverbReferenceSampleRate]
  rw [Nat.cast_one, ← mul_div_assoc, le_div_iff₀ hpos]
  linarith

/-- at 196 Hz and above (so everywhere in 8 kHz … 192 kHz) every line has at least one slot -/
theorem init_wf (sr : ℕ) (h : 196 ≤ sr) : (ReverbLines.init sr : ReverbLines ℝ).WF := by
  constructor
  · intro p hp
    simp only [init, List.mem_map] at hp
    obtain ⟨t, ht, rfl⟩ := hp
    simp only [Gen.reverbCombTuning, Gen.reverbStereoSpread, List.mem_cons, List.not_mem_nil, or_false] at ht
    constructor <;> apply Comb.new_wf <;> apply adjust_pos <;>
      rcases ht with rfl | rfl | rfl | rfl | rfl | rfl | rfl | rfl <;>
      simp only [Gen.reverbReferenceSampleRate] <;> omega
  · intro p hp
    simp only [init, List.mem_map] at hp
    obtain ⟨t, ht, rfl⟩ := hp
    simp only [Gen.reverbAllPassTuning, Gen.reverbStereoSpread, List.mem_cons, List.not_mem_nil, or_false] at ht
    constructor <;> apply AllPass.new_wf <;> apply adjust_pos <;>
      rcases ht with rfl | rfl | rfl | rfl <;>
      simp only [Gen.reverbReferenceSampleRate] <;> omega

end ReverbLines

namespace Reverb

theorem frames_wf (swP mixP : Parameter ℝ ℝ) (fb dp : ℝ) (n : ℕ) :
    ∀ (xs : List (Frame ℝ)) (i : ℕ) (ls : ReverbLines ℝ), ls.WF →
      ∃ r, frames swP mixP fb dp n i ls xs = .ok r ∧ r.1.WF ∧ r.2.length = xs.length := by
  intro xs
  induction xs with
  | nil => intro i ls hw; exact ⟨_, rfl, hw, rfl⟩
  | cons x xs ih =>
    intro i ls hw
    obtain ⟨r1, h1, w1⟩ := ReverbLines.frame_wf ls hw x fb dp
    obtain ⟨r2, h2, w2, l2⟩ := ih (i + 1) r1.1 w1
    refine ⟨(r2.1, blend (widen r1.2 (widthAt swP n i)) x (mixAt mixP n i) :: r2.2), ?_, w2, by simp [l2]⟩
    rw [frames]
    simp only [h1, h2]

theorem frames_silent (swP mixP : Parameter ℝ ℝ) (fb dp : ℝ) (n : ℕ) :
    ∀ (k i : ℕ) (ls : ReverbLines ℝ) r, ls.Silent →
      frames swP mixP fb dp n i ls (List.replicate k Frame.zero) = .ok r →
      r.1.Silent ∧ r.2 = List.replicate k Frame.zero := by
  intro k
  induction k with
  | zero => intro i ls r hs h; simp [frames] at h; rw [← h]; exact ⟨hs, rfl⟩
  | succ k ih =>
    intro i ls r hs h
    rw [List.replicate_succ, frames] at h
    split at h
    · cases h
    · rename_i ls1 o heq
      try dsimp only at h
      have h1 := ReverbLines.frame_silent ls hs fb dp (ls1, o) heq
      split at h
      · cases h
      · rename_i ls2 ys heq2
        have h2 := ih _ _ (ls2, ys) h1.1 heq2
        cases h
        simp only at h1 h2
        refine ⟨h2.1, ?_⟩
        simp only [h1.2, widen_zero, blend_zero, h2.2, List.replicate_succ]

end Reverb

end K
