/-
  EffectsBReverbLinear.lean — linearity of the comb / all-pass lines and of the whole reverb network in
  (line contents, input), for any parameter states.  Helper lemmas for C13_reverb_linear.
-/
import KiraModel.Proofs.EffectsBReverb
import KiraModel.Proofs.EffectsBLinear

namespace K

/-! ### arrays -/

theorem zipWith_add_set (b1 b2 : Array ℝ) (i : ℕ) (v1 v2 : ℝ) (hs : b1.size = b2.size) :
    (Array.zipWith (· + ·) b1 b2).setIfInBounds i (v1 + v2)
      = Array.zipWith (· + ·) (b1.setIfInBounds i v1) (b2.setIfInBounds i v2) := by
  apply Array.ext
  · simp
  · intro j h1 h2
    simp only [Array.size_setIfInBounds, Array.size_zipWith] at h1 h2
    have hj1 : j < b1.size := by omega
    have hj2 : j < b2.size := by omega
    rw [Array.getElem_setIfInBounds (by simp; omega), Array.getElem_zipWith, Array.getElem_zipWith,
      Array.getElem_setIfInBounds hj1, Array.getElem_setIfInBounds hj2]
    split <;> rfl

theorem map_mul_set (b : Array ℝ) (i : ℕ) (k v : ℝ) :
    (b.map (k * ·)).setIfInBounds i (k * v) = (b.setIfInBounds i v).map (k * ·) := by
  apply Array.ext
  · simp
  · intro j h1 h2
    simp only [Array.size_setIfInBounds, Array.size_map] at h1 h2
    rw [Array.getElem_setIfInBounds (by simp; omega), Array.getElem_map, Array.getElem_map,
      Array.getElem_setIfInBounds h1]
    split <;> rfl

/-! ### comb -/

namespace Comb

/-- same index and size: the two lines move in lock step -/
def Compat (c1 c2 : Comb ℝ) : Prop := c1.idx = c2.idx ∧ c1.buffer.size = c2.buffer.size

noncomputable def add (c1 c2 : Comb ℝ) : Comb ℝ :=
  ⟨c1.store + c2.store, Array.zipWith (· + ·) c1.buffer c2.buffer, c1.idx⟩

noncomputable def smul (k : ℝ) (c : Comb ℝ) : Comb ℝ := ⟨k * c.store, c.buffer.map (k * ·), c.idx⟩

theorem wf_of_ok (c : Comb ℝ) (x fb dp : ℝ) r (h : c.process x fb dp = .ok r) : c.WF := by
  by_contra hw
  rw [process_err c hw] at h
  cases h

theorem process_add (c1 c2 : Comb ℝ) (hc : Compat c1 c2) (x1 x2 fb dp : ℝ) r1 r2
    (h1 : c1.process x1 fb dp = .ok r1) (h2 : c2.process x2 fb dp = .ok r2) :
    (add c1 c2).process (x1 + x2) fb dp = .ok (add r1.1 r2.1, r1.2 + r2.2) ∧ Compat r1.1 r2.1 := by
  have w1 : c1.idx < c1.buffer.size := wf_of_ok c1 _ _ _ _ h1
  have w2 : c2.idx < c2.buffer.size := wf_of_ok c2 _ _ _ _ h2
  obtain ⟨s1, b1, i⟩ := c1
  obtain ⟨s2, b2, i2⟩ := c2
  obtain ⟨hi, hs⟩ := hc
  simp only at hi hs w1 w2
  subst hi
  have w12 : i < (Array.zipWith (· + ·) b1 b2).size := by simp only [Array.size_zipWith]; omega
  simp only [process, Array.getElem?_eq_getElem w1, r32_real, lit_1] at h1
  simp only [process, Array.getElem?_eq_getElem w2, r32_real, lit_1] at h2
  cases h1
  cases h2
  simp only [add, process, Array.getElem?_eq_getElem w12, r32_real, lit_1, Array.getElem_zipWith]
  refine ⟨?_, by simp [hs], by simp [hs]⟩
  congr 2
  refine Comb.mk.injEq .. |>.mpr ⟨by ring, ?_, by simp [hs]⟩
  rw [← zipWith_add_set _ _ _ _ _ hs]
  congr 1
  ring

theorem process_smul (k : ℝ) (c : Comb ℝ) (x fb dp : ℝ) r (h : c.process x fb dp = .ok r) :
    (smul k c).process (k * x) fb dp = .ok (smul k r.1, k * r.2) := by
  have w : c.idx < c.buffer.size := wf_of_ok c _ _ _ _ h
  obtain ⟨s, b, i⟩ := c
  simp only at w
  have wk : i < (b.map (k * ·)).size := by simpa using w
  simp only [process, Array.getElem?_eq_getElem w, r32_real, lit_1] at h
  cases h
  simp only [smul, process, Array.getElem?_eq_getElem wk, r32_real, lit_1, Array.getElem_map]
  congr 2
  refine Comb.mk.injEq .. |>.mpr ⟨by ring, ?_, by simp⟩
  rw [← map_mul_set]
  congr 1
  ring

end Comb

/-! ### all-pass -/

namespace AllPass

def Compat (a1 a2 : AllPass ℝ) : Prop := a1.idx = a2.idx ∧ a1.buffer.size = a2.buffer.size

noncomputable def add (a1 a2 : AllPass ℝ) : AllPass ℝ := ⟨Array.zipWith (· + ·) a1.buffer a2.buffer, a1.idx⟩
noncomputable def smul (k : ℝ) (a : AllPass ℝ) : AllPass ℝ := ⟨a.buffer.map (k * ·), a.idx⟩

theorem wf_of_ok (a : AllPass ℝ) (x : ℝ) r (h : a.process x = .ok r) : a.WF := by
  by_contra hw
  rw [process_err a hw] at h
  cases h

theorem process_add (a1 a2 : AllPass ℝ) (hc : Compat a1 a2) (x1 x2 : ℝ) r1 r2
    (h1 : a1.process x1 = .ok r1) (h2 : a2.process x2 = .ok r2) :
    (add a1 a2).process (x1 + x2) = .ok (add r1.1 r2.1, r1.2 + r2.2) ∧ Compat r1.1 r2.1 := by
  have w1 : a1.idx < a1.buffer.size := wf_of_ok a1 _ _ h1
  have w2 : a2.idx < a2.buffer.size := wf_of_ok a2 _ _ h2
  obtain ⟨b1, i⟩ := a1
  obtain ⟨b2, i2⟩ := a2
  obtain ⟨hi, hs⟩ := hc
  simp only at hi hs w1 w2
  subst hi
  have w12 : i < (Array.zipWith (· + ·) b1 b2).size := by simp only [Array.size_zipWith]; omega
  simp only [process, Array.getElem?_eq_getElem w1, r32_real] at h1
  simp only [process, Array.getElem?_eq_getElem w2, r32_real] at h2
  cases h1
  cases h2
  simp only [add, process, Array.getElem?_eq_getElem w12, r32_real, Array.getElem_zipWith]
  refine ⟨?_, by simp [hs], by simp [hs]⟩
  congr 1
  refine Prod.ext ?_ (by simp only; ring)
  refine AllPass.mk.injEq .. |>.mpr ⟨?_, by simp [hs]⟩
  rw [← zipWith_add_set _ _ _ _ _ hs]
  congr 1
  ring

theorem process_smul (k : ℝ) (a : AllPass ℝ) (x : ℝ) r (h : a.process x = .ok r) :
    (smul k a).process (k * x) = .ok (smul k r.1, k * r.2) := by
  have w : a.idx < a.buffer.size := wf_of_ok a _ _ h
  obtain ⟨b, i⟩ := a
  simp only at w
  have wk : i < (b.map (k * ·)).size := by simpa using w
  simp only [process, Array.getElem?_eq_getElem w, r32_real] at h
  cases h
  simp only [smul, process, Array.getElem?_eq_getElem wk, r32_real, Array.getElem_map]
  congr 1
  refine Prod.ext ?_ (by simp only; ring)
  refine AllPass.mk.injEq .. |>.mpr ⟨?_, by simp⟩
  rw [← map_mul_set]
  congr 1
  ring

end AllPass

/-! ### the network -/

namespace ReverbLines

def CombsCompat (c1 c2 : List (Comb ℝ × Comb ℝ)) : Prop :=
  List.Forall₂ (fun p q => Comb.Compat p.1 q.1 ∧ Comb.Compat p.2 q.2) c1 c2
def ApsCompat (a1 a2 : List (AllPass ℝ × AllPass ℝ)) : Prop :=
  List.Forall₂ (fun p q => AllPass.Compat p.1 q.1 ∧ AllPass.Compat p.2 q.2) a1 a2

/-- the two networks have the same shape and their indices agree (true of two reverbs initialised at the
    same sample rate and fed equally many frames) -/
def Compat (l1 l2 : ReverbLines ℝ) : Prop := CombsCompat l1.combs l2.combs ∧ ApsCompat l1.allPasses l2.allPasses

noncomputable def addCombs (c1 c2 : List (Comb ℝ × Comb ℝ)) : List (Comb ℝ × Comb ℝ) :=
  List.zipWith (fun p q => (Comb.add p.1 q.1, Comb.add p.2 q.2)) c1 c2
noncomputable def addAps (a1 a2 : List (AllPass ℝ × AllPass ℝ)) : List (AllPass ℝ × AllPass ℝ) :=
  List.zipWith (fun p q => (AllPass.add p.1 q.1, AllPass.add p.2 q.2)) a1 a2

/-- slot-wise sum of two networks -/
noncomputable def add (l1 l2 : ReverbLines ℝ) : ReverbLines ℝ :=
  ⟨addCombs l1.combs l2.combs, addAps l1.allPasses l2.allPasses⟩

/-- a network with every slot (and low-pass store) scaled by `k` -/
noncomputable def smul (k : ℝ) (l : ReverbLines ℝ) : ReverbLines ℝ :=
  ⟨l.combs.map (fun p => (Comb.smul k p.1, Comb.smul k p.2)),
   l.allPasses.map (fun p => (AllPass.smul k p.1, AllPass.smul k p.2))⟩

theorem combBank_add (x1 x2 fb dp : ℝ) : ∀ (cs1 cs2 : List (Comb ℝ × Comb ℝ)), CombsCompat cs1 cs2 →
    ∀ (acc1 acc2 : Frame ℝ) r1 r2, combBank x1 fb dp cs1 acc1 = .ok r1 → combBank x2 fb dp cs2 acc2 = .ok r2 →
      combBank (x1 + x2) fb dp (addCombs cs1 cs2) (Frame.add acc1 acc2)
          = .ok (addCombs r1.1 r2.1, Frame.add r1.2 r2.2)
        ∧ CombsCompat r1.1 r2.1 := by
  intro cs1 cs2 hc
  induction hc with
  | nil =>
    intro acc1 acc2 r1 r2 h1 h2
    simp only [combBank] at h1 h2
    cases h1; cases h2
    exact ⟨rfl, List.Forall₂.nil⟩
  | @cons p q ps qs hpq _ ih =>
    intro acc1 acc2 r1 r2 h1 h2
    obtain ⟨l1, rr1⟩ := p
    obtain ⟨l2, rr2⟩ := q
    rw [combBank] at h1 h2
    split at h1
    · cases h1
    · rename_i l1' ol1 hl1
      split at h1
      · cases h1
      · rename_i r1' or1 hr1
        split at h1
        · cases h1
        · rename_i rest1 out1 hrest1
          split at h2
          · cases h2
          · rename_i l2' ol2 hl2
            split at h2
            · cases h2
            · rename_i r2' or2 hr2
              split at h2
              · cases h2
              · rename_i rest2 out2 hrest2
                obtain ⟨a1, a2⟩ := Comb.process_add l1 l2 hpq.1 x1 x2 fb dp _ _ hl1 hl2
                obtain ⟨b1, b2⟩ := Comb.process_add rr1 rr2 hpq.2 x1 x2 fb dp _ _ hr1 hr2
                obtain ⟨c1, c2⟩ := ih _ _ _ _ hrest1 hrest2
                cases h1
                cases h2
                refine ⟨?_, List.Forall₂.cons ⟨a2, b2⟩ c2⟩
                simp only [addCombs, List.zipWith_cons_cons]
                rw [combBank]
                simp only [a1, b1, r32_real]
                have hacc : ({ left := (Frame.add acc1 acc2).left + (ol1 + ol2),
                               right := (Frame.add acc1 acc2).right + (or1 + or2) } : Frame ℝ)
                    = Frame.add ⟨acc1.left + ol1, acc1.right + or1⟩ ⟨acc2.left + ol2, acc2.right + or2⟩ := by
                  ext <;> simp <;> ring
                rw [hacc]
                simp only [r32_real] at c1
                simp only [addCombs] at c1
                rw [c1]

theorem allPassChain_add : ∀ (as1 as2 : List (AllPass ℝ × AllPass ℝ)), ApsCompat as1 as2 →
    ∀ (acc1 acc2 : Frame ℝ) r1 r2, allPassChain as1 acc1 = .ok r1 → allPassChain as2 acc2 = .ok r2 →
      allPassChain (addAps as1 as2) (Frame.add acc1 acc2) = .ok (addAps r1.1 r2.1, Frame.add r1.2 r2.2)
        ∧ ApsCompat r1.1 r2.1 := by
  intro as1 as2 hc
  induction hc with
  | nil =>
    intro acc1 acc2 r1 r2 h1 h2
    simp only [allPassChain] at h1 h2
    cases h1; cases h2
    exact ⟨rfl, List.Forall₂.nil⟩
  | @cons p q ps qs hpq _ ih =>
    intro acc1 acc2 r1 r2 h1 h2
    obtain ⟨l1, rr1⟩ := p
    obtain ⟨l2, rr2⟩ := q
    rw [allPassChain] at h1 h2
    split at h1
    · cases h1
    · rename_i l1' ol1 hl1
      split at h1
      · cases h1
      · rename_i r1' or1 hr1
        split at h1
        · cases h1
        · rename_i rest1 out1 hrest1
          split at h2
          · cases h2
          · rename_i l2' ol2 hl2
            split at h2
            · cases h2
            · rename_i r2' or2 hr2
              split at h2
              · cases h2
              · rename_i rest2 out2 hrest2
                obtain ⟨a1, a2⟩ := AllPass.process_add l1 l2 hpq.1 _ _ _ _ hl1 hl2
                obtain ⟨b1, b2⟩ := AllPass.process_add rr1 rr2 hpq.2 _ _ _ _ hr1 hr2
                obtain ⟨c1, c2⟩ := ih _ _ _ _ hrest1 hrest2
                cases h1
                cases h2
                refine ⟨?_, List.Forall₂.cons ⟨a2, b2⟩ c2⟩
                simp only [addAps, List.zipWith_cons_cons]
                rw [allPassChain]
                simp only [FrameB.add_left, FrameB.add_right, a1, b1]
                have hacc : ({ left := ol1 + ol2, right := or1 + or2 } : Frame ℝ)
                    = Frame.add ⟨ol1, or1⟩ ⟨ol2, or2⟩ := by ext <;> simp
                rw [hacc]
                simp only [addAps] at c1
                rw [c1]

theorem frame_add (l1 l2 : ReverbLines ℝ) (hc : Compat l1 l2) (x1 x2 : Frame ℝ) (fb dp : ℝ) r1 r2
    (h1 : l1.frame x1 fb dp = .ok r1) (h2 : l2.frame x2 fb dp = .ok r2) :
    (add l1 l2).frame (Frame.add x1 x2) fb dp = .ok (add r1.1 r2.1, Frame.add r1.2 r2.2)
      ∧ Compat r1.1 r2.1 := by
  obtain ⟨c1, a1⟩ := l1
  obtain ⟨c2, a2⟩ := l2
  obtain ⟨hcc, hca⟩ := hc
  simp only [frame, r32_real] at h1 h2
  split at h1
  · cases h1
  · rename_i c1' o1 hb1
    split at h1
    · cases h1
    · rename_i a1' p1 hp1
      split at h2
      · cases h2
      · rename_i c2' o2 hb2
        split at h2
        · cases h2
        · rename_i a2' p2 hp2
          obtain ⟨e1, e2⟩ := combBank_add _ _ fb dp c1 c2 hcc Frame.zero Frame.zero _ _ hb1 hb2
          obtain ⟨f1, f2⟩ := allPassChain_add a1 a2 hca _ _ _ _ hp1 hp2
          cases h1
          cases h2
          refine ⟨?_, e2, f2⟩
          simp only [add, frame, r32_real, FrameB.add_left, FrameB.add_right]
          have hm : (x1.left + x2.left + (x1.right + x2.right)) * (Gen.reverbGain : ℝ)
              = (x1.left + x1.right) * (Gen.reverbGain : ℝ) + (x2.left + x2.right) * (Gen.reverbGain : ℝ) := by ring
          have hz : (Frame.zero : Frame ℝ) = Frame.add Frame.zero Frame.zero := (FrameB.add_zero _).symm
          rw [hm, hz, e1]
          simp only
          rw [f1]

theorem combBank_smul (k x fb dp : ℝ) : ∀ (cs : List (Comb ℝ × Comb ℝ)) (acc : Frame ℝ) r,
    combBank x fb dp cs acc = .ok r →
    combBank (k * x) fb dp (cs.map (fun p => (Comb.smul k p.1, Comb.smul k p.2))) (acc.scale k)
      = .ok (r.1.map (fun p => (Comb.smul k p.1, Comb.smul k p.2)), r.2.scale k) := by
  intro cs
  induction cs with
  | nil => intro acc r h; simp only [combBank] at h; cases h; rfl
  | cons p ps ih =>
    intro acc r h
    obtain ⟨l, rr⟩ := p
    rw [combBank] at h
    split at h
    · cases h
    · rename_i l' ol hl
      split at h
      · cases h
      · rename_i r' or hr
        split at h
        · cases h
        · rename_i rest out hrest
          have a1 := Comb.process_smul k l x fb dp _ hl
          have b1 := Comb.process_smul k rr x fb dp _ hr
          have c1 := ih _ _ hrest
          cases h
          simp only [List.map_cons]
          rw [combBank]
          simp only [a1, b1, r32_real]
          have hacc : ({ left := (acc.scale k).left + k * ol, right := (acc.scale k).right + k * or } : Frame ℝ)
              = (⟨acc.left + ol, acc.right + or⟩ : Frame ℝ).scale k := by
            ext <;> simp <;> ring
          rw [hacc]
          simp only [r32_real] at c1
          rw [c1]

theorem allPassChain_smul (k : ℝ) : ∀ (as : List (AllPass ℝ × AllPass ℝ)) (acc : Frame ℝ) r,
    allPassChain as acc = .ok r →
    allPassChain (as.map (fun p => (AllPass.smul k p.1, AllPass.smul k p.2))) (acc.scale k)
      = .ok (r.1.map (fun p => (AllPass.smul k p.1, AllPass.smul k p.2)), r.2.scale k) := by
  intro as
  induction as with
  | nil => intro acc r h; simp only [allPassChain] at h; cases h; rfl
  | cons p ps ih =>
    intro acc r h
    obtain ⟨l, rr⟩ := p
    rw [allPassChain] at h
    split at h
    · cases h
    · rename_i l' ol hl
      split at h
      · cases h
      · rename_i r' or hr
        split at h
        · cases h
        · rename_i rest out hrest
          have a1 := AllPass.process_smul k l _ _ hl
          have b1 := AllPass.process_smul k rr _ _ hr
          have c1 := ih _ _ hrest
          cases h
          simp only [List.map_cons]
          rw [allPassChain]
          have e1 : (acc.scale k).left = k * acc.left := by simp [mul_comm]
          have e2 : (acc.scale k).right = k * acc.right := by simp [mul_comm]
          simp only [e1, e2, a1, b1]
          have hacc : ({ left := k * ol, right := k * or } : Frame ℝ) = (⟨ol, or⟩ : Frame ℝ).scale k := by
            ext <;> simp [mul_comm]
          rw [hacc, c1]

theorem frame_smul (k : ℝ) (l : ReverbLines ℝ) (x : Frame ℝ) (fb dp : ℝ) r (h : l.frame x fb dp = .ok r) :
    (smul k l).frame (x.scale k) fb dp = .ok (smul k r.1, r.2.scale k) := by
  obtain ⟨c, a⟩ := l
  simp only [frame, r32_real] at h
  split at h
  · cases h
  · rename_i c' o hb
    split at h
    · cases h
    · rename_i a' p hp
      have e1 := combBank_smul k _ fb dp c Frame.zero _ hb
      have f1 := allPassChain_smul k a _ _ hp
      cases h
      simp only [smul, frame, r32_real, FrameB.scale_left, FrameB.scale_right]
      have hm : (x.left * k + x.right * k) * (Gen.reverbGain : ℝ)
          = k * ((x.left + x.right) * (Gen.reverbGain : ℝ)) := by ring
      have hz : (Frame.zero : Frame ℝ) = (Frame.zero : Frame ℝ).scale k := (FrameB.zero_scale k).symm
      rw [hm, hz, e1]
      simp only
      rw [f1]

end ReverbLines

namespace Reverb
open LineFx

theorem frames_smul (k : ℝ) (swP mixP : Parameter ℝ ℝ) (fb dp : ℝ) (n : ℕ) :
    ∀ (x : List (Frame ℝ)) (i : ℕ) (l : ReverbLines ℝ) r,
      frames swP mixP fb dp n i l x = .ok r →
      frames swP mixP fb dp n i (ReverbLines.smul k l) (fsmul k x)
        = .ok (ReverbLines.smul k r.1, fsmul k r.2) := by
  intro x
  induction x with
  | nil => intro i l r h; simp only [frames] at h; cases h; rfl
  | cons a as ih =>
    intro i l r h
    rw [frames] at h
    split at h
    · cases h
    · rename_i l' o hf
      split at h
      · cases h
      · rename_i l'' ys hr
        have e1 := ReverbLines.frame_smul k l a fb dp _ hf
        have f1 := ih (i + 1) _ _ hr
        cases h
        simp only [List.map_cons]
        rw [frames]
        simp only [e1, f1]
        congr 3
        ext <;> simp [widen, blend_real] <;> ring

theorem widen_add (o1 o2 : Frame ℝ) (sw : ℝ) : widen (Frame.add o1 o2) sw = Frame.add (widen o1 sw) (widen o2 sw) := by
  ext <;> simp [widen] <;> ring

theorem widen_scale (o : Frame ℝ) (k sw : ℝ) : widen (o.scale k) sw = (widen o sw).scale k := by
  ext <;> simp [widen] <;> ring

theorem frames_add (swP mixP : Parameter ℝ ℝ) (fb dp : ℝ) (n : ℕ) :
    ∀ (x1 x2 : List (Frame ℝ)) (i : ℕ) (l1 l2 : ReverbLines ℝ) r1 r2, x1.length = x2.length →
      ReverbLines.Compat l1 l2 →
      frames swP mixP fb dp n i l1 x1 = .ok r1 → frames swP mixP fb dp n i l2 x2 = .ok r2 →
      frames swP mixP fb dp n i (ReverbLines.add l1 l2) (fadd x1 x2)
          = .ok (ReverbLines.add r1.1 r2.1, fadd r1.2 r2.2)
        ∧ ReverbLines.Compat r1.1 r2.1 := by
  intro x1
  induction x1 with
  | nil =>
    intro x2 i l1 l2 r1 r2 hx hc h1 h2
    cases x2 with
    | nil =>
      simp only [frames] at h1 h2
      cases h1; cases h2
      exact ⟨rfl, hc⟩
    | cons b bs => simp at hx
  | cons a as ih =>
    intro x2 i l1 l2 r1 r2 hx hc h1 h2
    cases x2 with
    | nil => simp at hx
    | cons b bs =>
      rw [frames] at h1 h2
      split at h1
      · cases h1
      · rename_i l1' o1 hf1
        split at h1
        · cases h1
        · rename_i l1'' ys1 hr1
          split at h2
          · cases h2
          · rename_i l2' o2 hf2
            split at h2
            · cases h2
            · rename_i l2'' ys2 hr2
              obtain ⟨e1, e2⟩ := ReverbLines.frame_add l1 l2 hc a b fb dp _ _ hf1 hf2
              obtain ⟨f1, f2⟩ := ih bs (i + 1) _ _ _ _ (by simpa using hx) e2 hr1 hr2
              cases h1
              cases h2
              refine ⟨?_, f2⟩
              simp only [List.zipWith_cons_cons]
              rw [frames]
              simp only [e1, f1, widen_add, blend_add]

/-- same parameters and pending commands -/
def SameControls (r1 r2 : Reverb ℝ) : Prop :=
  r1.feedback = r2.feedback ∧ r1.damping = r2.damping ∧ r1.stereoWidth = r2.stereoWidth ∧ r1.mix = r2.mix
    ∧ r1.cmdFeedback = r2.cmdFeedback ∧ r1.cmdDamping = r2.cmdDamping
    ∧ r1.cmdStereoWidth = r2.cmdStereoWidth ∧ r1.cmdMix = r2.cmdMix

/-- the sum of two initialised reverbs that share parameters: all line contents add -/
noncomputable def plus (r1 r2 : Reverb ℝ) : Reverb ℝ :=
  { r1 with state := match r1.state, r2.state with
                     | some a, some b => some (ReverbLines.add a b)
                     | _, _ => none }

theorem process_add (r1 r2 : Reverb ℝ) (hsame : SameControls r1 r2) (l1 l2 : ReverbLines ℝ)
    (hs1 : r1.state = some l1) (hs2 : r2.state = some l2) (hc : ReverbLines.Compat l1 l2)
    (x1 x2 : List (Frame ℝ)) (hx : x1.length = x2.length) (dt : ℝ) (info : Info ℝ)
    (r1' r2' : Reverb ℝ) (o1 o2 : List (Frame ℝ))
    (h1 : r1.process x1 dt info = .ok (r1', o1)) (h2 : r2.process x2 dt info = .ok (r2', o2)) :
    (plus r1 r2).process (fadd x1 x2) dt info = .ok (plus r1' r2', fadd o1 o2)
      ∧ SameControls r1' r2'
      ∧ ∃ l1' l2', r1'.state = some l1' ∧ r2'.state = some l2' ∧ ReverbLines.Compat l1' l2' := by
  obtain ⟨e1, e2, e3, e4, e5, e6, e7, e8⟩ := hsame
  have hlen : (fadd x1 x2).length = x1.length := by simp [hx]
  unfold process at h1 h2 ⊢
  simp only [plus, hs1, hs2, hlen] at h1 h2 ⊢
  rw [← e1, ← e2, ← e3, ← e4, ← hx] at h2
  split at h1
  · cases h1
  · rename_i l1' out1 c1
    split at h2
    · cases h2
    · rename_i l2' out2 c2
      obtain ⟨f1, f2⟩ := frames_add _ _ _ _ _ x1 x2 0 l1 l2 _ _ hx hc c1 c2
      rw [f1]
      cases h1
      cases h2
      exact ⟨rfl, ⟨rfl, rfl, rfl, rfl, e5, e6, e7, e8⟩, l1', l2', rfl, rfl, f2⟩

/-- a reverb with every slot scaled by `k` -/
noncomputable def times (k : ℝ) (r : Reverb ℝ) : Reverb ℝ :=
  { r with state := r.state.map (ReverbLines.smul k) }

theorem process_smul (k : ℝ) (r : Reverb ℝ) (x : List (Frame ℝ)) (dt : ℝ) (info : Info ℝ)
    (r' : Reverb ℝ) (o : List (Frame ℝ)) (h : r.process x dt info = .ok (r', o)) :
    (times k r).process (fsmul k x) dt info = .ok (times k r', fsmul k o) := by
  have hlen : (fsmul k x).length = x.length := by simp
  unfold process at h ⊢
  cases hs : r.state with
  | none => rw [hs] at h; cases h
  | some l =>
    rw [hs] at h
    simp only [times, hs, Option.map_some, hlen] at h ⊢
    split at h
    · cases h
    · rename_i l' out c1
      rw [frames_smul k _ _ _ _ _ x 0 l _ c1]
      cases h
      rfl

end Reverb
end K
