/-
  EffectsBFrame.lean — frames over ℝ as a module, the wet/dry blend, stagnant parameters.
  Helper lemmas for the delay / reverb theorems (C13_b, C14_b).
-/
import KiraModel.Proofs.ParameterLemmas
import KiraModel.Model.Effects.Reverb

namespace K

@[ext] theorem Frame.ext' {a b : Frame ℝ} (h1 : a.left = b.left) (h2 : a.right = b.right) : a = b := by
  cases a; cases b; simp_all

@[simp] theorem FrameB.add_left (a b : Frame ℝ) : (Frame.add a b).left = a.left + b.left := rfl
@[simp] theorem FrameB.add_right (a b : Frame ℝ) : (Frame.add a b).right = a.right + b.right := rfl
@[simp] theorem FrameB.scale_left (a : Frame ℝ) (k : ℝ) : (a.scale k).left = a.left * k := rfl
@[simp] theorem FrameB.scale_right (a : Frame ℝ) (k : ℝ) : (a.scale k).right = a.right * k := rfl
@[simp] theorem FrameB.zero_left : (Frame.zero : Frame ℝ).left = 0 := by simp [Frame.zero]
@[simp] theorem FrameB.zero_right : (Frame.zero : Frame ℝ).right = 0 := by simp [Frame.zero]

theorem FrameB.add_zero (a : Frame ℝ) : Frame.add a Frame.zero = a := by ext <;> simp
theorem FrameB.zero_add (a : Frame ℝ) : Frame.add Frame.zero a = a := by ext <;> simp
theorem FrameB.zero_scale (k : ℝ) : (Frame.zero : Frame ℝ).scale k = Frame.zero := by ext <;> simp
theorem FrameB.scale_zero (a : Frame ℝ) : a.scale 0 = Frame.zero := by ext <;> simp
theorem FrameB.scale_one (a : Frame ℝ) : a.scale 1 = a := by ext <;> simp
theorem FrameB.add_comm (a b : Frame ℝ) : Frame.add a b = Frame.add b a := by ext <;> simp [_root_.add_comm]
theorem FrameB.add_assoc (a b c : Frame ℝ) : Frame.add (Frame.add a b) c = Frame.add a (Frame.add b c) := by
  ext <;> simp [_root_.add_assoc]
theorem FrameB.add_scale (a b : Frame ℝ) (k : ℝ) : (Frame.add a b).scale k = Frame.add (a.scale k) (b.scale k) := by
  ext <;> simp [_root_.add_mul]
theorem FrameB.scale_scale (a : Frame ℝ) (k l : ℝ) : (a.scale k).scale l = a.scale (k * l) := by
  ext <;> simp [_root_.mul_assoc]
theorem FrameB.scale_comm (a : Frame ℝ) (k l : ℝ) : (a.scale k).scale l = (a.scale l).scale k := by
  ext <;> simp <;> ring

namespace LineFx

/-- the blend coefficients over ℝ -/
theorem blend_real (w d : Frame ℝ) (m : ℝ) :
    blend w d m = Frame.add (w.scale (Real.sqrt m)) (d.scale (Real.sqrt (1 - m))) := by
  simp [blend]

/-- fully dry: the blend returns the dry frame -/
theorem blend_dry (w d : Frame ℝ) : blend w d 0 = d := by
  rw [blend_real]; ext <;> simp

/-- fully wet: the blend returns the wet frame -/
theorem blend_wet (w d : Frame ℝ) : blend w d 1 = w := by
  rw [blend_real]; ext <;> simp

theorem blend_zero (m : ℝ) : blend (Frame.zero : Frame ℝ) Frame.zero m = Frame.zero := by
  rw [blend_real]; ext <;> simp

theorem blend_add (w1 w2 d1 d2 : Frame ℝ) (m : ℝ) :
    blend (Frame.add w1 w2) (Frame.add d1 d2) m = Frame.add (blend w1 d1 m) (blend w2 d2 m) := by
  simp only [blend_real]; ext <;> simp <;> ring

theorem blend_scale (w d : Frame ℝ) (m c : ℝ) :
    blend (w.scale c) (d.scale c) m = (blend w d m).scale c := by
  simp only [blend_real]; ext <;> simp <;> ring

end LineFx

/-! ### stagnant parameters: after `update` every interpolated value is the raw value -/

namespace Parameter

theorem update_stagnant_fst {τ : Type} (tw : Tweenable ℝ τ) (p : Parameter ℝ τ) (dt : ℝ) (info : Info ℝ)
    (h : p.stagnant = true) : (p.update tw dt info).1 = { p with prev := p.raw } := by
  rw [update_stagnant tw p dt info h]

/-- a parameter whose previous and current raw values coincide interpolates to that value -/
theorem interp_const32 (p : Parameter ℝ ℝ) (h : p.prev = p.raw) (t : ℝ) :
    p.interpolatedValue tw32 t = p.raw := by
  simp [interpolatedValue, tw32, lerp32, h]

theorem interp_const64 (p : Parameter ℝ ℝ) (h : p.prev = p.raw) (t : ℝ) :
    p.interpolatedValue tw64 t = p.raw := by
  simp [interpolatedValue, tw64, lerp64, h]

end Parameter

/-- the parameter after an update of a stagnant parameter -/
def Parameter.settle {τ : Type} (p : Parameter ℝ τ) : Parameter ℝ τ := { p with prev := p.raw }

@[simp] theorem Parameter.settle_prev {τ : Type} (p : Parameter ℝ τ) : p.settle.prev = p.raw := rfl
@[simp] theorem Parameter.settle_raw {τ : Type} (p : Parameter ℝ τ) : p.settle.raw = p.raw := rfl
@[simp] theorem Parameter.settle_stagnant {τ : Type} (p : Parameter ℝ τ) : p.settle.stagnant = p.stagnant := rfl
@[simp] theorem Parameter.settle_settle {τ : Type} (p : Parameter ℝ τ) : p.settle.settle = p.settle := rfl

namespace LineFx

theorem mixAt_settled (p : Parameter ℝ ℝ) (n i : ℕ) : mixAt p.settle n i = clamp p.raw 0 1 := by
  have h : p.settle.prev = p.settle.raw := rfl
  simp [mixAt, Parameter.interp_const32 _ h]

theorem mixAt_dry (p : Parameter ℝ ℝ) (h : p.raw ≤ 0) (n i : ℕ) : mixAt p.settle n i = 0 := by
  rw [mixAt_settled]
  unfold clamp
  by_cases h0 : p.raw < 0
  · simp [h0]
  · have : p.raw = 0 := le_antisymm h (not_lt.mp h0)
    simp [this]

end LineFx

end K
