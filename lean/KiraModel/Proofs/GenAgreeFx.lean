/-
  GenAgreeFx.lean — agreement of the GENERATED layer (KiraModel/Gen.lean, KiraModel/GenFn.lean; regenerated from
  the Rust source by tools/gen_lean.py on every check run) with the hand-written model of the effects.  See Proofs/GenAgree.lean for how these theorems are used.  Imports the model only.
-/
import KiraModel.Model.Effects.Filter
import KiraModel.Model.Effects.EqFilter
import KiraModel.Model.Effects.Compressor
import KiraModel.Model.Effects.Distortion
import KiraModel.Model.Effects.VolumeControl
import KiraModel.Model.Effects.PanningControl

set_option linter.unusedSectionVars false

namespace K

variable {α : Type} [Add α] [Sub α] [Mul α] [Div α] [Neg α] [LT α] [LE α]
  [DecidableLT α] [DecidableLE α] [OfScientific α] [KOps α]

/-! ### filter -/

/-- the coefficient lines of `Filter::process` (clamp to [0.0001, 0.5] of the sample rate, `k = 2 − 1.9·resonance`) -/
theorem Gen.filterCoefs_eq (cutoff resonance dt : α) :
    Gen.filterCoefs cutoff resonance dt = Filter.coefs cutoff resonance dt := rfl

/-- `Filter::new`: default raw values 1000 Hz, resonance 0, fully wet -/
theorem Gen.filterDefaults_eq (mode : FilterMode) (c r m : Value α α) :
    (Filter.new mode c r m).cutoff = Parameter.new c Gen.filterDefaultCutoff
    ∧ (Filter.new mode c r m).resonance = Parameter.new r Gen.filterDefaultResonance
    ∧ (Filter.new mode c r m).mix = Parameter.new m Gen.filterDefaultMix := ⟨rfl, rfl, rfl⟩

/-! ### EQ filter -/

theorem Gen.eqFilterMinQ_eq : (Gen.eqFilterMinQ : α) = eqMinQ := rfl

/-- `Coefficients::calculate`, all three kinds -/
theorem Gen.eqCoefficientsCalculate_eq (kind : EqFilterKind) (frequency q gain dt : α) :
    Gen.eqCoefficientsCalculate kind frequency q gain dt = EqCoefs.calculate kind frequency q gain dt := by
  cases kind <;> rfl

theorem Gen.eqFilterDefaults_eq (kind : EqFilterKind) (f g q : Value α α) :
    (EqFilter.new kind f g q).frequency = Parameter.new f Gen.eqFilterDefaultFrequency
    ∧ (EqFilter.new kind f g q).gain = Parameter.new g Gen.eqFilterDefaultGain
    ∧ (EqFilter.new kind f g q).q = Parameter.new q Gen.eqFilterDefaultQ := ⟨rfl, rfl, rfl⟩

/-! ### compressor, distortion, volume / panning control -/

theorem Gen.compressorDefaults_eq (t r : Value α α) (a rl : Value α Nat) (mk mx : Value α α) :
    (Compressor.new t r a rl mk mx).threshold = Parameter.new t Gen.compressorDefaultThreshold
    ∧ (Compressor.new t r a rl mk mx).ratio = Parameter.new r Gen.compressorDefaultRatio
    ∧ (Compressor.new t r a rl mk mx).attackDuration = Parameter.new a Gen.compressorDefaultAttackNs
    ∧ (Compressor.new t r a rl mk mx).releaseDuration = Parameter.new rl Gen.compressorDefaultReleaseNs
    ∧ (Compressor.new t r a rl mk mx).makeupGain = Parameter.new mk Gen.compressorDefaultMakeupGain
    ∧ (Compressor.new t r a rl mk mx).mix = Parameter.new mx Gen.compressorDefaultMix := ⟨rfl, rfl, rfl, rfl, rfl, rfl⟩

theorem Gen.distortionDefaults_eq (kind : DistortionKind) (d m : Value α α) :
    (Distortion.new kind d m).drive = Parameter.new d Gen.distortionDefaultDrive
    ∧ (Distortion.new kind d m).mix = Parameter.new m Gen.distortionDefaultMix
    ∧ Gen.distortionDefaultKind = DistortionKind.hardClip := ⟨rfl, rfl, rfl⟩

theorem Gen.volumePanningControlDefaults_eq (v : Value α α) :
    (VolumeControl.new v).volume = Parameter.new v Gen.volumeControlDefault
    ∧ (PanningControl.new v).panning = Parameter.new v Gen.panningControlDefault := ⟨rfl, rfl⟩

/-! ### enum declarations -/

def FilterMode.toTag : FilterMode → Gen.Shape.FilterModeTag
  | .lowPass => .lowPass | .bandPass => .bandPass | .highPass => .highPass | .notch => .notch
def FilterMode.ofTag : Gen.Shape.FilterModeTag → FilterMode
  | .lowPass => .lowPass | .bandPass => .bandPass | .highPass => .highPass | .notch => .notch
theorem FilterMode.tag_roundtrip (m : FilterMode) : FilterMode.ofTag m.toTag = m := by cases m <;> rfl
theorem FilterMode.tag_roundtrip' (t : Gen.Shape.FilterModeTag) : (FilterMode.ofTag t).toTag = t := by cases t <;> rfl
theorem FilterMode.tag_order (m : FilterMode) : m.ctorIdx = m.toTag.ctorIdx := by cases m <;> rfl

def EqFilterKind.toTag : EqFilterKind → Gen.Shape.EqFilterKindTag
  | .bell => .bell | .lowShelf => .lowShelf | .highShelf => .highShelf
def EqFilterKind.ofTag : Gen.Shape.EqFilterKindTag → EqFilterKind
  | .bell => .bell | .lowShelf => .lowShelf | .highShelf => .highShelf
theorem EqFilterKind.tag_roundtrip (m : EqFilterKind) : EqFilterKind.ofTag m.toTag = m := by cases m <;> rfl
theorem EqFilterKind.tag_roundtrip' (t : Gen.Shape.EqFilterKindTag) : (EqFilterKind.ofTag t).toTag = t := by
  cases t <;> rfl
theorem EqFilterKind.tag_order (m : EqFilterKind) : m.ctorIdx = m.toTag.ctorIdx := by cases m <;> rfl

def DistortionKind.toTag : DistortionKind → Gen.Shape.DistortionKindTag
  | .hardClip => .hardClip | .softClip => .softClip
def DistortionKind.ofTag : Gen.Shape.DistortionKindTag → DistortionKind
  | .hardClip => .hardClip | .softClip => .softClip
theorem DistortionKind.tag_roundtrip (m : DistortionKind) : DistortionKind.ofTag m.toTag = m := by cases m <;> rfl
theorem DistortionKind.tag_roundtrip' (t : Gen.Shape.DistortionKindTag) : (DistortionKind.ofTag t).toTag = t := by
  cases t <;> rfl
theorem DistortionKind.tag_order (m : DistortionKind) : m.ctorIdx = m.toTag.ctorIdx := by cases m <;> rfl

end K
