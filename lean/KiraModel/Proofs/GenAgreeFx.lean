/-
  GenAgreeFx.lean — agreement of the GENERATED layer (KiraModel/Gen.lean, KiraModel/GenFn.lean; regenerated from
  the Rust source by tools/gen_lean.py on every check run) with the hand-written model of the effects.  See Proofs/GenAgree.lean for how these theorems are used.  Imports the model only.
-/
import KiraModel.Model.Effects.Filter
import KiraModel.Model.Effects.EqFilter
import KiraModel.Model.Effects.Compressor
import KiraModel.Model.Effects.Distortion
import KiraModel.Model.Effects.VolumeControl
import KiraModel.Model.Effects.PanningControl

set_option linter.unusedSectionVars false

namespace K

variable {α : Type} [Add α] [Sub α] [Mul α] [Div α] [Neg α] [LT α] [LE α]
  [DecidableLT α] [DecidableLE α] [OfScientific α] [KOps α]

/-! ### the pinned readings (see Proofs/GenAgree.lean) -/

namespace Pinned
/-- the coefficient lines of filter.rs::Filter::process (all `f64`) -/
def filterCoefs (cutoff resonance dt : α) : FilterCoefs α :=
  let sampleRate := (1.0 : α) / dt
  let g := KOps.tan (KOps.pi * clamp (cutoff / sampleRate) (0.0001 : α) (0.5 : α))
  let k := (2.0 : α) - ((1.9 : α) * resonance)
  let a1 := (1.0 : α) / ((1.0 : α) + (g * (g + k)))
  let a2 := g * a1
  let a3 := g * a2
  { k := k, a1 := a1, a2 := a2, a3 := a3 }
/-- eq_filter.rs::Coefficients::calculate (`gain` is the `f32` decibel value; `MIN_Q` = 0.01) -/
def eqCalculate (kind : EqFilterKind) (frequency q gain dt : α) : EqCoefs α :=
  let relativeFrequency := clamp (frequency * dt) (0.0001 : α) (0.5 : α)
  let q := fmax q (0.01 : α)
  match kind with
  | .bell =>
    let a := KOps.pow (10.0 : α) (gain / (40.0 : α))
    let g := KOps.tan (KOps.pi * relativeFrequency)
    let k := (1.0 : α) / (q * a)
    let a1 := (1.0 : α) / ((1.0 : α) + g * (g + k))
    let a2 := g * a1
    let a3 := g * a2
    { a1 := a1, a2 := a2, a3 := a3, m0 := (1.0 : α), m1 := k * (a * a - (1.0 : α)), m2 := (0.0 : α) }
  | .lowShelf =>
    let a := KOps.pow (10.0 : α) (gain / (40.0 : α))
    let g := KOps.tan (KOps.pi * relativeFrequency) / KOps.sqrt a
    let k := (1.0 : α) / q
    let a1 := (1.0 : α) / ((1.0 : α) + g * (g + k))
    let a2 := g * a1
    let a3 := g * a2
    { a1 := a1, a2 := a2, a3 := a3, m0 := (1.0 : α), m1 := k * (a - (1.0 : α)), m2 := a * a - (1.0 : α) }
  | .highShelf =>
    let a := KOps.pow (10.0 : α) (gain / (40.0 : α))
    let g := KOps.tan (KOps.pi * relativeFrequency) * KOps.sqrt a
    let k := (1.0 : α) / q
    let a1 := (1.0 : α) / ((1.0 : α) + g * (g + k))
    let a2 := g * a1
    let a3 := g * a2
    { a1 := a1, a2 := a2, a3 := a3, m0 := a * a, m1 := k * ((1.0 : α) - a) * a, m2 := (1.0 : α) - a * a }

end Pinned

/-! ### filter -/

/-- the coefficient lines of `Filter::process` (clamp to [0.0001, 0.5] of the sample rate, `k = 2 − 1.9·resonance`) -/
theorem Gen.filterCoefs_eq (cutoff resonance dt : α) :
    Gen.filterCoefs cutoff resonance dt = Pinned.filterCoefs cutoff resonance dt
    ∧ Filter.coefs cutoff resonance dt = Pinned.filterCoefs cutoff resonance dt := ⟨rfl, rfl⟩

/-- `Filter::new`: default raw values 1000 Hz, resonance 0, fully wet -/
theorem Gen.filterDefaults_eq (mode : FilterMode) (c r m : Value α α) :
    (Gen.filterDefaultCutoff : α) = (1000.0 : α) ∧ (Gen.filterDefaultResonance : α) = (0.0 : α)
    ∧ (Gen.filterDefaultMix : α) = (1.0 : α)
    ∧ (Filter.new mode c r m).cutoff = Parameter.new c (1000.0 : α)
    ∧ (Filter.new mode c r m).resonance = Parameter.new r (0.0 : α)
    ∧ (Filter.new mode c r m).mix = Parameter.new m (1.0 : α) := ⟨rfl, rfl, rfl, rfl, rfl, rfl⟩

/-! ### EQ filter -/

theorem Gen.eqFilterMinQ_eq : (Gen.eqFilterMinQ : α) = (0.01 : α) ∧ (eqMinQ : α) = (0.01 : α) := ⟨rfl, rfl⟩

/-- `Coefficients::calculate`, all three kinds -/
theorem Gen.eqCoefficientsCalculate_eq (kind : EqFilterKind) (frequency q gain dt : α) :
    Gen.eqCoefficientsCalculate kind frequency q gain dt = Pinned.eqCalculate kind frequency q gain dt
    ∧ EqCoefs.calculate kind frequency q gain dt = Pinned.eqCalculate kind frequency q gain dt := by
  cases kind <;> exact ⟨rfl, rfl⟩

theorem Gen.eqFilterDefaults_eq (kind : EqFilterKind) (f g q : Value α α) :
    (Gen.eqFilterDefaultFrequency : α) = (500.0 : α) ∧ (Gen.eqFilterDefaultGain : α) = (0.0 : α)
    ∧ (Gen.eqFilterDefaultQ : α) = (1.0 : α)
    ∧ (EqFilter.new kind f g q).frequency = Parameter.new f (500.0 : α)
    ∧ (EqFilter.new kind f g q).gain = Parameter.new g (0.0 : α)
    ∧ (EqFilter.new kind f g q).q = Parameter.new q (1.0 : α) := ⟨rfl, rfl, rfl, rfl, rfl, rfl⟩

/-! ### compressor, distortion, volume / panning control -/

theorem Gen.compressorDefaults_eq (t r : Value α α) (a rl : Value α Nat) (mk mx : Value α α) :
    (Gen.compressorDefaultThreshold : α) = (0.0 : α) ∧ (Gen.compressorDefaultRatio : α) = (1.0 : α)
    ∧ Gen.compressorDefaultAttackNs = 10000000 ∧ Gen.compressorDefaultReleaseNs = 100000000
    ∧ (Gen.compressorDefaultMakeupGain : α) = (0.0 : α) ∧ (Gen.compressorDefaultMix : α) = (1.0 : α)
    ∧ (Compressor.new t r a rl mk mx).threshold = Parameter.new t (0.0 : α)
    ∧ (Compressor.new t r a rl mk mx).ratio = Parameter.new r (1.0 : α)
    ∧ (Compressor.new t r a rl mk mx).attackDuration = Parameter.new a 10000000
    ∧ (Compressor.new t r a rl mk mx).releaseDuration = Parameter.new rl 100000000
    ∧ (Compressor.new t r a rl mk mx).makeupGain = Parameter.new mk (0.0 : α)
    ∧ (Compressor.new t r a rl mk mx).mix = Parameter.new mx (1.0 : α) :=
  ⟨rfl, rfl, rfl, rfl, rfl, rfl, rfl, rfl, rfl, rfl, rfl, rfl⟩

theorem Gen.distortionDefaults_eq (kind : DistortionKind) (d m : Value α α) :
    (Gen.distortionDefaultDrive : α) = (0.0 : α) ∧ (Gen.distortionDefaultMix : α) = (1.0 : α)
    ∧ Gen.distortionDefaultKind = DistortionKind.hardClip
    ∧ (Distortion.new kind d m).drive = Parameter.new d (0.0 : α)
    ∧ (Distortion.new kind d m).mix = Parameter.new m (1.0 : α) := ⟨rfl, rfl, rfl, rfl, rfl⟩

theorem Gen.volumePanningControlDefaults_eq (v : Value α α) :
    (Gen.volumeControlDefault : α) = (0.0 : α) ∧ (Gen.panningControlDefault : α) = (0.0 : α)
    ∧ (VolumeControl.new v).volume = Parameter.new v (0.0 : α)
    ∧ (PanningControl.new v).panning = Parameter.new v (0.0 : α) := ⟨rfl, rfl, rfl, rfl⟩

/-! ### enum declarations -/

def FilterMode.toTag : FilterMode → Gen.Shape.FilterModeTag
  | .lowPass => .lowPass | .bandPass => .bandPass | .highPass => .highPass | .notch => .notch
def FilterMode.ofTag : Gen.Shape.FilterModeTag → FilterMode
  | .lowPass => .lowPass | .bandPass => .bandPass | .highPass => .highPass | .notch => .notch
theorem FilterMode.tag_roundtrip (m : FilterMode) : FilterMode.ofTag m.toTag = m := by cases m <;> rfl
theorem FilterMode.tag_roundtrip' (t : Gen.Shape.FilterModeTag) : (FilterMode.ofTag t).toTag = t := by cases t <;> rfl
theorem FilterMode.tag_order (m : FilterMode) : m.ctorIdx = m.toTag.ctorIdx := by cases m <;> rfl

def EqFilterKind.toTag : EqFilterKind → Gen.Shape.EqFilterKindTag
  | .bell => .bell | .lowShelf => .lowShelf | .highShelf => .highShelf
def EqFilterKind.ofTag : Gen.Shape.EqFilterKindTag → EqFilterKind
  | .bell => .bell | .lowShelf => .lowShelf | .highShelf => .highShelf
theorem EqFilterKind.tag_roundtrip (m : EqFilterKind) : EqFilterKind.ofTag m.toTag = m := by cases m <;> rfl
theorem EqFilterKind.tag_roundtrip' (t : Gen.Shape.EqFilterKindTag) : (EqFilterKind.ofTag t).toTag = t := by
  cases t <;> rfl
theorem EqFilterKind.tag_order (m : EqFilterKind) : m.ctorIdx = m.toTag.ctorIdx := by cases m <;> rfl

def DistortionKind.toTag : DistortionKind → Gen.Shape.DistortionKindTag
  | .hardClip => .hardClip | .softClip => .softClip
def DistortionKind.ofTag : Gen.Shape.DistortionKindTag → DistortionKind
  | .hardClip => .hardClip | .softClip => .softClip
theorem DistortionKind.tag_roundtrip (m : DistortionKind) : DistortionKind.ofTag m.toTag = m := by cases m <;> rfl
theorem DistortionKind.tag_roundtrip' (t : Gen.Shape.DistortionKindTag) : (DistortionKind.ofTag t).toTag = t := by
  cases t <;> rfl
theorem DistortionKind.tag_order (m : DistortionKind) : m.ctorIdx = m.toTag.ctorIdx := by cases m <;> rfl

end K
