/-
  GenAgreeSpatial.lean — agreement of the GENERATED layer (KiraModel/GenFn.lean; regenerated from the Rust source
  by tools/gen_lean.py on every check run) with the hand-written model of spatial tracks.
  See Proofs/GenAgree.lean for how these theorems are used.  Imports the model only.
-/
import KiraModel.Model.Spatial

set_option linter.unusedSectionVars false

namespace K

variable {α : Type} [Add α] [Sub α] [Mul α] [Div α] [Neg α] [LT α] [LE α]
  [DecidableLT α] [DecidableLE α] [OfScientific α] [KOps α]

/-! ### spatial tracks -/

/-- `EAR_DISTANCE` = 0.1 (f32), `EAR_ANGLE_FROM_HEAD` = π/8 (f32) of track/sub.rs; the default spatialization
    strength 0.75 -/
theorem Gen.earConstants_eq : (Gen.earDistance : α) = lit32 (0.1 : α) ∧ (earDistance : α) = lit32 (0.1 : α)
    ∧ (Gen.earAngleFromHead : α) = KOps.r32 (pi32 / (8.0 : α)) ∧ (earAngle : α) = KOps.r32 (pi32 / (8.0 : α))
    ∧ KOps.r32 (Gen.spatialDefaultSpatializationStrength : α) = lit32 (0.75 : α) := ⟨rfl, rfl, rfl, rfl, rfl⟩

end K
