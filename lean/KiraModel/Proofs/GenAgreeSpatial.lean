/-
  GenAgreeSpatial.lean — agreement of the GENERATED layer (KiraModel/GenFn.lean; regenerated from the Rust source
  by tools/gen_lean.py on every check run) with the hand-written model of spatial tracks.
  See Proofs/GenAgree.lean for how these theorems are used.  Imports the model only.
-/
import KiraModel.Model.Spatial

set_option linter.unusedSectionVars false

namespace K

variable {α : Type} [Add α] [Sub α] [Mul α] [Div α] [Neg α] [LT α] [LE α]
  [DecidableLT α] [DecidableLE α] [OfScientific α] [KOps α]

/-! ### spatial tracks -/

/-- `EAR_DISTANCE`, `EAR_ANGLE_FROM_HEAD` of track/sub.rs; the default spatialization strength -/
theorem Gen.earConstants_eq : (Gen.earDistance : α) = earDistance ∧ (Gen.earAngleFromHead : α) = earAngle
    ∧ KOps.r32 (Gen.spatialDefaultSpatializationStrength : α) = lit32 (0.75 : α) := ⟨rfl, rfl, rfl⟩

end K
