/-
  Helper lemmas: eq_filter.rs with parameters at rest is a fold of one fixed linear transition.
-/
import KiraModel.Proofs.EffectsAFilter
import KiraModel.Model.Effects.EqFilter

namespace K
namespace EqFilter

/-- no EQ parameter is tweening or modulator-linked -/
def Stagnant (s : EqFilter ℝ) : Prop := s.frequency.Stagnant ∧ s.gain.Stagnant ∧ s.q.Stagnant

/-- what `process` does to the parameters when they are at rest -/
def settle (s : EqFilter ℝ) : EqFilter ℝ :=
  { s with
    frequency := { s.frequency with prev := s.frequency.raw }
    gain := { s.gain with prev := s.gain.raw }
    q := { s.q with prev := s.q.raw } }

/-- replace the integrator pair -/
def withState (s : EqFilter ℝ) (v : Frame ℝ × Frame ℝ) : EqFilter ℝ := { s with ic1eq := v.1, ic2eq := v.2 }

/-- the per-frame transition on the integrator pair for the resting parameter values -/
noncomputable def tickV (s : EqFilter ℝ) (dt : ℝ) (v : Frame ℝ × Frame ℝ) (f : Frame ℝ) :
    (Frame ℝ × Frame ℝ) × Frame ℝ :=
  let r := tick s.kind s.frequency.raw s.q.raw s.gain.raw dt v.1 v.2 f
  ((r.1, r.2.1), r.2.2)

theorem settle_stagnant (s : EqFilter ℝ) (h : s.Stagnant) : (settle s).Stagnant := h
theorem withState_stagnant (s : EqFilter ℝ) (v : Frame ℝ × Frame ℝ) (h : s.Stagnant) :
    (withState s v).Stagnant := h
theorem settle_withState (s : EqFilter ℝ) (v : Frame ℝ × Frame ℝ) :
    settle (withState s v) = withState (settle s) v := rfl
theorem settle_idem (s : EqFilter ℝ) : settle (settle s) = settle s := rfl
theorem tickV_settle (s : EqFilter ℝ) (dt : ℝ) : tickV (settle s) dt = tickV s dt := rfl
theorem tickV_withState (s : EqFilter ℝ) (v : Frame ℝ × Frame ℝ) (dt : ℝ) :
    tickV (withState s v) dt = tickV s dt := rfl

/-- with the parameters at rest, `process` is the fold of `tickV` over the input -/
theorem process_stagnant (s : EqFilter ℝ) (h : s.Stagnant) (xs : List (Frame ℝ)) (dt : ℝ) (info : Info ℝ) :
    process s xs dt info
      = (withState (settle s) (runTick (tickV s dt) (s.ic1eq, s.ic2eq) xs).1,
         (runTick (tickV s dt) (s.ic1eq, s.ic2eq) xs).2) := by
  obtain ⟨hf, hg, hq⟩ := h
  unfold process
  simp only [Parameter.settleA tw64 s.frequency _ info hf, Parameter.settleA tw32 s.gain _ info hg,
    Parameter.settleA tw64 s.q _ info hq]
  have hinj : ({ s with
      frequency := { s.frequency with prev := s.frequency.raw }
      gain := { s.gain with prev := s.gain.raw }
      q := { s.q with prev := s.q.raw } } : EqFilter ℝ) = withState (settle s) (s.ic1eq, s.ic2eq) := rfl
  rw [hinj]
  apply frameLoop_fold (body dt) (tickV s dt) (withState (settle s))
  intro t v f
  have h1 := Parameter.settled_interp64 _ t (Parameter.settle_settled s.frequency hf)
  have h2 := Parameter.settled_interp32 _ t (Parameter.settle_settled s.gain hg)
  have h3 := Parameter.settled_interp64 _ t (Parameter.settle_settled s.q hq)
  simp only [body, withState, settle, h1, h2, h3, tickV]

theorem tickV_add (s : EqFilter ℝ) (dt : ℝ) (v w : Frame ℝ × Frame ℝ) (f g : Frame ℝ) :
    tickV s dt (v + w) (f + g)
      = ((tickV s dt v f).1 + (tickV s dt w g).1, (tickV s dt v f).2 + (tickV s dt w g).2) := by
  unfold tickV tick
  simp only [svfTick_real]
  refine Prod.ext (Prod.ext ?_ ?_) ?_
  · ext <;> simp <;> ring
  · ext <;> simp <;> ring
  · ext <;> simp <;> ring

theorem tickV_smul (s : EqFilter ℝ) (dt c : ℝ) (v : Frame ℝ × Frame ℝ) (f : Frame ℝ) :
    tickV s dt (c • v) (c • f) = (c • (tickV s dt v f).1, c • (tickV s dt v f).2) := by
  unfold tickV tick
  simp only [svfTick_real]
  refine Prod.ext (Prod.ext ?_ ?_) ?_
  · ext <;> simp <;> ring
  · ext <;> simp <;> ring
  · ext <;> simp <;> ring

end EqFilter
end K
