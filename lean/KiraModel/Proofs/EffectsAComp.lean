/-
  Helper lemmas: compressor.rs with parameters at rest is a fold of one fixed transition on the
  pair of envelope followers.
-/
import KiraModel.Proofs.EffectsACommon
import KiraModel.Model.Effects.Compressor

namespace K
namespace Compressor

/-- no compressor parameter is tweening or modulator-linked -/
def Stagnant (s : Compressor ℝ) : Prop :=
  s.threshold.Stagnant ∧ s.ratio.Stagnant ∧ s.attackDuration.Stagnant ∧ s.releaseDuration.Stagnant
    ∧ s.makeupGain.Stagnant ∧ s.mix.Stagnant

/-- what `process` does to the parameters when they are at rest -/
def settle (s : Compressor ℝ) : Compressor ℝ :=
  { s with
    threshold := { s.threshold with prev := s.threshold.raw }
    ratio := { s.ratio with prev := s.ratio.raw }
    attackDuration := { s.attackDuration with prev := s.attackDuration.raw }
    releaseDuration := { s.releaseDuration with prev := s.releaseDuration.raw }
    makeupGain := { s.makeupGain with prev := s.makeupGain.raw }
    mix := { s.mix with prev := s.mix.raw } }

/-- replace the envelope followers -/
def withState (s : Compressor ℝ) (v : ℝ × ℝ) : Compressor ℝ := { s with envL := v.1, envR := v.2 }

/-- the per-frame transition on the envelope pair for the resting parameter values -/
noncomputable def tickV (s : Compressor ℝ) (dt : ℝ) (v : ℝ × ℝ) (f : Frame ℝ) : (ℝ × ℝ) × Frame ℝ :=
  let r := tick s.threshold.raw s.ratio.raw s.attackDuration.raw s.releaseDuration.raw s.makeupGain.raw
    (clamp s.mix.raw (0.0 : ℝ) (1.0 : ℝ)) dt v.1 v.2 f
  ((r.envL, r.envR), r.out)

theorem settle_stagnant (s : Compressor ℝ) (h : s.Stagnant) : (settle s).Stagnant := h
theorem withState_stagnant (s : Compressor ℝ) (v : ℝ × ℝ) (h : s.Stagnant) : (withState s v).Stagnant := h
theorem settle_withState (s : Compressor ℝ) (v : ℝ × ℝ) : settle (withState s v) = withState (settle s) v := rfl
theorem settle_idem (s : Compressor ℝ) : settle (settle s) = settle s := rfl
theorem tickV_settle (s : Compressor ℝ) (dt : ℝ) : tickV (settle s) dt = tickV s dt := rfl
theorem tickV_withState (s : Compressor ℝ) (v : ℝ × ℝ) (dt : ℝ) : tickV (withState s v) dt = tickV s dt := rfl

/-- with the parameters at rest, `process` is the fold of `tickV` over the input -/
theorem process_stagnant (s : Compressor ℝ) (h : s.Stagnant) (xs : List (Frame ℝ)) (dt : ℝ) (info : Info ℝ) :
    process s xs dt info
      = (withState (settle s) (runTick (tickV s dt) (s.envL, s.envR) xs).1,
         (runTick (tickV s dt) (s.envL, s.envR) xs).2) := by
  obtain ⟨ht, hr, ha, hl, hg, hm⟩ := h
  unfold process
  simp only [Parameter.settleA tw64 s.threshold _ info ht, Parameter.settleA tw64 s.ratio _ info hr,
    Parameter.settleA twDur s.attackDuration _ info ha, Parameter.settleA twDur s.releaseDuration _ info hl,
    Parameter.settleA tw32 s.makeupGain _ info hg, Parameter.settleA tw32 s.mix _ info hm]
  have hinj : ({ s with
      threshold := { s.threshold with prev := s.threshold.raw }
      ratio := { s.ratio with prev := s.ratio.raw }
      attackDuration := { s.attackDuration with prev := s.attackDuration.raw }
      releaseDuration := { s.releaseDuration with prev := s.releaseDuration.raw }
      makeupGain := { s.makeupGain with prev := s.makeupGain.raw }
      mix := { s.mix with prev := s.mix.raw } } : Compressor ℝ) = withState (settle s) (s.envL, s.envR) := rfl
  rw [hinj]
  apply frameLoop_fold (body dt) (tickV s dt) (withState (settle s))
  intro t v f
  have h1 := Parameter.settled_interp32 _ t (Parameter.settle_settled s.makeupGain hg)
  have h2 := Parameter.settled_interp32 _ t (Parameter.settle_settled s.mix hm)
  simp only [body, withState, settle, h1, h2, tickV, Parameter.value, r32_real]

end Compressor
end K

namespace K
namespace Compressor

/-- the envelope update over ℝ -/
theorem follow_real (a r : ℕ) (dt over env : ℝ) :
    follow a r dt over env = over + speed (if over < env then r else a) dt * (env - over) := by
  unfold follow; simp only [r32_real]

/-- the gain slope over ℝ: `1/ratio − 1` decibels per decibel over the threshold, and 0 (no change of the
    dynamics, like a ratio of 1) for a ratio of 0 — the guard the code has since the repair -/
theorem slope_real (ratio : ℝ) : slope ratio = if ratio = 0 then 0 else 1 / ratio - 1 := by
  unfold slope
  by_cases h : ratio = 0
  · simp [h]
  · simp [h]

theorem slope_zero : slope (0 : ℝ) = 0 := by rw [slope_real]; simp

theorem slope_of_ne_zero (ratio : ℝ) (h : ratio ≠ 0) : slope ratio = 1 / ratio - 1 := by
  rw [slope_real]; simp [h]

/-- **one-step contraction**: the distance of the envelope from its target shrinks by exactly the
    smoothing factor of the side it is on (release above the target, attack below) -/
theorem follow_error (a r : ℕ) (dt over env : ℝ) :
    follow a r dt over env - over = speed (if over < env then r else a) dt * (env - over) := by
  rw [follow_real]; ring

theorem speed_pos_dur (D : ℕ) (dt : ℝ) (hD : D ≠ 0) : speed D dt = Real.exp (-1 / ((durToSecs D : ℝ) / dt)) := by
  simp only [speed, hD, if_false, exp_real, lit_1]

theorem speed_mem (D : ℕ) (dt : ℝ) (hdt : 0 < dt) : 0 ≤ speed D dt ∧ speed D dt < 1 := by
  by_cases hD : D = 0
  · subst hD; simp [speed]
  · rw [speed_pos_dur D dt hD]
    have hs : 0 < (durToSecs D : ℝ) := durToSecs_pos D (Nat.pos_of_ne_zero hD)
    have : 0 < 1 / ((durToSecs D : ℝ) / dt) := by positivity
    have e : -1 / ((durToSecs D : ℝ) / dt) = -(1 / ((durToSecs D : ℝ) / dt)) := by ring
    have hneg : -1 / ((durToSecs D : ℝ) / dt) < 0 := by rw [e]; linarith
    refine ⟨(Real.exp_pos _).le, ?_⟩
    calc Real.exp (-1 / ((durToSecs D : ℝ) / dt)) < Real.exp 0 := Real.exp_lt_exp.mpr hneg
      _ = 1 := Real.exp_zero

/-- the documented time constant: for a positive duration the factor is `exp(-dt / duration)` -/
theorem speed_eq_exp (D : ℕ) (dt : ℝ) (hD : 0 < D) :
    speed D dt = Real.exp (-(dt / ((D : ℝ) / 1000000000))) := by
  rw [speed_pos_dur D dt (Nat.pos_iff_ne_zero.mp hD), durToSecs_real]
  congr 1
  by_cases hdt : dt = 0
  · subst hdt; simp
  · have : (D : ℝ) ≠ 0 := by exact_mod_cast (Nat.pos_iff_ne_zero.mp hD)
    field_simp

/-- attack side, any partition of time into frames: from an envelope at or below a constant
    target the error after `n` frames is the initial error times `speed(attack)^n` -/
theorem follow_iter_attack (a r : ℕ) (dt : ℝ) (hdt : 0 < dt) (over env0 : ℝ) (h0 : env0 ≤ over) (n : ℕ) :
    (follow a r dt over)^[n] env0 = over + speed a dt ^ n * (env0 - over) := by
  induction n with
  | zero => simp
  | succ n ih =>
    rw [Function.iterate_succ_apply', ih, follow_real]
    have hs := speed_mem a dt hdt
    have hle : ¬ over < over + speed a dt ^ n * (env0 - over) := by
      have : speed a dt ^ n * (env0 - over) ≤ 0 :=
        mul_nonpos_of_nonneg_of_nonpos (pow_nonneg hs.1 n) (by linarith)
      linarith
    simp only [hle, if_false]
    ring

/-- release side: from an envelope above a constant target the error after `n` frames is the
    initial error times `speed(release)^n` -/
theorem follow_iter_release (a r : ℕ) (dt : ℝ) (hdt : 0 < dt) (over env0 : ℝ) (h0 : over < env0) (n : ℕ) :
    (follow a r dt over)^[n] env0 = over + speed r dt ^ n * (env0 - over) := by
  induction n with
  | zero => simp
  | succ n ih =>
    rw [Function.iterate_succ_apply', ih, follow_real]
    have hs := speed_mem r dt hdt
    by_cases hlt : over < over + speed r dt ^ n * (env0 - over)
    · simp only [hlt, if_true]; ring
    · simp only [hlt, if_false]
      have hnn : 0 ≤ speed r dt ^ n * (env0 - over) := mul_nonneg (pow_nonneg hs.1 n) (by linarith)
      have hz : speed r dt ^ n * (env0 - over) = 0 := le_antisymm (by linarith) hnn
      have hp : speed r dt ^ n = 0 := by
        rcases mul_eq_zero.mp hz with h | h
        · exact h
        · linarith
      rw [pow_succ, hp]; simp

/-- `over_decibels` over ℝ -/
theorem overDecibels_real (thr x : ℝ) (hx : x ≠ 0) :
    overDecibels thr x = max (20 * Real.logb 10 |x| - thr) 0 := by
  unfold overDecibels
  have : |x| ≠ 0 := abs_ne_zero.mpr hx
  simp only [abs_real, feq_real, lit_0, this, decide_false, Bool.false_eq_true, if_false, r32_real,
    log10_real, lit_20, fmax_real]

theorem overDecibels_zero (thr : ℝ) : overDecibels thr 0 = 0 := by
  unfold overDecibels; simp

theorem overDecibels_nonneg (thr x : ℝ) : 0 ≤ overDecibels thr x := by
  by_cases hx : x = 0
  · subst hx; rw [overDecibels_zero]
  · rw [overDecibels_real thr x hx]; exact le_max_right _ _

end Compressor
end K
