/-
  Helper lemmas: compressor.rs with parameters at rest is a fold of one fixed transition on the
  pair of envelope followers.
-/
import KiraModel.Proofs.EffectsACommon
import KiraModel.Model.Effects.Compressor

namespace K
namespace Compressor

/-- no compressor parameter is tweening or modulator-linked -/
def Stagnant (s : Compressor ℝ) : Prop :=
  s.threshold.Stagnant ∧ s.ratio.Stagnant ∧ s.attackDuration.Stagnant ∧ s.releaseDuration.Stagnant
    ∧ s.makeupGain.Stagnant ∧ s.mix.Stagnant

/-- what `process` does to the parameters when they are at rest -/
def settle (s : Compressor ℝ) : Compressor ℝ :=
  { s with
    threshold := { s.threshold with prev := s.threshold.raw }
    ratio := { s.ratio with prev := s.ratio.raw }
    attackDuration := { s.attackDuration with prev := s.attackDuration.raw }
    releaseDuration := { s.releaseDuration with prev := s.releaseDuration.raw }
    makeupGain := { s.makeupGain with prev := s.makeupGain.raw }
    mix := { s.mix with prev := s.mix.raw } }

/-- replace the envelope followers -/
def withState (s : Compressor ℝ) (v : ℝ × ℝ) : Compressor ℝ := { s with envL := v.1, envR := v.2 }

/-- the per-frame transition on the envelope pair for the resting parameter values -/
noncomputable def tickV (s : Compressor ℝ) (dt : ℝ) (v : ℝ × ℝ) (f : Frame ℝ) : (ℝ × ℝ) × Frame ℝ :=
  let r := tick s.threshold.raw s.ratio.raw s.attackDuration.raw s.releaseDuration.raw s.makeupGain.raw
    (clamp s.mix.raw (0.0 : ℝ) (1.0 : ℝ)) dt v.1 v.2 f
  ((r.envL, r.envR), r.out)

theorem settle_stagnant (s : Compressor ℝ) (h : s.Stagnant) : (settle s).Stagnant := h
theorem withState_stagnant (s : Compressor ℝ) (v : ℝ × ℝ) (h : s.Stagnant) : (withState s v).Stagnant := h
theorem settle_withState (s : Compressor ℝ) (v : ℝ × ℝ) : settle (withState s v) = withState (settle s) v := rfl
theorem settle_idem (s : Compressor ℝ) : settle (settle s) = settle s := rfl
theorem tickV_settle (s : Compressor ℝ) (dt : ℝ) : tickV (settle s) dt = tickV s dt := rfl
theorem tickV_withState (s : Compressor ℝ) (v : ℝ × ℝ) (dt : ℝ) : tickV (withState s v) dt = tickV s dt := rfl

/-- with the parameters at rest, `process` is the fold of `tickV` over the input -/
theorem process_stagnant (s : Compressor ℝ) (h : s.Stagnant) (xs : List (Frame ℝ)) (dt : ℝ) (info : Info ℝ) :
    process s xs dt info
      = (withState (settle s) (runTick (tickV s dt) (s.envL, s.envR) xs).1,
         (runTick (tickV s dt) (s.envL, s.envR) xs).2) := by
  obtain ⟨ht, hr, ha, hl, hg, hm⟩ := h
  unfold process
  simp only [Parameter.settle tw64 s.threshold _ info ht, Parameter.settle tw64 s.ratio _ info hr,
    Parameter.settle twDur s.attackDuration _ info ha, Parameter.settle twDur s.releaseDuration _ info hl,
    Parameter.settle tw32 s.makeupGain _ info hg, Parameter.settle tw32 s.mix _ info hm]
  have hinj : ({ s with
      threshold := { s.threshold with prev := s.threshold.raw }
      ratio := { s.ratio with prev := s.ratio.raw }
      attackDuration := { s.attackDuration with prev := s.attackDuration.raw }
      releaseDuration := { s.releaseDuration with prev := s.releaseDuration.raw }
      makeupGain := { s.makeupGain with prev := s.makeupGain.raw }
      mix := { s.mix with prev := s.mix.raw } } : Compressor ℝ) = withState (settle s) (s.envL, s.envR) := rfl
  rw [hinj]
  apply frameLoop_fold (body dt) (tickV s dt) (withState (settle s))
  intro t v f
  have h1 := Parameter.settled_interp32 _ t (Parameter.settle_settled s.makeupGain hg)
  have h2 := Parameter.settled_interp32 _ t (Parameter.settle_settled s.mix hm)
  simp only [body, withState, settle, h1, h2, tickV, Parameter.value, r32_real]

end Compressor
end K
