/-
  EffectsBDelay.lean — the delay line over ℝ with stagnant parameters: sub-chunking by the line length
  equals the per-frame delay line; splitting lemmas.  Helper lemmas for C13_b / C14_b.
-/
import KiraModel.Proofs.EffectsBFrame
import Mathlib.Algebra.Order.Floor.Semifield

namespace K

variable {φ : Type}

/-- what the delay needs from its feedback effects (true of any chain of per-frame effects): `process`
    keeps the slice length and is independent of how the slice is split -/
structure FxChain.Good (C : FxChain ℝ φ) (dt : ℝ) (info : Info ℝ) : Prop where
  len : ∀ s xs, (C.process s xs dt info).2.length = xs.length
  split : ∀ s xs ys, C.process s (xs ++ ys) dt info =
      ((C.process (C.process s xs dt info).1 ys dt info).1,
       (C.process s xs dt info).2 ++ (C.process (C.process s xs dt info).1 ys dt info).2)

namespace Delay
open LineFx

theorem scaleFb_settled (p : Parameter ℝ ℝ) (n : ℕ) (fs : List (Frame ℝ)) (i : ℕ) :
    scaleFb p.settle n i fs = fs.map (fun f => f.scale (asAmplitude p.raw)) := by
  induction fs generalizing i with
  | nil => rfl
  | cons f fs ih =>
    have h : p.settle.prev = p.settle.raw := rfl
    simp [scaleFb, fbAmp, Parameter.interp_const32 _ h, ih]

theorem mixOut_settled (p : Parameter ℝ ℝ) (n : ℕ) (ts xs : List (Frame ℝ)) (i : ℕ) :
    mixOut p.settle n i ts xs = List.zipWith (fun t x => blend t x (clamp p.raw 0 1)) ts xs := by
  induction ts generalizing xs i with
  | nil => cases xs <;> simp [mixOut]
  | cons t ts ih =>
    cases xs with
    | nil => simp [mixOut]
    | cons x xs => simp [mixOut, mixAt_settled, ih]

/-- one sub-chunk with constant coefficients (feedback amplitude `amp`, clamped mix `m`) -/
noncomputable def chunkC (C : FxChain ℝ φ) (amp m : ℝ) (dt : ℝ) (info : Info ℝ)
    (st : List (Frame ℝ) × φ) (xs : List (Frame ℝ)) : (List (Frame ℝ) × φ) × List (Frame ℝ) :=
  let r := C.process st.2 (st.1.take xs.length) dt info
  let temp := r.2.map (fun f => f.scale amp)
  ((st.1.drop xs.length ++ List.zipWith Frame.add xs temp, r.1),
   List.zipWith (fun t x => blend t x m) temp xs)

theorem chunkPure_settled (C : FxChain ℝ φ) (fb mx : Parameter ℝ ℝ) (dt : ℝ) (info : Info ℝ)
    (st : List (Frame ℝ) × φ) (xs : List (Frame ℝ)) :
    chunkPure C fb.settle mx.settle dt info st xs
      = chunkC C (asAmplitude fb.raw) (clamp mx.raw 0 1) dt info st xs := by
  simp [chunkPure, chunkC, scaleFb_settled, mixOut_settled]

theorem chunkC_buf_length (C : FxChain ℝ φ) (amp m dt : ℝ) (info : Info ℝ) (hC : C.Good dt info)
    (st : List (Frame ℝ) × φ) (xs : List (Frame ℝ)) (h : xs.length ≤ st.1.length) :
    (chunkC C amp m dt info st xs).1.1.length = st.1.length := by
  simp [chunkC, hC.len]
  omega

/-- a sub-chunk that fits in the line may be split anywhere -/
theorem chunkC_split (C : FxChain ℝ φ) (amp m dt : ℝ) (info : Info ℝ) (hC : C.Good dt info)
    (st : List (Frame ℝ) × φ) (xs ys : List (Frame ℝ)) (h : xs.length + ys.length ≤ st.1.length) :
    chunkC C amp m dt info st (xs ++ ys)
      = ((chunkC C amp m dt info (chunkC C amp m dt info st xs).1 ys).1,
         (chunkC C amp m dt info st xs).2 ++ (chunkC C amp m dt info (chunkC C amp m dt info st xs).1 ys).2) := by
  obtain ⟨buf, s⟩ := st
  simp only at h
  have hlen1 : ((C.process s (buf.take xs.length) dt info).2).length = xs.length := by
    rw [hC.len]; simp; omega
  have htake : (buf.drop xs.length ++ List.zipWith Frame.add xs
      ((C.process s (buf.take xs.length) dt info).2.map (fun f => f.scale amp))).take ys.length
      = (buf.drop xs.length).take ys.length := by
    rw [List.take_append_of_le_length]; simp; omega
  have hlen2 : ((C.process (C.process s (buf.take xs.length) dt info).1
      ((buf.drop xs.length).take ys.length) dt info).2).length = ys.length := by
    rw [hC.len]; simp; omega
  have hdrop : (buf.drop xs.length ++ List.zipWith Frame.add xs
      ((C.process s (buf.take xs.length) dt info).2.map (fun f => f.scale amp))).drop ys.length
      = buf.drop (xs.length + ys.length) ++ List.zipWith Frame.add xs
      ((C.process s (buf.take xs.length) dt info).2.map (fun f => f.scale amp)) := by
    rw [List.drop_append_of_le_length (by simp; omega), List.drop_drop]
  simp only [chunkC, List.length_append, List.take_add, hC.split, htake, hdrop, List.map_append]
  rw [List.zipWith_append (by simp [hlen1]), List.zipWith_append (by simp [hlen1])]
  simp [List.append_assoc]

/-- the per-frame delay line: one frame at a time through `chunkC` -/
noncomputable def framesC (C : FxChain ℝ φ) (amp m dt : ℝ) (info : Info ℝ) :
    List (Frame ℝ) × φ → List (Frame ℝ) → (List (Frame ℝ) × φ) × List (Frame ℝ)
  | st, [] => (st, [])
  | st, x :: xs =>
    let r := chunkC C amp m dt info st [x]
    let r' := framesC C amp m dt info r.1 xs
    (r'.1, r.2 ++ r'.2)

theorem framesC_append (C : FxChain ℝ φ) (amp m dt : ℝ) (info : Info ℝ)
    (st : List (Frame ℝ) × φ) (xs ys : List (Frame ℝ)) :
    framesC C amp m dt info st (xs ++ ys)
      = ((framesC C amp m dt info (framesC C amp m dt info st xs).1 ys).1,
         (framesC C amp m dt info st xs).2 ++ (framesC C amp m dt info (framesC C amp m dt info st xs).1 ys).2) := by
  induction xs generalizing st with
  | nil => simp [framesC]
  | cons x xs ih => simp [framesC, ih, List.append_assoc]

theorem framesC_buf_length (C : FxChain ℝ φ) (amp m dt : ℝ) (info : Info ℝ) (hC : C.Good dt info)
    (st : List (Frame ℝ) × φ) (xs : List (Frame ℝ)) (h : 1 ≤ st.1.length) :
    (framesC C amp m dt info st xs).1.1.length = st.1.length := by
  induction xs generalizing st with
  | nil => simp [framesC]
  | cons x xs ih =>
    have h1 := chunkC_buf_length C amp m dt info hC st [x] (by simpa using h)
    simp only [framesC]
    rw [ih _ (by rw [h1]; exact h), h1]

theorem framesC_out_length (C : FxChain ℝ φ) (amp m dt : ℝ) (info : Info ℝ) (hC : C.Good dt info)
    (st : List (Frame ℝ) × φ) (xs : List (Frame ℝ)) (h : 1 ≤ st.1.length) :
    (framesC C amp m dt info st xs).2.length = xs.length := by
  induction xs generalizing st with
  | nil => simp [framesC]
  | cons x xs ih =>
    have h1 := chunkC_buf_length C amp m dt info hC st [x] (by simpa using h)
    simp only [framesC, List.length_append, List.length_cons]
    rw [ih _ (by rw [h1]; exact h)]
    simp [chunkC, hC.len]
    omega

/-- **sub-chunking = per-frame line**: a sub-chunk no longer than the line equals the per-frame run -/
theorem chunkC_eq_framesC (C : FxChain ℝ φ) (amp m dt : ℝ) (info : Info ℝ) (hC : C.Good dt info)
    (st : List (Frame ℝ) × φ) (xs : List (Frame ℝ)) (h : xs.length ≤ st.1.length)
    (hne : xs ≠ []) :
    chunkC C amp m dt info st xs = framesC C amp m dt info st xs := by
  induction xs generalizing st with
  | nil => exact absurd rfl hne
  | cons x xs ih =>
    by_cases hx : xs = []
    · subst hx; simp [framesC]
    · have hsplit := chunkC_split C amp m dt info hC st [x] xs (by simpa [Nat.add_comm] using h)
      have h1 := chunkC_buf_length C amp m dt info hC st [x] (by simp at h ⊢; omega)
      have := ih (chunkC C amp m dt info st [x]).1 (by rw [h1]; simp at h; omega) hx
      simp only [List.singleton_append] at hsplit
      rw [hsplit, this]
      simp [framesC]

/-- the `chunks_mut(L)` loop with stagnant parameters never faults (line non-empty, chunk fits the
    temp buffer) and equals the per-frame delay line -/
theorem chunks_settled (C : FxChain ℝ φ) (fb mx : Parameter ℝ ℝ) (dt : ℝ) (info : Info ℝ)
    (hC : C.Good dt info) (tempLen L : ℕ) (hL : 1 ≤ L) :
    ∀ (fuel : ℕ) (st : List (Frame ℝ) × φ) (xs : List (Frame ℝ)), st.1.length = L → xs.length ≤ fuel →
      min L xs.length ≤ tempLen →
      chunks C fb.settle mx.settle dt info tempLen L fuel st xs
        = .ok (framesC C (asAmplitude fb.raw) (clamp mx.raw 0 1) dt info st xs) := by
  intro fuel
  induction fuel with
  | zero =>
    intro st xs _ hx _
    have : xs = [] := List.eq_nil_of_length_eq_zero (by omega)
    subst this; simp [chunks, framesC]
  | succ fuel ih =>
    intro st xs hst hx ht
    cases xs with
    | nil => simp [chunks, framesC]
    | cons x xs =>
      have hc : ((x :: xs).take L).length = min L (x :: xs).length := by simp
      have hcne : (x :: xs).take L ≠ [] := by
        intro h0
        have := congrArg List.length h0
        rw [hc] at this; simp at this; omega
      have hnot : ¬ tempLen < ((x :: xs).take L).length := by rw [hc]; omega
      have hcl : ((x :: xs).take L).length ≤ st.1.length := by rw [hc, hst]; exact Nat.min_le_left _ _
      have hchunk := chunkC_eq_framesC C (asAmplitude fb.raw) (clamp mx.raw 0 1) dt info hC st _ hcl hcne
      have hlen1 : (framesC C (asAmplitude fb.raw) (clamp mx.raw 0 1) dt info st ((x :: xs).take L)).1.1.length = L := by
        rw [framesC_buf_length C _ _ dt info hC st _ (by omega), hst]
      have hrest : ((x :: xs).drop L).length ≤ fuel := by
        simp only [List.length_drop, List.length_cons] at hx ⊢; omega
      have hrest2 : min L ((x :: xs).drop L).length ≤ tempLen := by
        simp only [List.length_drop] at ht ⊢; omega
      have hrec := ih (framesC C (asAmplitude fb.raw) (clamp mx.raw 0 1) dt info st ((x :: xs).take L)).1
        ((x :: xs).drop L) hlen1 hrest hrest2
      have happ := framesC_append C (asAmplitude fb.raw) (clamp mx.raw 0 1) dt info st
        ((x :: xs).take L) ((x :: xs).drop L)
      rw [List.take_append_drop] at happ
      rw [chunks]
      simp only [hnot, if_false, chunkPure_settled, hchunk, hrec]
      rw [happ]

/-- the per-frame run of a delay with stagnant parameters: (line, feedback-effect state) and outputs -/
noncomputable def perFrame (C : FxChain ℝ φ) (d : Delay ℝ φ) (xs : List (Frame ℝ)) (dt : ℝ) (info : Info ℝ) :
    (List (Frame ℝ) × φ) × List (Frame ℝ) :=
  framesC C (asAmplitude d.feedback.raw) (clamp d.mix.raw 0 1) dt info (d.buffer, d.fx) xs

/-- the delay after `perFrame` -/
noncomputable def after (C : FxChain ℝ φ) (d : Delay ℝ φ) (xs : List (Frame ℝ)) (dt : ℝ) (info : Info ℝ) :
    Delay ℝ φ :=
  { d with feedback := d.feedback.settle, mix := d.mix.settle
           buffer := (perFrame C d xs dt info).1.1, fx := (perFrame C d xs dt info).1.2 }

theorem process_settled (C : FxChain ℝ φ) (d : Delay ℝ φ) (xs : List (Frame ℝ)) (dt : ℝ) (info : Info ℝ)
    (hC : C.Good dt info) (hfb : d.feedback.stagnant = true) (hmx : d.mix.stagnant = true)
    (hL : 1 ≤ d.buffer.length) (ht : min d.buffer.length xs.length ≤ d.tempLen) :
    d.process C xs dt info = .ok (after C d xs dt info, (perFrame C d xs dt info).2) := by
  have h1 : (d.feedback.update tw32 (dt * (KOps.ofNat xs.length : ℝ)) info).1 = d.feedback.settle :=
    Parameter.update_stagnant_fst _ _ _ _ hfb
  have h2 : (d.mix.update tw32 (dt * (KOps.ofNat xs.length : ℝ)) info).1 = d.mix.settle :=
    Parameter.update_stagnant_fst _ _ _ _ hmx
  have hne : ¬ d.buffer.length = 0 := by omega
  unfold process
  simp only [h1, h2, hne, if_false]
  rw [chunks_settled C d.feedback d.mix dt info hC d.tempLen d.buffer.length hL xs.length (d.buffer, d.fx) xs rfl
    (le_refl _) ht]
  rfl

/-! ### any parameters (tweening allowed): lengths, dry identity, silence -/

theorem scaleFb_length (p : Parameter ℝ ℝ) (n : ℕ) (fs : List (Frame ℝ)) (i : ℕ) :
    (scaleFb p n i fs).length = fs.length := by
  induction fs generalizing i with
  | nil => rfl
  | cons f fs ih => simp [scaleFb, ih]

theorem chunkPure_buf_length (C : FxChain ℝ φ) (fb mx : Parameter ℝ ℝ) (dt : ℝ) (info : Info ℝ)
    (hlen : ∀ s xs, (C.process s xs dt info).2.length = xs.length)
    (st : List (Frame ℝ) × φ) (xs : List (Frame ℝ)) (h : xs.length ≤ st.1.length) :
    (chunkPure C fb mx dt info st xs).1.1.length = st.1.length := by
  simp [chunkPure, scaleFb_length, hlen]
  omega

theorem mixOut_dry (p : Parameter ℝ ℝ) (hp : p.raw ≤ 0) (n : ℕ) (ts xs : List (Frame ℝ)) (i : ℕ)
    (h : ts.length = xs.length) : mixOut p.settle n i ts xs = xs := by
  induction ts generalizing xs i with
  | nil => cases xs <;> simp_all [mixOut]
  | cons t ts ih =>
    cases xs with
    | nil => simp at h
    | cons x xs =>
      simp only [List.length_cons, Nat.add_right_cancel_iff] at h
      simp [mixOut, mixAt_dry p hp, blend_dry, ih xs (i + 1) h]

theorem chunkPure_out_dry (C : FxChain ℝ φ) (fb mx : Parameter ℝ ℝ) (hp : mx.raw ≤ 0) (dt : ℝ) (info : Info ℝ)
    (hlen : ∀ s xs, (C.process s xs dt info).2.length = xs.length)
    (st : List (Frame ℝ) × φ) (xs : List (Frame ℝ)) (h : xs.length ≤ st.1.length) :
    (chunkPure C fb mx.settle dt info st xs).2 = xs := by
  simp only [chunkPure]
  apply mixOut_dry mx hp
  simp [scaleFb_length, hlen]; omega

theorem chunks_dry (C : FxChain ℝ φ) (fb mx : Parameter ℝ ℝ) (hp : mx.raw ≤ 0) (dt : ℝ) (info : Info ℝ)
    (hlen : ∀ s xs, (C.process s xs dt info).2.length = xs.length) (tempLen L : ℕ) :
    ∀ (fuel : ℕ) (st : List (Frame ℝ) × φ) (xs : List (Frame ℝ)) r, st.1.length = L →
      chunks C fb mx.settle dt info tempLen L fuel st xs = .ok r → r.2 = xs := by
  intro fuel
  induction fuel with
  | zero =>
    intro st xs r _ h
    cases xs with
    | nil => simp [chunks] at h; rw [← h]
    | cons x xs => simp [chunks] at h
  | succ fuel ih =>
    intro st xs r hst h
    cases xs with
    | nil => simp [chunks] at h; rw [← h]
    | cons x xs =>
      rw [chunks] at h
      by_cases hoob : tempLen < ((x :: xs).take L).length
      · rw [if_pos hoob] at h; cases h
      · rw [if_neg hoob] at h
        have hcl : ((x :: xs).take L).length ≤ st.1.length := by
          rw [hst]; simp only [List.length_take]; exact Nat.min_le_left _ _
        have hb := chunkPure_buf_length C fb mx.settle dt info hlen st _ hcl
        have ho := chunkPure_out_dry C fb mx hp dt info hlen st _ hcl
        dsimp only at h
        split at h
        · rename_i st2 o2 heq
          have := ih _ _ (st2, o2) (by rw [hb, hst]) heq
          simp only at this
          cases h
          simp only [ho, this, List.take_append_drop]
        · cases h

theorem scaleFb_zeros (p : Parameter ℝ ℝ) (n k : ℕ) (i : ℕ) :
    scaleFb p n i (List.replicate k (Frame.zero : Frame ℝ)) = List.replicate k Frame.zero := by
  induction k generalizing i with
  | zero => rfl
  | succ k ih => simp [List.replicate_succ, scaleFb, FrameB.zero_scale, ih]

theorem mixOut_zeros (p : Parameter ℝ ℝ) (n k : ℕ) (i : ℕ) :
    mixOut p n i (List.replicate k (Frame.zero : Frame ℝ)) (List.replicate k Frame.zero)
      = List.replicate k Frame.zero := by
  induction k generalizing i with
  | zero => rfl
  | succ k ih => simp [List.replicate_succ, mixOut, blend_zero, ih]

theorem zipWith_add_zeros (k : ℕ) :
    List.zipWith Frame.add (List.replicate k (Frame.zero : Frame ℝ)) (List.replicate k Frame.zero)
      = List.replicate k Frame.zero := by
  induction k with
  | zero => rfl
  | succ k ih => simp [List.replicate_succ, FrameB.add_zero]

/-- a set `Q` of feedback-effect states from which silence stays silence -/
def SilentChain (C : FxChain ℝ φ) (dt : ℝ) (info : Info ℝ) (Q : φ → Prop) : Prop :=
  ∀ s n, Q s → Q (C.process s (List.replicate n Frame.zero) dt info).1
    ∧ (C.process s (List.replicate n Frame.zero) dt info).2 = List.replicate n Frame.zero

theorem chunkPure_silent (C : FxChain ℝ φ) (fb mx : Parameter ℝ ℝ) (dt : ℝ) (info : Info ℝ)
    (Q : φ → Prop) (hQ : SilentChain C dt info Q) (L n : ℕ) (s : φ) (hs : Q s) (hn : n ≤ L) :
    (chunkPure C fb mx dt info (List.replicate L Frame.zero, s) (List.replicate n Frame.zero)).1.1
        = List.replicate L Frame.zero
      ∧ Q (chunkPure C fb mx dt info (List.replicate L Frame.zero, s) (List.replicate n Frame.zero)).1.2
      ∧ (chunkPure C fb mx dt info (List.replicate L Frame.zero, s) (List.replicate n Frame.zero)).2
        = List.replicate n Frame.zero := by
  have htake : (List.replicate L (Frame.zero : Frame ℝ)).take n = List.replicate n Frame.zero := by
    simp [List.take_replicate, Nat.min_eq_left hn]
  obtain ⟨h1, h2⟩ := hQ s n hs
  simp only [chunkPure, List.length_replicate, htake, h2, scaleFb_zeros, mixOut_zeros, zipWith_add_zeros]
  refine ⟨?_, h1, trivial⟩
  simp only [List.drop_replicate, List.replicate_append_replicate]
  congr 1; omega

theorem chunks_silent (C : FxChain ℝ φ) (fb mx : Parameter ℝ ℝ) (dt : ℝ) (info : Info ℝ)
    (Q : φ → Prop) (hQ : SilentChain C dt info Q) (tempLen L : ℕ) :
    ∀ (fuel k : ℕ) (s : φ) r, Q s →
      chunks C fb mx dt info tempLen L fuel (List.replicate L Frame.zero, s) (List.replicate k Frame.zero) = .ok r →
      r.1.1 = List.replicate L Frame.zero ∧ Q r.1.2 ∧ r.2 = List.replicate k Frame.zero := by
  intro fuel
  induction fuel with
  | zero =>
    intro k s r hs h
    cases k with
    | zero => simp [chunks] at h; rw [← h]; exact ⟨rfl, hs, rfl⟩
    | succ k => simp [List.replicate_succ, chunks] at h
  | succ fuel ih =>
    intro k s r hs h
    cases k with
    | zero => simp [chunks] at h; rw [← h]; exact ⟨rfl, hs, rfl⟩
    | succ k =>
      rw [List.replicate_succ, chunks, ← List.replicate_succ] at h
      by_cases hoob : tempLen < ((List.replicate (k + 1) (Frame.zero : Frame ℝ)).take L).length
      · rw [if_pos hoob] at h; cases h
      · rw [if_neg hoob] at h
        have htk : (List.replicate (k + 1) (Frame.zero : Frame ℝ)).take L
            = List.replicate (min L (k + 1)) Frame.zero := by simp [List.take_replicate]
        have hdr : (List.replicate (k + 1) (Frame.zero : Frame ℝ)).drop L
            = List.replicate (k + 1 - L) Frame.zero := by simp [List.drop_replicate]
        rw [htk, hdr] at h
        obtain ⟨c1, c2, c3⟩ := chunkPure_silent C fb mx dt info Q hQ L (min L (k + 1)) s hs (Nat.min_le_left _ _)
        dsimp only at h
        split at h
        · rename_i st2 o2 heq
          have hst : (chunkPure C fb mx dt info (List.replicate L Frame.zero, s)
              (List.replicate (min L (k + 1)) Frame.zero)).1
              = (List.replicate L Frame.zero, (chunkPure C fb mx dt info (List.replicate L Frame.zero, s)
              (List.replicate (min L (k + 1)) Frame.zero)).1.2) := by
            ext1
            · exact c1
            · rfl
          rw [hst] at heq
          obtain ⟨d1, d2, d3⟩ := ih _ _ (st2, o2) c2 heq
          cases h
          refine ⟨d1, d2, ?_⟩
          simp only at d3
          simp only [c3, d3, List.replicate_append_replicate]
          congr 1; omega
        · cases h

/-- the integer line length is the floor of `delay (s) · fs` over ℝ: `ns·fs / 10⁹ = ⌊ns/10⁹ · fs⌋` -/
theorem frames_eq_floor (ns sr : ℕ) :
    ns * sr / 1000000000 = ⌊(ns : ℝ) / 1000000000 * (sr : ℝ)⌋₊ := by
  have e : (ns : ℝ) / 1000000000 * (sr : ℝ) = ((ns * sr : ℕ) : ℝ) / ((1000000000 : ℕ) : ℝ) := by
    push_cast; ring
  rw [e, Nat.floor_div_eq_div]

theorem frames_real (ns sr : ℕ) : frames ns sr = max ⌊(ns : ℝ) / 1000000000 * (sr : ℝ)⌋₊ 1 := by
  unfold frames; rw [frames_eq_floor]

end Delay
end K
