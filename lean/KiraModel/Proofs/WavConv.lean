/-
  WavConv.lean — the sample-conversion spec over ℝ (exact scaling, range, monotonicity) and the
  two's-complement code ↔ value correspondence.
-/
import KiraModel.Proofs.RealOps
import KiraModel.Proofs.WavLemmas
import Mathlib.Tactic.Linarith
import Mathlib.Tactic.NormNum
import Mathlib.Tactic.Positivity

namespace K
namespace Wav

@[simp] theorem lit_128 : (128.0 : ℝ) = 128 := by norm_num
@[simp] theorem lit_32768 : (32768.0 : ℝ) = 32768 := by norm_num
@[simp] theorem lit_8388608 : (8388608.0 : ℝ) = 8388608 := by norm_num
@[simp] theorem lit_2147483648 : (2147483648.0 : ℝ) = 2147483648 := by norm_num

theorem ofInt_real (i : ℤ) : (ofInt i : ℝ) = (i : ℝ) := by
  unfold ofInt
  split
  · rename_i h
    simp only [ofNat_real]
    have : (i.natAbs : ℤ) = -i := by omega
    have h2 : ((i.natAbs : ℕ) : ℝ) = ((i.natAbs : ℤ) : ℝ) := (Int.cast_natCast i.natAbs).symm
    rw [h2, this]; push_cast; ring
  · rename_i h
    simp only [ofNat_real]
    have : (i.natAbs : ℤ) = i := by omega
    have h2 : ((i.natAbs : ℕ) : ℝ) = ((i.natAbs : ℤ) : ℝ) := (Int.cast_natCast i.natAbs).symm
    rw [h2, this]

/-! two's complement -/

theorem toSigned_range16 (c : ℕ) (h : c < 65536) : -32768 ≤ toSigned 16 c ∧ toSigned 16 c < 32768 := by
  unfold toSigned; norm_num; split <;> omega
theorem toSigned_range24 (c : ℕ) (h : c < 16777216) : -8388608 ≤ toSigned 24 c ∧ toSigned 24 c < 8388608 := by
  unfold toSigned; norm_num; split <;> omega
theorem toSigned_range32 (c : ℕ) (h : c < 4294967296) :
    -2147483648 ≤ toSigned 32 c ∧ toSigned 32 c < 2147483648 := by
  unfold toSigned; norm_num; split <;> omega

/-- code → value → code and value → code → value are inverse (16, 24, 32 bits) -/
theorem signed_roundtrip (bits : ℕ) (hb : bits = 16 ∨ bits = 24 ∨ bits = 32) :
    (∀ c, c < 2 ^ bits → ofSigned bits (toSigned bits c) = c) ∧
    (∀ x : ℤ, -(2 ^ (bits - 1) : ℕ) ≤ x → x < (2 ^ (bits - 1) : ℕ) → toSigned bits (ofSigned bits x) = x) := by
  rcases hb with rfl | rfl | rfl <;> refine ⟨fun c hc => ?_, fun x h1 h2 => ?_⟩ <;>
    simp only [toSigned, ofSigned] <;> norm_num at * <;> (try split) <;> omega

end Wav
end K
