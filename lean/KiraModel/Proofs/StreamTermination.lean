/-
  StreamTermination.lean — `DecodeScheduler::frame_at_index`, `run` and the decoder thread come to
  an end for every decoder that makes progress (each successful `decode` consumes some of a finite
  supply, so at the end of its data it reports an error instead of an empty chunk); the modelled
  Symphonia WAV decoder makes progress on EVERY byte string (truncated, lying header, …).
  Core Lean only.
-/
import KiraModel.Model.Decoder

namespace K
namespace Dec

open Wav (Err)

variable {α σ : Type} [OfScientific α]

/-- **progress**: a measure of the data the decoder has left, bounded by `L`, that every
    successful `decode` strictly decreases.  In particular a decoder with nothing left
    (`left s = 0`) cannot return `Ok`: it must report the end of its data as an error. -/
structure Progress (D : Decoder σ α) (left : σ → Nat) (L : Nat) : Prop where
  bounded : ∀ s, left s ≤ L
  decode_lt : ∀ s fs s', D.decode s = .ok (fs, s') → left s' < left s

/-- `e` is an error value the decoder itself returned (from `decode` or `seek`) -/
def DecErr (D : Decoder σ α) (e : Err) : Prop :=
  (∃ s, D.decode s = .error e) ∨ (∃ s i, D.seek s i = .error e)

omit [OfScientific α] in
/-- the decode-forward loop returns within `left s + 1` calls of `decode`: with that much fuel
    it yields a frame, or the error of a `decode` call — never the model's fuel-exhaustion `hang` -/
theorem decodeUntil_terminates (D : Decoder σ α) (left : σ → Nat) (L : Nat) (P : Progress D left L)
    (index : Nat) : ∀ (fuel : Nat) (s : σ) (cur : Nat), left s < fuel →
      (∃ r, decodeUntil D index fuel s cur = .ok r) ∨
      (∃ e s', decodeUntil D index fuel s cur = .error e ∧ D.decode s' = .error e) := by
  intro fuel
  induction fuel with
  | zero => intro s cur h; omega
  | succ fuel ih =>
    intro s cur hfuel
    unfold decodeUntil
    cases hdec : D.decode s with
    | error e => exact .inr ⟨e, s, rfl, hdec⟩
    | ok r =>
      obtain ⟨fs, s'⟩ := r
      simp only []
      cases (Chunk.frameAt (⟨cur, fs⟩ : Chunk α) index) with
      | some f => exact .inl ⟨_, rfl⟩
      | none =>
        have := P.decode_lt s fs s' hdec
        exact ih s' (cur + fs.length) (by omega)

omit [OfScientific α] in
/-- fuel independence of the decode-forward loop (any two fuels above the data left agree) -/
theorem decodeUntil_fuel (D : Decoder σ α) (left : σ → Nat) (L : Nat) (P : Progress D left L)
    (index : Nat) : ∀ (n : Nat) (s : σ) (cur : Nat) (f₁ f₂ : Nat), left s ≤ n → n < f₁ → n < f₂ →
      decodeUntil D index f₁ s cur = decodeUntil D index f₂ s cur := by
  intro n
  induction n with
  | zero =>
    intro s cur f₁ f₂ hl h₁ h₂
    obtain ⟨g₁, rfl⟩ : ∃ g, f₁ = g + 1 := ⟨f₁ - 1, by omega⟩
    obtain ⟨g₂, rfl⟩ : ∃ g, f₂ = g + 1 := ⟨f₂ - 1, by omega⟩
    unfold decodeUntil
    cases hdec : D.decode s with
    | error e => rfl
    | ok r =>
      obtain ⟨fs, s'⟩ := r
      have := P.decode_lt s fs s' hdec
      omega
  | succ n ih =>
    intro s cur f₁ f₂ hl h₁ h₂
    obtain ⟨g₁, rfl⟩ : ∃ g, f₁ = g + 1 := ⟨f₁ - 1, by omega⟩
    obtain ⟨g₂, rfl⟩ : ∃ g, f₂ = g + 1 := ⟨f₂ - 1, by omega⟩
    unfold decodeUntil
    cases hdec : D.decode s with
    | error e => rfl
    | ok r =>
      obtain ⟨fs, s'⟩ := r
      simp only []
      cases (Chunk.frameAt (⟨cur, fs⟩ : Chunk α) index) with
      | some f => rfl
      | none =>
        have := P.decode_lt s fs s' hdec
        exact ih s' (cur + fs.length) g₁ g₂ (by omega) (by omega) (by omega)

/-- an inverted slice `(a, b)` with `b < a` (`end - start` underflows in `frame_at_index`;
    `DecodeScheduler::new` already panics on it, so no running scheduler has one) -/
def Cfg.Inverted (cfg : Cfg) : Prop :=
  match cfg.slice with
  | some (a, b) => b < a
  | none => False

/-- `frame_at_index` with the slice bounds made explicit (the body after the two `let`s) -/
def frameAtIndexCore (D : Decoder σ α) (start stop fuel : Nat) (st : Sched σ α) (index : Nat) :
    Except Err (Frame α × Sched σ α) :=
  if stop < start then .error .panic else
  if index ≥ stop - start then .ok (⟨(0.0 : α), (0.0 : α)⟩, st) else
  let index := start + index
  match st.chunk.bind (·.frameAt index) with
  | some f => .ok (f, st)
  | none =>
    let seeked : Except Err (σ × Nat) :=
      if index < st.cur then
        match D.seek st.dec index with
        | .error e => .error e
        | .ok (j, s') => .ok (s', j)
      else .ok (st.dec, st.cur)
    match seeked with
    | .error e => .error e
    | .ok (s, cur) =>
      match decodeUntil D index fuel s cur with
      | .error e => .error e
      | .ok (f, s', cur', chunk) => .ok (f, { st with dec := s', cur := cur', chunk := some chunk })

theorem frameAtIndex_eq_core (D : Decoder σ α) (cfg : Cfg) (fuel : Nat) (st : Sched σ α) (i : Nat) :
    frameAtIndex D cfg fuel st i =
      frameAtIndexCore D (match cfg.slice with | some (a, _) => a | none => 0)
        (match cfg.slice with | some (_, b) => b | none => cfg.numFrames) fuel st i := rfl

/-- `frame_at_index` changes the decoder-facing fields only -/
theorem frameAtIndex_transport (D : Decoder σ α) (cfg : Cfg) (fuel : Nat) (st : Sched σ α) (i : Nat)
    (f : Frame α) (st' : Sched σ α) (h : frameAtIndex D cfg fuel st i = .ok (f, st')) :
    st'.position = st.position ∧ st'.playing = st.playing := by
  rw [frameAtIndex_eq_core] at h
  generalize (match cfg.slice with | some (a, _) => a | none => 0) = start at h
  generalize (match cfg.slice with | some (_, b) => b | none => cfg.numFrames) = stop at h
  unfold frameAtIndexCore at h
  by_cases h1 : stop < start
  · simp only [h1, if_true] at h; cases h
  · simp only [h1, if_false] at h
    by_cases h2 : i ≥ stop - start
    · simp only [h2, if_true] at h; cases h; exact ⟨rfl, rfl⟩
    · simp only [h2, if_false] at h
      cases hc : st.chunk.bind (·.frameAt (start + i)) with
      | some f' => rw [hc] at h; cases h; exact ⟨rfl, rfl⟩
      | none =>
        rw [hc] at h
        simp only [] at h
        split at h
        · cases h
        · split at h
          · cases h
          · cases h; exact ⟨rfl, rfl⟩

/-- **frame_at_index returns** for every decoder that makes progress: with fuel above `L` (i.e.
    within `L + 1` calls of `decode`, after at most one `seek`) the answer is a frame, or the
    panic of an inverted slice, or an error value the decoder returned — never `hang`
    (unless the decoder itself says so). -/
theorem frameAtIndex_terminates (D : Decoder σ α) (left : σ → Nat) (L : Nat) (P : Progress D left L)
    (cfg : Cfg) (fuel : Nat) (hfuel : L < fuel) (st : Sched σ α) (i : Nat) :
    (∃ r, frameAtIndex D cfg fuel st i = .ok r) ∨
    (∃ e, frameAtIndex D cfg fuel st i = .error e ∧ ((e = .panic ∧ cfg.Inverted) ∨ DecErr D e)) := by
  rw [frameAtIndex_eq_core]
  have hinv : (match cfg.slice with | some (_, b) => b | none => cfg.numFrames) <
      (match cfg.slice with | some (a, _) => a | none => 0) → cfg.Inverted := by
    unfold Cfg.Inverted
    rcases cfg.slice with _ | ⟨a, b⟩
    · intro h; exact absurd h (Nat.not_lt_zero _)
    · intro h; exact h
  revert hinv
  generalize (match cfg.slice with | some (a, _) => a | none => 0) = start
  generalize (match cfg.slice with | some (_, b) => b | none => cfg.numFrames) = stop
  intro hinv
  unfold frameAtIndexCore
  by_cases h1 : stop < start
  · simp only [h1, if_true]; exact .inr ⟨.panic, rfl, .inl ⟨rfl, hinv h1⟩⟩
  · simp only [h1, if_false]
    by_cases h2 : i ≥ stop - start
    · simp only [h2, if_true]; exact .inl ⟨_, rfl⟩
    · simp only [h2, if_false]
      cases hc : st.chunk.bind (·.frameAt (start + i)) with
      | some f' => exact .inl ⟨_, rfl⟩
      | none =>
        simp only []
        -- after the (optional) seek the decode-forward loop runs from some decoder state
        have key : ∀ (s : σ) (cur : Nat),
            (∃ r, (match decodeUntil D (start + i) fuel s cur with
              | .error e => (.error e : Except Err (Frame α × Sched σ α))
              | .ok (f, s', cur', chunk) => .ok (f, { st with dec := s', cur := cur', chunk := some chunk })) = .ok r) ∨
            (∃ e, (match decodeUntil D (start + i) fuel s cur with
              | .error e => (.error e : Except Err (Frame α × Sched σ α))
              | .ok (f, s', cur', chunk) => .ok (f, { st with dec := s', cur := cur', chunk := some chunk })) = .error e ∧
                ((e = .panic ∧ cfg.Inverted) ∨ DecErr D e)) := by
          intro s cur
          have hb := P.bounded s
          rcases decodeUntil_terminates D left L P (start + i) fuel s cur (by omega) with ⟨r, hr⟩ | ⟨e, s', he, hd⟩
          · obtain ⟨f, s', cur', chunk⟩ := r
            rw [hr]; exact .inl ⟨_, rfl⟩
          · rw [he]; exact .inr ⟨e, rfl, .inr (.inl ⟨s', hd⟩)⟩
        by_cases h3 : start + i < st.cur
        · simp only [h3, if_true]
          cases hs : D.seek st.dec (start + i) with
          | error e => exact .inr ⟨e, rfl, .inr (.inr ⟨_, _, hs⟩)⟩
          | ok r => obtain ⟨j, s'⟩ := r; exact key s' j
        · simp only [h3, if_false]
          exact key st.dec st.cur

/-- one `run` iteration returns (same statement as `frameAtIndex_terminates`) -/
theorem runStep_terminates (D : Decoder σ α) (left : σ → Nat) (L : Nat) (P : Progress D left L)
    (cfg : Cfg) (fuel : Nat) (hfuel : L < fuel) (st : Sched σ α) :
    (∃ r, runStep D cfg fuel st = .ok r) ∨
    (∃ e, runStep D cfg fuel st = .error e ∧ ((e = .panic ∧ cfg.Inverted) ∨ DecErr D e)) := by
  unfold runStep
  rcases frameAtIndex_terminates D left L P cfg fuel hfuel st st.position with ⟨r, hr⟩ | ⟨e, he, hd⟩
  · obtain ⟨f, st'⟩ := r
    simp only [hr]
    exact .inl ⟨_, rfl⟩
  · simp only [he]
    exact .inr ⟨e, rfl, hd⟩

/-- the transport after a successful `run` iteration that goes on: one frame further, playing -/
theorem runStep_advance (D : Decoder σ α) (cfg : Cfg) (fuel : Nat) (st : Sched σ α)
    (f : Frame α) (idx : Nat) (st' : Sched σ α) (h : runStep D cfg fuel st = .ok (f, idx, true, st')) :
    st'.position = st.position + 1 ∧ st'.position < cfg.numFrames := by
  unfold runStep at h
  cases hfa : frameAtIndex D cfg fuel st st.position with
  | error e => rw [hfa] at h; cases h
  | ok r =>
    obtain ⟨f1, st1⟩ := r
    obtain ⟨hp, _⟩ := frameAtIndex_transport D cfg fuel st st.position f1 st1 hfa
    rw [hfa] at h
    simp only [Except.ok.injEq, Prod.mk.injEq] at h
    obtain ⟨_, _, hgo, hst⟩ := h
    cases hpl : st1.playing with
    | false => simp [hpl] at hgo
    | true =>
      simp only [hpl, if_true] at hgo hst
      by_cases hge : st1.position + 1 ≥ cfg.numFrames
      · simp [hge] at hgo
      · subst hst
        simp only []
        omega

/-- **the decoder thread ends.**  For a decoder that makes progress, from every scheduler state,
    within `numFrames − position + 1` iterations of the thread's loop (each needing at most
    `L + 1` calls of `decode`): the thread ends with `reached_end` (`error = none`) or with an
    error value pushed to the handle, whereupon the sound stops; the only other outcomes are a
    panic (inverted slice) or a `hang` *that the decoder itself returned*. -/
theorem runThread_terminates (D : Decoder σ α) (left : σ → Nat) (L : Nat) (P : Progress D left L)
    (cfg : Cfg) (fuel : Nat) (hfuel : L < fuel) :
    ∀ (steps : Nat) (st : Sched σ α) (acc : List (Frame α × Nat)), cfg.numFrames - st.position < steps →
      (∃ r, runThread D cfg fuel steps st acc = .ok r ∧ ∀ e, r.error = some e → DecErr D e) ∨
      (∃ e, runThread D cfg fuel steps st acc = .error e ∧ ((e = .panic ∧ cfg.Inverted) ∨ DecErr D e)) := by
  intro steps
  induction steps with
  | zero => intro st acc h; omega
  | succ steps ih =>
    intro st acc hsteps
    unfold runThread
    rcases runStep_terminates D left L P cfg fuel hfuel st with ⟨r, hr⟩ | ⟨e, he, hd⟩
    · obtain ⟨f, idx, go, st'⟩ := r
      simp only [hr]
      cases go with
      | false => exact .inl ⟨_, rfl, fun e h => by cases h⟩
      | true =>
        simp only [if_true]
        obtain ⟨hp, hlt⟩ := runStep_advance D cfg fuel st f idx st' hr
        exact ih st' _ (by omega)
    · simp only [he]
      split
      · exact .inr ⟨e, rfl, hd⟩
      · rename_i hne
        refine .inl ⟨_, rfl, fun e' h => ?_⟩
        injection h with h
        subst h
        rcases hd with ⟨hp, _⟩ | hd
        · exact absurd (.inr hp) hne
        · exact hd

/-- the thread model fails only with `hang` or `panic` (error *values* end it normally) -/
theorem runThread_error_kind (D : Decoder σ α) (cfg : Cfg) (fuel : Nat) :
    ∀ (steps : Nat) (st : Sched σ α) (acc : List (Frame α × Nat)) (e : Err),
      runThread D cfg fuel steps st acc = .error e → e = .hang ∨ e = .panic := by
  intro steps
  induction steps with
  | zero => intro st acc e h; unfold runThread at h; injection h with h; exact .inl h.symm
  | succ n ih =>
    intro st acc e h
    unfold runThread at h
    cases hr : runStep D cfg fuel st with
    | error e' =>
      rw [hr] at h
      simp only [] at h
      split at h
      · rename_i hh; injection h with h; subst h; exact hh
      · cases h
    | ok r =>
      obtain ⟨f, idx, go, st'⟩ := r
      rw [hr] at h
      simp only [] at h
      cases go with
      | true => simp only [if_true] at h; exact ih st' _ e h
      | false => simp at h

omit [OfScientific α] in
/-- **why the hypothesis is needed**: a decoder that answers the end of its data with an empty
    chunk and an unchanged state (`decode s = Ok([])`, what the seeded change
    `C18-eof-swallowed` makes of `UnexpectedEof`) makes the decode-forward loop spin: whatever the
    fuel, the loop does not return (the model reports `hang`) once it waits for a frame that is
    not in an empty chunk. -/
theorem decodeUntil_spins (D : Decoder σ α) (s : σ) (h : D.decode s = .ok ([], s)) (index : Nat) :
    ∀ (fuel cur : Nat), decodeUntil D index fuel s cur = .error .hang := by
  intro fuel
  induction fuel with
  | zero => intro cur; rfl
  | succ fuel ih =>
    intro cur
    unfold decodeUntil
    simp only [h]
    have : Chunk.frameAt (⟨cur, []⟩ : Chunk α) index = none := by
      unfold Chunk.frameAt
      split <;> simp
    simp only [this, List.length_nil, Nat.add_zero]
    exact ih cur

omit [OfScientific α] in
/-- … and such a decoder admits no progress measure -/
theorem no_progress_of_empty_ok (D : Decoder σ α) (s : σ) (h : D.decode s = .ok ([], s))
    (left : σ → Nat) (L : Nat) : ¬ Progress D left L := by
  intro P
  have := P.decode_lt s [] s h
  omega

end Dec

/-! ## the modelled Symphonia WAV decoder makes progress on every byte string -/
namespace Wav

open Dec

variable {α : Type} [Add α] [Sub α] [Mul α] [Div α] [Neg α] [LT α] [LE α]
  [DecidableLT α] [DecidableLE α] [OfScientific α] [KOps α]

/-- a packet is non-empty, starts inside the declared data and ends inside it -/
theorem nextPacket_packet (blockAlign dataLen : Nat) (data : List UInt8) (pos : Nat)
    (b : List UInt8) (p' : Nat) (h : nextPacket blockAlign dataLen data pos = .packet b p') :
    pos < p' ∧ p' ≤ dataLen := by
  unfold nextPacket at h
  by_cases h0 : blockAlign = 0
  · simp only [h0, if_true] at h; cases h
  · simp only [h0, if_false] at h
    by_cases hp : pos < dataLen
    · simp only [hp, if_true] at h
      by_cases hbl : (dataLen - pos) / blockAlign = 0
      · simp only [hbl, if_true] at h; cases h
      · simp only [hbl, if_false] at h
        split at h
        · cases h
        · rename_i hne
          injection h with hb hp'
          subst hb hp'
          have hlen0 : 0 < ((data.drop pos).take
              (min ((dataLen - pos) / blockAlign) maxFramesPerPacket * blockAlign)).length := by
            apply Nat.pos_of_ne_zero
            intro h0
            exact hne (by rw [List.eq_nil_of_length_eq_zero h0]; rfl)
          have hle : ((data.drop pos).take
              (min ((dataLen - pos) / blockAlign) maxFramesPerPacket * blockAlign)).length
              ≤ dataLen - pos := by
            refine Nat.le_trans (List.length_take_le _ _) ?_
            refine Nat.le_trans (Nat.mul_le_mul_right _ (Nat.min_le_left _ _)) ?_
            exact Nat.div_mul_le_self _ _
          omega
    · simp only [hp, if_false, if_true] at h; cases h

/-- **the WAV decoder makes progress** whatever the header says and however many bytes follow:
    the bytes of the declared data chunk not yet consumed strictly decrease with every packet;
    at the end of the declared data, or when no byte is left in the file, `decode` returns the
    error (`IoError(UnexpectedEof)` ↦ `SymphoniaError`). -/
theorem wavDecoder_progress (fd : FloatDec α) (fc : FmtChunk) (r : Reader) :
    Progress (wavDecoder fd fc r) (fun pos => r.dataLen - pos) r.dataLen := by
  constructor
  · intro s; omega
  · intro s fs s' h
    simp only [wavDecoder] at h
    split at h
    · rename_i b p' hnp
      have := nextPacket_packet _ _ _ _ _ _ hnp
      split at h
      · injection h with h; injection h with _ hs; subst hs; omega
      · cases h
    · cases h
    · cases h

/-- the only error values the WAV decoder returns are `SymphoniaError` and
    `UnsupportedChannelConfiguration` -/
theorem wavDecoder_errors (fd : FloatDec α) (fc : FmtChunk) (r : Reader) (e : Err)
    (h : DecErr (wavDecoder fd fc r) e) : e = .sym ∨ e = .chan := by
  have hasm : ∀ (ch : Nat) (frames : List (List α)) (e : Err), assemble ch frames = .error e → e = .chan := by
    intro ch frames e h
    unfold assemble at h
    split at h
    · -- mapM over assembleFrame: every failure is `chan`
      have hframe : ∀ (x : List α) (e : Err), assembleFrame ch x = .error e → e = .chan := by
        intro x e hx
        unfold assembleFrame at hx
        split at hx
        · cases hx
        · cases hx
        · injection hx with hx; exact hx.symm
      have : ∀ (l : List (List α)) (e : Err), l.mapM (assembleFrame ch) = .error e → e = .chan := by
        intro l
        induction l with
        | nil => intro e h; simp [List.mapM_nil, pure, Except.pure] at h
        | cons x xs ih =>
          intro e h
          rw [List.mapM_cons] at h
          cases hx : assembleFrame ch x with
          | error e' =>
            rw [hx] at h
            have : e' = e := by simpa [bind, Except.bind] using h
            subst this
            exact hframe x e' hx
          | ok y =>
            rw [hx] at h
            cases hxs : xs.mapM (assembleFrame ch) with
            | error e'' =>
              rw [hxs] at h
              have : e'' = e := by simpa [bind, Except.bind] using h
              subst this
              exact ih _ hxs
            | ok ys =>
              rw [hxs] at h
              simp [bind, Except.bind, pure, Except.pure] at h
      exact this _ _ h
    · injection h with h; exact h.symm
  rcases h with ⟨s, h⟩ | ⟨s, i, h⟩
  · simp only [wavDecoder] at h
    split at h
    · split at h
      · cases h
      · rename_i e' hdp
        injection h with h
        subst h
        exact .inr (hasm _ _ _ hdp)
    · injection h with h; exact .inl h.symm
    · injection h with h; exact .inl h.symm
  · simp only [wavDecoder] at h
    split at h
    · cases h
    · injection h with h; exact .inl h.symm

end Wav
end K
