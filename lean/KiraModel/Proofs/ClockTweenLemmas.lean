/-
  A running clock whose speed parameter is mid-tween (Model/Clock.lean, Model/Parameter.lean), over ℝ:
  the elapsed ticks are the Riemann sum Σ vᵢ·dtᵢ with vᵢ the speed AFTER the parameter's update for
  chunk i (`Clock::update` advances the parameter first, then the time with the new value).
-/
import KiraModel.Proofs.ClockLemmas

namespace K

namespace Parameter

/-- a speed parameter in the middle of a running tween to a fixed target speed (tween time `t`) -/
def MidTweenCs (p : Parameter ℝ (ClockSpeed ℝ)) (s tgt : ClockSpeed ℝ) (t : ℝ) (st : StartTime ℝ) (D : ℕ)
    (e : Easing ℝ) : Prop :=
  p.state = .tweening s (.fixed tgt) t ⟨st, D, e⟩ ∧ p.stagnant = false ∧ StartedNow st

/-- a speed parameter that has landed on a fixed target speed -/
def LandedCs (p : Parameter ℝ (ClockSpeed ℝ)) (tgt : ClockSpeed ℝ) : Prop :=
  p.state = .idle (.fixed tgt) ∧ p.stagnant = true ∧ p.raw = tgt

theorem update_midCs_before (p : Parameter ℝ (ClockSpeed ℝ)) (s tgt : ClockSpeed ℝ) (t : ℝ) (st : StartTime ℝ)
    (D : ℕ) (e : Easing ℝ) (dt : ℝ) (info : Info ℝ) (hp : MidTweenCs p s tgt t st D e) (hD : 0 < D)
    (hlt : t + dt < durToSecs D) :
    MidTweenCs (p.update twCs dt info).1 s tgt (t + dt) st D e
      ∧ (p.update twCs dt info).1.raw = ClockSpeed.lerp s tgt (e.apply ((t + dt) / durToSecs D)) := by
  obtain ⟨hs, hst, hstart⟩ := hp
  have hnle : ¬ ((durToSecs D : ℝ) ≤ t + dt) := not_le.mpr hlt
  have hD0 : D ≠ 0 := Nat.pos_iff_ne_zero.mp hD
  unfold update MidTweenCs
  simp only [hst, Bool.false_eq_true, if_false]
  unfold updateTween
  rcases hstart with rfl | rfl
  · simp only [hs, Bool.not_true, Bool.false_eq_true, if_false, hnle]
    unfold calcRaw
    simp only [hD0, if_false, Value.rawValue, Option.map_some, Tween.value, tweenValue, twCs]
    exact ⟨⟨trivial, trivial, Or.inl rfl⟩, trivial⟩
  · simp only [hs, if_true, Bool.not_true, Bool.false_eq_true, if_false, hnle]
    unfold calcRaw
    simp only [hD0, if_false, Value.rawValue, Option.map_some, Tween.value, tweenValue, twCs]
    exact ⟨⟨trivial, trivial, Or.inr rfl⟩, trivial⟩

theorem update_midCs_after (p : Parameter ℝ (ClockSpeed ℝ)) (s tgt : ClockSpeed ℝ) (t : ℝ) (st : StartTime ℝ)
    (D : ℕ) (e : Easing ℝ) (dt : ℝ) (info : Info ℝ) (hp : MidTweenCs p s tgt t st D e)
    (hge : (durToSecs D : ℝ) ≤ t + dt) :
    LandedCs (p.update twCs dt info).1 tgt := by
  obtain ⟨hs, hst, hstart⟩ := hp
  unfold update LandedCs
  simp only [hst, Bool.false_eq_true, if_false]
  unfold updateTween
  rcases hstart with rfl | rfl
  · simp only [hs, Bool.not_true, Bool.false_eq_true, if_false, hge, if_true, Value.isFixed]
    unfold calcRaw
    simp only [Value.rawValue]
    exact ⟨trivial, trivial, trivial⟩
  · simp only [hs, if_true, Bool.not_true, Bool.false_eq_true, if_false, hge, Value.isFixed]
    unfold calcRaw
    simp only [Value.rawValue]
    exact ⟨trivial, trivial, trivial⟩

theorem update_landedCs (p : Parameter ℝ (ClockSpeed ℝ)) (tgt : ClockSpeed ℝ) (dt : ℝ) (info : Info ℝ)
    (hp : LandedCs p tgt) : LandedCs (p.update twCs dt info).1 tgt := by
  obtain ⟨hs, hst, hr⟩ := hp
  rw [update_stagnant _ _ _ _ hst]
  exact ⟨hs, hst, hr⟩

/-- where a speed tween of duration `D` is after `t` seconds of tween time: still running (tween time
    exactly `t`), or landed on the target (`t` is then only a ghost: total time since the tween began) -/
def TweenAt (p : Parameter ℝ (ClockSpeed ℝ)) (s tgt : ClockSpeed ℝ) (t : ℝ) (st : StartTime ℝ) (D : ℕ)
    (e : Easing ℝ) : Prop :=
  (t < durToSecs D ∧ MidTweenCs p s tgt t st D e) ∨ ((durToSecs D : ℝ) ≤ t ∧ LandedCs p tgt)

end Parameter

namespace Clock
open Parameter

/-- **the closed form of a tweened clock speed** (C06's `start + (target − start)·ease(T/D)`, in
    `ClockSpeed::interpolate`'s reading: in the unit of the target), as ticks per second, `T` seconds after
    the tween began; the target speed from `D` on -/
noncomputable def speedAt (s tgt : ClockSpeed ℝ) (D : ℕ) (e : Easing ℝ) (T : ℝ) : ℝ :=
  if (durToSecs D : ℝ) ≤ T then tgt.asTicksPerSecond
  else (ClockSpeed.lerp s tgt (e.apply (T / durToSecs D))).asTicksPerSecond

/-- the Riemann sum `Σᵢ v(Tᵢ)·dtᵢ` with `Tᵢ = t + dt₁ + … + dtᵢ` (right end points: the speed after the
    parameter's update for chunk `i`) -/
noncomputable def riemann (s tgt : ClockSpeed ℝ) (D : ℕ) (e : Easing ℝ) : ℝ → List ℝ → ℝ
  | _, [] => 0
  | t, dt :: rest => speedAt s tgt D e (t + dt) * dt + riemann s tgt D e (t + dt) rest

/-- one update of a speed parameter in / after a tween: tween time advances by `dt`, the new value is the
    closed form at the new time -/
theorem tweenAt_update (p : Parameter ℝ (ClockSpeed ℝ)) (s tgt : ClockSpeed ℝ) (t : ℝ) (st : StartTime ℝ)
    (D : ℕ) (hD : 0 < D) (e : Easing ℝ) (dt : ℝ) (hdt : 0 ≤ dt) (info : Info ℝ)
    (hp : TweenAt p s tgt t st D e) :
    TweenAt (p.update twCs dt info).1 s tgt (t + dt) st D e
      ∧ (p.update twCs dt info).1.raw.asTicksPerSecond = speedAt s tgt D e (t + dt) := by
  unfold speedAt
  rcases hp with ⟨ht, hm⟩ | ⟨ht, hl⟩
  · by_cases hlt : t + dt < durToSecs D
    · obtain ⟨h1, h2⟩ := update_midCs_before p s tgt t st D e dt info hm hD hlt
      refine ⟨Or.inl ⟨hlt, h1⟩, ?_⟩
      rw [if_neg (not_le.mpr hlt), h2]
    · have hge : (durToSecs D : ℝ) ≤ t + dt := not_lt.mp hlt
      have h1 := update_midCs_after p s tgt t st D e dt info hm hge
      refine ⟨Or.inr ⟨hge, h1⟩, ?_⟩
      rw [if_pos hge, h1.2.2]
  · have hge : (durToSecs D : ℝ) ≤ t + dt := by linarith
    have h1 := update_landedCs p tgt dt info hl
    refine ⟨Or.inr ⟨hge, h1⟩, ?_⟩
    rw [if_pos hge, h1.2.2]

/-- **a run of updates of a ticking clock whose speed is being tweened**: the clock advances by the
    Riemann sum of the closed-form speed, for every partition -/
theorem run_tween (info : Info ℝ) (s tgt : ClockSpeed ℝ) (st : StartTime ℝ) (D : ℕ) (hD : 0 < D) (e : Easing ℝ) :
    ∀ (dts : List ℝ) (c : Clock ℝ) (t : ℝ), c.ticking = true → WF c → TweenAt c.speed s tgt t st D e →
      (∀ dt ∈ dts, 0 ≤ dt) → (∀ T, t ≤ T → 0 ≤ speedAt s tgt D e T) →
      val (c.run info dts) = val c + riemann s tgt D e t dts ∧ WF (c.run info dts)
        ∧ (c.run info dts).ticking = true ∧ TweenAt (c.run info dts).speed s tgt (t + dts.sum) st D e := by
  intro dts
  induction dts with
  | nil => intro c t ht hwf hs _ _; exact ⟨by simp [run, riemann], hwf, ht, by simpa [run] using hs⟩
  | cons dt rest ih =>
    intro c t ht hwf hs hnn hv
    have hdt : 0 ≤ dt := hnn dt (by simp)
    obtain ⟨hs1, hveq⟩ := tweenAt_update c.speed s tgt t st D hD e dt hdt info hs
    obtain ⟨hval, hwf1, ht1, hsp, _, _⟩ :=
      update_ticking c dt info ht hwf hdt (by rw [hveq]; exact hv _ (by linarith))
    obtain ⟨hval2, hwf2, ht2, hs2⟩ :=
      ih (c.update dt info).1 (t + dt) ht1 hwf1 (by rw [hsp]; exact hs1)
        (fun x hx => hnn x (by simp [hx])) (fun T hT => hv T (by linarith))
    refine ⟨?_, hwf2, ht2, ?_⟩
    · simp only [run, riemann]
      rw [hval2, hval, hveq]; ring
    · simp only [run, List.sum_cons]
      rw [← add_assoc]; exact hs2

/-- the Riemann sum lies between `lo·Σdt` and `hi·Σdt` when the speed lies between `lo` and `hi` -/
theorem riemann_bounds (s tgt : ClockSpeed ℝ) (D : ℕ) (e : Easing ℝ) (lo hi : ℝ) :
    ∀ (dts : List ℝ) (t : ℝ), (∀ dt ∈ dts, 0 ≤ dt) →
      (∀ T, t ≤ T → lo ≤ speedAt s tgt D e T ∧ speedAt s tgt D e T ≤ hi) →
      lo * dts.sum ≤ riemann s tgt D e t dts ∧ riemann s tgt D e t dts ≤ hi * dts.sum := by
  intro dts
  induction dts with
  | nil => intro t _ _; simp [riemann]
  | cons dt rest ih =>
    intro t hnn hb
    have hdt : 0 ≤ dt := hnn dt (by simp)
    obtain ⟨h1, h2⟩ := hb (t + dt) (by linarith)
    obtain ⟨i1, i2⟩ := ih (t + dt) (fun x hx => hnn x (by simp [hx])) (fun T hT => hb T (by linarith))
    have a1 : lo * dt ≤ speedAt s tgt D e (t + dt) * dt := mul_le_mul_of_nonneg_right h1 hdt
    have a2 : speedAt s tgt D e (t + dt) * dt ≤ hi * dt := mul_le_mul_of_nonneg_right h2 hdt
    simp only [riemann, List.sum_cons, mul_add]
    constructor <;> linarith

/-- the closed form for a target in ticks per second: `a + (b − a)·ease(T/D)`, `a` the starting speed in
    ticks per second; `b` from `D` on -/
theorem speedAt_tps (s : ClockSpeed ℝ) (b : ℝ) (D : ℕ) (e : Easing ℝ) (T : ℝ) :
    speedAt s (.ticksPerSecond b) D e T =
      if (durToSecs D : ℝ) ≤ T then b
      else s.asTicksPerSecond + (b - s.asTicksPerSecond) * e.apply (T / durToSecs D) := by
  unfold speedAt
  simp [ClockSpeed.lerp, ClockSpeed.asTicksPerSecond, lerp64]

/-- between two speeds in ticks per second, with an easing that stays in [0, 1] on [0, 1], the tweened
    speed stays between the two -/
theorem speedAt_tps_range (s : ClockSpeed ℝ) (b : ℝ) (D : ℕ) (hD : 0 < D) (e : Easing ℝ)
    (he : ∀ x, 0 ≤ x → x ≤ 1 → 0 ≤ e.apply x ∧ e.apply x ≤ 1) (T : ℝ) (hT : 0 ≤ T) :
    min s.asTicksPerSecond b ≤ speedAt s (.ticksPerSecond b) D e T
      ∧ speedAt s (.ticksPerSecond b) D e T ≤ max s.asTicksPerSecond b := by
  rw [speedAt_tps]
  set a := s.asTicksPerSecond
  have hpos : (0 : ℝ) < durToSecs D := durToSecs_pos D hD
  by_cases h : (durToSecs D : ℝ) ≤ T
  · rw [if_pos h]; exact ⟨min_le_right _ _, le_max_right _ _⟩
  · rw [if_neg h]
    have hlt : T < durToSecs D := not_le.mp h
    have hx0 : 0 ≤ T / durToSecs D := div_nonneg hT hpos.le
    have hx1 : T / durToSecs D ≤ 1 := by rw [div_le_one hpos]; exact hlt.le
    obtain ⟨e0, e1⟩ := he _ hx0 hx1
    set y := e.apply (T / durToSecs D)
    rcases le_total a b with hab | hab
    · rw [min_eq_left hab, max_eq_right hab]
      constructor <;> nlinarith
    · rw [min_eq_right hab, max_eq_left hab]
      constructor <;> nlinarith

/-- a landed speed parameter is a steady speed (the constant-speed theorems apply) -/
theorem landed_steady (c : Clock ℝ) (tgt : ClockSpeed ℝ) (h : LandedCs c.speed tgt) :
    SteadySpeed c tgt.asTicksPerSecond := by
  unfold SteadySpeed; rw [h.2.2]; exact ⟨h.2.1, rfl⟩

/-- the speeds a run actually uses (after each parameter update) are all non-negative -/
def NonnegSpeeds (info : Info ℝ) : Clock ℝ → List ℝ → Prop
  | _, [] => True
  | c, dt :: rest =>
    0 ≤ (c.speed.update twCs dt info).1.raw.asTicksPerSecond ∧ NonnegSpeeds info (c.update dt info).1 rest

/-- one update never moves the time backwards when the speed it uses is non-negative (ticking or not) -/
theorem update_mono (c : Clock ℝ) (dt : ℝ) (info : Info ℝ) (hwf : WF c) (hdt : 0 ≤ dt)
    (hv : 0 ≤ (c.speed.update twCs dt info).1.raw.asTicksPerSecond) :
    val c ≤ val (c.update dt info).1 ∧ WF (c.update dt info).1 := by
  by_cases ht : c.ticking = true
  · obtain ⟨hval, hwf1, _⟩ := update_ticking c dt info ht hwf hdt hv
    refine ⟨?_, hwf1⟩
    rw [hval]; have := mul_nonneg hv hdt; linarith
  · have hf : c.ticking = false := by simpa using ht
    rw [update_not_ticking c dt info hf]
    exact ⟨le_rfl, hwf⟩

theorem run_append (info : Info ℝ) : ∀ (xs ys : List ℝ) (c : Clock ℝ),
    c.run info (xs ++ ys) = (c.run info xs).run info ys := by
  intro xs
  induction xs with
  | nil => intro ys c; rfl
  | cons x xs ih => intro ys c; simp only [List.cons_append, run]; exact ih ys _

/-- a run never moves the time backwards when every speed it uses is non-negative -/
theorem run_mono (info : Info ℝ) : ∀ (dts : List ℝ) (c : Clock ℝ), WF c → (∀ dt ∈ dts, 0 ≤ dt) →
    NonnegSpeeds info c dts → val c ≤ val (c.run info dts) ∧ WF (c.run info dts) := by
  intro dts
  induction dts with
  | nil => intro c hwf _ _; exact ⟨le_rfl, hwf⟩
  | cons dt rest ih =>
    intro c hwf hnn hs
    obtain ⟨h1, hwf1⟩ := update_mono c dt info hwf (hnn dt (by simp)) hs.1
    obtain ⟨h2, hwf2⟩ := ih (c.update dt info).1 hwf1 (fun x hx => hnn x (by simp [hx])) hs.2
    exact ⟨le_trans h1 h2, hwf2⟩

theorem nonnegSpeeds_append (info : Info ℝ) : ∀ (xs ys : List ℝ) (c : Clock ℝ),
    NonnegSpeeds info c (xs ++ ys) → NonnegSpeeds info c xs ∧ NonnegSpeeds info (c.run info xs) ys := by
  intro xs
  induction xs with
  | nil => intro ys c h; exact ⟨trivial, h⟩
  | cons x xs ih =>
    intro ys c h
    obtain ⟨a, b⟩ := ih ys _ h.2
    exact ⟨⟨h.1, a⟩, b⟩

end Clock
end K
