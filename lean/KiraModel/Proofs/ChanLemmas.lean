/-
  Proofs/ChanLemmas.lean — the inductive invariant of the command-channel LTS
  (Model/Conc/CommandChan.lean).  Core Lean only.
-/
import KiraModel.Model.Conc.CommandChan

namespace K.Chan
variable {V : Type}

/-- ghost tag of a cell (0 for `None`) -/
def tagOf (c : Cell V) : Nat := match c.a with | some (t, _) => t | none => 0

/-- what the writer has stored so far into its input buffer -/
def WInv (s : St V) : Prop :=
  match s.wpc with
  | .idle => True
  | .half x => (s.buf s.inp).a = some x ∧ x.1 = s.nPub + 1
  | .stored x => s.buf s.inp = .full (some x) ∧ x.1 = s.nPub + 1

/-- what the reader knows about its output buffer -/
def RInv (s : St V) : Prop :=
  match s.rpc with
  | .idle => ∀ x ∈ s.delivered, x.1 ≤ tagOf (s.buf s.out)
  | .tested => s.dirty = true ∧ ∀ x ∈ s.delivered, x.1 ≤ tagOf (s.buf s.out)
  | .swapped => (∀ x ∈ s.delivered, x.1 < tagOf (s.buf s.out))
      ∧ ∃ x, s.taken = some x ∧ s.buf s.out = .full (some x)
  | .half h => (∀ x ∈ s.delivered, x.1 < tagOf (s.buf s.out))
      ∧ ∃ x, s.taken = some x ∧ s.buf s.out = .full (some x) ∧ h = some x

/-- The inductive invariant. -/
structure Inv (s : St V) : Prop where
  /-- input, back, output indices are pairwise different -/
  perm : s.inp ≠ s.back ∧ s.back ≠ s.out ∧ s.inp ≠ s.out
  /-- every buffer the writer is not writing is consistent -/
  cons : ∀ i, i ≠ s.inp → (s.buf i).a = (s.buf i).b
  w : WInv s
  /-- a dirty back buffer holds the latest published value -/
  dirtyBack : s.dirty = true → s.buf s.back = .full s.lastPub ∧ ∃ v, s.lastPub = some (s.nPub, v)
  tags : ∀ i, i ≠ s.inp → tagOf (s.buf i) ≤ s.nPub
  outLt : s.dirty = true → tagOf (s.buf s.out) < s.nPub
  r : RInv s
  delSorted : s.delivered.Pairwise (fun x y => x.1 < y.1)
  delPub : ∀ x ∈ s.delivered, x ∈ s.pubs
  takenPub : ∀ x, s.taken = some x → x ∈ s.pubs
  lastIn : ∀ x, s.lastPub = some x → x ∈ s.pubs
  pubTags : ∀ x ∈ s.pubs, 1 ≤ x.1 ∧ x.1 ≤ s.nPub
  pubUniq : ∀ x ∈ s.pubs, ∀ y ∈ s.pubs, x.1 = y.1 → x = y

theorem buf_init (i : Idx) : (init : St V).buf i = .full none := rfl

theorem inv_init : Inv (init : St V) := by
  refine ⟨by simp [init], ?_, trivial, by simp [init], ?_, by simp [init], ?_, by simp [init], by simp [init],
    by simp [init], by simp [init], by simp [init], by simp [init]⟩
  · intro i _; rw [buf_init]; rfl
  · intro i _; rw [buf_init]; simp [tagOf, Cell.full, init]
  · simp [RInv, init]

theorem tagOf_full_some (x : Nat × V) : tagOf (Cell.full (some x)) = x.1 := by
  simp [tagOf, Cell.full]

theorem inv_step (s s' : St V) (l : Label V) (r : Ret V) (h : Inv s) (hs : step s l = some (s', r)) : Inv s' := by
  obtain ⟨p, c, w, db, tg, ol, ri, ds, dp, tp, li, pt, pu⟩ := h
  cases l with
  | wHalf1 v =>
    simp only [step] at hs
    split at hs
    · simp at hs
      obtain ⟨rfl, _⟩ := hs
      refine ⟨?_, ?_, ?_, ?_, ?_, ?_, ?_, ?_, ?_, ?_, ?_, ?_, ?_⟩ <;> simp only [WInv, RInv] at * <;> grind
    · simp at hs
  | wHalf2 =>
    simp only [step] at hs
    split at hs
    · simp at hs
      obtain ⟨rfl, _⟩ := hs
      refine ⟨?_, ?_, ?_, ?_, ?_, ?_, ?_, ?_, ?_, ?_, ?_, ?_, ?_⟩ <;> simp only [WInv, RInv, Cell.full] at * <;> grind
    · simp at hs
  | wPublish =>
    simp only [step] at hs
    split at hs
    · simp at hs
      obtain ⟨rfl, _⟩ := hs
      refine ⟨?_, ?_, ?_, ?_, ?_, ?_, ?_, ?_, ?_, ?_, ?_, ?_, ?_⟩ <;> simp only [WInv, RInv, Cell.full, tagOf] at * <;> grind
    · simp at hs
  | rTest =>
    simp only [step] at hs
    split at hs
    · split at hs
      · simp at hs
        obtain ⟨rfl, _⟩ := hs
        refine ⟨?_, ?_, ?_, ?_, ?_, ?_, ?_, ?_, ?_, ?_, ?_, ?_, ?_⟩ <;> simp only [WInv, RInv, Cell.full, tagOf] at * <;> grind
      · simp at hs
        obtain ⟨rfl, _⟩ := hs
        refine ⟨?_, ?_, ?_, ?_, ?_, ?_, ?_, ?_, ?_, ?_, ?_, ?_, ?_⟩ <;> simp only [WInv, RInv, Cell.full, tagOf] at * <;> grind
    · simp at hs
  | rSwap =>
    simp only [step] at hs
    split at hs
    · simp at hs
      obtain ⟨rfl, _⟩ := hs
      refine ⟨?_, ?_, ?_, ?_, ?_, ?_, ?_, ?_, ?_, ?_, ?_, ?_, ?_⟩ <;> simp only [WInv, RInv, Cell.full, tagOf] at * <;> grind
    · simp at hs
  | rRead1 =>
    simp only [step] at hs
    split at hs
    · simp at hs
      obtain ⟨rfl, _⟩ := hs
      refine ⟨?_, ?_, ?_, ?_, ?_, ?_, ?_, ?_, ?_, ?_, ?_, ?_, ?_⟩ <;> simp only [WInv, RInv, Cell.full, tagOf] at * <;> grind
    · simp at hs
  | rRead2 =>
    simp only [step] at hs
    split at hs
    · simp at hs
      obtain ⟨rfl, _⟩ := hs
      refine ⟨?_, ?_, ?_, ?_, ?_, ?_, ?_, ?_, ?_, ?_, ?_, ?_, ?_⟩ <;> simp only [WInv, RInv, Cell.full, tagOf] at * <;> grind
    · simp at hs


theorem inv_reachable {s : St V} (h : Reachable s) : Inv s := by
  induction h with
  | init => exact inv_init
  | step _ hs ih => exact inv_step _ _ _ _ ih hs

/-- a complete `write` from a quiescent writer -/
theorem writeOp_spec {s : St V} (h : Reachable s) (hw : s.wpc = .idle) (v : V) :
    Reachable (writeOp s v) ∧ (writeOp s v).wpc = .idle ∧ (writeOp s v).rpc = s.rpc
    ∧ (writeOp s v).dirty = true ∧ (writeOp s v).lastPub = some (s.nPub + 1, v)
    ∧ (writeOp s v).nPub = s.nPub + 1 ∧ (writeOp s v).delivered = s.delivered
    ∧ (writeOp s v).pubs = s.pubs ++ [(s.nPub + 1, v)] := by
  have e1 : ∃ s1, step s (.wHalf1 v) = some (s1, .none) ∧ s1.wpc = .half (s.nPub + 1, v) ∧ s1.rpc = s.rpc
      ∧ s1.nPub = s.nPub ∧ s1.delivered = s.delivered ∧ s1.pubs = s.pubs := by
    simp only [step, hw]; exact ⟨_, rfl, rfl, rfl, rfl, rfl, rfl⟩
  obtain ⟨s1, h1, w1, r1, n1, d1, p1⟩ := e1
  have e2 : ∃ s2, step s1 .wHalf2 = some (s2, .none) ∧ s2.wpc = .stored (s.nPub + 1, v) ∧ s2.rpc = s.rpc
      ∧ s2.nPub = s.nPub ∧ s2.delivered = s.delivered ∧ s2.pubs = s.pubs := by
    simp only [step, w1]; exact ⟨_, rfl, rfl, r1, n1, d1, p1⟩
  obtain ⟨s2, h2, w2, r2, n2, d2, p2⟩ := e2
  have e3 : ∃ s3, step s2 .wPublish = some (s3, .none) ∧ s3.wpc = .idle ∧ s3.rpc = s.rpc
      ∧ s3.dirty = true ∧ s3.lastPub = some (s.nPub + 1, v) ∧ s3.nPub = s.nPub + 1 ∧ s3.delivered = s.delivered
      ∧ s3.pubs = s.pubs ++ [(s.nPub + 1, v)] := by
    simp only [step, w2]; exact ⟨_, rfl, rfl, r2, rfl, rfl, by simp [n2], d2, by simp [p2]⟩
  obtain ⟨s3, h3, w3, r3, dd3, l3, n3, d3, p3⟩ := e3
  have hw : writeOp s v = s3 := by simp [writeOp, h1, h2, h3]
  rw [hw]
  exact ⟨Reachable.step (Reachable.step (Reachable.step h h1) h2) h3, w3, r3, dd3, l3, n3, d3, p3⟩

/-- a complete `read` from a quiescent reader when nothing new was published: `None`, no change -/
theorem readOp_clean {s : St V} (hr : s.rpc = .idle) (hd : s.dirty = false) : readOp s = (s, none) := by
  simp [readOp, step, hr, hd]

/-- a complete `read` from a quiescent reader after at least one publish: the latest published value -/
theorem readOp_dirty {s : St V} (h : Reachable s) (hr : s.rpc = .idle) (hd : s.dirty = true) :
    ∃ x, s.lastPub = some x ∧ (readOp s).2 = some x.2 ∧ Reachable (readOp s).1 ∧ (readOp s).1.rpc = .idle
      ∧ (readOp s).1.dirty = false ∧ (readOp s).1.wpc = s.wpc ∧ (readOp s).1.delivered = s.delivered ++ [x]
      ∧ (readOp s).1.nPub = s.nPub := by
  have inv := inv_reachable h
  obtain ⟨hb, v, hl⟩ := inv.dirtyBack hd
  have e1 : step s .rTest = some ({ s with rpc := .tested }, .none) := by simp [step, hr, hd]
  have e2 : ∃ s2, step { s with rpc := .tested } .rSwap = some (s2, .none) ∧ s2.rpc = .swapped ∧ s2.out = s.back
      ∧ s2.buf = s.buf ∧ s2.dirty = false ∧ s2.wpc = s.wpc ∧ s2.delivered = s.delivered ∧ s2.nPub = s.nPub := by
    simp only [step]; exact ⟨_, rfl, rfl, rfl, rfl, rfl, rfl, rfl, rfl⟩
  obtain ⟨s2, h2, r2, o2, b2, dd2, w2, d2, n2⟩ := e2
  have hbuf : s2.buf s2.out = .full (some (s.nPub, v)) := by rw [b2, o2, hb, hl]
  have e3 : ∃ s3, step s2 .rRead1 = some (s3, .none) ∧ s3.rpc = .half (some (s.nPub, v)) ∧ s3.out = s2.out
      ∧ s3.buf = s2.buf ∧ s3.dirty = false ∧ s3.wpc = s.wpc ∧ s3.delivered = s.delivered ∧ s3.nPub = s.nPub := by
    simp only [step, r2]; exact ⟨_, rfl, by simp [hbuf, Cell.full], rfl, rfl, dd2, w2, d2, n2⟩
  obtain ⟨s3, h3, r3, o3, b3, dd3, w3, d3, n3⟩ := e3
  have hbuf3 : s3.buf s3.out = .full (some (s.nPub, v)) := by rw [b3, o3, hbuf]
  have e4 : ∃ s4, step s3 .rRead2 = some (s4, .read (.full (some (s.nPub, v)))) ∧ s4.rpc = .idle
      ∧ s4.dirty = false ∧ s4.wpc = s.wpc ∧ s4.delivered = s.delivered ++ [(s.nPub, v)] ∧ s4.nPub = s.nPub := by
    simp only [step, r3, hbuf3, Cell.full]; exact ⟨_, rfl, rfl, dd3, w3, by simp [d3], n3⟩
  obtain ⟨s4, h4, r4, dd4, w4, d4, n4⟩ := e4
  have hro : readOp s = (s4, some v) := by simp [readOp, e1, h2, h3, h4, Cell.full]
  rw [hro]
  exact ⟨(s.nPub, v), hl, rfl, Reachable.step (Reachable.step (Reachable.step (Reachable.step h e1) h2) h3) h4,
    r4, dd4, w4, d4, n4⟩

/-- a burst of complete writes from a quiescent writer -/
theorem burst_spec {s : St V} (h : Reachable s) (hw : s.wpc = .idle) (vs : List V) (hne : vs ≠ []) :
    Reachable (vs.foldl writeOp s) ∧ (vs.foldl writeOp s).wpc = .idle ∧ (vs.foldl writeOp s).rpc = s.rpc
    ∧ (vs.foldl writeOp s).dirty = true ∧ ∃ t, (vs.foldl writeOp s).lastPub = some (t, vs.getLast hne) := by
  induction vs generalizing s with
  | nil => exact absurd rfl hne
  | cons v rest ih =>
    obtain ⟨h1, w1, r1, d1, l1, _⟩ := writeOp_spec h hw v
    cases rest with
    | nil => exact ⟨h1, w1, r1, d1, _, l1⟩
    | cons w rest' =>
      obtain ⟨h2, w2, r2, d2, t, l2⟩ := ih h1 w1 (by simp)
      simp only [List.foldl_cons] at h2 w2 r2 d2 l2 ⊢
      refine ⟨h2, w2, by rw [r2, r1], d2, t, ?_⟩
      simpa [List.getLast_cons] using l2

/-- reading a list of distinct readers once each: what every channel looks like afterwards and
    what every read returned -/
theorem drain_spec {κ : Type} [DecidableEq κ] (ks : List κ) (hnd : ks.Nodup) (p : Prod κ V) :
    (∀ k, (p.drain ks).1 k = if k ∈ ks then (readOp (p k)).1 else p k)
    ∧ (p.drain ks).2 = ks.map (fun k => (k, (readOp (p k)).2)) := by
  induction ks generalizing p with
  | nil => simp [Prod.drain]
  | cons k rest ih =>
    have hnd' := List.nodup_cons.mp hnd
    obtain ⟨h1, h2⟩ := ih hnd'.2 (p.readOp k).1
    simp only [Prod.drain]
    constructor
    · intro k'
      rw [h1 k']
      by_cases hk : k' = k
      · subst hk; simp [hnd'.1, Prod.readOp]
      · by_cases hr : k' ∈ rest <;> simp [hk, hr, Prod.readOp]
    · rw [h2]
      simp only [List.map_cons, Prod.readOp]
      congr 1
      apply List.map_congr_left
      intro k' hk'
      have : k' ≠ k := by intro e; subst e; exact hnd'.1 hk'
      simp [this]

end K.Chan
