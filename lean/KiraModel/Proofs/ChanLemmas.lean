/-
  Proofs/ChanLemmas.lean — the inductive invariant of the command-channel LTS
  (Model/Conc/CommandChan.lean).  Core Lean only.
-/
import KiraModel.Model.Conc.CommandChan

namespace K.Chan
variable {V : Type}

/-- ghost tag of a cell (0 for `None`) -/
def tagOf (c : Cell V) : Nat := match c.a with | some (t, _) => t | none => 0

/-- what the writer has stored so far into its input buffer -/
def WInv (s : St V) : Prop :=
  match s.wpc with
  | .idle => True
  | .half x => (s.buf s.inp).a = some x ∧ x.1 = s.nPub + 1
  | .stored x => s.buf s.inp = .full (some x) ∧ x.1 = s.nPub + 1

/-- what the reader knows about its output buffer -/
def RInv (s : St V) : Prop :=
  match s.rpc with
  | .idle => ∀ x ∈ s.delivered, x.1 ≤ tagOf (s.buf s.out)
  | .tested => s.dirty = true ∧ ∀ x ∈ s.delivered, x.1 ≤ tagOf (s.buf s.out)
  | .swapped => (∀ x ∈ s.delivered, x.1 < tagOf (s.buf s.out))
      ∧ ∃ x, s.taken = some x ∧ s.buf s.out = .full (some x)
  | .half h => (∀ x ∈ s.delivered, x.1 < tagOf (s.buf s.out))
      ∧ ∃ x, s.taken = some x ∧ s.buf s.out = .full (some x) ∧ h = some x

/-- The inductive invariant. -/
structure Inv (s : St V) : Prop where
  /-- input, back, output indices are pairwise different -/
  perm : s.inp ≠ s.back ∧ s.back ≠ s.out ∧ s.inp ≠ s.out
  /-- every buffer the writer is not writing is consistent -/
  cons : ∀ i, i ≠ s.inp → (s.buf i).a = (s.buf i).b
  w : WInv s
  /-- a dirty back buffer holds the latest published value -/
  dirtyBack : s.dirty = true → s.buf s.back = .full s.lastPub ∧ ∃ v, s.lastPub = some (s.nPub, v)
  tags : ∀ i, i ≠ s.inp → tagOf (s.buf i) ≤ s.nPub
  outLt : s.dirty = true → tagOf (s.buf s.out) < s.nPub
  r : RInv s
  delSorted : s.delivered.Pairwise (fun x y => x.1 < y.1)
  delPub : ∀ x ∈ s.delivered, x ∈ s.pubs
  takenPub : ∀ x, s.taken = some x → x ∈ s.pubs
  lastIn : ∀ x, s.lastPub = some x → x ∈ s.pubs
  pubTags : ∀ x ∈ s.pubs, 1 ≤ x.1 ∧ x.1 ≤ s.nPub
  pubUniq : ∀ x ∈ s.pubs, ∀ y ∈ s.pubs, x.1 = y.1 → x = y

theorem buf_init (i : Idx) : (init : St V).buf i = .full none := rfl

theorem inv_init : Inv (init : St V) := by
  refine ⟨by simp [init], ?_, trivial, by simp [init], ?_, by simp [init], ?_, by simp [init], by simp [init],
    by simp [init], by simp [init], by simp [init], by simp [init]⟩
  · intro i _; rw [buf_init]; rfl
  · intro i _; rw [buf_init]; simp [tagOf, Cell.full, init]
  · simp [RInv, init]

theorem tagOf_full_some (x : Nat × V) : tagOf (Cell.full (some x)) = x.1 := by
  simp [tagOf, Cell.full]

theorem inv_step (s s' : St V) (l : Label V) (r : Ret V) (h : Inv s) (hs : step s l = some (s', r)) : Inv s' := by
  obtain ⟨p, c, w, db, tg, ol, ri, ds, dp, tp, li, pt, pu⟩ := h
  cases l with
  | wHalf1 v =>
    simp only [step] at hs
    split at hs
    · simp at hs
      obtain ⟨rfl, _⟩ := hs
      refine ⟨?_, ?_, ?_, ?_, ?_, ?_, ?_, ?_, ?_, ?_, ?_, ?_, ?_⟩ <;> simp only [WInv, RInv] at * <;> grind
    · simp at hs
  | wHalf2 =>
    simp only [step] at hs
    split at hs
    · simp at hs
      obtain ⟨rfl, _⟩ := hs
      refine ⟨?_, ?_, ?_, ?_, ?_, ?_, ?_, ?_, ?_, ?_, ?_, ?_, ?_⟩ <;> simp only [WInv, RInv, Cell.full] at * <;> grind
    · simp at hs
  | wPublish =>
    simp only [step] at hs
    split at hs
    · simp at hs
      obtain ⟨rfl, _⟩ := hs
      refine ⟨?_, ?_, ?_, ?_, ?_, ?_, ?_, ?_, ?_, ?_, ?_, ?_, ?_⟩ <;> simp only [WInv, RInv, Cell.full, tagOf] at * <;> grind
    · simp at hs
  | rTest =>
    simp only [step] at hs
    split at hs
    · split at hs
      · simp at hs
        obtain ⟨rfl, _⟩ := hs
        refine ⟨?_, ?_, ?_, ?_, ?_, ?_, ?_, ?_, ?_, ?_, ?_, ?_, ?_⟩ <;> simp only [WInv, RInv, Cell.full, tagOf] at * <;> grind
      · simp at hs
        obtain ⟨rfl, _⟩ := hs
        refine ⟨?_, ?_, ?_, ?_, ?_, ?_, ?_, ?_, ?_, ?_, ?_, ?_, ?_⟩ <;> simp only [WInv, RInv, Cell.full, tagOf] at * <;> grind
    · simp at hs
  | rSwap =>
    simp only [step] at hs
    split at hs
    · simp at hs
      obtain ⟨rfl, _⟩ := hs
      refine ⟨?_, ?_, ?_, ?_, ?_, ?_, ?_, ?_, ?_, ?_, ?_, ?_, ?_⟩ <;> simp only [WInv, RInv, Cell.full, tagOf] at * <;> grind
    · simp at hs
  | rRead1 =>
    simp only [step] at hs
    split at hs
    · simp at hs
      obtain ⟨rfl, _⟩ := hs
      refine ⟨?_, ?_, ?_, ?_, ?_, ?_, ?_, ?_, ?_, ?_, ?_, ?_, ?_⟩ <;> simp only [WInv, RInv, Cell.full, tagOf] at * <;> grind
    · simp at hs
  | rRead2 =>
    simp only [step] at hs
    split at hs
    · simp at hs
      obtain ⟨rfl, _⟩ := hs
      refine ⟨?_, ?_, ?_, ?_, ?_, ?_, ?_, ?_, ?_, ?_, ?_, ?_, ?_⟩ <;> simp only [WInv, RInv, Cell.full, tagOf] at * <;> grind
    · simp at hs


theorem inv_reachable {s : St V} (h : Reachable s) : Inv s := by
  induction h with
  | init => exact inv_init
  | step _ hs ih => exact inv_step _ _ _ _ ih hs

end K.Chan
