/-
  StreamLoopLemmas.lean — `set_loop_region` and `seek_by` taken by the decoder's `run` (C09, continuation of
  StreamSeekLemmas.lean).

  `run` reads its three command slots in a fixed order (`set_loop_region`, `seek_by`, `seek_to`), each moves only the
  decoder transport (and the decoder), none flushes the ring.  So every one of them leaves the state
  "frames buffered before ++ walk re-based at the new transport" — `SeekInv` of StreamSeekLemmas.
-/
import KiraModel.Proofs.StreamSeekLemmas

namespace K
namespace Streaming

open StaticSound
open Wav (Err)
open Dec (Decoder)

/-- **`produce` from any playing transport starts the re-based walk**: a state with no decoder command pending,
    room in the ring, decoder not at the end, transport `T` playing with a valid loop region — whatever is buffered,
    `produce` appends the first entry of the walk re-based at `T` and leaves `SeekInv … 1 2` -/
theorem produce_rebased {σ : Type} {W : World} (hW : W.Ok) {D : Decoder σ ℝ} {pos : σ → Nat} {good : σ → Prop}
    (C : Dec.Contract D W.frames.toList pos good) {s1 : Sys σ ℝ} (hin : StreamIn W pos good s1)
    (hTv : s1.transport.ValidLoop W.n) (hTp : s1.transport.playing = true)
    (hroom : s1.ring.isFull = false) (hre : s1.reachedEnd = false) (hcap : s1.ring.cap = bufferSize)
    (hno : s1.cmds.setLoopRegion = none ∧ s1.cmds.seekBy = none ∧ s1.cmds.seekTo = none)
    (fuel : Nat) (hfuel : W.frames.size < fuel) :
    (W.rebase s1.transport).Ok ∧
    SeekInv (W.rebase s1.transport) pos good (Sys.produce D fuel s1).2 s1.ring.items 1 2 ∧
    (Sys.produce D fuel s1).2.ring.items =
      s1.ring.items ++ [⟨W.srcAt s1.transport.position, s1.transport.position⟩] := by
  have hW' : (W.rebase s1.transport).Ok := W.rebase_ok hW _ hTv hTp
  have C' : Dec.Contract D (W.rebase s1.transport).frames.toList pos good := C
  have hroom' : s1.ring.items.length + (1 - 1) < s1.ring.cap := by
    have := hroom
    unfold Ring.isFull at this
    simpa using this
  obtain ⟨ds'', hinv'', hp⟩ := produce_old (W := W.rebase s1.transport) (old := s1.ring.items) (a := 1) (m := 1)
    hW' C' (s := s1) ⟨hin.cfg_slice, hin.cfg_n, hin.inv⟩
    (by rw [World.ringSlice_empty _ 1 1 (Nat.le_refl _)]; simp) rfl (Nat.le_refl _) (Nat.le_refl _) hroom' hre
    fuel hfuel
  rw [hp]
  refine ⟨hW', ?_, ?_⟩
  · exact
      { tIn := ⟨hin.cfg_slice, hin.cfg_n, hinv''⟩
        ring := rfl
        transport := rfl
        a_pos := Nat.le_refl _
        a_le := by omega
        played := fun k hk => by
          have : k = 0 := by omega
          subst this; exact hTp
        reached := rfl
        noSeek := hno
        cap := hcap }
  · show s1.ring.items ++ (W.rebase s1.transport).ringSlice 1 2 = _
    rfl

/-! ### `set_loop_region` -/

/-- the loop region (in frames) `set_loop_region r` asks the transport for -/
noncomputable def loopSamples {σ : Type} (s : Sys σ ℝ) (r : Option (Region ℝ)) : Option (Nat × Nat) :=
  r.map (fun r => r.toSamples s.sampleRate s.cfg.numFrames)

/-- the decoder transport after `set_loop_region r`: `Transport::set_loop_region` — position and `playing` kept,
    the region replaced (an empty / inverted one dropped: `validLoop`) -/
noncomputable def loopT {σ : Type} (s : Sys σ ℝ) (r : Option (Region ℝ)) : Transport :=
  s.transport.setLoopRegion (loopSamples s r)

theorem loopT_closed {σ : Type} (s : Sys σ ℝ) (r : Option (Region ℝ)) :
    loopT s r = { s.transport with loopRegion := Transport.validLoop (loopSamples s r) } := rfl

/-- `run` with only a `set_loop_region r` pending = the transport's region replaced (slot emptied), then `produce` -/
theorem run_setLoop {σ : Type} (D : Decoder σ ℝ) (fuel : Nat) (s : Sys σ ℝ) (h0 : s.core.shared ≠ .stopped)
    (hd : s.soundDropped = false) (hfull : s.ring.isFull = false) (r : Option (Region ℝ))
    (h1 : s.cmds.setLoopRegion = some r) (h2 : s.cmds.seekBy = none) (h3 : s.cmds.seekTo = none) :
    Sys.run D fuel s =
      Sys.produce D fuel { s with cmds := { s.cmds with setLoopRegion := none }, transport := loopT s r } := by
  unfold Sys.run
  simp only [h0, if_false, hd, hfull, Bool.false_eq_true]
  unfold Sys.readLoopCmd
  simp only [h1]
  unfold Sys.readSeekByCmd
  simp only [h2]
  unfold Sys.readSeekToCmd
  simp only [h3]
  simp [hd, loopT, loopSamples]

/-- a sound in the middle of a seek-free history (ring = entries `a … m − 1` of the walk of `W`, decoder alive and
    not at the end, ring not full) whose handle has just written `set_loop_region(r)`; the new region (after
    `validLoop`) lies inside the sound -/
structure LoopPending {σ : Type} (W : World) (pos : σ → Nat) (good : σ → Prop) (s : Sys σ ℝ) (a m : Nat)
    (r : Option (Region ℝ)) : Prop where
  tIn : StreamIn W pos good s
  tAt : StreamAt W s a m
  a_le : a ≤ m
  cap : s.ring.cap = bufferSize
  alive : s.core.shared ≠ .stopped
  kept : s.soundDropped = false
  room : s.ring.isFull = false
  running : s.reachedEnd = false
  pending : s.cmds.setLoopRegion = some r
  noBy : s.cmds.seekBy = none
  noTo : s.cmds.seekTo = none
  valid : (loopT s r).ValidLoop W.n

theorem playing_of_running {σ : Type} {W : World} {s : Sys σ ℝ} {a m : Nat} (tAt : StreamAt W s a m)
    (hre : s.reachedEnd = false) : s.transport.playing = true := by
  have := tAt.reached
  rw [hre] at this
  rw [tAt.transport]
  cases hq : W.pl (m - 1) with
  | true => exact hq
  | false => rw [hq] at this; simp at this

/-- **the new loop region is applied**: the `run` iteration that finds the pending `set_loop_region(r)` leaves the
    ring as "what was buffered before ++ the first entry of the walk re-based at the transport with the new region" -/
theorem loop_applied {σ : Type} {W : World} (hW : W.Ok) {D : Decoder σ ℝ} {pos : σ → Nat} {good : σ → Prop}
    (C : Dec.Contract D W.frames.toList pos good) {s : Sys σ ℝ} {a m : Nat} {r : Option (Region ℝ)}
    (P : LoopPending W pos good s a m r) (fuel : Nat) (hfuel : W.frames.size < fuel) :
    (W.rebase (loopT s r)).Ok ∧
    SeekInv (W.rebase (loopT s r)) pos good (Sys.run D fuel s).2 s.ring.items 1 2 ∧
    (Sys.run D fuel s).2.ring.items = s.ring.items ++ [⟨W.srcAt s.transport.position, s.transport.position⟩] := by
  rw [run_setLoop D fuel s P.alive P.kept P.room r P.pending P.noBy P.noTo]
  exact produce_rebased (s1 := { s with cmds := { s.cmds with setLoopRegion := none }, transport := loopT s r })
    hW C ⟨P.tIn.cfg_slice, P.tIn.cfg_n, P.tIn.inv⟩ P.valid (playing_of_running (s := s) P.tAt P.running) P.room P.running
    P.cap ⟨rfl, P.noBy, P.noTo⟩ fuel hfuel

/-- the static sound's `set_loop_region` handler, for a sound with the same transport, sample rate and frame count,
    gives the same transport -/
theorem static_setLoopRegion_transport {σ : Type} (s : Sys σ ℝ) (st : StaticSound ℝ) (r : Option (Region ℝ))
    (ht : st.transport = s.transport) (hsr : st.sampleRate = s.sampleRate)
    (hn : numFrames st.frames.size st.slice = .ok s.cfg.numFrames) :
    ∃ st', StaticSound.setLoopRegion r st = .ok st' ∧ st'.transport = loopT s r := by
  refine ⟨{ st with transport := loopT s r }, ?_, rfl⟩
  unfold StaticSound.setLoopRegion
  rw [hn]
  simp [andThen, ht, hsr, loopT, loopSamples]

/-! ### a pending `seek_by` alone -/

/-- like `SeekPending`, with `seek_by(k)` written instead of `seek_to(x)`: the target is relative to the position the
    audio thread last published -/
structure SeekByPending {σ : Type} (W : World) (pos : σ → Nat) (good : σ → Prop) (s : Sys σ ℝ) (a m : Nat) (k : ℝ) :
    Prop where
  tIn : StreamIn W pos good s
  tAt : StreamAt W s a m
  a_le : a ≤ m
  cap : s.ring.cap = bufferSize
  alive : s.core.shared ≠ .stopped
  kept : s.soundDropped = false
  room : s.ring.isFull = false
  running : s.reachedEnd = false
  noLoop : s.cmds.setLoopRegion = none
  pending : s.cmds.seekBy = some k
  noTo : s.cmds.seekTo = none
  inData : seekIndex s.sampleRate (s.sharedPosition + k) ≤ W.frames.size
  inside : seekLands s.transport (seekIndex s.sampleRate (s.sharedPosition + k)) < W.n

/-- **the `seek_by` is applied**: as `seek_applied`, landing computed from `shared.position() + k` -/
theorem seekBy_applied {σ : Type} {W : World} (hW : W.Ok) {D : Decoder σ ℝ} {pos : σ → Nat} {good : σ → Prop}
    (C : Dec.Contract D W.frames.toList pos good) {s : Sys σ ℝ} {a m : Nat} {k : ℝ}
    (P : SeekByPending W pos good s a m k) (fuel : Nat) (hfuel : W.frames.size < fuel) :
    (W.rebase (landT s.transport (seekIndex s.sampleRate (s.sharedPosition + k)))).Ok ∧
    SeekInv (W.rebase (landT s.transport (seekIndex s.sampleRate (s.sharedPosition + k)))) pos good
      (Sys.run D fuel s).2 s.ring.items 1 2 ∧
    (Sys.run D fuel s).2.ring.items =
      s.ring.items ++ [⟨W.srcAt (seekLands s.transport (seekIndex s.sampleRate (s.sharedPosition + k))),
                        seekLands s.transport (seekIndex s.sampleRate (s.sharedPosition + k))⟩] := by
  have hpl : s.transport.playing = true := playing_of_running P.tAt P.running
  have hv : s.transport.ValidLoop W.n := by rw [P.tAt.transport]; exact (W.trAt_valid hW _).1
  let s0 : Sys σ ℝ := { s with cmds := { s.cmds with seekBy := none } }
  have hin0 : StreamIn W pos good s0 := ⟨P.tIn.cfg_slice, P.tIn.cfg_n, P.tIn.inv⟩
  obtain ⟨ds', hinv', hs⟩ := seekToIndex_closed (D := D) C hin0 hv
    (seekIndex s.sampleRate (s.sharedPosition + k)) P.inData
  have hnot : ¬ W.n ≤ seekLands s.transport (seekIndex s.sampleRate (s.sharedPosition + k)) := by
    have := P.inside; omega
  have ht : ({ s.transport with position := seekLands s.transport (seekIndex s.sampleRate (s.sharedPosition + k))
                                playing := if W.n ≤ seekLands s.transport (seekIndex s.sampleRate (s.sharedPosition + k))
                                           then false else s.transport.playing } : Transport) =
      landT s.transport (seekIndex s.sampleRate (s.sharedPosition + k)) := by
    simp [landT, hnot]
  change Sys.seekToIndex D s0 _ = _ at hs
  rw [show s0.transport = s.transport from rfl, ht] at hs
  have hrun := run_seekBy D fuel s P.alive P.kept P.room P.noLoop k P.pending _ hs P.noTo
  rw [hrun]
  exact produce_rebased
    (s1 := { s0 with transport := landT s.transport (seekIndex s.sampleRate (s.sharedPosition + k)), ds := ds' })
    hW C ⟨P.tIn.cfg_slice, P.tIn.cfg_n, hinv'⟩ (by unfold Transport.ValidLoop landT; exact hv) hpl P.room P.running
    P.cap ⟨P.noLoop, rfl, P.noTo⟩ fuel hfuel

/-! ### seeks landing at or after the end -/

theorem World.srcAt_beyond (W : World) (p : Nat) (h : W.n ≤ p) : W.srcAt p = Frame.zero := by
  unfold World.srcAt
  simp [Nat.not_lt.mpr h]

/-- **`produce` with a stopped transport**: the decoder still pushes one frame (the frame "at" the transport position,
    silence beyond the end), `increment_position` does nothing, `reached_end` is set and the iteration answers `End` -/
theorem produce_stopped {σ : Type} {W : World} (hW : W.Ok) {D : Decoder σ ℝ} {pos : σ → Nat} {good : σ → Prop}
    (C : Dec.Contract D W.frames.toList pos good) {s : Sys σ ℝ} (hin : StreamIn W pos good s)
    (hp : s.transport.playing = false) (hfull : s.ring.isFull = false) (fuel : Nat) (hfuel : W.frames.size < fuel) :
    ∃ ds', Dec.Inv W.frames.toList pos good ds' ∧
      Sys.produce D fuel s = (.ok .end,
        { s with ds := ds'
                 ring := { s.ring with items := s.ring.items ++ [⟨W.srcAt s.transport.position, s.transport.position⟩] }
                 reachedEnd := true }) := by
  have hcfg := cfgOk_of_world W hW s.cfg hin.cfg_slice hin.cfg_n
  obtain ⟨f, ds', hfa, hwant, hinv', _, _⟩ := Dec.frameAtIndex_correct D W.frames.toList pos good C s.cfg hcfg fuel
    (by simpa using hfuel) s.ds hin.inv s.transport.position
  have hf := want_eq_srcAt W hW s.cfg hin.cfg_slice hin.cfg_n _ f hwant
  refine ⟨ds', hinv', ?_⟩
  unfold Sys.produce
  rw [hfa]
  simp only []
  have hpush : s.ring.push ⟨f, s.transport.position⟩ =
      some { s.ring with items := s.ring.items ++ [⟨W.srcAt s.transport.position, s.transport.position⟩] } := by
    unfold Ring.push
    have hl : s.ring.items.length < s.ring.cap := by
      have := hfull
      unfold Ring.isFull at this
      simpa using this
    simp only [hl, if_true]
    rw [hf]
  rw [hpush]
  simp only []
  have hinc : s.transport.increment s.cfg.numFrames = .ok s.transport := by
    unfold Transport.increment; simp [hp]
  rw [hinc]
  simp [hp]

/-- like `SeekPending`, but the (loop-wrapped) landing position is at or after the end of the sound -/
structure SeekEndPending {σ : Type} (W : World) (pos : σ → Nat) (good : σ → Prop) (s : Sys σ ℝ) (a m : Nat) (x : ℝ) :
    Prop where
  tIn : StreamIn W pos good s
  tAt : StreamAt W s a m
  alive : s.core.shared ≠ .stopped
  kept : s.soundDropped = false
  room : s.ring.isFull = false
  noLoop : s.cmds.setLoopRegion = none
  noBy : s.cmds.seekBy = none
  pending : s.cmds.seekTo = some x
  inData : seekIndex s.sampleRate x ≤ W.frames.size
  beyond : W.n ≤ seekLands s.transport (seekIndex s.sampleRate x)

/-- **a seek to / past the end is applied**: the transport stops at the landing position, the decoder still pushes ONE
    frame of silence stamped with it behind the buffered frames, sets `reached_end` and its thread ends (`End`) -/
theorem seek_end_applied {σ : Type} {W : World} (hW : W.Ok) {D : Decoder σ ℝ} {pos : σ → Nat} {good : σ → Prop}
    (C : Dec.Contract D W.frames.toList pos good) {s : Sys σ ℝ} {a m : Nat} {x : ℝ}
    (P : SeekEndPending W pos good s a m x) (fuel : Nat) (hfuel : W.frames.size < fuel) :
    (Sys.run D fuel s).1 = .ok .end ∧ (Sys.run D fuel s).2.reachedEnd = true ∧
    (Sys.run D fuel s).2.ring.items =
      s.ring.items ++ [⟨Frame.zero, seekLands s.transport (seekIndex s.sampleRate x)⟩] ∧
    (Sys.run D fuel s).2.transport.playing = false ∧
    (Sys.run D fuel s).2.transport.position = seekLands s.transport (seekIndex s.sampleRate x) ∧
    (Sys.run D fuel s).2.cmds.seekTo = none ∧ (Sys.run D fuel s).2.core = s.core ∧
    (Sys.run D fuel s).2.encounteredError = s.encounteredError := by
  have hv : s.transport.ValidLoop W.n := by rw [P.tAt.transport]; exact (W.trAt_valid hW _).1
  let s0 : Sys σ ℝ := { s with cmds := { s.cmds with seekTo := none } }
  have hin0 : StreamIn W pos good s0 := ⟨P.tIn.cfg_slice, P.tIn.cfg_n, P.tIn.inv⟩
  obtain ⟨ds', hinv', hs⟩ := seekToIndex_closed (D := D) C hin0 hv (seekIndex s.sampleRate x) P.inData
  change Sys.seekToIndex D s0 _ = _ at hs
  have hrun := run_seekTo D fuel s P.alive P.kept P.room P.noLoop P.noBy x P.pending _ hs
  obtain ⟨ds'', _, hp⟩ := produce_stopped hW C
    (s := { s0 with
      transport := { s0.transport with position := seekLands s0.transport (seekIndex s.sampleRate x)
                                       playing := if W.n ≤ seekLands s0.transport (seekIndex s.sampleRate x) then false
                                                  else s0.transport.playing }
      ds := ds' })
    ⟨P.tIn.cfg_slice, P.tIn.cfg_n, hinv'⟩
    (by
      have := P.beyond
      show (if W.n ≤ seekLands s.transport (seekIndex s.sampleRate x) then false else s.transport.playing) = false
      simp [this])
    P.room fuel hfuel
  rw [hrun, hp]
  refine ⟨rfl, rfl, ?_, ?_, rfl, rfl, rfl, rfl⟩
  · show s.ring.items ++ [⟨W.srcAt (seekLands s.transport (seekIndex s.sampleRate x)), _⟩] = _
    rw [W.srcAt_beyond _ P.beyond]
  · have := P.beyond
    show (if W.n ≤ seekLands s.transport (seekIndex s.sampleRate x) then false else s.transport.playing) = false
    simp [this]

/-- `SeekEndPending` with `seek_by(k)` written instead of `seek_to(x)` -/
structure SeekByEndPending {σ : Type} (W : World) (pos : σ → Nat) (good : σ → Prop) (s : Sys σ ℝ) (a m : Nat) (k : ℝ) :
    Prop where
  tIn : StreamIn W pos good s
  tAt : StreamAt W s a m
  alive : s.core.shared ≠ .stopped
  kept : s.soundDropped = false
  room : s.ring.isFull = false
  noLoop : s.cmds.setLoopRegion = none
  pending : s.cmds.seekBy = some k
  noTo : s.cmds.seekTo = none
  inData : seekIndex s.sampleRate (s.sharedPosition + k) ≤ W.frames.size
  beyond : W.n ≤ seekLands s.transport (seekIndex s.sampleRate (s.sharedPosition + k))

/-- `seek_end_applied` for a `seek_by` -/
theorem seekBy_end_applied {σ : Type} {W : World} (hW : W.Ok) {D : Decoder σ ℝ} {pos : σ → Nat} {good : σ → Prop}
    (C : Dec.Contract D W.frames.toList pos good) {s : Sys σ ℝ} {a m : Nat} {k : ℝ}
    (P : SeekByEndPending W pos good s a m k) (fuel : Nat) (hfuel : W.frames.size < fuel) :
    (Sys.run D fuel s).1 = .ok .end ∧ (Sys.run D fuel s).2.reachedEnd = true ∧
    (Sys.run D fuel s).2.ring.items =
      s.ring.items ++ [⟨Frame.zero, seekLands s.transport (seekIndex s.sampleRate (s.sharedPosition + k))⟩] ∧
    (Sys.run D fuel s).2.transport.playing = false ∧
    (Sys.run D fuel s).2.transport.position = seekLands s.transport (seekIndex s.sampleRate (s.sharedPosition + k)) ∧
    (Sys.run D fuel s).2.cmds.seekBy = none ∧ (Sys.run D fuel s).2.core = s.core ∧
    (Sys.run D fuel s).2.encounteredError = s.encounteredError := by
  have hv : s.transport.ValidLoop W.n := by rw [P.tAt.transport]; exact (W.trAt_valid hW _).1
  let s0 : Sys σ ℝ := { s with cmds := { s.cmds with seekBy := none } }
  have hin0 : StreamIn W pos good s0 := ⟨P.tIn.cfg_slice, P.tIn.cfg_n, P.tIn.inv⟩
  obtain ⟨ds', hinv', hs⟩ := seekToIndex_closed (D := D) C hin0 hv
    (seekIndex s.sampleRate (s.sharedPosition + k)) P.inData
  change Sys.seekToIndex D s0 _ = _ at hs
  have hrun := run_seekBy D fuel s P.alive P.kept P.room P.noLoop k P.pending _ hs P.noTo
  obtain ⟨ds'', _, hp⟩ := produce_stopped hW C
    (s := { s0 with
      transport := { s0.transport with
        position := seekLands s0.transport (seekIndex s.sampleRate (s.sharedPosition + k))
        playing := if W.n ≤ seekLands s0.transport (seekIndex s.sampleRate (s.sharedPosition + k)) then false
                   else s0.transport.playing }
      ds := ds' })
    ⟨P.tIn.cfg_slice, P.tIn.cfg_n, hinv'⟩
    (by
      have := P.beyond
      show (if W.n ≤ seekLands s.transport (seekIndex s.sampleRate (s.sharedPosition + k)) then false
            else s.transport.playing) = false
      simp [this])
    P.room fuel hfuel
  rw [hrun, hp]
  refine ⟨rfl, rfl, ?_, ?_, rfl, rfl, rfl, rfl⟩
  · show s.ring.items ++ [⟨W.srcAt (seekLands s.transport (seekIndex s.sampleRate (s.sharedPosition + k))), _⟩] = _
    rw [W.srcAt_beyond _ P.beyond]
  · have := P.beyond
    show (if W.n ≤ seekLands s.transport (seekIndex s.sampleRate (s.sharedPosition + k)) then false
          else s.transport.playing) = false
    simp [this]

/-- **draining after the decoder reached the end**: one iteration of the render loop whose position step pops `j`
    frames leaves the ring `j` shorter and marks the sound stopped exactly when that empties the ring -/
theorem renderFrame_drain {σ : Type} (fuel : Nat) (s : Sys σ ℝ) (t dt : ℝ) (hre : s.reachedEnd = true)
    (h0 : 0 ≤ s.frac + s.fracStep t dt) (hf : ⌊s.frac + s.fracStep t dt⌋₊ < fuel) :
    ∃ s' out, s.renderFrame fuel t dt = .ok (s', out) ∧
      s'.ring.items = s.ring.items.drop ⌊s.frac + s.fracStep t dt⌋₊ ∧ s'.reachedEnd = true ∧
      s'.core = (if s.ring.items.length ≤ ⌊s.frac + s.fracStep t dt⌋₊ then s.core.markStopped else s.core) := by
  have hsp := stepPos_spec fuel ({ s with frac := s.frac + s.fracStep t dt } : Sys σ ℝ) h0 hf
  unfold Sys.renderFrame
  simp only [hsp]
  refine ⟨_, _, rfl, ?_, ?_, ?_⟩
  · unfold Sys.checkEnd; split <;> rfl
  · unfold Sys.checkEnd; split <;> exact hre
  · unfold Sys.checkEnd
    by_cases hl : s.ring.items.length ≤ ⌊s.frac + s.fracStep t dt⌋₊
    · simp [hre, hl]
    · simp [hre, hl]


/-- the position step only pops: some number of ring entries dropped, life-cycle core and `reached_end` untouched -/
theorem stepPos_drain {σ : Type} : ∀ (fuel : Nat) (s s' : Sys σ ℝ), Sys.stepPos fuel s = .ok s' →
    ∃ j, s'.ring.items = s.ring.items.drop j ∧ s'.core = s.core ∧ s'.reachedEnd = s.reachedEnd := by
  intro fuel
  induction fuel with
  | zero =>
    intro s s' h
    rw [Sys.stepPos] at h
    split at h
    · cases h
    · injection h with h; subst h; exact ⟨0, by simp, rfl, rfl⟩
  | succ fuel ih =>
    intro s s' h
    rw [Sys.stepPos] at h
    split at h
    · obtain ⟨j, h1, h2, h3⟩ := ih _ _ h
      rw [popFrame_eq] at h1 h2 h3
      have hdd : ∀ l : List (TimestampedFrame ℝ), List.drop j (List.drop 1 l) = List.drop (1 + j) l :=
        fun l => by simp [List.drop_drop, Nat.add_comm]
      exact ⟨1 + j, by rw [h1]; exact hdd _, h2, h3⟩
    · injection h with h; subst h; exact ⟨0, by simp, rfl, rfl⟩

/-- one output frame of a sound whose decoder reached the end (no premise on the rate): entries are only dropped, and
    the sound is marked stopped in this frame iff the ring is empty afterwards -/
theorem renderFrame_drain' {σ : Type} (fuel : Nat) (s s' : Sys σ ℝ) (t dt : ℝ) (f : Frame ℝ)
    (hre : s.reachedEnd = true) (h : s.renderFrame fuel t dt = .ok (s', f)) :
    ∃ j, s'.ring.items = s.ring.items.drop j ∧ s'.reachedEnd = true ∧
      s'.core = (if s'.ring.items = [] then s.core.markStopped else s.core) := by
  unfold Sys.renderFrame at h
  cases hs : Sys.stepPos fuel { s with frac := s.frac + s.fracStep t dt } with
  | error e => simp [hs] at h
  | ok s1 =>
    simp only [hs] at h
    injection h with h
    injection h with h1 h2
    subst h1
    obtain ⟨j, e1, e2, e3⟩ := stepPos_drain fuel _ _ hs
    have e3' : s1.reachedEnd = true := by rw [e3]; exact hre
    have e1' : s1.ring.items = s.ring.items.drop j := e1
    have e2' : s1.core = s.core := e2
    refine ⟨j, ?_, ?_, ?_⟩
    · unfold Sys.checkEnd; split <;> exact e1'
    · unfold Sys.checkEnd; split <;> exact e3'
    · unfold Sys.checkEnd
      by_cases hl : s1.ring.items = []
      · simp [e3', hl, e2']
      · simp [e3', hl, e2']

/-- **the render loop of a sound whose decoder reached the end**: after any number `k ≥ 1` of output frames the ring
    is the old one minus the `j` entries popped so far, and the sound has been marked stopped iff that emptied it -/
theorem renderLoop_drain {σ : Type} (fuel : Nat) (dt : ℝ) (len : Nat) : ∀ (k i : Nat) (s s' : Sys σ ℝ)
    (outs : List (Frame ℝ)), s.reachedEnd = true → Sys.renderLoop fuel dt len k i s = .ok (s', outs) →
    (k = 0 → s' = s) ∧ ∃ j, s'.ring.items = s.ring.items.drop j ∧ s'.reachedEnd = true ∧
      s'.core = (if k ≠ 0 ∧ s'.ring.items = [] then s.core.markStopped else s.core) := by
  intro k
  induction k with
  | zero =>
    intro i s s' outs hre h
    rw [Sys.renderLoop] at h
    injection h with h; injection h with h1 _; subst h1
    exact ⟨fun _ => rfl, 0, by simp, hre, by simp⟩
  | succ k ih =>
    intro i s s' outs hre h
    rw [Sys.renderLoop] at h
    cases h1 : s.renderFrame fuel ((KOps.ofNat (i + 1) : ℝ) / (KOps.ofNat len : ℝ)) dt with
    | error e => rw [h1] at h; exact absurd h (by simp)
    | ok r1 =>
      obtain ⟨s1, f⟩ := r1
      simp only [h1] at h
      cases h2 : Sys.renderLoop fuel dt len k (i + 1) s1 with
      | error e => rw [h2] at h; exact absurd h (by simp)
      | ok r2 =>
        obtain ⟨s2, fs⟩ := r2
        simp only [h2] at h
        injection h with h; injection h with h3 _; subst h3
        obtain ⟨j1, a1, a2, a3⟩ := renderFrame_drain' fuel s s1 _ dt f hre h1
        obtain ⟨b0, j2, b1, b2, b3⟩ := ih (i + 1) s1 s2 fs a2 h2
        refine ⟨fun hk => absurd hk (by omega), j1 + j2, by rw [b1, a1, List.drop_drop], b2, ?_⟩
        by_cases he : s2.ring.items = []
        · have hgoal : (if k + 1 ≠ 0 ∧ s2.ring.items = [] then s.core.markStopped else s.core) = s.core.markStopped := by
            simp [he]
          rw [hgoal]
          by_cases hk : k = 0
          · have := b0 hk
            subst this
            rw [a3]; simp [he]
          · rw [b3]
            simp only [hk, he, ne_eq, not_false_eq_true, and_self, if_true]
            rw [a3]
            split
            · exact markStopped_idem _
            · rfl
        · have hs1 : s1.ring.items ≠ [] := by
            intro h0; apply he; rw [b1, h0]; simp
          have hgoal : (if k + 1 ≠ 0 ∧ s2.ring.items = [] then s.core.markStopped else s.core) = s.core := by
            simp [he]
          rw [hgoal, b3]
          simp only [he, and_false, if_false]
          rw [a3]; simp [hs1]

/-! ### the drained point: `Bisim` for the re-based world -/

/-- the static sound that plays `W` forwards, has made `j` position updates, and shares everything the audio thread
    owns (fraction, parameters, life-cycle core, command slots, sample rate) with the streaming sound `s` -/
noncomputable def staticTwin {σ : Type} (W : World) (s : Sys σ ℝ) (j : Nat) : StaticSound ℝ :=
  { cmds := s.cmds, sampleRate := s.sampleRate, frames := W.frames, slice := W.slice, reverse := false
    core := s.core, resampler := W.resAt j, transport := W.trAt j, frac := s.frac, volume := s.volume
    playbackRate := s.playbackRate, panning := s.panning, sharedPosition := s.sharedPosition }

theorem staticTwin_at {σ : Type} (W : World) (s : Sys σ ℝ) (j : Nat) : StaticAt W (staticTwin W s j) j :=
  { frames := rfl, slice := rfl, reverse := rfl, transport := rfl, resampler := rfl }

/-- what `Bisim` asks of the audio-thread side of a streaming sound (nothing about the ring or the decoder) -/
structure AudioSideOk {σ : Type} (s : Sys σ ℝ) (a m : Nat) : Prop where
  frac_nonneg : 0 ≤ s.frac
  frac_lt : s.frac < 1
  inSync : s.core.InSync
  endStopped : s.reachedEnd = true → m ≤ a → s.core.psm.playbackState = .stopped
  noErr : s.encounteredError = false

/-- **at the drained point the bisimulation relation holds for the re-based world**: `SeekInv` with no pre-seek frame
    left + the audio-side conditions = `Bisim` with the static twin standing at step `a + 3` of the re-based walk -/
theorem SeekInv.bisim {σ : Type} {W : World} {pos : σ → Nat} {good : σ → Prop} {s : Sys σ ℝ} {a m : Nat}
    (h : SeekInv W pos good s [] a m) (A : AudioSideOk s a m) :
    Bisim W pos good (staticTwin W s (a + 3)) s a m :=
  { sAt := staticTwin_at W s (a + 3)
    tIn := h.tIn
    tAt := h.ringInv.tAt
    frac := rfl, sampleRate := rfl, volume := rfl, playbackRate := rfl, panning := rfl, core := rfl, cmds := rfl
    noSeek := h.noSeek
    frac_nonneg := A.frac_nonneg, frac_lt := A.frac_lt, inSync := A.inSync, endStopped := A.endStopped
    a_le := fun _ => h.a_le
    noErr := A.noErr
    cap := h.cap }

/-! ### non-vacuity -/

/-- hypotheses of `C09_loop_region_*`: the sound of `exSeek_pending` with `set_loop_region(None)` pending -/
theorem exLoop_pending :
    LoopPending exSeekWorld (fun p => p) (fun _ => True) (exSeekSys { setLoopRegion := some none }) 0 1 none :=
  { tIn := exSeek_in _
    tAt := { ring := by simp [exSeekSys, World.ringSlice, World.ringSeq], transport := rfl, m_pos := Nat.le_refl _
             played := fun k hk => by omega, reached := rfl }
    a_le := by omega, cap := rfl
    alive := by simp [exSeekSys, SoundCore.new]
    kept := rfl, room := exSeek_room _, running := rfl, pending := rfl, noBy := rfl, noTo := rfl
    valid := by simp [loopT, loopSamples, Transport.setLoopRegion, Transport.ValidLoop] }

/-- hypotheses of `C09_seek_by_reestablishes_ring_invariant`: `seek_by(0.0)` pending, published position 0 -/
theorem exSeekBy_pending :
    SeekByPending exSeekWorld (fun p => p) (fun _ => True) (exSeekSys { seekBy := some 0 }) 0 1 0 :=
  { tIn := exSeek_in _
    tAt := { ring := by simp [exSeekSys, World.ringSlice, World.ringSeq], transport := rfl, m_pos := Nat.le_refl _
             played := fun k hk => by omega, reached := rfl }
    a_le := by omega, cap := rfl
    alive := by simp [exSeekSys, SoundCore.new]
    kept := rfl, room := exSeek_room _, running := rfl, noLoop := rfl, pending := rfl, noTo := rfl
    inData := by
      have : (exSeekSys { seekBy := some 0 }).sharedPosition + 0 = (0 : ℝ) := by simp [exSeekSys]
      rw [this, seekIndex_zero]; exact Nat.zero_le _
    inside := by
      have : (exSeekSys { seekBy := some 0 }).sharedPosition + 0 = (0 : ℝ) := by simp [exSeekSys]
      rw [this, seekIndex_zero]
      show seekLands ⟨1, some (1, 3), true⟩ 0 < exSeekWorld.n
      simp [exSeekWorld, World.n]
      decide }

/-- a three-frame sound without a loop region, play head at 1, one frame per second -/
noncomputable def exEndWorld : World :=
  { frames := #[⟨1, 1⟩, ⟨2, 2⟩, ⟨3, 3⟩], slice := none, t0 := ⟨1, none, true⟩ }

noncomputable def exEndSys (cmds : Commands ℝ) : Sys Nat ℝ :=
  { exSeekSys cmds with sampleRate := 1, transport := ⟨1, none, true⟩ }

theorem exEndWorld_ok : exEndWorld.Ok :=
  { slice_ok := by simp [exEndWorld]
    valid := by simp [exEndWorld, Transport.ValidLoop]
    playing := rfl }

theorem seekIndex_one_three : seekIndex 1 3 = 3 := by
  have h : trunc (3 : ℝ) = 3 := by rw [trunc_nonneg 3 (by norm_num)]; norm_num
  unfold seekIndex roundHalfAway
  simp only [ofNat_real, Nat.cast_one, mul_one, h]
  norm_num

/-- hypotheses of `C09_seek_past_end_*`: `seek_to(3.0)` on a 3-second, 3-frame sound -/
theorem exSeekEnd_pending :
    SeekEndPending exEndWorld (fun p => p) (fun _ => True) (exEndSys { seekTo := some 3 }) 0 1 3 :=
  { tIn := { cfg_slice := rfl, cfg_n := by simp [exEndSys, exSeekSys, exEndWorld, World.n]
             inv := { good_dec := trivial, cur_eq := rfl, chunk_ok := fun c hc => by simp [exEndSys, exSeekSys] at hc } }
    tAt := { ring := by simp [exEndSys, exSeekSys, World.ringSlice, World.ringSeq], transport := rfl
             m_pos := Nat.le_refl _, played := fun k hk => by omega, reached := rfl }
    alive := by simp [exEndSys, exSeekSys, SoundCore.new]
    kept := rfl, room := by simp [exEndSys, exSeekSys, Ring.isFull, bufferSize]
    noLoop := rfl, noBy := rfl, pending := rfl
    inData := by
      show seekIndex 1 3 ≤ exEndWorld.frames.size
      rw [seekIndex_one_three]; simp [exEndWorld]
    beyond := by
      show exEndWorld.n ≤ seekLands ⟨1, none, true⟩ (seekIndex 1 3)
      rw [seekIndex_one_three]; simp [exEndWorld, World.n, seekLands] }

/-- hypotheses of `C09_seek_by_past_end_decoder_ends`: `seek_by(3.0)` from published position 0 -/
theorem exSeekByEnd_pending :
    SeekByEndPending exEndWorld (fun p => p) (fun _ => True) (exEndSys { seekBy := some 3 }) 0 1 3 :=
  have hz : (exEndSys { seekBy := some 3 }).sharedPosition + 3 = (3 : ℝ) := by simp [exEndSys, exSeekSys]
  { tIn := { cfg_slice := rfl, cfg_n := by simp [exEndSys, exSeekSys, exEndWorld, World.n]
             inv := { good_dec := trivial, cur_eq := rfl, chunk_ok := fun c hc => by simp [exEndSys, exSeekSys] at hc } }
    tAt := { ring := by simp [exEndSys, exSeekSys, World.ringSlice, World.ringSeq], transport := rfl
             m_pos := Nat.le_refl _, played := fun k hk => by omega, reached := rfl }
    alive := by simp [exEndSys, exSeekSys, SoundCore.new]
    kept := rfl, room := by simp [exEndSys, exSeekSys, Ring.isFull, bufferSize]
    noLoop := rfl, pending := rfl, noTo := rfl
    inData := by
      rw [hz]
      show seekIndex 1 3 ≤ exEndWorld.frames.size
      rw [seekIndex_one_three]; simp [exEndWorld]
    beyond := by
      rw [hz]
      show exEndWorld.n ≤ seekLands ⟨1, none, true⟩ (seekIndex 1 3)
      rw [seekIndex_one_three]; simp [exEndWorld, World.n, seekLands] }

/-- the sound of `exSeek_pending` with nothing buffered (the audio thread has drained the ring) -/
noncomputable def exDrySys : Sys Nat ℝ :=
  { exSeekSys {} with ring := { cap := bufferSize, items := [] } }

/-- hypotheses of `C09_seek_drained_bisimulation`: a drained `SeekInv` state with a healthy audio side -/
theorem exDry_seekInv : SeekInv exSeekWorld (fun p => p) (fun _ => True) exDrySys [] 1 1 :=
  { tIn := ⟨(exSeek_in {}).cfg_slice, (exSeek_in {}).cfg_n, (exSeek_in {}).inv⟩
    ring := by simp [exDrySys, World.ringSlice]
    transport := rfl, a_pos := Nat.le_refl _, a_le := Nat.le_refl _, played := fun k hk => by omega
    reached := rfl, noSeek := ⟨rfl, rfl, rfl⟩, cap := rfl }

theorem exDry_audio : AudioSideOk exDrySys 1 1 :=
  { frac_nonneg := by simp [exDrySys, exSeekSys]
    frac_lt := by simp [exDrySys, exSeekSys]
    inSync := SoundCore.new_inSync _ _
    endStopped := fun h => by simp [exDrySys, exSeekSys] at h
    noErr := rfl }

end Streaming
end K
