/-
  Helper lemmas: filter.rs with parameters at rest is a fold of one fixed linear transition on
  the integrator pair; coefficient facts.
-/
import KiraModel.Proofs.EffectsACommon
import KiraModel.Model.Effects.Filter
import Mathlib.Analysis.SpecialFunctions.Trigonometric.Basic

namespace K

/-- integrator pairs form a vector space too -/
noncomputable instance : Add (Frame ℝ × Frame ℝ) := ⟨fun a b => (a.1 + b.1, a.2 + b.2)⟩
noncomputable instance : SMul ℝ (Frame ℝ × Frame ℝ) := ⟨fun c a => (c • a.1, c • a.2)⟩
@[simp] theorem pair_add_fst (a b : Frame ℝ × Frame ℝ) : (a + b).1 = a.1 + b.1 := rfl
@[simp] theorem pair_add_snd (a b : Frame ℝ × Frame ℝ) : (a + b).2 = a.2 + b.2 := rfl
@[simp] theorem pair_smul_fst (c : ℝ) (a : Frame ℝ × Frame ℝ) : (c • a).1 = c • a.1 := rfl
@[simp] theorem pair_smul_snd (c : ℝ) (a : Frame ℝ × Frame ℝ) : (c • a).2 = c • a.2 := rfl

/-- the SVF tick over ℝ, channel by channel -/
theorem svfTick_real (a1 a2 a3 : ℝ) (i1 i2 f : Frame ℝ) :
    svfTick a1 a2 a3 i1 i2 f =
      { v1 := ⟨i1.left * a1 + (f.left - i2.left) * a2, i1.right * a1 + (f.right - i2.right) * a2⟩
        v2 := ⟨i2.left + i1.left * a2 + (f.left - i2.left) * a3, i2.right + i1.right * a2 + (f.right - i2.right) * a3⟩
        ic1eq := ⟨(i1.left * a1 + (f.left - i2.left) * a2) * 2 - i1.left,
                  (i1.right * a1 + (f.right - i2.right) * a2) * 2 - i1.right⟩
        ic2eq := ⟨(i2.left + i1.left * a2 + (f.left - i2.left) * a3) * 2 - i2.left,
                  (i2.right + i1.right * a2 + (f.right - i2.right) * a3) * 2 - i2.right⟩ } := by
  unfold svfTick
  simp only [r32_real, lit_2, Frame.add, Frame.sub, Frame.scale]

namespace Filter

/-- no filter parameter is tweening or modulator-linked -/
def Stagnant (s : Filter ℝ) : Prop := s.cutoff.Stagnant ∧ s.resonance.Stagnant ∧ s.mix.Stagnant

/-- what `process` does to the parameters when they are at rest -/
def settle (s : Filter ℝ) : Filter ℝ :=
  { s with
    cutoff := { s.cutoff with prev := s.cutoff.raw }
    resonance := { s.resonance with prev := s.resonance.raw }
    mix := { s.mix with prev := s.mix.raw } }

/-- replace the integrator pair -/
def withState (s : Filter ℝ) (v : Frame ℝ × Frame ℝ) : Filter ℝ := { s with ic1eq := v.1, ic2eq := v.2 }

/-- the per-frame transition on the integrator pair for the resting parameter values -/
noncomputable def tickV (s : Filter ℝ) (dt : ℝ) (v : Frame ℝ × Frame ℝ) (f : Frame ℝ) :
    (Frame ℝ × Frame ℝ) × Frame ℝ :=
  let r := tick s.mode s.cutoff.raw (clamp s.resonance.raw (0.0 : ℝ) (1.0 : ℝ))
    (clamp s.mix.raw (0.0 : ℝ) (1.0 : ℝ)) dt v.1 v.2 f
  ((r.1, r.2.1), r.2.2)

theorem settle_stagnant (s : Filter ℝ) (h : s.Stagnant) : (settle s).Stagnant := h

theorem withState_stagnant (s : Filter ℝ) (v : Frame ℝ × Frame ℝ) (h : s.Stagnant) :
    (withState s v).Stagnant := h

theorem settle_withState (s : Filter ℝ) (v : Frame ℝ × Frame ℝ) :
    settle (withState s v) = withState (settle s) v := rfl

theorem settle_idem (s : Filter ℝ) : settle (settle s) = settle s := rfl

theorem tickV_settle (s : Filter ℝ) (dt : ℝ) : tickV (settle s) dt = tickV s dt := rfl

theorem tickV_withState (s : Filter ℝ) (v : Frame ℝ × Frame ℝ) (dt : ℝ) :
    tickV (withState s v) dt = tickV s dt := rfl

/-- with the parameters at rest, `process` is the fold of `tickV` over the input, for every
    slice length: the parameters only get their `previous_value` refreshed -/
theorem process_stagnant (s : Filter ℝ) (h : s.Stagnant) (xs : List (Frame ℝ)) (dt : ℝ) (info : Info ℝ) :
    process s xs dt info
      = (withState (settle s) (runTick (tickV s dt) (s.ic1eq, s.ic2eq) xs).1,
         (runTick (tickV s dt) (s.ic1eq, s.ic2eq) xs).2) := by
  obtain ⟨hc, hr, hm⟩ := h
  unfold process
  simp only [Parameter.settle tw64 s.cutoff _ info hc, Parameter.settle tw64 s.resonance _ info hr,
    Parameter.settle tw32 s.mix _ info hm]
  have hinj : ({ s with
      cutoff := { s.cutoff with prev := s.cutoff.raw }
      resonance := { s.resonance with prev := s.resonance.raw }
      mix := { s.mix with prev := s.mix.raw } } : Filter ℝ) = withState (settle s) (s.ic1eq, s.ic2eq) := rfl
  rw [hinj]
  apply frameLoop_fold (body dt) (tickV s dt) (withState (settle s))
  intro t v f
  have h1 := Parameter.settled_interp64 _ t (Parameter.settle_settled s.cutoff hc)
  have h2 := Parameter.settled_interp64 _ t (Parameter.settle_settled s.resonance hr)
  have h3 := Parameter.settled_interp32 _ t (Parameter.settle_settled s.mix hm)
  simp only [body, withState, settle, h1, h2, h3, tickV]

/-! ### the transition is linear -/

theorem modeOutput_add (m : FilterMode) (k : ℝ) (f g v1 w1 v2 w2 : Frame ℝ) :
    modeOutput m k (f + g) (v1 + w1) (v2 + w2) = modeOutput m k f v1 v2 + modeOutput m k g w1 w2 := by
  cases m <;> (ext <;> simp [modeOutput] <;> ring)

theorem modeOutput_smul (m : FilterMode) (k c : ℝ) (f v1 v2 : Frame ℝ) :
    modeOutput m k (c • f) (c • v1) (c • v2) = c • modeOutput m k f v1 v2 := by
  cases m <;> (ext <;> simp [modeOutput] <;> ring)

theorem tickV_add (s : Filter ℝ) (dt : ℝ) (v w : Frame ℝ × Frame ℝ) (f g : Frame ℝ) :
    tickV s dt (v + w) (f + g)
      = ((tickV s dt v f).1 + (tickV s dt w g).1, (tickV s dt v f).2 + (tickV s dt w g).2) := by
  unfold tickV tick
  simp only [svfTick_real, dryWet_real]
  refine Prod.ext (Prod.ext ?_ ?_) ?_
  · ext <;> simp <;> ring
  · ext <;> simp <;> ring
  · cases s.mode <;> (ext <;> simp [modeOutput] <;> ring)

theorem tickV_smul (s : Filter ℝ) (dt c : ℝ) (v : Frame ℝ × Frame ℝ) (f : Frame ℝ) :
    tickV s dt (c • v) (c • f) = (c • (tickV s dt v f).1, c • (tickV s dt v f).2) := by
  unfold tickV tick
  simp only [svfTick_real, dryWet_real]
  refine Prod.ext (Prod.ext ?_ ?_) ?_
  · ext <;> simp <;> ring
  · ext <;> simp <;> ring
  · cases s.mode <;> (ext <;> simp [modeOutput] <;> ring)

end Filter
end K
