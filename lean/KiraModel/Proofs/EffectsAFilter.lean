/-
  Helper lemmas: filter.rs with parameters at rest is a fold of one fixed linear transition on
  the integrator pair; coefficient facts.
-/
import KiraModel.Proofs.EffectsACommon
import KiraModel.Model.Effects.Filter
import Mathlib.Analysis.SpecialFunctions.Trigonometric.Basic

namespace K

/-- integrator pairs form a vector space too -/
noncomputable instance : Add (Frame ℝ × Frame ℝ) := ⟨fun a b => (a.1 + b.1, a.2 + b.2)⟩
noncomputable instance : SMul ℝ (Frame ℝ × Frame ℝ) := ⟨fun c a => (c • a.1, c • a.2)⟩
@[simp] theorem pair_add_fst (a b : Frame ℝ × Frame ℝ) : (a + b).1 = a.1 + b.1 := rfl
@[simp] theorem pair_add_snd (a b : Frame ℝ × Frame ℝ) : (a + b).2 = a.2 + b.2 := rfl
@[simp] theorem pair_smul_fst (c : ℝ) (a : Frame ℝ × Frame ℝ) : (c • a).1 = c • a.1 := rfl
@[simp] theorem pair_smul_snd (c : ℝ) (a : Frame ℝ × Frame ℝ) : (c • a).2 = c • a.2 := rfl

/-- the SVF tick over ℝ, channel by channel -/
theorem svfTick_real (a1 a2 a3 : ℝ) (i1 i2 f : Frame ℝ) :
    svfTick a1 a2 a3 i1 i2 f =
      { v1 := ⟨i1.left * a1 + (f.left - i2.left) * a2, i1.right * a1 + (f.right - i2.right) * a2⟩
        v2 := ⟨i2.left + i1.left * a2 + (f.left - i2.left) * a3, i2.right + i1.right * a2 + (f.right - i2.right) * a3⟩
        ic1eq := ⟨(i1.left * a1 + (f.left - i2.left) * a2) * 2 - i1.left,
                  (i1.right * a1 + (f.right - i2.right) * a2) * 2 - i1.right⟩
        ic2eq := ⟨(i2.left + i1.left * a2 + (f.left - i2.left) * a3) * 2 - i2.left,
                  (i2.right + i1.right * a2 + (f.right - i2.right) * a3) * 2 - i2.right⟩ } := by
  unfold svfTick
  simp only [r32_real, lit_2, Frame.add, Frame.sub, Frame.scale]

namespace Filter

/-- no filter parameter is tweening or modulator-linked -/
def Stagnant (s : Filter ℝ) : Prop := s.cutoff.Stagnant ∧ s.resonance.Stagnant ∧ s.mix.Stagnant

/-- what `process` does to the parameters when they are at rest -/
def settle (s : Filter ℝ) : Filter ℝ :=
  { s with
    cutoff := { s.cutoff with prev := s.cutoff.raw }
    resonance := { s.resonance with prev := s.resonance.raw }
    mix := { s.mix with prev := s.mix.raw } }

/-- replace the integrator pair -/
def withState (s : Filter ℝ) (v : Frame ℝ × Frame ℝ) : Filter ℝ := { s with ic1eq := v.1, ic2eq := v.2 }

/-- the per-frame transition on the integrator pair for the resting parameter values -/
noncomputable def tickV (s : Filter ℝ) (dt : ℝ) (v : Frame ℝ × Frame ℝ) (f : Frame ℝ) :
    (Frame ℝ × Frame ℝ) × Frame ℝ :=
  let r := tick s.mode s.cutoff.raw (clamp s.resonance.raw (0.0 : ℝ) (1.0 : ℝ))
    (clamp s.mix.raw (0.0 : ℝ) (1.0 : ℝ)) dt v.1 v.2 f
  ((r.1, r.2.1), r.2.2)

theorem settle_stagnant (s : Filter ℝ) (h : s.Stagnant) : (settle s).Stagnant := h

theorem withState_stagnant (s : Filter ℝ) (v : Frame ℝ × Frame ℝ) (h : s.Stagnant) :
    (withState s v).Stagnant := h

theorem settle_withState (s : Filter ℝ) (v : Frame ℝ × Frame ℝ) :
    settle (withState s v) = withState (settle s) v := rfl

theorem settle_idem (s : Filter ℝ) : settle (settle s) = settle s := rfl

theorem tickV_settle (s : Filter ℝ) (dt : ℝ) : tickV (settle s) dt = tickV s dt := rfl

theorem tickV_withState (s : Filter ℝ) (v : Frame ℝ × Frame ℝ) (dt : ℝ) :
    tickV (withState s v) dt = tickV s dt := rfl

/-- with the parameters at rest, `process` is the fold of `tickV` over the input, for every
    slice length: the parameters only get their `previous_value` refreshed -/
theorem process_stagnant (s : Filter ℝ) (h : s.Stagnant) (xs : List (Frame ℝ)) (dt : ℝ) (info : Info ℝ) :
    process s xs dt info
      = (withState (settle s) (runTick (tickV s dt) (s.ic1eq, s.ic2eq) xs).1,
         (runTick (tickV s dt) (s.ic1eq, s.ic2eq) xs).2) := by
  obtain ⟨hc, hr, hm⟩ := h
  unfold process
  simp only [Parameter.settleA tw64 s.cutoff _ info hc, Parameter.settleA tw64 s.resonance _ info hr,
    Parameter.settleA tw32 s.mix _ info hm]
  have hinj : ({ s with
      cutoff := { s.cutoff with prev := s.cutoff.raw }
      resonance := { s.resonance with prev := s.resonance.raw }
      mix := { s.mix with prev := s.mix.raw } } : Filter ℝ) = withState (settle s) (s.ic1eq, s.ic2eq) := rfl
  rw [hinj]
  apply frameLoop_fold (body dt) (tickV s dt) (withState (settle s))
  intro t v f
  have h1 := Parameter.settled_interp64 _ t (Parameter.settle_settled s.cutoff hc)
  have h2 := Parameter.settled_interp64 _ t (Parameter.settle_settled s.resonance hr)
  have h3 := Parameter.settled_interp32 _ t (Parameter.settle_settled s.mix hm)
  simp only [body, withState, settle, h1, h2, h3, tickV]

/-! ### the transition is linear -/

theorem modeOutput_add (m : FilterMode) (k : ℝ) (f g v1 w1 v2 w2 : Frame ℝ) :
    modeOutput m k (f + g) (v1 + w1) (v2 + w2) = modeOutput m k f v1 v2 + modeOutput m k g w1 w2 := by
  cases m <;> (ext <;> simp [modeOutput] <;> ring)

theorem modeOutput_smul (m : FilterMode) (k c : ℝ) (f v1 v2 : Frame ℝ) :
    modeOutput m k (c • f) (c • v1) (c • v2) = c • modeOutput m k f v1 v2 := by
  cases m <;> (ext <;> simp [modeOutput] <;> ring)

theorem tickV_add (s : Filter ℝ) (dt : ℝ) (v w : Frame ℝ × Frame ℝ) (f g : Frame ℝ) :
    tickV s dt (v + w) (f + g)
      = ((tickV s dt v f).1 + (tickV s dt w g).1, (tickV s dt v f).2 + (tickV s dt w g).2) := by
  unfold tickV tick
  simp only [svfTick_real, dryWet_real]
  refine Prod.ext (Prod.ext ?_ ?_) ?_
  · ext <;> simp <;> ring
  · ext <;> simp <;> ring
  · cases s.mode <;> (ext <;> simp [modeOutput] <;> ring)

theorem tickV_smul (s : Filter ℝ) (dt c : ℝ) (v : Frame ℝ × Frame ℝ) (f : Frame ℝ) :
    tickV s dt (c • v) (c • f) = (c • (tickV s dt v f).1, c • (tickV s dt v f).2) := by
  unfold tickV tick
  simp only [svfTick_real, dryWet_real]
  refine Prod.ext (Prod.ext ?_ ?_) ?_
  · ext <;> simp <;> ring
  · ext <;> simp <;> ring
  · cases s.mode <;> (ext <;> simp [modeOutput] <;> ring)

end Filter
end K

namespace K

/-- **DC fixed point of the trapezoidal SVF** (any coefficients): with the first integrator at 0
    and the second at the input value, a constant input leaves both integrators where they are;
    the band-pass tap `v1` is 0 and the low-pass tap `v2` is the input. -/
theorem svf_dc (a1 a2 a3 : ℝ) (x : Frame ℝ) :
    (svfTick a1 a2 a3 0 x x).v1 = 0 ∧ (svfTick a1 a2 a3 0 x x).v2 = x
      ∧ (svfTick a1 a2 a3 0 x x).ic1eq = 0 ∧ (svfTick a1 a2 a3 0 x x).ic2eq = x := by
  rw [svfTick_real]
  refine ⟨?_, ?_, ?_, ?_⟩ <;> (ext <;> simp <;> ring)

/-- the DC fixed point is the only one when `g ≠ 0` and `a1 ≠ 0` (`a2 = g·a1`, `a3 = g·a2`) -/
theorem svf_dc_unique (a1 g : ℝ) (hg : g ≠ 0) (ha : a1 ≠ 0) (i1 i2 x : Frame ℝ)
    (h1 : (svfTick a1 (g * a1) (g * (g * a1)) i1 i2 x).ic1eq = i1)
    (h2 : (svfTick a1 (g * a1) (g * (g * a1)) i1 i2 x).ic2eq = i2) : i1 = 0 ∧ i2 = x := by
  rw [svfTick_real] at h1 h2
  have key : ∀ p q y : ℝ, (p * a1 + (y - q) * (g * a1)) * 2 - p = p →
      (q + p * (g * a1) + (y - q) * (g * (g * a1))) * 2 - q = q → p = 0 ∧ q = y := by
    intro p q y e1 e2
    have e2' : g * a1 * (p + g * (y - q)) = 0 := by linarith
    have hz : p + g * (y - q) = 0 := by
      rcases mul_eq_zero.mp e2' with h | h
      · exact absurd h (mul_ne_zero hg ha)
      · exact h
    have e1' : a1 * (p + g * (y - q)) = p := by linarith
    rw [hz, mul_zero] at e1'
    have hp : p = 0 := e1'.symm
    rw [hp, zero_add] at hz
    have : y - q = 0 := by
      rcases mul_eq_zero.mp hz with h | h
      · exact absurd h hg
      · exact h
    exact ⟨hp, by linarith⟩
  have hl := key i1.left i2.left x.left (congrArg Frame.left h1) (congrArg Frame.left h2)
  have hr := key i1.right i2.right x.right (congrArg Frame.right h1) (congrArg Frame.right h2)
  exact ⟨by ext <;> simp [hl.1, hr.1], by ext <;> simp [hl.2, hr.2]⟩

/-- **Nyquist orbit of the trapezoidal SVF** (`a2 = g·a1`, `a3 = g·a2`): from integrators
    `(−g·x, 0)` the input `x` gives both taps 0 and flips the state to `(g·x, 0)`; the next input
    `−x` flips it back. -/
theorem svf_nyquist (a1 g : ℝ) (x : Frame ℝ) :
    (svfTick a1 (g * a1) (g * (g * a1)) ((-g) • x) 0 x).v1 = 0
      ∧ (svfTick a1 (g * a1) (g * (g * a1)) ((-g) • x) 0 x).v2 = 0
      ∧ (svfTick a1 (g * a1) (g * (g * a1)) ((-g) • x) 0 x).ic1eq = g • x
      ∧ (svfTick a1 (g * a1) (g * (g * a1)) ((-g) • x) 0 x).ic2eq = 0 := by
  rw [svfTick_real]
  refine ⟨?_, ?_, ?_, ?_⟩ <;> (ext <;> simp <;> ring)

end K

namespace K

/-- the rational identity behind the corner-frequency response (one channel): with
    `C = (1−g²)/(1+g²)`, `S = 2g/(1+g²)` (cosine and sine of the digital corner angle), the state
    `((c − g s)/k, (s + g c)/k)·u` and the input `(cC − sS)·u` give the taps
    `v1 = (cC − sS)/k·u`, `v2 = (sC + cS)/k·u` and the state of the same shape one step on. -/
theorem svf_corner_scalar (g k c s u : ℝ) (hk : k ≠ 0) (hden : 1 + g * (g + k) ≠ 0) :
    let C := (1 - g ^ 2) / (1 + g ^ 2)
    let S := 2 * g / (1 + g ^ 2)
    let a1 := 1 / (1 + g * (g + k))
    let x := (c * C - s * S) * u
    let i1 := (c - g * s) / k * u
    let i2 := (s + g * c) / k * u
    let v1 := i1 * a1 + (x - i2) * (g * a1)
    let v2 := i2 + i1 * (g * a1) + (x - i2) * (g * (g * a1))
    v1 = (c * C - s * S) / k * u ∧ v2 = (s * C + c * S) / k * u
      ∧ v1 * 2 - i1 = ((c * C - s * S) - g * (s * C + c * S)) / k * u
      ∧ v2 * 2 - i2 = ((s * C + c * S) + g * (c * C - s * S)) / k * u := by
  have h2 : (1 + g ^ 2) ≠ 0 := by positivity
  intro C S a1 x i1 i2 v1 v2
  have e1 : v1 = (c * C - s * S) / k * u := by
    simp only [v1, i1, i2, x, a1, C, S]; field_simp; ring
  have e2 : v2 = (s * C + c * S) / k * u := by
    simp only [v2, i1, i2, x, a1, C, S]; field_simp; ring
  refine ⟨e1, e2, ?_, ?_⟩
  · rw [e1]; simp only [i1, C, S]; field_simp; ring
  · rw [e2]; simp only [i2, C, S]; field_simp; ring

/-- half-angle form of the digital corner angle: for `g = tan φ`, `cos φ ≠ 0`:
    `(1−g²)/(1+g²) = cos 2φ` and `2g/(1+g²) = sin 2φ` -/
theorem tan_half_angle (φ : ℝ) (hc : Real.cos φ ≠ 0) :
    (1 - Real.tan φ ^ 2) / (1 + Real.tan φ ^ 2) = Real.cos (2 * φ)
      ∧ 2 * Real.tan φ / (1 + Real.tan φ ^ 2) = Real.sin (2 * φ) := by
  have h1 : Real.sin φ ^ 2 + Real.cos φ ^ 2 = 1 := Real.sin_sq_add_cos_sq φ
  have hden : 1 + Real.tan φ ^ 2 ≠ 0 := by positivity
  rw [Real.cos_two_mul, Real.sin_two_mul, Real.tan_eq_sin_div_cos]
  constructor
  · rw [div_eq_iff (by rw [← Real.tan_eq_sin_div_cos]; exact hden)]
    field_simp
    nlinarith [h1]
  · rw [div_eq_iff (by rw [← Real.tan_eq_sin_div_cos]; exact hden)]
    field_simp
    linear_combination (-(Real.sin φ)) * h1

/-- **corner-frequency orbit of the trapezoidal SVF**: with `g = tan φ` and `θ = 2φ`, from the
    integrators `((cos nθ − g sin nθ)/k, (sin nθ + g cos nθ)/k)·u` the input `cos((n+1)θ)·u` gives
    `v1 = cos((n+1)θ)/k·u`, `v2 = sin((n+1)θ)/k·u` and the integrators of the same form at `n+1`. -/
theorem svf_corner (φ k : ℝ) (hc : Real.cos φ ≠ 0) (hk : k ≠ 0)
    (hden : 1 + Real.tan φ * (Real.tan φ + k) ≠ 0) (u : Frame ℝ) (n : ℕ) :
    let g := Real.tan φ
    let θ := 2 * φ
    let a1 := 1 / (1 + g * (g + k))
    let o := svfTick a1 (g * a1) (g * (g * a1))
      (((Real.cos (n * θ) - g * Real.sin (n * θ)) / k) • u)
      (((Real.sin (n * θ) + g * Real.cos (n * θ)) / k) • u)
      (Real.cos ((n + 1 : ℕ) * θ) • u)
    o.v1 = (Real.cos ((n + 1 : ℕ) * θ) / k) • u ∧ o.v2 = (Real.sin ((n + 1 : ℕ) * θ) / k) • u
      ∧ o.ic1eq = ((Real.cos ((n + 1 : ℕ) * θ) - g * Real.sin ((n + 1 : ℕ) * θ)) / k) • u
      ∧ o.ic2eq = ((Real.sin ((n + 1 : ℕ) * θ) + g * Real.cos ((n + 1 : ℕ) * θ)) / k) • u := by
  intro g θ a1 o
  obtain ⟨hC, hS⟩ := tan_half_angle φ hc
  have hcos : Real.cos ((n + 1 : ℕ) * θ) = Real.cos (n * θ) * ((1 - g ^ 2) / (1 + g ^ 2))
      - Real.sin (n * θ) * (2 * g / (1 + g ^ 2)) := by
    rw [hC, hS, show ((n + 1 : ℕ) : ℝ) * θ = n * θ + 2 * φ by push_cast; ring, Real.cos_add]
  have hsin : Real.sin ((n + 1 : ℕ) * θ) = Real.sin (n * θ) * ((1 - g ^ 2) / (1 + g ^ 2))
      + Real.cos (n * θ) * (2 * g / (1 + g ^ 2)) := by
    rw [hC, hS, show ((n + 1 : ℕ) : ℝ) * θ = n * θ + 2 * φ by push_cast; ring, Real.sin_add]
  have hl := svf_corner_scalar g k (Real.cos (n * θ)) (Real.sin (n * θ)) u.left hk hden
  have hr := svf_corner_scalar g k (Real.cos (n * θ)) (Real.sin (n * θ)) u.right hk hden
  simp only at hl hr
  simp only [o, svfTick_real, hcos, hsin]
  refine ⟨?_, ?_, ?_, ?_⟩
  · ext
    · simpa [a1] using hl.1
    · simpa [a1] using hr.1
  · ext
    · simpa [a1] using hl.2.1
    · simpa [a1] using hr.2.1
  · ext
    · simpa [a1] using hl.2.2.1
    · simpa [a1] using hr.2.2.1
  · ext
    · simpa [a1] using hl.2.2.2
    · simpa [a1] using hr.2.2.2

end K
