/-
  Helper lemmas for tweened parameters over ℝ.
-/
import KiraModel.Proofs.RealOps
import KiraModel.Proofs.EasingLemmas
import KiraModel.Model.Parameter
import Mathlib.Tactic.Linarith
import Mathlib.Tactic.Ring
import Mathlib.Tactic.NormNum
import Mathlib.Tactic.Positivity

namespace K

/-- over ℝ the `f32` and `f64` interpolations coincide (`r32 = id`) -/
theorem lerp32_real (a b t : ℝ) : lerp32 a b t = lerp64 a b t := by
  rfl

theorem tw32_eq_tw64 : (tw32 : Tweenable ℝ ℝ) = tw64 := by
  rfl

/-- `Duration::as_secs_f64` over ℝ is nanoseconds / 10⁹ -/
theorem durToSecs_real (ns : ℕ) : (durToSecs ns : ℝ) = (ns : ℝ) / 1000000000 := by
  unfold durToSecs
  simp only [ofNat_real, lit_1e9]
  have h := Nat.div_add_mod ns 1000000000
  have : (ns : ℝ) = 1000000000 * ((ns / 1000000000 : ℕ) : ℝ) + ((ns % 1000000000 : ℕ) : ℝ) := by
    exact_mod_cast h.symm
  rw [this]; field_simp

theorem durToSecs_pos (ns : ℕ) (h : 0 < ns) : (0 : ℝ) < durToSecs ns := by
  rw [durToSecs_real]; positivity

theorem durToSecs_zero : (durToSecs 0 : ℝ) = 0 := by rw [durToSecs_real]; simp

namespace Parameter

variable {τ : Type}

theorem update_prev (tw : Tweenable ℝ τ) (p : Parameter ℝ τ) (dt : ℝ) (info : Info ℝ) :
    (p.update tw dt info).1.prev = p.raw := by
  unfold update
  by_cases h : p.stagnant
  · simp [h]
  · simp only [h]
    generalize calcRaw tw _ info = c
    cases c <;> rfl

theorem update_stagnant (tw : Tweenable ℝ τ) (p : Parameter ℝ τ) (dt : ℝ) (info : Info ℝ)
    (h : p.stagnant = true) : p.update tw dt info = ({ p with prev := p.raw }, false) := by
  unfold update; simp [h]

/-- a start time that lets the tween run in this update: `Immediate`, or a delay that is used up -/
def StartedNow (st : StartTime ℝ) : Prop := st = .immediate ∨ st = .delayed 0

/-- the shape of a parameter in the middle of a running tween to a fixed target -/
def MidTween (p : Parameter ℝ ℝ) (s tgt t : ℝ) (st : StartTime ℝ) (D : ℕ) (e : Easing ℝ) : Prop :=
  p.state = .tweening s (.fixed tgt) t ⟨st, D, e⟩ ∧ p.stagnant = false ∧ StartedNow st

/-- the shape of a parameter that has landed on a fixed target -/
def Landed (p : Parameter ℝ ℝ) (tgt : ℝ) : Prop :=
  p.state = .idle (.fixed tgt) ∧ p.stagnant = true ∧ p.raw = tgt

theorem update_mid_before (p : Parameter ℝ ℝ) (s tgt t : ℝ) (st : StartTime ℝ) (D : ℕ) (e : Easing ℝ)
    (dt : ℝ) (info : Info ℝ) (hp : MidTween p s tgt t st D e) (hD : 0 < D)
    (hlt : t + dt < durToSecs D) :
    MidTween (p.update tw64 dt info).1 s tgt (t + dt) st D e
      ∧ (p.update tw64 dt info).1.raw = s + (tgt - s) * e.apply ((t + dt) / durToSecs D)
      ∧ (p.update tw64 dt info).2 = false := by
  obtain ⟨hs, hst, hstart⟩ := hp
  have hnle : ¬ ((durToSecs D : ℝ) ≤ t + dt) := not_le.mpr hlt
  have hD0 : D ≠ 0 := Nat.pos_iff_ne_zero.mp hD
  unfold update MidTween
  simp only [hst, Bool.false_eq_true, if_false]
  unfold updateTween
  rcases hstart with rfl | rfl
  · simp only [hs, Bool.not_true, Bool.false_eq_true, if_false, hnle]
    unfold calcRaw
    simp only [hD0, if_false, Value.rawValue, Option.map_some, Tween.value, tweenValue, tw64, lerp64]
    exact ⟨⟨trivial, trivial, Or.inl rfl⟩, trivial, trivial⟩
  · simp only [hs, if_true, Bool.not_true, Bool.false_eq_true, if_false, hnle]
    unfold calcRaw
    simp only [hD0, if_false, Value.rawValue, Option.map_some, Tween.value, tweenValue, tw64, lerp64]
    exact ⟨⟨trivial, trivial, Or.inr rfl⟩, trivial, trivial⟩

theorem update_mid_after (p : Parameter ℝ ℝ) (s tgt t : ℝ) (st : StartTime ℝ) (D : ℕ) (e : Easing ℝ)
    (dt : ℝ) (info : Info ℝ) (hp : MidTween p s tgt t st D e)
    (hge : (durToSecs D : ℝ) ≤ t + dt) :
    Landed (p.update tw64 dt info).1 tgt ∧ (p.update tw64 dt info).2 = true := by
  obtain ⟨hs, hst, hstart⟩ := hp
  unfold update Landed
  simp only [hst, Bool.false_eq_true, if_false]
  unfold updateTween
  rcases hstart with rfl | rfl
  · simp only [hs, Bool.not_true, Bool.false_eq_true, if_false, hge, if_true, Value.isFixed]
    unfold calcRaw
    simp only [Value.rawValue]
    exact ⟨⟨trivial, trivial, trivial⟩, trivial⟩
  · simp only [hs, if_true, Bool.not_true, Bool.false_eq_true, if_false, hge, Value.isFixed]
    unfold calcRaw
    simp only [Value.rawValue]
    exact ⟨⟨trivial, trivial, trivial⟩, trivial⟩

theorem update_landed (p : Parameter ℝ ℝ) (tgt dt : ℝ) (info : Info ℝ) (hp : Landed p tgt) :
    Landed (p.update tw64 dt info).1 tgt ∧ (p.update tw64 dt info).2 = false := by
  obtain ⟨hs, hst, hr⟩ := hp
  rw [update_stagnant _ _ _ _ hst]
  exact ⟨⟨hs, hst, hr⟩, rfl⟩

theorem run_landed (p : Parameter ℝ ℝ) (tgt : ℝ) (info : Info ℝ) (hp : Landed p tgt) (dts : List ℝ) :
    Landed (p.run tw64 info dts).1 tgt ∧ ∀ f ∈ (p.run tw64 info dts).2, f = false := by
  induction dts generalizing p with
  | nil => exact ⟨hp, by simp [run]⟩
  | cons dt rest ih =>
    have h1 := update_landed p tgt dt info hp
    have h2 := ih (p.update tw64 dt info).1 h1.1
    simp only [run]
    refine ⟨h2.1, ?_⟩
    intro f hf
    simp only [List.mem_cons] at hf
    rcases hf with rfl | hf
    · exact h1.2
    · exact h2.2 f hf

/-- Closed form of a run of updates over a running tween (any partition of time). -/
theorem run_mid (e : Easing ℝ) (D : ℕ) (hD : 0 < D) (s tgt : ℝ) (st : StartTime ℝ) (info : Info ℝ) :
    ∀ (dts : List ℝ) (p : Parameter ℝ ℝ) (t : ℝ), MidTween p s tgt t st D e → t < durToSecs D →
      p.raw = s + (tgt - s) * e.apply (t / durToSecs D) → (∀ dt ∈ dts, 0 ≤ dt) →
      (t + dts.sum < durToSecs D →
          MidTween (p.run tw64 info dts).1 s tgt (t + dts.sum) st D e
          ∧ (p.run tw64 info dts).1.raw = s + (tgt - s) * e.apply ((t + dts.sum) / durToSecs D)
          ∧ ∀ f ∈ (p.run tw64 info dts).2, f = false)
      ∧ ((durToSecs D : ℝ) ≤ t + dts.sum →
          Landed (p.run tw64 info dts).1 tgt ∧ (p.run tw64 info dts).2.count true = 1) := by
  intro dts
  induction dts with
  | nil =>
    intro p t hp ht hraw _
    simp only [List.sum_nil, add_zero, run]
    exact ⟨fun _ => ⟨hp, hraw, by simp⟩, fun h => absurd ht (not_lt.mpr h)⟩
  | cons dt rest ih =>
    intro p t hp ht hraw hnn
    have hdt : 0 ≤ dt := hnn dt (by simp)
    have hrest : ∀ x ∈ rest, 0 ≤ x := fun x hx => hnn x (by simp [hx])
    have hsum : 0 ≤ rest.sum := List.sum_nonneg hrest
    simp only [List.sum_cons, run]
    by_cases hlt : t + dt < durToSecs D
    · obtain ⟨h1, h2, h3⟩ := update_mid_before p s tgt t st D e dt info hp hD hlt
      have ih' := ih (p.update tw64 dt info).1 (t + dt) h1 hlt h2 hrest
      have hassoc : t + (dt + rest.sum) = t + dt + rest.sum := by ring
      rw [hassoc]
      refine ⟨fun h => ?_, fun h => ?_⟩
      · obtain ⟨a, b, c⟩ := ih'.1 h
        refine ⟨a, b, ?_⟩
        intro f hf
        simp only [List.mem_cons] at hf
        rcases hf with rfl | hf
        · exact h3
        · exact c f hf
      · obtain ⟨a, b⟩ := ih'.2 h
        refine ⟨a, ?_⟩
        rw [h3]; simpa using b
    · have hge : (durToSecs D : ℝ) ≤ t + dt := not_lt.mp hlt
      obtain ⟨h1, h2⟩ := update_mid_after p s tgt t st D e dt info hp hge
      have hl := run_landed (p.update tw64 dt info).1 tgt info h1 rest
      refine ⟨fun h => absurd h (by linarith), fun _ => ⟨hl.1, ?_⟩⟩
      rw [h2]
      have : (((p.update tw64 dt info).1.run tw64 info rest).2).count true = 0 := by
        rw [List.count_eq_zero]
        intro hmem
        have := hl.2 true hmem
        exact Bool.noConfusion this
      simp [this]

end Parameter
end K
