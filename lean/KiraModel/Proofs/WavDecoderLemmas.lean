/-
  WavDecoderLemmas.lean — Symphonia's WAV reader + PCM codec (as modelled) on a file produced
  by the encoder satisfies kira's `Decoder` contract (core Lean only).
-/
import KiraModel.Proofs.WavLemmas
import KiraModel.Proofs.DecoderLemmas

namespace K
namespace Wav

open Dec

variable {α : Type} [Add α] [Sub α] [Mul α] [Div α] [Neg α] [LT α] [LE α]
  [DecidableLT α] [DecidableLE α] [OfScientific α] [KOps α]

theorem groupFrames_length (ch : Nat) : ∀ (q : Nat) (cs : List Nat), (groupFrames ch q cs).length = q := by
  intro q; induction q with
  | zero => intro cs; rfl
  | succ q ih => intro cs; simp [groupFrames, ih]

/-- the frames of an encoded file, as the static loader returns them -/
def fileFrames (fd : FloatDec α) (s : Spec) (m : Nat) (codes : List Nat) : List (Frame α) :=
  (groupFrames s.channels m codes).map (frameOfCodes fd s.fmt s.channels)

/-- the reader `parse` produces for `encode s codes` -/
def fileReader (s : Spec) (codes : List Nat) : Reader :=
  ⟨some s.chunk, codes.length * s.fmt.bytes,
   encodeData s.fmt codes ++ pad (codes.length * s.fmt.bytes)⟩

/-- **Symphonia's WAV decoder (as modelled) meets kira's `Decoder` contract** on every encoded
    1- or 2-channel file: packets of up to 1152 frames, seeks land on a multiple of 1152. -/
theorem wavDecoder_contract (fd : FloatDec α) (s : Spec) (hch : s.channels = 1 ∨ s.channels = 2)
    (m : Nat) (codes : List Nat) (hlen : codes.length = m * s.channels) (hr : InRange s.fmt codes) :
    Contract (wavDecoder fd s.chunk (fileReader s codes)) (fileFrames fd s m codes)
      (fun p => p / (s.channels * s.fmt.bytes))
      (fun p => ∃ j, j ≤ m ∧ p = j * (s.channels * s.fmt.bytes)) := by
  have hpos : 0 < s.channels := by omega
  have hk := Fmt.bytes_pos s.fmt
  have hB : 0 < s.channels * s.fmt.bytes := Nat.mul_pos hpos hk
  have hsrc : (fileFrames fd s m codes).length = m := by
    simp [fileFrames, groupFrames_length]
  constructor
  · -- decode
    rintro p ⟨j, hjm, rfl⟩ hlt
    rw [hsrc, Nat.mul_div_cancel _ hB] at hlt
    rw [Nat.mul_div_cancel _ hB]
    -- split the codes at frame j
    have hjl : j * s.channels ≤ codes.length := by rw [hlen]; exact Nat.mul_le_mul_right _ hjm
    have hpre : (codes.take (j * s.channels)).length = j * s.channels := by
      rw [List.length_take]; exact Nat.min_eq_left hjl
    have hrem : (codes.drop (j * s.channels)).length = (m - j) * s.channels := by
      rw [List.length_drop, hlen, Nat.sub_mul]
    have hcodes : codes = codes.take (j * s.channels) ++ codes.drop (j * s.channels) :=
      (List.take_append_drop _ codes).symm
    have hpl : (encodeData s.fmt (codes.take (j * s.channels))).length = j * (s.channels * s.fmt.bytes) := by
      rw [encodeData_length, hpre, Nat.mul_assoc]
    have hdata : encodeData s.fmt codes ++ pad (codes.length * s.fmt.bytes)
        = encodeData s.fmt (codes.take (j * s.channels)) ++
            (encodeData s.fmt (codes.drop (j * s.channels)) ++ pad (codes.length * s.fmt.bytes)) := by
      rw [← List.append_assoc, ← encodeData_append, ← hcodes]
    have hdl : codes.length * s.fmt.bytes
        = (encodeData s.fmt (codes.take (j * s.channels))).length + (m - j) * (s.channels * s.fmt.bytes) := by
      rw [hpl, ← Nat.add_mul, Nat.add_sub_cancel' hjm, hlen, Nat.mul_assoc]
    have hnp := nextPacket_encodeData s.fmt s.channels hpos (m - j) (by omega) (codes.drop (j * s.channels)) hrem
      (encodeData s.fmt (codes.take (j * s.channels))) (pad (codes.length * s.fmt.bytes))
    rw [← hdata, ← hdl, hpl] at hnp
    have hqr : min (m - j) maxFramesPerPacket ≤ m - j := Nat.min_le_left _ _
    have hq : 0 < min (m - j) maxFramesPerPacket := by simp only [maxFramesPerPacket]; omega
    have hq2 : min (m - j) maxFramesPerPacket ≤ maxFramesPerPacket := Nat.min_le_right _ _
    generalize min (m - j) maxFramesPerPacket = q at hnp hq hqr hq2
    have hla : ((codes.drop (j * s.channels)).take (q * s.channels)).length = q * s.channels := by
      rw [List.length_take, hrem]; exact Nat.min_eq_left (Nat.mul_le_mul_right _ hqr)
    have hdec := decodePacket_encodeData fd s.fmt s.channels s.rate (s.channels * s.fmt.bytes) hch q hq2
      ((codes.drop (j * s.channels)).take (q * s.channels)) hla ((hr.drop _).take _)
    have hea : (encodeData s.fmt ((codes.drop (j * s.channels)).take (q * s.channels))).length
        = q * (s.channels * s.fmt.bytes) := by rw [encodeData_length, hla, Nat.mul_assoc]
    refine ⟨(groupFrames s.channels q ((codes.drop (j * s.channels)).take (q * s.channels))).map
        (frameOfCodes fd s.fmt s.channels),
      (encodeData s.fmt (codes.take (j * s.channels)) ++
        encodeData s.fmt ((codes.drop (j * s.channels)).take (q * s.channels))).length, ?_, ?_, ?_, ?_, ?_, ?_⟩
    · show (wavDecoder fd s.chunk (fileReader s codes)).decode _ = _
      simp only [wavDecoder, fileReader, Spec.chunk, hnp, hdec]
    · intro h
      have := congrArg List.length h
      simp [groupFrames_length] at this
      omega
    · rw [List.length_append, hpl, hea, ← Nat.add_mul, Nat.mul_div_cancel _ hB]
      simp [groupFrames_length]
    · rw [hsrc]; simp [groupFrames_length]; omega
    · intro k hk'
      simp only [List.length_map, groupFrames_length] at hk'
      -- src = A ++ fs ++ Z
      have h1 := groupFrames_split s.channels j (m - j) codes
      rw [Nat.add_sub_cancel' hjm] at h1
      have h2 := groupFrames_split s.channels q (m - j - q) (codes.drop (j * s.channels))
      rw [Nat.add_sub_cancel' hqr] at h2
      unfold fileFrames
      rw [h1, h2, List.map_append, List.map_append]
      rw [List.getElem?_append_right (by simp [groupFrames_length])]
      simp only [List.length_map, groupFrames_length, Nat.add_sub_cancel_left]
      rw [List.getElem?_append_left (by simp [groupFrames_length]; exact hk')]
    · exact ⟨j + q, by omega, by rw [List.length_append, hpl, hea, ← Nat.add_mul]⟩
  · -- seek
    intro p i hi
    rw [hsrc] at hi
    have hB0 : ¬ (s.channels * s.fmt.bytes = 0) := by omega
    have hnf : numFrames (s.channels * s.fmt.bytes) (codes.length * s.fmt.bytes) = m := by
      unfold numFrames; rw [hlen, Nat.mul_assoc, Nat.mul_div_cancel _ hB]
    have hle : i / maxFramesPerPacket * maxFramesPerPacket ≤ i := Nat.div_mul_le_self _ _
    refine ⟨i / maxFramesPerPacket * maxFramesPerPacket,
      i / maxFramesPerPacket * maxFramesPerPacket * (s.channels * s.fmt.bytes), ?_, hle, ?_, ?_⟩
    · show (wavDecoder fd s.chunk (fileReader s codes)).seek _ _ = _
      have : ¬ (i > m) := by omega
      simp only [wavDecoder, fileReader, Spec.chunk, seekPos, hB0, if_false, hnf, this]
    · exact Nat.mul_div_cancel _ hB
    · exact ⟨_, by omega, rfl⟩

end Wav
end K
