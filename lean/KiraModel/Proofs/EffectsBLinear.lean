/-
  EffectsBLinear.lean — linearity of the delay in (line, feedback-effect state, input), for any parameter
  states (the coefficients do not depend on the signal).  Helper lemmas for C13_delay_linear.
-/
import KiraModel.Proofs.EffectsBProbe

namespace K

/-- `fadd xs ys`: frame-wise sum of two signals (notation for `List.zipWith Frame.add xs ys`) -/
macro "fadd" xs:term:max ys:term:max : term => `(List.zipWith Frame.add $xs $ys)
/-- `fsmul c xs`: a signal scaled by `c` (notation for `List.map (fun f => f.scale c) xs`) -/
macro "fsmul" c:term:max xs:term:max : term => `(List.map (fun f => Frame.scale f $c) $xs)

theorem Frame.add_add_add_comm (a b c d : Frame ℝ) :
    Frame.add (Frame.add a b) (Frame.add c d) = Frame.add (Frame.add a c) (Frame.add b d) := by
  ext <;> simp <;> ring

theorem fadd_fadd_comm (a b c d : List (Frame ℝ)) : fadd (fadd a b) (fadd c d) = fadd (fadd a c) (fadd b d) := by
  apply List.ext_getElem?
  intro i
  simp only [List.getElem?_zipWith]
  cases a[i]? <;> cases b[i]? <;> cases c[i]? <;> cases d[i]? <;> simp [Frame.add_add_add_comm]

theorem fadd_append (a b c d : List (Frame ℝ)) (h : a.length = c.length) :
    fadd (a ++ b) (c ++ d) = fadd a c ++ fadd b d := List.zipWith_append h

theorem fadd_take (n : ℕ) (a b : List (Frame ℝ)) : (fadd a b).take n = fadd (a.take n) (b.take n) :=
  List.take_zipWith
theorem fadd_drop (n : ℕ) (a b : List (Frame ℝ)) : (fadd a b).drop n = fadd (a.drop n) (b.drop n) :=
  List.drop_zipWith

theorem fsmul_fadd (c : ℝ) (a b : List (Frame ℝ)) : fsmul c (fadd a b) = fadd (fsmul c a) (fsmul c b) := by
  apply List.ext_getElem?
  intro i
  simp only [List.getElem?_zipWith, List.getElem?_map]
  cases a[i]? <;> cases b[i]? <;> simp [FrameB.add_scale]

/-- what `C13_delay_linear` asks of the feedback effects: an addition and a scaling on their states
    for which `process` is additive and homogeneous (true of any chain of linear per-frame effects) -/
structure FxChain.Linear {φ : Type} (C : FxChain ℝ φ) (dt : ℝ) (info : Info ℝ)
    (padd : φ → φ → φ) (psmul : ℝ → φ → φ) : Prop where
  len : ∀ s xs, (C.process s xs dt info).2.length = xs.length
  add : ∀ s1 s2 xs ys, xs.length = ys.length →
    C.process (padd s1 s2) (fadd xs ys) dt info
      = (padd (C.process s1 xs dt info).1 (C.process s2 ys dt info).1,
         fadd (C.process s1 xs dt info).2 (C.process s2 ys dt info).2)
  smul : ∀ c s xs, C.process (psmul c s) (fsmul c xs) dt info
      = (psmul c (C.process s xs dt info).1, fsmul c (C.process s xs dt info).2)

namespace Delay
open LineFx
variable {φ : Type}

theorem scaleFb_getElem? (p : Parameter ℝ ℝ) (n : ℕ) (fs : List (Frame ℝ)) (i k : ℕ) :
    (scaleFb p n i fs)[k]? = fs[k]?.map (fun f => f.scale (fbAmp p n (i + k))) := by
  induction fs generalizing i k with
  | nil => simp [scaleFb]
  | cons f fs ih =>
    cases k with
    | zero => simp [scaleFb]
    | succ k =>
      simp only [scaleFb, List.getElem?_cons_succ, ih]
      congr 2; funext f; congr 2; omega

theorem mixOut_getElem? (p : Parameter ℝ ℝ) (n : ℕ) (ts xs : List (Frame ℝ)) (i k : ℕ) :
    (mixOut p n i ts xs)[k]?
      = match ts[k]?, xs[k]? with
        | some t, some x => some (blend t x (mixAt p n (i + k)))
        | _, _ => none := by
  induction ts generalizing xs i k with
  | nil => cases xs <;> simp [mixOut]
  | cons t ts ih =>
    cases xs with
    | nil => simp [mixOut]
    | cons x xs =>
      cases k with
      | zero => simp [mixOut]
      | succ k =>
        simp only [mixOut, List.getElem?_cons_succ, ih]
        have : i + 1 + k = i + (k + 1) := by omega
        rw [this]

theorem mixOut_length (p : Parameter ℝ ℝ) (n : ℕ) (ts xs : List (Frame ℝ)) (i : ℕ) :
    (mixOut p n i ts xs).length = min ts.length xs.length := by
  induction ts generalizing xs i with
  | nil => cases xs <;> simp [mixOut]
  | cons t ts ih =>
    cases xs with
    | nil => simp [mixOut]
    | cons x xs => simp [mixOut, ih]

theorem scaleFb_add (p : Parameter ℝ ℝ) (n i : ℕ) (a b : List (Frame ℝ)) :
    scaleFb p n i (fadd a b) = fadd (scaleFb p n i a) (scaleFb p n i b) := by
  apply List.ext_getElem?
  intro k
  simp only [scaleFb_getElem?, List.getElem?_zipWith]
  cases a[k]? <;> cases b[k]? <;> simp [FrameB.add_scale]

theorem scaleFb_smul (p : Parameter ℝ ℝ) (n i : ℕ) (c : ℝ) (a : List (Frame ℝ)) :
    scaleFb p n i (fsmul c a) = fsmul c (scaleFb p n i a) := by
  apply List.ext_getElem?
  intro k
  simp only [scaleFb_getElem?, List.getElem?_map]
  cases a[k]? <;> simp [FrameB.scale_comm]

theorem mixOut_add (p : Parameter ℝ ℝ) (n i : ℕ) (t1 t2 x1 x2 : List (Frame ℝ)) :
    mixOut p n i (fadd t1 t2) (fadd x1 x2) = fadd (mixOut p n i t1 x1) (mixOut p n i t2 x2) := by
  apply List.ext_getElem?
  intro k
  simp only [mixOut_getElem?, List.getElem?_zipWith]
  cases t1[k]? <;> cases t2[k]? <;> cases x1[k]? <;> cases x2[k]? <;> simp [blend_add]

theorem mixOut_smul (p : Parameter ℝ ℝ) (n i : ℕ) (c : ℝ) (t x : List (Frame ℝ)) :
    mixOut p n i (fsmul c t) (fsmul c x) = fsmul c (mixOut p n i t x) := by
  apply List.ext_getElem?
  intro k
  simp only [mixOut_getElem?, List.getElem?_map]
  cases t[k]? <;> cases x[k]? <;> simp [blend_scale]

theorem chunkPure_out_length (C : FxChain ℝ φ) (fb mx : Parameter ℝ ℝ) (dt : ℝ) (info : Info ℝ)
    (hlen : ∀ s xs, (C.process s xs dt info).2.length = xs.length)
    (st : List (Frame ℝ) × φ) (xs : List (Frame ℝ)) (h : xs.length ≤ st.1.length) :
    (chunkPure C fb mx dt info st xs).2.length = xs.length := by
  simp [chunkPure, mixOut_length, scaleFb_length, hlen]
  omega

theorem chunkPure_add (C : FxChain ℝ φ) (fb mx : Parameter ℝ ℝ) (dt : ℝ) (info : Info ℝ)
    (padd : φ → φ → φ) (psmul : ℝ → φ → φ) (hC : C.Linear dt info padd psmul)
    (b1 b2 : List (Frame ℝ)) (s1 s2 : φ) (x1 x2 : List (Frame ℝ)) (hb : b1.length = b2.length)
    (hx : x1.length = x2.length) :
    chunkPure C fb mx dt info (fadd b1 b2, padd s1 s2) (fadd x1 x2)
      = ((fadd (chunkPure C fb mx dt info (b1, s1) x1).1.1 (chunkPure C fb mx dt info (b2, s2) x2).1.1,
          padd (chunkPure C fb mx dt info (b1, s1) x1).1.2 (chunkPure C fb mx dt info (b2, s2) x2).1.2),
         fadd (chunkPure C fb mx dt info (b1, s1) x1).2 (chunkPure C fb mx dt info (b2, s2) x2).2) := by
  have hn : (fadd x1 x2).length = x1.length := by simp [hx]
  have htl : (b1.take x1.length).length = (b2.take x1.length).length := by simp [hb]
  have hdl : (b1.drop x1.length).length = (b2.drop x1.length).length := by simp [hb]
  simp only [chunkPure, hn, ← hx, fadd_take, fadd_drop, hC.add _ _ _ _ htl, scaleFb_add, mixOut_add]
  rw [fadd_fadd_comm, ← fadd_append _ _ _ _ hdl]

theorem chunkPure_smul (C : FxChain ℝ φ) (fb mx : Parameter ℝ ℝ) (dt : ℝ) (info : Info ℝ)
    (padd : φ → φ → φ) (psmul : ℝ → φ → φ) (hC : C.Linear dt info padd psmul) (c : ℝ)
    (b : List (Frame ℝ)) (s : φ) (x : List (Frame ℝ)) :
    chunkPure C fb mx dt info (fsmul c b, psmul c s) (fsmul c x)
      = ((fsmul c (chunkPure C fb mx dt info (b, s) x).1.1, psmul c (chunkPure C fb mx dt info (b, s) x).1.2),
         fsmul c (chunkPure C fb mx dt info (b, s) x).2) := by
  have hn : (fsmul c x).length = x.length := by simp
  simp only [chunkPure, hn, ← List.map_take, ← List.map_drop, hC.smul, scaleFb_smul, mixOut_smul]
  rw [List.map_append, fsmul_fadd]

theorem chunks_succ (C : FxChain ℝ φ) (fb mx : Parameter ℝ ℝ) (dt : ℝ) (info : Info ℝ) (tempLen L fuel : ℕ)
    (st : List (Frame ℝ) × φ) (xs : List (Frame ℝ)) (hne : xs ≠ []) :
    chunks C fb mx dt info tempLen L (fuel + 1) st xs
      = if tempLen < (xs.take L).length then .error .indexOOB
        else
          match chunks C fb mx dt info tempLen L fuel (chunkPure C fb mx dt info st (xs.take L)).1 (xs.drop L) with
          | .ok (st2, o2) => .ok (st2, (chunkPure C fb mx dt info st (xs.take L)).2 ++ o2)
          | .error e => .error e := by
  cases xs with
  | nil => exact absurd rfl hne
  | cons x xs =>
    rw [chunks]
    split
    · rfl
    · dsimp only
      generalize chunks C fb mx dt info tempLen L fuel _ _ = q
      rcases q with e | ⟨a, b⟩ <;> rfl

theorem chunks_buf_length (C : FxChain ℝ φ) (fb mx : Parameter ℝ ℝ) (dt : ℝ) (info : Info ℝ)
    (hlen : ∀ s xs, (C.process s xs dt info).2.length = xs.length) (tempLen L : ℕ) :
    ∀ (fuel : ℕ) (st : List (Frame ℝ) × φ) (xs : List (Frame ℝ)) r, st.1.length = L →
      chunks C fb mx dt info tempLen L fuel st xs = .ok r → r.1.1.length = L := by
  intro fuel
  induction fuel with
  | zero =>
    intro st xs r hst h
    cases xs with
    | nil => simp [chunks] at h; subst h; exact hst
    | cons x xs => simp [chunks] at h
  | succ fuel ih =>
    intro st xs r hst h
    cases xs with
    | nil => simp [chunks] at h; subst h; exact hst
    | cons x xs =>
      rw [chunks] at h
      by_cases hoob : tempLen < ((x :: xs).take L).length
      · rw [if_pos hoob] at h; cases h
      · rw [if_neg hoob] at h
        dsimp only at h
        have hcl : ((x :: xs).take L).length ≤ st.1.length := by
          rw [hst]; simp only [List.length_take]; exact Nat.min_le_left _ _
        have hb := chunkPure_buf_length C fb mx dt info hlen st _ hcl
        split at h
        · rename_i st2 o2 heq
          have := ih _ _ (st2, o2) (by rw [hb, hst]) heq
          cases h
          exact this
        · cases h

theorem chunks_add (C : FxChain ℝ φ) (fb mx : Parameter ℝ ℝ) (dt : ℝ) (info : Info ℝ)
    (padd : φ → φ → φ) (psmul : ℝ → φ → φ) (hC : C.Linear dt info padd psmul) (tempLen L : ℕ) :
    ∀ (fuel : ℕ) (st1 st2 : List (Frame ℝ) × φ) (x1 x2 : List (Frame ℝ)) r1 r2,
      st1.1.length = L → st2.1.length = L → x1.length = x2.length →
      chunks C fb mx dt info tempLen L fuel st1 x1 = .ok r1 →
      chunks C fb mx dt info tempLen L fuel st2 x2 = .ok r2 →
      chunks C fb mx dt info tempLen L fuel (fadd st1.1 st2.1, padd st1.2 st2.2) (fadd x1 x2)
        = .ok ((fadd r1.1.1 r2.1.1, padd r1.1.2 r2.1.2), fadd r1.2 r2.2) := by
  intro fuel
  induction fuel with
  | zero =>
    intro st1 st2 x1 x2 r1 r2 _ _ hx h1 h2
    cases x1 with
    | nil =>
      cases x2 with
      | nil => simp [chunks] at h1 h2 ⊢; subst h1; subst h2; simp
      | cons b bs => simp at hx
    | cons a as => simp [chunks] at h1
  | succ fuel ih =>
    intro st1 st2 x1 x2 r1 r2 hl1 hl2 hx h1 h2
    cases x1 with
    | nil =>
      cases x2 with
      | nil => simp [chunks] at h1 h2 ⊢; subst h1; subst h2; simp
      | cons b bs => simp at hx
    | cons a as =>
      cases x2 with
      | nil => simp at hx
      | cons b bs =>
        obtain ⟨b1, s1⟩ := st1
        obtain ⟨b2, s2⟩ := st2
        simp only at hl1 hl2
        have hcl : ((a :: as).take L).length = ((b :: bs).take L).length := by
          simp only [List.length_take, hx]
        rw [chunks] at h1 h2
        by_cases hoob : tempLen < ((a :: as).take L).length
        · rw [if_pos hoob] at h1; cases h1
        · rw [if_neg hoob] at h1
          rw [if_neg (by rw [← hcl]; exact hoob)] at h2
          dsimp only at h1 h2
          split at h1
          · rename_i t1 o1 e1
            split at h2
            · rename_i t2 o2 e2
              have hc1 : ((a :: as).take L).length ≤ b1.length := by
                rw [hl1]; simp only [List.length_take]; exact Nat.min_le_left _ _
              have hc2 : ((b :: bs).take L).length ≤ b2.length := by
                rw [hl2]; simp only [List.length_take]; exact Nat.min_le_left _ _
              have hb1 := chunkPure_buf_length C fb mx dt info hC.len (b1, s1) _ hc1
              have hb2 := chunkPure_buf_length C fb mx dt info hC.len (b2, s2) _ hc2
              have ho1 := chunkPure_out_length C fb mx dt info hC.len (b1, s1) _ hc1
              have ho2 := chunkPure_out_length C fb mx dt info hC.len (b2, s2) _ hc2
              have hrec := ih _ _ _ _ (t1, o1) (t2, o2) (by rw [hb1]; exact hl1) (by rw [hb2]; exact hl2)
                (by simp only [List.length_drop, hx]) e1 e2
              cases h1
              cases h2
              rw [chunks_succ _ _ _ _ _ _ _ _ _ _ (by simp), fadd_take, fadd_drop]
              have hlen' : (fadd ((a :: as).take L) ((b :: bs).take L)).length = ((a :: as).take L).length := by
                simp [hcl]
              rw [if_neg (by rw [hlen']; exact hoob)]
              rw [chunkPure_add C fb mx dt info padd psmul hC b1 b2 s1 s2 _ _ (by rw [hl1, hl2]) hcl]
              dsimp only
              rw [hrec]
              simp only
              rw [fadd_append _ _ _ _ (by rw [ho1, ho2, hcl])]
            · cases h2
          · cases h1

theorem chunks_smul (C : FxChain ℝ φ) (fb mx : Parameter ℝ ℝ) (dt : ℝ) (info : Info ℝ)
    (padd : φ → φ → φ) (psmul : ℝ → φ → φ) (hC : C.Linear dt info padd psmul) (tempLen L : ℕ) (c : ℝ) :
    ∀ (fuel : ℕ) (st : List (Frame ℝ) × φ) (x : List (Frame ℝ)) r,
      chunks C fb mx dt info tempLen L fuel st x = .ok r →
      chunks C fb mx dt info tempLen L fuel (fsmul c st.1, psmul c st.2) (fsmul c x)
        = .ok ((fsmul c r.1.1, psmul c r.1.2), fsmul c r.2) := by
  intro fuel
  induction fuel with
  | zero =>
    intro st x r h
    cases x with
    | nil => simp [chunks] at h ⊢; subst h; simp
    | cons a as => simp [chunks] at h
  | succ fuel ih =>
    intro st x r h
    cases x with
    | nil => simp [chunks] at h ⊢; subst h; simp
    | cons a as =>
      obtain ⟨b, s⟩ := st
      rw [chunks] at h
      by_cases hoob : tempLen < ((a :: as).take L).length
      · rw [if_pos hoob] at h; cases h
      · rw [if_neg hoob] at h
        dsimp only at h
        split at h
        · rename_i t o e
          have hrec := ih _ _ (t, o) e
          cases h
          rw [chunks_succ _ _ _ _ _ _ _ _ _ _ (by simp), ← List.map_take, ← List.map_drop]
          have hlen' : (fsmul c ((a :: as).take L)).length = ((a :: as).take L).length := by simp
          rw [if_neg (by rw [hlen']; exact hoob)]
          rw [chunkPure_smul C fb mx dt info padd psmul hC c b s _]
          dsimp only
          rw [hrec]
          simp only [List.map_append]
        · cases h

/-- the sum of two delays that share configuration and parameters: lines and feedback-effect states add -/
noncomputable def plus (padd : φ → φ → φ) (d1 d2 : Delay ℝ φ) : Delay ℝ φ :=
  { d1 with buffer := fadd d1.buffer d2.buffer, fx := padd d1.fx d2.fx }

/-- a delay scaled by `c`: line and feedback-effect state scale -/
noncomputable def times (psmul : ℝ → φ → φ) (c : ℝ) (d : Delay ℝ φ) : Delay ℝ φ :=
  { d with buffer := fsmul c d.buffer, fx := psmul c d.fx }

/-- same delay time, parameters, pending commands, temp-buffer size and line length -/
def SameControls (d1 d2 : Delay ℝ φ) : Prop :=
  d1.delayNs = d2.delayNs ∧ d1.feedback = d2.feedback ∧ d1.mix = d2.mix ∧ d1.cmdFeedback = d2.cmdFeedback
    ∧ d1.cmdMix = d2.cmdMix ∧ d1.tempLen = d2.tempLen ∧ d1.buffer.length = d2.buffer.length

theorem process_add (C : FxChain ℝ φ) (dt : ℝ) (info : Info ℝ)
    (padd : φ → φ → φ) (psmul : ℝ → φ → φ) (hC : C.Linear dt info padd psmul)
    (d1 d2 : Delay ℝ φ) (hsame : SameControls d1 d2) (x1 x2 : List (Frame ℝ)) (hx : x1.length = x2.length)
    (d1' d2' : Delay ℝ φ) (o1 o2 : List (Frame ℝ))
    (h1 : d1.process C x1 dt info = .ok (d1', o1)) (h2 : d2.process C x2 dt info = .ok (d2', o2)) :
    (plus padd d1 d2).process C (fadd x1 x2) dt info = .ok (plus padd d1' d2', fadd o1 o2)
      ∧ SameControls d1' d2' := by
  obtain ⟨e1, e2, e3, e4, e5, e6, e7⟩ := hsame
  have hlen : (fadd x1 x2).length = x1.length := by simp [hx]
  have hbl : (fadd d1.buffer d2.buffer).length = d1.buffer.length := by simp [e7]
  unfold process at h1 h2 ⊢
  simp only [plus, hlen, hbl] at h1 h2 ⊢
  rw [← e2, ← e3, ← e6, ← e7, ← hx] at h2
  by_cases hL : d1.buffer.length = 0
  · rw [if_pos hL] at h1; cases h1
  · rw [if_neg hL] at h1 h2 ⊢
    split at h1
    · rename_i st1 out1 c1
      split at h2
      · rename_i st2 out2 c2
        have := chunks_add C _ _ dt info padd psmul hC d1.tempLen d1.buffer.length x1.length
          (d1.buffer, d1.fx) (d2.buffer, d2.fx) x1 x2 (st1, out1) (st2, out2) rfl e7.symm hx c1 c2
        simp only at this
        rw [this]
        have hb1 := (chunks_buf_length C _ _ dt info hC.len d1.tempLen d1.buffer.length x1.length
          (d1.buffer, d1.fx) x1 (st1, out1) rfl c1)
        have hb2 := (chunks_buf_length C _ _ dt info hC.len d1.tempLen d1.buffer.length x1.length
          (d2.buffer, d2.fx) x2 (st2, out2) e7.symm c2)
        simp only at hb1 hb2
        cases h1
        cases h2
        refine ⟨rfl, e1, rfl, rfl, e4, e5, rfl, ?_⟩
        simp only
        rw [hb1, hb2]
      · cases h2
    · cases h1

theorem process_smul (C : FxChain ℝ φ) (dt : ℝ) (info : Info ℝ)
    (padd : φ → φ → φ) (psmul : ℝ → φ → φ) (hC : C.Linear dt info padd psmul) (c : ℝ)
    (d : Delay ℝ φ) (x : List (Frame ℝ)) (d' : Delay ℝ φ) (o : List (Frame ℝ))
    (h : d.process C x dt info = .ok (d', o)) :
    (times psmul c d).process C (fsmul c x) dt info = .ok (times psmul c d', fsmul c o) := by
  have hlen : (fsmul c x).length = x.length := by simp
  have hbl : (fsmul c d.buffer).length = d.buffer.length := by simp
  unfold process at h ⊢
  simp only [times, hlen, hbl] at h ⊢
  by_cases hL : d.buffer.length = 0
  · rw [if_pos hL] at h; cases h
  · rw [if_neg hL] at h ⊢
    split at h
    · rename_i st out c1
      have := chunks_smul C _ _ dt info padd psmul hC d.tempLen d.buffer.length c x.length
        (d.buffer, d.fx) x (st, out) c1
      simp only at this
      rw [this]
      cases h
      rfl
    · cases h

end Delay

/-! ### a probe effect with zero offset (gain + one-pole feedback) is a linear chain -/

namespace ProbeFx

/-- the suite's probe effect with gain `g`, offset 0 and feedback `f`, as a chain whose state is `prev` -/
noncomputable def onePole (g f : ℝ) : FxChain ℝ (Frame ℝ) :=
  { init := fun s _ _ => s, changeRate := fun s _ => s, startProcessing := fun s => s
    process := fun prev xs _ _ =>
      (((⟨g, 0, f, prev⟩ : ProbeFx ℝ).process xs).1.prev, ((⟨g, 0, f, prev⟩ : ProbeFx ℝ).process xs).2) }

theorem process_config (p : ProbeFx ℝ) (xs : List (Frame ℝ)) :
    (p.process xs).1 = ⟨p.gain, p.offset, p.feedback, (p.process xs).1.prev⟩ := by
  induction xs generalizing p with
  | nil => rfl
  | cons x xs ih =>
    simp only [process]
    rw [ih]
    simp [step]

theorem onePole_linear (g f dt : ℝ) (info : Info ℝ) :
    (onePole g f).Linear dt info Frame.add (fun c p => p.scale c) := by
  refine ⟨fun s xs => process_length _ xs, ?_, ?_⟩
  · intro s1 s2 xs
    induction xs generalizing s1 s2 with
    | nil =>
      intro ys hl
      cases ys with
      | nil => simp [onePole, process]
      | cons y ys => simp at hl
    | cons x xs ih =>
      intro ys hl
      cases ys with
      | nil => simp at hl
      | cons y ys =>
        have hl' : xs.length = ys.length := by simpa using hl
        have hstep : ((⟨g, 0, f, Frame.add s1 s2⟩ : ProbeFx ℝ).step (Frame.add x y))
            = (⟨g, 0, f, Frame.add ((⟨g, 0, f, s1⟩ : ProbeFx ℝ).step x).2 ((⟨g, 0, f, s2⟩ : ProbeFx ℝ).step y).2⟩,
               Frame.add ((⟨g, 0, f, s1⟩ : ProbeFx ℝ).step x).2 ((⟨g, 0, f, s2⟩ : ProbeFx ℝ).step y).2) := by
          simp only [step, chan, r32_real, FrameB.add_left, FrameB.add_right, add_zero]
          refine Prod.ext ?_ ?_ <;> simp <;> (try constructor) <;> (try ext) <;> simp <;> ring
        have h1 : ((⟨g, 0, f, s1⟩ : ProbeFx ℝ).step x).1 = ⟨g, 0, f, ((⟨g, 0, f, s1⟩ : ProbeFx ℝ).step x).2⟩ := rfl
        have h2 : ((⟨g, 0, f, s2⟩ : ProbeFx ℝ).step y).1 = ⟨g, 0, f, ((⟨g, 0, f, s2⟩ : ProbeFx ℝ).step y).2⟩ := rfl
        have := ih ((⟨g, 0, f, s1⟩ : ProbeFx ℝ).step x).2 ((⟨g, 0, f, s2⟩ : ProbeFx ℝ).step y).2 ys hl'
        simp only [onePole, Prod.mk.injEq] at this ⊢
        simp only [List.zipWith_cons_cons, process, hstep, h1, h2]
        exact ⟨this.1, by rw [this.2]⟩
  · intro c s xs
    induction xs generalizing s with
    | nil => simp [onePole, process]
    | cons x xs ih =>
      have hstep : ((⟨g, 0, f, s.scale c⟩ : ProbeFx ℝ).step (x.scale c))
          = (⟨g, 0, f, (((⟨g, 0, f, s⟩ : ProbeFx ℝ).step x).2).scale c⟩,
             (((⟨g, 0, f, s⟩ : ProbeFx ℝ).step x).2).scale c) := by
        simp only [step, chan, r32_real, FrameB.scale_left, FrameB.scale_right, add_zero]
        refine Prod.ext ?_ ?_ <;> simp <;> (try constructor) <;> (try ext) <;> simp <;> ring
      have h1 : ((⟨g, 0, f, s⟩ : ProbeFx ℝ).step x).1 = ⟨g, 0, f, ((⟨g, 0, f, s⟩ : ProbeFx ℝ).step x).2⟩ := rfl
      have := ih ((⟨g, 0, f, s⟩ : ProbeFx ℝ).step x).2
      simp only [onePole, Prod.mk.injEq] at this ⊢
      simp only [List.map_cons, process, hstep, h1]
      exact ⟨this.1, by rw [this.2]⟩

end ProbeFx
end K
