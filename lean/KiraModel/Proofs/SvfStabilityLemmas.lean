/-
  Helper lemmas: energy (Lyapunov) analysis of the trapezoidal state-variable filter tick
  `svfTick` with the coefficients `a1 = 1/(1+g(g+k))`, `a2 = g·a1`, `a3 = g·a2`.

  Per channel, with `v1` the band-pass tap, the integrator energy `E = ic1eq² + ic2eq²` obeys the
  exact balance   E' = E − 4·g·k·v1² + 4·g·x·v1   (x the input sample).
-/
import KiraModel.Proofs.EffectsAFilter

namespace K

/-- the exact one-channel energy balance (`a` stands for `a1`, `ha` says `a = 1/(1+g(g+k))`) -/
theorem svf_energy_scalar (g k a p q y : ℝ) (ha : a * (1 + g * (g + k)) = 1) :
    ((p * a + (y - q) * (g * a)) * 2 - p) ^ 2
        + ((q + p * (g * a) + (y - q) * (g * (g * a))) * 2 - q) ^ 2
      = p ^ 2 + q ^ 2 - 4 * g * k * (p * a + (y - q) * (g * a)) ^ 2
          + 4 * g * y * (p * a + (y - q) * (g * a)) := by
  linear_combination (4 * a * (p + g * (y - q)) ^ 2) * ha

/-- the input term is dominated: `4g(x·v − k·v²) ≤ (g/k)·x²` -/
theorem svf_input_term_le (g k y v : ℝ) (hg : 0 < g) (hk : 0 < k) :
    - (4 * g * k * v ^ 2) + 4 * g * y * v ≤ g / k * y ^ 2 := by
  have h : g / k * y ^ 2 - (- (4 * g * k * v ^ 2) + 4 * g * y * v) = g / k * (y - 2 * k * v) ^ 2 := by
    field_simp; ring
  have h2 : 0 ≤ g / k * (y - 2 * k * v) ^ 2 := by positivity
  linarith

/-- integrator energy of a stereo integrator pair: the sum of the squares of the four numbers -/
noncomputable def svfEnergy (v : Frame ℝ × Frame ℝ) : ℝ :=
  v.1.left ^ 2 + v.2.left ^ 2 + (v.1.right ^ 2 + v.2.right ^ 2)

/-- squared size of a frame -/
noncomputable def frameSq (f : Frame ℝ) : ℝ := f.left ^ 2 + f.right ^ 2

theorem svfEnergy_nonneg (v : Frame ℝ × Frame ℝ) : 0 ≤ svfEnergy v := by
  unfold svfEnergy; positivity

theorem frameSq_nonneg (f : Frame ℝ) : 0 ≤ frameSq f := by unfold frameSq; positivity

/-- the SVF state transition with the coefficients written in terms of `g` and `k` -/
noncomputable def svfStep (g k : ℝ) (v : Frame ℝ × Frame ℝ) (f : Frame ℝ) : Frame ℝ × Frame ℝ :=
  ((svfTick (1 / (1 + g * (g + k))) (g * (1 / (1 + g * (g + k))))
      (g * (g * (1 / (1 + g * (g + k))))) v.1 v.2 f).ic1eq,
   (svfTick (1 / (1 + g * (g + k))) (g * (1 / (1 + g * (g + k))))
      (g * (g * (1 / (1 + g * (g + k))))) v.1 v.2 f).ic2eq)

/-- the band-pass tap `v1` of that transition -/
noncomputable def svfV1 (g k : ℝ) (v : Frame ℝ × Frame ℝ) (f : Frame ℝ) : Frame ℝ :=
  (svfTick (1 / (1 + g * (g + k))) (g * (1 / (1 + g * (g + k))))
      (g * (g * (1 / (1 + g * (g + k))))) v.1 v.2 f).v1

/-- stereo energy balance of one tick -/
theorem svfStep_energy (g k : ℝ) (hg : 0 < g) (hk : 0 < k) (v : Frame ℝ × Frame ℝ) (f : Frame ℝ) :
    svfEnergy (svfStep g k v f)
      = svfEnergy v - 4 * g * k * frameSq (svfV1 g k v f)
          + 4 * g * (f.left * (svfV1 g k v f).left + f.right * (svfV1 g k v f).right) := by
  have hD : (1 + g * (g + k)) ≠ 0 := by positivity
  have ha : 1 / (1 + g * (g + k)) * (1 + g * (g + k)) = 1 := by field_simp
  have hl := svf_energy_scalar g k _ v.1.left v.2.left f.left ha
  have hr := svf_energy_scalar g k _ v.1.right v.2.right f.right ha
  unfold svfEnergy frameSq svfStep svfV1
  simp only [svfTick_real]
  linarith

/-- zero input: the energy drops by exactly `4·g·k·|v1|²` -/
theorem svfStep_energy_zero (g k : ℝ) (hg : 0 < g) (hk : 0 < k) (v : Frame ℝ × Frame ℝ) :
    svfEnergy (svfStep g k v 0) = svfEnergy v - 4 * g * k * frameSq (svfV1 g k v 0) := by
  rw [svfStep_energy g k hg hk]
  have h1 : (0 : Frame ℝ).left = 0 := rfl
  have h2 : (0 : Frame ℝ).right = 0 := rfl
  rw [h1, h2]; ring

/-- with zero input `v1 = a1·(ic1eq − g·ic2eq)`: it vanishes exactly on the line `ic1eq = g·ic2eq` -/
theorem svfV1_zero_eq_zero_iff (g k : ℝ) (hg : 0 < g) (hk : 0 < k) (v : Frame ℝ × Frame ℝ) :
    frameSq (svfV1 g k v 0) = 0 ↔ (v.1.left = g * v.2.left ∧ v.1.right = g * v.2.right) := by
  have hD : 0 < (1 + g * (g + k)) := by positivity
  have h1 : (0 : Frame ℝ).left = 0 := rfl
  have h2 : (0 : Frame ℝ).right = 0 := rfl
  have key : ∀ p q : ℝ, p * (1 / (1 + g * (g + k))) + (0 - q) * (g * (1 / (1 + g * (g + k)))) = 0 ↔ p = g * q := by
    intro p q
    have e : p * (1 / (1 + g * (g + k))) + (0 - q) * (g * (1 / (1 + g * (g + k))))
        = (p - g * q) / (1 + g * (g + k)) := by field_simp; ring
    rw [e, div_eq_zero_iff]
    constructor
    · rintro (h | h)
      · linarith
      · exact absurd h (ne_of_gt hD)
    · intro h; left; linarith
  unfold frameSq svfV1
  simp only [svfTick_real, h1, h2]
  constructor
  · intro h
    have hl : (v.1.left * (1 / (1 + g * (g + k))) + (0 - v.2.left) * (g * (1 / (1 + g * (g + k))))) = 0 := by
      nlinarith [sq_nonneg (v.1.left * (1 / (1 + g * (g + k))) + (0 - v.2.left) * (g * (1 / (1 + g * (g + k))))),
        sq_nonneg (v.1.right * (1 / (1 + g * (g + k))) + (0 - v.2.right) * (g * (1 / (1 + g * (g + k)))))]
    have hr : (v.1.right * (1 / (1 + g * (g + k))) + (0 - v.2.right) * (g * (1 / (1 + g * (g + k))))) = 0 := by
      nlinarith [sq_nonneg (v.1.left * (1 / (1 + g * (g + k))) + (0 - v.2.left) * (g * (1 / (1 + g * (g + k))))),
        sq_nonneg (v.1.right * (1 / (1 + g * (g + k))) + (0 - v.2.right) * (g * (1 / (1 + g * (g + k)))))]
    exact ⟨(key _ _).1 hl, (key _ _).1 hr⟩
  · rintro ⟨hl, hr⟩
    rw [(key _ _).2 hl, (key _ _).2 hr]; ring

/-- any input: the energy grows by at most `(g/k)·|x|²` per tick -/
theorem svfStep_energy_le (g k : ℝ) (hg : 0 < g) (hk : 0 < k) (v : Frame ℝ × Frame ℝ) (f : Frame ℝ) :
    svfEnergy (svfStep g k v f) ≤ svfEnergy v + g / k * frameSq f := by
  rw [svfStep_energy g k hg hk]
  have hl := svf_input_term_le g k f.left (svfV1 g k v f).left hg hk
  have hr := svf_input_term_le g k f.right (svfV1 g k v f).right hg hk
  unfold frameSq
  nlinarith

/-- induction over a run: a per-tick energy inequality adds up -/
theorem runTick_energy_le {V : Type} (tick : V → Frame ℝ → V × Frame ℝ) (E : V → ℝ) (c : ℝ)
    (h : ∀ v f, E (tick v f).1 ≤ E v + c * frameSq f) :
    ∀ (xs : List (Frame ℝ)) (v : V), E (runTick tick v xs).1 ≤ E v + c * (xs.map frameSq).sum := by
  intro xs
  induction xs with
  | nil => intro v; simp [runTick]
  | cons f fs ih =>
    intro v
    simp only [runTick, List.map_cons, List.sum_cons]
    have h1 := ih (tick v f).1
    have h2 := h v f
    linarith

/-- induction over a silent run: a per-tick zero-input energy inequality persists -/
theorem runTick_silence_energy_le {V : Type} (tick : V → Frame ℝ → V × Frame ℝ) (E : V → ℝ)
    (h : ∀ v, E (tick v 0).1 ≤ E v) :
    ∀ (n : ℕ) (v : V), E (runTick tick v (List.replicate n 0)).1 ≤ E v := by
  intro n
  induction n with
  | zero => intro v; simp [runTick]
  | succ m ih =>
    intro v
    simp only [List.replicate_succ, runTick]
    exact le_trans (ih (tick v 0).1) (h v)

/-- each integrator number squared is at most the energy -/
theorem svfEnergy_components (w : Frame ℝ × Frame ℝ) :
    w.1.left ^ 2 ≤ svfEnergy w ∧ w.2.left ^ 2 ≤ svfEnergy w
      ∧ w.1.right ^ 2 ≤ svfEnergy w ∧ w.2.right ^ 2 ≤ svfEnergy w := by
  unfold svfEnergy
  refine ⟨?_, ?_, ?_, ?_⟩ <;> nlinarith [sq_nonneg w.1.left, sq_nonneg w.2.left, sq_nonneg w.1.right, sq_nonneg w.2.right]

/-- a sum of squared frame sizes each at most `B2` is at most `length · B2` -/
theorem sum_frameSq_le (xs : List (Frame ℝ)) (B2 : ℝ) (h : ∀ x ∈ xs, frameSq x ≤ B2) :
    (xs.map frameSq).sum ≤ xs.length * B2 := by
  induction xs with
  | nil => simp
  | cons f fs ih =>
    simp only [List.map_cons, List.sum_cons, List.length_cons, Nat.cast_succ]
    have h1 := ih (fun x hx => h x (List.mem_cons_of_mem _ hx))
    have h2 := h f List.mem_cons_self
    linarith

/-! ## a strict Lyapunov function: `W = p² + q² + (k/2)·p·q` per channel -/

/-- weighted energy of one channel -/
noncomputable def svfW (k p q : ℝ) : ℝ := p ^ 2 + q ^ 2 + k / 2 * p * q

/-- the constant `K(g,k) = 3(1+gk)² + 3g² + 2` -/
noncomputable def svfK (g k : ℝ) : ℝ := 3 * (1 + g * k) ^ 2 + 3 * g ^ 2 + 2
/-- the contraction rate `λ = g·k / (6·K)` -/
noncomputable def svfLam (g k : ℝ) : ℝ := g * k / (6 * svfK g k)
/-- the input gain `C = 3g³k/(4K) + g(16/k + k)` -/
noncomputable def svfC (g k : ℝ) : ℝ := 3 * g ^ 3 * k / (4 * svfK g k) + g * (16 / k + k)

theorem svfK_pos (g k : ℝ) : 0 < svfK g k := by unfold svfK; positivity

theorem svfLam_pos (g k : ℝ) (hg : 0 < g) (hk : 0 < k) : 0 < svfLam g k := by
  have := svfK_pos g k
  unfold svfLam; positivity

theorem svfLam_le_one (g k : ℝ) (hg : 0 < g) (hk : 0 < k) : svfLam g k ≤ 1 := by
  have hK := svfK_pos g k
  unfold svfLam
  rw [div_le_one (by positivity)]
  have : g * k ≤ svfK g k := by
    unfold svfK; nlinarith [sq_nonneg (1 - g * k), sq_nonneg g, mul_pos hg hk]
  linarith

theorem svfC_nonneg (g k : ℝ) (hg : 0 < g) (hk : 0 < k) : 0 ≤ svfC g k := by
  have := svfK_pos g k
  unfold svfC; positivity

/-- `W` is positive definite for `0 < k ≤ 2`: `½(p²+q²) ≤ W ≤ (3/2)(p²+q²)` -/
theorem svfW_bounds (k p q : ℝ) (hk : 0 < k) (hk2 : k ≤ 2) :
    1 / 2 * (p ^ 2 + q ^ 2) ≤ svfW k p q ∧ svfW k p q ≤ 3 / 2 * (p ^ 2 + q ^ 2) := by
  unfold svfW
  have h2 : 0 ≤ 2 - k := by linarith
  constructor
  · nlinarith [mul_nonneg hk.le (sq_nonneg (p + q)), mul_nonneg h2 (sq_nonneg p), mul_nonneg h2 (sq_nonneg q)]
  · nlinarith [mul_nonneg hk.le (sq_nonneg (p - q)), mul_nonneg h2 (sq_nonneg p), mul_nonneg h2 (sq_nonneg q)]

/-- exact balance of `W` in terms of the taps `v1 v2` -/
theorem svf_lyap_identity (g k v1 v2 y : ℝ) :
    svfW k (v1 * 2 - (v1 * (1 + g * k) + g * v2 - g * y)) (v2 * 2 - (v2 - g * v1))
        - svfW k (v1 * (1 + g * k) + g * v2 - g * y) (v2 - g * v1)
      = -(g * k) * (3 * v1 ^ 2 + k * v1 * v2 + v2 ^ 2) + g * y * (4 * v1 + k * v2) := by
  unfold svfW; ring

theorem svf_lyap_quad (k v1 v2 : ℝ) (hk : 0 < k) (hk2 : k ≤ 2) :
    1 / 2 * (v1 ^ 2 + v2 ^ 2) ≤ 3 * v1 ^ 2 + k * v1 * v2 + v2 ^ 2 := by
  have h2 : 0 ≤ 2 - k := by linarith
  nlinarith [mul_nonneg hk.le (sq_nonneg (2 * v1 + v2)), mul_nonneg hk.le (sq_nonneg v1),
    mul_nonneg h2 (sq_nonneg v1), mul_nonneg h2 (sq_nonneg v2)]

theorem svf_young1 (k v y : ℝ) (hk : 0 < k) : y * (4 * v) ≤ k / 4 * v ^ 2 + 16 / k * y ^ 2 := by
  have e : k / 4 * v ^ 2 + 16 / k * y ^ 2 - y * (4 * v) = k / 4 * (v - 8 * y / k) ^ 2 := by
    field_simp; ring
  have : 0 ≤ k / 4 * (v - 8 * y / k) ^ 2 := by positivity
  linarith

theorem svf_young2 (k v y : ℝ) (hk : 0 < k) : y * (k * v) ≤ k / 4 * v ^ 2 + k * y ^ 2 := by
  nlinarith [mul_nonneg hk.le (sq_nonneg (v - 2 * y))]

/-- the state is small when the taps and the input are -/
theorem svf_state_le_taps (g k v1 v2 y : ℝ) (hk : 0 < k) (hk2 : k ≤ 2) :
    svfW k (v1 * (1 + g * k) + g * v2 - g * y) (v2 - g * v1)
      ≤ 3 / 2 * svfK g k * (v1 ^ 2 + v2 ^ 2) + 9 / 2 * g ^ 2 * y ^ 2 := by
  have hW := (svfW_bounds k (v1 * (1 + g * k) + g * v2 - g * y) (v2 - g * v1) hk hk2).2
  have hp : (v1 * (1 + g * k) + g * v2 - g * y) ^ 2
      ≤ 3 * ((v1 * (1 + g * k)) ^ 2 + (g * v2) ^ 2 + (g * y) ^ 2) := by
    nlinarith [sq_nonneg (v1 * (1 + g * k) - g * v2), sq_nonneg (v1 * (1 + g * k) + g * y),
      sq_nonneg (g * v2 + g * y)]
  have hq : (v2 - g * v1) ^ 2 ≤ 2 * (v2 ^ 2 + (g * v1) ^ 2) := by
    nlinarith [sq_nonneg (v2 + g * v1)]
  have hs : 3 * ((v1 * (1 + g * k)) ^ 2 + (g * v2) ^ 2 + (g * y) ^ 2) + 2 * (v2 ^ 2 + (g * v1) ^ 2)
      ≤ svfK g k * (v1 ^ 2 + v2 ^ 2) + 3 * g ^ 2 * y ^ 2 := by
    unfold svfK
    nlinarith [mul_nonneg (sq_nonneg g) (sq_nonneg v1), sq_nonneg v1,
      mul_nonneg (sq_nonneg (1 + g * k)) (sq_nonneg v2)]
  linarith

/-- one-channel contraction in terms of the taps -/
theorem svf_lyap_v (g k v1 v2 y p q : ℝ) (hp : p = v1 * (1 + g * k) + g * v2 - g * y)
    (hq : q = v2 - g * v1) (hg : 0 < g) (hk : 0 < k) (hk2 : k ≤ 2) :
    svfW k (v1 * 2 - p) (v2 * 2 - q) ≤ (1 - svfLam g k) * svfW k p q + svfC g k * y ^ 2 := by
  subst hp hq
  have hid := svf_lyap_identity g k v1 v2 y
  have hquad := svf_lyap_quad k v1 v2 hk hk2
  have hy1 := svf_young1 k v1 y hk
  have hy2 := svf_young2 k v2 y hk
  have hst := svf_state_le_taps g k v1 v2 y hk hk2
  have hK := svfK_pos g k
  have hgk : 0 ≤ g * k := by positivity
  have h1 := mul_le_mul_of_nonneg_left hquad hgk
  have h2 := mul_le_mul_of_nonneg_left hy1 hg.le
  have h3 := mul_le_mul_of_nonneg_left hy2 hg.le
  have hl := mul_le_mul_of_nonneg_left hst (svfLam_pos g k hg hk).le
  have e : svfLam g k * (3 / 2 * svfK g k * (v1 ^ 2 + v2 ^ 2) + 9 / 2 * g ^ 2 * y ^ 2)
      = g * k / 4 * (v1 ^ 2 + v2 ^ 2) + 3 * g ^ 3 * k / (4 * svfK g k) * y ^ 2 := by
    unfold svfLam; field_simp; ring
  have eC : svfC g k * y ^ 2 = 3 * g ^ 3 * k / (4 * svfK g k) * y ^ 2 + g * (16 / k * y ^ 2 + k * y ^ 2) := by
    unfold svfC; ring
  rw [e] at hl
  rw [eC]
  nlinarith

/-- one-channel contraction of the tick itself -/
theorem svf_lyap_scalar (g k a p q y : ℝ) (ha : a * (1 + g * (g + k)) = 1)
    (hg : 0 < g) (hk : 0 < k) (hk2 : k ≤ 2) :
    svfW k ((p * a + (y - q) * (g * a)) * 2 - p)
        ((q + p * (g * a) + (y - q) * (g * (g * a))) * 2 - q)
      ≤ (1 - svfLam g k) * svfW k p q + svfC g k * y ^ 2 := by
  apply svf_lyap_v g k _ _ y p q _ _ hg hk hk2
  · linear_combination (-(p + g * (y - q))) * ha
  · ring

/-- stereo weighted energy -/
noncomputable def svfW2 (k : ℝ) (v : Frame ℝ × Frame ℝ) : ℝ :=
  svfW k v.1.left v.2.left + svfW k v.1.right v.2.right

theorem svfW2_bounds (k : ℝ) (v : Frame ℝ × Frame ℝ) (hk : 0 < k) (hk2 : k ≤ 2) :
    1 / 2 * svfEnergy v ≤ svfW2 k v ∧ svfW2 k v ≤ 3 / 2 * svfEnergy v := by
  have hl := svfW_bounds k v.1.left v.2.left hk hk2
  have hr := svfW_bounds k v.1.right v.2.right hk hk2
  unfold svfW2 svfEnergy
  constructor <;> linarith [hl.1, hl.2, hr.1, hr.2]

/-- **strict contraction with input**: `W' ≤ (1 − λ)·W + C·|x|²` -/
theorem svfStep_lyap (g k : ℝ) (hg : 0 < g) (hk : 0 < k) (hk2 : k ≤ 2) (v : Frame ℝ × Frame ℝ)
    (f : Frame ℝ) :
    svfW2 k (svfStep g k v f) ≤ (1 - svfLam g k) * svfW2 k v + svfC g k * frameSq f := by
  have hD : (1 + g * (g + k)) ≠ 0 := by positivity
  have ha : 1 / (1 + g * (g + k)) * (1 + g * (g + k)) = 1 := by field_simp
  have hl := svf_lyap_scalar g k _ v.1.left v.2.left f.left ha hg hk hk2
  have hr := svf_lyap_scalar g k _ v.1.right v.2.right f.right ha hg hk hk2
  unfold svfW2 frameSq svfStep
  simp only [svfTick_real]
  linarith

/-- induction over a run: a contraction with bounded input keeps the energy below any level `M`
    with `C·B² ≤ λ·M` that it starts below -/
theorem runTick_contract {V : Type} (tick : V → Frame ℝ → V × Frame ℝ) (E : V → ℝ) (lam C B2 M : ℝ)
    (hl1 : lam ≤ 1) (hC : 0 ≤ C) (hM : C * B2 ≤ lam * M)
    (h : ∀ v f, E (tick v f).1 ≤ (1 - lam) * E v + C * frameSq f) :
    ∀ (xs : List (Frame ℝ)), (∀ x ∈ xs, frameSq x ≤ B2) → ∀ v : V, E v ≤ M →
      E (runTick tick v xs).1 ≤ M := by
  intro xs
  induction xs with
  | nil => intro _ v hv; simpa [runTick] using hv
  | cons f fs ih =>
    intro hB v hv
    simp only [runTick]
    apply ih (fun x hx => hB x (List.mem_cons_of_mem _ hx))
    have h1 := h v f
    have h2 := hB f List.mem_cons_self
    have h3 : (1 - lam) * E v ≤ (1 - lam) * M := mul_le_mul_of_nonneg_left hv (by linarith)
    have h4 : C * frameSq f ≤ C * B2 := mul_le_mul_of_nonneg_left h2 hC
    linarith

/-! ## the taps (outputs) are bounded by state and input -/

theorem svf_sq_mul_le (c x : ℝ) (h0 : 0 ≤ c) (h1 : c ≤ 1) : (c * x) ^ 2 ≤ x ^ 2 := by
  have h2 : c ^ 2 ≤ 1 := by nlinarith
  nlinarith [mul_nonneg (sub_nonneg.2 h2) (sq_nonneg x)]

theorem svf_lin3_sq (α β γ p q y : ℝ) (hα : 0 ≤ α ∧ α ≤ 1) (hβ : 0 ≤ β ∧ β ≤ 1) (hγ : 0 ≤ γ ∧ γ ≤ 1) :
    (α * p - β * q + γ * y) ^ 2 ≤ 3 * (p ^ 2 + q ^ 2 + y ^ 2) := by
  have h1 := svf_sq_mul_le α p hα.1 hα.2
  have h2 := svf_sq_mul_le β q hβ.1 hβ.2
  have h3 := svf_sq_mul_le γ y hγ.1 hγ.2
  nlinarith [sq_nonneg (α * p + β * q), sq_nonneg (α * p - γ * y), sq_nonneg (β * q + γ * y)]

theorem svf_modes_sq (k y q v1 gv1 N : ℝ) (hy : y ^ 2 ≤ N) (hq : q ^ 2 ≤ N) (h1 : v1 ^ 2 ≤ 3 * N)
    (h1g : gv1 ^ 2 ≤ 3 * N) (hk : 0 < k) (hk2 : k ≤ 2) :
    (q + gv1) ^ 2 ≤ 8 * N ∧ (y - v1 * k) ^ 2 ≤ 26 * N ∧ (y - v1 * k - (q + gv1)) ^ 2 ≤ 63 * N := by
  have hkk : (v1 * k) ^ 2 ≤ 12 * N := by
    have hk4 : k ^ 2 ≤ 4 := by nlinarith
    have : (v1 * k) ^ 2 = k ^ 2 * v1 ^ 2 := by ring
    rw [this]
    nlinarith [mul_nonneg (sub_nonneg.2 hk4) (sq_nonneg v1), sq_nonneg k]
  have h2 : (q + gv1) ^ 2 ≤ 8 * N := by nlinarith [sq_nonneg (q - gv1)]
  refine ⟨h2, ?_, ?_⟩
  · nlinarith [sq_nonneg (y + v1 * k)]
  · nlinarith [sq_nonneg (y + v1 * k), sq_nonneg (y + (q + gv1)), sq_nonneg (v1 * k - (q + gv1))]

/-- one channel: band-pass, low-pass, notch and high-pass taps squared are at most
    3, 8, 26, 63 times `ic1eq² + ic2eq² + x²` -/
theorem svf_taps_sq (g k a p q y : ℝ) (ha : a * (1 + g * (g + k)) = 1)
    (hg : 0 < g) (hk : 0 < k) (hk2 : k ≤ 2) :
    (p * a + (y - q) * (g * a)) ^ 2 ≤ 3 * (p ^ 2 + q ^ 2 + y ^ 2)
      ∧ (q + p * (g * a) + (y - q) * (g * (g * a))) ^ 2 ≤ 8 * (p ^ 2 + q ^ 2 + y ^ 2)
      ∧ (y - (p * a + (y - q) * (g * a)) * k) ^ 2 ≤ 26 * (p ^ 2 + q ^ 2 + y ^ 2)
      ∧ (y - (p * a + (y - q) * (g * a)) * k - (q + p * (g * a) + (y - q) * (g * (g * a)))) ^ 2
          ≤ 63 * (p ^ 2 + q ^ 2 + y ^ 2) := by
  have hD : 0 < 1 + g * (g + k) := by positivity
  have ha0 : 0 < a := by
    by_contra h
    have h' : a ≤ 0 := not_lt.mp h
    nlinarith [mul_nonneg (neg_nonneg.2 h') hD.le]
  have hgg := mul_pos ha0 (mul_pos hg hg)
  have hgk := mul_pos ha0 (mul_pos hg hk)
  have ha1 : a ≤ 1 := by nlinarith
  have hag : a * g ≤ 1 := by nlinarith [mul_nonneg ha0.le (sq_nonneg (1 - g))]
  have hagg : a * g ^ 2 ≤ 1 := by nlinarith
  have hag0 : 0 ≤ a * g := by positivity
  have hagg0 : 0 ≤ a * g ^ 2 := by positivity
  have h1 := svf_lin3_sq a (a * g) (a * g) p q y ⟨ha0.le, ha1⟩ ⟨hag0, hag⟩ ⟨hag0, hag⟩
  have h1g := svf_lin3_sq (a * g) (a * g ^ 2) (a * g ^ 2) p q y ⟨hag0, hag⟩ ⟨hagg0, hagg⟩ ⟨hagg0, hagg⟩
  have e1 : p * a + (y - q) * (g * a) = a * p - a * g * q + a * g * y := by ring
  have e2 : q + p * (g * a) + (y - q) * (g * (g * a)) = q + (a * g * p - a * g ^ 2 * q + a * g ^ 2 * y) := by ring
  rw [e2, e1]
  have hy : y ^ 2 ≤ p ^ 2 + q ^ 2 + y ^ 2 := by nlinarith [sq_nonneg p, sq_nonneg q]
  have hq : q ^ 2 ≤ p ^ 2 + q ^ 2 + y ^ 2 := by nlinarith [sq_nonneg p, sq_nonneg y]
  exact ⟨h1, svf_modes_sq k y q _ _ _ hy hq h1 h1g hk hk2⟩

/-- the wet/dry blend: `(o·√m + f·√(1−m))² ≤ o² + f²` for `0 ≤ m ≤ 1` -/
theorem svf_blend_sq (o f m : ℝ) (h0 : 0 ≤ m) (h1 : m ≤ 1) :
    (o * Real.sqrt m + f * Real.sqrt (1 - m)) ^ 2 ≤ o ^ 2 + f ^ 2 := by
  have hm := Real.sq_sqrt h0
  have hm' := Real.sq_sqrt (sub_nonneg.2 h1)
  nlinarith [sq_nonneg (o * Real.sqrt (1 - m) - f * Real.sqrt m)]

/-- induction over a run: an invariant of the state that every admissible input preserves bounds
    every output frame of the run -/
theorem runTick_out_inv {V : Type} (tick : V → Frame ℝ → V × Frame ℝ) (I : V → Prop)
    (ok P : Frame ℝ → Prop) (hI : ∀ v f, I v → ok f → I (tick v f).1)
    (hP : ∀ v f, I v → ok f → P (tick v f).2) :
    ∀ (xs : List (Frame ℝ)), (∀ x ∈ xs, ok x) → ∀ v : V, I v → ∀ o ∈ (runTick tick v xs).2, P o := by
  intro xs
  induction xs with
  | nil => intro _ v _ o ho; simp [runTick] at ho
  | cons f fs ih =>
    intro hok v hv o ho
    simp only [runTick, List.mem_cons] at ho
    have hf := hok f List.mem_cons_self
    rcases ho with rfl | ho
    · exact hP v f hv hf
    · exact ih (fun x hx => hok x (List.mem_cons_of_mem _ hx)) _ (hI v f hv hf) o ho

end K
