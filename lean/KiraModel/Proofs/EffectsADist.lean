/-
  Helper lemmas: distortion.rs with parameters at rest is a `map`.
-/
import KiraModel.Proofs.EffectsACommon
import KiraModel.Model.Effects.Distortion

namespace K
namespace Distortion

/-- no distortion parameter is tweening or modulator-linked -/
def Stagnant (s : Distortion ℝ) : Prop := s.drive.Stagnant ∧ s.mix.Stagnant

/-- what `process` does to the parameters when they are at rest -/
def settle (s : Distortion ℝ) : Distortion ℝ :=
  { s with
    drive := { s.drive with prev := s.drive.raw }
    mix := { s.mix with prev := s.mix.raw } }

theorem settle_stagnant (s : Distortion ℝ) (h : s.Stagnant) : (settle s).Stagnant := h
theorem settle_idem (s : Distortion ℝ) : settle (settle s) = settle s := rfl

/-- with the parameters at rest, `process` applies the same memoryless curve to every frame -/
theorem process_stagnant (s : Distortion ℝ) (h : s.Stagnant) (xs : List (Frame ℝ)) (dt : ℝ) (info : Info ℝ) :
    process s xs dt info
      = (settle s, xs.map (fun f => tick s.kind (asAmplitude s.drive.raw)
          (clamp s.mix.raw (0.0 : ℝ) (1.0 : ℝ)) f)) := by
  obtain ⟨hd, hm⟩ := h
  unfold process
  simp only [Parameter.settleA tw32 s.drive _ info hd, Parameter.settleA tw32 s.mix _ info hm]
  apply frameLoop_map
  intro t f
  have h1 := Parameter.settled_interp32 _ t (Parameter.settle_settled s.drive hd)
  have h2 := Parameter.settled_interp32 _ t (Parameter.settle_settled s.mix hm)
  simp only [body, h1, h2]

end Distortion
end K
