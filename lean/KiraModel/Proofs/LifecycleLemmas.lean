/-
  Helper lemmas about the life cycle of a sound (SoundCore events) and about what each operation of
  the static sound model may change.
-/
import KiraModel.Proofs.StaticLemmas

namespace K

namespace SoundCore

/-- `c'` is reachable from `c` by life-cycle events -/
def Reach (c c' : SoundCore ℝ) : Prop := ∃ evs : List (Event ℝ), c.run evs = c'

theorem run_append (c : SoundCore ℝ) (a b : List (Event ℝ)) : c.run (a ++ b) = (c.run a).run b := by
  induction a generalizing c with
  | nil => rfl
  | cons e es ih => simp only [List.cons_append, run]; exact ih _

theorem Reach.refl (c : SoundCore ℝ) : Reach c c := ⟨[], rfl⟩

theorem Reach.trans {a b c : SoundCore ℝ} (h1 : Reach a b) (h2 : Reach b c) : Reach a c := by
  obtain ⟨e1, rfl⟩ := h1
  obtain ⟨e2, rfl⟩ := h2
  exact ⟨e1 ++ e2, run_append a e1 e2⟩

theorem Reach.single (c : SoundCore ℝ) (e : Event ℝ) : Reach c (c.apply e) := ⟨[e], rfl⟩

end SoundCore

/-! ### the state manager -/

namespace Psm

theorem playbackState_stopped_iff (m : Psm ℝ) : m.playbackState = .stopped ↔ m.isStopped = true := by
  obtain ⟨st, fade⟩ := m; unfold playbackState isStopped; cases st <;> simp

theorem pause_state (m : Psm ℝ) (tw : Tween ℝ) :
    (m.pause tw).playbackState = if m.playbackState = .stopped then .stopped else .pausing := by
  obtain ⟨st, fade⟩ := m; unfold pause playbackState isStopped; cases st <;> simp

theorem stop_state (m : Psm ℝ) (tw : Tween ℝ) :
    (m.stop tw).playbackState = if m.playbackState = .stopped then .stopped else .stopping := by
  obtain ⟨st, fade⟩ := m; unfold stop playbackState isStopped; cases st <;> simp

theorem resume_state (m : Psm ℝ) (st : StartTime ℝ) (tw : Tween ℝ) :
    (m.resume st tw).playbackState = if m.playbackState = .stopped then .stopped
      else if st.isImmediate then .resuming else .waitingToResume := by
  obtain ⟨s0, fade⟩ := m
  unfold resume playbackState isStopped
  cases s0 <;> cases st <;> simp [StartTime.isImmediate]

/-- the edges an `update` can take -/
def UpdateEdge : PlaybackState → PlaybackState → Prop
  | a, b => a = b ∨ (a = .pausing ∧ b = .paused) ∨ (a = .resuming ∧ b = .playing) ∨ (a = .stopping ∧ b = .stopped)
      ∨ (a = .waitingToResume ∧ b = .resuming) ∨ (a = .waitingToResume ∧ b = .stopped)

theorem updateEdge_settled (a b : PlaybackState) (h : UpdateEdge a b)
    (ha : a = .paused ∨ a = .stopped ∨ a = .playing) : b = a := by
  unfold UpdateEdge at h
  rcases ha with rfl | rfl | rfl <;> rcases h with h | h | h | h | h | h <;> simp_all

theorem update_edge (m : Psm ℝ) (dt : ℝ) (info : Info ℝ) :
    UpdateEdge m.playbackState (m.update dt info).1.playbackState
      ∧ ((m.update dt info).2 = false → (m.update dt info).1.playbackState = m.playbackState) := by
  obtain ⟨st0, fade⟩ := m
  unfold update UpdateEdge playbackState
  cases st0 with
  | waitingToResume st tw =>
    simp only []
    by_cases h1 : (st.update dt info).2 = true
    · simp [h1]
    · by_cases h2 : (st.update dt info).1.isImmediate = true
      · simp [h1, h2, resume, isStopped]
      · simp [h1, h2]
  | pausing => simp only []; by_cases hf : (fade.update tw32 dt info).2 = true <;> simp [hf]
  | resuming => simp only []; by_cases hf : (fade.update tw32 dt info).2 = true <;> simp [hf]
  | stopping => simp only []; by_cases hf : (fade.update tw32 dt info).2 = true <;> simp [hf]
  | playing => simp
  | paused => simp
  | stopped => simp

/-- **a fade-driven step completes exactly in the update in which the fade parameter reports
    "finished"** -/
theorem update_fade_step (m : Psm ℝ) (dt : ℝ) (info : Info ℝ) :
    (m.update dt info).1.fade = (m.fade.update tw32 dt info).1 ∨ m.playbackState = .waitingToResume := by
  obtain ⟨st0, fade⟩ := m
  unfold update playbackState
  cases st0 with
  | waitingToResume st tw => right; rfl
  | pausing => left; simp only []; split <;> rfl
  | resuming => left; simp only []; split <;> rfl
  | stopping => left; simp only []; split <;> rfl
  | playing => left; rfl
  | paused => left; rfl
  | stopped => left; rfl

/-- where a fade-driven state goes when its fade finishes -/
def fadeDone : PsmState ℝ → PsmState ℝ
  | .pausing => .paused
  | .resuming => .playing
  | .stopping => .stopped
  | st => st

/-- not waiting for a start time -/
def NotWaiting (m : Psm ℝ) : Prop := m.playbackState ≠ .waitingToResume

theorem update_notWaiting (m : Psm ℝ) (dt : ℝ) (info : Info ℝ) (h : m.NotWaiting) :
    (m.update dt info).1 = { state := if (m.fade.update tw32 dt info).2 then fadeDone m.state else m.state,
                             fade := (m.fade.update tw32 dt info).1 }
      ∧ (m.update dt info).1.NotWaiting := by
  obtain ⟨st0, fade⟩ := m
  unfold NotWaiting playbackState at *
  unfold update
  cases st0 with
  | waitingToResume st tw => simp at h
  | pausing => simp only [fadeDone]; by_cases hf : (fade.update tw32 dt info).2 = true <;> simp [hf]
  | resuming => simp only [fadeDone]; by_cases hf : (fade.update tw32 dt info).2 = true <;> simp [hf]
  | stopping => simp only [fadeDone]; by_cases hf : (fade.update tw32 dt info).2 = true <;> simp [hf]
  | playing => simp [fadeDone]
  | paused => simp [fadeDone]
  | stopped => simp [fadeDone]

/-- a run of updates -/
noncomputable def runUpdates (m : Psm ℝ) (info : Info ℝ) : List ℝ → Psm ℝ
  | [] => m
  | dt :: rest => runUpdates (m.update dt info).1 info rest

theorem fadeDone_idem (st : PsmState ℝ) : fadeDone (fadeDone st) = fadeDone st := by
  cases st <;> rfl

/-- **the state manager follows its fade parameter**: while not waiting for a start time, after
    any run of updates the fade parameter is the plain `Parameter` run, and the state has taken its
    fade-driven step iff some update reported the fade as finished. -/
theorem runUpdates_notWaiting (info : Info ℝ) : ∀ (dts : List ℝ) (m : Psm ℝ), m.NotWaiting →
    (m.runUpdates info dts).fade = (m.fade.run tw32 info dts).1
      ∧ ((∀ f ∈ (m.fade.run tw32 info dts).2, f = false) → (m.runUpdates info dts).state = m.state)
      ∧ (true ∈ (m.fade.run tw32 info dts).2 → (m.runUpdates info dts).state = fadeDone m.state) := by
  intro dts
  induction dts with
  | nil => intro m _; simp [runUpdates, Parameter.run]
  | cons dt rest ih =>
    intro m hm
    obtain ⟨hu, hn⟩ := update_notWaiting m dt info hm
    obtain ⟨h1, h2, h3⟩ := ih (m.update dt info).1 hn
    simp only [runUpdates, Parameter.run]
    have hfade : (m.update dt info).1.fade = (m.fade.update tw32 dt info).1 := by rw [hu]
    rw [hfade] at h1 h2 h3
    refine ⟨h1, ?_, ?_⟩
    · intro hall
      have hfin : (m.fade.update tw32 dt info).2 = false := hall _ (by simp)
      rw [h2 (fun f hf => hall f (by simp [hf]))]
      rw [hu]; simp [hfin]
    · intro hmem
      simp only [List.mem_cons] at hmem
      by_cases hfin : (m.fade.update tw32 dt info).2 = true
      · -- finished now: the state is done and later updates keep it (fadeDone is idempotent)
        have hst : (m.update dt info).1.state = fadeDone m.state := by rw [hu]; simp [hfin]
        by_cases hlater : true ∈ ((m.fade.update tw32 dt info).1.run tw32 info rest).2
        · rw [h3 hlater, hst, fadeDone_idem]
        · rw [h2 (fun f hf => by cases f with | true => exact absurd hf hlater | false => rfl), hst]
      · have hfin' : (m.fade.update tw32 dt info).2 = false := by simpa using hfin
        rcases hmem with hm1 | hm1
        · rw [hfin'] at hm1; cases hm1
        · rw [h3 hm1, hu]; simp [hfin']

end Psm

namespace SoundCore

/-- the handle sees the state manager's state -/
def InSync (c : SoundCore ℝ) : Prop := c.shared = c.psm.playbackState

theorem gatePsm_psm (c : SoundCore ℝ) (dtc : ℝ) (info : Info ℝ) :
    (c.gatePsm dtc info).psm = (c.psm.update dtc info).1 ∧ (c.gatePsm dtc info).startTime = c.startTime := by
  unfold gatePsm; simp only []; split <;> exact ⟨rfl, rfl⟩

theorem gateStart_psm (c : SoundCore ℝ) (dtc : ℝ) (info : Info ℝ) (h : (c.startTime.update dtc info).2 = false) :
    (c.gateStart dtc info).psm = c.psm := by
  unfold gateStart; simp [h]

theorem gatePsm_inSync (c : SoundCore ℝ) (dtc : ℝ) (info : Info ℝ) (h : c.InSync) : (c.gatePsm dtc info).InSync := by
  unfold InSync gatePsm at *
  by_cases h2 : (c.psm.update dtc info).2 = true
  · simp [h2, syncShared]
  · have h2' : (c.psm.update dtc info).2 = false := by simpa using h2
    simp [h2', h, (Psm.update_edge c.psm dtc info).2 h2']

theorem gateStart_inSync (c : SoundCore ℝ) (dtc : ℝ) (info : Info ℝ) (h : c.InSync) : (c.gateStart dtc info).InSync := by
  unfold InSync gateStart at *
  by_cases h3 : (c.startTime.update dtc info).2 = true
  · simp [h3, markStopped, syncShared]
  · simp [h3, h]

theorem apply_inSync (c : SoundCore ℝ) (e : Event ℝ) (h : c.InSync) : (c.apply e).InSync := by
  cases e with
  | pause tw => rfl
  | resume st tw => rfl
  | stop tw => rfl
  | markStopped => rfl
  | gate dtc info => exact gateStart_inSync _ dtc info (gatePsm_inSync c dtc info h)

theorem run_inSync : ∀ (evs : List (Event ℝ)) (c : SoundCore ℝ), c.InSync → (c.run evs).InSync := by
  intro evs
  induction evs with
  | nil => intro c h; exact h
  | cons e es ih => intro c h; exact ih _ (apply_inSync c e h)

theorem new_inSync (st : StartTime ℝ) (fi : Option (Tween ℝ)) : (SoundCore.new st fi).InSync := by
  simp [InSync, SoundCore.new, Psm.new, Psm.playbackState]

theorem gatePsm_stopped (c : SoundCore ℝ) (dtc : ℝ) (info : Info ℝ) (h : c.psm.playbackState = .stopped) :
    (c.gatePsm dtc info).psm.playbackState = .stopped := by
  have he := (Psm.update_edge c.psm dtc info).1
  rw [h] at he
  have : (c.psm.update dtc info).1.playbackState = .stopped := by
    unfold Psm.UpdateEdge at he; rcases he with h1 | h1 | h1 | h1 | h1 | h1 <;> simp_all
  unfold gatePsm; simp only []
  split <;> simpa [syncShared] using this

theorem gateStart_stopped (c : SoundCore ℝ) (dtc : ℝ) (info : Info ℝ) (h : c.psm.playbackState = .stopped) :
    (c.gateStart dtc info).psm.playbackState = .stopped := by
  unfold gateStart; simp only []
  split
  · simp [markStopped, syncShared, Psm.markAsStopped, Psm.playbackState]
  · exact h

/-- **Stopped is absorbing**: no event leaves it. -/
theorem apply_stopped (c : SoundCore ℝ) (e : Event ℝ) (h : c.psm.playbackState = .stopped) :
    (c.apply e).psm.playbackState = .stopped := by
  cases e with
  | pause tw => simp [apply, pause, syncShared, Psm.pause_state, h]
  | resume st tw => simp [apply, resume, syncShared, Psm.resume_state, h]
  | stop tw => simp [apply, stop, syncShared, Psm.stop_state, h]
  | markStopped => simp [apply, markStopped, syncShared, Psm.markAsStopped, Psm.playbackState]
  | gate dtc info => exact gateStart_stopped _ dtc info (gatePsm_stopped c dtc info h)

theorem run_stopped : ∀ (evs : List (Event ℝ)) (c : SoundCore ℝ), c.psm.playbackState = .stopped →
    (c.run evs).psm.playbackState = .stopped := by
  intro evs
  induction evs with
  | nil => intro c h; exact h
  | cons e es ih => intro c h; exact ih _ (apply_stopped c e h)

theorem reach_stopped {c c' : SoundCore ℝ} (hr : Reach c c') (h : c.psm.playbackState = .stopped) :
    c'.psm.playbackState = .stopped := by
  obtain ⟨evs, rfl⟩ := hr; exact run_stopped evs c h

theorem reach_inSync {c c' : SoundCore ℝ} (hr : Reach c c') (h : c.InSync) : c'.InSync := by
  obtain ⟨evs, rfl⟩ := hr; exact run_inSync evs c h

/-- the gate opens only for a sound whose start time has come and whose (updated) state advances -/
theorem gate_open_iff (c : SoundCore ℝ) (dtc : ℝ) (info : Info ℝ) :
    (c.gate dtc info).2 = ((c.gate dtc info).1.startTime.isImmediate
      && (c.gate dtc info).1.psm.playbackState.isAdvancing) := rfl

end SoundCore

namespace StaticSound
open SoundCore

/-- a frame that may legitimately sit in the interpolator's window: silence or a data frame from
    inside the slice -/
def FromSlice (s : StaticSound ℝ) (f : Frame ℝ) : Prop :=
  f = Frame.zero ∨ ∃ i, i < s.nFrames ∧ s.frames[i + s.sliceStart]? = some f

/-- all four window slots hold silence or frames of the slice -/
def WinOk (s : StaticSound ℝ) : Prop :=
  s.FromSlice s.resampler.f0.frame ∧ s.FromSlice s.resampler.f1.frame ∧ s.FromSlice s.resampler.f2.frame
    ∧ s.FromSlice s.resampler.f3.frame

/-- what no operation of a playing sound changes, and how the life-cycle core may move -/
structure Evolves (s s' : StaticSound ℝ) : Prop where
  frames : s'.frames = s.frames
  slice : s'.slice = s.slice
  sampleRate : s'.sampleRate = s.sampleRate
  reverse : s'.reverse = s.reverse
  core : Reach s.core s'.core
  win : s.WinOk → s'.WinOk

theorem Evolves.refl (s : StaticSound ℝ) : Evolves s s :=
  ⟨rfl, rfl, rfl, rfl, Reach.refl _, fun h => h⟩

theorem Evolves.trans {a b c : StaticSound ℝ} (h1 : Evolves a b) (h2 : Evolves b c) : Evolves a c :=
  ⟨by rw [h2.frames, h1.frames], by rw [h2.slice, h1.slice], by rw [h2.sampleRate, h1.sampleRate],
   by rw [h2.reverse, h1.reverse], h1.core.trans h2.core,
   fun hw => h2.win (h1.win hw)⟩

theorem fromSlice_congr {s s' : StaticSound ℝ} (hf : s'.frames = s.frames) (hs : s'.slice = s.slice) (f : Frame ℝ) :
    s'.FromSlice f ↔ s.FromSlice f := by
  unfold FromSlice nFrames sliceStart; rw [hf, hs]

theorem pushFrame_evolves (s s1 : StaticSound ℝ) (h : s.pushFrameToResampler = .ok s1) : Evolves s s1 := by
  unfold pushFrameToResampler at h
  split at h
  · split at h
    · cases h
    · rename_i fo hf
      injection h with h; subst h
      refine ⟨rfl, rfl, rfl, rfl, Reach.refl _, fun hw => ⟨hw.2.1, hw.2.2.1, hw.2.2.2, ?_⟩⟩
      show FromSlice s (fo.getD Frame.zero)
      by_cases hi : s.transport.position < s.nFrames
      · obtain ⟨f, hf', hg, _⟩ := (frameAtIndex_ok s s.transport.position).1 hi
        rw [hf'] at hf; injection hf with hf; subst hf
        exact Or.inr ⟨_, hi, hg⟩
      · have hn := (frameAtIndex_ok s s.transport.position).2 (by omega)
        rw [hn] at hf; injection hf with hf; subst hf
        exact Or.inl rfl
  · injection h with h; subst h
    exact ⟨rfl, rfl, rfl, rfl, Reach.refl _, fun hw => ⟨hw.2.1, hw.2.2.1, hw.2.2.2, Or.inl rfl⟩⟩

theorem updatePosition_evolves (s s' : StaticSound ℝ) (h : s.updatePosition = .ok s') : Evolves s s' := by
  unfold updatePosition at h
  cases h1 : s.pushFrameToResampler with
  | error f => simp [h1] at h
  | ok s1 =>
    have e1 := pushFrame_evolves s s1 h1
    simp only [h1] at h
    cases h2 : s1.moveTransport with
    | error f => simp [h2] at h
    | ok t =>
      simp only [h2] at h
      refine e1.trans ?_
      split at h
      · injection h with h; subst h
        exact ⟨rfl, rfl, rfl, rfl, Reach.single s1.core .markStopped, fun hw => hw⟩
      · injection h with h; subst h
        exact ⟨rfl, rfl, rfl, rfl, Reach.refl _, fun hw => hw⟩

theorem setFrac_evolves (x : ℝ) (s : StaticSound ℝ) : Evolves s { s with frac := x } :=
  ⟨rfl, rfl, rfl, rfl, Reach.refl _, fun hw => hw⟩

theorem stepPos_evolves : ∀ (fuel : Nat) (s s' : StaticSound ℝ), stepPos fuel s = .ok s' → Evolves s s' := by
  intro fuel
  induction fuel with
  | zero =>
    intro s s' h
    rw [stepPos] at h
    split at h
    · cases h
    · injection h with h; subst h; exact Evolves.refl _
  | succ fuel ih =>
    intro s s' h
    rw [stepPos_succ] at h
    split at h
    · revert h
      cases hu : updatePosition { s with frac := s.frac - (1.0 : ℝ) } with
      | error f => intro h; cases h
      | ok s1 =>
        intro h
        exact (setFrac_evolves _ s).trans ((updatePosition_evolves _ s1 hu).trans (ih s1 s' h))
    · injection h with h; subst h; exact Evolves.refl _

theorem renderFrame_evolves (fuel : Nat) (s s' : StaticSound ℝ) (t dt : ℝ) (f : Frame ℝ)
    (h : renderFrame fuel s t dt = .ok (s', f)) : Evolves s s' := by
  unfold renderFrame at h
  cases hs : stepPos fuel { s with frac := s.frac + s.fracStep t dt } with
  | error e => simp [hs] at h
  | ok s1 =>
    simp only [hs] at h
    injection h with h; injection h with h1 h2; subst h1
    exact (setFrac_evolves _ s).trans (stepPos_evolves fuel _ s1 hs)

theorem renderLoop_evolves (fuel : Nat) (dt : ℝ) (len : Nat) : ∀ (k i : Nat) (s s' : StaticSound ℝ)
    (outs : List (Frame ℝ)), renderLoop fuel dt len k i s = .ok (s', outs) → Evolves s s' ∧ outs.length = k := by
  intro k
  induction k with
  | zero =>
    intro i s s' outs h
    simp only [renderLoop] at h
    injection h with h; injection h with h1 h2; subst h1 h2
    exact ⟨Evolves.refl _, rfl⟩
  | succ k ih =>
    intro i s s' outs h
    rw [renderLoop_succ] at h
    cases hr : renderFrame fuel s (((i + 1 : Nat) : ℝ) / (len : ℝ)) dt with
    | error e => rw [hr] at h; simp at h
    | ok r =>
      obtain ⟨s1, f⟩ := r
      rw [hr] at h
      simp only [] at h
      cases hl : renderLoop fuel dt len k (i + 1) s1 with
      | error e => rw [hl] at h; simp at h
      | ok r' =>
        obtain ⟨s2, fs⟩ := r'
        rw [hl] at h
        simp only [] at h
        injection h with h; injection h with h1 h2; subst h1 h2
        obtain ⟨e2, l2⟩ := ih (i + 1) s1 s2 fs hl
        exact ⟨(renderFrame_evolves fuel s s1 _ dt f hr).trans e2, by simp [l2]⟩

/-- `process`: the gate event, then only natural-end events; when the gate is closed the output is
    exact silence and transport, fraction and window are untouched. -/
theorem process_evolves (fuel : Nat) (s s' : StaticSound ℝ) (len : Nat) (dt : ℝ) (info : Info ℝ)
    (outs : List (Frame ℝ)) (h : s.process fuel len dt info = .ok (s', outs)) :
    Evolves s s' ∧ outs.length = len ∧
      ((s.core.gate (dt * (len : ℝ)) info).2 = false →
        outs = List.replicate len Frame.zero ∧ s'.transport = s.transport ∧ s'.frac = s.frac
          ∧ s'.resampler = s.resampler ∧ s'.core = (s.core.gate (dt * (len : ℝ)) info).1
          ∧ s'.sharedPosition = s.sharedPosition) := by
  unfold process at h
  simp only [ofNat_real] at h
  cases hg : (s.core.gate (dt * (len : ℝ)) info).2 with
  | false =>
    simp only [hg] at h
    injection h with h; injection h with h1 h2; subst h1 h2
    refine ⟨⟨rfl, rfl, rfl, rfl, Reach.single s.core (.gate _ info), fun hw => hw⟩, by simp, fun _ => ?_⟩
    exact ⟨rfl, rfl, rfl, rfl, rfl, rfl⟩
  | true =>
    simp only [hg, if_true] at h
    obtain ⟨e, l⟩ := renderLoop_evolves fuel dt len len 0 _ s' outs h
    refine ⟨?_, l, fun hc => by cases hc⟩
    have e0 : Evolves s { s with
        volume := (s.volume.update tw32 (dt * (len : ℝ)) info).1
        playbackRate := (s.playbackRate.update tw64 (dt * (len : ℝ)) info).1
        panning := (s.panning.update tw32 (dt * (len : ℝ)) info).1
        core := (s.core.gate (dt * (len : ℝ)) info).1 } :=
      ⟨rfl, rfl, rfl, rfl, Reach.single s.core (.gate _ info), fun hw => hw⟩
    exact e0.trans e

theorem seekToIndex_evolves (s s' : StaticSound ℝ) (idx : Nat) (h : s.seekToIndex idx = .ok s') :
    Evolves s s' ∧ s'.core = s.core := by
  unfold seekToIndex at h
  cases hn : numFrames s.frames.size s.slice with
  | error f => simp [hn] at h
  | ok n =>
    simp only [hn] at h
    cases ht : s.transport.seekTo idx n with
    | error f => simp [ht] at h
    | ok t =>
      simp only [ht] at h
      have e0 : Evolves s { s with transport := t } := ⟨rfl, rfl, rfl, rfl, Reach.refl _, fun hw => hw⟩
      split at h
      · obtain ⟨fo, hfo⟩ := pushFrame_shape _ s' h
        exact ⟨e0.trans (pushFrame_evolves _ s' h), by rw [hfo]⟩
      · injection h with h; subst h; exact ⟨e0, rfl⟩

theorem andThen_ok {σ τ : Type} (x : Except Fault σ) (f : σ → Except Fault τ) (b : τ) (h : andThen x f = .ok b) :
    ∃ a, x = .ok a ∧ f a = .ok b := by
  cases x with
  | error e => cases h
  | ok a => exact ⟨a, rfl, h⟩

theorem applyOptE_ok {σ β : Type} (o : Option β) (f : β → σ → Except Fault σ) (s s' : σ)
    (h : applyOptE o f s = .ok s') : (o = none ∧ s' = s) ∨ ∃ b, o = some b ∧ f b s = .ok s' := by
  cases o with
  | none => left; injection h with h; exact ⟨rfl, h.symm⟩
  | some b => right; exact ⟨b, rfl, h⟩

theorem readSeekCmds_evolves (c : Commands ℝ) (s s' : StaticSound ℝ) (h : readSeekCmds c s = .ok s') :
    Evolves s s' ∧ s'.core = s.core := by
  unfold readSeekCmds at h
  obtain ⟨s1, h1, h2⟩ := andThen_ok _ _ _ h
  have e1 : Evolves s s1 ∧ s1.core = s.core := by
    rcases applyOptE_ok _ _ _ _ h1 with ⟨_, rfl⟩ | ⟨x, _, hx⟩
    · exact ⟨Evolves.refl _, rfl⟩
    · exact seekToIndex_evolves s s1 _ hx
  rcases applyOptE_ok _ _ _ _ h2 with ⟨_, rfl⟩ | ⟨x, _, hx⟩
  · exact e1
  · obtain ⟨e2, c2⟩ := seekToIndex_evolves s1 s' _ hx
    exact ⟨e1.1.trans e2, by rw [c2, e1.2]⟩

theorem applyOpt_reach {β : Type} (o : Option β) (f : β → SoundCore ℝ → SoundCore ℝ) (c : SoundCore ℝ)
    (hf : ∀ b c, Reach c (f b c)) : Reach c (applyOpt o f c) := by
  cases o with
  | none => exact Reach.refl _
  | some b => exact hf b c

theorem readLifeCmds_evolves (c : Commands ℝ) (s : StaticSound ℝ) : Evolves s (readLifeCmds c s) := by
  refine ⟨rfl, rfl, rfl, rfl, ?_, fun hw => hw⟩
  unfold readLifeCmds
  simp only []
  exact ((applyOpt_reach c.pause _ s.core (fun tw c => Reach.single c (.pause tw))).trans
    (applyOpt_reach c.resume _ _ (fun p c => Reach.single c (.resume p.1 p.2)))).trans
    (applyOpt_reach c.stop _ _ (fun tw c => Reach.single c (.stop tw)))

theorem readLoopCmd_evolves (c : Commands ℝ) (s s' : StaticSound ℝ) (h : readLoopCmd c s = .ok s') :
    Evolves s s' ∧ s'.core = s.core ∧ s'.resampler = s.resampler := by
  unfold readLoopCmd at h
  rcases applyOptE_ok _ _ _ _ h with ⟨_, rfl⟩ | ⟨r, _, hr⟩
  · exact ⟨Evolves.refl _, rfl, rfl⟩
  · unfold setLoopRegion at hr
    obtain ⟨n, _, hn⟩ := andThen_ok _ _ _ hr
    injection hn with hn; subst hn
    exact ⟨⟨rfl, rfl, rfl, rfl, Reach.refl _, fun hw => hw⟩, rfl, rfl⟩

theorem readCommands_evolves (s s' : StaticSound ℝ) (h : s.readCommands = .ok s') : Evolves s s' := by
  unfold readCommands at h
  obtain ⟨s1, h1, h2⟩ := andThen_ok _ _ _ h
  have e0 : Evolves s s.readParamCmds := ⟨rfl, rfl, rfl, rfl, Reach.refl _, fun hw => hw⟩
  exact e0.trans ((readLoopCmd_evolves _ _ s1 h1).1.trans
    ((readLifeCmds_evolves s.cmds s1).trans (readSeekCmds_evolves _ _ s' h2).1))

theorem onStartProcessing_evolves (s s' : StaticSound ℝ) (h : s.onStartProcessing = .ok s') : Evolves s s' := by
  unfold onStartProcessing at h
  have e0 : Evolves s { s with sharedPosition :=
      (KOps.ofNat s.resampler.currentFrameIndex : ℝ) / (KOps.ofNat s.sampleRate : ℝ) } :=
    ⟨rfl, rfl, rfl, rfl, Reach.refl _, fun hw => hw⟩
  exact e0.trans (readCommands_evolves _ s' h)

theorem step_evolves (fuel : Nat) (s s' : StaticSound ℝ) (op : Op ℝ) (outs : List (Frame ℝ))
    (h : s.step fuel op = .ok (s', outs)) : Evolves s s' := by
  cases op with
  | command c =>
    simp only [step] at h
    injection h with h; injection h with h1 h2; subst h1
    exact ⟨rfl, rfl, rfl, rfl, Reach.refl _, fun hw => hw⟩
  | startProcessing =>
    simp only [step] at h
    cases ho : s.onStartProcessing with
    | error f => simp [ho] at h
    | ok s1 =>
      simp only [ho] at h
      injection h with h; injection h with h1 h2; subst h1
      exact onStartProcessing_evolves s s1 ho
  | process len dt info =>
    simp only [step] at h
    exact (process_evolves fuel s s' len dt info outs h).1

theorem run_evolves (fuel : Nat) : ∀ (ops : List (Op ℝ)) (s s' : StaticSound ℝ) (outs : List (Frame ℝ)),
    s.run fuel ops = .ok (s', outs) → Evolves s s' := by
  intro ops
  induction ops with
  | nil =>
    intro s s' outs h
    simp only [run] at h
    injection h with h; injection h with h1 h2; subst h1
    exact Evolves.refl _
  | cons op ops ih =>
    intro s s' outs h
    rw [run_cons] at h
    cases h1 : s.step fuel op with
    | error f => simp [h1] at h
    | ok r =>
      obtain ⟨s1, o1⟩ := r
      simp only [h1] at h
      cases h2 : run fuel s1 ops with
      | error f => simp [h2] at h
      | ok r' =>
        obtain ⟨s2, o2⟩ := r'
        simp only [h2] at h
        injection h with h; injection h with h3 h4; subst h3
        exact (step_evolves fuel s s1 op o1 h1).trans (ih s1 s2 o2 h2)

end StaticSound
end K
