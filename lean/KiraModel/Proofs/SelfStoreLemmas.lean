/-
  Proofs/SelfStoreLemmas.lean — `SelfReferentialResourceStorage`: `keys` lists exactly the occupied
  slots in insertion order; `for_each` visits each once with the dummy swapped in.  Core Lean only.
-/
import KiraModel.Proofs.StoreLemmas
namespace K.SelfStore
open K.Store
variable {τ : Type}

/-- `keys` lists exactly the occupied slots, each once, with the generation under which it resolves -/
structure SWF (cap : Nat) (held : List Key) (ss : SelfStore τ) : Prop where
  base : WF cap held ss.base
  nodup : (ss.keys.map (·.index)).Nodup
  mem : ∀ i, i ∈ ss.keys.map (·.index) ↔ i ∈ ss.base.arena.order
  gen : ∀ k ∈ ss.keys, ∃ sl, ss.base.arena.slots[k.index]? = some sl ∧ sl.generation = k.generation

theorem swf_new (cap : Nat) (h : 0 < cap) (d : τ) : SWF cap [] (SelfStore.new cap d) :=
  ⟨wf_new cap h, by simp [SelfStore.new], by simp [SelfStore.new, Store.new, Arena.new], by simp [SelfStore.new]⟩

/-- removal through a key whose slot is occupied under that generation = one drain visit that removes -/
theorem remove_eq_visit {cap : Nat} {held : List Key} {s : Store τ} (wf : WF cap held s) (k : Key)
    (hk : k.index ∈ s.arena.order) (sl : ASlot τ) (hsl : s.arena.slots[k.index]? = some sl)
    (hg : sl.generation = k.generation) :
    ∃ x st, s.arena.remove s.ctrl k = .ok (some x, st.arena, st.ctrl) ∧ sl.data = some x
      ∧ WF cap held st ∧ st.arena.order = s.arena.order.erase k.index ∧ st.newRing = s.newRing
      ∧ st.unused = s.unused ∧ st.dropped = s.dropped
      ∧ (∀ j, j ≠ k.index → st.arena.slots[j]? = s.arena.slots[j]?)
      ∧ (∃ sl', st.arena.slots[k.index]? = some sl' ∧ sl'.data = none)
      ∧ st = { s with arena := st.arena, ctrl := st.ctrl } := by
  have spec := wf_drainVisit (fun _ => true) wf hk
  obtain ⟨sl0, hsl0, hd0⟩ := (wf.occ k.index).mp hk
  rw [hsl] at hsl0; cases hsl0
  cases hd : sl.data with
  | none => simp [hd] at hd0
  | some d =>
    simp only [drainVisit, hsl, hd, if_true] at spec
    cases hr : s.arena.removeFromSlot s.ctrl k.index with
    | error e => simp [hr, VisitSpec] at spec
    | ok p =>
      obtain ⟨xo, a, c⟩ := p
      simp only [hr] at spec
      cases xo with
      | none =>
        simp only [VisitSpec] at spec
        obtain ⟨_, sl1, d1, h1, h2, h3⟩ := spec
        simp at h3
      | some x =>
        simp only [VisitSpec] at spec
        obtain ⟨wf', _, ⟨sl1, hsl1, hdx⟩, hord, _, hn, hu, hdr, _, hoth, hfree⟩ := spec
        rw [hsl] at hsl1; cases hsl1
        refine ⟨x, { s with arena := a, ctrl := c }, ?_, by rw [hd] at hdx; exact hdx ▸ rfl, wf', hord, rfl, rfl, rfl,
          fun j hj => (hoth j hj).2, hfree, rfl⟩
        simp [Arena.remove, hsl, hg, hr]


/-- flagged: the resource under key `k` passes the remove test -/
def Flagged (test : τ → Bool) (s : Store τ) (k : Key) : Prop :=
  ∃ sl d, s.arena.slots[k.index]? = some sl ∧ sl.data = some d ∧ test d = true

theorem wf_removeUnused (test : τ → Bool) {cap : Nat} {held : List Key} :
    ∀ (l : List Key) (s : Store τ), WF cap held s → (l.map (·.index)).Nodup →
      (∀ k ∈ l, k.index ∈ s.arena.order ∧ ∃ sl, s.arena.slots[k.index]? = some sl ∧ sl.generation = k.generation) →
      ∃ ks s1, removeUnused test l s = .ok (ks, s1) ∧ WF cap held s1 ∧ ks.Sublist l ∧ s1.newRing = s.newRing
        ∧ s1.dropped = s.dropped
        ∧ (∀ j, j ∉ l.map (·.index) → s1.arena.slots[j]? = s.arena.slots[j]?)
        ∧ (∀ i, i ∈ s1.arena.order ↔ i ∈ s.arena.order ∧ (i ∈ l.map (·.index) → i ∈ ks.map (·.index)))
        ∧ (∀ k ∈ ks, ∃ sl, s1.arena.slots[k.index]? = some sl ∧ sl.generation = k.generation)
        ∧ (∀ k ∈ l, k ∉ ks → Flagged test s k)
        ∧ (∀ k ∈ ks, Flagged test s k → s1.unused.isFull = true) := by
  intro l
  induction l with
  | nil =>
    intro s wf _ _
    exact ⟨[], s, rfl, wf, List.Sublist.refl _, rfl, rfl, fun _ _ => rfl, by simp, by simp, by simp, by simp⟩
  | cons k rest ih =>
    intro s wf hnd hall
    simp only [List.map_cons, List.nodup_cons] at hnd
    obtain ⟨hk, sl, hsl, hg⟩ := hall k (by simp)
    have hrest : ∀ q ∈ rest, q.index ≠ k.index := by
      intro q hq e; exact hnd.1 (List.mem_map.mpr ⟨q, hq, e⟩)
    by_cases hfull : s.unused.isFull = true
    · -- the ring is full: the loop stops, nothing changes
      refine ⟨k :: rest, s, by simp [removeUnused, hfull], wf, List.Sublist.refl _, rfl, rfl, fun _ _ => rfl, ?_, ?_, ?_,
        fun _ _ _ => hfull⟩
      · intro i; simp
      · intro q hq; exact (hall q hq).2
      · intro q hq hn; exact absurd hq hn
    · obtain ⟨sl0, hsl0, hd0⟩ := (wf.occ k.index).mp hk
      rw [hsl] at hsl0; cases hsl0
      cases hd : sl.data with
      | none => simp [hd] at hd0
      | some d =>
        have hget : s.arena.get k = .ok (some d) := by simp [Arena.get, hsl, hg, hd]
        by_cases ht : test d = true
        · -- removed
          obtain ⟨x, st, hrem, hdx, wf', hord, hn, hu, hdr, hoth, hfree, hst⟩ := remove_eq_visit wf k hk sl hsl hg
          have hlt : st.unused.items.length < st.unused.cap := by
            rw [hu]; simpa [Ring.isFull] using hfull
          obtain ⟨st2, hp⟩ := pushUnused_ok x hlt
          obtain ⟨wf2, hc2, ha2, hn2, hd2, hit2, _⟩ := wf_pushUnused x wf' hp
          have hond := order_nodup' wf
          have hall2 : ∀ q ∈ rest, q.index ∈ st2.arena.order ∧
              ∃ sl, st2.arena.slots[q.index]? = some sl ∧ sl.generation = q.generation := by
            intro q hq
            obtain ⟨h1, h2⟩ := hall q (by simp [hq])
            rw [ha2, hord, hoth _ (hrest q hq)]
            exact ⟨(List.mem_erase_of_ne (hrest q hq)).mpr h1, h2⟩
          obtain ⟨ks, s1, hr, wf1, hsub, hn1, hdr1, hsame, hordiff, hgen, hflag, hfl⟩ := ih st2 wf2 hnd.2 hall2
          refine ⟨ks, s1, ?_, wf1, hsub.cons k, by rw [hn1, hn2, hn], by rw [hdr1, hd2, hdr], ?_, ?_, hgen, ?_, ?_⟩
          · simp only [removeUnused, hfull, hget, ht, hrem, if_true, Bool.false_eq_true, if_false]
            rw [← hst, hp]; exact hr
          · intro j hj
            simp only [List.map_cons, List.mem_cons, not_or] at hj
            rw [hsame j hj.2, ha2, hoth j hj.1]
          · intro i
            rw [hordiff i, ha2, hord, hond.mem_erase_iff]
            simp only [List.map_cons, List.mem_cons]
            constructor
            · rintro ⟨⟨hne, hin⟩, himp⟩
              exact ⟨hin, fun h => by rcases h with h | h; exact absurd h hne; exact himp h⟩
            · rintro ⟨hin, himp⟩
              have hne : i ≠ k.index := by
                intro e
                have := himp (Or.inl e)
                obtain ⟨q, hq, hqe⟩ := List.mem_map.mp this
                exact hrest q (hsub.subset hq) (hqe.trans e)
              exact ⟨⟨hne, hin⟩, fun h => himp (Or.inr h)⟩
          · intro q hq hnq
            simp only [List.mem_cons] at hq
            rcases hq with rfl | hq
            · exact ⟨sl, d, hsl, hd, ht⟩
            · obtain ⟨slq, dq, h1, h2, h3⟩ := hflag q hq hnq
              exact ⟨slq, dq, by rw [← hoth _ (hrest q hq), ← ha2]; exact h1, h2, h3⟩
          · intro q hq hfq
            apply hfl q hq
            obtain ⟨slq, dq, h1, h2, h3⟩ := hfq
            have hqr := hsub.subset hq
            exact ⟨slq, dq, by rw [ha2, hoth _ (hrest q hqr)]; exact h1, h2, h3⟩
        · -- kept
          have hall2 : ∀ q ∈ rest, q.index ∈ s.arena.order ∧
              ∃ sl, s.arena.slots[q.index]? = some sl ∧ sl.generation = q.generation :=
            fun q hq => hall q (by simp [hq])
          obtain ⟨ks, s1, hr, wf1, hsub, hn1, hdr1, hsame, hordiff, hgen, hflag, hfl⟩ := ih s wf hnd.2 hall2
          refine ⟨k :: ks, s1, ?_, wf1, hsub.cons_cons k, hn1, hdr1, ?_, ?_, ?_, ?_, ?_⟩
          · simp [removeUnused, hfull, hget, ht, hr]
          · intro j hj
            simp only [List.map_cons, List.mem_cons, not_or] at hj
            exact hsame j hj.2
          · intro i
            rw [hordiff i]
            simp only [List.map_cons, List.mem_cons]
            constructor
            · rintro ⟨hin, himp⟩
              exact ⟨hin, fun h => by rcases h with h | h; exact Or.inl h; exact Or.inr (himp h)⟩
            · rintro ⟨hin, himp⟩
              refine ⟨hin, fun h => ?_⟩
              rcases himp (Or.inr h) with h' | h'
              · obtain ⟨q, hq, hqe⟩ := List.mem_map.mp h
                exact absurd (hqe.trans h') (hrest q hq)
              · exact h'
          · intro q hq
            simp only [List.mem_cons] at hq
            rcases hq with rfl | hq
            · have : q.index ∉ rest.map (·.index) := hnd.1
              rw [hsame q.index this]; exact ⟨sl, hsl, hg⟩
            · exact hgen q hq
          · intro q hq hnq
            simp only [List.mem_cons, not_or] at hq hnq
            rcases hq with rfl | hq
            · exact absurd rfl hnq.1
            · exact hflag q hq hnq.2
          · intro q hq hfq
            simp only [List.mem_cons] at hq
            rcases hq with rfl | hq
            · obtain ⟨slq, dq, h1, h2, h3⟩ := hfq
              rw [hsl] at h1; cases h1; rw [hd] at h2; cases h2; exact absurd h3 ht
            · exact hfl q hq hfq

theorem swf_drainPhase (test : τ → Bool) {cap : Nat} {held : List Key} {ss : SelfStore τ} (h : SWF cap held ss) :
    ∃ ss', ss.drainPhase test = .ok ss' ∧ SWF cap held ss' ∧ ss'.keys.Sublist ss.keys ∧ ss'.dummy = ss.dummy
      ∧ ss'.base.newRing = ss.base.newRing ∧ ss'.base.dropped = ss.base.dropped
      ∧ (∀ k ∈ ss.keys, k ∉ ss'.keys → Flagged test ss.base k)
      ∧ (∀ k ∈ ss'.keys, Flagged test ss.base k → ss'.base.unused.isFull = true) := by
  obtain ⟨wf, nd, mem, gen⟩ := h
  have hall : ∀ k ∈ ss.keys, k.index ∈ ss.base.arena.order ∧
      ∃ sl, ss.base.arena.slots[k.index]? = some sl ∧ sl.generation = k.generation :=
    fun k hk => ⟨(mem k.index).mp (List.mem_map.mpr ⟨k, hk, rfl⟩), gen k hk⟩
  obtain ⟨ks, s1, hr, wf1, hsub, hn1, hdr1, hsame, hordiff, hgen, hflag, hfl⟩ :=
    wf_removeUnused test ss.keys ss.base wf nd hall
  refine ⟨{ ss with base := s1, keys := ks }, by simp [drainPhase, hr], ⟨wf1, ?_, ?_, hgen⟩, hsub, rfl, hn1, hdr1,
    hflag, hfl⟩
  · exact (hsub.map _).nodup nd
  · intro i
    rw [hordiff i, ← mem i]
    constructor
    · intro hi
      exact ⟨(hsub.map _).subset hi, fun _ => hi⟩
    · rintro ⟨hi, himp⟩; exact himp hi

theorem swf_addPhase {cap : Nat} {held : List Key} {ss ss' : SelfStore τ} (h : SWF cap held ss)
    (hs : ss.addPhase = .ok ss') :
    SWF cap held ss' ∧ ss'.keys = ss.keys ++ ss.base.newRing.items.map (·.1) ∧ ss'.dummy = ss.dummy
      ∧ ss'.base.newRing.items = [] := by
  obtain ⟨wf, nd, mem, gen⟩ := h
  simp only [addPhase, Store.addPhase] at hs
  cases hr : addItems ss.base.newRing.items ss.base with
  | error e => simp [hr] at hs
  | ok p =>
    obtain ⟨s2, ks⟩ := p
    simp [hr] at hs; subst hs
    obtain ⟨wf1, he1, hc1, hu1, hd1, hks, hord1, hin1, hout1⟩ :=
      wf_addItems ss.base.newRing.items ss.base s2 ks wf rfl hr
    have hown := wf.ownNodup
    simp only [ownIdx, List.nodup_append, List.mem_append] at hown
    obtain ⟨_, ⟨hnn, _, hdisj⟩, _⟩ := hown
    refine ⟨⟨wf1, ?_, ?_, ?_⟩, by simp [hks], rfl, he1⟩
    · simp only [hks, List.map_append, List.map_map, List.nodup_append]
      refine ⟨nd, by simpa [Function.comp_def] using hnn, ?_⟩
      intro a ha b hb hab
      subst hab
      have hbo := (mem a).mp ha
      simp only [List.mem_map, Function.comp] at hb
      obtain ⟨p, hp, rfl⟩ := hb
      exact hdisj _ (List.mem_map.mpr ⟨p, hp, rfl⟩) _ hbo rfl
    · intro i
      simp only [hks, hord1, List.map_append, List.map_map, List.mem_append, List.mem_reverse, ← mem i]
      simp only [Function.comp_def]
      constructor
      · rintro (h | h); exact Or.inr h; exact Or.inl h
      · rintro (h | h); exact Or.inr h; exact Or.inl h
    · intro k hk
      simp only [hks, List.mem_append, List.mem_map] at hk
      rcases hk with hk | ⟨p, hp, rfl⟩
      · have hnot : k.index ∉ ss.base.newRing.items.map (·.1.index) := by
          intro hin
          exact hdisj _ hin _ ((mem k.index).mp (List.mem_map.mpr ⟨k, hk, rfl⟩)) rfl
        rw [hout1 k.index hnot]; exact gen k hk
      · exact ⟨_, hin1 p hp, rfl⟩

end K.SelfStore

namespace K
variable {τ : Type}

theorem filterMap_congr' {α β : Type} (f g : α → Option β) (l : List α) (h : ∀ x ∈ l, f x = g x) :
    l.filterMap f = l.filterMap g := by
  induction l with
  | nil => rfl
  | cons a t ih =>
    simp only [List.filterMap_cons, h a (by simp)]
    rw [ih (fun x hx => h x (by simp [hx]))]

/-- the resource stored in slot `i`, if any -/
def Arena.dataAt (a : Arena τ) (i : Nat) : Option τ := (a.slots[i]?).bind (·.data)

theorem Arena.setData_spec (a : Arena τ) (i : Nat) (d : τ) (sl : ASlot τ) (h : a.slots[i]? = some sl) :
    (a.setData i d).slots[i]? = some { sl with data := some d }
    ∧ (∀ j, j ≠ i → (a.setData i d).slots[j]? = a.slots[j]?)
    ∧ (a.setData i d).order = a.order ∧ (a.setData i d).slots.length = a.slots.length := by
  have hi := Store.getElem?_lt h
  simp only [Arena.setData, h]
  refine ⟨by simp [hi], fun j hj => ?_, trivial, by simp⟩
  simp [Ne.symm hj]

namespace SelfStore
open K.Store

/-- same shape: same order, same slot generations, same occupancy -/
def SameShape (a a' : Arena τ) : Prop :=
  a'.order = a.order ∧ a'.slots.length = a.slots.length
  ∧ ∀ j : Nat, (a'.slots[j]?).map ASlot.generation = (a.slots[j]?).map ASlot.generation
      ∧ (a'.dataAt j).isSome = (a.dataAt j).isSome

theorem SameShape.refl (a : Arena τ) : SameShape a a := ⟨rfl, rfl, fun _ => ⟨rfl, rfl⟩⟩

theorem SameShape.trans {a b c : Arena τ} (h1 : SameShape a b) (h2 : SameShape b c) : SameShape a c :=
  ⟨h2.1.trans h1.1, h2.2.1.trans h1.2.1, fun j => ⟨(h2.2.2 j).1.trans (h1.2.2 j).1, (h2.2.2 j).2.trans (h1.2.2 j).2⟩⟩

theorem wf_sameShape {cap : Nat} {held : List Key} {s : Store τ} (wf : WF cap held s) {a' : Arena τ}
    (h : SameShape s.arena a') : WF cap held { s with arena := a' } := by
  obtain ⟨cs, as, nc, uc, fn, fo, cnt, on, oo, oc, occ, gens, hg, ng⟩ := wf
  obtain ⟨ho, hl, hj⟩ := h
  refine ⟨cs, by rw [← as]; exact hl, nc, uc, fn, fo, cnt, ?_, ?_, ?_, ?_, ?_, hg, ng⟩
  · simpa [ownIdx, ho] using on
  · simpa [ownIdx, ho] using oo
  · simpa [ownIdx, ho] using oc
  · intro i
    simp only [ho]
    rw [occ i]
    have := (hj i).2
    simp only [Arena.dataAt] at this
    constructor
    · rintro ⟨sl, hsl, hd⟩
      cases hs' : a'.slots[i]? with
      | none => simp [hs', hsl] at this; simp [this] at hd
      | some sl' => exact ⟨sl', rfl, by simpa [hs', hsl, hd] using this⟩
    · rintro ⟨sl', hsl', hd'⟩
      cases hs : s.arena.slots[i]? with
      | none => simp [hs, hsl'] at this; simp [this] at hd'
      | some sl => exact ⟨sl, rfl, by simpa [hs, hsl', hd'] using this.symm⟩
  · intro i; rw [(hj i).1]; exact gens i

/-- one visit: the resource is handed to `f`, its own key resolves to the dummy meanwhile, the slot
    gets the (possibly modified) resource back, nothing else changes -/
theorem visit_spec (f : τ → Arena τ → τ) (dummy : τ) (a : Arena τ) (k : Key) (sl : ASlot τ) (d : τ)
    (hsl : a.slots[k.index]? = some sl) (hg : sl.generation = k.generation) (hd : sl.data = some d) :
    ∃ a' d', visit f dummy a k = .ok (a', (d, some dummy)) ∧ SameShape a a'
      ∧ a'.slots[k.index]? = some { sl with data := some d' }
      ∧ (∀ j, j ≠ k.index → a'.slots[j]? = a.slots[j]?) := by
  obtain ⟨h1, h2, h3, h4⟩ := Arena.setData_spec a k.index dummy sl hsl
  obtain ⟨g1, g2, g3, g4⟩ := Arena.setData_spec (a.setData k.index dummy) k.index
    (f d (a.setData k.index dummy)) _ h1
  refine ⟨_, f d (a.setData k.index dummy), ?_, ⟨by rw [g3, h3], by rw [g4, h4], fun j => ?_⟩, by simpa using g1,
    fun j hj => by rw [g2 j hj, h2 j hj]⟩
  · simp [visit, Arena.get, hsl, hg, hd, Arena.get?, h1]
  · by_cases hj : j = k.index
    · subst hj; simp [Arena.dataAt, g1, hsl, hd]
    · simp [Arena.dataAt, g2 j hj, h2 j hj]

theorem forEachLoop_spec (f : τ → Arena τ → τ) (dummy : τ) :
    ∀ (l : List Key) (a : Arena τ), (l.map (·.index)).Nodup →
      (∀ k ∈ l, ∃ sl d, a.slots[k.index]? = some sl ∧ sl.generation = k.generation ∧ sl.data = some d) →
      ∃ a' vs, forEachLoop f dummy l a = .ok (a', vs) ∧ SameShape a a'
        ∧ vs.map (·.1) = l.filterMap (fun k => a.dataAt k.index) ∧ vs.length = l.length
        ∧ (∀ v ∈ vs, v.2 = some dummy)
        ∧ (∀ j, j ∉ l.map (·.index) → a'.slots[j]? = a.slots[j]?) := by
  intro l
  induction l with
  | nil => intro a _ _; exact ⟨a, [], rfl, SameShape.refl a, rfl, rfl, by simp, fun _ _ => rfl⟩
  | cons k rest ih =>
    intro a hnd hocc
    simp only [List.map_cons, List.nodup_cons] at hnd
    obtain ⟨sl, d, hsl, hg, hd⟩ := hocc k (by simp)
    obtain ⟨a1, d', hv, hsh, hk1, hoth⟩ := visit_spec f dummy a k sl d hsl hg hd
    have hrest : ∀ q ∈ rest, q.index ≠ k.index := fun q hq e => hnd.1 (List.mem_map.mpr ⟨q, hq, e⟩)
    have hocc1 : ∀ q ∈ rest, ∃ sl d, a1.slots[q.index]? = some sl ∧ sl.generation = q.generation ∧ sl.data = some d := by
      intro q hq
      rw [hoth _ (hrest q hq)]; exact hocc q (by simp [hq])
    obtain ⟨a2, vs, hr, hsh2, hvs, hlen, hdum, hsame⟩ := ih a1 hnd.2 hocc1
    refine ⟨a2, (d, some dummy) :: vs, by simp [forEachLoop, hv, hr], hsh.trans hsh2, ?_, by simp [hlen], ?_, ?_⟩
    · simp only [List.map_cons, hvs]
      have hk : a.dataAt k.index = some d := by simp [Arena.dataAt, hsl, hd]
      simp only [List.filterMap_cons, hk]
      congr 1
      apply filterMap_congr'
      intro q hq
      simp [Arena.dataAt, hoth _ (hrest q hq)]
    · intro v hv'
      simp only [List.mem_cons] at hv'
      rcases hv' with rfl | hv'
      · rfl
      · exact hdum v hv'
    · intro j hj
      simp only [List.map_cons, List.mem_cons, not_or] at hj
      rw [hsame j hj.2, hoth j hj.1]

theorem swf_forEach (f : τ → Arena τ → τ) {cap : Nat} {held : List Key} {ss : SelfStore τ} (h : SWF cap held ss) :
    ∃ ss' vs, ss.forEach f = .ok (ss', vs) ∧ SWF cap held ss' ∧ ss'.keys = ss.keys ∧ ss'.dummy = ss.dummy
      ∧ vs.length = ss.base.arena.order.length
      ∧ vs.map (·.1) = ss.keys.filterMap (fun k => ss.base.arena.dataAt k.index)
      ∧ (∀ v ∈ vs, v.2 = some ss.dummy) := by
  obtain ⟨wf, nd, mem, gen⟩ := h
  have hocc : ∀ k ∈ ss.keys, ∃ sl d, ss.base.arena.slots[k.index]? = some sl ∧ sl.generation = k.generation
      ∧ sl.data = some d := by
    intro k hk
    obtain ⟨sl, hsl, hg⟩ := gen k hk
    obtain ⟨sl', hsl', hd'⟩ := (wf.occ k.index).mp ((mem k.index).mp (List.mem_map.mpr ⟨k, hk, rfl⟩))
    rw [hsl] at hsl'; cases hsl'
    cases hd : sl.data with
    | none => simp [hd] at hd'
    | some d => exact ⟨sl, d, hsl, hg, hd⟩
  obtain ⟨a', vs, hr, hsh, hvs, hlen, hdum, hsame⟩ := forEachLoop_spec f ss.dummy ss.keys ss.base.arena nd hocc
  have hklen : ss.keys.length = ss.base.arena.order.length := by
    have h1 : (ss.keys.map (·.index)).length = ss.base.arena.order.length := by
      apply Nat.le_antisymm
      · exact nd.length_le_of_subset (fun i hi => (mem i).mp hi)
      · exact (order_nodup' wf).length_le_of_subset (fun i hi => (mem i).mpr hi)
    simpa using h1
  refine ⟨{ ss with base := { ss.base with arena := a' } }, vs, by simp [forEach, hr],
    ⟨wf_sameShape wf hsh, nd, by intro i; rw [mem i]; simp [hsh.1], ?_⟩, rfl, rfl, by rw [hlen, hklen], hvs, hdum⟩
  intro k hk
  obtain ⟨sl, hsl, hg⟩ := gen k hk
  have := (hsh.2.2 k.index).1
  simp only [hsl, Option.map_some] at this
  cases hs' : a'.slots[k.index]? with
  | none => simp [hs'] at this
  | some sl' => simp [hs'] at this; exact ⟨sl', rfl, by rw [this, hg]⟩

end SelfStore
end K
