/-
  Helper lemmas for clock-time arithmetic over ℝ.
-/
import KiraModel.Proofs.RealOps
import KiraModel.Model.ClockTime
import Mathlib.Tactic.Linarith
import Mathlib.Tactic.Ring
import Mathlib.Tactic.NormNum
import Mathlib.Tactic.Push

namespace K
namespace ClockTime

/-- the real number a clock time denotes -/
noncomputable def val (t : ClockTime ℝ) : ℝ := (t.ticks : ℝ) + t.fraction

/-- well-formed: fraction in [0, 1) -/
def WF (t : ClockTime ℝ) : Prop := 0 ≤ t.fraction ∧ t.fraction < 1

theorem signNeg_real (x : ℝ) : signNeg x = decide (x < 0) := by
  unfold signNeg
  by_cases h : x < 0
  · simp [h]
  · by_cases h0 : x = 0
    · subst h0; simp
    · simp [h, h0]

theorem natFloor_intCast (z : ℤ) : ⌊(z : ℝ)⌋₊ = z.toNat := by
  rw [← Int.floor_toNat, Int.floor_intCast]

theorem natFloor_intCast_real (z : ℤ) (hz : 0 ≤ z) : ((⌊(z : ℝ)⌋₊ : ℕ) : ℝ) = (z : ℝ) := by
  rw [natFloor_intCast]
  have : ((z.toNat : ℤ) : ℝ) = (z : ℝ) := by rw [Int.toNat_of_nonneg hz]
  exact_mod_cast this

theorem fract_nonneg_real (y : ℝ) (hy : 0 ≤ y) : fract y = Int.fract y := by
  unfold fract; rw [trunc_nonneg y hy]; rfl

theorem addPos_spec (t : ClockTime ℝ) (x : ℝ) (ht : WF t) (hx : 0 ≤ x) :
    val (addPos t x) = val t + x ∧ WF (addPos t x) := by
  have hy : 0 ≤ t.fraction + x := add_nonneg ht.1 hx
  unfold addPos val WF
  simp only [toNatSat_real]
  rw [trunc_nonneg _ hy, fract_nonneg_real _ hy]
  have hfl : (0 : ℤ) ≤ ⌊t.fraction + x⌋ := Int.floor_nonneg.mpr hy
  refine ⟨?_, Int.fract_nonneg _, Int.fract_lt_one _⟩
  push_cast
  rw [natFloor_intCast_real _ hfl]
  have := Int.floor_add_fract (t.fraction + x)
  linarith

theorem subPos_spec (t : ClockTime ℝ) (x : ℝ) (ht : WF t) (hx : 0 ≤ x) :
    WF (subPos t x) ∧ (x ≤ val t → val (subPos t x) = val t - x)
      ∧ (val t < x → (subPos t x).ticks = 0) := by
  obtain ⟨hf0, hf1⟩ := ht
  unfold subPos val WF
  simp only [toNatSat_real, ceil_real, lit_0, lit_1]
  by_cases hle : x ≤ t.fraction
  · -- no borrow
    have hd0 : 0 ≤ t.fraction - x := by linarith
    have hd1 : t.fraction - x < 1 := by linarith
    have hfr : fract (t.fraction - x) = t.fraction - x := by
      rw [fract_nonneg_real _ hd0]
      exact Int.fract_eq_iff.mpr ⟨hd0, hd1, 0, by simp⟩
    have hceil : ⌈x - t.fraction⌉ ≤ 0 := Int.ceil_le.mpr (by push_cast; linarith)
    have hnat : ⌊((⌈x - t.fraction⌉ : ℤ) : ℝ)⌋₊ = 0 := by
      rw [natFloor_intCast]; exact Int.toNat_eq_zero.mpr hceil
    have hnl : ¬ t.fraction - x < 0 := not_lt.mpr hd0
    rw [hfr, hnat]
    simp only [hnl, if_false, Nat.sub_zero]
    refine ⟨⟨hd0, hd1⟩, fun _ => by ring, fun h => ?_⟩
    exfalso
    have : (0 : ℝ) ≤ (t.ticks : ℝ) := Nat.cast_nonneg _
    linarith
  · -- borrow
    push Not at hle
    have hneg : t.fraction - x < 0 := by linarith
    have hfr : fract (t.fraction - x) = (t.fraction - x) - (⌈t.fraction - x⌉ : ℝ) := by
      unfold fract; rw [trunc_neg _ hneg]
    set d := x - t.fraction with hd
    have hdpos : 0 < d := by linarith
    have hce : (⌈t.fraction - x⌉ : ℝ) = -(⌊d⌋ : ℝ) := by
      have : t.fraction - x = -d := by ring
      rw [this, Int.ceil_neg]; push_cast; ring
    have hcpos : (0 : ℤ) < ⌈d⌉ := Int.ceil_pos.mpr hdpos
    have hy : fract (t.fraction - x) = - Int.fract d := by
      rw [hfr, hce]; unfold Int.fract; rw [hd]; ring
    rw [hy]
    have hfd0 := Int.fract_nonneg d
    have hfd1 := Int.fract_lt_one d
    have hnat : ((⌊((⌈d⌉ : ℤ) : ℝ)⌋₊ : ℕ) : ℝ) = (⌈d⌉ : ℝ) := natFloor_intCast_real _ hcpos.le
    have hnatZ : ((⌊((⌈d⌉ : ℤ) : ℝ)⌋₊ : ℕ) : ℤ) = ⌈d⌉ := by
      rw [natFloor_intCast]; exact Int.toNat_of_nonneg hcpos.le
    have hfa := Int.floor_add_fract d
    by_cases hint : Int.fract d = 0
    · -- d is an integer: fraction 0, borrow exactly d
      have hnl : ¬ (-Int.fract d < 0) := by rw [hint]; simp
      simp only [hnl, if_false]
      have hdz : (⌈d⌉ : ℝ) = d := by
        have : d = ⌊d⌋ := by rw [hint] at hfa; linarith
        rw [this]; simp
      rw [hint]
      refine ⟨⟨by simp, by norm_num⟩, ?_, ?_⟩
      · intro hxv
        have hkle : ⌊((⌈d⌉ : ℤ) : ℝ)⌋₊ ≤ t.ticks := by
          have : ((⌊((⌈d⌉ : ℤ) : ℝ)⌋₊ : ℕ) : ℝ) ≤ (t.ticks : ℝ) := by rw [hnat, hdz, hd]; linarith
          exact_mod_cast this
        rw [Nat.cast_sub hkle, hnat, hdz, hd]; ring
      · intro hxv
        have : (t.ticks : ℝ) < ((⌊((⌈d⌉ : ℤ) : ℝ)⌋₊ : ℕ) : ℝ) := by rw [hnat, hdz, hd]; linarith
        have : t.ticks < ⌊((⌈d⌉ : ℤ) : ℝ)⌋₊ := by exact_mod_cast this
        omega
    · have hfpos : 0 < Int.fract d := lt_of_le_of_ne hfd0 (Ne.symm hint)
      have hl : -Int.fract d < 0 := by linarith
      have hn1 : ¬ ((1 : ℝ) ≤ -Int.fract d + 1) := by linarith
      simp only [hl, hn1, if_true, if_false]
      have hdz : (⌈d⌉ : ℝ) = (⌊d⌋ : ℝ) + 1 := by
        have : ⌈d⌉ = ⌊d⌋ + 1 := by
          rw [Int.ceil_eq_iff]; push_cast
          constructor <;> linarith
        rw [this]; push_cast; ring
      refine ⟨⟨by linarith, by linarith⟩, ?_, ?_⟩
      · intro hxv
        have hkle : ⌊((⌈d⌉ : ℤ) : ℝ)⌋₊ ≤ t.ticks := by
          have h1 : (⌈d⌉ : ℝ) < (t.ticks : ℝ) + 1 := by rw [hdz]; linarith
          have h2 : ⌈d⌉ < (t.ticks : ℤ) + 1 := by exact_mod_cast h1
          omega
        rw [Nat.cast_sub hkle, hnat, hdz]; linarith
      · intro hxv
        have h1 : (t.ticks : ℝ) < (⌈d⌉ : ℝ) := by
          have := Int.le_ceil d; linarith
        have h2 : (t.ticks : ℤ) < ⌈d⌉ := by exact_mod_cast h1
        omega

end ClockTime
end K
