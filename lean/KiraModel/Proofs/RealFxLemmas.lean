/-
  RealFxLemmas.lean — the REAL effect components of the whole-system model (`SysFx`, Model/System.lean) are
  chunk-homomorphic relative to an explicit invariant, at every nesting depth.

  `Comps.ChunkHom` (C11) quantifies over all component states and all slice lengths; the real effects satisfy the
  equation only on states that are at rest (`SysFx.Inv B`: no latched panic, parameters stagnant, reverb
  initialised with non-empty lines, delay lines non-empty, scratch buffers of at least `B` frames, to any depth)
  and for slices of at most `B` frames.  This file proves exactly that (`SysFx.step_chunk`), that the invariant is
  kept (`SysFx.step_inv`), and that the scratch size is only a capacity (`SysFx.step_setIbs`, `SysFx.init_setIbs`).

  Route: an abstract notion `FxOps.HomOn o Q B dt info` (chunk homomorphism of a trait record on `Q`-states for
  slices ≤ `B`), shown for the base effects, lifted through feedback chains (`chainOf`) and through the delay
  (invariant-relative copies of the sub-chunking lemmas of Proofs/EffectsBDelay.lean), then by induction on
  the nesting depth (`fxOpsN_homOn`).  `FxOps.CommOn` is the analogous notion for "resizing the scratch buffers
  commutes with `process`" (`fxOpsN_commOn`).

  Also: `SysFx.Idle` (no command pending, to any depth; generic in the number type): `on_start_processing` is the
  identity (`SysFx.start_idle`) and `process` / `setIbs` / `init` keep it; and non-vacuity: every builder-made effect
  whose parameters are fixed values satisfies `SysFx.Inv ibs` after `init` at ≥ 196 Hz (`SysFx.init_inv`, examples).
-/
import KiraModel.Props.C13_real

set_option linter.unusedSectionVars false

namespace K

/-! ## definitions -/

section defs
variable {α : Type}

/-- same effect, scratch buffer of every (nested) delay resized to `k` frames: what `init` with internal
    buffer size `k` would have produced -/
def FxOver.setIbs {α φ : Type} (f : φ → φ) (k : Nat) : FxOver α φ → FxOver α φ
  | .base b => .base b
  | .delay d => .delay { d with tempLen := k, fx := (d.fx.1.map f, d.fx.2) }

def FxN.setIbs {α : Type} (k : Nat) : (n : Nat) → FxN α n → FxN α n
  | 0 => FxOver.setIbs (fun e => e) k
  | n + 1 => FxOver.setIbs (FxN.setIbs k n) k

def SysFx.setIbs {α : Type} {n : Nat} (k : Nat) (e : SysFx α n) : SysFx α n :=
  { e with fx := FxN.setIbs k n e.fx }

@[simp] theorem FxOver.setIbs_base {φ : Type} (f : φ → φ) (k : Nat) (b : BaseFx α) :
    FxOver.setIbs f k (.base b : FxOver α φ) = .base b := rfl
@[simp] theorem FxOver.setIbs_delay {φ : Type} (f : φ → φ) (k : Nat) (d : Delay α (ChainSt φ)) :
    FxOver.setIbs f k (.delay d : FxOver α φ) = .delay { d with tempLen := k, fx := (d.fx.1.map f, d.fx.2) } := rfl
theorem FxN.setIbs_zero (k : Nat) : FxN.setIbs (α := α) k 0 = FxOver.setIbs (fun e => e) k := rfl
theorem FxN.setIbs_succ (k n : Nat) : FxN.setIbs (α := α) k (n + 1) = FxOver.setIbs (FxN.setIbs k n) k := rfl
@[simp] theorem SysFx.setIbs_fx {n : Nat} (k : Nat) (e : SysFx α n) : (SysFx.setIbs k e).fx = FxN.setIbs k n e.fx := rfl
@[simp] theorem SysFx.setIbs_fault {n : Nat} (k : Nat) (e : SysFx α n) : (SysFx.setIbs k e).fault = e.fault := rfl
@[simp] theorem SysFx.setIbs_id {n : Nat} (k : Nat) (e : SysFx α n) : (SysFx.setIbs k e).id = e.id := rfl

end defs

/-- base effect at rest; the reverb is also initialised with well-formed (non-empty) lines -/
def BaseFx.Inv (b : BaseFx ℝ) : Prop :=
  BaseFx.AtRest b ∧
    match b with
    | .reverb r => ∃ ls, r.state = some ls ∧ ls.WF
    | _ => True

/-- a base effect at rest, or a delay at rest: parameters stagnant, non-empty line, scratch buffer of at least
    `B` frames, no latched panic in the feedback chain and every feedback effect in `Q` -/
def FxOver.Inv {φ : Type} (Q : φ → Prop) (B : Nat) : FxOver ℝ φ → Prop
  | .base b => BaseFx.Inv b
  | .delay d => d.feedback.stagnant = true ∧ d.mix.stagnant = true ∧ 1 ≤ d.buffer.length ∧ B ≤ d.tempLen
                  ∧ d.fx.2 = none ∧ ∀ e ∈ d.fx.1, Q e

def FxN.Inv (B : Nat) : (n : Nat) → FxN ℝ n → Prop
  | 0 => FxOver.Inv (fun _ => True) B
  | n + 1 => FxOver.Inv (FxN.Inv B n) B

/-- no latched panic and the effect (to any depth) at rest with scratch buffers of at least `B` frames -/
def SysFx.Inv (B : Nat) {n : Nat} (e : SysFx ℝ n) : Prop := e.fault = none ∧ FxN.Inv B n e.fx

@[simp] theorem FxOver.inv_base {φ : Type} (Q : φ → Prop) (B : Nat) (b : BaseFx ℝ) :
    FxOver.Inv Q B (.base b : FxOver ℝ φ) = BaseFx.Inv b := rfl
@[simp] theorem FxOver.inv_delay {φ : Type} (Q : φ → Prop) (B : Nat) (d : Delay ℝ (ChainSt φ)) :
    FxOver.Inv Q B (.delay d : FxOver ℝ φ)
      = (d.feedback.stagnant = true ∧ d.mix.stagnant = true ∧ 1 ≤ d.buffer.length ∧ B ≤ d.tempLen
          ∧ d.fx.2 = none ∧ ∀ e ∈ d.fx.1, Q e) := rfl
theorem FxN.inv_zero (B : Nat) : FxN.Inv B 0 = FxOver.Inv (fun _ => True) B := rfl
theorem FxN.inv_succ (B n : Nat) : FxN.Inv B (n + 1) = FxOver.Inv (FxN.Inv B n) B := rfl

/-! ## the abstract notions -/

section abstract
variable {φ : Type}

/-- **chunk homomorphism of a trait record relative to an invariant**: on a `Q`-state, `process` of a slice of at
    most `B` frames succeeds, returns a `Q`-state and as many frames as it was given, and processing `xs ++ ys`
    (`|xs| + |ys| ≤ B`) equals processing `xs`, then `ys` -/
structure FxOps.HomOn (o : FxOps ℝ φ) (Q : φ → Prop) (B : Nat) (dt : ℝ) (info : Info ℝ) : Prop where
  ok : ∀ e xs, Q e → xs.length ≤ B →
    ∃ e' out, o.process e xs dt info = .ok (e', out) ∧ Q e' ∧ out.length = xs.length
  split : ∀ e xs ys, Q e → xs.length + ys.length ≤ B →
    o.process e (xs ++ ys) dt info = thenProcess (fun e zs => o.process e zs dt info) e xs ys

/-- the two calls and the joint call, spelled out -/
theorem FxOps.HomOn.split' {o : FxOps ℝ φ} {Q : φ → Prop} {B : Nat} {dt : ℝ} {info : Info ℝ}
    (h : o.HomOn Q B dt info) (e : φ) (xs ys : List (Frame ℝ)) (he : Q e) (hl : xs.length + ys.length ≤ B) :
    ∃ e1 o1 e2 o2, o.process e xs dt info = .ok (e1, o1) ∧ o.process e1 ys dt info = .ok (e2, o2)
      ∧ o.process e (xs ++ ys) dt info = .ok (e2, o1 ++ o2) ∧ Q e1 ∧ Q e2
      ∧ o1.length = xs.length ∧ o2.length = ys.length := by
  obtain ⟨e1, o1, p1, q1, l1⟩ := h.ok e xs he (by omega)
  obtain ⟨e2, o2, p2, q2, l2⟩ := h.ok e1 ys q1 (by omega)
  refine ⟨e1, o1, e2, o2, p1, p2, ?_, q1, q2, l1, l2⟩
  rw [h.split e xs ys he hl]
  simp only [thenProcess, p1, p2]

/-- `HomOn` from the spelled-out form -/
theorem FxOps.HomOn.of_split' {o : FxOps ℝ φ} {Q : φ → Prop} {B : Nat} {dt : ℝ} {info : Info ℝ}
    (h : ∀ e xs ys, Q e → xs.length + ys.length ≤ B →
      ∃ e1 o1 e2 o2, o.process e xs dt info = .ok (e1, o1) ∧ o.process e1 ys dt info = .ok (e2, o2)
        ∧ o.process e (xs ++ ys) dt info = .ok (e2, o1 ++ o2) ∧ Q e1 ∧ Q e2
        ∧ o1.length = xs.length ∧ o2.length = ys.length) : o.HomOn Q B dt info := by
  constructor
  · intro e xs he hl
    obtain ⟨e1, o1, _, _, p1, _, _, q1, _, l1, _⟩ := h e xs [] he (by simpa using hl)
    exact ⟨e1, o1, p1, q1, l1⟩
  · intro e xs ys he hl
    obtain ⟨e1, o1, e2, o2, p1, p2, p12, _⟩ := h e xs ys he hl
    rw [p12]
    simp only [thenProcess, p1, p2]

/-- a state map `f` (resizing of scratch buffers) commutes with `process` on `Q`-states for slices ≤ `B` -/
def FxOps.CommOn (o : FxOps ℝ φ) (Q : φ → Prop) (f : φ → φ) (B : Nat) (dt : ℝ) (info : Info ℝ) : Prop :=
  ∀ e xs e' out, Q e → xs.length ≤ B → o.process e xs dt info = .ok (e', out) →
    o.process (f e) xs dt info = .ok (f e', out)

/-- the chain-level analogue of `FxChain.Good` relative to an invariant `Q` and a length bound `B` -/
structure FxChain.GoodOn {σ : Type} (C : FxChain ℝ σ) (Q : σ → Prop) (B : Nat) (dt : ℝ) (info : Info ℝ) : Prop where
  len : ∀ s xs, (C.process s xs dt info).2.length = xs.length
  inv : ∀ s xs, Q s → xs.length ≤ B → Q (C.process s xs dt info).1
  split : ∀ s xs ys, Q s → xs.length + ys.length ≤ B → C.process s (xs ++ ys) dt info =
      ((C.process (C.process s xs dt info).1 ys dt info).1,
       (C.process s xs dt info).2 ++ (C.process (C.process s xs dt info).1 ys dt info).2)

/-- the invariant of a feedback chain: no latched panic, every effect in `Q` -/
def ChainInv (Q : φ → Prop) (s : ChainSt φ) : Prop := s.2 = none ∧ ∀ e ∈ s.1, Q e

end abstract

/-! ## the base effects -/

theorem BaseFx.process_inv (b : BaseFx ℝ) (h : b.Inv) (xs : List (Frame ℝ)) (dt : ℝ) (info : Info ℝ) :
    ∃ b' out, b.process xs dt info = .ok (b', out) ∧ b'.Inv ∧ out.length = xs.length := by
  cases b with
  | filter s =>
    refine ⟨_, _, rfl, ⟨?_, trivial⟩, Filter.process_length ..⟩
    show (s.process xs dt info).1.Stagnant
    rw [Filter.process_stagnant s h.1]
    exact Filter.withState_stagnant _ _ (Filter.settle_stagnant s h.1)
  | eq s =>
    refine ⟨_, _, rfl, ⟨?_, trivial⟩, EqFilter.process_length ..⟩
    show (s.process xs dt info).1.Stagnant
    rw [EqFilter.process_stagnant s h.1]
    exact EqFilter.withState_stagnant _ _ (EqFilter.settle_stagnant s h.1)
  | dist s =>
    refine ⟨_, _, rfl, ⟨?_, trivial⟩, Distortion.process_length ..⟩
    show (s.process xs dt info).1.Stagnant
    rw [Distortion.process_stagnant s h.1]
    exact Distortion.settle_stagnant s h.1
  | comp s =>
    refine ⟨_, _, rfl, ⟨?_, trivial⟩, Compressor.process_length ..⟩
    show (s.process xs dt info).1.Stagnant
    rw [Compressor.process_stagnant s h.1]
    exact Compressor.withState_stagnant _ _ (Compressor.settle_stagnant s h.1)
  | vol s =>
    refine ⟨_, _, rfl, ⟨?_, trivial⟩, VolumeControl.process_length ..⟩
    show (s.process xs dt info).1.Stagnant
    rw [VolumeControl.process_stagnant s h.1]
    exact VolumeControl.settle_stagnant s h.1
  | pan s =>
    refine ⟨_, _, rfl, ⟨?_, trivial⟩, PanningControl.process_length ..⟩
    show (s.process xs dt info).1.Stagnant
    rw [PanningControl.process_stagnant s h.1]
    exact PanningControl.settle_stagnant s h.1
  | reverb s =>
    obtain ⟨hs, ls, hst, hw⟩ := h
    obtain ⟨r', out, ls', hp, hl, hst', hw'⟩ := C13_reverb_never_faults s ls hst hw xs dt info
    refine ⟨.reverb r', out, ?_, ⟨?_, ls', hst', hw'⟩, hl⟩
    · simp only [BaseFx.process, hp]
    · show r'.Stagnant
      have hps := Reverb.process_settled s hs xs dt info
      rw [hp, hst] at hps
      simp only at hps
      split at hps
      · cases hps
      · simp only [Except.ok.injEq, Prod.mk.injEq] at hps
        rw [hps.1]
        exact Reverb.settled_stagnant s hs _

theorem BaseFx.ops_homOn (B : Nat) (dt : ℝ) (info : Info ℝ) : (BaseFx.ops : FxOps ℝ (BaseFx ℝ)).HomOn BaseFx.Inv B dt info :=
  ⟨fun e xs he _ => BaseFx.process_inv e he xs dt info,
   fun e xs ys he _ => BaseFx.chunk_free e he.1 xs ys dt info⟩

/-! ## feedback chains -/

section chain
variable {φ : Type} {o : FxOps ℝ φ} {Q : φ → Prop} {B : Nat} {dt : ℝ} {info : Info ℝ}

/-- a `Vec` of effects that are chunk-homomorphic on `Q` is chunk-homomorphic on "all in `Q`" -/
theorem chainRun_split' (h : o.HomOn Q B dt info) :
    ∀ (es : List φ) (xs ys : List (Frame ℝ)), (∀ e ∈ es, Q e) → xs.length + ys.length ≤ B →
      ∃ es1 o1 es2 o2, chainRun o es xs dt info = .ok (es1, o1) ∧ chainRun o es1 ys dt info = .ok (es2, o2)
        ∧ chainRun o es (xs ++ ys) dt info = .ok (es2, o1 ++ o2) ∧ (∀ e ∈ es1, Q e) ∧ (∀ e ∈ es2, Q e)
        ∧ o1.length = xs.length ∧ o2.length = ys.length
  | [], xs, ys, _, _ => ⟨[], xs, [], ys, rfl, rfl, rfl, by simp, by simp, rfl, rfl⟩
  | e :: es, xs, ys, hq, hl => by
    obtain ⟨e1, o1, e2, o2, p1, p2, p12, q1, q2, l1, l2⟩ := h.split' e xs ys (hq e (by simp)) hl
    obtain ⟨es1, z1, es2, z2, r1, r2, r12, s1, s2, m1, m2⟩ :=
      chainRun_split' h es o1 o2 (fun e he => hq e (by simp [he])) (by omega)
    refine ⟨e1 :: es1, z1, e2 :: es2, z2, ?_, ?_, ?_, ?_, ?_, by omega, by omega⟩
    · simp only [chainRun, p1, r1]
    · simp only [chainRun, p2, r2]
    · simp only [chainRun, p12, r12]
    · intro a ha
      rcases List.mem_cons.mp ha with rfl | ha
      · exact q1
      · exact s1 a ha
    · intro a ha
      rcases List.mem_cons.mp ha with rfl | ha
      · exact q2
      · exact s2 a ha

/-- the feedback chain of a delay, as an `FxChain`, is good relative to `ChainInv Q` -/
theorem chainOf_goodOn (ho : o.LenOk) (h : o.HomOn Q B dt info) : (chainOf o).GoodOn (ChainInv Q) B dt info := by
  refine ⟨fun s xs => chainOf_length o ho s xs dt info, ?_, ?_⟩
  · rintro ⟨l, f⟩ xs ⟨hn, hq⟩ hl
    simp only at hn hq
    subst hn
    obtain ⟨es1, z1, _, _, r1, _, _, s1, _⟩ := chainRun_split' h l xs [] hq (by simpa using hl)
    simp only [chainOf, r1]
    exact ⟨rfl, s1⟩
  · rintro ⟨l, f⟩ xs ys ⟨hn, hq⟩ hl
    simp only at hn hq
    subst hn
    obtain ⟨es1, z1, es2, z2, r1, r2, r12, _⟩ := chainRun_split' h l xs ys hq hl
    simp only [chainOf, r1, r2, r12]

/-- a state map that commutes with each effect's `process` commutes with the `Vec`'s -/
theorem chainRun_comm (ho : o.LenOk) (f : φ → φ) (hc : o.CommOn Q f B dt info)
    (hQ : ∀ e xs e' out, Q e → xs.length ≤ B → o.process e xs dt info = .ok (e', out) → Q e') :
    ∀ (es : List φ) (xs : List (Frame ℝ)) (es' : List φ) (out : List (Frame ℝ)), (∀ e ∈ es, Q e) → xs.length ≤ B →
      chainRun o es xs dt info = .ok (es', out) → chainRun o (es.map f) xs dt info = .ok (es'.map f, out)
  | [], xs, es', out, _, _, hr => by
    simp only [chainRun, Except.ok.injEq, Prod.mk.injEq] at hr
    obtain ⟨rfl, rfl⟩ := hr
    rfl
  | e :: es, xs, es', out, hq, hl, hr => by
    simp only [chainRun] at hr
    split at hr
    · cases hr
    · rename_i e1 ys he
      split at hr
      · cases hr
      · rename_i es1 zs hes
        simp only [Except.ok.injEq, Prod.mk.injEq] at hr
        obtain ⟨rfl, rfl⟩ := hr
        have hy : ys.length = xs.length := ho _ _ _ _ _ he
        have h1 := hc e xs e1 ys (hq e (by simp)) hl he
        have h2 := chainRun_comm ho f hc hQ es ys es1 zs (fun a ha => hq a (by simp [ha])) (by omega) hes
        simp only [List.map_cons, chainRun, h1, h2]

end chain

/-! ## the delay, relative to a chain invariant and a length bound
    (copies of the sub-chunking lemmas of Proofs/EffectsBDelay.lean, which assume a chain that is chunk-free
    for all states and all lengths) -/

namespace Delay
open LineFx

section
variable {σ : Type} (C : FxChain ℝ σ) (Q : σ → Prop) (B : Nat) (amp m dt : ℝ) (info : Info ℝ)

theorem chunkC_buf_length' (hlen : ∀ s xs, (C.process s xs dt info).2.length = xs.length)
    (st : List (Frame ℝ) × σ) (xs : List (Frame ℝ)) (h : xs.length ≤ st.1.length) :
    (chunkC C amp m dt info st xs).1.1.length = st.1.length := by
  simp [chunkC, hlen]
  omega

theorem chunkC_out_length' (hlen : ∀ s xs, (C.process s xs dt info).2.length = xs.length)
    (st : List (Frame ℝ) × σ) (xs : List (Frame ℝ)) (h : xs.length ≤ st.1.length) :
    (chunkC C amp m dt info st xs).2.length = xs.length := by
  simp [chunkC, hlen]
  omega

theorem chunkC_inv (hC : C.GoodOn Q B dt info) (st : List (Frame ℝ) × σ) (xs : List (Frame ℝ))
    (hs : Q st.2) (hx : xs.length ≤ B) : Q (chunkC C amp m dt info st xs).1.2 := by
  apply hC.inv _ _ hs
  simp only [List.length_take]
  omega

/-- a sub-chunk that fits in the line (and in the bound) may be split anywhere -/
theorem chunkC_split' (hC : C.GoodOn Q B dt info) (st : List (Frame ℝ) × σ) (xs ys : List (Frame ℝ))
    (hs : Q st.2) (hB : xs.length + ys.length ≤ B) (h : xs.length + ys.length ≤ st.1.length) :
    chunkC C amp m dt info st (xs ++ ys)
      = ((chunkC C amp m dt info (chunkC C amp m dt info st xs).1 ys).1,
         (chunkC C amp m dt info st xs).2 ++ (chunkC C amp m dt info (chunkC C amp m dt info st xs).1 ys).2) := by
  obtain ⟨buf, s⟩ := st
  simp only at h hs
  have hlen1 : ((C.process s (buf.take xs.length) dt info).2).length = xs.length := by
    rw [hC.len]; simp; omega
  have htake : (buf.drop xs.length ++ List.zipWith Frame.add xs
      ((C.process s (buf.take xs.length) dt info).2.map (fun f => f.scale amp))).take ys.length
      = (buf.drop xs.length).take ys.length := by
    rw [List.take_append_of_le_length]; simp; omega
  have hdrop : (buf.drop xs.length ++ List.zipWith Frame.add xs
      ((C.process s (buf.take xs.length) dt info).2.map (fun f => f.scale amp))).drop ys.length
      = buf.drop (xs.length + ys.length) ++ List.zipWith Frame.add xs
      ((C.process s (buf.take xs.length) dt info).2.map (fun f => f.scale amp)) := by
    rw [List.drop_append_of_le_length (by simp; omega), List.drop_drop]
  have hsp := hC.split s (buf.take xs.length) ((buf.drop xs.length).take ys.length) hs
    (by simp only [List.length_take, List.length_drop]; omega)
  simp only [chunkC, List.length_append, List.take_add, hsp, htake, hdrop, List.map_append]
  rw [List.zipWith_append (by simp [hlen1]), List.zipWith_append (by simp [hlen1])]
  simp [List.append_assoc]

theorem framesC_buf_length' (hlen : ∀ s xs, (C.process s xs dt info).2.length = xs.length)
    (st : List (Frame ℝ) × σ) (xs : List (Frame ℝ)) (h : 1 ≤ st.1.length) :
    (framesC C amp m dt info st xs).1.1.length = st.1.length := by
  induction xs generalizing st with
  | nil => simp [framesC]
  | cons x xs ih =>
    have h1 := chunkC_buf_length' C amp m dt info hlen st [x] (by simpa using h)
    simp only [framesC]
    rw [ih _ (by rw [h1]; exact h), h1]

theorem framesC_out_length' (hlen : ∀ s xs, (C.process s xs dt info).2.length = xs.length)
    (st : List (Frame ℝ) × σ) (xs : List (Frame ℝ)) (h : 1 ≤ st.1.length) :
    (framesC C amp m dt info st xs).2.length = xs.length := by
  induction xs generalizing st with
  | nil => simp [framesC]
  | cons x xs ih =>
    have h1 := chunkC_buf_length' C amp m dt info hlen st [x] (by simpa using h)
    have h2 := chunkC_out_length' C amp m dt info hlen st [x] (by simpa using h)
    simp only [framesC, List.length_append, List.length_cons]
    rw [ih _ (by rw [h1]; exact h), h2]
    simp
    omega

/-- the per-frame run keeps the chain invariant -/
theorem framesC_inv (hC : C.GoodOn Q B dt info) (st : List (Frame ℝ) × σ) (xs : List (Frame ℝ))
    (hs : Q st.2) (hx : xs.length ≤ B) : Q (framesC C amp m dt info st xs).1.2 := by
  induction xs generalizing st with
  | nil => simpa [framesC] using hs
  | cons x xs ih =>
    simp only [List.length_cons] at hx
    simp only [framesC]
    exact ih _ (chunkC_inv C Q B amp m dt info hC st [x] hs (by simp; omega)) (by omega)

/-- **sub-chunking = per-frame line**, relative to the chain invariant -/
theorem chunkC_eq_framesC' (hC : C.GoodOn Q B dt info) (st : List (Frame ℝ) × σ) (xs : List (Frame ℝ))
    (hs : Q st.2) (hB : xs.length ≤ B) (h : xs.length ≤ st.1.length) (hne : xs ≠ []) :
    chunkC C amp m dt info st xs = framesC C amp m dt info st xs := by
  induction xs generalizing st with
  | nil => exact absurd rfl hne
  | cons x xs ih =>
    by_cases hx : xs = []
    · subst hx; simp [framesC]
    · simp only [List.length_cons] at hB h
      have hsplit := chunkC_split' C Q B amp m dt info hC st [x] xs hs (by simp; omega) (by simp; omega)
      have h1 := chunkC_buf_length' C amp m dt info hC.len st [x] (by simp; omega)
      have hq := chunkC_inv C Q B amp m dt info hC st [x] hs (by simp; omega)
      have := ih (chunkC C amp m dt info st [x]).1 hq (by omega) (by rw [h1]; omega) hx
      simp only [List.singleton_append] at hsplit
      rw [hsplit, this]
      simp [framesC]

/-- the `chunks_mut(L)` loop with stagnant parameters, a chain state in the invariant and a slice of at most
    `B ≤ tempLen` frames never faults and equals the per-frame delay line -/
theorem chunks_settled' (fb mx : Parameter ℝ ℝ) (hC : C.GoodOn Q B dt info) (tempLen L : ℕ) (hL : 1 ≤ L)
    (hT : B ≤ tempLen) :
    ∀ (fuel : ℕ) (st : List (Frame ℝ) × σ) (xs : List (Frame ℝ)), st.1.length = L → xs.length ≤ fuel →
      Q st.2 → xs.length ≤ B →
      chunks C fb.settle mx.settle dt info tempLen L fuel st xs
        = .ok (framesC C (asAmplitude fb.raw) (clamp mx.raw 0 1) dt info st xs) := by
  intro fuel
  induction fuel with
  | zero =>
    intro st xs _ hx _ _
    have : xs = [] := List.eq_nil_of_length_eq_zero (by omega)
    subst this; simp [chunks, framesC]
  | succ fuel ih =>
    intro st xs hst hx hs hB
    cases xs with
    | nil => simp [chunks, framesC]
    | cons x xs =>
      have hc : ((x :: xs).take L).length = min L (x :: xs).length := by simp
      have hcB : ((x :: xs).take L).length ≤ B := by rw [hc]; omega
      have hcne : (x :: xs).take L ≠ [] := by
        intro h0
        have := congrArg List.length h0
        rw [hc] at this; simp at this; omega
      have hnot : ¬ tempLen < ((x :: xs).take L).length := by omega
      have hcl : ((x :: xs).take L).length ≤ st.1.length := by rw [hc, hst]; exact Nat.min_le_left _ _
      have hchunk := chunkC_eq_framesC' C Q B (asAmplitude fb.raw) (clamp mx.raw 0 1) dt info hC st _ hs hcB hcl hcne
      have hlen1 : (framesC C (asAmplitude fb.raw) (clamp mx.raw 0 1) dt info st ((x :: xs).take L)).1.1.length = L := by
        rw [framesC_buf_length' C _ _ dt info hC.len st _ (by omega), hst]
      have hq1 := framesC_inv C Q B (asAmplitude fb.raw) (clamp mx.raw 0 1) dt info hC st ((x :: xs).take L) hs hcB
      have hrest : ((x :: xs).drop L).length ≤ fuel := by
        simp only [List.length_drop, List.length_cons] at hx ⊢; omega
      have hrest2 : ((x :: xs).drop L).length ≤ B := by
        simp only [List.length_drop] at hB ⊢; omega
      have hrec := ih (framesC C (asAmplitude fb.raw) (clamp mx.raw 0 1) dt info st ((x :: xs).take L)).1
        ((x :: xs).drop L) hlen1 hrest hq1 hrest2
      have happ := framesC_append C (asAmplitude fb.raw) (clamp mx.raw 0 1) dt info st
        ((x :: xs).take L) ((x :: xs).drop L)
      rw [List.take_append_drop] at happ
      rw [chunks]
      simp only [hnot, if_false, chunkPure_settled, hchunk, hrec]
      rw [happ]

/-- `process` of a delay at rest on a slice of at most `B ≤ tempLen` frames is the per-frame delay line -/
theorem process_settled' (d : Delay ℝ σ) (xs : List (Frame ℝ)) (hC : C.GoodOn Q B dt info)
    (hfb : d.feedback.stagnant = true) (hmx : d.mix.stagnant = true)
    (hL : 1 ≤ d.buffer.length) (hT : B ≤ d.tempLen) (hs : Q d.fx) (hx : xs.length ≤ B) :
    d.process C xs dt info = .ok (after C d xs dt info, (perFrame C d xs dt info).2) := by
  have h1 : (d.feedback.update tw32 (dt * (KOps.ofNat xs.length : ℝ)) info).1 = d.feedback.settle :=
    Parameter.update_stagnant_fst _ _ _ _ hfb
  have h2 : (d.mix.update tw32 (dt * (KOps.ofNat xs.length : ℝ)) info).1 = d.mix.settle :=
    Parameter.update_stagnant_fst _ _ _ _ hmx
  have hne : ¬ d.buffer.length = 0 := by omega
  unfold process
  simp only [h1, h2, hne, if_false]
  rw [chunks_settled' C Q B dt info d.feedback d.mix hC d.tempLen d.buffer.length hL hT xs.length (d.buffer, d.fx) xs rfl
    (le_refl _) hs hx]
  rfl

end

/-- the two per-frame runs compose -/
theorem after_append {σ : Type} (C : FxChain ℝ σ) (d : Delay ℝ σ) (xs ys : List (Frame ℝ)) (dt : ℝ) (info : Info ℝ) :
    after C d (xs ++ ys) dt info = after C (after C d xs dt info) ys dt info
      ∧ (perFrame C d (xs ++ ys) dt info).2
          = (perFrame C d xs dt info).2 ++ (perFrame C (after C d xs dt info) ys dt info).2 := by
  have happ := framesC_append C (asAmplitude d.feedback.raw) (clamp d.mix.raw 0 1) dt info (d.buffer, d.fx) xs ys
  simp only [after, perFrame, Parameter.settle_settle, Parameter.settle_raw] at happ ⊢
  rw [happ]
  exact ⟨rfl, rfl⟩

section
variable {σ : Type} (C : FxChain ℝ σ) (Q : σ → Prop) (B : Nat) (g : σ → σ) (amp m dt : ℝ) (info : Info ℝ)

/-- a map of the chain state that commutes with the chain commutes with one sub-chunk -/
theorem chunkC_comm
    (hc : ∀ s xs, Q s → xs.length ≤ B →
      C.process (g s) xs dt info = (g (C.process s xs dt info).1, (C.process s xs dt info).2))
    (buf : List (Frame ℝ)) (s : σ) (xs : List (Frame ℝ)) (hs : Q s) (hx : xs.length ≤ B) :
    chunkC C amp m dt info (buf, g s) xs
      = (((chunkC C amp m dt info (buf, s) xs).1.1, g (chunkC C amp m dt info (buf, s) xs).1.2),
         (chunkC C amp m dt info (buf, s) xs).2) := by
  have := hc s (buf.take xs.length) hs (by simp only [List.length_take]; omega)
  simp only [chunkC, this]

/-- … and with the per-frame run -/
theorem framesC_comm
    (hinv : ∀ s xs, Q s → xs.length ≤ B → Q (C.process s xs dt info).1)
    (hc : ∀ s xs, Q s → xs.length ≤ B →
      C.process (g s) xs dt info = (g (C.process s xs dt info).1, (C.process s xs dt info).2)) :
    ∀ (xs : List (Frame ℝ)) (buf : List (Frame ℝ)) (s : σ), Q s → xs.length ≤ B →
      framesC C amp m dt info (buf, g s) xs
        = (((framesC C amp m dt info (buf, s) xs).1.1, g (framesC C amp m dt info (buf, s) xs).1.2),
           (framesC C amp m dt info (buf, s) xs).2)
  | [], buf, s, _, _ => by simp [framesC]
  | x :: xs, buf, s, hs, hx => by
    simp only [List.length_cons] at hx
    have h1 := chunkC_comm C Q B g amp m dt info hc buf s [x] hs (by simp; omega)
    have hq : Q (chunkC C amp m dt info (buf, s) [x]).1.2 := by
      apply hinv _ _ hs
      simp only [List.length_take, List.length_cons, List.length_nil]; omega
    have h2 := framesC_comm hinv hc xs (chunkC C amp m dt info (buf, s) [x]).1.1
      (chunkC C amp m dt info (buf, s) [x]).1.2 hq (by omega)
    simp only [framesC]
    rw [h1]
    simp only
    rw [h2]

end

end Delay

/-! ## one level of nesting: `FxOver` -/

section over
variable {φ : Type} {o : FxOps ℝ φ} {Q : φ → Prop} {B : Nat} {dt : ℝ} {info : Info ℝ}

/-- one `process` call of a delay in the invariant, on a slice of at most `B` frames: it is the per-frame
    delay line, no panic, and the invariant holds afterwards -/
theorem FxOver.delay_process (ho : o.LenOk) (h : o.HomOn Q B dt info) (d : Delay ℝ (ChainSt φ))
    (hd : FxOver.Inv Q B (.delay d)) (xs : List (Frame ℝ)) (hx : xs.length ≤ B) :
    FxOver.process o (.delay d) xs dt info
        = .ok (.delay (Delay.after (chainOf o) d xs dt info), (Delay.perFrame (chainOf o) d xs dt info).2)
      ∧ FxOver.Inv Q B (.delay (Delay.after (chainOf o) d xs dt info))
      ∧ (Delay.perFrame (chainOf o) d xs dt info).2.length = xs.length := by
  obtain ⟨hfb, hmx, hL, hT, hn, hq⟩ := hd
  have hC := chainOf_goodOn ho h
  have hp := Delay.process_settled' (chainOf o) (ChainInv Q) B dt info d xs hC hfb hmx hL hT ⟨hn, hq⟩ hx
  have hinv : ChainInv Q (Delay.after (chainOf o) d xs dt info).fx :=
    Delay.framesC_inv (chainOf o) (ChainInv Q) B _ _ dt info hC (d.buffer, d.fx) xs ⟨hn, hq⟩ hx
  have hbl : (Delay.after (chainOf o) d xs dt info).buffer.length = d.buffer.length :=
    Delay.framesC_buf_length' (chainOf o) _ _ dt info hC.len (d.buffer, d.fx) xs hL
  refine ⟨?_, ⟨hfb, hmx, by rw [hbl]; exact hL, hT, hinv.1, hinv.2⟩, ?_⟩
  · have hfx := hinv.1
    simp only [FxOver.process, hp, hfx]
  · exact Delay.framesC_out_length' (chainOf o) _ _ dt info hC.len (d.buffer, d.fx) xs hL

/-- **one level up**: if the feedback effects are chunk-homomorphic on `Q`, so is the effect on `FxOver.Inv Q B` -/
theorem FxOver.ops_homOn (ho : o.LenOk) (h : o.HomOn Q B dt info) :
    (FxOver.ops o).HomOn (FxOver.Inv Q B) B dt info := by
  apply FxOps.HomOn.of_split'
  intro e xs ys he hl
  cases e with
  | base b =>
    obtain ⟨b1, o1, b2, o2, p1, p2, p12, q1, q2, l1, l2⟩ := (BaseFx.ops_homOn B dt info).split' b xs ys he hl
    have p1' : b.process xs dt info = .ok (b1, o1) := p1
    have p2' : b1.process ys dt info = .ok (b2, o2) := p2
    have p12' : b.process (xs ++ ys) dt info = .ok (b2, o1 ++ o2) := p12
    refine ⟨.base b1, o1, .base b2, o2, ?_, ?_, ?_, q1, q2, l1, l2⟩
    · simp only [FxOver.ops, FxOver.process, p1']
    · simp only [FxOver.ops, FxOver.process, p2']
    · simp only [FxOver.ops, FxOver.process, p12']
  | delay d =>
    obtain ⟨p1, q1, l1⟩ := FxOver.delay_process ho h d he xs (by omega)
    obtain ⟨p2, q2, l2⟩ := FxOver.delay_process ho h _ q1 ys (by omega)
    obtain ⟨p12, _, _⟩ := FxOver.delay_process ho h d he (xs ++ ys) (by simpa using hl)
    obtain ⟨a1, a2⟩ := Delay.after_append (chainOf o) d xs ys dt info
    refine ⟨_, _, _, _, p1, p2, ?_, q1, q2, l1, l2⟩
    rw [← a1, ← a2]
    exact p12

theorem FxOver.setIbs_inv' (Q Q' : φ → Prop) (f : φ → φ) (B k : Nat) (hf : ∀ e, Q e → Q' (f e))
    (e : FxOver ℝ φ) (he : FxOver.Inv Q B e) : FxOver.Inv Q' k (FxOver.setIbs f k e) := by
  cases e with
  | base b => exact he
  | delay d =>
    obtain ⟨hfb, hmx, hL, _, hn, hq⟩ := he
    refine ⟨hfb, hmx, hL, le_refl k, hn, ?_⟩
    intro a ha
    obtain ⟨a0, ha0, rfl⟩ := List.mem_map.mp ha
    exact hf a0 (hq a0 ha0)

/-- resizing the scratch buffers of the feedback effects commutes with the chain -/
theorem chainOf_comm (ho : o.LenOk) (h : o.HomOn Q B dt info) (f : φ → φ) (B' : Nat) (hB' : B' ≤ B)
    (hc : o.CommOn Q f B' dt info) (s : ChainSt φ) (xs : List (Frame ℝ)) (hs : ChainInv Q s) (hx : xs.length ≤ B') :
    (chainOf o).process (s.1.map f, s.2) xs dt info
      = ((((chainOf o).process s xs dt info).1.1.map f, ((chainOf o).process s xs dt info).1.2),
         ((chainOf o).process s xs dt info).2) := by
  obtain ⟨l, fo⟩ := s
  obtain ⟨hn, hq⟩ := hs
  simp only at hn hq
  subst hn
  obtain ⟨es1, z1, _, _, r1, _, _, _⟩ := chainRun_split' h l xs [] hq (by simp only [List.length_nil]; omega)
  have hQ : ∀ e xs e' out, Q e → xs.length ≤ B' → o.process e xs dt info = .ok (e', out) → Q e' := by
    intro e xs e' out he hx hp
    obtain ⟨e'', out', hp', hq', _⟩ := h.ok e xs he (by omega)
    rw [hp] at hp'; cases hp'; exact hq'
  have r2 := chainRun_comm ho f hc hQ l xs es1 z1 hq hx r1
  simp only [chainOf, r1, r2]

/-- **one level up (capacity)**: if resizing commutes with the feedback effects, it commutes with the effect -/
theorem FxOver.ops_commOn (ho : o.LenOk) {Q' : φ → Prop} {k : Nat} (f : φ → φ) (h : o.HomOn Q B dt info)
    (h' : o.HomOn Q' k dt info) (hf : ∀ e, Q e → Q' (f e)) (hc : o.CommOn Q f (min B k) dt info) :
    (FxOver.ops o).CommOn (FxOver.Inv Q B) (FxOver.setIbs f k) (min B k) dt info := by
  intro e xs e' out he hx hp
  cases e with
  | base b =>
    have hp' : FxOver.process o (.base b) xs dt info = .ok (e', out) := hp
    simp only [FxOver.process] at hp'
    split at hp'
    · simp only [Except.ok.injEq, Prod.mk.injEq] at hp'
      obtain ⟨rfl, rfl⟩ := hp'
      exact hp
    · cases hp'
  | delay d =>
    have hxB : xs.length ≤ B := by omega
    have hxk : xs.length ≤ k := by omega
    obtain ⟨p1, q1, l1⟩ := FxOver.delay_process ho h d he xs hxB
    have hp' : FxOver.process o (.delay d) xs dt info = .ok (e', out) := hp
    rw [p1] at hp'
    simp only [Except.ok.injEq, Prod.mk.injEq] at hp'
    obtain ⟨rfl, rfl⟩ := hp'
    have he' := FxOver.setIbs_inv' Q Q' f B k hf _ he
    obtain ⟨p2, _, _⟩ := FxOver.delay_process ho h' _ he' xs hxk
    obtain ⟨_, _, _, _, hn, hq⟩ := he
    have hfr := Delay.framesC_comm (chainOf o) (ChainInv Q) (min B k) (fun s => (s.1.map f, s.2))
      (asAmplitude d.feedback.raw) (clamp d.mix.raw 0 1) dt info
      (fun s ys hs hy => (chainOf_goodOn ho h).inv s ys hs (by omega))
      (fun s ys hs hy => chainOf_comm ho h f (min B k) (Nat.min_le_left _ _) hc s ys hs hy)
      xs d.buffer d.fx ⟨hn, hq⟩ hx
    show FxOver.process o (FxOver.setIbs f k (.delay d)) xs dt info = _
    simp only [FxOver.setIbs_delay]
    rw [p2]
    simp only [Delay.after, Delay.perFrame]
    rw [hfr]

end over

/-! ## every nesting depth -/

theorem emptyFxOps_homOn (B : Nat) (dt : ℝ) (info : Info ℝ) :
    (emptyFxOps : FxOps ℝ Empty).HomOn (fun _ => True) B dt info :=
  ⟨fun e => (nomatch e), fun e => (nomatch e)⟩

/-- **the depth-`n` sum of kira's effects is chunk-homomorphic on `FxN.Inv B n` for slices of at most `B` frames** -/
theorem fxOpsN_homOn (B : Nat) (dt : ℝ) (info : Info ℝ) :
    ∀ n : Nat, (fxOpsN n : FxOps ℝ (FxN ℝ n)).HomOn (FxN.Inv B n) B dt info
  | 0 => FxOver.ops_homOn emptyFxOps_lenOk (emptyFxOps_homOn B dt info)
  | n + 1 => FxOver.ops_homOn (fxOpsN_lenOk n) (fxOpsN_homOn B dt info n)

theorem FxN.setIbs_inv (B k : Nat) : ∀ (n : Nat) (e : FxN ℝ n), FxN.Inv B n e → FxN.Inv k n (FxN.setIbs k n e)
  | 0 => FxOver.setIbs_inv' _ _ _ B k (fun _ _ => trivial)
  | n + 1 => FxOver.setIbs_inv' _ _ _ B k (FxN.setIbs_inv B k n)

theorem fxOpsN_commOn (B k : Nat) (dt : ℝ) (info : Info ℝ) :
    ∀ n : Nat, (fxOpsN n : FxOps ℝ (FxN ℝ n)).CommOn (FxN.Inv B n) (FxN.setIbs k n) (min B k) dt info
  | 0 => FxOver.ops_commOn emptyFxOps_lenOk (fun e => e) (emptyFxOps_homOn B dt info) (emptyFxOps_homOn k dt info)
      (fun _ _ => trivial) (fun e => (nomatch e))
  | n + 1 => FxOver.ops_commOn (fxOpsN_lenOk n) (FxN.setIbs k n) (fxOpsN_homOn B dt info n)
      (fxOpsN_homOn k dt info n) (FxN.setIbs_inv B k n) (fxOpsN_commOn B k dt info n)

/-! ## the component step of the whole-system model -/

/-- chunk homomorphism of the real effect step under the invariant, for slices of total length ≤ B -/
theorem SysFx.step_chunk (B n : Nat) (e : SysFx ℝ n) (he : SysFx.Inv B e) (xs ys : List (Frame ℝ))
    (h : xs.length + ys.length ≤ B) (dt : ℝ) (info : Info ℝ) :
    SysFx.step e (xs ++ ys) dt info
      = ((SysFx.step (SysFx.step e xs dt info).1 ys dt info).1,
         (SysFx.step e xs dt info).2 ++ (SysFx.step (SysFx.step e xs dt info).1 ys dt info).2) := by
  obtain ⟨hf, hi⟩ := he
  obtain ⟨e1, o1, e2, o2, p1, p2, p12, _⟩ := (fxOpsN_homOn B dt info n).split' e.fx xs ys hi h
  simp only [SysFx.step, hf, p1, p2, p12]

/-- the invariant is preserved, and no panic is latched -/
theorem SysFx.step_inv (B n : Nat) (e : SysFx ℝ n) (he : SysFx.Inv B e) (xs : List (Frame ℝ)) (h : xs.length ≤ B)
    (dt : ℝ) (info : Info ℝ) : SysFx.Inv B (SysFx.step e xs dt info).1 := by
  obtain ⟨hf, hi⟩ := he
  obtain ⟨e1, o1, p1, q1, _⟩ := (fxOpsN_homOn B dt info n).ok e.fx xs hi h
  simp only [SysFx.step, hf, p1]
  exact ⟨rfl, q1⟩

/-- the scratch size is only a capacity: resizing it to `k` commutes with processing slices that fit both -/
theorem SysFx.step_setIbs (B k n : Nat) (e : SysFx ℝ n) (he : SysFx.Inv B e) (xs : List (Frame ℝ))
    (h1 : xs.length ≤ B) (h2 : xs.length ≤ k) (dt : ℝ) (info : Info ℝ) :
    SysFx.step (SysFx.setIbs k e) xs dt info
      = (SysFx.setIbs k (SysFx.step e xs dt info).1, (SysFx.step e xs dt info).2) := by
  obtain ⟨hf, hi⟩ := he
  obtain ⟨e1, o1, p1, _, _⟩ := (fxOpsN_homOn B dt info n).ok e.fx xs hi h1
  have pc := fxOpsN_commOn B k dt info n e.fx xs e1 o1 hi (by omega) p1
  simp only [SysFx.step, SysFx.setIbs, hf, p1, pc]

theorem SysFx.setIbs_inv (B k n : Nat) (e : SysFx ℝ n) (he : SysFx.Inv B e) : SysFx.Inv k (SysFx.setIbs k e) :=
  ⟨he.1, FxN.setIbs_inv B k n e.fx he.2⟩

/-- the invariant for a larger bound implies the one for a smaller bound -/
theorem FxN.inv_mono (B B' : Nat) (hB : B' ≤ B) : ∀ (n : Nat) (e : FxN ℝ n), FxN.Inv B n e → FxN.Inv B' n e := by
  have over : ∀ {φ : Type} (Q : φ → Prop) (e : FxOver ℝ φ), FxOver.Inv Q B e → FxOver.Inv Q B' e := by
    intro φ Q e h
    cases e with
    | base b => exact h
    | delay d =>
      obtain ⟨h1, h2, h3, h4, h5, h6⟩ := h
      exact ⟨h1, h2, h3, by omega, h5, h6⟩
  have over2 : ∀ {φ : Type} (Q Q' : φ → Prop) (_ : ∀ e, Q e → Q' e) (e : FxOver ℝ φ),
      FxOver.Inv Q B' e → FxOver.Inv Q' B' e := by
    intro φ Q Q' hQ e h
    cases e with
    | base b => exact h
    | delay d =>
      obtain ⟨h1, h2, h3, h4, h5, h6⟩ := h
      exact ⟨h1, h2, h3, h4, h5, fun a ha => hQ a (h6 a ha)⟩
  intro n
  induction n with
  | zero => exact fun e h => over _ e h
  | succ n ih => exact fun e h => over2 _ _ ih e (over _ e h)

theorem SysFx.inv_mono (B B' n : Nat) (hB : B' ≤ B) (e : SysFx ℝ n) (he : SysFx.Inv B e) : SysFx.Inv B' e :=
  ⟨he.1, FxN.inv_mono B B' hB n e.fx he.2⟩

/-! ## `init` with another internal buffer size -/

section init
variable {α : Type} [Add α] [Sub α] [Mul α] [Div α] [Neg α] [LT α] [LE α]
  [DecidableLT α] [DecidableLE α] [OfScientific α] [KOps α]

/-- no base effect looks at the internal buffer size -/
theorem BaseFx.init_ibs (b : BaseFx α) (sr ibs k : Nat) : b.init sr ibs = b.init sr k := by
  cases b <;> rfl

theorem FxOver.init_setIbs {φ : Type} (o : FxOps α φ) (f : φ → φ) (sr ibs k : Nat)
    (hf : ∀ e, f (o.init e sr ibs) = o.init e sr k) (e : FxOver α φ) :
    FxOver.setIbs f k (FxOver.init o e sr ibs) = FxOver.init o e sr k := by
  cases e with
  | base b =>
    simp only [FxOver.init, FxOver.setIbs_base]
    rw [BaseFx.init_ibs b sr ibs k]
  | delay d =>
    simp only [FxOver.init, FxOver.setIbs_delay, Delay.init, chainOf, List.map_map]
    congr 3
    apply List.map_congr_left
    intro a _
    exact hf a

theorem FxN.init_setIbs (sr ibs k : Nat) :
    ∀ (n : Nat) (e : FxN α n), FxN.setIbs k n ((fxOpsN n).init e sr ibs) = (fxOpsN n).init e sr k
  | 0 => FxOver.init_setIbs emptyFxOps (fun e => e) sr ibs k (fun e => nomatch e)
  | n + 1 => FxOver.init_setIbs (fxOpsN n) (FxN.setIbs k n) sr ibs k (FxN.init_setIbs sr ibs k n)

/-- `init` with another internal buffer size differs exactly by `setIbs` -/
theorem SysFx.init_setIbs (n sr ibs k : Nat) (e : SysFx α n) :
    SysFx.setIbs k (SysFx.init sr ibs e) = SysFx.init sr k e := by
  simp only [SysFx.setIbs, SysFx.init, FxN.init_setIbs sr ibs k n e.fx]

end init

/-- `SysFx.step` is the effect step of the whole-system component record -/
theorem sysComps_fxStep (fuel n : Nat) : (sysComps fuel n : Comps ℝ (SysSnd ℝ) (SysFx ℝ n) (SysSpatial ℝ)).fxStep = SysFx.step := rfl
theorem sysComps_fxStart (fuel n : Nat) : (sysComps fuel n : Comps ℝ (SysSnd ℝ) (SysFx ℝ n) (SysSpatial ℝ)).fxStart = SysFx.start := rfl

/-! ## no command pending (`on_start_processing` is the identity), to any depth -/

section idle
variable {α : Type} [Add α] [Sub α] [Mul α] [Div α] [Neg α] [LT α] [LE α]
  [DecidableLT α] [DecidableLE α] [OfScientific α] [KOps α]

/-- no command pending in any handle slot of a base effect -/
def BaseFx.Idle : BaseFx α → Prop
  | .filter s => s.cmdMode = none ∧ s.cmdCutoff = none ∧ s.cmdResonance = none ∧ s.cmdMix = none
  | .eq s => s.cmdKind = none ∧ s.cmdFrequency = none ∧ s.cmdGain = none ∧ s.cmdQ = none
  | .dist s => s.cmdKind = none ∧ s.cmdDrive = none ∧ s.cmdMix = none
  | .comp s => s.cmdThreshold = none ∧ s.cmdRatio = none ∧ s.cmdAttack = none ∧ s.cmdRelease = none
      ∧ s.cmdMakeup = none ∧ s.cmdMix = none
  | .reverb s => s.cmdFeedback = none ∧ s.cmdDamping = none ∧ s.cmdStereoWidth = none ∧ s.cmdMix = none
  | .vol s => s.cmdVolume = none
  | .pan s => s.cmdPanning = none

/-- no command pending in the effect; for a delay: nor in any of its feedback effects (`Q`) -/
def FxOver.Idle {φ : Type} (Q : φ → Prop) : FxOver α φ → Prop
  | .base b => b.Idle
  | .delay d => d.cmdFeedback = none ∧ d.cmdMix = none ∧ ∀ e ∈ d.fx.1, Q e

def FxN.Idle : (n : Nat) → FxN α n → Prop
  | 0 => FxOver.Idle (fun _ => True)
  | n + 1 => FxOver.Idle (FxN.Idle n)

/-- no command pending in any handle slot of the effect (to any depth) -/
def SysFx.Idle {n : Nat} (e : SysFx α n) : Prop := FxN.Idle n e.fx

theorem FxN.idle_zero : FxN.Idle (α := α) 0 = FxOver.Idle (fun _ => True) := rfl
theorem FxN.idle_succ (n : Nat) : FxN.Idle (α := α) (n + 1) = FxOver.Idle (FxN.Idle n) := rfl

/-- `process` (when it succeeds) keeps `Q` -/
def FxOps.Pres {φ : Type} (o : FxOps α φ) (Q : φ → Prop) : Prop :=
  ∀ e xs dt info r, Q e → o.process e xs dt info = .ok r → Q r.1

theorem frameLoop_pres {σ : Type} (P : σ → Prop) (body : α → σ → Frame α → σ × Frame α)
    (hb : ∀ t s f, P s → P (body t s f).1) (n i : Nat) (s : σ) (xs : List (Frame α)) (hs : P s) :
    P (frameLoop body n i s xs).1 := by
  induction xs generalizing i s with
  | nil => simpa [frameLoop] using hs
  | cons f fs ih => simp only [frameLoop]; exact ih _ _ (hb _ _ _ hs)

theorem BaseFx.start_idle (b : BaseFx α) (h : b.Idle) : b.start = b := by
  cases b with
  | filter s => obtain ⟨h1, h2, h3, h4⟩ := h; cases s; simp only at h1 h2 h3 h4; subst h1 h2 h3 h4; rfl
  | eq s => obtain ⟨h1, h2, h3, h4⟩ := h; cases s; simp only at h1 h2 h3 h4; subst h1 h2 h3 h4; rfl
  | dist s => obtain ⟨h1, h2, h3⟩ := h; cases s; simp only at h1 h2 h3; subst h1 h2 h3; rfl
  | comp s =>
    obtain ⟨h1, h2, h3, h4, h5, h6⟩ := h; cases s; simp only at h1 h2 h3 h4 h5 h6; subst h1 h2 h3 h4 h5 h6; rfl
  | reverb s => obtain ⟨h1, h2, h3, h4⟩ := h; cases s; simp only at h1 h2 h3 h4; subst h1 h2 h3 h4; rfl
  | vol s => cases s; simp only [BaseFx.Idle] at h; subst h; rfl
  | pan s => cases s; simp only [BaseFx.Idle] at h; subst h; rfl

theorem BaseFx.process_idle (b : BaseFx α) (h : b.Idle) (xs : List (Frame α)) (dt : α) (info : Info α)
    (r : BaseFx α × List (Frame α)) (hp : b.process xs dt info = .ok r) : r.1.Idle := by
  cases b with
  | filter s =>
    simp only [BaseFx.process, Except.ok.injEq] at hp; subst hp
    exact frameLoop_pres (fun s : Filter α => s.cmdMode = none ∧ s.cmdCutoff = none ∧ s.cmdResonance = none ∧ s.cmdMix = none)
      _ (fun _ _ _ h => h) _ _ _ _ h
  | eq s =>
    simp only [BaseFx.process, Except.ok.injEq] at hp; subst hp
    exact frameLoop_pres (fun s : EqFilter α => s.cmdKind = none ∧ s.cmdFrequency = none ∧ s.cmdGain = none ∧ s.cmdQ = none)
      _ (fun _ _ _ h => h) _ _ _ _ h
  | dist s =>
    simp only [BaseFx.process, Except.ok.injEq] at hp; subst hp
    exact frameLoop_pres (fun s : Distortion α => s.cmdKind = none ∧ s.cmdDrive = none ∧ s.cmdMix = none)
      _ (fun _ _ _ h => h) _ _ _ _ h
  | comp s =>
    simp only [BaseFx.process, Except.ok.injEq] at hp; subst hp
    exact frameLoop_pres (fun s : Compressor α => s.cmdThreshold = none ∧ s.cmdRatio = none ∧ s.cmdAttack = none
        ∧ s.cmdRelease = none ∧ s.cmdMakeup = none ∧ s.cmdMix = none)
      _ (fun _ _ _ h => h) _ _ _ _ h
  | vol s =>
    simp only [BaseFx.process, Except.ok.injEq] at hp; subst hp
    exact frameLoop_pres (fun s : VolumeControl α => s.cmdVolume = none) _ (fun _ _ _ h => h) _ _ _ _ h
  | pan s =>
    simp only [BaseFx.process, Except.ok.injEq] at hp; subst hp
    exact frameLoop_pres (fun s : PanningControl α => s.cmdPanning = none) _ (fun _ _ _ h => h) _ _ _ _ h
  | reverb s =>
    simp only [BaseFx.process] at hp
    split at hp
    · rename_i r' hr
      simp only [Except.ok.injEq] at hp; subst hp
      unfold Reverb.process at hr
      split at hr
      · cases hr
      · dsimp only at hr
        split at hr
        · cases hr
        · simp only [Except.ok.injEq] at hr; subst hr
          exact h
    · cases hp

theorem chainRun_pres {φ : Type} (o : FxOps α φ) (Q : φ → Prop) (ho : o.Pres Q) (es : List φ) (xs : List (Frame α))
    (dt : α) (info : Info α) (r : List φ × List (Frame α)) (hq : ∀ e ∈ es, Q e)
    (h : chainRun o es xs dt info = .ok r) : ∀ e ∈ r.1, Q e := by
  induction es generalizing xs r with
  | nil => simp only [chainRun, Except.ok.injEq] at h; subst h; simp
  | cons e es ih =>
    simp only [chainRun] at h
    split at h
    · cases h
    · rename_i e' ys he
      split at h
      · cases h
      · rename_i es' zs hes
        simp only [Except.ok.injEq] at h; subst h
        intro a ha
        rcases List.mem_cons.mp ha with rfl | ha
        · exact ho _ _ _ _ _ (hq e (by simp)) he
        · exact ih _ _ (fun b hb => hq b (by simp [hb])) hes a ha

theorem chainOf_pres {φ : Type} (o : FxOps α φ) (Q : φ → Prop) (ho : o.Pres Q) (s : ChainSt φ) (xs : List (Frame α))
    (dt : α) (info : Info α) (hq : ∀ e ∈ s.1, Q e) : ∀ e ∈ ((chainOf o).process s xs dt info).1.1, Q e := by
  simp only [chainOf]
  split
  · exact hq
  · split
    · rename_i es out hr
      exact chainRun_pres o Q ho _ _ _ _ _ hq hr
    · exact hq

theorem Delay.chunks_pres {σ : Type} (C : FxChain α σ) (P : σ → Prop)
    (hC : ∀ s xs dt info, P s → P (C.process s xs dt info).1)
    (fb mx : Parameter α α) (dt : α) (info : Info α) (tempLen L : Nat) (fuel : Nat)
    (st : List (Frame α) × σ) (hst : P st.2) (xs : List (Frame α))
    (r : (List (Frame α) × σ) × List (Frame α))
    (h : Delay.chunks C fb mx dt info tempLen L fuel st xs = .ok r) : P r.1.2 := by
  induction fuel generalizing st xs r with
  | zero =>
    cases xs with
    | nil => simp only [Delay.chunks, Except.ok.injEq] at h; subst h; exact hst
    | cons x xs => simp [Delay.chunks] at h
  | succ fuel ih =>
    cases xs with
    | nil => simp only [Delay.chunks, Except.ok.injEq] at h; subst h; exact hst
    | cons x xs =>
      simp only [Delay.chunks] at h
      split at h
      · cases h
      · split at h
        · rename_i st2 o2 hrec
          simp only [Except.ok.injEq] at h; subst h
          exact ih _ (hC _ _ _ _ hst) _ (st2, o2) hrec
        · cases h

theorem Delay.process_pres {σ : Type} (C : FxChain α σ) (P : σ → Prop)
    (hC : ∀ s xs dt info, P s → P (C.process s xs dt info).1)
    (d : Delay α σ) (hd : P d.fx) (xs : List (Frame α)) (dt : α) (info : Info α) (r : Delay α σ × List (Frame α))
    (h : d.process C xs dt info = .ok r) :
    P r.1.fx ∧ r.1.cmdFeedback = d.cmdFeedback ∧ r.1.cmdMix = d.cmdMix := by
  unfold Delay.process at h
  dsimp only at h
  split at h
  · cases h
  · split at h
    · rename_i st out hch
      simp only [Except.ok.injEq] at h; subst h
      exact ⟨Delay.chunks_pres C P hC _ _ dt info _ _ _ _ hd _ _ hch, rfl, rfl⟩
    · cases h

theorem FxOver.ops_presIdle {φ : Type} (o : FxOps α φ) (Q : φ → Prop) (ho : o.Pres Q) :
    (FxOver.ops o).Pres (FxOver.Idle Q) := by
  intro e xs dt info r he h
  cases e with
  | base b =>
    simp only [FxOver.ops, FxOver.process] at h
    split at h
    · rename_i r' hr
      simp only [Except.ok.injEq] at h; subst h
      exact BaseFx.process_idle b he xs dt info r' hr
    · cases h
  | delay d =>
    simp only [FxOver.ops, FxOver.process] at h
    split at h
    · cases h
    · rename_i r' hr
      split at h
      · cases h
      · simp only [Except.ok.injEq] at h; subst h
        obtain ⟨h1, h2, h3⟩ := he
        obtain ⟨p1, p2, p3⟩ := Delay.process_pres (chainOf o) (fun s => ∀ e ∈ s.1, Q e)
          (fun s xs dt info hs => chainOf_pres o Q ho s xs dt info hs) d h3 xs dt info r' hr
        exact ⟨p2.trans h1, p3.trans h2, p1⟩

theorem fxOpsN_presIdle : ∀ n : Nat, (fxOpsN n : FxOps α (FxN α n)).Pres (FxN.Idle n)
  | 0 => FxOver.ops_presIdle _ _ (fun e => (nomatch e))
  | n + 1 => FxOver.ops_presIdle _ _ (fxOpsN_presIdle n)

theorem FxOver.start_idle' {φ : Type} (o : FxOps α φ) (Q : φ → Prop) (ho : ∀ e, Q e → o.start e = e)
    (e : FxOver α φ) (h : FxOver.Idle Q e) : FxOver.start o e = e := by
  cases e with
  | base b => simp only [FxOver.start, BaseFx.start_idle b h]
  | delay d =>
    obtain ⟨h1, h2, h3⟩ := h
    have hm : d.fx.1.map o.start = d.fx.1 := by
      have : ∀ l : List φ, (∀ e ∈ l, Q e) → l.map o.start = l := by
        intro l
        induction l with
        | nil => intro _; rfl
        | cons a l ih =>
          intro hl
          rw [List.map_cons, ho a (hl a (by simp)), ih (fun b hb => hl b (by simp [hb]))]
      exact this _ h3
    cases d
    simp only at h1 h2 hm
    subst h1 h2
    simp only [FxOver.start, Delay.startProcessing, chainOf, hm]
    rfl

theorem FxN.start_idle : ∀ (n : Nat) (e : FxN α n), FxN.Idle n e → (fxOpsN n).start e = e
  | 0 => FxOver.start_idle' emptyFxOps (fun _ => True) (fun e => (nomatch e))
  | n + 1 => FxOver.start_idle' (fxOpsN n) (FxN.Idle n) (FxN.start_idle n)

theorem FxOver.setIbs_idle' {φ : Type} (Q : φ → Prop) (f : φ → φ) (k : Nat) (hf : ∀ e, Q e → Q (f e))
    (e : FxOver α φ) (h : FxOver.Idle Q e) : FxOver.Idle Q (FxOver.setIbs f k e) := by
  cases e with
  | base b => exact h
  | delay d =>
    obtain ⟨h1, h2, h3⟩ := h
    refine ⟨h1, h2, ?_⟩
    intro a ha
    obtain ⟨a0, ha0, rfl⟩ := List.mem_map.mp ha
    exact hf a0 (h3 a0 ha0)

theorem FxN.setIbs_idle (k : Nat) : ∀ (n : Nat) (e : FxN α n), FxN.Idle n e → FxN.Idle n (FxN.setIbs k n e)
  | 0 => FxOver.setIbs_idle' _ _ k (fun _ _ => trivial)
  | n + 1 => FxOver.setIbs_idle' _ _ k (FxN.setIbs_idle k n)

/-- with no command pending, `on_start_processing` of the effect is the identity -/
theorem SysFx.start_idle (n : Nat) (e : SysFx α n) (h : SysFx.Idle e) : SysFx.start e = e := by
  cases e
  simp only [SysFx.start, FxN.start_idle n _ h]

/-- `process` writes no command slot -/
theorem SysFx.step_idle (n : Nat) (e : SysFx α n) (h : SysFx.Idle e) (xs : List (Frame α)) (dt : α) (info : Info α) :
    SysFx.Idle (SysFx.step e xs dt info).1 := by
  unfold SysFx.step
  split
  · exact h
  · split
    · rename_i r hr
      exact fxOpsN_presIdle n _ _ _ _ _ h hr
    · exact h

theorem SysFx.setIbs_idle (k n : Nat) (e : SysFx α n) (h : SysFx.Idle e) : SysFx.Idle (SysFx.setIbs k e) :=
  FxN.setIbs_idle k n e.fx h

end idle

/-! ## non-vacuity: builder-made effects with fixed parameter values satisfy the invariant after `init` -/

/-- as the builders leave an effect whose parameters are fixed values: parameters at rest, no latched panic in a
    feedback chain, recursively (nothing is asked of buffers: `init` allocates them) -/
def FxOver.Rest {φ : Type} (Q : φ → Prop) : FxOver ℝ φ → Prop
  | .base b => b.AtRest
  | .delay d => d.feedback.stagnant = true ∧ d.mix.stagnant = true ∧ d.fx.2 = none ∧ ∀ e ∈ d.fx.1, Q e

def FxN.Rest : (n : Nat) → FxN ℝ n → Prop
  | 0 => FxOver.Rest (fun _ => True)
  | n + 1 => FxOver.Rest (FxN.Rest n)

theorem BaseFx.init_inv (b : BaseFx ℝ) (h : b.AtRest) (sr ibs : Nat) (hsr : 196 ≤ sr) : (b.init sr ibs).Inv := by
  cases b with
  | filter s => exact ⟨h, trivial⟩
  | eq s => exact ⟨h, trivial⟩
  | dist s => exact ⟨h, trivial⟩
  | comp s => exact ⟨h, trivial⟩
  | vol s => exact ⟨h, trivial⟩
  | pan s => exact ⟨h, trivial⟩
  | reverb s => exact ⟨h, C13_reverb_init_wellformed s sr hsr⟩

theorem FxOver.init_inv' {φ : Type} (o : FxOps ℝ φ) (Q R : φ → Prop) (sr ibs : Nat) (hsr : 196 ≤ sr)
    (ho : ∀ e, R e → Q (o.init e sr ibs)) (e : FxOver ℝ φ) (h : FxOver.Rest R e) :
    FxOver.Inv Q ibs (FxOver.init o e sr ibs) := by
  cases e with
  | base b => exact BaseFx.init_inv b h sr ibs hsr
  | delay d =>
    obtain ⟨hfb, hmx, hn, hq⟩ := h
    refine ⟨hfb, hmx, ?_, le_refl ibs, hn, ?_⟩
    · simp only [Delay.init, List.length_replicate, Delay.frames]
      exact Nat.le_max_right _ _
    · intro a ha
      simp only [Delay.init, chainOf] at ha
      obtain ⟨a0, ha0, rfl⟩ := List.mem_map.mp ha
      exact ho a0 (hq a0 ha0)

theorem FxN.init_inv (sr ibs : Nat) (hsr : 196 ≤ sr) :
    ∀ (n : Nat) (e : FxN ℝ n), FxN.Rest n e → FxN.Inv ibs n ((fxOpsN n).init e sr ibs)
  | 0 => FxOver.init_inv' emptyFxOps _ _ sr ibs hsr (fun _ _ => trivial)
  | n + 1 => FxOver.init_inv' (fxOpsN n) _ _ sr ibs hsr (FxN.init_inv sr ibs hsr n)

/-- **a builder-made effect (parameters on fixed values, any nesting) satisfies the invariant after `init`** at a
    sample rate of at least 196 Hz (below, the reverb's shortest line is empty: `C13_reverb_low_rate_faults`),
    with `B` = the internal buffer size -/
theorem SysFx.init_inv (n sr ibs : Nat) (hsr : 196 ≤ sr) (e : SysFx ℝ n) (hf : e.fault = none)
    (hr : FxN.Rest n e.fx) : SysFx.Inv ibs (SysFx.init sr ibs e) :=
  ⟨hf, FxN.init_inv sr ibs hsr n e.fx hr⟩

/-- … and no command is pending in it -/
theorem SysFx.init_idle {α : Type} [Add α] [Sub α] [Mul α] [Div α] [Neg α] [LT α] [LE α]
    [DecidableLT α] [DecidableLE α] [OfScientific α] [KOps α] :
    ∀ (n sr ibs : Nat) (e : SysFx α n), SysFx.Idle e → SysFx.Idle (SysFx.init sr ibs e) := by
  have base : ∀ (b : BaseFx α) (sr ibs : Nat), b.Idle → (b.init sr ibs).Idle := by
    intro b sr ibs h
    cases b <;> exact h
  have over : ∀ {φ : Type} (o : FxOps α φ) (Q : φ → Prop) (sr ibs : Nat) (_ : ∀ e, Q e → Q (o.init e sr ibs))
      (e : FxOver α φ), FxOver.Idle Q e → FxOver.Idle Q (FxOver.init o e sr ibs) := by
    intro φ o Q sr ibs ho e h
    cases e with
    | base b => exact base b sr ibs h
    | delay d =>
      obtain ⟨h1, h2, h3⟩ := h
      refine ⟨h1, h2, ?_⟩
      intro a ha
      simp only [Delay.init, chainOf] at ha
      obtain ⟨a0, ha0, rfl⟩ := List.mem_map.mp ha
      exact ho a0 (h3 a0 ha0)
  have all : ∀ (sr ibs n : Nat) (e : FxN α n), FxN.Idle n e → FxN.Idle n ((fxOpsN n).init e sr ibs) := by
    intro sr ibs n
    induction n with
    | zero => exact over emptyFxOps _ sr ibs (fun _ _ => trivial)
    | succ n ih => exact over (fxOpsN n) _ sr ibs ih
  intro n sr ibs e h
  exact all sr ibs n e.fx h

/-- a filter -/
example (id sr ibs : Nat) (hsr : 196 ≤ sr) :
    SysFx.Inv ibs (SysFx.init sr ibs
      (⟨id, (FxOver.base (.filter (Filter.new .lowPass (.fixed 1000) (.fixed 0) (.fixed 1))) : FxOver ℝ Empty), none⟩
        : SysFx ℝ 0)) := by
  apply SysFx.init_inv 0 sr ibs hsr _ rfl
  simp [FxN.Rest, FxOver.Rest, BaseFx.AtRest, Filter.Stagnant, Parameter.Stagnant, Filter.new, Parameter.new,
    Value.isFixed]

/-- a reverb -/
example (id sr ibs : Nat) (hsr : 196 ≤ sr) :
    SysFx.Inv ibs (SysFx.init sr ibs
      (⟨id, (FxOver.base (.reverb (Reverb.new (.fixed (9 / 10)) (.fixed (1 / 10)) (.fixed 1) (.fixed (1 / 2))))
          : FxOver ℝ Empty), none⟩ : SysFx ℝ 0)) := by
  apply SysFx.init_inv 0 sr ibs hsr _ rfl
  simp [FxN.Rest, FxOver.Rest, BaseFx.AtRest, Reverb.Stagnant, Reverb.new, Parameter.new, Value.isFixed]

/-- a delay without feedback effects -/
example (id sr ibs : Nat) (hsr : 196 ≤ sr) :
    SysFx.Inv ibs (SysFx.init sr ibs
      (⟨id, (FxOver.delay (Delay.new 250000000 (.fixed (-6)) (.fixed (1 / 2)) (([] : List Empty), none))
          : FxOver ℝ Empty), none⟩ : SysFx ℝ 0)) := by
  apply SysFx.init_inv 0 sr ibs hsr _ rfl
  simp [FxN.Rest, FxOver.Rest, Delay.new, Parameter.new, Value.isFixed]

/-- a delay with a filter and a reverb in its feedback chain (depth 1) -/
example (id sr ibs : Nat) (hsr : 196 ≤ sr) :
    SysFx.Inv ibs (SysFx.init sr ibs
      (⟨id, (FxOver.delay (Delay.new 250000000 (.fixed (-6)) (.fixed (1 / 2))
          ([FxOver.base (.filter (Filter.new .lowPass (.fixed 1000) (.fixed 0) (.fixed 1))),
            FxOver.base (.reverb (Reverb.new (.fixed (9 / 10)) (.fixed (1 / 10)) (.fixed 1) (.fixed (1 / 2))))], none))
          : FxOver ℝ (FxOver ℝ Empty)), none⟩ : SysFx ℝ 1)) := by
  apply SysFx.init_inv 1 sr ibs hsr _ rfl
  refine ⟨rfl, rfl, rfl, ?_⟩
  intro e he
  rcases List.mem_cons.mp he with rfl | he
  · exact ⟨rfl, rfl, rfl⟩
  · rcases List.mem_cons.mp he with rfl | he
    · exact ⟨rfl, rfl, rfl, rfl⟩
    · cases he

/-- … in which no command is pending -/
example (id sr ibs : Nat) :
    SysFx.Idle (SysFx.init sr ibs
      (⟨id, (FxOver.delay (Delay.new 250000000 (.fixed (-6)) (.fixed (1 / 2))
          ([FxOver.base (.filter (Filter.new .lowPass (.fixed 1000) (.fixed 0) (.fixed 1)))], none))
          : FxOver ℝ (FxOver ℝ Empty)), none⟩ : SysFx ℝ 1)) := by
  apply SysFx.init_idle
  refine ⟨rfl, rfl, ?_⟩
  intro e he
  rcases List.mem_cons.mp he with rfl | he
  · exact ⟨rfl, rfl, rfl, rfl⟩
  · cases he

end K
