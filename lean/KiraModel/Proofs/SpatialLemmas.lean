/-
  Helper lemmas for C15: the spatial model over ℝ (ideal vector algebra).
-/
import KiraModel.Proofs.RealOps
import KiraModel.Proofs.ClockTimeLemmas
import KiraModel.Proofs.EasingLemmas
import KiraModel.Props.C19
import KiraModel.Model.Spatial
import Mathlib.Tactic.Linarith
import Mathlib.Tactic.Ring
import Mathlib.Tactic.NormNum
import Mathlib.Tactic.Positivity
import Mathlib.Tactic.FieldSimp
import Mathlib.Tactic.LinearCombination

namespace K

/-! ### literals -/
@[simp] theorem lit_8 : (8.0 : ℝ) = 8 := by norm_num
@[simp] theorem lit_tenth : (0.1 : ℝ) = 1 / 10 := by norm_num
@[simp] theorem lit32_real (x : ℝ) : lit32 x = x := rfl
@[simp] theorem pi32_real : (pi32 : ℝ) = Real.pi := rfl

/-! ### `Vec3` over ℝ -/
namespace Vec3

@[ext] theorem ext' {a b : Vec3 ℝ} (hx : a.x = b.x) (hy : a.y = b.y) (hz : a.z = b.z) : a = b := by
  cases a; cases b; simp_all

@[simp] theorem zero_x : (zero : Vec3 ℝ).x = 0 := by simp [zero]
@[simp] theorem zero_y : (zero : Vec3 ℝ).y = 0 := by simp [zero]
@[simp] theorem zero_z : (zero : Vec3 ℝ).z = 0 := by simp [zero]
@[simp] theorem posX_x : (posX : Vec3 ℝ).x = 1 := by simp [posX]
@[simp] theorem posX_y : (posX : Vec3 ℝ).y = 0 := by simp [posX]
@[simp] theorem posX_z : (posX : Vec3 ℝ).z = 0 := by simp [posX]
@[simp] theorem negX_x : (negX : Vec3 ℝ).x = -1 := by simp [negX]
@[simp] theorem negX_y : (negX : Vec3 ℝ).y = 0 := by simp [negX]
@[simp] theorem negX_z : (negX : Vec3 ℝ).z = 0 := by simp [negX]
@[simp] theorem add_x (a b : Vec3 ℝ) : (add a b).x = a.x + b.x := rfl
@[simp] theorem add_y (a b : Vec3 ℝ) : (add a b).y = a.y + b.y := rfl
@[simp] theorem add_z (a b : Vec3 ℝ) : (add a b).z = a.z + b.z := rfl
@[simp] theorem sub_x (a b : Vec3 ℝ) : (sub a b).x = a.x - b.x := rfl
@[simp] theorem sub_y (a b : Vec3 ℝ) : (sub a b).y = a.y - b.y := rfl
@[simp] theorem sub_z (a b : Vec3 ℝ) : (sub a b).z = a.z - b.z := rfl
@[simp] theorem scale_x (a : Vec3 ℝ) (k : ℝ) : (scale a k).x = a.x * k := rfl
@[simp] theorem scale_y (a : Vec3 ℝ) (k : ℝ) : (scale a k).y = a.y * k := rfl
@[simp] theorem scale_z (a : Vec3 ℝ) (k : ℝ) : (scale a k).z = a.z * k := rfl

theorem dot_real (a b : Vec3 ℝ) : dot a b = a.x * b.x + a.y * b.y + a.z * b.z := rfl

theorem dot_self_nonneg (a : Vec3 ℝ) : 0 ≤ dot a a := by
  rw [dot_real]; nlinarith [mul_self_nonneg a.x, mul_self_nonneg a.y, mul_self_nonneg a.z]

theorem length_real (a : Vec3 ℝ) : length a = Real.sqrt (dot a a) := rfl

/-- the distance of the model is the Euclidean distance -/
theorem distance_real (a b : Vec3 ℝ) :
    distance a b = Real.sqrt ((a.x - b.x) ^ 2 + (a.y - b.y) ^ 2 + (a.z - b.z) ^ 2) := by
  unfold distance; rw [length_real, dot_real]; simp only [sub_x, sub_y, sub_z]; congr 1; ring

/-- Cauchy–Schwarz in ℝ³ (Lagrange's identity) -/
theorem dot_sq_le (a b : Vec3 ℝ) : (dot a b) ^ 2 ≤ dot a a * dot b b := by
  simp only [dot_real]
  nlinarith [sq_nonneg (a.x * b.y - a.y * b.x), sq_nonneg (a.y * b.z - a.z * b.y),
    sq_nonneg (a.z * b.x - a.x * b.z)]

end Vec3

/-- `dir · normalize_or_zero(v)` in terms of `n = dir · v` and `q = v · v` -/
noncomputable def vol (n q : ℝ) : ℝ := if 0 < q then n / Real.sqrt q else 0

theorem dot_normalizeOrZero (d v : Vec3 ℝ) :
    Vec3.dot d (Vec3.normalizeOrZero v) = vol (Vec3.dot d v) (Vec3.dot v v) := by
  unfold Vec3.normalizeOrZero Vec3.lengthRecip vol
  simp only [isFinite_real, Bool.true_and, lit_0, lit_1, r32_real, Vec3.length_real]
  by_cases hq : 0 < Vec3.dot v v
  · have hs : 0 < Real.sqrt (Vec3.dot v v) := Real.sqrt_pos.mpr hq
    have : 0 < 1 / Real.sqrt (Vec3.dot v v) := by positivity
    simp only [this, decide_true, if_true, hq]
    simp only [Vec3.dot_real, Vec3.scale_x, Vec3.scale_y, Vec3.scale_z]
    field_simp
  · have h0 : Vec3.dot v v = 0 := le_antisymm (not_lt.mp hq) (Vec3.dot_self_nonneg v)
    have : ¬ (0 : ℝ) < 1 / Real.sqrt (Vec3.dot v v) := by rw [h0]; simp
    simp only [this, decide_false, hq, if_false]
    simp [Vec3.dot_real]

theorem earVolume_real (dir earPos p : Vec3 ℝ) :
    earVolume dir earPos p
      = (vol (Vec3.dot dir (Vec3.sub p earPos)) (Vec3.dot (Vec3.sub p earPos) (Vec3.sub p earPos)) + 1) / 2 := by
  unfold earVolume; rw [dot_normalizeOrZero]; simp

/-- `|vol| ≤ |dir|` (Cauchy–Schwarz): for a unit direction the cosine lies in [−1, 1] -/
theorem vol_abs_le (d v : Vec3 ℝ) (hd : Vec3.dot d d = 1) :
    -1 ≤ vol (Vec3.dot d v) (Vec3.dot v v) ∧ vol (Vec3.dot d v) (Vec3.dot v v) ≤ 1 := by
  unfold vol
  by_cases hq : 0 < Vec3.dot v v
  · simp only [hq, if_true]
    have hs : 0 < Real.sqrt (Vec3.dot v v) := Real.sqrt_pos.mpr hq
    have hcs := Vec3.dot_sq_le d v
    rw [hd, one_mul] at hcs
    have habs : |Vec3.dot d v| ≤ Real.sqrt (Vec3.dot v v) := Real.abs_le_sqrt hcs
    obtain ⟨h1, h2⟩ := abs_le.mp habs
    constructor
    · rw [le_div_iff₀ hs]; linarith
    · rw [div_le_one hs]; exact h2
  · simp only [hq, if_false]; constructor <;> norm_num

/-! ### `Quat` over ℝ -/
namespace Quat

/-- squared norm -/
def normSq (q : Quat ℝ) : ℝ := q.x * q.x + q.y * q.y + q.z * q.z + q.w * q.w

theorem dot4_real (a b : Quat ℝ) : dot4 a b = a.x * b.x + a.z * b.z + (a.y * b.y + a.w * b.w) := rfl

theorem dot4_self (a : Quat ℝ) : dot4 a a = normSq a := by rw [dot4_real]; unfold normSq; ring

theorem normSq_nonneg (q : Quat ℝ) : 0 ≤ normSq q := by
  unfold normSq; nlinarith [mul_self_nonneg q.x, mul_self_nonneg q.y, mul_self_nonneg q.z, mul_self_nonneg q.w]

theorem mulVec3_x (q : Quat ℝ) (v : Vec3 ℝ) : (q.mulVec3 v).x
    = v.x * (q.w * q.w - (q.x * q.x + q.y * q.y + q.z * q.z))
      + q.x * ((v.x * q.x + v.y * q.y + v.z * q.z) * 2) + (q.y * v.z - v.y * q.z) * (q.w * 2) := by
  unfold mulVec3 dot3; simp only [r32_real, lit_2]
theorem mulVec3_y (q : Quat ℝ) (v : Vec3 ℝ) : (q.mulVec3 v).y
    = v.y * (q.w * q.w - (q.x * q.x + q.y * q.y + q.z * q.z))
      + q.y * ((v.x * q.x + v.y * q.y + v.z * q.z) * 2) + (q.z * v.x - v.z * q.x) * (q.w * 2) := by
  unfold mulVec3 dot3; simp only [r32_real, lit_2]
theorem mulVec3_z (q : Quat ℝ) (v : Vec3 ℝ) : (q.mulVec3 v).z
    = v.z * (q.w * q.w - (q.x * q.x + q.y * q.y + q.z * q.z))
      + q.z * ((v.x * q.x + v.y * q.y + v.z * q.z) * 2) + (q.x * v.y - v.x * q.y) * (q.w * 2) := by
  unfold mulVec3 dot3; simp only [r32_real, lit_2]

/-- `q * ·` is linear -/
theorem mulVec3_add (q : Quat ℝ) (u v : Vec3 ℝ) : q.mulVec3 (Vec3.add u v) = Vec3.add (q.mulVec3 u) (q.mulVec3 v) := by
  ext <;> simp only [mulVec3_x, mulVec3_y, mulVec3_z, Vec3.add_x, Vec3.add_y, Vec3.add_z] <;> ring
theorem mulVec3_sub (q : Quat ℝ) (u v : Vec3 ℝ) : q.mulVec3 (Vec3.sub u v) = Vec3.sub (q.mulVec3 u) (q.mulVec3 v) := by
  ext <;> simp only [mulVec3_x, mulVec3_y, mulVec3_z, Vec3.sub_x, Vec3.sub_y, Vec3.sub_z] <;> ring
theorem mulVec3_scale (q : Quat ℝ) (u : Vec3 ℝ) (k : ℝ) : q.mulVec3 (Vec3.scale u k) = Vec3.scale (q.mulVec3 u) k := by
  ext <;> simp only [mulVec3_x, mulVec3_y, mulVec3_z, Vec3.scale_x, Vec3.scale_y, Vec3.scale_z] <;> ring

/-- `q * ·` scales dot products by `|q|⁴` (it is `|q|²` times a rotation) -/
theorem mulVec3_dot (q : Quat ℝ) (u v : Vec3 ℝ) :
    Vec3.dot (q.mulVec3 u) (q.mulVec3 v) = normSq q ^ 2 * Vec3.dot u v := by
  simp only [Vec3.dot_real, mulVec3_x, mulVec3_y, mulVec3_z, normSq]; ring

theorem mulVec3_dot_unit (q : Quat ℝ) (hq : normSq q = 1) (u v : Vec3 ℝ) :
    Vec3.dot (q.mulVec3 u) (q.mulVec3 v) = Vec3.dot u v := by
  rw [mulVec3_dot, hq]; ring

/-- Hamilton product `a ∘ b` (apply `b` first) — vocabulary of the rigid-motion statement -/
def mulQ (a b : Quat ℝ) : Quat ℝ :=
  ⟨a.w * b.x + a.x * b.w + a.y * b.z - a.z * b.y,
   a.w * b.y - a.x * b.z + a.y * b.w + a.z * b.x,
   a.w * b.z + a.x * b.y - a.y * b.x + a.z * b.w,
   a.w * b.w - a.x * b.x - a.y * b.y - a.z * b.z⟩

theorem mulQ_mulVec3 (a b : Quat ℝ) (v : Vec3 ℝ) : (mulQ a b).mulVec3 v = a.mulVec3 (b.mulVec3 v) := by
  ext <;> simp only [mulVec3_x, mulVec3_y, mulVec3_z, mulQ] <;> ring

theorem normSq_mulQ (a b : Quat ℝ) : normSq (mulQ a b) = normSq a * normSq b := by
  unfold normSq mulQ; ring

end Quat

/-! ### ear geometry over ℝ -/

theorem earAngle_real : (earAngle : ℝ) = Real.pi / 8 := by
  unfold earAngle; simp

theorem earDistance_real : (earDistance : ℝ) = 1 / 10 := by
  unfold earDistance; simp

/-- the two ear directions relative to the head: `(∓cos(π/8), 0, −sin(π/8))` — left and right of
    the nose and slightly forward (−z is forward) -/
theorem earDirLocal_real :
    (earDirLocal (α := ℝ)) = (⟨-Real.cos (Real.pi / 8), 0, -Real.sin (Real.pi / 8)⟩,
                               ⟨Real.cos (Real.pi / 8), 0, -Real.sin (Real.pi / 8)⟩) := by
  have e : Real.pi / 8 = 2 * (Real.pi / 8 * (1 / 2)) := by ring
  have hc : Real.cos (Real.pi / 8) = Real.cos (Real.pi / 8 * (1 / 2)) ^ 2 - Real.sin (Real.pi / 8 * (1 / 2)) ^ 2 := by
    conv_lhs => rw [e]
    rw [Real.cos_two_mul]
    have := Real.cos_sq_add_sin_sq (Real.pi / 8 * (1 / 2))
    linarith
  have hs : Real.sin (Real.pi / 8) = 2 * Real.sin (Real.pi / 8 * (1 / 2)) * Real.cos (Real.pi / 8 * (1 / 2)) := by
    conv_lhs => rw [e]
    rw [Real.sin_two_mul]
  unfold earDirLocal
  rw [earAngle_real]
  refine Prod.ext ?_ ?_
  · ext <;> simp only [Quat.mulVec3_x, Quat.mulVec3_y, Quat.mulVec3_z, Quat.fromRotationY, r32_real,
      lit_0, lit_half, sin32_real, cos32_real, Vec3.negX_x, Vec3.negX_y, Vec3.negX_z]
    · rw [hc, show -(Real.pi / 8) * (1 / 2) = -(Real.pi / 8 * (1 / 2)) by ring, Real.sin_neg, Real.cos_neg]; ring
    · ring
    · rw [hs, show -(Real.pi / 8) * (1 / 2) = -(Real.pi / 8 * (1 / 2)) by ring, Real.sin_neg, Real.cos_neg]; ring
  · ext <;> simp only [Quat.mulVec3_x, Quat.mulVec3_y, Quat.mulVec3_z, Quat.fromRotationY, r32_real,
      lit_0, lit_half, sin32_real, cos32_real, Vec3.posX_x, Vec3.posX_y, Vec3.posX_z]
    · rw [hc]; ring
    · ring
    · rw [hs]; ring

end K

namespace K

/-! ### attenuation over ℝ -/

/-- `relative_distance` over ℝ: the clamped distance's place in `[min, max]` when `min < max`, a step at
    `min` otherwise -/
theorem relativeDistance_real (minD maxD d : ℝ) :
    relativeDistance minD maxD d
      = if minD < maxD then (clamp d minD maxD - minD) / (maxD - minD) else if d < minD then 0 else 1 := by
  unfold relativeDistance
  simp only [r32_real, lit_0, lit_1]

/-- the decibel value the attenuation stage interpolates to -/
noncomputable def attDb (e : Easing ℝ) (minD maxD d : ℝ) : ℝ :=
  -60 + 60 * e.apply (1 - relativeDistance minD maxD d)

theorem attenuation_real (e : Easing ℝ) (minD maxD d : ℝ) :
    attenuation e minD maxD d = asAmplitude (attDb e minD maxD d) := by
  unfold attenuation attDb lerp32 silenceDb
  simp only [r32_real, lit_0, lit_1, lit_60]
  congr 1; ring

/-- the relative distance lies in [0, 1], for every pair of distances -/
theorem relativeDistance_mem (minD maxD d : ℝ) :
    0 ≤ relativeDistance minD maxD d ∧ relativeDistance minD maxD d ≤ 1 := by
  rw [relativeDistance_real]
  split
  · next h =>
    have hd : 0 < maxD - minD := by linarith
    obtain ⟨c1, c2⟩ := clamp_mem d minD maxD h.le
    exact ⟨div_nonneg (by linarith) hd.le, by rw [div_le_one hd]; linarith⟩
  · split <;> norm_num

/-- the eased argument `1 − relative_distance` lies in [0, 1] -/
theorem relArg_mem (minD maxD d : ℝ) :
    0 ≤ 1 - relativeDistance minD maxD d ∧ 1 - relativeDistance minD maxD d ≤ 1 := by
  obtain ⟨h0, h1⟩ := relativeDistance_mem minD maxD d
  constructor <;> linarith

theorem clamp_mono (minD maxD d1 d2 : ℝ) (h : minD ≤ maxD) (h12 : d1 ≤ d2) :
    clamp d1 minD maxD ≤ clamp d2 minD maxD := by
  rw [clamp_real _ _ _ h, clamp_real _ _ _ h]
  exact max_le_max le_rfl (min_le_min h12 le_rfl)

/-- the relative distance is non-decreasing in the distance, for every pair of distances -/
theorem relativeDistance_mono (minD maxD d1 d2 : ℝ) (h12 : d1 ≤ d2) :
    relativeDistance minD maxD d1 ≤ relativeDistance minD maxD d2 := by
  rw [relativeDistance_real, relativeDistance_real]
  split
  · next h =>
    have hd : 0 < maxD - minD := by linarith
    have hc := clamp_mono minD maxD d1 d2 h.le h12
    exact div_le_div_of_nonneg_right (by linarith) hd.le
  · by_cases h1 : d1 < minD
    · by_cases h2 : d2 < minD <;> simp only [h1, h2, if_true, if_false] <;> norm_num
    · have h2 : ¬ d2 < minD := fun h => h1 (lt_of_le_of_lt h12 h)
      simp only [h1, h2, if_false]; norm_num

/-- below the minimum the relative distance is 0 (any pair of distances); at the minimum too when
    `min < max` -/
theorem relativeDistance_below (minD maxD d : ℝ) (h : d < minD ∨ (minD < maxD ∧ d ≤ minD)) :
    relativeDistance minD maxD d = 0 := by
  rw [relativeDistance_real]
  split
  · next hmm =>
    have hdm : d ≤ minD := by rcases h with h | h; exact h.le; exact h.2
    have hc : clamp d minD maxD = minD := by
      rw [clamp_real _ _ _ hmm.le, min_eq_left (by linarith), max_eq_left hdm]
    rw [hc, sub_self, zero_div]
  · next hmm =>
    rcases h with h | h
    · simp [h]
    · exact absurd h.1 hmm

/-- at or beyond both the minimum and the maximum the relative distance is 1 -/
theorem relativeDistance_beyond (minD maxD d : ℝ) (h1 : minD ≤ d) (h2 : maxD ≤ d) :
    relativeDistance minD maxD d = 1 := by
  rw [relativeDistance_real]
  split
  · next hmm =>
    have hc : clamp d minD maxD = maxD := by
      rw [clamp_real _ _ _ hmm.le, min_eq_right h2, max_eq_right hmm.le]
    rw [hc, div_self]; linarith
  · simp [not_lt.mpr h1]

/-! ### ear gains over ℝ -/

theorem earGain_real (m v : ℝ) : earGain m v = m + (1 - m) * v := by
  unfold earGain; simp

theorem earVolume_range (dir earPos p : Vec3 ℝ) (hd : Vec3.dot dir dir = 1) :
    0 ≤ earVolume dir earPos p ∧ earVolume dir earPos p ≤ 1 := by
  rw [earVolume_real]
  obtain ⟨h1, h2⟩ := vol_abs_le dir (Vec3.sub p earPos) hd
  constructor <;> linarith

theorem earVolume_congr (d d' e e' p p' : Vec3 ℝ)
    (h1 : Vec3.dot d' (Vec3.sub p' e') = Vec3.dot d (Vec3.sub p e))
    (h2 : Vec3.dot (Vec3.sub p' e') (Vec3.sub p' e') = Vec3.dot (Vec3.sub p e) (Vec3.sub p e)) :
    earVolume d' e' p' = earVolume d e p := by
  rw [earVolume_real, earVolume_real, h1, h2]

/-- the listener's right-pointing and backward-pointing axes in world space -/
noncomputable def axisX (lo : Quat ℝ) : Vec3 ℝ := lo.mulVec3 Vec3.posX
noncomputable def axisZ (lo : Quat ℝ) : Vec3 ℝ := lo.mulVec3 ⟨0, 0, 1⟩

theorem axisX_unit (lo : Quat ℝ) (h : Quat.normSq lo = 1) : Vec3.dot (axisX lo) (axisX lo) = 1 := by
  unfold axisX; rw [Quat.mulVec3_dot_unit lo h]; simp [Vec3.dot_real]
theorem axisZ_unit (lo : Quat ℝ) (h : Quat.normSq lo = 1) : Vec3.dot (axisZ lo) (axisZ lo) = 1 := by
  unfold axisZ; rw [Quat.mulVec3_dot_unit lo h]; simp [Vec3.dot_real]
theorem axisZ_axisX (lo : Quat ℝ) (h : Quat.normSq lo = 1) : Vec3.dot (axisZ lo) (axisX lo) = 0 := by
  unfold axisZ axisX; rw [Quat.mulVec3_dot_unit lo h]; simp [Vec3.dot_real]

/-- `cos(π/8)`, `sin(π/8)` -/
noncomputable def cA : ℝ := Real.cos (Real.pi / 8)
noncomputable def cB : ℝ := Real.sin (Real.pi / 8)
theorem cA_sq_add_cB_sq : cA ^ 2 + cB ^ 2 = 1 := Real.cos_sq_add_sin_sq _
theorem cB_nonneg : 0 ≤ cB := Real.sin_nonneg_of_nonneg_of_le_pi (by positivity) (by linarith [Real.pi_pos])
theorem cA_ge_half : 1 / 2 ≤ cA := by
  unfold cA
  rw [← Real.cos_pi_div_three]
  apply Real.cos_le_cos_of_nonneg_of_le_pi (by positivity) (by linarith [Real.pi_pos]) (by linarith [Real.pi_pos])

theorem earDirections_real (lo : Quat ℝ) :
    earDirections lo = (Vec3.add (Vec3.scale (axisX lo) (-cA)) (Vec3.scale (axisZ lo) (-cB)),
                        Vec3.add (Vec3.scale (axisX lo) cA) (Vec3.scale (axisZ lo) (-cB))) := by
  unfold earDirections; rw [earDirLocal_real]; unfold axisX axisZ cA cB
  refine Prod.ext ?_ ?_ <;> (ext <;> simp [Quat.mulVec3_x, Quat.mulVec3_y, Quat.mulVec3_z] <;> ring)

theorem earPositions_real (lp : Vec3 ℝ) (lo : Quat ℝ) :
    earPositions lp lo = (Vec3.sub lp (Vec3.scale (axisX lo) (1 / 10)), Vec3.add lp (Vec3.scale (axisX lo) (1 / 10))) := by
  unfold earPositions axisX; rw [earDistance_real]
  refine Prod.ext ?_ ?_ <;> (ext <;> simp [Quat.mulVec3_x, Quat.mulVec3_y, Quat.mulVec3_z] <;> ring)

/-- both ear directions are unit vectors when the orientation is a unit quaternion -/
theorem earDirections_unit (lo : Quat ℝ) (h : Quat.normSq lo = 1) :
    Vec3.dot (earDirections lo).1 (earDirections lo).1 = 1 ∧ Vec3.dot (earDirections lo).2 (earDirections lo).2 = 1 := by
  rw [earDirections_real]
  have hx := axisX_unit lo h
  have hz := axisZ_unit lo h
  have hzx := axisZ_axisX lo h
  have hab := cA_sq_add_cB_sq
  simp only [Vec3.dot_real, Vec3.add_x, Vec3.add_y, Vec3.add_z, Vec3.scale_x, Vec3.scale_y, Vec3.scale_z] at *
  constructor
  · linear_combination (cA ^ 2) * hx + (cB ^ 2) * hz + (2 * cA * cB) * hzx + hab
  · linear_combination (cA ^ 2) * hx + (cB ^ 2) * hz + (-2 * cA * cB) * hzx + hab

end K

namespace K

/-! ### mirror and rigid motion -/

/-- the four (dot, squared length) pairs of a mirrored emitter, for abstract axes `n ⟂ f`, `|n| = 1`:
    `w` is emitter − listener, the mirrored `w' = w − 2(w·n)n`; the right ear sees `w'` as the
    left ear sees `w`, and vice versa. -/
theorem mirror_core (n f w : Vec3 ℝ) (A B e : ℝ) (hn : Vec3.dot n n = 1) (hfn : Vec3.dot f n = 0) :
    let w' := Vec3.sub w (Vec3.scale n (2 * Vec3.dot w n))
    let dL := Vec3.add (Vec3.scale n (-A)) (Vec3.scale f (-B))
    let dR := Vec3.add (Vec3.scale n A) (Vec3.scale f (-B))
    Vec3.dot dR (Vec3.sub w' (Vec3.scale n e)) = Vec3.dot dL (Vec3.add w (Vec3.scale n e))
    ∧ Vec3.dot (Vec3.sub w' (Vec3.scale n e)) (Vec3.sub w' (Vec3.scale n e))
        = Vec3.dot (Vec3.add w (Vec3.scale n e)) (Vec3.add w (Vec3.scale n e))
    ∧ Vec3.dot dL (Vec3.add w' (Vec3.scale n e)) = Vec3.dot dR (Vec3.sub w (Vec3.scale n e))
    ∧ Vec3.dot (Vec3.add w' (Vec3.scale n e)) (Vec3.add w' (Vec3.scale n e))
        = Vec3.dot (Vec3.sub w (Vec3.scale n e)) (Vec3.sub w (Vec3.scale n e))
    ∧ Vec3.dot w' w' = Vec3.dot w w := by
  simp only [Vec3.dot_real, Vec3.add_x, Vec3.add_y, Vec3.add_z, Vec3.sub_x, Vec3.sub_y, Vec3.sub_z,
    Vec3.scale_x, Vec3.scale_y, Vec3.scale_z] at *
  set wn := w.x * n.x + w.y * n.y + w.z * n.z with hwn
  refine ⟨?_, ?_, ?_, ?_, ?_⟩
  · linear_combination (-2 * A * wn) * hn + (2 * B * wn + 2 * B * e) * hfn
  · linear_combination (4 * wn ^ 2 + 4 * e * wn) * hn
  · linear_combination (2 * A * wn) * hn + (2 * B * wn - 2 * B * e) * hfn
  · linear_combination (4 * wn ^ 2 - 4 * e * wn) * hn
  · linear_combination (4 * wn ^ 2) * hn

end K

namespace K

/-! ### the interpolated orientation is a unit quaternion -/

theorem Quat.lerp_normSq (a e : Quat ℝ) (t : ℝ) (ha : Quat.normSq a ≠ 0) (he : Quat.normSq e ≠ 0)
    (ht0 : 0 ≤ t) (ht1 : t ≤ 1) :
    let d := Quat.dot4 a e
    let e' := if signNeg d then Quat.neg e else e
    let mixed := Quat.add (Quat.scale a (KOps.r32 ((1.0 : ℝ) - t))) (Quat.scale e' t)
    0 < Quat.normSq mixed ∧ Quat.normSq (Quat.lerp a e t) = 1 := by
  intro d e' mixed
  have hNa : 0 < Quat.normSq a := lt_of_le_of_ne (Quat.normSq_nonneg a) (Ne.symm ha)
  have hNe : 0 < Quat.normSq e := lt_of_le_of_ne (Quat.normSq_nonneg e) (Ne.symm he)
  have hNe' : Quat.normSq e' = Quat.normSq e := by
    simp only [e']; split
    · unfold Quat.normSq Quat.neg; ring
    · rfl
  have hd' : 0 ≤ Quat.dot4 a e' := by
    simp only [e', ClockTime.signNeg_real]
    by_cases h : d < 0
    · simp only [h, decide_true, if_true]
      have : Quat.dot4 a (Quat.neg e) = -d := by simp only [d, Quat.dot4_real, Quat.neg]; ring
      rw [this]; linarith
    · simp only [h, decide_false]; exact not_lt.mp h
  have hmix : Quat.normSq mixed
      = (1 - t) ^ 2 * Quat.normSq a + t ^ 2 * Quat.normSq e' + 2 * t * (1 - t) * Quat.dot4 a e' := by
    simp only [mixed, Quat.normSq, Quat.add, Quat.scale, Quat.dot4_real, r32_real, lit_1]; ring
  have hpos : 0 < Quat.normSq mixed := by
    rw [hmix, hNe']
    have h1 : 0 ≤ 2 * t * (1 - t) * Quat.dot4 a e' :=
      mul_nonneg (mul_nonneg (by linarith) (by linarith)) hd'
    rcases eq_or_lt_of_le ht0 with h0 | h0
    · rw [← h0]; nlinarith
    · nlinarith [mul_pos (mul_pos h0 h0) hNe, mul_nonneg (sq_nonneg (1 - t)) hNa.le]
  refine ⟨hpos, ?_⟩
  have hl : Quat.lerp a e t = Quat.normalize mixed := rfl
  rw [hl]
  unfold Quat.normalize
  simp only [r32_real, sqrt_real, Quat.dot4_self]
  have hs : 0 < Real.sqrt (Quat.normSq mixed) := Real.sqrt_pos.mpr hpos
  have hss : Real.sqrt (Quat.normSq mixed) * Real.sqrt (Quat.normSq mixed) = Quat.normSq mixed :=
    Real.mul_self_sqrt hpos.le
  have : Quat.normSq (⟨mixed.x / Real.sqrt (Quat.normSq mixed), mixed.y / Real.sqrt (Quat.normSq mixed),
      mixed.z / Real.sqrt (Quat.normSq mixed), mixed.w / Real.sqrt (Quat.normSq mixed)⟩ : Quat ℝ)
      = Quat.normSq mixed / (Real.sqrt (Quat.normSq mixed) * Real.sqrt (Quat.normSq mixed)) := by
    unfold Quat.normSq; field_simp
  rw [this, hss, div_self (ne_of_gt hpos)]

end K

namespace K

/-! ### `rotation_or_identity`: what reaches the interpolation is never the zero quaternion -/

theorem minPositive32_pos : (0 : ℝ) < (minPositive32 : ℝ) := by
  unfold minPositive32; norm_num

theorem Quat.normSq_identity : Quat.normSq (Quat.identity : Quat ℝ) = 1 := by
  simp [Quat.normSq, Quat.identity]

/-- over ℝ: a quaternion of squared length at least 2⁻¹²⁶ is kept, any other is the identity -/
theorem Quat.rotationOrIdentity_real (q : Quat ℝ) :
    Quat.rotationOrIdentity q = if (minPositive32 : ℝ) ≤ Quat.normSq q then q else Quat.identity := by
  unfold Quat.rotationOrIdentity isNormal32 Quat.lengthSquared
  simp only [isFinite_real, Bool.true_and, abs_real, Quat.dot4_self, abs_of_nonneg (Quat.normSq_nonneg q),
    decide_eq_true_eq]

/-- the zero quaternion counts as the identity -/
theorem Quat.rotationOrIdentity_zero : Quat.rotationOrIdentity (⟨0, 0, 0, 0⟩ : Quat ℝ) = Quat.identity := by
  rw [Quat.rotationOrIdentity_real]
  have : Quat.normSq (⟨0, 0, 0, 0⟩ : Quat ℝ) = 0 := by simp [Quat.normSq]
  rw [this, if_neg (not_le.mpr minPositive32_pos)]

/-- a unit quaternion (any quaternion of squared length ≥ 2⁻¹²⁶) is left alone -/
theorem Quat.rotationOrIdentity_unit (q : Quat ℝ) (h : Quat.normSq q = 1) : Quat.rotationOrIdentity q = q := by
  rw [Quat.rotationOrIdentity_real, h, if_pos]
  unfold minPositive32; norm_num

/-- whatever the caller supplied, the result has non-zero length -/
theorem Quat.rotationOrIdentity_ne_zero (q : Quat ℝ) : Quat.normSq (Quat.rotationOrIdentity q) ≠ 0 := by
  rw [Quat.rotationOrIdentity_real]
  split
  · next h => exact ne_of_gt (lt_of_lt_of_le minPositive32_pos h)
  · rw [Quat.normSq_identity]; norm_num

end K

namespace K

/-- the quantities the two ears see, in the listener's frame (`X = w·n`, `Z = w·f`) -/
theorem ear_dots (n f w : Vec3 ℝ) (A B e : ℝ) (hn : Vec3.dot n n = 1) (hfn : Vec3.dot f n = 0) :
    Vec3.dot (Vec3.add (Vec3.scale n (-A)) (Vec3.scale f (-B))) (Vec3.add w (Vec3.scale n e))
        = -A * Vec3.dot w n - B * Vec3.dot w f - A * e
    ∧ Vec3.dot (Vec3.add (Vec3.scale n A) (Vec3.scale f (-B))) (Vec3.sub w (Vec3.scale n e))
        = A * Vec3.dot w n - B * Vec3.dot w f - A * e
    ∧ Vec3.dot (Vec3.add w (Vec3.scale n e)) (Vec3.add w (Vec3.scale n e))
        = Vec3.dot w w + 2 * e * Vec3.dot w n + e ^ 2
    ∧ Vec3.dot (Vec3.sub w (Vec3.scale n e)) (Vec3.sub w (Vec3.scale n e))
        = Vec3.dot w w - 2 * e * Vec3.dot w n + e ^ 2 := by
  simp only [Vec3.dot_real, Vec3.add_x, Vec3.add_y, Vec3.add_z, Vec3.sub_x, Vec3.sub_y, Vec3.sub_z,
    Vec3.scale_x, Vec3.scale_y, Vec3.scale_z] at *
  refine ⟨?_, ?_, ?_, ?_⟩
  · linear_combination (-A * e) * hn + (-B * e) * hfn
  · linear_combination (-A * e) * hn + (B * e) * hfn
  · linear_combination (e ^ 2) * hn
  · linear_combination (e ^ 2) * hn

/-- Bessel's inequality for two orthonormal axes -/
theorem bessel2 (n f w : Vec3 ℝ) (hn : Vec3.dot n n = 1) (hf : Vec3.dot f f = 1) (hfn : Vec3.dot f n = 0) :
    (Vec3.dot w n) ^ 2 + (Vec3.dot w f) ^ 2 ≤ Vec3.dot w w := by
  have h := Vec3.dot_self_nonneg
    (Vec3.sub (Vec3.sub w (Vec3.scale n (Vec3.dot w n))) (Vec3.scale f (Vec3.dot w f)))
  simp only [Vec3.dot_real, Vec3.sub_x, Vec3.sub_y, Vec3.sub_z, Vec3.scale_x, Vec3.scale_y, Vec3.scale_z] at *
  have key : w.x * w.x + w.y * w.y + w.z * w.z - (w.x * n.x + w.y * n.y + w.z * n.z) ^ 2
        - (w.x * f.x + w.y * f.y + w.z * f.z) ^ 2
      = (w.x - n.x * (w.x * n.x + w.y * n.y + w.z * n.z) - f.x * (w.x * f.x + w.y * f.y + w.z * f.z))
          * (w.x - n.x * (w.x * n.x + w.y * n.y + w.z * n.z) - f.x * (w.x * f.x + w.y * f.y + w.z * f.z))
        + (w.y - n.y * (w.x * n.x + w.y * n.y + w.z * n.z) - f.y * (w.x * f.x + w.y * f.y + w.z * f.z))
          * (w.y - n.y * (w.x * n.x + w.y * n.y + w.z * n.z) - f.y * (w.x * f.x + w.y * f.y + w.z * f.z))
        + (w.z - n.z * (w.x * n.x + w.y * n.y + w.z * n.z) - f.z * (w.x * f.x + w.y * f.y + w.z * f.z))
          * (w.z - n.z * (w.x * n.x + w.y * n.y + w.z * n.z) - f.z * (w.x * f.x + w.y * f.y + w.z * f.z)) := by
    linear_combination (-((w.x * n.x + w.y * n.y + w.z * n.z) ^ 2)) * hn
      + (-((w.x * f.x + w.y * f.y + w.z * f.z) ^ 2)) * hf
      + (-2 * (w.x * n.x + w.y * n.y + w.z * n.z) * (w.x * f.x + w.y * f.y + w.z * f.z)) * hfn
  linarith

end K

namespace K

/-- the two ear volumes in the listener's own frame: `X = w·n` (right), `Z = w·f` (back),
    `W = |w|²`, `w` = emitter − listener; unit orientation -/
theorem earVolumes_frame (p lp : Vec3 ℝ) (lo : Quat ℝ) (hq : Quat.normSq lo = 1) :
    earVolumes p lp lo
      = ((vol (-cA * Vec3.dot (Vec3.sub p lp) (axisX lo) - cB * Vec3.dot (Vec3.sub p lp) (axisZ lo) - cA * (1 / 10))
            (Vec3.dot (Vec3.sub p lp) (Vec3.sub p lp) + 2 * (1 / 10) * Vec3.dot (Vec3.sub p lp) (axisX lo) + (1 / 10) ^ 2) + 1) / 2,
         (vol (cA * Vec3.dot (Vec3.sub p lp) (axisX lo) - cB * Vec3.dot (Vec3.sub p lp) (axisZ lo) - cA * (1 / 10))
            (Vec3.dot (Vec3.sub p lp) (Vec3.sub p lp) - 2 * (1 / 10) * Vec3.dot (Vec3.sub p lp) (axisX lo) + (1 / 10) ^ 2) + 1) / 2) := by
  have hn := axisX_unit lo hq
  have hfn := axisZ_axisX lo hq
  set n := axisX lo with hnd
  set f := axisZ lo with hfd
  set w := Vec3.sub p lp with hw
  have eL : Vec3.sub p (earPositions lp lo).1 = Vec3.add w (Vec3.scale n (1 / 10)) := by
    rw [earPositions_real]; ext <;> simp [hnd, hw] <;> ring
  have eR : Vec3.sub p (earPositions lp lo).2 = Vec3.sub w (Vec3.scale n (1 / 10)) := by
    rw [earPositions_real]; ext <;> simp [hnd, hw] <;> ring
  obtain ⟨d1, d2, d3, d4⟩ := ear_dots n f w cA cB (1 / 10) hn hfn
  unfold earVolumes
  refine Prod.ext ?_ ?_
  · show earVolume (earDirections lo).1 (earPositions lp lo).1 p = _
    rw [earVolume_real, eL, earDirections_real, d1, d3]
  · show earVolume (earDirections lo).2 (earPositions lp lo).2 p = _
    rw [earVolume_real, eR, earDirections_real, d2, d4]

theorem cB_ge_quarter : 1 / 4 ≤ cB := by
  unfold cB
  rw [Real.sin_pi_div_eight]
  have h2 : Real.sqrt 2 ≤ 7 / 4 := by
    rw [Real.sqrt_le_iff]; constructor <;> norm_num
  have h3 : (1 / 2 : ℝ) ≤ Real.sqrt (2 - Real.sqrt 2) := by
    apply Real.le_sqrt_of_sq_le; nlinarith
  linarith
theorem cA_le_one : cA ≤ 1 := Real.cos_le_one _

end K

namespace K

/-- `cos²(π/8) ≥ sin²(π/8)` -/
theorem cB_sq_le_cA_sq : cB ^ 2 ≤ cA ^ 2 := by
  have h4 : Real.cos (Real.pi / 4) ≤ cA := by
    unfold cA
    apply Real.cos_le_cos_of_nonneg_of_le_pi (by positivity) (by linarith [Real.pi_pos]) (by linarith [Real.pi_pos])
  rw [Real.cos_pi_div_four] at h4
  have hs : Real.sqrt 2 * Real.sqrt 2 = 2 := Real.mul_self_sqrt (by norm_num)
  have hpos : 0 ≤ Real.sqrt 2 / 2 := by positivity
  have : 1 / 2 ≤ cA ^ 2 := by nlinarith
  have := cA_sq_add_cB_sq
  linarith

/-- the scalar core of "favours the near ear" at full strength: the emitter only has to be outside
    the head (`|w| ≥ e`, the ear distance). -/
theorem favours_core_full (A B e X Z W : ℝ) (hAB : A ^ 2 + B ^ 2 = 1) (hA0 : 0 < A) (hB : 0 ≤ B)
    (hBA : B ^ 2 ≤ A ^ 2) (he : 0 < e) (hX : 0 < X) (hW : X ^ 2 + Z ^ 2 ≤ W) (hfar : e ^ 2 ≤ W) :
    vol (-A * X - B * Z - A * e) (W + 2 * e * X + e ^ 2) ≤ vol (A * X - B * Z - A * e) (W - 2 * e * X + e ^ 2) := by
  have hqL : 0 < W + 2 * e * X + e ^ 2 := by nlinarith [mul_pos he hX, sq_nonneg X, sq_nonneg Z]
  have hqR0 : W - 2 * e * X + e ^ 2 = (W - X ^ 2 - Z ^ 2) + (X - e) ^ 2 + Z ^ 2 := by ring
  by_cases hqR : 0 < W - 2 * e * X + e ^ 2
  · have hlt : W - 2 * e * X + e ^ 2 < W + 2 * e * X + e ^ 2 := by nlinarith [mul_pos he hX]
    unfold vol
    simp only [hqR, hqL, if_true]
    set qR := W - 2 * e * X + e ^ 2 with hqRd
    set qL := W + 2 * e * X + e ^ 2 with hqLd
    set nR := A * X - B * Z - A * e with hnR
    set nL := -A * X - B * Z - A * e with hnL
    have hsR : 0 < Real.sqrt qR := Real.sqrt_pos.mpr hqR
    have hsL : 0 < Real.sqrt qL := Real.sqrt_pos.mpr hqL
    have hsRL : Real.sqrt qR ≤ Real.sqrt qL := Real.sqrt_le_sqrt hlt.le
    have hnLR : nL < nR := by rw [hnL, hnR]; nlinarith [mul_pos hA0 hX]
    rcases le_or_gt 0 nR with hpos | hneg
    · rcases le_or_gt nL 0 with hl | hl
      · exact le_trans (div_nonpos_of_nonpos_of_nonneg hl hsL.le) (div_nonneg hpos hsR.le)
      · calc nL / Real.sqrt qL ≤ nR / Real.sqrt qL := div_le_div_of_nonneg_right hnLR.le hsL.le
          _ ≤ nR / Real.sqrt qR := div_le_div_of_nonneg_left hpos hsR hsRL
    · set u := -nR with hu
      have hupos : 0 < u := by rw [hu]; linarith
      have hY2 : 0 ≤ W - X ^ 2 - Z ^ 2 := by linarith
      have hbr : 0 ≤ A * u * qR + A ^ 2 * X * qR - e * u ^ 2 := by
        rcases le_or_gt 0 Z with hZ | hZ
        · have hid : A * u * qR + A ^ 2 * X * qR - e * u ^ 2
              = A * B * Z * (W - e ^ 2) + A ^ 2 * e * (W - X ^ 2 - Z ^ 2) + (A ^ 2 - B ^ 2) * e * Z ^ 2 := by
            rw [hu, hnR, hqRd]; ring
          rw [hid]
          have t1 : 0 ≤ A * B * Z * (W - e ^ 2) :=
            mul_nonneg (mul_nonneg (mul_nonneg hA0.le hB) hZ) (by linarith)
          have t2 : 0 ≤ A ^ 2 * e * (W - X ^ 2 - Z ^ 2) := mul_nonneg (mul_nonneg (sq_nonneg A) he.le) hY2
          have t3 : 0 ≤ (A ^ 2 - B ^ 2) * e * Z ^ 2 :=
            mul_nonneg (mul_nonneg (by linarith) he.le) (sq_nonneg Z)
          linarith
        · have hid : A * u * qR + A ^ 2 * X * qR - e * u ^ 2
              = (W - X ^ 2 - Z ^ 2) * (A * (A * X + u))
                + (-Z) * (u * B * (e + X) + (-Z) * X + A * (-Z) * u) := by
            rw [hu, hnR, hqRd]; linear_combination (Z ^ 2 * X) * hAB
          rw [hid]
          have hz : 0 < -Z := by linarith
          have t1 : 0 ≤ (W - X ^ 2 - Z ^ 2) * (A * (A * X + u)) :=
            mul_nonneg hY2 (mul_nonneg hA0.le (by nlinarith [mul_pos hA0 hX]))
          have t2 : 0 ≤ (-Z) * (u * B * (e + X) + (-Z) * X + A * (-Z) * u) := by
            apply mul_nonneg hz.le
            have a1 : 0 ≤ u * B * (e + X) := mul_nonneg (mul_nonneg hupos.le hB) (by linarith)
            have a2 : 0 ≤ (-Z) * X := mul_nonneg hz.le hX.le
            have a3 : 0 ≤ A * (-Z) * u := mul_nonneg (mul_nonneg hA0.le hz.le) hupos.le
            linarith
          linarith
      have hpoly : nR ^ 2 * qL ≤ nL ^ 2 * qR := by
        have : nL ^ 2 * qR - nR ^ 2 * qL = 4 * X * (A * u * qR + A ^ 2 * X * qR - e * u ^ 2) := by
          rw [hu, hnL, hnR, hqLd, hqRd]; ring
        nlinarith [mul_nonneg hX.le hbr]
      have hm : (-nR) * Real.sqrt qL ≤ (-nL) * Real.sqrt qR := by
        have hl : 0 ≤ (-nL) * Real.sqrt qR := mul_nonneg (by linarith) hsR.le
        have hsq : ((-nR) * Real.sqrt qL) ^ 2 ≤ ((-nL) * Real.sqrt qR) ^ 2 := by
          have e1 : ((-nR) * Real.sqrt qL) ^ 2 = nR ^ 2 * qL := by
            rw [mul_pow, Real.sq_sqrt hqL.le]; ring
          have e2 : ((-nL) * Real.sqrt qR) ^ 2 = nL ^ 2 * qR := by
            rw [mul_pow, Real.sq_sqrt hqR.le]; ring
          rw [e1, e2]; exact hpoly
        exact (abs_le_of_sq_le_sq' hsq hl).2
      rw [div_le_div_iff₀ hsL hsR]
      linarith
  · -- the emitter sits exactly on the right ear: X = e, Z = 0
    have hsum : (X - e) ^ 2 + Z ^ 2 ≤ 0 := by nlinarith
    have hZ2 : Z ^ 2 ≤ 0 := by nlinarith [sq_nonneg (X - e)]
    have hXe2 : (X - e) ^ 2 ≤ 0 := by nlinarith [sq_nonneg Z]
    have hZ : Z = 0 := pow_eq_zero_iff (n := 2) (by norm_num) |>.mp (le_antisymm hZ2 (sq_nonneg Z))
    have hXe : X - e = 0 := pow_eq_zero_iff (n := 2) (by norm_num) |>.mp (le_antisymm hXe2 (sq_nonneg _))
    unfold vol
    simp only [hqR, hqL, if_true, if_false]
    apply div_nonpos_of_nonpos_of_nonneg _ (Real.sqrt_nonneg _)
    rw [hZ]; nlinarith [mul_pos hA0 hX, mul_pos hA0 he]

end K
