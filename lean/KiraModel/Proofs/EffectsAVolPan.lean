/-
  Helper lemmas: volume_control and panning_control with parameters at rest are a `map`.
-/
import KiraModel.Proofs.EffectsACommon
import KiraModel.Model.Effects.VolumeControl
import KiraModel.Model.Effects.PanningControl

namespace K

namespace VolumeControl

/-- the volume parameter is not tweening and not modulator-linked -/
def Stagnant (s : VolumeControl ℝ) : Prop := s.volume.Stagnant

/-- what `process` leaves behind when the parameter is at rest -/
def settle (s : VolumeControl ℝ) : VolumeControl ℝ :=
  { s with volume := { s.volume with prev := s.volume.raw } }

theorem settle_stagnant (s : VolumeControl ℝ) (h : s.Stagnant) : (settle s).Stagnant := h

theorem settle_idem (s : VolumeControl ℝ) : settle (settle s) = settle s := rfl

/-- with the volume at rest, `process` multiplies every frame by the same amplitude -/
theorem process_stagnant (s : VolumeControl ℝ) (h : s.Stagnant) (xs : List (Frame ℝ)) (dt : ℝ)
    (info : Info ℝ) :
    process s xs dt info = (settle s, xs.map (fun f => f.scale (asAmplitude s.volume.raw))) := by
  unfold process
  simp only [Parameter.settleA tw32 s.volume _ info h]
  apply frameLoop_map
  intro t f
  have hs : Parameter.Settled ({ s.volume with prev := s.volume.raw } : Parameter ℝ ℝ) :=
    Parameter.settle_settled s.volume h
  simp only [body, Parameter.settled_interp32 _ t hs]

end VolumeControl

namespace PanningControl

/-- the panning parameter is not tweening and not modulator-linked -/
def Stagnant (s : PanningControl ℝ) : Prop := s.panning.Stagnant

/-- what `process` leaves behind when the parameter is at rest -/
def settle (s : PanningControl ℝ) : PanningControl ℝ :=
  { s with panning := { s.panning with prev := s.panning.raw } }

theorem settle_stagnant (s : PanningControl ℝ) (h : s.Stagnant) : (settle s).Stagnant := h

/-- with the panning at rest, `process` pans every frame by the same amount -/
theorem process_stagnant (s : PanningControl ℝ) (h : s.Stagnant) (xs : List (Frame ℝ)) (dt : ℝ)
    (info : Info ℝ) :
    process s xs dt info = (settle s, xs.map (fun f => f.panned s.panning.raw)) := by
  unfold process
  simp only [Parameter.settleA tw32 s.panning _ info h]
  apply frameLoop_map
  intro t f
  have hs : Parameter.Settled ({ s.panning with prev := s.panning.raw } : Parameter ℝ ℝ) :=
    Parameter.settle_settled s.panning h
  simp only [body, Parameter.settled_interp32 _ t hs]

end PanningControl

/-- `Frame::panned` over ℝ: the two channel gains (for any panning, centre included) -/
noncomputable def panGainL (p : ℝ) : ℝ :=
  if p = 0 then 1 else Real.sqrt (1 - (clamp p (-1) 1 + 1) * (1 / 2)) * Real.sqrt 2
noncomputable def panGainR (p : ℝ) : ℝ :=
  if p = 0 then 1 else Real.sqrt ((clamp p (-1) 1 + 1) * (1 / 2)) * Real.sqrt 2

theorem panned_gains (f : Frame ℝ) (p : ℝ) :
    f.panned p = ⟨f.left * panGainL p, f.right * panGainR p⟩ := by
  unfold Frame.panned panGainL panGainR
  by_cases hp : p = 0
  · simp [hp]
  · simp only [feq_real, lit_0, lit_1, lit_half, hp, decide_false, Bool.false_eq_true, if_false, r32_real,
      sqrt_real, sqrt2_real]
    ext <;> dsimp only <;> ring

end K
