/-
  C10 — decoder threads always end; decode errors stop the sound and reach the handle (property theorems).
-/
import KiraModel.Proofs.DecThreadLemmas

namespace K

end K
