/-
  C10 — decoder threads always end; decode errors stop the sound and reach the handle.
  Property theorems only.  They are about the labelled transition system of
  Model/Conc/DecoderThread.lean (decoder-thread steps ∥ audio callbacks ∥ handle events ∥ the sound being
  abandoned), whose steps are the functions of Model/StreamingSound.lean that the twin runs, for EVERY decoder
  (no contract is assumed unless said: a decoder may fail at any call), every schedule, over ℝ.

  Two clauses of the property are FALSE of the code and are proved false here with witnesses
  (`C10_thread_never_ends_when_abandoned`, `C10_busy_spin_after_error`); the true parts are the
  `_partial` theorems next to them.  Both are reproduced on the real code by the `decthread` suite.
-/
import KiraModel.Proofs.DecThreadLemmas

namespace K
open Streaming DT
open Dec (Decoder)

/-! ### the thread ends -/

/-- **A Stopped sound's decoder thread ends within 3 of its own atomic steps (≤ 2 loop iterations)**, whatever else
    happens in between: from ANY state in which the sound is Stopped (stopped through the handle, played to its
    end, failed, start time that can never come — however it got there), every schedule that gives the decoder thread
    as many steps as its program counter is away from the loop exit (`rank`: 1 at the loop top, 3 right after a
    failed `run`, 2 between the error push and the flag store) ends with the thread gone — decoder released —,
    and the sound still Stopped. Partial with respect to the property's list of triggers: *rejected by a full track*
    and *discarded with its track or manager* are not among them — see `C10_thread_never_ends_when_abandoned`. -/
theorem C10_thread_ends_partial {σ : Type} (D : Decoder σ ℝ) (fuel : Nat) (l : St σ ℝ) (xs : List (Label ℝ))
    (hstopped : IsStopped l.sys) (hsteps : 3 ≤ countD xs) :
    (runSched D fuel l xs).pc.gone = true ∧ IsStopped (runSched D fuel l xs).sys := by
  apply runSched_stopped_ends D fuel xs l hstopped
  have : l.pc.rank ≤ 3 := by cases l.pc <;> simp [Pc.rank]
  omega

/-- … and sharper: the number of its own steps the thread needs is its distance from the loop exit -/
theorem C10_thread_ends_rank {σ : Type} (D : Decoder σ ℝ) (fuel : Nat) (l : St σ ℝ) (xs : List (Label ℝ))
    (hstopped : IsStopped l.sys) (hsteps : l.pc.rank ≤ countD xs) :
    (runSched D fuel l xs).pc.gone = true :=
  (runSched_stopped_ends D fuel xs l hstopped hsteps).1

/-- **End of data**: in every reachable state in which the decoder has reached the end of the data, its thread has
    already ended — `run` stores `reached_end` and returns `End` in the same step (0 further steps). -/
theorem C10_thread_ends_at_end_of_data {σ : Type} (D : Decoder σ ℝ) (fuel : Nat) (sys0 : Sys σ ℝ) (h0 : Fresh sys0)
    (l : St σ ℝ) (hr : Reachable D fuel sys0 l) (hend : l.sys.reachedEnd = true) : l.pc = .ended :=
  (inv_reachable D fuel sys0 h0 l hr).endEnded hend

/-- **The thread of an abandoned sound never ends** (the full statement of the property is false). A one-frame
    looping sound over a decoder that never fails: `into_sound` has spawned the thread; the track refuses the sound
    (or is dropped with it) and the handle is dropped — `[abandon, hDrop]`; then for EVERY schedule whatsoever the
    decoder thread is still at the top of its loop: it never ends, its decoder is never released. (Nothing is left
    that could set `Shared.state` to Stopped; with a looping sound the data never ends either. A non-looping long
    sound ends up asleep on a full ring for ever in the same way.) Reproduced on the real code: `rt reject`,
    `rt trackdrop`, `rt mgrdrop` of suite `decthread` (thread count stays +1). -/
theorem C10_thread_never_ends_when_abandoned :
    ∃ sys0, Sys.new oneDecoder loopData = .ok sys0 ∧
      ∀ (fuel : Nat) (xs : List (Label ℝ)),
        (runSched oneDecoder (fuel + 1) (St.init sys0) (.abandon :: .hDrop :: xs)).pc = .top ∧
        (runSched oneDecoder (fuel + 1) (St.init sys0) (.abandon :: .hDrop :: xs)).pc.gone = false := by
  refine ⟨_, loop_new, fun fuel xs => ?_⟩
  have h0 : Abandoned (runSched oneDecoder (fuel + 1) (St.init (loopSys [⟨Frame.zero, 0⟩] ds0)) [.abandon, .hDrop]) :=
    ⟨rfl, rfl, rfl, _, ds0, Or.inl rfl, rfl⟩
  have := abandoned_run fuel xs _ h0
  have hpc := this.1
  have e : runSched oneDecoder (fuel + 1) (St.init (loopSys [⟨Frame.zero, 0⟩] ds0)) (.abandon :: .hDrop :: xs)
      = runSched oneDecoder (fuel + 1) (runSched oneDecoder (fuel + 1) (St.init (loopSys [⟨Frame.zero, 0⟩] ds0)) [.abandon, .hDrop]) xs := rfl
  rw [e, hpc]
  exact ⟨rfl, rfl⟩

/-! ### no busy spinning -/

/-- **Every loop iteration whose `run` does not fail pushes a frame, sleeps, or ends** (`Continue` ⇒ exactly one
    more frame in the ring; `Wait` ⇒ the 1 ms sleep; `End` ⇒ `break`). The full statement ("never busy-spins while it
    has nothing to do") is false after an error: `C10_busy_spin_after_error`. -/
theorem C10_no_busy_spin_partial {σ : Type} (D : Decoder σ ℝ) (fuel : Nat) (s : Sys σ ℝ) :
    match (Sys.threadIter D fuel s).1 with
    | .continue => (Sys.threadIter D fuel s).2.ring.len = s.ring.len + 1
    | .sleep => (Sys.run D fuel s).1 = .ok .wait
    | .ended => (Sys.run D fuel s).1 = .ok .end
    | .erred => ∃ e, (Sys.run D fuel s).1 = .err e
    | .panicked => ∃ f, (Sys.run D fuel s).1 = .fault f := by
  have F := run_facts D fuel s
  unfold Sys.threadIter
  generalize Sys.run D fuel s = r at F
  obtain ⟨o, s'⟩ := r
  cases o with
  | ok n => cases n <;> simp only [] <;> first | exact F.pushed rfl | rfl
  | err e => exact ⟨e, rfl⟩
  | fault f => exact ⟨f, rfl⟩

/-- **After an error the loop spins.** A sound whose decoder fails and whose `process` is not being called (its
    track is paused, or it was abandoned): every loop iteration returns an error, pushes no frame, does not sleep and
    does not end — and leaves the thread in a state of the same kind, for ever. Reproduced on the real code:
    `rt error …` (decoder called again after the first error) and `rt errpaused` (thousands of calls in 30 ms,
    sound still Playing) of suite `decthread`. -/
theorem C10_busy_spin_after_error (fuel : Nat) :
    ∀ (n : Nat), ∃ er flag,
      (fun s => (Sys.threadIter failDecoder (fuel + 1) s).2)^[n] (spinSys (Ring.new errorBufferCapacity) false) = spinSys er flag ∧
      (Sys.threadIter failDecoder (fuel + 1) (spinSys er flag)).1 = .erred ∧
      (Sys.threadIter failDecoder (fuel + 1) (spinSys er flag)).2.ring = (spinSys er flag).ring ∧
      (spinSys er flag).handleState = .playing := by
  intro n
  induction n with
  | zero =>
    obtain ⟨er', h⟩ := spin_iter fuel (Ring.new errorBufferCapacity) false
    exact ⟨_, _, rfl, by rw [h], by rw [h]; rfl, rfl⟩
  | succ n ih =>
    obtain ⟨er, flag, h1, _, _, _⟩ := ih
    obtain ⟨er', h⟩ := spin_iter fuel er flag
    obtain ⟨er'', h'⟩ := spin_iter fuel er' true
    refine ⟨er', true, ?_, by rw [h'], by rw [h']; rfl, rfl⟩
    rw [Function.iterate_succ_apply', h1, h]

/-! ### an error stops the sound and reaches the handle -/

/-- **An error at any call position sets the flag.** Whenever `run` returns `Err(e)` — first packet, mid-stream,
    inside a seek command: the theorem does not care where — the decoder thread's next two steps push `e` into the
    error ring (if its single slot is free) and store the error flag, and the thread is back at its loop top. -/
theorem C10_error_sets_flag {σ : Type} (D : Decoder σ ℝ) (fuel : Nat) (l : St σ ℝ) (e : Wav.Err) (hpc : l.pc = .top)
    (herr : (Sys.run D fuel l.sys).1 = .err e) :
    ∃ l1 l2 l3, dStep D fuel l = some l1 ∧ l1.pc = .errPending e ∧
      dStep D fuel l1 = some l2 ∧ l2.pc = .flagPending ∧ l2.sys = l1.sys.pushError e ∧
      dStep D fuel l2 = some l3 ∧ l3.pc = .top ∧ l3.sys.encounteredError = true ∧
      (l.sys.errRing.items = [] → l.sys.errRing.cap = 1 → l3.sys.errRing.items = [e]) := by
  have F := run_facts D fuel l.sys
  generalize hr : Sys.run D fuel l.sys = r at herr F
  obtain ⟨o, s'⟩ := r
  simp only [] at herr F
  subst herr
  refine ⟨{ l with sys := s', pc := .errPending e, firstErr := match l.firstErr with | some f => some f | none => some e },
    { l with sys := s'.pushError e, pc := .flagPending, firstErr := match l.firstErr with | some f => some f | none => some e },
    { l with sys := (s'.pushError e).setErrorFlag, pc := .top, iters := l.iters + 1, firstErr := match l.firstErr with | some f => some f | none => some e },
    (by simp only [dStep, hpc, hr]; rfl), rfl, rfl, rfl, rfl, rfl, rfl, rfl, ?_⟩
  intro h1 h2
  show ((s'.pushError e).setErrorFlag).errRing.items = [e]
  unfold Sys.pushError Sys.setErrorFlag Ring.push
  rw [F.errRing]
  simp [h1, h2]

/-- **The next `process` marks the sound Stopped and writes zeros.** -/
theorem C10_error_stops_sound {σ : Type} (fuel : Nat) (s : Sys σ ℝ) (len : Nat) (dt : ℝ) (info : Info ℝ)
    (hflag : s.encounteredError = true) :
    ∃ s', s.process fuel len dt info = .ok (s', List.replicate len Frame.zero) ∧ IsStopped s' ∧
      s'.handleState = .stopped ∧ s'.finished = true := by
  unfold Sys.process
  simp only [hflag, if_true]
  have := StaticSound.markStopped_isStopped s.core
  refine ⟨_, rfl, ⟨by simp [Psm.playbackState, this.1], this.2⟩, this.2, ?_⟩
  simp [Sys.finished, SoundCore.finished, Psm.playbackState, this.1]

/-- **The next `on_start_processing` of the owning track unloads it; once Stopped it never sounds again.** A finished
    sound is removed at the track's next `on_start_processing` (`aStart`); and for as long as it is still there every
    `process` writes exact zeros and leaves it Stopped. -/
theorem C10_stopped_sound_is_unloaded_and_silent {σ : Type} (D : Decoder σ ℝ) (fuel : Nat) (l : St σ ℝ)
    (hstopped : IsStopped l.sys) (hplace : l.place = .inTrack) :
    (∃ l', step D fuel l .aStart = some l' ∧ l'.place = .unloaded) ∧
    (∀ len dt info, ∃ s', l.sys.process fuel len dt info = .ok (s', List.replicate len Frame.zero) ∧ IsStopped s') := by
  constructor
  · have hf : l.sys.finished = true := by simp [Sys.finished, SoundCore.finished, hstopped.1]
    exact ⟨{ l with place := .unloaded }, by simp only [step, hplace, hf, if_true], rfl⟩
  · intro len dt info
    exact process_stopped fuel l.sys len dt info hstopped

/-- **The first error can be popped from the handle.** In every reachable state, as long as the handle has not
    popped anything: once the error flag is set (or about to be) the 1-slot error ring holds exactly the FIRST error
    any `run` returned (later errors are dropped by `push(..).ok()`), and `pop_error` returns it. -/
theorem C10_first_error_can_be_popped {σ : Type} (D : Decoder σ ℝ) (fuel : Nat) (sys0 : Sys σ ℝ) (h0 : Fresh sys0)
    (l : St σ ℝ) (hr : Reachable D fuel sys0 l) (hpops : l.pops = 0) (hflag : l.sys.encounteredError = true) :
    ∃ e, l.firstErr = some e ∧ l.sys.errRing.items = [e] ∧ (l.sys.popError).1 = some e := by
  obtain ⟨e, h1, h2⟩ := (inv_reachable D fuel sys0 h0 l hr).flagged hpops (Or.inr hflag)
  refine ⟨e, h2, h1, ?_⟩
  unfold Sys.popError Ring.pop
  rw [h1]

/-! ### a slow decoder causes gaps of silence only -/

/-- **The ring at any pace.** For every history of (non-seek) commands, callbacks, `pop_error`s and decoder-loop
    iterations — the decoder ahead, starving the audio thread or stalled — the ring holds entries `a … m − 1` of the
    decoded sequence, and `a` (frames consumed) and `m` (frames produced) only ever grow, `a ≤ m`: nothing is ever
    consumed twice, out of order, or from anywhere else. (`C09_ring_is_future` from a fresh sound; here from any
    state satisfying the invariant.) -/
theorem C10_ring_window_any_pace {σ : Type} {W : World} (hW : W.Ok) {D : Decoder σ ℝ} {pos : σ → Nat} {good : σ → Prop}
    (C : Dec.Contract D W.frames.toList pos good) (fuel : Nat) (hfuel : W.frames.size < fuel)
    (ops : List (Streaming.Op ℝ)) (hops : ∀ c, Streaming.Op.command c ∈ ops → AudioCmd c)
    (s s' : Sys σ ℝ) (a m : Nat) (outs : List (Frame ℝ)) (R : RingInv W pos good s a m)
    (h : Sys.runOps D fuel s ops = .ok (s', outs)) :
    ∃ a' m', a ≤ a' ∧ m ≤ m' ∧ a' ≤ m' ∧ RingInv W pos good s' a' m' := by
  obtain ⟨a', m', h1, h2, R'⟩ := ringInv_run hW C fuel hfuel ops s s' a m outs hops R h
  exact ⟨a', m', h1, h2, R'.a_le, R'⟩

/-- **Gaps of silence, never repeated, reordered or foreign frames.** Whatever the pace of the decoder, every frame
    `process` renders is the shaded Hermite interpolation of four CONSECUTIVE entries `a, a+1, a+2, a+3` of the decoded
    sequence — each the source frame under the play head at that step of the transport, or silence where the decoder
    has not got yet (`i ≥ m`) —; at an integer position (`frac = 0`) it is exactly entry `a + 1` or silence; and
    afterwards the consumer index is no further back and not past the producer (`a ≤ a' ≤ m`), so the next frame
    heard is a later entry: playback continues where it stopped. -/
theorem C10_slow_decoder_gaps_only {σ : Type} {W : World} {pos : σ → Nat} {good : σ → Prop} {s s' : Sys σ ℝ} {a m : Nat}
    (R : RingInv W pos good s a m) (fuel : Nat) (t dt : ℝ) (out : Frame ℝ)
    (h : s.renderFrame fuel t dt = .ok (s', out)) :
    out = s.shade t (interpolateFrame (W.entryOrSilence m a) (W.entryOrSilence m (a + 1))
        (W.entryOrSilence m (a + 2)) (W.entryOrSilence m (a + 3)) s.frac) ∧
    (s.frac = 0 → out = s.shade t (W.entryOrSilence m (a + 1))) ∧
    ∃ a', a ≤ a' ∧ a' ≤ m ∧ RingInv W pos good s' a' m := by
  obtain ⟨h1, h2⟩ := renderFrame_window R fuel t dt out h
  refine ⟨by rw [h1, rawFrame_window R], fun h0 => by rw [h1, rawFrame_integer R h0], h2⟩

/-- while the decoder has not even delivered the current frame (fewer than two entries) and has not reached the
    end, a whole `process` call is silence and consumes nothing: the "waiting for audio data" rule -/
theorem C10_starving_process_is_silent {σ : Type} (fuel : Nat) (s : Sys σ ℝ) (len : Nat) (dt : ℝ) (info : Info ℝ)
    (hflag : s.encounteredError = false) (hstarve : s.ring.len < 2) (hend : s.reachedEnd = false) :
    ∃ s', s.process fuel len dt info = .ok (s', List.replicate len Frame.zero) ∧ s'.ring = s.ring ∧ s'.frac = s.frac := by
  unfold Sys.process
  simp only [hflag, Bool.false_eq_true, if_false]
  rw [stream_processOk_eq]
  have h1 : ((gatedT s len dt info).ring.len < 2 && !(gatedT s len dt info).reachedEnd) = true := by
    show (decide (s.ring.len < 2) && !s.reachedEnd) = true
    simp [hstarve, hend]
  by_cases hg : (s.core.gate (dt * (KOps.ofNat len : ℝ)) info).2 = true
  · simp only [hg, if_true, h1]; exact ⟨_, rfl, rfl, rfl⟩
  · simp only [hg, if_false]; exact ⟨_, rfl, rfl, rfl⟩

/-- **Frames that trickle in while the audio thread starves inside one `process` call are lost** (the clause
    "playback continues from where it stopped to within a frame" is false at frame granularity). The
    "fewer than 2 slots ⇒ silence, consume nothing" test is made once per `process` call, before the loop. Inside
    the loop, with the ring run dry at an integer position and unit step: if the decoder thread delivers exactly one
    entry before each output frame — any number of entries, any frames — every output frame is (shaded) silence and
    every one of those entries is consumed as a "previous" frame without ever being heard; the ring is empty again at
    the end. Reproduced on the real code with a slow decoder and free-running threads (`rt slow …` of suite
    `decthread`: e.g. "heard 249 after 240": a whole 8-frame packet gone). -/
theorem C10_frames_lost_while_starving {σ : Type} (fuel : Nat) (hfuel : 2 ≤ fuel) (t dt : ℝ) (s : Sys σ ℝ)
    (hstarved : Starved s dt) (ys : List (TimestampedFrame ℝ)) :
    ∃ s', trickle fuel t dt ys s = .ok (s', List.replicate ys.length (s.shade t Frame.zero)) ∧ s'.ring.items = [] := by
  obtain ⟨s', h1, h2⟩ := trickle_all_lost fuel hfuel t dt ys s hstarved
  exact ⟨s', h1, h2.empty⟩

/-! ### non-vacuity -/

/-- a reachable state in which the sound is Stopped while the thread still has all three steps to go: the hypotheses
    of `C10_thread_ends_partial` are satisfiable (and its bound 3 is attained) -/
example : ∃ l : St Unit ℝ, IsStopped l.sys ∧ l.pc.rank = 3 :=
  ⟨{ sys := { spinSys (Ring.new errorBufferCapacity) true with core := (spinSys (Ring.new errorBufferCapacity) true).core.markStopped }
     pc := .errPending .sym, place := .inTrack, handle := true, iters := 0, slept := 0, firstErr := some .sym, pops := 0 },
   by
     have := StaticSound.markStopped_isStopped (spinSys (Ring.new errorBufferCapacity) true).core
     exact ⟨by simp [Psm.playbackState, this.1], this.2⟩,
   rfl⟩

/-- a starved state exists (the looping sound with its ring run dry, rate 1 on a device at the sound's rate) -/
example : Starved (loopSys [] ds0) 1 :=
  { empty := rfl
    frac := by simp [loopSys]
    notEnd := rfl
    unit := fun t => by
      simp [Sys.fracStep, loopSys, fmax_real, Parameter.new, Parameter.interpolatedValue, tw64, lerp64] }

/-- the fresh looping sound is `Fresh`: the invariant theorems apply to it -/
example : Fresh (loopSys [⟨Frame.zero, 0⟩] ds0) := ⟨rfl, rfl, rfl, rfl⟩

end K
