/-
  C10 — decoder threads always end; decode errors stop the sound and reach the handle.
  Property theorems only.  They are about the labelled transition system of
  Model/Conc/DecoderThread.lean (decoder-thread steps ∥ audio callbacks ∥ handle events ∥ the sound being
  abandoned), whose steps are the functions of Model/StreamingSound.lean that the twin runs, for EVERY decoder
  (no contract is assumed unless said: a decoder may fail at any call), every schedule, over ℝ.

  Two clauses of the property used to be FALSE of the code (the thread of an abandoned sound never ended; the
  loop spun on a failed decoder) and were proved false here with witnesses. Both defects are repaired in kira
  (`run` ends on `frame_producer.is_abandoned()`; the `Err` arm of the loop `break`s after reporting); the
  model mirrors the repaired code and the clauses are now proved at full strength: `C10_thread_ends`,
  `C10_no_busy_spin`. The old witness scenarios are kept as non-vacuity examples at the end of the file.
-/
import KiraModel.Proofs.DecThreadLemmas

namespace K
open Streaming DT
open Dec (Decoder)

/-! ### the thread ends -/

/-- **The decoder thread ends within 2 of its own atomic steps once there is any reason for it to end**, whatever else
    happens in between. In every reachable state `l` of a freshly split sound in which
    * the sound is Stopped (stopped through the handle, played to its end, failed, start time that can never come —
      however it got there), or
    * the decoder has reached the end of the data, or
    * the sound was dropped — refused by a full track (`into_sound` had already spawned the thread) or discarded
      together with its track or the manager —, or
    * a `run` has failed (the thread is between the failing `run` and its `break`) or the error flag is set,
    every schedule `xs` — any interleaving of audio callbacks, handle calls, drops — that gives the decoder thread 2 of
    its own steps ends with the thread gone: it has left its loop, the scheduler and with it the decoder are
    released. The bound 2 is attained (right after a failed `run`: error push, then flag store + `break`; see the
    examples at the end); at the loop top 1 step is enough (`C10_thread_ends_rank`). The reason to end never goes
    away (`Ending` holds of the final state as well). -/
theorem C10_thread_ends {σ : Type} (D : Decoder σ ℝ) (fuel : Nat) (sys0 : Sys σ ℝ) (h0 : Fresh sys0)
    (l : St σ ℝ) (hr : Reachable D fuel sys0 l) (xs : List (Label ℝ))
    (hwhy : IsStopped l.sys ∨ l.sys.reachedEnd = true ∨ l.sys.soundDropped = true ∨
      (∃ e, l.pc = .errPending e) ∨ l.pc = .flagPending ∨ l.sys.encounteredError = true)
    (hsteps : 2 ≤ countD xs) :
    (runSched D fuel l xs).pc.gone = true ∧ Ending (runSched D fuel l xs) := by
  have hE : Ending l := by
    rcases hwhy with h | h | h | ⟨e, h⟩ | h | h
    · exact Or.inl h
    · exact Or.inr (Or.inr (by rw [(inv_reachable D fuel sys0 h0 l hr).endEnded h]; intro h'; cases h'))
    · exact Or.inr (Or.inl h)
    · exact Or.inr (Or.inr (by rw [h]; intro h'; cases h'))
    · exact Or.inr (Or.inr (by rw [h]; intro h'; cases h'))
    · exact Or.inr (Or.inr (by rw [(once_reachable D fuel sys0 h0 l hr).flagEnded h]; intro h'; cases h'))
  exact runSched_ending_ends D fuel xs l hE (Nat.le_trans (Pc.rank_le_two l.pc) hsteps)

/-- … from ANY state (reachable or not) for the three reasons that need no history: Stopped, dropped, or the thread
    has left its loop top after a failed `run`; and sharper: the number of its own steps the thread needs is its
    distance from the loop exit (`rank`: 1 at the loop top, 2 right after a failed `run`, 1 between the error push
    and the flag store) -/
theorem C10_thread_ends_rank {σ : Type} (D : Decoder σ ℝ) (fuel : Nat) (l : St σ ℝ) (xs : List (Label ℝ))
    (hwhy : IsStopped l.sys ∨ l.sys.soundDropped = true ∨ l.pc ≠ .top) (hsteps : l.pc.rank ≤ countD xs) :
    (runSched D fuel l xs).pc.gone = true :=
  (runSched_ending_ends D fuel xs l hwhy hsteps).1

/-- a Stopped sound stays Stopped through every schedule (so does a dropped one stay dropped: `Ending`) -/
theorem C10_stopped_stays_stopped {σ : Type} (D : Decoder σ ℝ) (fuel : Nat) (l : St σ ℝ) (xs : List (Label ℝ))
    (hstopped : IsStopped l.sys) : IsStopped (runSched D fuel l xs).sys :=
  runSched_stopped D fuel xs l hstopped

/-- **End of data**: in every reachable state in which the decoder has reached the end of the data, its thread has
    already ended — `run` stores `reached_end` and returns `End` in the same step (0 further steps). -/
theorem C10_thread_ends_at_end_of_data {σ : Type} (D : Decoder σ ℝ) (fuel : Nat) (sys0 : Sys σ ℝ) (h0 : Fresh sys0)
    (l : St σ ℝ) (hr : Reachable D fuel sys0 l) (hend : l.sys.reachedEnd = true) : l.pc = .ended :=
  (inv_reachable D fuel sys0 h0 l hr).endEnded hend

/-- **An abandoned sound's thread ends at its very next step** (this used to be false: the thread filled the ring and
    then woke every millisecond for ever, holding the decoder). From ANY state with the thread at its loop top: the
    sound is refused by a full track / discarded with its track or manager (`abandon`), then any schedule whatsoever
    that lets the decoder thread run once — the thread is gone. -/
theorem C10_thread_ends_when_abandoned {σ : Type} (D : Decoder σ ℝ) (fuel : Nat) (l : St σ ℝ) (hpc : l.pc = .top)
    (hplace : l.place = .inTrack) (xs : List (Label ℝ)) (hsteps : 1 ≤ countD xs) :
    (runSched D fuel l (.abandon :: xs)).pc.gone = true := by
  have hs : step D fuel l .abandon = some { l with place := .abandoned, sys := { l.sys with soundDropped := true } } := by
    simp only [step, hplace, if_true]
  simp only [runSched, hs, Option.getD_some]
  apply C10_thread_ends_rank D fuel _ xs (Or.inr (Or.inl rfl))
  show l.pc.rank ≤ countD xs
  rw [hpc]; exact hsteps

/-! ### no busy spinning -/

/-- **Every iteration of the decoder loop pushes a frame, sleeps, or is the last one.** Whenever the decoder thread
    takes a step from its loop top (one whole `run` and the `Ok` arm of the `match`), in ANY state, exactly one of:
    * `Continue`: the thread is back at the top and the frame ring holds exactly one more frame (it had something to
      do and did it);
    * `Wait`: the thread is back at the top after the 1 ms sleep (ghost counter `slept` + 1), nothing changed;
    * otherwise (`End`, `Err`, panic) the thread has left the loop top FOR GOOD: it is never at the top again —
      `run`, hence the decoder, is never called again — and it is gone after at most 2 more of its own steps,
      whatever the schedule.
    In particular a failing decoder is called exactly once more: there is no iteration that does nothing and
    comes back at once (this used to be false after an error). -/
theorem C10_no_busy_spin {σ : Type} (D : Decoder σ ℝ) (fuel : Nat) (l l' : St σ ℝ) (hpc : l.pc = .top)
    (hs : dStep D fuel l = some l') :
    (l'.pc = .top ∧ l'.sys.ring.len = l.sys.ring.len + 1 ∧ l'.slept = l.slept) ∨
    (l'.pc = .top ∧ l'.slept = l.slept + 1 ∧ l'.sys = l.sys) ∨
    (l'.pc ≠ .top ∧ (∀ xs, (runSched D fuel l' xs).pc ≠ .top) ∧
      ∀ xs, 2 ≤ countD xs → (runSched D fuel l' xs).pc.gone = true) := by
  have F := run_facts D fuel l.sys
  have hfull : (Sys.run D fuel l.sys).1 = .ok .wait → (Sys.run D fuel l.sys).2 = l.sys := run_wait D fuel l.sys
  have hoff : ∀ l'' : St σ ℝ, l''.pc ≠ .top → (∀ xs, (runSched D fuel l'' xs).pc ≠ .top) ∧
      ∀ xs, 2 ≤ countD xs → (runSched D fuel l'' xs).pc.gone = true := fun l'' h =>
    ⟨fun xs => runSched_keeps D fuel (fun l => l.pc ≠ .top) (fun a b x h hs => step_offTop D fuel a b x h hs) xs l'' h,
     fun xs hx => (runSched_ending_ends D fuel xs l'' (Or.inr (Or.inr h)) (Nat.le_trans (Pc.rank_le_two _) hx)).1⟩
  simp only [dStep, hpc] at hs
  generalize hr : Sys.run D fuel l.sys = r at hs F hfull
  obtain ⟨o, s'⟩ := r
  simp only [] at hs F hfull
  cases o with
  | ok n =>
    cases n with
    | «continue» =>
      simp only [] at hs; injection hs with hs; subst hs
      exact Or.inl ⟨rfl, F.pushed rfl, rfl⟩
    | wait =>
      simp only [] at hs; injection hs with hs; subst hs
      exact Or.inr (Or.inl ⟨rfl, rfl, hfull rfl⟩)
    | «end» =>
      simp only [] at hs; injection hs with hs; subst hs
      exact Or.inr (Or.inr ⟨(by intro h; cases h), hoff _ (by intro h; cases h)⟩)
  | err e =>
    simp only [] at hs; injection hs with hs; subst hs
    exact Or.inr (Or.inr ⟨(by intro h; cases h), hoff _ (by intro h; cases h)⟩)
  | fault f =>
    simp only [] at hs; injection hs with hs; subst hs
    exact Or.inr (Or.inr ⟨(by intro h; cases h), hoff _ (by intro h; cases h)⟩)

/-- the same, said of the function the twin runs for one loop iteration (`threadIter` = `run` + the `match` of
    `DecodeScheduler::start`): `Continue` ⇒ exactly one more frame in the ring; `Wait` ⇒ the 1 ms sleep; everything
    else is the thread's last iteration — `End` ⇒ `break`; `Err(e)` ⇒ error reported (flag set), `break`; a panic
    unwinds -/
theorem C10_no_busy_spin_iteration {σ : Type} (D : Decoder σ ℝ) (fuel : Nat) (s : Sys σ ℝ) :
    match (Sys.threadIter D fuel s).1 with
    | .continue => (Sys.threadIter D fuel s).2.ring.len = s.ring.len + 1
    | .sleep => (Sys.run D fuel s).1 = .ok .wait
    | .ended => (Sys.run D fuel s).1 = .ok .end
    | .erred => (∃ e, (Sys.run D fuel s).1 = .err e) ∧ (Sys.threadIter D fuel s).2.encounteredError = true
    | .panicked => ∃ f, (Sys.run D fuel s).1 = .fault f := by
  have F := run_facts D fuel s
  unfold Sys.threadIter
  generalize Sys.run D fuel s = r at F
  obtain ⟨o, s'⟩ := r
  cases o with
  | ok n => cases n <;> first | exact F.pushed rfl | rfl
  | err e => exact ⟨⟨e, rfl⟩, rfl⟩
  | fault f => exact ⟨f, rfl⟩

/-- **After the first error the decoder is never called again, and a set error flag means the thread is gone.** In
    every reachable state: once any `run` has returned an error the thread is not at its loop top (the only place
    `run` is called from) and never will be again; and `encountered_error` is stored in the very step that `break`s. -/
theorem C10_no_decoder_call_after_error {σ : Type} (D : Decoder σ ℝ) (fuel : Nat) (sys0 : Sys σ ℝ) (h0 : Fresh sys0)
    (l : St σ ℝ) (hr : Reachable D fuel sys0 l) :
    (l.firstErr ≠ none → ∀ xs, (runSched D fuel l xs).pc ≠ .top) ∧
    (l.sys.encounteredError = true → l.pc = .ended) := by
  have O := once_reachable D fuel sys0 h0 l hr
  exact ⟨fun h xs => runSched_keeps D fuel (fun l => l.pc ≠ .top) (fun a b x h hs => step_offTop D fuel a b x h hs) xs l
    (O.errOnce h), O.flagEnded⟩

/-! ### an error stops the sound and reaches the handle -/

/-- **An error at any call position sets the flag.** Whenever `run` returns `Err(e)` — first packet, mid-stream,
    inside a seek command: the theorem does not care where — the decoder thread's next two steps push `e` into the
    error ring (if its single slot is free) and store the error flag, and with that the thread has ended (`break`). -/
theorem C10_error_sets_flag {σ : Type} (D : Decoder σ ℝ) (fuel : Nat) (l : St σ ℝ) (e : Wav.Err) (hpc : l.pc = .top)
    (herr : (Sys.run D fuel l.sys).1 = .err e) :
    ∃ l1 l2 l3, dStep D fuel l = some l1 ∧ l1.pc = .errPending e ∧
      dStep D fuel l1 = some l2 ∧ l2.pc = .flagPending ∧ l2.sys = l1.sys.pushError e ∧
      dStep D fuel l2 = some l3 ∧ l3.pc = .ended ∧ l3.sys.encounteredError = true ∧
      (l.sys.errRing.items = [] → l.sys.errRing.cap = 1 → l3.sys.errRing.items = [e]) := by
  have F := run_facts D fuel l.sys
  generalize hr : Sys.run D fuel l.sys = r at herr F
  obtain ⟨o, s'⟩ := r
  simp only [] at herr F
  subst herr
  refine ⟨{ l with sys := s', pc := .errPending e, firstErr := match l.firstErr with | some f => some f | none => some e },
    { l with sys := s'.pushError e, pc := .flagPending, firstErr := match l.firstErr with | some f => some f | none => some e },
    { l with sys := (s'.pushError e).setErrorFlag, pc := .ended, iters := l.iters + 1, firstErr := match l.firstErr with | some f => some f | none => some e },
    (by simp only [dStep, hpc, hr]; rfl), rfl, rfl, rfl, rfl, rfl, rfl, rfl, ?_⟩
  intro h1 h2
  show ((s'.pushError e).setErrorFlag).errRing.items = [e]
  unfold Sys.pushError Sys.setErrorFlag Ring.push
  rw [F.errRing]
  simp [h1, h2]

/-- **The next `process` marks the sound Stopped and writes zeros.** -/
theorem C10_error_stops_sound {σ : Type} (fuel : Nat) (s : Sys σ ℝ) (len : Nat) (dt : ℝ) (info : Info ℝ)
    (hflag : s.encounteredError = true) :
    ∃ s', s.process fuel len dt info = .ok (s', List.replicate len Frame.zero) ∧ IsStopped s' ∧
      s'.handleState = .stopped ∧ s'.finished = true := by
  unfold Sys.process
  simp only [hflag, if_true]
  have := StaticSound.markStopped_isStopped s.core
  refine ⟨_, rfl, ⟨by simp [Psm.playbackState, this.1], this.2⟩, this.2, ?_⟩
  simp [Sys.finished, SoundCore.finished, Psm.playbackState, this.1]

/-- **The next `on_start_processing` of the owning track unloads it; once Stopped it never sounds again.** A finished
    sound is removed at the track's next `on_start_processing` (`aStart`); and for as long as it is still there every
    `process` writes exact zeros and leaves it Stopped. -/
theorem C10_stopped_sound_is_unloaded_and_silent {σ : Type} (D : Decoder σ ℝ) (fuel : Nat) (l : St σ ℝ)
    (hstopped : IsStopped l.sys) (hplace : l.place = .inTrack) :
    (∃ l', step D fuel l .aStart = some l' ∧ l'.place = .unloaded) ∧
    (∀ len dt info, ∃ s', l.sys.process fuel len dt info = .ok (s', List.replicate len Frame.zero) ∧ IsStopped s') := by
  constructor
  · have hf : l.sys.finished = true := by simp [Sys.finished, SoundCore.finished, hstopped.1]
    exact ⟨{ l with place := .unloaded }, by simp only [step, hplace, hf, if_true], rfl⟩
  · intro len dt info
    exact process_stopped fuel l.sys len dt info hstopped

/-- **The first error can be popped from the handle.** In every reachable state, as long as the handle has not
    popped anything: once the error flag is set (or about to be) the 1-slot error ring holds exactly the FIRST error
    any `run` returned (later errors are dropped by `push(..).ok()`), and `pop_error` returns it. -/
theorem C10_first_error_can_be_popped {σ : Type} (D : Decoder σ ℝ) (fuel : Nat) (sys0 : Sys σ ℝ) (h0 : Fresh sys0)
    (l : St σ ℝ) (hr : Reachable D fuel sys0 l) (hpops : l.pops = 0) (hflag : l.sys.encounteredError = true) :
    ∃ e, l.firstErr = some e ∧ l.sys.errRing.items = [e] ∧ (l.sys.popError).1 = some e := by
  obtain ⟨e, h1, h2⟩ := (inv_reachable D fuel sys0 h0 l hr).flagged hpops (Or.inr hflag)
  refine ⟨e, h2, h1, ?_⟩
  unfold Sys.popError Ring.pop
  rw [h1]

/-! ### a slow decoder causes gaps of silence only -/

/-- **The ring at any pace.** For every history of (non-seek) commands, callbacks, `pop_error`s and decoder-loop
    iterations — the decoder ahead, starving the audio thread or stalled — the ring holds entries `a … m − 1` of the
    decoded sequence, and `a` (frames consumed) and `m` (frames produced) only ever grow, `a ≤ m`: nothing is ever
    consumed twice, out of order, or from anywhere else. (`C09_ring_is_future` from a fresh sound; here from any
    state satisfying the invariant.) -/
theorem C10_ring_window_any_pace {σ : Type} {W : World} (hW : W.Ok) {D : Decoder σ ℝ} {pos : σ → Nat} {good : σ → Prop}
    (C : Dec.Contract D W.frames.toList pos good) (fuel : Nat) (hfuel : W.frames.size < fuel)
    (ops : List (Streaming.Op ℝ)) (hops : ∀ c, Streaming.Op.command c ∈ ops → AudioCmd c)
    (s s' : Sys σ ℝ) (a m : Nat) (outs : List (Frame ℝ)) (R : RingInv W pos good s a m)
    (h : Sys.runOps D fuel s ops = .ok (s', outs)) :
    ∃ a' m', a ≤ a' ∧ m ≤ m' ∧ a' ≤ m' ∧ RingInv W pos good s' a' m' := by
  obtain ⟨a', m', h1, h2, R'⟩ := ringInv_run hW C fuel hfuel ops s s' a m outs hops R h
  exact ⟨a', m', h1, h2, R'.a_le, R'⟩

/-- **Gaps of silence, never repeated, reordered or foreign frames.** Whatever the pace of the decoder, every frame
    `process` renders is the shaded Hermite interpolation of four CONSECUTIVE entries `a, a+1, a+2, a+3` of the decoded
    sequence — each the source frame under the play head at that step of the transport, or silence where the decoder
    has not got yet (`i ≥ m`) —; at an integer position (`frac = 0`) it is exactly entry `a + 1` or silence; and
    afterwards the consumer index is no further back and not past the producer (`a ≤ a' ≤ m`), so the next frame
    heard is a later entry: playback continues where it stopped. -/
theorem C10_slow_decoder_gaps_only {σ : Type} {W : World} {pos : σ → Nat} {good : σ → Prop} {s s' : Sys σ ℝ} {a m : Nat}
    (R : RingInv W pos good s a m) (fuel : Nat) (t dt : ℝ) (out : Frame ℝ)
    (h : s.renderFrame fuel t dt = .ok (s', out)) :
    out = s.shade t (interpolateFrame (W.entryOrSilence m a) (W.entryOrSilence m (a + 1))
        (W.entryOrSilence m (a + 2)) (W.entryOrSilence m (a + 3)) s.frac) ∧
    (s.frac = 0 → out = s.shade t (W.entryOrSilence m (a + 1))) ∧
    ∃ a', a ≤ a' ∧ a' ≤ m ∧ RingInv W pos good s' a' m := by
  obtain ⟨h1, h2⟩ := renderFrame_window R fuel t dt out h
  refine ⟨by rw [h1, rawFrame_window R], fun h0 => by rw [h1, rawFrame_integer R h0], h2⟩

/-- while the decoder has not even delivered the current frame (fewer than two entries) and has not reached the
    end, a whole `process` call is silence and consumes nothing: the "waiting for audio data" rule -/
theorem C10_starving_process_is_silent {σ : Type} (fuel : Nat) (s : Sys σ ℝ) (len : Nat) (dt : ℝ) (info : Info ℝ)
    (hflag : s.encounteredError = false) (hstarve : s.ring.len < 2) (hend : s.reachedEnd = false) :
    ∃ s', s.process fuel len dt info = .ok (s', List.replicate len Frame.zero) ∧ s'.ring = s.ring ∧ s'.frac = s.frac := by
  unfold Sys.process
  simp only [hflag, Bool.false_eq_true, if_false]
  rw [stream_processOk_eq]
  have h1 : ((gatedT s len dt info).ring.len < 2 && !(gatedT s len dt info).reachedEnd) = true := by
    show (decide (s.ring.len < 2) && !s.reachedEnd) = true
    simp [hstarve, hend]
  by_cases hg : (s.core.gate (dt * (KOps.ofNat len : ℝ)) info).2 = true
  · simp only [hg, if_true, h1]; exact ⟨_, rfl, rfl, rfl⟩
  · simp only [hg, if_false]; exact ⟨_, rfl, rfl, rfl⟩

/-- **Frames that trickle in while the audio thread starves inside one `process` call are lost** (the clause
    "playback continues from where it stopped to within a frame" is false at frame granularity). The
    "fewer than 2 slots ⇒ silence, consume nothing" test is made once per `process` call, before the loop. Inside
    the loop, with the ring run dry at an integer position and unit step: if the decoder thread delivers exactly one
    entry before each output frame — any number of entries, any frames — every output frame is (shaded) silence and
    every one of those entries is consumed as a "previous" frame without ever being heard; the ring is empty again at
    the end. Reproduced on the real code with a slow decoder and free-running threads (`rt slow …` of suite
    `decthread`: e.g. "heard 249 after 240": a whole 8-frame packet gone). -/
theorem C10_frames_lost_while_starving {σ : Type} (fuel : Nat) (hfuel : 2 ≤ fuel) (t dt : ℝ) (s : Sys σ ℝ)
    (hstarved : Starved s dt) (ys : List (TimestampedFrame ℝ)) :
    ∃ s', trickle fuel t dt ys s = .ok (s', List.replicate ys.length (s.shade t Frame.zero)) ∧ s'.ring.items = [] := by
  obtain ⟨s', h1, h2⟩ := trickle_all_lost fuel hfuel t dt ys s hstarved
  exact ⟨s', h1, h2.empty⟩

/-! ### non-vacuity (and the two scenarios that used to be the witnesses of the defects) -/

/-- a state in which the sound is Stopped while the thread still has both steps to go: the reasons of
    `C10_thread_ends_rank` are satisfiable and its bound 2 is attained -/
example : ∃ l : St Unit ℝ, IsStopped l.sys ∧ l.pc.rank = 2 :=
  ⟨{ sys := { spinSys (Ring.new errorBufferCapacity) true with core := (spinSys (Ring.new errorBufferCapacity) true).core.markStopped }
     pc := .errPending .sym, place := .inTrack, handle := true, iters := 0, slept := 0, firstErr := some .sym, pops := 0 },
   by
     have := StaticSound.markStopped_isStopped (spinSys (Ring.new errorBufferCapacity) true).core
     exact ⟨by simp [Psm.playbackState, this.1], this.2⟩,
   rfl⟩

/-- the scenario of the former `C10_thread_never_ends_when_abandoned`: a one-frame looping sound over a decoder that
    never fails is refused by its track and its handle dropped — `[abandon, hDrop]` —: now every schedule that lets
    the decoder thread run once more ends with the thread gone (before the repair: at its loop top for ever) -/
example : ∃ sys0, Sys.new oneDecoder loopData = .ok sys0 ∧ Fresh sys0 ∧
    ∀ (fuel : Nat) (xs : List (Label ℝ)), 1 ≤ countD xs →
      (runSched oneDecoder (fuel + 1) (St.init sys0) (.abandon :: .hDrop :: xs)).pc.gone = true := by
  refine ⟨_, loop_new, ⟨rfl, rfl, rfl, rfl⟩, fun fuel xs hx => ?_⟩
  exact C10_thread_ends_when_abandoned oneDecoder (fuel + 1) (St.init _) rfl rfl (.hDrop :: xs) hx

/-- the scenario of the former `C10_busy_spin_after_error`: a playing sound whose decoder fails at every call and
    whose `process` is never called (its track is paused). The thread's first iteration fails; two more of its steps
    and it is gone, the error is in the handle's ring, the flag is set — the decoder was called once. (What remains:
    `handle.state()` still says Playing until the track resumes and `process` turns the flag into Stopped.) -/
example (fuel : Nat) : ∃ l3 : St Unit ℝ,
    runSched failDecoder (fuel + 1) (St.init (spinSys (Ring.new errorBufferCapacity) false)) [.dStep, .dStep, .dStep] = l3 ∧
    l3.pc = .ended ∧ l3.sys.errRing.items = [.sym] ∧ l3.sys.encounteredError = true ∧ l3.firstErr = some .sym ∧
    l3.sys.ring = (spinSys (Ring.new errorBufferCapacity) false).ring ∧ l3.sys.handleState = .playing := by
  have hrun := spin_run fuel (Ring.new errorBufferCapacity) false
  refine ⟨_, rfl, ?_⟩
  simp only [runSched, step, dStep, St.init, hrun, Option.getD_some]
  refine ⟨?_, ?_, ?_, ?_, ?_, ?_⟩ <;> trivial

/-- a starved state exists (the looping sound with its ring run dry, rate 1 on a device at the sound's rate) -/
example : Starved (loopSys [] ds0) 1 :=
  { empty := rfl
    frac := by simp [loopSys]
    notEnd := rfl
    unit := fun t => by
      simp [Sys.fracStep, loopSys, fmax_real, Parameter.new, Parameter.interpolatedValue, tw64, lerp64] }

/-- the fresh looping sound is `Fresh`: the invariant theorems apply to it -/
example : Fresh (loopSys [⟨Frame.zero, 0⟩] ds0) := ⟨rfl, rfl, rfl, rfl⟩

end K
