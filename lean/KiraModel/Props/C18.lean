/-
  C18 — decoding is faithful; streaming a file equals loading it; bad files give errors.

  What is proved here (for ALL inputs, no bound on lengths, rates, packet sizes, histories):
  * the Lean PCM-WAV encoder and the model of the decoding path kira uses (Symphonia's RIFF/WAVE
    demuxer + PCM codec as modelled in Model/Wav.lean, kira's conversion/assembly glue and packet
    loop) are inverse: header, sample codes, frames, frame count, sample rate;
  * the sample conversion spec (exact scaling, range, monotone; mono duplicated; stereo paired;
    more than two channels rejected);
  * kira's `DecodeScheduler::frame_at_index`/`seek_to`/`run` return the right source frame for
    EVERY decoder satisfying the `Decoder` contract (any packet sizes, any seek granularity),
    after any history of calls; the modelled WAV decoder satisfies that contract; hence streaming
    an encoded WAV equals loading it from any start position and after any seek sequence;
  * the static loader's packet loop ends at the demuxer's first error and returns the frames so
    far (end of stream) or the error, as coded;
  * streaming comes to an end: for every decoder that makes progress (reports the end of its data
    as an error, not as an empty chunk) `frame_at_index`, `run` and the decoder thread return within
    a bounded number of `decode` calls; the modelled WAV decoder makes progress on EVERY byte
    string (truncated, header promising more than the file holds, …), so such a stream ends with
    `reached_end` or with an error on the handle — it never hangs.
  Symphonia itself (demuxers, codecs, probe) is third-party: modelled for PCM WAV, exercised by
  the `wav` suite (bytes produced by THIS encoder are loaded by the real code), not verified.
-/
import KiraModel.Proofs.WavConv
import KiraModel.Proofs.WavDecoderLemmas
import KiraModel.Proofs.WavTruncLemmas
import KiraModel.Proofs.StreamTermination

namespace K
open Wav Dec

/-! ## 1. round trip -/

/-- **WAV round trip.** For every format (8/16/24/32-bit integer, 32/64-bit float), every
    channel count the demuxer can map (1…26), every non-zero 32-bit sample rate and every list of
    sample codes that fit the sample width (any length that fits the 32-bit RIFF size field):
    decoding the encoded file gives back exactly the spec and the samples. -/
theorem C18_wav_roundtrip (s : Spec) (hs : s.Decodable) (codes : List Nat)
    (hr : InRange s.fmt codes) (hL : FitsRiff (codes.length * s.fmt.bytes)) :
    decodeFile (encode s codes) = some (s, codes) := by
  unfold decodeFile encode
  rw [encodeData_length, parse_header s hs _ hL]
  simp only [Spec.chunk]
  have hk := Fmt.bytes_pos s.fmt
  rw [Nat.mul_div_cancel _ hk]
  have : (encodeData s.fmt codes ++ pad (codes.length * s.fmt.bytes)).take (codes.length * s.fmt.bytes)
      = encodeData s.fmt codes := List.take_left' (encodeData_length _ _)
  rw [this]
  have h := readSamples_encodeData s.fmt codes [] hr
  rw [List.append_nil] at h
  rw [h]

/-- the same at the level of signed sample values: a value in the two's-complement range of a
    16/24/32-bit format is stored as a code that reads back as that value (and conversely) -/
theorem C18_wav_roundtrip_signed (bits : ℕ) (hb : bits = 16 ∨ bits = 24 ∨ bits = 32) :
    (∀ c, c < 2 ^ bits → ofSigned bits (toSigned bits c) = c) ∧
    (∀ x : ℤ, -(2 ^ (bits - 1) : ℕ) ≤ x → x < (2 ^ (bits - 1) : ℕ) → toSigned bits (ofSigned bits x) = x) :=
  signed_roundtrip bits hb

/-! ## 2. loading is faithful -/

section Generic
variable {α : Type} [Add α] [Sub α] [Mul α] [Div α] [Neg α] [LT α] [LE α]
  [DecidableLT α] [DecidableLE α] [OfScientific α] [KOps α]

theorem groupFrames_mono : ∀ (codes : List Nat), groupFrames 1 codes.length codes = codes.map (fun c => [c])
  | [] => rfl
  | c :: cs => by simp [groupFrames, groupFrames_mono cs]

theorem groupFrames_stereo : ∀ (lr : List (Nat × Nat)),
    groupFrames 2 lr.length (lr.flatMap (fun p => [p.1, p.2])) = lr.map (fun p => [p.1, p.2])
  | [] => rfl
  | p :: ps => by simp [groupFrames, groupFrames_stereo ps]

/-- **static load, mono**: every sample becomes a frame with that sample on both channels;
    frame count and sample rate are the file's. -/
theorem C18_load_faithful_mono (fd : FloatDec α) (f : Fmt) (rate : Nat) (hrate : 0 < rate ∧ rate < 4294967296)
    (codes : List Nat) (hr : InRange f codes) (hL : FitsRiff (codes.length * f.bytes)) :
    loadStatic fd (encode ⟨f, 1, rate⟩ codes)
      = .ok (rate, codes.map (fun c => ⟨convSample fd f c, convSample fd f c⟩)) := by
  have hs : (⟨f, 1, rate⟩ : Spec).Decodable := by
    have := Fmt.bytes_le f
    refine ⟨⟨Nat.le_refl 1, ?_, hrate.2⟩, (by decide : (1 : Nat) ≤ 26), hrate.1⟩
    show 1 * f.bytes < 65536
    omega
  rw [loadStatic_encode fd ⟨f, 1, rate⟩ hs (Or.inl rfl) codes.length codes (by simp) hr hL]
  simp only [groupFrames_mono, List.map_map]
  congr 2

/-- **static load, stereo**: samples are paired left/right in file order. -/
theorem C18_load_faithful_stereo (fd : FloatDec α) (f : Fmt) (rate : Nat) (hrate : 0 < rate ∧ rate < 4294967296)
    (lr : List (Nat × Nat)) (hr : InRange f (lr.flatMap (fun p => [p.1, p.2])))
    (hL : FitsRiff ((lr.flatMap (fun p => [p.1, p.2])).length * f.bytes)) :
    loadStatic fd (encode ⟨f, 2, rate⟩ (lr.flatMap (fun p => [p.1, p.2])))
      = .ok (rate, lr.map (fun p => ⟨convSample fd f p.1, convSample fd f p.2⟩)) := by
  have hs : (⟨f, 2, rate⟩ : Spec).Decodable := by
    have := Fmt.bytes_le f
    refine ⟨⟨(by decide : 1 ≤ (2 : Nat)), ?_, hrate.2⟩, (by decide : (2 : Nat) ≤ 26), hrate.1⟩
    show 2 * f.bytes < 65536
    omega
  have hlen : (lr.flatMap (fun p => [p.1, p.2])).length = lr.length * 2 := by
    induction lr with
    | nil => rfl
    | cons p ps ih => simp [List.flatMap_cons] at ih ⊢; omega
  rw [loadStatic_encode fd ⟨f, 2, rate⟩ hs (Or.inr rfl) lr.length _ hlen hr hL]
  simp only [groupFrames_stereo, List.map_map]
  congr 2

/-- **more than two channels are rejected** (`UnsupportedChannelConfiguration`) as soon as the
    file holds one frame. -/
theorem C18_load_multichannel_rejected (fd : FloatDec α) (s : Spec) (hs : s.Decodable)
    (hch : 3 ≤ s.channels) (m : Nat) (hm : 0 < m) (codes : List Nat)
    (hlen : codes.length = m * s.channels) (hL : FitsRiff (codes.length * s.fmt.bytes)) :
    loadStatic fd (encode s codes) = .error .chan :=
  loadStatic_encode_multichannel fd s hs hch m hm codes hlen hL

end Generic

/-! ## 3. the conversion spec (over ℝ: `r32 = id`; the `f32` rounding of 32-bit integers and of
      64-bit floats is in the twin and is compared bit-for-bit with kira) -/

/-- **sample conversion.** Exact scaling: u8 ↦ (x−128)/128, i16 ↦ x/2¹⁵, i24 ↦ x/2²³, i32 ↦ x/2³¹
    (x the two's-complement value of the code), floats are taken as they are;
    every integer sample lands in [−1, 1); the map is strictly increasing in the sample value. -/
theorem C18_sample_conversion (fd : FloatDec ℝ) :
    -- exact scaling
    (∀ c : ℕ, convSample fd .u8 c = ((c : ℝ) - 128) / 128) ∧
    (∀ c : ℕ, convSample fd .s16 c = (toSigned 16 c : ℝ) / 32768) ∧
    (∀ c : ℕ, convSample fd .s24 c = (toSigned 24 c : ℝ) / 8388608) ∧
    (∀ c : ℕ, convSample fd .s32 c = (toSigned 32 c : ℝ) / 2147483648) ∧
    (∀ c : ℕ, convSample fd .f32 c = fd.f32 c) ∧ (∀ c : ℕ, convSample fd .f64 c = fd.f64 c) ∧
    -- range [−1, 1) for every code that fits the sample width
    (∀ (f : Fmt) (c : ℕ), f ≠ .f32 → f ≠ .f64 → c < 256 ^ f.bytes →
        -1 ≤ convSample fd f c ∧ convSample fd f c < 1) ∧
    -- strictly increasing in the sample value (unsigned for u8, two's complement otherwise)
    (∀ c d : ℕ, c < d → convSample fd .u8 c < convSample fd .u8 d) ∧
    (∀ (f : Fmt) (bits : ℕ), (f = .s16 ∧ bits = 16) ∨ (f = .s24 ∧ bits = 24) ∨ (f = .s32 ∧ bits = 32) →
        ∀ c d : ℕ, toSigned bits c < toSigned bits d → convSample fd f c < convSample fd f d) := by
  have e8 : ∀ c : ℕ, convSample fd .u8 c = ((c : ℝ) - 128) / 128 := by
    intro c; simp only [convSample, r32_real, ofNat_real, lit_128, lit_1]; ring
  have e16 : ∀ c : ℕ, convSample fd .s16 c = (toSigned 16 c : ℝ) / 32768 := by
    intro c; simp only [convSample, r32_real, ofInt_real, lit_32768]
  have e24 : ∀ c : ℕ, convSample fd .s24 c = (toSigned 24 c : ℝ) / 8388608 := by
    intro c; simp only [convSample, r32_real, ofInt_real, lit_8388608]
  have e32 : ∀ c : ℕ, convSample fd .s32 c = (toSigned 32 c : ℝ) / 2147483648 := by
    intro c; simp only [convSample, r32_real, ofInt_real, lit_2147483648]
  refine ⟨e8, e16, e24, e32, fun c => rfl, fun c => rfl, ?_, ?_, ?_⟩
  · intro f c h1 h2 hc
    cases f with
    | u8 =>
      rw [e8]
      have hc' : c < 256 := by simpa [Fmt.bytes] using hc
      have : (c : ℝ) < 256 := by exact_mod_cast hc'
      have : (0 : ℝ) ≤ c := Nat.cast_nonneg c
      constructor
      · rw [le_div_iff₀ (by norm_num)]; linarith
      · rw [div_lt_iff₀ (by norm_num)]; linarith
    | s16 =>
      rw [e16]
      obtain ⟨a, b⟩ := toSigned_range16 c (by simpa [Fmt.bytes] using hc)
      have a' : (-32768 : ℝ) ≤ (toSigned 16 c : ℝ) := by exact_mod_cast a
      have b' : (toSigned 16 c : ℝ) < 32768 := by exact_mod_cast b
      constructor
      · rw [le_div_iff₀ (by norm_num)]; linarith
      · rw [div_lt_iff₀ (by norm_num)]; linarith
    | s24 =>
      rw [e24]
      obtain ⟨a, b⟩ := toSigned_range24 c (by simpa [Fmt.bytes] using hc)
      have a' : (-8388608 : ℝ) ≤ (toSigned 24 c : ℝ) := by exact_mod_cast a
      have b' : (toSigned 24 c : ℝ) < 8388608 := by exact_mod_cast b
      constructor
      · rw [le_div_iff₀ (by norm_num)]; linarith
      · rw [div_lt_iff₀ (by norm_num)]; linarith
    | s32 =>
      rw [e32]
      obtain ⟨a, b⟩ := toSigned_range32 c (by simpa [Fmt.bytes] using hc)
      have a' : (-2147483648 : ℝ) ≤ (toSigned 32 c : ℝ) := by exact_mod_cast a
      have b' : (toSigned 32 c : ℝ) < 2147483648 := by exact_mod_cast b
      constructor
      · rw [le_div_iff₀ (by norm_num)]; linarith
      · rw [div_lt_iff₀ (by norm_num)]; linarith
    | f32 => exact absurd rfl h1
    | f64 => exact absurd rfl h2
  · intro c d h
    rw [e8, e8]
    have : (c : ℝ) < d := by exact_mod_cast h
    apply div_lt_div_of_pos_right _ (by norm_num)
    linarith
  · intro f bits hf c d h
    have hh : (toSigned bits c : ℝ) < (toSigned bits d : ℝ) := by exact_mod_cast h
    rcases hf with ⟨rfl, rfl⟩ | ⟨rfl, rfl⟩ | ⟨rfl, rfl⟩
    · rw [e16, e16]; exact div_lt_div_of_pos_right hh (by norm_num)
    · rw [e24, e24]; exact div_lt_div_of_pos_right hh (by norm_num)
    · rw [e32, e32]; exact div_lt_div_of_pos_right hh (by norm_num)

/-- **frame assembly** (`load_frames_from_buffer`): one channel is duplicated to both sides, two
    channels are paired, any other channel count is `UnsupportedChannelConfiguration` —
    whatever the buffer holds. -/
theorem C18_frame_assembly {α : Type} (m l r : α) (ch : ℕ) (hch : ch ≠ 1 ∧ ch ≠ 2) (frames : List (List α)) :
    assembleFrame 1 [m] = .ok ⟨m, m⟩ ∧ assembleFrame 2 [l, r] = .ok ⟨l, r⟩ ∧
    assemble ch frames = .error .chan := by
  refine ⟨rfl, rfl, ?_⟩
  unfold assemble
  have : ¬ (ch = 1 ∨ ch = 2) := by omega
  simp [this]

/-! ## 4. streaming equals loading -/

section Streaming
variable {α σ : Type} [OfScientific α]

/-- **frame_at_index is right for every contract-satisfying decoder.**  Whatever the packet
    sizes and the seek granularity, from every scheduler state satisfying the invariant (every
    state reachable by any history, see `C18_streaming_equals_loading`), `frame_at_index i`
    returns source frame `slice.start + i` for `i` inside the slice (zero outside), keeps the
    invariant, and needs at most `src.length + 1` packets (it does not hang). -/
theorem C18_frame_at_index_correct (D : Decoder σ α) (src : List (Frame α)) (pos : σ → Nat)
    (good : σ → Prop) (C : Contract D src pos good) (cfg : Cfg) (hcfg : CfgOk src cfg) (fuel : Nat)
    (hfuel : src.length < fuel) (st : Sched σ α) (hinv : Inv src pos good st) (i : Nat) :
    ∃ f st', frameAtIndex D cfg fuel st i = .ok (f, st') ∧ want src cfg i = some f ∧
      Inv src pos good st' :=
  let ⟨f, st', h, hw, hi, _, _⟩ := frameAtIndex_correct D src pos good C cfg hcfg fuel hfuel st hinv i
  ⟨f, st', h, hw, hi⟩

/-- **streaming equals loading, abstractly.**  Let `src` be the frames the static loader
    returned.  For every decoder satisfying the `Decoder` contract relative to `src` (any packet
    sizes, any seek granularity), every slice inside the audio, every start position inside the
    audio, and EVERY history of `frame_at_index` / `seek_to` / `run` calls (seek targets inside the
    audio): the scheduler is created without error, no call fails or hangs, and every frame it
    produces is the frame a decoder-free reader of `src` (`specCalls`: a static sound over the
    loaded frames with the same transport) produces. -/
theorem C18_streaming_equals_loading (D : Decoder σ α) (src : List (Frame α)) (pos : σ → Nat)
    (good : σ → Prop) (C : Contract D src pos good) (s0 : σ) (slice : Option (Nat × Nat))
    (hslice : ∀ a b, slice = some (a, b) → a ≤ b ∧ b ≤ src.length) (startPos : Nat)
    (hstart : startPos ≤ src.length) (fuel : Nat) (hfuel : src.length < fuel)
    (calls : List Call) (hseeks : SeeksInRange src.length calls) :
    ∃ cfg st outs st', Sched.new D s0 slice src.length startPos = .ok (cfg, st) ∧
      runCalls D cfg fuel st calls = .ok (outs, st') ∧
      outs.map (·.map some) = specCalls src cfg (startPos, true) calls := by
  obtain ⟨cfg, st, hnew, hcfg, hinv, hp, hpl, _⟩ := new_correct D src pos good C s0 slice hslice startPos hstart
  obtain ⟨outs, st', hrun, _, hspec⟩ := runCalls_correct D src pos good C cfg hcfg fuel hfuel calls st hinv hseeks
  exact ⟨cfg, st, outs, st', hnew, hrun, by rw [hspec, hp, hpl]⟩

end Streaming

section StreamingWav
variable {α : Type} [Add α] [Sub α] [Mul α] [Div α] [Neg α] [LT α] [LE α]
  [DecidableLT α] [DecidableLE α] [OfScientific α] [KOps α]

/-- **streaming an encoded WAV equals loading it** (no hypothesis about the decoder left):
    for every 1- or 2-channel file produced by the encoder, the frames `loadStatic` returns are
    `fileFrames`, the modelled Symphonia WAV decoder satisfies the contract relative to them, and
    therefore every history of scheduler calls from every start position yields exactly the
    loaded frames. -/
theorem C18_streaming_equals_loading_wav (fd : FloatDec α) (s : Spec) (hs : s.Decodable)
    (hch : s.channels = 1 ∨ s.channels = 2) (m : Nat) (codes : List Nat)
    (hlen : codes.length = m * s.channels) (hr : InRange s.fmt codes)
    (hL : FitsRiff (codes.length * s.fmt.bytes))
    (slice : Option (Nat × Nat)) (hslice : ∀ a b, slice = some (a, b) → a ≤ b ∧ b ≤ m)
    (startPos : Nat) (hstart : startPos ≤ m) (fuel : Nat) (hfuel : m < fuel)
    (calls : List Call) (hseeks : SeeksInRange m calls) :
    loadStatic fd (encode s codes) = .ok (s.rate, fileFrames fd s m codes) ∧
    openStream (encode s codes) = .ok (s.chunk, fileReader s codes, m) ∧
    ∃ cfg st outs st',
      Sched.new (wavDecoder fd s.chunk (fileReader s codes)) 0 slice m startPos = .ok (cfg, st) ∧
      runCalls (wavDecoder fd s.chunk (fileReader s codes)) cfg fuel st calls = .ok (outs, st') ∧
      outs.map (·.map some) = specCalls (fileFrames fd s m codes) cfg (startPos, true) calls := by
  have hlenF : (fileFrames fd s m codes).length = m := by simp [fileFrames, groupFrames_length]
  refine ⟨loadStatic_encode fd s hs hch m codes hlen hr hL, ?_, ?_⟩
  · unfold openStream encode
    rw [encodeData_length, parse_header s hs _ hL]
    have hk := Fmt.bytes_pos s.fmt
    have hB : 0 < s.channels * s.fmt.bytes := Nat.mul_pos (by omega) hk
    have hB0 : ¬ (s.channels * s.fmt.bytes = 0) := by omega
    have hnf : numFrames (s.channels * s.fmt.bytes) (codes.length * s.fmt.bytes) = m := by
      unfold numFrames; rw [hlen, Nat.mul_assoc, Nat.mul_div_cancel _ hB]
    simp only [Spec.chunk, hB0, if_false, hnf, fileReader]
  · have C := wavDecoder_contract fd s hch m codes hlen hr
    have := C18_streaming_equals_loading _ _ _ _ C 0 slice (by rw [hlenF]; exact hslice) startPos
      (by rw [hlenF]; exact hstart) fuel (by rw [hlenF]; exact hfuel) calls (by rw [hlenF]; exact hseeks)
    rw [hlenF] at this
    exact this

end StreamingWav

/-! ## 5. the packet loop -/

/-- **the static loader's packet loop ends at the first EOF/error.**  If the demuxer yields the
    packets `ps` and then fails for the first time (`e = true`: end of stream), then for every
    fuel larger than the number of packets (the loop does not hang and the result does not depend
    on the fuel) the loop returns: the first decode/convert error if a packet fails to decode;
    otherwise, on end of stream, exactly the concatenation of the decoded packets in order (the
    frames decoded so far); otherwise the error. -/
theorem C18_eof_loop_terminates {α σ π : Type} (next : σ → Except Bool (π × σ))
    (dec : π → Except Err (List (Frame α))) (s : σ) (ps : List π) (e : Bool) (hrun : Run next s ps e)
    (fuel : Nat) (hfuel : ps.length < fuel) :
    loadLoop next dec fuel s [] =
      match decodeAll dec ps with
      | .error err => .error err
      | .ok fs => if e then .ok fs else .error .sym := by
  rw [loadLoop_run next dec hrun fuel [] hfuel]
  cases decodeAll dec ps with
  | error err => rfl
  | ok fs => simp

/-- fuel independence: two runs of the loop with enough fuel agree (the `hang` outcome of the
    fuel-bounded model is unreachable whenever the demuxer eventually fails) -/
theorem C18_eof_loop_fuel_independent {α σ π : Type} (next : σ → Except Bool (π × σ))
    (dec : π → Except Err (List (Frame α))) (s : σ) (ps : List π) (e : Bool) (hrun : Run next s ps e)
    (fuel₁ fuel₂ : Nat) (h₁ : ps.length < fuel₁) (h₂ : ps.length < fuel₂) (acc : List (Frame α)) :
    loadLoop next dec fuel₁ s acc = loadLoop next dec fuel₂ s acc := by
  rw [loadLoop_run next dec hrun fuel₁ acc h₁, loadLoop_run next dec hrun fuel₂ acc h₂]

/-! ## 6. truncated files -/

/-- **a truncated file gives the valid prefix** (partial).  Cut an encoded 1- or 2-channel file
    anywhere at or after the end of its 44-byte header: the static loader returns `Ok` with the
    header's sample rate and exactly the frames that are wholly present — a prefix of the full
    load, the cut frame dropped, nothing invented.

    Full statement wanted by the property: *every* truncation and *every* single-point corruption
    of *any* valid file (any container/codec) gives `Err` or a valid prefix, never a panic or hang.
    Missing: cuts inside the header (`t < 44`: the model and kira both answer `Err`, checked by the
    correspondence only), corruptions (the model predicts kira's answer on every generated
    mutation — including the zero-sample-rate panic — but there is no theorem), and everything
    about Symphonia's real parsers, which are third-party and only tested. -/
theorem C18_truncated_file_prefix_partial {α : Type} [Add α] [Sub α] [Mul α] [Div α] [Neg α] [LT α] [LE α]
    [DecidableLT α] [DecidableLE α] [OfScientific α] [KOps α]
    (fd : FloatDec α) (s : Spec) (hs : s.Decodable)
    (hch : s.channels = 1 ∨ s.channels = 2) (m : Nat) (codes : List Nat)
    (hlen : codes.length = m * s.channels) (hr : InRange s.fmt codes)
    (hL : FitsRiff (codes.length * s.fmt.bytes)) (t : Nat) (ht : 44 ≤ t) :
    loadStatic fd (encode s codes) = .ok (s.rate, fileFrames fd s m codes) ∧
    loadStatic fd ((encode s codes).take t)
      = .ok (s.rate, (fileFrames fd s m codes).take ((t - 44) / (s.channels * s.fmt.bytes))) :=
  ⟨loadStatic_encode fd s hs hch m codes hlen hr hL, loadStatic_truncated fd s hs hch m codes hlen hr hL t ht⟩

/-! ## 7. streaming a truncated file ends -/

section StreamingEnds
variable {α σ : Type} [OfScientific α]

/-- **streaming terminates for every decoder that makes progress.**  Suppose the decoder has a
    bounded measure of data left (`≤ L`) that every successful `decode` strictly decreases — i.e. it
    reports the end of its data as an *error*, it cannot answer `Ok` for ever.  Then from EVERY
    scheduler state (any history, any slice, any position):
    * `frame_at_index i` returns within `L + 1` calls of `decode` (fuel above `L` is never
      exhausted): a frame, or an error value that the decoder returned (or the panic of an inverted
      slice) — not the model's `hang`;
    * the decoder thread (`DecodeScheduler::start`) ends within `num_frames − position + 1`
      iterations: with `reached_end`, or with that error pushed to the handle and
      `encountered_error` set (the sound is then marked Stopped by its next `process`);
    * the answer of the decode-forward loop does not depend on the fuel (any two fuels above `L`).
    The seeded change `C18-eof-swallowed` (`UnexpectedEof ↦ Ok(vec![])`) breaks exactly the
    hypothesis `decode_lt` — see `C18_eof_swallowed_spins`. -/
theorem C18_streaming_truncated_terminates (D : Decoder σ α) (left : σ → Nat) (L : Nat)
    (P : Progress D left L) (cfg : Cfg) (fuel : Nat) (hfuel : L < fuel) (st : Sched σ α) :
    (∀ i, (∃ r, frameAtIndex D cfg fuel st i = .ok r) ∨
      (∃ e, frameAtIndex D cfg fuel st i = .error e ∧ ((e = .panic ∧ cfg.Inverted) ∨ DecErr D e))) ∧
    (∀ steps acc, cfg.numFrames - st.position < steps →
      (∃ r, runThread D cfg fuel steps st acc = .ok r ∧ ∀ e, r.error = some e → DecErr D e) ∨
      (∃ e, runThread D cfg fuel steps st acc = .error e ∧ ((e = .panic ∧ cfg.Inverted) ∨ DecErr D e))) ∧
    (∀ index s cur f₁ f₂, L < f₁ → L < f₂ →
      decodeUntil D index f₁ s cur = decodeUntil D index f₂ s cur) :=
  ⟨fun i => frameAtIndex_terminates D left L P cfg fuel hfuel st i,
   fun steps acc h => runThread_terminates D left L P cfg fuel hfuel steps st acc h,
   fun index s cur f₁ f₂ h₁ h₂ => decodeUntil_fuel D left L P index L s cur f₁ f₂ (P.bounded s) h₁ h₂⟩

omit [OfScientific α] in
/-- **the hypothesis is necessary**: a decoder that answers the end of its data with an empty
    chunk and an unchanged state (`decode s = Ok([])`) has no progress measure, and
    `frame_at_index`'s decode-forward loop never returns from that state, whatever the fuel
    (the frame it waits for is not in an empty chunk): the decoder thread spins, no error reaches
    the handle, the sound stays Playing. -/
theorem C18_eof_swallowed_spins (D : Decoder σ α) (s : σ) (h : D.decode s = .ok ([], s)) :
    (∀ left L, ¬ Progress D left L) ∧
    (∀ index fuel cur, decodeUntil D index fuel s cur = .error .hang) :=
  ⟨fun left L => no_progress_of_empty_ok D s h left L, fun index fuel cur => decodeUntil_spins D s h index fuel cur⟩

end StreamingEnds

section StreamingEndsWav
variable {α : Type} [Add α] [Sub α] [Mul α] [Div α] [Neg α] [LT α] [LE α]
  [DecidableLT α] [DecidableLE α] [OfScientific α] [KOps α]

/-- **streaming ANY RIFF/WAVE byte string ends** (no hypothesis about the file): whatever the
    `fmt ` chunk and the data-chunk length field say and however many bytes really follow
    (a file cut anywhere, a header that promises more frames than are present, …), the modelled
    Symphonia WAV decoder makes progress, so from every scheduler state with a non-inverted slice
    the decoder thread ends within `num_frames − position + 1` iterations, each needing at most
    `dataLen + 1` packets: either `reached_end`, or a `SymphoniaError` (end of stream /
    seek out of range) or `UnsupportedChannelConfiguration` on the handle and the sound Stopped. -/
theorem C18_streaming_any_wav_terminates (fd : FloatDec α) (fc : FmtChunk) (r : Reader) (cfg : Cfg)
    (hslice : ¬ cfg.Inverted) (st : Sched Nat α) (fuel : Nat) (hfuel : r.dataLen < fuel)
    (steps : Nat) (hsteps : cfg.numFrames - st.position < steps) (acc : List (Frame α × Nat)) :
    ∃ res, runThread (wavDecoder fd fc r) cfg fuel steps st acc = .ok res ∧
      (res.error = none ∨ res.error = some .sym ∨ res.error = some .chan) := by
  have P := wavDecoder_progress fd fc r
  rcases runThread_terminates _ _ _ P cfg fuel hfuel steps st acc hsteps with ⟨res, h, he⟩ | ⟨e, h, hd⟩
  · refine ⟨res, h, ?_⟩
    cases hr : res.error with
    | none => exact .inl rfl
    | some e =>
      rcases wavDecoder_errors fd fc r e (he e hr) with rfl | rfl
      · exact .inr (.inl rfl)
      · exact .inr (.inr rfl)
  · exfalso
    -- a `runThread` error is `hang` or `panic`; neither is a value the WAV decoder returns,
    -- and the slice is not inverted
    have hhp : e = .hang ∨ e = .panic := runThread_error_kind _ cfg fuel steps st acc e h
    rcases hd with ⟨hp, hi⟩ | hd
    · exact hslice hi
    · rcases wavDecoder_errors fd fc r e hd with rfl | rfl <;> rcases hhp with h' | h' <;> cases h'

end StreamingEndsWav

/-! ## non-vacuity -/

/-- the hypotheses of the round trip / load theorems are satisfiable (CD-quality stereo) -/
example : (⟨.s16, 2, 44100⟩ : Spec).Decodable ∧ InRange .s16 [1, 65535, 32767, 32768]
    ∧ FitsRiff ([1, 65535, 32767, 32768].length * Fmt.s16.bytes) := by
  refine ⟨⟨⟨by decide, by decide, by decide⟩, by decide, by decide⟩, ?_, by unfold FitsRiff; decide⟩
  intro c hc; simp at hc; rcases hc with rfl | rfl | rfl | rfl <;> decide

/-- the round trip on that file, computed -/
example : decodeFile (encode ⟨.s16, 2, 44100⟩ [1, 65535, 32767, 32768])
    = some (⟨.s16, 2, 44100⟩, [1, 65535, 32767, 32768]) := by decide

/-- a 3-channel file with one frame is rejected, a zero sample rate makes the real code panic
    (the model says so too), a 27-channel file is refused by the demuxer -/
example : parse (encode ⟨.u8, 1, 0⟩ [128]) = .error .panic ∧
    parse (encode ⟨.u8, 27, 8000⟩ []) = .error .sym := ⟨by rfl, by rfl⟩

/-- conversion end points over ℝ: the most negative code is exactly −1, the largest is 1 − 2⁻¹⁵ -/
example (fd : FloatDec ℝ) : convSample fd .s16 0x8000 = -1 ∧ convSample fd .s16 0x7fff = 32767 / 32768 := by
  obtain ⟨_, h16, _⟩ := C18_sample_conversion fd
  rw [h16, h16]
  constructor <;> norm_num [toSigned]

/-- a decoder satisfying the contract exists for every encoded file (`wavDecoder_contract`), so
    `C18_streaming_equals_loading` is not vacuous; here: a demuxer run with two packets then EOF -/
example : Run (fun (n : Nat) => if n < 2 then .ok (n, n + 1) else .error true) 0 [0, 1] true :=
  .more rfl (.more rfl (.stop rfl))

/-- the progress hypothesis of `C18_streaming_truncated_terminates` is satisfiable: the WAV decoder over any
    reader has it; and the premise of `C18_eof_swallowed_spins` is satisfiable: a decoder that
    answers `Ok([])` for ever -/
example (fd : FloatDec ℝ) (fc : FmtChunk) (r : Reader) :
    ∃ left L, Progress (wavDecoder fd fc r) left L := ⟨_, _, wavDecoder_progress fd fc r⟩
example : ∃ (D : Decoder Unit ℝ) (s : Unit), D.decode s = .ok ([], s) :=
  ⟨⟨fun s => .ok ([], s), fun s i => .ok (i, s)⟩, (), rfl⟩

end K
