/-
  C01 (system part) — the component results C01 rests on, re-exported under C01 so that the C01 check
  re-verifies them against the current source on every run (a change that breaks one of them breaks a C01
  proof obligation).  Each alias is the component theorem itself (same statement, same proof term):

  * no audio-path loop can hang or underflow: transport wrap loops (any history of valid operations; a
    degenerate loop region never reaches them), static sound in its domain — which is every slice, start
    position and direction: building a sound and stepping it never faults, a lookup never leaves the data —,
    the transport's wrap into the loop region and the clock's tick count are closed forms without any loop
    (equal to the loops the code used to run wherever those returned), `Clock::update` and every history
    of the clock system return for EVERY speed (`SecondsPerTick(0)`, `1e300` ticks per second included);
  * the resource queues cannot overflow at the protocol's granularity and the audio thread only moves resources,
    it never destroys them (no free on the audio thread);
  * every effect is defined on its documented ranges (no zero divisor, no square root of a negative), the reverb
    never indexes outside its lines at ≥ 196 Hz, the delay line is never empty;
  * the mixer hands every component slices of at most the internal buffer size, each frame exactly once, through
    scratch buffers that are clean whenever they are handed on.
-/
import KiraModel.Props.C02
import KiraModel.Props.C04
import KiraModel.Props.C05
import KiraModel.Props.C08
import KiraModel.Props.C13
import KiraModel.Props.C14
import Batteries.Tactic.Alias

namespace K

alias C01_transport_never_faults := C04_transport_inv
alias C01_loop_region_never_degenerate := C04_transport_loop_never_degenerate
alias C01_static_sound_never_faults := C04_in_domain_never_faults
alias C01_any_static_sound_starts := C04_any_sound_starts
alias C01_static_lookup_in_bounds := C04_never_outside_slice
alias C01_tick_loop_terminates := C05_tick_loop_fuel_independent
alias C01_tick_count_eq_loop := C05_tick_count_eq_loop
alias C01_clock_update_never_hangs := C05_update_never_hangs
alias C01_clock_system_never_hangs := C05_no_history_hangs
alias C01_infinite_clock_speed_saturates := C05_infinite_speed_saturates
alias C01_clock_speed_tween_never_nan := C05_speed_interpolation_never_nan
alias C01_wrap_closed_form_eq_loop := C04_wrap_closed_form_eq_loop
alias C01_wrap_lands_in_region := C04_wrap_lands_in_region
alias C01_resource_queues_bounded := C08_queue_bounds_partial
alias C01_audio_thread_never_frees := C08_destroyed_off_audio_thread
alias C01_filter_defined := C13_filter_defined
alias C01_eq_defined := C13_eq_defined
alias C01_distortion_defined := C13_dist_defined
alias C01_compressor_defined := C13_comp_defined
alias C01_reverb_never_faults := C13_reverb_never_faults
alias C01_delay_line_nonempty := C14_delay_line_nonempty
alias C01_each_frame_once := C02_each_frame_once
alias C01_temp_buffers_clean := C02_temp_buffers_clean
alias C01_real_effects_chunk_free_partial := C13_real_effects_chunk_free_partial
alias C01_real_components_chunk_free_partial := C13_real_components_chunk_free_partial

end K
