/-
  C01 — the audio callback is real-time safe and its output is always well-formed.
  This file holds the system-level theorems proved so far; it grows as component models land:
  * the renderer's final stage is well-formed for ANY bus value (range, mono mean, silent extra channels);
  * a callback is cut into ⌈frames / ibs⌉ chunks that cover it exactly (bounded work, no over-run).
  Termination / no-panic of the components (transport loops, clock tick loop, resource queues, effect
  definedness) are proved in the owning properties' files (C04, C05, C08, C13) and cited in DESIGN.md.
-/
import KiraModel.Proofs.RealOps
import KiraModel.Model.RendererFinal
import KiraModel.Props.C01_system
import KiraModel.Props.C01_full
import Mathlib.Tactic.Linarith
import Mathlib.Tactic.NormNum

namespace K

/-- every sample written for a frame is a real number in [-1, 1], whatever the bus holds. -/
theorem C01_output_in_range (ch : ℕ) (f : Frame ℝ) : ∀ x ∈ convertFrame ch f, -1 ≤ x ∧ x ≤ 1 := by
  intro x hx
  have hl := clamp_mem f.left (-(1 : ℝ)) 1 (by norm_num)
  have hr := clamp_mem f.right (-(1 : ℝ)) 1 (by norm_num)
  unfold convertFrame at hx
  simp only [lit_1, lit_2, lit_0, r32_real, nanToZero_real] at hx
  split at hx
  · simp only [List.mem_singleton] at hx
    subst hx
    constructor <;> linarith [hl.1, hl.2, hr.1, hr.2]
  · simp only [List.mem_cons, List.mem_replicate] at hx
    rcases hx with rfl | rfl | ⟨_, rfl⟩
    · exact hl
    · exact hr
    · constructor <;> norm_num

/-- with one channel the sample is the mean of the (clamped) left and right. -/
theorem C01_mono_is_mean (f : Frame ℝ) :
    convertFrame 1 f = [(clamp f.left (-1) 1 + clamp f.right (-1) 1) / 2] := by
  unfold convertFrame; simp

/-- with more than two channels the first two carry left/right and all others are exactly 0. -/
theorem C01_extra_channels_silent (ch : ℕ) (hch : 2 ≤ ch) (f : Frame ℝ) :
    convertFrame ch f = clamp f.left (-1) 1 :: clamp f.right (-1) 1 :: List.replicate (ch - 2) 0 := by
  have h1 : ch ≠ 1 := by omega
  unfold convertFrame; simp [h1]

/-- exactly `ch` samples are written per frame (no over- or under-run of the device buffer). -/
theorem C01_samples_per_frame (ch : ℕ) (hch : 1 ≤ ch) (f : Frame ℝ) : (convertFrame ch f).length = ch := by
  unfold convertFrame
  by_cases h1 : ch = 1
  · simp [h1]
  · simp only [h1, if_false, List.length_cons, List.length_replicate]; omega

/-- a chunk of `n` bus frames becomes `n · ch` samples. -/
theorem C01_chunk_length (ch : ℕ) (hch : 1 ≤ ch) (bus : List (Frame ℝ)) :
    (convertChunk ch bus).length = bus.length * ch := by
  unfold convertChunk
  induction bus with
  | nil => simp
  | cons f rest ih =>
    simp only [List.flatMap_cons, List.length_append, List.length_cons, ih, C01_samples_per_frame ch hch f]
    ring

/-- the callback is cut into chunks of at least 1 and at most `ibs` frames that add up to the whole
    callback — so the number of chunks is at most `frames`, and none exceeds the internal buffers. -/
theorem C01_chunks_cover (ibs : ℕ) (hibs : 1 ≤ ibs) :
    ∀ (fuel frames : ℕ), frames ≤ fuel →
      (finalChunkSizes ibs fuel frames).sum = frames ∧ ∀ n ∈ finalChunkSizes ibs fuel frames, 1 ≤ n ∧ n ≤ ibs := by
  intro fuel
  induction fuel with
  | zero =>
    intro frames h
    have : frames = 0 := by omega
    subst this; simp [finalChunkSizes]
  | succ k ih =>
    intro frames h
    unfold finalChunkSizes
    by_cases h0 : frames = 0
    · simp [h0]
    · simp only [h0, if_false]
      by_cases hle : ibs ≤ frames
      · simp only [hle, if_true]
        obtain ⟨a, b⟩ := ih (frames - ibs) (by omega)
        refine ⟨by simp only [List.sum_cons, a]; omega, ?_⟩
        intro n hn
        simp only [List.mem_cons] at hn
        rcases hn with rfl | hn
        · exact ⟨hibs, le_refl _⟩
        · exact b n hn
      · simp only [hle, if_false]
        obtain ⟨a, b⟩ := ih (frames - frames) (by omega)
        refine ⟨by simp only [List.sum_cons, a]; omega, ?_⟩
        intro n hn
        simp only [List.mem_cons] at hn
        rcases hn with rfl | hn
        · exact ⟨by omega, by omega⟩
        · exact b n hn

example : convertFrame 3 (⟨2, -3⟩ : Frame ℝ) = [1, -1, 0] := by
  rw [C01_extra_channels_silent 3 (by norm_num)]
  unfold clamp; norm_num

end K
