import KiraModel.Props.C14_a
