import KiraModel.Props.C14_b
