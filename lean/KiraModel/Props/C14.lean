import KiraModel.Props.C14_a
import KiraModel.Props.C14_b
import KiraModel.Proofs.GenAgreeFx
