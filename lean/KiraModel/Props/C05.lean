/-
  C05 — clocks keep exact audio time; clock-scheduled events fire in the right buffer.
  Statements about the models of clock.rs / clock/handle.rs (Model/Clock.lean), of one renderer
  chunk (Model/ClockSys.lean) and of the two-word time protocol (Model/Conc/ClockShared.lean),
  over ℝ and over all histories / partitions / interleavings.  Helper lemmas: Proofs/Clock*.lean.
-/
import KiraModel.Proofs.ClockSysLemmas
import KiraModel.Proofs.ClockSharedLemmas
import KiraModel.Proofs.ClockTweenLemmas

namespace K
open Clock Conc

/-- a clock speed whose ticks-per-second value means the same over ℝ and in floating point:
    `SecondsPerTick(0)` is `∞` ticks per second in IEEE arithmetic (since the repair of the tick loop the
    clock then jumps to the saturated tick count — `C05_infinite_speed_saturates`; before it the audio
    thread hung), while `1 / 0 = 0` over ℝ — so the theorems that state the formula `t₀ + v·Σdt` exclude
    it.  It is NOT needed for termination any more: `C05_update_never_hangs`, `C05_no_history_hangs`. -/
def ClockSpeed.Valid : ClockSpeed ℝ → Prop
  | .secondsPerTick s => s ≠ 0
  | _ => True

/-! ### exact time -/

/-- **the tick loop the code used to run is fuel independent**: any two fuels above `⌊timer⌋` give the
    same result, namely `⌊timer⌋` whole ticks and the fractional part of the timer. -/
theorem C05_tick_loop_fuel_independent (fuel₁ fuel₂ n : ℕ) (t : ℝ) (ht : 0 ≤ t)
    (h₁ : ⌊t⌋₊ < fuel₁) (h₂ : ⌊t⌋₊ < fuel₂) :
    tickLoop fuel₁ n t = tickLoop fuel₂ n t ∧ tickLoop fuel₁ n t = some (n + ⌊t⌋₊, Int.fract t) := by
  rw [tickLoop_spec fuel₁ n t ht h₁, tickLoop_spec fuel₂ n t ht h₂]; exact ⟨rfl, rfl⟩

/-- **the repaired tick count equals the loop it replaces, on every input on which the loop returns**
    (`while tick_timer >= 1.0 { tick_timer -= 1.0; ticks += 1 }` → `floor`): for every timer — negative
    ones included —, every tick count and every fuel, if the loop returns then `tickStep` (what
    `Clock::update` now computes, without fuel) returns the same ticks and the same timer; and for a
    non-negative timer both are `⌊timer⌋` more ticks and the fractional part.  (Over the floats the same
    holds bit for bit for every timer below 2^53, where `x - 1.0` is exact — checked on the real code by
    the `clock` suite's `tick` op against the old loop; from 2^53 on the loop never returned.) -/
theorem C05_tick_count_eq_loop (fuel n : ℕ) (t : ℝ) :
    (∀ r, tickLoop fuel n t = some r → tickStep n t = r)
      ∧ (0 ≤ t → tickStep n t = (n + ⌊t⌋₊, Int.fract t))
      ∧ (0 ≤ t → ⌊t⌋₊ < fuel → tickLoop fuel n t = some (tickStep n t)) :=
  ⟨tickStep_eq_loop fuel n t, tickStep_nonneg n t,
   fun h0 hf => by rw [tickLoop_spec fuel n t h0 hf, tickStep_nonneg n t h0]⟩

/-- **an infinite speed saturates instead of hanging** (every number type, in particular the floats the
    twin runs): when the timer's whole part is not finite — `SecondsPerTick(0.0)` or a subnormal value
    (`1/x = ∞`), or a speed × step that overflows — the tick count is the saturated sum and the timer
    restarts at exactly `0.0`; and a timer below 1 (also a NaN or `−∞` one, for which `1.0 ≤ timer` is
    false) is left alone.  There is no loop and no fuel in `Clock.update`. -/
theorem C05_infinite_speed_saturates {α : Type} [Add α] [Sub α] [Mul α] [Div α] [Neg α] [LT α] [LE α]
    [DecidableLT α] [DecidableLE α] [OfScientific α] [KOps α] (ticks : ℕ) (timer : α) :
    ((1.0 : α) ≤ timer → KOps.isFinite (KOps.floor timer) = false →
        tickStep ticks timer = (KOps.satU64 (α := α) (ticks + KOps.toNatSat (KOps.floor timer)), (0.0 : α)))
      ∧ (¬ (1.0 : α) ≤ timer → tickStep ticks timer = (ticks, timer)) := by
  constructor
  · intro h1 hf; simp [tickStep, h1, hf]
  · intro h1; simp [tickStep, h1]

/-- **`Clock::update` always returns** — for every clock, every speed (`SecondsPerTick(0)`, `1e300` ticks
    per second, negative, NaN in the twin …), every `dt` and `Info`: it is a total function (no fuel, no
    `Option`); it advances the speed parameter exactly once and touches neither the ticking flag, the
    command slots nor the shared words.  (Before the repair the model needed fuel and the hypothesis
    `ClockSpeed.Valid`; the code hung.) -/
theorem C05_update_never_hangs (c : Clock ℝ) (dt : ℝ) (info : Info ℝ) :
    ∃ c' r, c.update dt info = (c', r) ∧ c'.speed = (c.speed.update twCs dt info).1
      ∧ c'.ticking = c.ticking ∧ c'.cmds = c.cmds ∧ c'.shared = c.shared := by
  obtain ⟨h1, h2, h3, h4⟩ := update_frame c dt info
  exact ⟨_, _, rfl, h1, h2, h3, h4⟩

/-- **a started clock advances by exactly speed × elapsed time, whatever the partition.**  A
    ticking clock whose speed is at rest at `v ≥ 0` ticks per second, after updates `dt₁ … dtₙ`
    (each `≥ 0`, any number, ANY sizes — no bound on `v · dt` any more: the tick count is computed, not
    looped), shows the time `t₀ + v · Σ dtᵢ`: whole part in `ticks`, fractional part in `[0, 1)` — a
    function of the *sum* only. -/
theorem C05_clock_accumulates (c : Clock ℝ) (info : Info ℝ) (v : ℝ) (dts : List ℝ)
    (htick : c.ticking = true) (hwf : Clock.WF c) (hspeed : SteadySpeed c v)
    (_hvalid : c.speed.raw.Valid) (hv : 0 ≤ v)
    (hnn : ∀ dt ∈ dts, 0 ≤ dt) :
    (c.run info dts).state.time = ⟨⌊val c + v * dts.sum⌋₊, Int.fract (val c + v * dts.sum)⟩
      ∧ ((c.run info dts).state.time.ticks : ℝ) + (c.run info dts).state.time.fraction = val c + v * dts.sum
      ∧ 0 ≤ (c.run info dts).state.time.fraction ∧ (c.run info dts).state.time.fraction < 1 := by
  obtain ⟨hval, hwf', _, _⟩ := run_steady info v hv dts c htick hwf hspeed hnn
  refine ⟨?_, hval, hwf'.1, hwf'.2⟩
  have := time_eq_of_val (c.run info dts).state.time hwf'
  unfold val at hval
  rw [hval] at this
  exact this

/-- **partition independence, stated directly**: two ways of splitting the same elapsed time into
    updates (callbacks × chunks of any sizes) leave the clock at the same time. -/
theorem C05_partition_independent (c : Clock ℝ) (info : Info ℝ) (v : ℝ) (dts₁ dts₂ : List ℝ)
    (htick : c.ticking = true) (hwf : Clock.WF c) (hspeed : SteadySpeed c v)
    (hvalid : c.speed.raw.Valid) (hv : 0 ≤ v)
    (hnn₁ : ∀ dt ∈ dts₁, 0 ≤ dt) (hnn₂ : ∀ dt ∈ dts₂, 0 ≤ dt)
    (hsum : dts₁.sum = dts₂.sum) :
    (c.run info dts₁).state.time = (c.run info dts₂).state.time := by
  obtain ⟨e₁, _⟩ := C05_clock_accumulates c info v dts₁ htick hwf hspeed hvalid hv hnn₁
  obtain ⟨e₂, _⟩ := C05_clock_accumulates c info v dts₂ htick hwf hspeed hvalid hv hnn₂
  rw [e₁, e₂, hsum]

/-- **pausing freezes the clock.**  `pause()` takes effect at the next `on_start_processing`
    (ticking off, published flag off); from then on no sequence of updates moves the time. -/
theorem C05_pause_freezes (c : Clock ℝ) (info : Info ℝ) (dts : List ℝ) :
    (c.hPause.onStartProcessing).ticking = false
      ∧ (c.hPause.onStartProcessing).hTicking = false
      ∧ (c.cmds.reset = false → (c.hPause.onStartProcessing).state = c.state)
      ∧ (c.ticking = false →
          (c.run info dts).state = c.state ∧ (c.run info dts).ticking = false
            ∧ (c.run info dts).hTime = c.hTime) := by
  refine ⟨?_, ?_, ?_, ?_⟩
  · unfold Clock.onStartProcessing Clock.hPause
    cases c.cmds.setSpeed <;> by_cases hr : c.cmds.reset = true <;>
      simp [hr, Clock.updateShared, Clock.setTicking, Clock.reset]
  · unfold Clock.onStartProcessing Clock.hPause Clock.hTicking
    cases c.cmds.setSpeed <;> by_cases hr : c.cmds.reset = true <;>
      simp [hr, Clock.updateShared, Clock.setTicking, Clock.reset]
  · intro hr
    unfold Clock.onStartProcessing Clock.hPause
    cases c.cmds.setSpeed <;> simp [hr, Clock.updateShared, Clock.setTicking]
  · intro ht
    obtain ⟨h2, h3, h4, _⟩ := run_not_ticking info dts c ht
    exact ⟨h2, h3, by unfold Clock.hTime; rw [h4]⟩

/-- **stopping resets the clock to zero.**  `stop()` makes the handle read `0` at once; at the next
    `on_start_processing` the clock is `NotStarted`, not ticking, publishes `(0, 0.0)`; it stays
    there through any updates; and once restarted it counts from zero again. -/
theorem C05_stop_resets (c : Clock ℝ) (info : Info ℝ) (dts : List ℝ) :
    c.hStop.hTime = ⟨0, 0⟩
      ∧ (c.hStop.onStartProcessing).state = .notStarted
      ∧ (c.hStop.onStartProcessing).ticking = false
      ∧ (c.hStop.onStartProcessing).hTime = ⟨0, 0⟩
      ∧ (((c.hStop.onStartProcessing).run info dts).state = .notStarted
            ∧ ((c.hStop.onStartProcessing).run info dts).hTime = ⟨0, 0⟩)
      ∧ val (c.hStop.onStartProcessing) = 0 ∧ Clock.WF (c.hStop.onStartProcessing) := by
  have hstate : (c.hStop.onStartProcessing).state = .notStarted := by
    unfold Clock.onStartProcessing Clock.hStop
    cases c.cmds.setSpeed <;> simp [Clock.updateShared, Clock.setTicking, Clock.reset]
  have htick : (c.hStop.onStartProcessing).ticking = false := by
    unfold Clock.onStartProcessing Clock.hStop
    cases c.cmds.setSpeed <;> simp [Clock.updateShared, Clock.setTicking, Clock.reset]
  have htime : (c.hStop.onStartProcessing).hTime = ⟨0, 0⟩ := by
    unfold Clock.onStartProcessing Clock.hStop Clock.hTime
    cases c.cmds.setSpeed <;> simp [Clock.updateShared, Clock.setTicking, Clock.reset, ClockState.time]
  refine ⟨by simp [Clock.hStop, Clock.hTime], hstate, htick, htime, ?_, ?_, ?_⟩
  · obtain ⟨h2, _, h4, _⟩ := run_not_ticking info dts _ htick
    exact ⟨by rw [h2, hstate], by unfold Clock.hTime at htime ⊢; rw [h4]; exact htime⟩
  · unfold val; rw [hstate]; simp [ClockState.time, ClockTime.val]
  · unfold Clock.WF; rw [hstate]; simp [ClockState.time, ClockTime.WF]

/-- **the handle shows the clock's state as of the last `on_start_processing`.** -/
theorem C05_handle_shows_state (c : Clock ℝ) :
    (c.onStartProcessing).hTime = (c.onStartProcessing).state.time
      ∧ (c.cmds.setTicking.isSome → (c.onStartProcessing).hTicking = (c.onStartProcessing).ticking) := by
  constructor
  · unfold Clock.onStartProcessing Clock.hTime Clock.updateShared; simp
  · intro h
    unfold Clock.onStartProcessing Clock.hTicking
    cases hs : c.cmds.setTicking with
    | none => rw [hs] at h; simp at h
    | some b =>
      cases c.cmds.setSpeed <;> by_cases hr : c.cmds.reset = true <;>
        simp [hr, Clock.updateShared, Clock.setTicking, Clock.reset]

/-! ### speed changes -/

/-- **a speed change takes effect when it is due (C06 with the clock's update as time base).**
    `set_speed` reaches the parameter at the next `on_start_processing` as a C06 `set`; every clock
    update — ticking or not — advances the speed parameter exactly once with the same `dt` and
    `Info`, so over a run the speed is `Parameter.run` on the same steps (all of C06 applies to it);
    and a ticking clock's step uses the speed *after* that advance. -/
theorem C05_speed_change_when_due (c : Clock ℝ) (info : Info ℝ) :
    (∀ v tw, ((c.hSetSpeed v tw).onStartProcessing).speed = c.speed.set v tw)
    ∧ (∀ dts, (c.run info dts).speed = (c.speed.run twCs info dts).1)
    ∧ (∀ dt, c.ticking = true → Clock.WF c → 0 ≤ dt →
        0 ≤ (c.speed.update twCs dt info).1.raw.asTicksPerSecond →
        val (c.update dt info).1 = val c + (c.speed.update twCs dt info).1.raw.asTicksPerSecond * dt) := by
  refine ⟨?_, ?_, ?_⟩
  · intro v tw
    unfold Clock.onStartProcessing Clock.hSetSpeed
    cases c.cmds.setTicking <;> by_cases hr : c.cmds.reset = true <;>
      simp [hr, Clock.updateShared, Clock.setTicking, Clock.reset]
  · intro dts; exact run_speed info dts c
  · intro dt ht hwf hdt hv
    exact (update_ticking c dt info ht hwf hdt hv).1

/-- **an immediate speed change**: `set_speed(s, Tween{Immediate, 0 s})` is in force from the very
    next update: from there the clock advances at the new speed for ever (any partition). -/
theorem C05_speed_change_immediate (c : Clock ℝ) (info : Info ℝ) (s : ClockSpeed ℝ)
    (e : Easing ℝ) (dts : List ℝ) (htick : c.ticking = true) (hwf : Clock.WF c)
    (hstate : c.speed.state = .tweening c.speed.raw (.fixed s) 0 ⟨.immediate, 0, e⟩)
    (hst : c.speed.stagnant = false) (hvalid : s.Valid) (hv : 0 ≤ s.asTicksPerSecond)
    (hnn : ∀ dt ∈ dts, 0 ≤ dt) :
    dts ≠ [] → ((c.run info dts).state.time.ticks : ℝ) + (c.run info dts).state.time.fraction
      = val c + s.asTicksPerSecond * dts.sum := by
  cases dts with
  | nil => exact fun h => absurd rfl h
  | cons dt rest =>
    intro _
    have hdt : 0 ≤ dt := hnn dt (by simp)
    -- the first update lands the parameter on the new speed
    have hup : (c.speed.update twCs dt info).1.raw = s ∧ (c.speed.update twCs dt info).1.stagnant = true := by
      unfold Parameter.update
      simp only [hst, Bool.false_eq_true, if_false]
      unfold Parameter.updateTween
      have hle : (durToSecs 0 : ℝ) ≤ 0 + dt := by rw [durToSecs_zero]; linarith
      simp only [hstate, Bool.not_true, Bool.false_eq_true, if_false, hle, if_true, Value.isFixed]
      simp [Parameter.calcRaw, Value.rawValue]
    obtain ⟨hval1, hwf1, ht1, hsp1, _, _⟩ :=
      update_ticking c dt info htick hwf hdt (by rw [hup.1]; exact hv)
    have hs1 : SteadySpeed (c.update dt info).1 s.asTicksPerSecond := by
      unfold SteadySpeed; rw [hsp1]; exact ⟨hup.2, by rw [hup.1]⟩
    have hv1 : (c.update dt info).1.speed.raw.Valid := by rw [hsp1, hup.1]; exact hvalid
    obtain ⟨_, hval2, _⟩ := C05_clock_accumulates (c.update dt info).1 info _ rest ht1 hwf1 hs1 hv1 hv
      (fun x hx => hnn x (by simp [hx]))
    simp only [Clock.run]
    rw [hval2, hval1, hup.1, List.sum_cons]; ring

/-- **a speed tween is the linear interpolation in the target speed's unit** (over ℝ, where every
    conversion is finite): `ClockSpeed::interpolate(a, b, t)` converts the start into the unit of the
    target and interpolates there; it lands exactly on the target at `t = 1`. -/
theorem C05_speed_interpolation (a b : ClockSpeed ℝ) (t : ℝ) :
    ClockSpeed.lerp a b t = ClockSpeed.lerpInTargetUnit a b t ∧ ClockSpeed.lerp a b 1 = b := by
  constructor
  · cases b <;> simp [ClockSpeed.lerp, ClockSpeed.lerpInTargetUnit]
  · cases b <;> simp [ClockSpeed.lerp, lerp64]

/-- **a speed tween never manufactures a NaN speed** (every number type, in particular the floats the twin
    runs — repaired: a clock at 0 ticks per second retargeted with a tween to a `SecondsPerTick` speed used to
    get `inf + (b − inf)·t = NaN` as its speed, and its time stayed NaN until `stop()`): the interpolated
    speed is finite in its unit; or it was computed in the unit of the starting speed and is not NaN (it may
    be infinite when the TARGET is an infinite speed: the clock then saturates, `C05_infinite_speed_saturates`);
    or it is the starting speed itself. -/
theorem C05_speed_interpolation_never_nan {α : Type} [Add α] [Sub α] [Mul α] [Div α] [Neg α] [LT α] [LE α]
    [DecidableLT α] [DecidableLE α] [OfScientific α] [KOps α] (a b : ClockSpeed α) (t : α) :
    KOps.isFinite (ClockSpeed.lerp a b t).raw = true
      ∨ KOps.isNaN (ClockSpeed.lerp a b t).raw = false
      ∨ ClockSpeed.lerp a b t = a := by
  have hstart : KOps.isNaN (ClockSpeed.lerpInUnitOfStart a b t).raw = false
      ∨ ClockSpeed.lerpInUnitOfStart a b t = a := by
    cases a <;> (
      unfold ClockSpeed.lerpInUnitOfStart
      dsimp only
      split
      · right; rfl
      · rename_i h; left; simpa [ClockSpeed.raw] using h)
  cases b <;> (
    unfold ClockSpeed.lerp
    dsimp only
    split
    · rename_i h; left; simpa [ClockSpeed.raw] using h
    · rcases hstart with h | h
      · right; left; exact h
      · right; right; exact h)

/-- **a speed tween scheduled on a clock time waits for it**: while the `Info` the clock is
    updated with does not say `Now` for that time, the tween has not begun (its state, with tween
    time 0, is untouched) — for every value type. -/
theorem C05_speed_tween_waits_for_clock_time (c : Clock ℝ) (dt : ℝ) (info : Info ℝ)
    (start : ClockSpeed ℝ) (target : Value ℝ (ClockSpeed ℝ)) (k : ℕ) (T : ClockTime ℝ)
    (D : ℕ) (e : Easing ℝ)
    (hs : c.speed.state = .tweening start target 0 ⟨.clockTime k T, D, e⟩) (hst : c.speed.stagnant = false)
    (hw : info.whenToStart k T ≠ .now) :
    (c.update dt info).1.speed.state = c.speed.state := by
  rw [(update_frame c dt info).1]
  exact (Parameter.update_waiting_clock twCs c.speed dt info start target k T D e hs hst hw).1

/-! ### the chunk in which clock-scheduled things begin -/

/-- the per-chunk verdicts a consumer of the mixer pass gets for "clock `c` at time `T`" over a
    history: one entry per chunk event, computed from the clocks *after* that chunk's clock update -/
noncomputable def chunkVerdicts (s : Sys ℝ) (c : ℕ) (T : ClockTime ℝ) (evs : List (Ev ℝ)) :
    List WhenToStart :=
  (Sys.mixTrace s evs).map (fun p => p.2.whenToStart c T)

/-- **meaning of a verdict**: `Now` in chunk `k` ⇔ after chunk `k`'s clock update the clock exists,
    is ticking (not paused / stopped) and its time is at or past `T` (for well-formed times: in
    the order of `ticks + fraction`); `Never` ⇔ the clock does not exist. -/
theorem C05_verdict_meaning (s : Sys ℝ) (c : ℕ) (T : ClockTime ℝ) :
    (s.mixInfo.whenToStart c T = .now ↔
        ∃ clk, s.clocks.lookup c = some clk ∧ clk.ticking = true ∧ ClockTime.ge clk.state.time T = true)
    ∧ (s.mixInfo.whenToStart c T = .never ↔ s.clocks.lookup c = none)
    ∧ (∀ clk, Clock.WF clk → ClockTime.WF T →
        (ClockTime.ge clk.state.time T = true ↔ ClockTime.val T ≤ val clk)) := by
  refine ⟨?_, ?_, ?_⟩
  · rw [whenToStart_now_iff]
    simp only [Sys.mixInfo, Sys.infoOf, Option.map_eq_some_iff]
    constructor
    · rintro ⟨ci, ⟨clk, h1, rfl⟩, h2, h3⟩; exact ⟨clk, h1, h2, h3⟩
    · rintro ⟨clk, h1, h2, h3⟩; exact ⟨clk.info, ⟨clk, h1, rfl⟩, h2, h3⟩
  · rw [whenToStart_never_iff]; simp [Sys.mixInfo, Sys.infoOf]
  · intro clk h1 h2; exact ge_iff_val _ _ h1 h2

/-- **a sound (or any consumer of the mixer pass) scheduled for clock time `T` begins in the
    internal buffer during which the clock reaches `T`.**  For *every* history of the system
    (clocks added / started / paused / stopped / re-sped / dropped, callbacks, chunks of any
    lengths), a picked-up waiter with `StartTime::ClockTime(c, T)` plays in the last processed chunk
    iff some chunk `k` of the history got the verdict `Now` while all chunks before it got `Later`
    (`startIndex`); it is cancelled (Stopped) iff the first verdict that is not `Later` is `Never`.
    Since this holds for every history, the first chunk it plays in is exactly that `k`: the first
    chunk at whose end the clock is ticking and at or past `T` — never later, and never a chunk at
    whose end the clock is paused or short of `T` (so at most one buffer before the exact instant). -/
theorem C05_start_chunk (s : Sys ℝ) (j c : ℕ) (T : ClockTime ℝ) (evs : List (Ev ℝ))
    (hw : s.waiters[j]? = some ⟨.clockTime c T, false, false⟩) :
    ∃ s' w, s.run evs = some s' ∧ s'.waiters[j]? = some w
      ∧ (w.audible = true ↔ ∃ k, startIndex (chunkVerdicts s c T evs) = some k)
      ∧ (w.stopped = true ↔ ∃ k, cancelIndex (chunkVerdicts s c T evs) = some k)
      ∧ (w.audible = true → w.st = .immediate ∧ w.stopped = false) := by
  obtain ⟨s', hrun⟩ := Sys.run_total evs s
  refine ⟨s', ?_⟩
  have h := Sys.run_waiter evs s s' j _ hrun hw
  obtain ⟨o1, o2, o3⟩ := Waiter.outcome c T (Sys.mixTrace s evs)
  refine ⟨_, hrun, h, ?_⟩
  unfold chunkVerdicts
  cases hs : startIndex ((Sys.mixTrace s evs).map (fun p => p.2.whenToStart c T)) with
  | some k =>
    rw [o1 (by simp [hs])]
    have hc : cancelIndex ((Sys.mixTrace s evs).map (fun p => p.2.whenToStart c T)) = none := by
      cases hc : cancelIndex ((Sys.mixTrace s evs).map (fun p => p.2.whenToStart c T)) with
      | none => rfl
      | some k' =>
        have a := o1 (by simp [hs])
        have b := o2 (by simp [hc])
        rw [a] at b; simp at b
    simp [hc]
  | none =>
    cases hc : cancelIndex ((Sys.mixTrace s evs).map (fun p => p.2.whenToStart c T)) with
    | some k => rw [o2 (by simp [hc])]; simp
    | none => rw [o3 (by simp [hs]) (by simp [hc])]; simp

/-- reading of `startIndex` / `cancelIndex`: index `k` holds the first verdict that is not `Later`. -/
theorem C05_start_index_meaning (ws : List WhenToStart) (k : ℕ) :
    (startIndex ws = some k ↔ ws[k]? = some .now ∧ ∀ i < k, ws[i]? = some .later)
    ∧ (cancelIndex ws = some k ↔ ws[k]? = some .never ∧ ∀ i < k, ws[i]? = some .later) :=
  ⟨startIndex_spec ws k, cancelIndex_spec ws k⟩

/-- **a missing clock cancels.**  `when_to_start = Never` ⇒ `StartTime::update` reports
    "will never start" (the sound is marked Stopped in that very chunk), and `Never` is exactly
    "the clock is not in the arena". -/
theorem C05_missing_clock_cancels (s : Sys ℝ) (c : ℕ) (T : ClockTime ℝ) (dt : ℝ) (info : Info ℝ) :
    (info.whenToStart c T = .never → (StartTime.clockTime c T).update dt info = (.clockTime c T, true))
    ∧ (s.clocks.lookup c = none →
        (⟨.clockTime c T, false, false⟩ : Waiter ℝ).process dt s.mixInfo = ⟨.clockTime c T, true, false⟩) := by
  constructor
  · intro h; simp [StartTime.update, h]
  · intro h
    have : s.mixInfo.whenToStart c T = .never := (C05_verdict_meaning s c T).2.1.mpr h
    simp [Waiter.process, StartTime.update, this, StartTime.isImmediate]

/-- **modulators look at the clocks one chunk behind.**  In a chunk every tweener modulator is
    updated with the clocks as they were when the chunk *began* (`s.mixInfo`, before this chunk's
    clock update) — whereas sounds see them as they are at its end (`C05_start_chunk`).  So a
    tweener's tween scheduled for clock time `T` stays untouched unless the clock was already
    ticking and at or past `T` at the chunk's beginning, and it begins in the first chunk for
    which that is so: one buffer *after* the buffer during which the clock reached `T`. -/
theorem C05_modulator_tween_start_chunk (s s' : Sys ℝ) (dt : ℝ)
    (h : s.chunk dt = some s') :
    s'.mods = s.mods.map (fun p => (p.1, p.2.update dt s.mixInfo))
    ∧ ∀ (m : ModTweener ℝ) (a b : ℝ) (D : ℕ) (e : Easing ℝ) (c : ℕ) (T : ClockTime ℝ),
        m.state = .tweening a b 0 ⟨.clockTime c T, D, e⟩ →
        (s.mixInfo.whenToStart c T ≠ .now → m.update dt s.mixInfo = m)
        ∧ (s.mixInfo.whenToStart c T = .now →
            (m.update dt s.mixInfo).state = .idle
            ∨ (m.update dt s.mixInfo).state = .tweening a b (0 + dt) ⟨.clockTime c T, D, e⟩) :=
  ⟨Sys.chunk_mods s s' dt h, fun m a b D e c T hs => ModTweener.update_waiting m a b D e c T dt _ hs⟩

/-- **a clock's speed tween scheduled on another clock depends on the key order.**  With two clocks
    `a` (earlier key) and `b`: `a` is updated seeing `b` as it was *before* this chunk's update (one
    buffer late, like a modulator), `b` is updated seeing `a` *after* its update (on time). -/
theorem C05_clock_speed_tween_key_order (s : Sys ℝ) (mods : List (ℕ × ModTweener ℝ))
    (dt : ℝ) (a b : ℕ) (A B : Clock ℝ) (hab : a ≠ b) (hc : s.clocks = [(a, A), (b, B)])
    (A' B' : Clock ℝ)
    (hA : (A.update dt (Sys.infoOf (fun j => if j = a then some Clock.dummy else if j = b then some B else none)
            (fun id => mods.lookup id))).1 = A')
    (hB : (B.update dt (Sys.infoOf (fun j => if j = b then some Clock.dummy else if j = a then some A' else none)
            (fun id => mods.lookup id))).1 = B') :
    s.updateClocks mods dt = some [(a, A'), (b, B')] := by
  have hba : b ≠ a := fun h => hab h.symm
  have v1 : (fun j => if j = a then some Clock.dummy else ([] ++ [(b, B)] : List (ℕ × Clock ℝ)).lookup j)
      = (fun j => if j = a then some Clock.dummy else if j = b then some B else none) := by
    funext j
    by_cases h1 : j = a
    · simp [h1]
    · by_cases h2 : j = b
      · simp [h1, h2, List.lookup]
      · have : (j == b) = false := by simpa using h2
        simp [h1, h2, List.lookup, this]
  have v2 : (fun j => if j = b then some Clock.dummy else (([] ++ [(a, A')]) ++ [] : List (ℕ × Clock ℝ)).lookup j)
      = (fun j => if j = b then some Clock.dummy else if j = a then some A' else none) := by
    funext j
    by_cases h1 : j = b
    · simp [h1]
    · by_cases h2 : j = a
      · simp [h1, h2, List.lookup]
      · have : (j == a) = false := by simpa using h2
        simp [h1, h2, List.lookup, this]
  unfold Sys.updateClocks
  rw [hc]
  simp only [forEachSelfRef, v1, hA, v2, hB]
  rfl

/-- **a speed tween scheduled on the clock's *own* time never fires.**  While a clock is updated
    its arena slot holds the non-ticking stand-in (`Clock::default()`), so its own time always
    answers `Later`.  For every history in which no new speed command is sent to clock `k`: if its
    speed tween waits for `ClockTime{clock: k, …}`, then after the history every clock stored under
    key `k` still has that tween un-begun (tween time 0) — however far the clock itself has run. -/
theorem C05_own_time_speed_tween_never_fires (k : ℕ) (start : ClockSpeed ℝ)
    (target : Value ℝ (ClockSpeed ℝ)) (T : ClockTime ℝ) (D : ℕ) (e : Easing ℝ) :
    ∀ (evs : List (Ev ℝ)) (s s' : Sys ℝ), OwnInv k start target T D e s →
      (∀ ev ∈ evs, ev.leavesSpeedOf k) → s.run evs = some s' →
      ∀ p ∈ s'.clocks, p.1 = k →
        p.2.speed.state = .tweening start target 0 ⟨.clockTime k T, D, e⟩ := by
  intro evs
  induction evs with
  | nil =>
    intro s s' hinv _ hr p hp hk
    simp only [Sys.run, Option.some.injEq] at hr; subst hr
    exact (hinv.2.1 p hp hk).1
  | cons ev rest ih =>
    intro s s' hinv hev hr p hp hk
    simp only [Sys.run] at hr
    cases hs : s.step ev with
    | none => rw [hs] at hr; exact absurd hr (by simp)
    | some s1 =>
      rw [hs] at hr
      exact ih s1 s' (OwnInv.step s s1 ev hinv (hev ev (by simp)) hs)
        (fun x hx => hev x (by simp [hx])) hr p hp hk

/-- **no history of the clock system can hang**: for every system state — whatever the clocks' speeds,
    `SecondsPerTick(0)` and `1e300` ticks per second included — and every history of events (clocks and
    tweeners added, commands, callbacks, chunks of any duration) the run returns a state.  Every
    hypothesis `s.run evs = some s'` / `s.chunk dt = some s'` of the theorems above is therefore always
    satisfiable; before the repair of the tick loop it was not (the model ran out of fuel where the audio
    thread spun). -/
theorem C05_no_history_hangs (s : Sys ℝ) (evs : List (Ev ℝ)) : ∃ s', s.run evs = some s' :=
  Sys.run_total evs s

/-! ### reading the time from the handle -/

/-- **the two-word protocol can tear, and reads can go backwards** — the negation of "the time read
    from a running clock's handle never goes backwards and never shows a value the clock did not
    have", by an explicit interleaving.  The clock only ever has the values (0, 0), (0, 0.9),
    (1, 0.1) (increasing; no stop, no reset).  Schedule: publish (0, 0.9); one complete read;
    `load ticks`; publish (1, 0.1) (both stores); `load fraction`.  The second read returns
    (0, 0.1): a value the clock never had, and earlier than the first read (0, 0.9). -/
theorem C05_time_reads_can_tear :
    ∃ (ls : List (Lbl ℝ)) (s : CS ℝ),
      (CS.init (0 : ℝ)).run 0 ls = some s
      ∧ (∀ l ∈ ls, l ≠ .stopStoreTicks ∧ l ≠ .stopStoreFrac ∧ l ≠ .audReset)
      ∧ s.hist = [(1, 1 / 10), (0, 9 / 10), (0, 0)]
      ∧ s.reads = [(0, 1 / 10, false), (0, 9 / 10, true)]
      ∧ ((0 : ℕ), (1 / 10 : ℝ)) ∉ s.hist
      ∧ ClockTime.val ⟨0, 1 / 10⟩ < ClockTime.val ⟨0, 9 / 10⟩ := by
  refine ⟨[.audStoreTicks 0 (9 / 10), .audStoreFrac, .loadTicks, .loadFrac, .loadTicks,
      .audStoreTicks 1 (1 / 10), .audStoreFrac, .loadFrac], _, rfl, ?_, rfl, rfl, ?_, ?_⟩
  · intro l hl
    simp only [List.mem_cons, List.not_mem_nil, or_false] at hl
    rcases hl with rfl | rfl | rfl | rfl | rfl | rfl | rfl | rfl <;> simp
  · show ((0 : ℕ), (1 / 10 : ℝ)) ∉ [((1 : ℕ), (1 / 10 : ℝ)), (0, 9 / 10), (0, 0)]
    simp only [List.mem_cons, Prod.mk.injEq, List.not_mem_nil, or_false]
    norm_num
  · unfold ClockTime.val; norm_num

/-- **`stop()` racing with a publication leaves torn words at rest**: audio stores ticks of (1, 0.1);
    the caller's `stop()` stores 0 and 0.0; audio stores the fraction.  Both threads are now idle
    and the handle reads (0, 0.1) — never a value of the clock — until the next publication. -/
theorem C05_stop_can_leave_torn_words :
    ∃ (ls : List (Lbl ℝ)) (s : CS ℝ),
      (CS.init (0 : ℝ)).run 0 ls = some s
      ∧ s.aud = none ∧ s.caller = .idle
      ∧ (s.ticks, s.frac) = ((0 : ℕ), (1 / 10 : ℝ)) ∧ (s.ticks, s.frac) ∉ s.hist := by
  refine ⟨[.audStoreTicks 1 (1 / 10), .stopStoreTicks, .stopStoreFrac, .audStoreFrac], _, rfl, rfl, rfl, rfl, ?_⟩
  show ((0 : ℕ), (1 / 10 : ℝ)) ∉ [((0 : ℕ), (0 : ℝ)), (1, 1 / 10), (0, 0)]
  simp only [List.mem_cons, Prod.mk.injEq, List.not_mem_nil, or_false]
  norm_num

/-- **what does hold of handle reads (partial).**
    Full claim (FALSE for the current code, see `C05_time_reads_can_tear`): every `time()` returns a
    value the clock had, and successive reads of a running clock never decrease.
    Proved, for every interleaving of the audio thread's publications / resets with the caller's
    `time()` / `stop()` calls, of any length:
    (1) each word of every read is a value that word had at some point;
    (2) a read flagged `good` — the two words were a complete, un-interleaved publication when the
        ticks were loaded, and no writer stepped before the fraction was loaded — is a value the
        clock had.
    Missing for the full claim: a single-word or versioned publication, so that (2) holds of every
    read. -/
theorem C05_time_reads_partial {φ : Type} (z : φ) (s : CS φ) (h : CS.Reachable z s) :
    (∀ t f g, (t, f, g) ∈ s.reads → t ∈ s.ticksHist ∧ f ∈ s.fracHist)
    ∧ (∀ t f, (t, f, true) ∈ s.reads → (t, f) ∈ s.hist) :=
  ⟨(CS.inv_reachable z s h).readWords, (CS.inv_reachable z s h).goodReads⟩

/-- a read that starts while the words are a complete publication and finishes before any writer
    steps is `good` (so (2) above is not vacuous): publish (3, f); read → (3, f, good). -/
theorem C05_quiet_read_is_good {φ : Type} (z f : φ) :
    ∃ s, (CS.init z).run z [.audStoreTicks 3 f, .audStoreFrac, .loadTicks, .loadFrac] = some s
      ∧ s.reads = [(3, f, true)] ∧ CS.Reachable z s := by
  refine ⟨_, rfl, rfl, ?_⟩
  exact CS.reachable_run z [.audStoreTicks 3 f, .audStoreFrac, .loadTicks, .loadFrac] _ _ CS.Reachable.init rfl

/-! ### non-vacuity -/

/-- a ticking, well-formed clock at a steady 2 ticks per second exists … -/
example : ∃ c : Clock ℝ, c.ticking = true ∧ Clock.WF c ∧ SteadySpeed c 2 ∧ c.speed.raw.Valid := by
  refine ⟨{ (Clock.new (.fixed (.ticksPerSecond 2))) with ticking := true }, rfl, ?_, ?_, ?_⟩
  · simp [Clock.WF, Clock.new, ClockState.time, ClockTime.WF]
  · simp [SteadySpeed, Clock.new, Parameter.new, Value.isFixed, ClockSpeed.asTicksPerSecond]
  · simp [Clock.new, Parameter.new, ClockSpeed.Valid]

/-- … and a system in which a waiter waits for clock 0 and clock 0's own speed tween waits for
    clock 0 (the hypotheses of `C05_start_chunk` and of `…_never_fires`) exists. -/
example : ∃ s : Sys ℝ, s.waiters[0]? = some ⟨.clockTime 0 ⟨2, 0⟩, false, false⟩
    ∧ OwnInv 0 (.ticksPerSecond 1) (.fixed (.ticksPerSecond 20)) ⟨1, 0⟩ 2000000000 .linear s := by
  let c : Clock ℝ := { (Clock.new (.fixed (.ticksPerSecond 1))) with
    speed := (Parameter.new (.fixed (.ticksPerSecond 1)) (.ticksPerMinute 120)).set
      (.fixed (.ticksPerSecond 20)) ⟨.clockTime 0 ⟨1, 0⟩, 2000000000, .linear⟩ }
  refine ⟨{ Sys.empty with clocks := [(0, c)], waiters := [⟨.clockTime 0 ⟨2, 0⟩, false, false⟩], nextId := 1 },
    rfl, by simp, ?_, by simp [Sys.empty]⟩
  intro p hp _
  simp only [List.mem_singleton] at hp
  subst hp
  simp [OwnWaiting, c, Parameter.set, Parameter.new, Clock.new, ClockCmds.empty]

/-! ### a clock whose speed is being tweened (extension: the speed is integrated, not only characterised)

`Clock::update` advances the speed parameter FIRST and then the time with the NEW value
(`self.speed.update(dt, info); … *tick_timer += self.speed.value().as_ticks_per_second() * dt`), so over chunks
`dt₁ … dtₙ` a ticking clock advances by the right-end-point Riemann sum `Σᵢ v(Tᵢ)·dtᵢ`, `Tᵢ = t + dt₁ + … + dtᵢ`,
of the closed form `v = Clock.speedAt` (C06's `start + (target − start)·ease(T/D)` read through
`ClockSpeed::interpolate`, i.e. in the unit of the target; the target itself from `D` on).
`Clock.riemann s tgt D e t (dt :: rest) = speedAt s tgt D e (t + dt) * dt + riemann s tgt D e (t + dt) rest`. -/

/-- **exact Riemann-sum form**: a ticking clock whose speed parameter is `t` seconds into a tween of `D` ns from
    `s` to the fixed speed `tgt` (or has landed: `TweenAt`), updated with any chunk durations `dts ≥ 0` — the
    tween may end anywhere inside the run — shows exactly `t₀ + Σᵢ speedAt(Tᵢ)·dtᵢ`; the speed parameter is then
    `t + Σdt` into the tween.  Speeds are assumed non-negative from `t` on (as in `C05_clock_accumulates`).
    (Over ℝ `1/0 = 0`: for a `SecondsPerTick` reading that passes through 0 the floats differ, cf. `ClockSpeed.Valid`.) -/
theorem C05_tweened_riemann_sum (c : Clock ℝ) (info : Info ℝ) (s tgt : ClockSpeed ℝ) (t : ℝ) (st : StartTime ℝ)
    (D : ℕ) (hD : 0 < D) (e : Easing ℝ) (dts : List ℝ)
    (htick : c.ticking = true) (hwf : Clock.WF c) (hspeed : Parameter.TweenAt c.speed s tgt t st D e)
    (hnn : ∀ dt ∈ dts, 0 ≤ dt) (hv : ∀ T, t ≤ T → 0 ≤ speedAt s tgt D e T) :
    (c.run info dts).state.time
        = ⟨⌊val c + riemann s tgt D e t dts⌋₊, Int.fract (val c + riemann s tgt D e t dts)⟩
      ∧ ((c.run info dts).state.time.ticks : ℝ) + (c.run info dts).state.time.fraction
          = val c + riemann s tgt D e t dts
      ∧ 0 ≤ (c.run info dts).state.time.fraction ∧ (c.run info dts).state.time.fraction < 1
      ∧ Parameter.TweenAt (c.run info dts).speed s tgt (t + dts.sum) st D e := by
  obtain ⟨hval, hwf', _, hs'⟩ := run_tween info s tgt st D hD e dts c t htick hwf hspeed hnn hv
  refine ⟨?_, hval, hwf'.1, hwf'.2, hs'⟩
  have := time_eq_of_val (c.run info dts).state.time hwf'
  unfold val at hval
  rw [hval] at this
  exact this

/-- **the speed in that sum, explicitly**, for a target in ticks per second: `a + (b − a)·ease(T/D)` with `a` the
    starting speed in ticks per second, `b` from `D` on; and each term of the sum uses the value at the END of
    its chunk (the parameter is updated before the time is advanced). -/
theorem C05_tweened_speed_closed_form (s : ClockSpeed ℝ) (b : ℝ) (D : ℕ) (e : Easing ℝ) (t dt : ℝ) (rest : List ℝ) :
    (∀ T, speedAt s (.ticksPerSecond b) D e T =
      if (durToSecs D : ℝ) ≤ T then b
      else s.asTicksPerSecond + (b - s.asTicksPerSecond) * e.apply (T / durToSecs D))
    ∧ riemann s (.ticksPerSecond b) D e t (dt :: rest)
        = speedAt s (.ticksPerSecond b) D e (t + dt) * dt + riemann s (.ticksPerSecond b) D e (t + dt) rest :=
  ⟨fun T => speedAt_tps s b D e T, rfl⟩

/-- **bounds**: a tween from `a` to `b` ticks per second (both ≥ 0) with an easing that stays in [0, 1] on
    [0, 1] (every built-in easing with a positive power: `Easing.range`): over chunks of total duration `Σdt`
    the clock advances by at least `min a b · Σdt` and at most `max a b · Σdt` (so its time never decreases). -/
theorem C05_tweened_bounds (c : Clock ℝ) (info : Info ℝ) (s : ClockSpeed ℝ) (b t : ℝ) (st : StartTime ℝ)
    (D : ℕ) (hD : 0 < D) (e : Easing ℝ) (dts : List ℝ)
    (htick : c.ticking = true) (hwf : Clock.WF c)
    (hspeed : Parameter.TweenAt c.speed s (.ticksPerSecond b) t st D e) (_hvalid : s.Valid)
    (ht : 0 ≤ t) (ha : 0 ≤ s.asTicksPerSecond) (hb : 0 ≤ b)
    (he : ∀ x, 0 ≤ x → x ≤ 1 → 0 ≤ e.apply x ∧ e.apply x ≤ 1)
    (hnn : ∀ dt ∈ dts, 0 ≤ dt) :
    val c + min s.asTicksPerSecond b * dts.sum ≤ val (c.run info dts)
      ∧ val (c.run info dts) ≤ val c + max s.asTicksPerSecond b * dts.sum
      ∧ val c ≤ val (c.run info dts) := by
  have hr : ∀ T, t ≤ T → min s.asTicksPerSecond b ≤ speedAt s (.ticksPerSecond b) D e T
      ∧ speedAt s (.ticksPerSecond b) D e T ≤ max s.asTicksPerSecond b :=
    fun T hT => speedAt_tps_range s b D hD e he T (le_trans ht hT)
  have hmin : 0 ≤ min s.asTicksPerSecond b := le_min ha hb
  obtain ⟨hval, _, _, _⟩ := run_tween info s (.ticksPerSecond b) st D hD e dts c t htick hwf hspeed hnn
    (fun T hT => le_trans hmin (hr T hT).1)
  obtain ⟨b1, b2⟩ := riemann_bounds s (.ticksPerSecond b) D e _ _ dts t hnn hr
  have hsum : 0 ≤ dts.sum := List.sum_nonneg hnn
  have := mul_nonneg hmin hsum
  rw [hval]
  refine ⟨by linarith, by linarith, by linarith⟩

/-- **after the tween the clock runs at exactly the target speed**: once the chunks `dts` have used up the
    tween's duration (`D ≤ t + Σdts`), the speed parameter is at rest on the target (`SteadySpeed`: the
    hypothesis of `C05_clock_accumulates` / `C05_partition_independent`), and any further chunks `more` advance
    the clock by exactly `target · Σmore`. -/
theorem C05_tweened_then_steady (c : Clock ℝ) (info : Info ℝ) (s tgt : ClockSpeed ℝ) (t : ℝ) (st : StartTime ℝ)
    (D : ℕ) (hD : 0 < D) (e : Easing ℝ) (dts more : List ℝ)
    (htick : c.ticking = true) (hwf : Clock.WF c) (hspeed : Parameter.TweenAt c.speed s tgt t st D e)
    (hnn : ∀ dt ∈ dts, 0 ≤ dt) (hv : ∀ T, t ≤ T → 0 ≤ speedAt s tgt D e T)
    (hdone : (durToSecs D : ℝ) ≤ t + dts.sum) (hnn' : ∀ dt ∈ more, 0 ≤ dt) :
    SteadySpeed (c.run info dts) tgt.asTicksPerSecond
      ∧ (c.run info dts).speed.raw = tgt
      ∧ val (c.run info (dts ++ more)) = val (c.run info dts) + tgt.asTicksPerSecond * more.sum := by
  obtain ⟨_, hwf', ht', hs'⟩ := run_tween info s tgt st D hD e dts c t htick hwf hspeed hnn hv
  have hl : Parameter.LandedCs (c.run info dts).speed tgt := by
    rcases hs' with ⟨hlt, _⟩ | ⟨_, hl⟩
    · exact absurd hdone (not_le.mpr hlt)
    · exact hl
  have hst := landed_steady _ tgt hl
  have hv' : 0 ≤ tgt.asTicksPerSecond := by
    have := hv (t + dts.sum) (by have := List.sum_nonneg hnn; linarith)
    unfold speedAt at this
    rwa [if_pos hdone] at this
  refine ⟨hst, hl.2.2, ?_⟩
  rw [Clock.run_append]
  exact (run_steady info _ hv' more _ ht' hwf' hst hnn').1

/-- **monotonicity, any speed history**: whatever happens to the speed parameter (tweens, retargets, modulator
    links — nothing is assumed about its state) and whether the clock is ticking or not, as long as every speed
    an update uses is non-negative (`NonnegSpeeds`) the clock's time never decreases: the time after any prefix
    `xs` of the chunks is at most the time after `xs ++ ys`. -/
theorem C05_tweened_monotone (c : Clock ℝ) (info : Info ℝ) (xs ys : List ℝ) (hwf : Clock.WF c)
    (hnn : ∀ dt ∈ xs ++ ys, 0 ≤ dt) (hs : NonnegSpeeds info c (xs ++ ys)) :
    val (c.run info xs) ≤ val (c.run info (xs ++ ys)) ∧ val c ≤ val (c.run info xs) := by
  obtain ⟨h1, h2⟩ := nonnegSpeeds_append info xs ys c hs
  obtain ⟨a, hwf1⟩ := run_mono info xs c hwf (fun x hx => hnn x (by simp [hx])) h1
  rw [Clock.run_append]
  exact ⟨(run_mono info ys _ hwf1 (fun x hx => hnn x (by simp [hx])) h2).1, a⟩

/-! ### non-vacuity of the tweened-speed theorems -/

/-- a ticking clock at the very beginning of a 2 s linear speed tween from 1 to 3 ticks per second: the
    hypotheses of `C05_tweened_riemann_sum`, `C05_tweened_bounds`, `C05_tweened_then_steady` hold together -/
example : ∃ (c : Clock ℝ) (s : ClockSpeed ℝ) (b : ℝ) (st : StartTime ℝ) (D : ℕ) (e : Easing ℝ),
    c.ticking = true ∧ Clock.WF c ∧ 0 < D ∧ Parameter.TweenAt c.speed s (.ticksPerSecond b) 0 st D e
      ∧ s.Valid ∧ 0 ≤ s.asTicksPerSecond ∧ 0 ≤ b
      ∧ (∀ x, 0 ≤ x → x ≤ 1 → 0 ≤ e.apply x ∧ e.apply x ≤ 1)
      ∧ (∀ T, (0 : ℝ) ≤ T → 0 ≤ speedAt s (.ticksPerSecond b) D e T)
      ∧ (∀ dt ∈ [(1 : ℝ), 1.5], 0 ≤ dt) ∧ (durToSecs D : ℝ) ≤ 0 + [(1 : ℝ), 1.5].sum := by
  have hpos : (0 : ℝ) < durToSecs 2000000000 := durToSecs_pos _ (by norm_num)
  have he : ∀ x : ℝ, 0 ≤ x → x ≤ 1 → 0 ≤ (Easing.linear : Easing ℝ).apply x ∧ (Easing.linear : Easing ℝ).apply x ≤ 1 :=
    fun x h0 h1 => Easing.range .linear trivial x h0 h1
  have ha : (0 : ℝ) ≤ (ClockSpeed.ticksPerSecond (1 : ℝ)).asTicksPerSecond := by
    simp [ClockSpeed.asTicksPerSecond]
  refine ⟨{ (Clock.new (.fixed (.ticksPerSecond 1))) with
      ticking := true
      speed := (Parameter.new (.fixed (.ticksPerSecond 1)) (.ticksPerMinute 120)).set
        (.fixed (.ticksPerSecond 3)) ⟨.immediate, 2000000000, .linear⟩ },
    .ticksPerSecond 1, 3, .immediate, 2000000000, .linear, rfl, ?_, by norm_num, ?_, trivial, ha, by norm_num,
    he, ?_, ?_, ?_⟩
  · simp [Clock.WF, Clock.new, ClockState.time, ClockTime.WF]
  · left
    refine ⟨hpos, ?_, rfl, Or.inl rfl⟩
    simp [Parameter.set, Parameter.new]
  · intro T hT
    have h3 : (0 : ℝ) ≤ 3 := by norm_num
    exact le_trans (le_min ha h3) (speedAt_tps_range _ 3 _ (by norm_num) .linear he T hT).1
  · intro dt hdt
    simp only [List.mem_cons, List.mem_nil_iff, or_false] at hdt
    rcases hdt with rfl | rfl <;> norm_num
  · rw [durToSecs_real]; norm_num

/-- a clock and two chunks for which `NonnegSpeeds` (the hypothesis of `C05_tweened_monotone`) holds -/
example : ∃ (c : Clock ℝ) (info : Info ℝ), Clock.WF c ∧ NonnegSpeeds info c ([1] ++ [2]) := by
  have hst : ∀ c : Clock ℝ, SteadySpeed c 2 → ∀ dt info, 0 ≤ (c.speed.update twCs dt info).1.raw.asTicksPerSecond
      ∧ SteadySpeed (c.update dt info).1 2 := by
    intro c h dt info
    have hu := steady_update c 2 dt info h
    have hr : (c.speed.update twCs dt info).1.raw.asTicksPerSecond = 2 := by rw [hu.2]; exact h.2
    refine ⟨by rw [hr]; norm_num, ?_⟩
    unfold SteadySpeed
    rw [(update_frame c dt info).1]
    exact ⟨hu.1, hr⟩
  refine ⟨{ (Clock.new (.fixed (.ticksPerSecond 2))) with ticking := true }, Info.empty, ?_, ?_⟩
  · simp [Clock.WF, Clock.new, ClockState.time, ClockTime.WF]
  · have h0 : SteadySpeed ({ (Clock.new (.fixed (.ticksPerSecond 2))) with ticking := true } : Clock ℝ) 2 := by
      simp [SteadySpeed, Clock.new, Parameter.new, Value.isFixed, ClockSpeed.asTicksPerSecond]
    obtain ⟨a1, s1⟩ := hst _ h0 1 Info.empty
    obtain ⟨a2, _⟩ := hst _ s1 2 Info.empty
    exact ⟨a1, a2, trivial⟩

end K
