/-
  C05 — clocks keep exact audio time; clock-scheduled events fire in the right buffer.
  Statements about the models of clock.rs / clock/handle.rs (Model/Clock.lean), of one renderer
  chunk (Model/ClockSys.lean) and of the two-word time protocol (Model/Conc/ClockShared.lean),
  over ℝ and over all histories / partitions / interleavings.  Helper lemmas: Proofs/Clock*.lean.
-/
import KiraModel.Proofs.ClockSysLemmas
import KiraModel.Proofs.ClockSharedLemmas

namespace K
open Clock Conc

/-- a clock speed the code can digest: `SecondsPerTick(0)` is `∞` ticks per second in floating
    point (the tick loop then never ends), while `1 / 0 = 0` over ℝ — so the theorems exclude it -/
def ClockSpeed.Valid : ClockSpeed ℝ → Prop
  | .secondsPerTick s => s ≠ 0
  | _ => True

/-! ### exact time -/

/-- **the tick loop is fuel independent**: any two fuels above `⌊timer⌋` give the same result,
    namely `⌊timer⌋` whole ticks and the fractional part of the timer. -/
theorem C05_tick_loop_fuel_independent (fuel₁ fuel₂ n : ℕ) (t : ℝ) (ht : 0 ≤ t)
    (h₁ : ⌊t⌋₊ < fuel₁) (h₂ : ⌊t⌋₊ < fuel₂) :
    tickLoop fuel₁ n t = tickLoop fuel₂ n t ∧ tickLoop fuel₁ n t = some (n + ⌊t⌋₊, Int.fract t) := by
  rw [tickLoop_spec fuel₁ n t ht h₁, tickLoop_spec fuel₂ n t ht h₂]; exact ⟨rfl, rfl⟩

/-- **a started clock advances by exactly speed × elapsed time, whatever the partition.**  A
    ticking clock whose speed is at rest at `v ≥ 0` ticks per second, after updates `dt₁ … dtₙ`
    (each `≥ 0`, any number, any sizes), shows the time `t₀ + v · Σ dtᵢ`: whole part in `ticks`,
    fractional part in `[0, 1)` — a function of the *sum* only.  True for every fuel that covers
    the largest single step. -/
theorem C05_clock_accumulates (fuel : ℕ) (c : Clock ℝ) (info : Info ℝ) (v : ℝ) (dts : List ℝ)
    (htick : c.ticking = true) (hwf : Clock.WF c) (hspeed : SteadySpeed c v)
    (_hvalid : c.speed.raw.Valid) (hv : 0 ≤ v)
    (hnn : ∀ dt ∈ dts, 0 ≤ dt) (hfuel : ∀ dt ∈ dts, v * dt + 1 ≤ (fuel : ℝ)) :
    ∃ c', c.run fuel info dts = some c'
      ∧ c'.state.time = ⟨⌊val c + v * dts.sum⌋₊, Int.fract (val c + v * dts.sum)⟩
      ∧ (c'.state.time.ticks : ℝ) + c'.state.time.fraction = val c + v * dts.sum
      ∧ 0 ≤ c'.state.time.fraction ∧ c'.state.time.fraction < 1 := by
  obtain ⟨c', hr, hval, hwf', _, _⟩ := run_steady fuel info v hv dts c htick hwf hspeed hnn hfuel
  refine ⟨c', hr, ?_, hval, hwf'.1, hwf'.2⟩
  have := time_eq_of_val c'.state.time hwf'
  unfold val at hval
  rw [hval] at this
  exact this

/-- **partition independence, stated directly**: two ways of splitting the same elapsed time into
    updates (callbacks × chunks of any sizes) leave the clock at the same time. -/
theorem C05_partition_independent (fuel : ℕ) (c : Clock ℝ) (info : Info ℝ) (v : ℝ) (dts₁ dts₂ : List ℝ)
    (htick : c.ticking = true) (hwf : Clock.WF c) (hspeed : SteadySpeed c v)
    (hvalid : c.speed.raw.Valid) (hv : 0 ≤ v)
    (hnn₁ : ∀ dt ∈ dts₁, 0 ≤ dt) (hnn₂ : ∀ dt ∈ dts₂, 0 ≤ dt)
    (hf₁ : ∀ dt ∈ dts₁, v * dt + 1 ≤ (fuel : ℝ)) (hf₂ : ∀ dt ∈ dts₂, v * dt + 1 ≤ (fuel : ℝ))
    (hsum : dts₁.sum = dts₂.sum) :
    ∃ c₁ c₂, c.run fuel info dts₁ = some c₁ ∧ c.run fuel info dts₂ = some c₂
      ∧ c₁.state.time = c₂.state.time := by
  obtain ⟨c₁, h₁, e₁, _⟩ := C05_clock_accumulates fuel c info v dts₁ htick hwf hspeed hvalid hv hnn₁ hf₁
  obtain ⟨c₂, h₂, e₂, _⟩ := C05_clock_accumulates fuel c info v dts₂ htick hwf hspeed hvalid hv hnn₂ hf₂
  exact ⟨c₁, c₂, h₁, h₂, by rw [e₁, e₂, hsum]⟩

/-- **pausing freezes the clock.**  `pause()` takes effect at the next `on_start_processing`
    (ticking off, published flag off); from then on no sequence of updates moves the time. -/
theorem C05_pause_freezes (fuel : ℕ) (c : Clock ℝ) (info : Info ℝ) (dts : List ℝ) :
    (c.hPause.onStartProcessing).ticking = false
      ∧ (c.hPause.onStartProcessing).hTicking = false
      ∧ (c.cmds.reset = false → (c.hPause.onStartProcessing).state = c.state)
      ∧ (c.ticking = false →
          ∃ c', c.run fuel info dts = some c' ∧ c'.state = c.state ∧ c'.ticking = false
            ∧ c'.hTime = c.hTime) := by
  refine ⟨?_, ?_, ?_, ?_⟩
  · unfold Clock.onStartProcessing Clock.hPause
    cases c.cmds.setSpeed <;> by_cases hr : c.cmds.reset = true <;>
      simp [hr, Clock.updateShared, Clock.setTicking, Clock.reset]
  · unfold Clock.onStartProcessing Clock.hPause Clock.hTicking
    cases c.cmds.setSpeed <;> by_cases hr : c.cmds.reset = true <;>
      simp [hr, Clock.updateShared, Clock.setTicking, Clock.reset]
  · intro hr
    unfold Clock.onStartProcessing Clock.hPause
    cases c.cmds.setSpeed <;> simp [hr, Clock.updateShared, Clock.setTicking]
  · intro ht
    obtain ⟨c', h1, h2, h3, h4, _⟩ := run_not_ticking fuel info dts c ht
    exact ⟨c', h1, h2, h3, by unfold Clock.hTime; rw [h4]⟩

/-- **stopping resets the clock to zero.**  `stop()` makes the handle read `0` at once; at the next
    `on_start_processing` the clock is `NotStarted`, not ticking, publishes `(0, 0.0)`; it stays
    there through any updates; and once restarted it counts from zero again. -/
theorem C05_stop_resets (fuel : ℕ) (c : Clock ℝ) (info : Info ℝ) (dts : List ℝ) :
    c.hStop.hTime = ⟨0, 0⟩
      ∧ (c.hStop.onStartProcessing).state = .notStarted
      ∧ (c.hStop.onStartProcessing).ticking = false
      ∧ (c.hStop.onStartProcessing).hTime = ⟨0, 0⟩
      ∧ (∃ c', (c.hStop.onStartProcessing).run fuel info dts = some c' ∧ c'.state = .notStarted
            ∧ c'.hTime = ⟨0, 0⟩)
      ∧ val (c.hStop.onStartProcessing) = 0 ∧ Clock.WF (c.hStop.onStartProcessing) := by
  have hstate : (c.hStop.onStartProcessing).state = .notStarted := by
    unfold Clock.onStartProcessing Clock.hStop
    cases c.cmds.setSpeed <;> simp [Clock.updateShared, Clock.setTicking, Clock.reset]
  have htick : (c.hStop.onStartProcessing).ticking = false := by
    unfold Clock.onStartProcessing Clock.hStop
    cases c.cmds.setSpeed <;> simp [Clock.updateShared, Clock.setTicking, Clock.reset]
  have htime : (c.hStop.onStartProcessing).hTime = ⟨0, 0⟩ := by
    unfold Clock.onStartProcessing Clock.hStop Clock.hTime
    cases c.cmds.setSpeed <;> simp [Clock.updateShared, Clock.setTicking, Clock.reset, ClockState.time]
  refine ⟨by simp [Clock.hStop, Clock.hTime], hstate, htick, htime, ?_, ?_, ?_⟩
  · obtain ⟨c', h1, h2, _, h4, _⟩ := run_not_ticking fuel info dts _ htick
    exact ⟨c', h1, by rw [h2, hstate], by unfold Clock.hTime at htime ⊢; rw [h4]; exact htime⟩
  · unfold val; rw [hstate]; simp [ClockState.time, ClockTime.val]
  · unfold Clock.WF; rw [hstate]; simp [ClockState.time, ClockTime.WF]

/-- **the handle shows the clock's state as of the last `on_start_processing`.** -/
theorem C05_handle_shows_state (c : Clock ℝ) :
    (c.onStartProcessing).hTime = (c.onStartProcessing).state.time
      ∧ (c.cmds.setTicking.isSome → (c.onStartProcessing).hTicking = (c.onStartProcessing).ticking) := by
  constructor
  · unfold Clock.onStartProcessing Clock.hTime Clock.updateShared; simp
  · intro h
    unfold Clock.onStartProcessing Clock.hTicking
    cases hs : c.cmds.setTicking with
    | none => rw [hs] at h; simp at h
    | some b =>
      cases c.cmds.setSpeed <;> by_cases hr : c.cmds.reset = true <;>
        simp [hr, Clock.updateShared, Clock.setTicking, Clock.reset]

/-! ### speed changes -/

/-- **a speed change takes effect when it is due (C06 with the clock's update as time base).**
    `set_speed` reaches the parameter at the next `on_start_processing` as a C06 `set`; every clock
    update — ticking or not — advances the speed parameter exactly once with the same `dt` and
    `Info`, so over a run the speed is `Parameter.run` on the same steps (all of C06 applies to it);
    and a ticking clock's step uses the speed *after* that advance. -/
theorem C05_speed_change_when_due (fuel : ℕ) (c : Clock ℝ) (info : Info ℝ) :
    (∀ v tw, ((c.hSetSpeed v tw).onStartProcessing).speed = c.speed.set v tw)
    ∧ (∀ dts c', c.run fuel info dts = some c' → c'.speed = (c.speed.run twCs info dts).1)
    ∧ (∀ dt, c.ticking = true → Clock.WF c → 0 ≤ dt →
        0 ≤ (c.speed.update twCs dt info).1.raw.asTicksPerSecond →
        (c.speed.update twCs dt info).1.raw.asTicksPerSecond * dt + 1 ≤ (fuel : ℝ) →
        ∃ c' r, c.update fuel dt info = some (c', r)
          ∧ val c' = val c + (c.speed.update twCs dt info).1.raw.asTicksPerSecond * dt) := by
  refine ⟨?_, ?_, ?_⟩
  · intro v tw
    unfold Clock.onStartProcessing Clock.hSetSpeed
    cases c.cmds.setTicking <;> by_cases hr : c.cmds.reset = true <;>
      simp [hr, Clock.updateShared, Clock.setTicking, Clock.reset]
  · intro dts c' h; exact run_speed fuel info dts c c' h
  · intro dt ht hwf hdt hv hf
    obtain ⟨c', r, h1, h2, _⟩ := update_ticking fuel c dt info ht hwf hdt hv hf
    exact ⟨c', r, h1, h2⟩

/-- **an immediate speed change**: `set_speed(s, Tween{Immediate, 0 s})` is in force from the very
    next update: from there the clock advances at the new speed for ever (any partition). -/
theorem C05_speed_change_immediate (fuel : ℕ) (c : Clock ℝ) (info : Info ℝ) (s : ClockSpeed ℝ)
    (e : Easing ℝ) (dts : List ℝ) (htick : c.ticking = true) (hwf : Clock.WF c)
    (hstate : c.speed.state = .tweening c.speed.raw (.fixed s) 0 ⟨.immediate, 0, e⟩)
    (hst : c.speed.stagnant = false) (hvalid : s.Valid) (hv : 0 ≤ s.asTicksPerSecond)
    (hnn : ∀ dt ∈ dts, 0 ≤ dt) (hfuel : ∀ dt ∈ dts, s.asTicksPerSecond * dt + 1 ≤ (fuel : ℝ)) :
    ∃ c', c.run fuel info dts = some c'
      ∧ (dts ≠ [] → (c'.state.time.ticks : ℝ) + c'.state.time.fraction = val c + s.asTicksPerSecond * dts.sum) := by
  cases dts with
  | nil => exact ⟨c, rfl, fun h => absurd rfl h⟩
  | cons dt rest =>
    have hdt : 0 ≤ dt := hnn dt (by simp)
    -- the first update lands the parameter on the new speed
    have hup : (c.speed.update twCs dt info).1.raw = s ∧ (c.speed.update twCs dt info).1.stagnant = true := by
      unfold Parameter.update
      simp only [hst, Bool.false_eq_true, if_false]
      unfold Parameter.updateTween
      have hle : (durToSecs 0 : ℝ) ≤ 0 + dt := by rw [durToSecs_zero]; linarith
      simp only [hstate, Bool.not_true, Bool.false_eq_true, if_false, hle, if_true, Value.isFixed]
      simp [Parameter.calcRaw, Value.rawValue]
    obtain ⟨c1, r, hu, hval1, hwf1, ht1, hsp1, _, _⟩ :=
      update_ticking fuel c dt info htick hwf hdt (by rw [hup.1]; exact hv)
        (by rw [hup.1]; exact hfuel dt (by simp))
    have hs1 : SteadySpeed c1 s.asTicksPerSecond := by
      unfold SteadySpeed; rw [hsp1]; exact ⟨hup.2, by rw [hup.1]⟩
    have hv1 : c1.speed.raw.Valid := by rw [hsp1, hup.1]; exact hvalid
    obtain ⟨c2, hr2, _, hval2, _⟩ := C05_clock_accumulates fuel c1 info _ rest ht1 hwf1 hs1 hv1 hv
      (fun x hx => hnn x (by simp [hx])) (fun x hx => hfuel x (by simp [hx]))
    refine ⟨c2, by simp only [Clock.run, hu]; exact hr2, fun _ => ?_⟩
    rw [hval2, hval1, hup.1, List.sum_cons]; ring

/-- **a speed tween scheduled on a clock time waits for it**: while the `Info` the clock is
    updated with does not say `Now` for that time, the tween has not begun (its state, with tween
    time 0, is untouched) — for every value type. -/
theorem C05_speed_tween_waits_for_clock_time (fuel : ℕ) (c c' : Clock ℝ) (dt : ℝ) (info : Info ℝ)
    (r : Option ℕ) (start : ClockSpeed ℝ) (target : Value ℝ (ClockSpeed ℝ)) (k : ℕ) (T : ClockTime ℝ)
    (D : ℕ) (e : Easing ℝ)
    (hs : c.speed.state = .tweening start target 0 ⟨.clockTime k T, D, e⟩) (hst : c.speed.stagnant = false)
    (hw : info.whenToStart k T ≠ .now) (hu : c.update fuel dt info = some (c', r)) :
    c'.speed.state = c.speed.state := by
  rw [(update_frame fuel c c' dt info r hu).1]
  exact (Parameter.update_waiting_clock twCs c.speed dt info start target k T D e hs hst hw).1

/-! ### the chunk in which clock-scheduled things begin -/

/-- the per-chunk verdicts a consumer of the mixer pass gets for "clock `c` at time `T`" over a
    history: one entry per chunk event, computed from the clocks *after* that chunk's clock update -/
noncomputable def chunkVerdicts (fuel : ℕ) (s : Sys ℝ) (c : ℕ) (T : ClockTime ℝ) (evs : List (Ev ℝ)) :
    List WhenToStart :=
  (Sys.mixTrace fuel s evs).map (fun p => p.2.whenToStart c T)

/-- **meaning of a verdict**: `Now` in chunk `k` ⇔ after chunk `k`'s clock update the clock exists,
    is ticking (not paused / stopped) and its time is at or past `T` (for well-formed times: in
    the order of `ticks + fraction`); `Never` ⇔ the clock does not exist. -/
theorem C05_verdict_meaning (s : Sys ℝ) (c : ℕ) (T : ClockTime ℝ) :
    (s.mixInfo.whenToStart c T = .now ↔
        ∃ clk, s.clocks.lookup c = some clk ∧ clk.ticking = true ∧ ClockTime.ge clk.state.time T = true)
    ∧ (s.mixInfo.whenToStart c T = .never ↔ s.clocks.lookup c = none)
    ∧ (∀ clk, Clock.WF clk → ClockTime.WF T →
        (ClockTime.ge clk.state.time T = true ↔ ClockTime.val T ≤ val clk)) := by
  refine ⟨?_, ?_, ?_⟩
  · rw [whenToStart_now_iff]
    simp only [Sys.mixInfo, Sys.infoOf, Option.map_eq_some_iff]
    constructor
    · rintro ⟨ci, ⟨clk, h1, rfl⟩, h2, h3⟩; exact ⟨clk, h1, h2, h3⟩
    · rintro ⟨clk, h1, h2, h3⟩; exact ⟨clk.info, ⟨clk, h1, rfl⟩, h2, h3⟩
  · rw [whenToStart_never_iff]; simp [Sys.mixInfo, Sys.infoOf]
  · intro clk h1 h2; exact ge_iff_val _ _ h1 h2

/-- **a sound (or any consumer of the mixer pass) scheduled for clock time `T` begins in the
    internal buffer during which the clock reaches `T`.**  For *every* history of the system
    (clocks added / started / paused / stopped / re-sped / dropped, callbacks, chunks of any
    lengths), a picked-up waiter with `StartTime::ClockTime(c, T)` plays in the last processed chunk
    iff some chunk `k` of the history got the verdict `Now` while all chunks before it got `Later`
    (`startIndex`); it is cancelled (Stopped) iff the first verdict that is not `Later` is `Never`.
    Since this holds for every history, the first chunk it plays in is exactly that `k`: the first
    chunk at whose end the clock is ticking and at or past `T` — never later, and never a chunk at
    whose end the clock is paused or short of `T` (so at most one buffer before the exact instant). -/
theorem C05_start_chunk (fuel : ℕ) (s s' : Sys ℝ) (j c : ℕ) (T : ClockTime ℝ) (evs : List (Ev ℝ))
    (hw : s.waiters[j]? = some ⟨.clockTime c T, false, false⟩) (hrun : s.run fuel evs = some s') :
    ∃ w, s'.waiters[j]? = some w
      ∧ (w.audible = true ↔ ∃ k, startIndex (chunkVerdicts fuel s c T evs) = some k)
      ∧ (w.stopped = true ↔ ∃ k, cancelIndex (chunkVerdicts fuel s c T evs) = some k)
      ∧ (w.audible = true → w.st = .immediate ∧ w.stopped = false) := by
  have h := Sys.run_waiter fuel evs s s' j _ hrun hw
  obtain ⟨o1, o2, o3⟩ := Waiter.outcome c T (Sys.mixTrace fuel s evs)
  refine ⟨_, h, ?_⟩
  unfold chunkVerdicts
  cases hs : startIndex ((Sys.mixTrace fuel s evs).map (fun p => p.2.whenToStart c T)) with
  | some k =>
    rw [o1 (by simp [hs])]
    have hc : cancelIndex ((Sys.mixTrace fuel s evs).map (fun p => p.2.whenToStart c T)) = none := by
      cases hc : cancelIndex ((Sys.mixTrace fuel s evs).map (fun p => p.2.whenToStart c T)) with
      | none => rfl
      | some k' =>
        have a := o1 (by simp [hs])
        have b := o2 (by simp [hc])
        rw [a] at b; simp at b
    simp [hc]
  | none =>
    cases hc : cancelIndex ((Sys.mixTrace fuel s evs).map (fun p => p.2.whenToStart c T)) with
    | some k => rw [o2 (by simp [hc])]; simp
    | none => rw [o3 (by simp [hs]) (by simp [hc])]; simp

/-- reading of `startIndex` / `cancelIndex`: index `k` holds the first verdict that is not `Later`. -/
theorem C05_start_index_meaning (ws : List WhenToStart) (k : ℕ) :
    (startIndex ws = some k ↔ ws[k]? = some .now ∧ ∀ i < k, ws[i]? = some .later)
    ∧ (cancelIndex ws = some k ↔ ws[k]? = some .never ∧ ∀ i < k, ws[i]? = some .later) :=
  ⟨startIndex_spec ws k, cancelIndex_spec ws k⟩

/-- **a missing clock cancels.**  `when_to_start = Never` ⇒ `StartTime::update` reports
    "will never start" (the sound is marked Stopped in that very chunk), and `Never` is exactly
    "the clock is not in the arena". -/
theorem C05_missing_clock_cancels (s : Sys ℝ) (c : ℕ) (T : ClockTime ℝ) (dt : ℝ) (info : Info ℝ) :
    (info.whenToStart c T = .never → (StartTime.clockTime c T).update dt info = (.clockTime c T, true))
    ∧ (s.clocks.lookup c = none →
        (⟨.clockTime c T, false, false⟩ : Waiter ℝ).process dt s.mixInfo = ⟨.clockTime c T, true, false⟩) := by
  constructor
  · intro h; simp [StartTime.update, h]
  · intro h
    have : s.mixInfo.whenToStart c T = .never := (C05_verdict_meaning s c T).2.1.mpr h
    simp [Waiter.process, StartTime.update, this, StartTime.isImmediate]

/-- **modulators look at the clocks one chunk behind.**  In a chunk every tweener modulator is
    updated with the clocks as they were when the chunk *began* (`s.mixInfo`, before this chunk's
    clock update) — whereas sounds see them as they are at its end (`C05_start_chunk`).  So a
    tweener's tween scheduled for clock time `T` stays untouched unless the clock was already
    ticking and at or past `T` at the chunk's beginning, and it begins in the first chunk for
    which that is so: one buffer *after* the buffer during which the clock reached `T`. -/
theorem C05_modulator_tween_start_chunk (fuel : ℕ) (s s' : Sys ℝ) (dt : ℝ)
    (h : s.chunk fuel dt = some s') :
    s'.mods = s.mods.map (fun p => (p.1, p.2.update dt s.mixInfo))
    ∧ ∀ (m : ModTweener ℝ) (a b : ℝ) (D : ℕ) (e : Easing ℝ) (c : ℕ) (T : ClockTime ℝ),
        m.state = .tweening a b 0 ⟨.clockTime c T, D, e⟩ →
        (s.mixInfo.whenToStart c T ≠ .now → m.update dt s.mixInfo = m)
        ∧ (s.mixInfo.whenToStart c T = .now →
            (m.update dt s.mixInfo).state = .idle
            ∨ (m.update dt s.mixInfo).state = .tweening a b (0 + dt) ⟨.clockTime c T, D, e⟩) :=
  ⟨Sys.chunk_mods fuel s s' dt h, fun m a b D e c T hs => ModTweener.update_waiting m a b D e c T dt _ hs⟩

/-- **a clock's speed tween scheduled on another clock depends on the key order.**  With two clocks
    `a` (earlier key) and `b`: `a` is updated seeing `b` as it was *before* this chunk's update (one
    buffer late, like a modulator), `b` is updated seeing `a` *after* its update (on time). -/
theorem C05_clock_speed_tween_key_order (fuel : ℕ) (s : Sys ℝ) (mods : List (ℕ × ModTweener ℝ))
    (dt : ℝ) (a b : ℕ) (A B : Clock ℝ) (hab : a ≠ b) (hc : s.clocks = [(a, A), (b, B)])
    (A' B' : Clock ℝ) (ra rb : Option ℕ)
    (hA : A.update fuel dt (Sys.infoOf (fun j => if j = a then some Clock.dummy else if j = b then some B else none)
            (fun id => mods.lookup id)) = some (A', ra))
    (hB : B.update fuel dt (Sys.infoOf (fun j => if j = b then some Clock.dummy else if j = a then some A' else none)
            (fun id => mods.lookup id)) = some (B', rb)) :
    s.updateClocks fuel mods dt = some [(a, A'), (b, B')] := by
  have hba : b ≠ a := fun h => hab h.symm
  have v1 : (fun j => if j = a then some Clock.dummy else ([] ++ [(b, B)] : List (ℕ × Clock ℝ)).lookup j)
      = (fun j => if j = a then some Clock.dummy else if j = b then some B else none) := by
    funext j
    by_cases h1 : j = a
    · simp [h1]
    · by_cases h2 : j = b
      · simp [h1, h2, List.lookup]
      · have : (j == b) = false := by simpa using h2
        simp [h1, h2, List.lookup, this]
  have v2 : (fun j => if j = b then some Clock.dummy else (([] ++ [(a, A')]) ++ [] : List (ℕ × Clock ℝ)).lookup j)
      = (fun j => if j = b then some Clock.dummy else if j = a then some A' else none) := by
    funext j
    by_cases h1 : j = b
    · simp [h1]
    · by_cases h2 : j = a
      · simp [h1, h2, List.lookup]
      · have : (j == a) = false := by simpa using h2
        simp [h1, h2, List.lookup, this]
  unfold Sys.updateClocks
  rw [hc]
  simp only [forEachSelfRef, v1, hA, Option.map_some, v2, hB]
  rfl

/-- **a speed tween scheduled on the clock's *own* time never fires.**  While a clock is updated
    its arena slot holds the non-ticking stand-in (`Clock::default()`), so its own time always
    answers `Later`.  For every history in which no new speed command is sent to clock `k`: if its
    speed tween waits for `ClockTime{clock: k, …}`, then after the history every clock stored under
    key `k` still has that tween un-begun (tween time 0) — however far the clock itself has run. -/
theorem C05_own_time_speed_tween_never_fires (fuel : ℕ) (k : ℕ) (start : ClockSpeed ℝ)
    (target : Value ℝ (ClockSpeed ℝ)) (T : ClockTime ℝ) (D : ℕ) (e : Easing ℝ) :
    ∀ (evs : List (Ev ℝ)) (s s' : Sys ℝ), OwnInv k start target T D e s →
      (∀ ev ∈ evs, ev.leavesSpeedOf k) → s.run fuel evs = some s' →
      ∀ p ∈ s'.clocks, p.1 = k →
        p.2.speed.state = .tweening start target 0 ⟨.clockTime k T, D, e⟩ := by
  intro evs
  induction evs with
  | nil =>
    intro s s' hinv _ hr p hp hk
    simp only [Sys.run, Option.some.injEq] at hr; subst hr
    exact (hinv.2.1 p hp hk).1
  | cons ev rest ih =>
    intro s s' hinv hev hr p hp hk
    simp only [Sys.run] at hr
    cases hs : s.step fuel ev with
    | none => rw [hs] at hr; exact absurd hr (by simp)
    | some s1 =>
      rw [hs] at hr
      exact ih s1 s' (OwnInv.step fuel s s1 ev hinv (hev ev (by simp)) hs)
        (fun x hx => hev x (by simp [hx])) hr p hp hk

/-! ### reading the time from the handle -/

/-- **the two-word protocol can tear, and reads can go backwards** — the negation of "the time read
    from a running clock's handle never goes backwards and never shows a value the clock did not
    have", by an explicit interleaving.  The clock only ever has the values (0, 0), (0, 0.9),
    (1, 0.1) (increasing; no stop, no reset).  Schedule: publish (0, 0.9); one complete read;
    `load ticks`; publish (1, 0.1) (both stores); `load fraction`.  The second read returns
    (0, 0.1): a value the clock never had, and earlier than the first read (0, 0.9). -/
theorem C05_time_reads_can_tear :
    ∃ (ls : List (Lbl ℝ)) (s : CS ℝ),
      (CS.init (0 : ℝ)).run 0 ls = some s
      ∧ (∀ l ∈ ls, l ≠ .stopStoreTicks ∧ l ≠ .stopStoreFrac ∧ l ≠ .audReset)
      ∧ s.hist = [(1, 1 / 10), (0, 9 / 10), (0, 0)]
      ∧ s.reads = [(0, 1 / 10, false), (0, 9 / 10, true)]
      ∧ ((0 : ℕ), (1 / 10 : ℝ)) ∉ s.hist
      ∧ ClockTime.val ⟨0, 1 / 10⟩ < ClockTime.val ⟨0, 9 / 10⟩ := by
  refine ⟨[.audStoreTicks 0 (9 / 10), .audStoreFrac, .loadTicks, .loadFrac, .loadTicks,
      .audStoreTicks 1 (1 / 10), .audStoreFrac, .loadFrac], _, rfl, ?_, rfl, rfl, ?_, ?_⟩
  · intro l hl
    simp only [List.mem_cons, List.not_mem_nil, or_false] at hl
    rcases hl with rfl | rfl | rfl | rfl | rfl | rfl | rfl | rfl <;> simp
  · show ((0 : ℕ), (1 / 10 : ℝ)) ∉ [((1 : ℕ), (1 / 10 : ℝ)), (0, 9 / 10), (0, 0)]
    simp only [List.mem_cons, Prod.mk.injEq, List.not_mem_nil, or_false]
    norm_num
  · unfold ClockTime.val; norm_num

/-- **`stop()` racing with a publication leaves torn words at rest**: audio stores ticks of (1, 0.1);
    the caller's `stop()` stores 0 and 0.0; audio stores the fraction.  Both threads are now idle
    and the handle reads (0, 0.1) — never a value of the clock — until the next publication. -/
theorem C05_stop_can_leave_torn_words :
    ∃ (ls : List (Lbl ℝ)) (s : CS ℝ),
      (CS.init (0 : ℝ)).run 0 ls = some s
      ∧ s.aud = none ∧ s.caller = .idle
      ∧ (s.ticks, s.frac) = ((0 : ℕ), (1 / 10 : ℝ)) ∧ (s.ticks, s.frac) ∉ s.hist := by
  refine ⟨[.audStoreTicks 1 (1 / 10), .stopStoreTicks, .stopStoreFrac, .audStoreFrac], _, rfl, rfl, rfl, rfl, ?_⟩
  show ((0 : ℕ), (1 / 10 : ℝ)) ∉ [((0 : ℕ), (0 : ℝ)), (1, 1 / 10), (0, 0)]
  simp only [List.mem_cons, Prod.mk.injEq, List.not_mem_nil, or_false]
  norm_num

/-- **what does hold of handle reads (partial).**
    Full claim (FALSE for the current code, see `C05_time_reads_can_tear`): every `time()` returns a
    value the clock had, and successive reads of a running clock never decrease.
    Proved, for every interleaving of the audio thread's publications / resets with the caller's
    `time()` / `stop()` calls, of any length:
    (1) each word of every read is a value that word had at some point;
    (2) a read flagged `good` — the two words were a complete, un-interleaved publication when the
        ticks were loaded, and no writer stepped before the fraction was loaded — is a value the
        clock had.
    Missing for the full claim: a single-word or versioned publication, so that (2) holds of every
    read. -/
theorem C05_time_reads_partial {φ : Type} (z : φ) (s : CS φ) (h : CS.Reachable z s) :
    (∀ t f g, (t, f, g) ∈ s.reads → t ∈ s.ticksHist ∧ f ∈ s.fracHist)
    ∧ (∀ t f, (t, f, true) ∈ s.reads → (t, f) ∈ s.hist) :=
  ⟨(CS.inv_reachable z s h).readWords, (CS.inv_reachable z s h).goodReads⟩

/-- a read that starts while the words are a complete publication and finishes before any writer
    steps is `good` (so (2) above is not vacuous): publish (3, f); read → (3, f, good). -/
theorem C05_quiet_read_is_good {φ : Type} (z f : φ) :
    ∃ s, (CS.init z).run z [.audStoreTicks 3 f, .audStoreFrac, .loadTicks, .loadFrac] = some s
      ∧ s.reads = [(3, f, true)] ∧ CS.Reachable z s := by
  refine ⟨_, rfl, rfl, ?_⟩
  exact CS.reachable_run z [.audStoreTicks 3 f, .audStoreFrac, .loadTicks, .loadFrac] _ _ CS.Reachable.init rfl

/-! ### non-vacuity -/

/-- a ticking, well-formed clock at a steady 2 ticks per second exists … -/
example : ∃ c : Clock ℝ, c.ticking = true ∧ Clock.WF c ∧ SteadySpeed c 2 ∧ c.speed.raw.Valid := by
  refine ⟨{ (Clock.new (.fixed (.ticksPerSecond 2))) with ticking := true }, rfl, ?_, ?_, ?_⟩
  · simp [Clock.WF, Clock.new, ClockState.time, ClockTime.WF]
  · simp [SteadySpeed, Clock.new, Parameter.new, Value.isFixed, ClockSpeed.asTicksPerSecond]
  · simp [Clock.new, Parameter.new, ClockSpeed.Valid]

/-- … and a system in which a waiter waits for clock 0 and clock 0's own speed tween waits for
    clock 0 (the hypotheses of `C05_start_chunk` and of `…_never_fires`) exists. -/
example : ∃ s : Sys ℝ, s.waiters[0]? = some ⟨.clockTime 0 ⟨2, 0⟩, false, false⟩
    ∧ OwnInv 0 (.ticksPerSecond 1) (.fixed (.ticksPerSecond 20)) ⟨1, 0⟩ 2000000000 .linear s := by
  let c : Clock ℝ := { (Clock.new (.fixed (.ticksPerSecond 1))) with
    speed := (Parameter.new (.fixed (.ticksPerSecond 1)) (.ticksPerMinute 120)).set
      (.fixed (.ticksPerSecond 20)) ⟨.clockTime 0 ⟨1, 0⟩, 2000000000, .linear⟩ }
  refine ⟨{ Sys.empty with clocks := [(0, c)], waiters := [⟨.clockTime 0 ⟨2, 0⟩, false, false⟩], nextId := 1 },
    rfl, by simp, ?_, by simp [Sys.empty]⟩
  intro p hp _
  simp only [List.mem_singleton] at hp
  subst hp
  simp [OwnWaiting, c, Parameter.set, Parameter.new, Clock.new, ClockCmds.empty]

end K
