/-
  C15 — spatial tracks: loudness from distance, balance from direction, needs a listener.
  Statements about the model of `track/sub.rs::SpatialData::spatialize` and the glam kernels it
  calls (Model/Spatial.lean), read over ℝ (ideal vector algebra; `r32 = id`).
  Vocabulary: `spatializeAt att min max p s input lp lo` is the output frame for an emitter at
  `p`, clamped strength `s`, listener at `lp` with orientation quaternion `lo` (as kira passes it
  on: the *normalised* interpolation of the listener's previous and current orientation, each
  replaced by the identity when it has no usable length — `ListenerInfo.interpolatedOrientation`);
  `attenuation e min max d` is the distance amplitude, `earGains s p lp lo` the two ear gains.
-/
import KiraModel.Proofs.SpatialLemmas
import KiraModel.Model.SpatialScene
import KiraModel.Props.C15_system
import KiraModel.Proofs.GenAgreeSpatial

namespace K

/-! ### the level is (attenuation) × (ear gain) -/

/-- **product form.**  With panning on (`s ≠ 0`) and an attenuation curve, each output channel is
    the mono mix of the input times the distance amplitude times that ear's gain — for every pair of
    distances (also `max ≤ min`). -/
theorem C15_level_product (e : Easing ℝ) (minD maxD s : ℝ) (p lp : Vec3 ℝ) (lo : Quat ℝ) (input : Frame ℝ)
    (hs : s ≠ 0) :
    spatializeAt (some e) minD maxD p s input lp lo
      = ⟨(input.left * asAmplitude (attDb e minD maxD (Vec3.distance lp p))
                + input.right * asAmplitude (attDb e minD maxD (Vec3.distance lp p))) / 2
              * (earGains s p lp lo).1,
             (input.left * asAmplitude (attDb e minD maxD (Vec3.distance lp p))
                + input.right * asAmplitude (attDb e minD maxD (Vec3.distance lp p))) / 2
              * (earGains s p lp lo).2⟩ := by
  unfold spatializeAt
  have : Vec3.length (Vec3.sub lp p) = Vec3.distance lp p := rfl
  simp only [this, attenuation_real e minD maxD _]
  simp [hs, Frame.scale, Frame.asMono]

/-- **the attenuation depends only on the emitter–listener distance** (which is the Euclidean
    distance, `Vec3.distance_real`): two scenes at the same distance get the same amplitude, and
    with panning off the whole output frame is the same whatever the directions and orientations. -/
theorem C15_attenuation_distance_only (att : Option (Easing ℝ)) (minD maxD : ℝ) (p p' lp lp' : Vec3 ℝ)
    (lo lo' : Quat ℝ) (input : Frame ℝ) (h : Vec3.distance lp p = Vec3.distance lp' p') :
    spatializeAt att minD maxD p 0 input lp lo = spatializeAt att minD maxD p' 0 input lp' lo' := by
  unfold spatializeAt
  have e1 : Vec3.length (Vec3.sub lp p) = Vec3.distance lp p := rfl
  have e2 : Vec3.length (Vec3.sub lp' p') = Vec3.distance lp' p' := rfl
  rw [e1, e2, h]
  simp

/-- **unity within the minimum distance, zero at or beyond the maximum, non-increasing in between,
    always in [0, 1]** — for every built-in easing with a positive power and **every** pair of
    distances.  With `min < max`: 1 for `d ≤ min`, 0 for `d ≥ max`.  With `max ≤ min` (no range to
    interpolate over: the degenerate and the inverted pair, which used to be NaN and a panic) the curve
    is a step at `min`: 1 for `d < min`, 0 for `d ≥ min` (which is at or beyond the maximum too). -/
theorem C15_attenuation_range (e : Easing ℝ) (he : e.PosPower) (minD maxD : ℝ) :
    (∀ d, d < minD → attenuation e minD maxD d = 1)
    ∧ (minD < maxD → ∀ d, d ≤ minD → attenuation e minD maxD d = 1)
    ∧ (∀ d, minD ≤ d → maxD ≤ d → attenuation e minD maxD d = 0)
    ∧ (maxD ≤ minD → ∀ d, minD ≤ d → attenuation e minD maxD d = 0)
    ∧ (∀ d1 d2, d1 ≤ d2 → attenuation e minD maxD d2 ≤ attenuation e minD maxD d1)
    ∧ (∀ d, 0 ≤ attenuation e minD maxD d ∧ attenuation e minD maxD d ≤ 1) := by
  have one : ∀ d, relativeDistance minD maxD d = 0 → attenuation e minD maxD d = 1 := by
    intro d h
    rw [attenuation_real]; unfold attDb
    rw [h, sub_zero, (Easing.endpoints e he).2]
    norm_num [C19_amp_zero_db]
  have zero : ∀ d, relativeDistance minD maxD d = 1 → attenuation e minD maxD d = 0 := by
    intro d h
    rw [attenuation_real]; unfold attDb
    rw [h, sub_self, (Easing.endpoints e he).1]
    norm_num [C19_amp_silence]
  refine ⟨fun d h => one d (relativeDistance_below _ _ _ (Or.inl h)),
    fun hmm d h => one d (relativeDistance_below _ _ _ (Or.inr ⟨hmm, h⟩)),
    fun d h1 h2 => zero d (relativeDistance_beyond _ _ _ h1 h2),
    fun hmm d h => zero d (relativeDistance_beyond _ _ _ h (le_trans hmm h)),
    fun d1 d2 h12 => ?_, fun d => ?_⟩
  · rw [attenuation_real, attenuation_real]
    apply C19_amp_monotone
    unfold attDb
    have hr := relativeDistance_mono minD maxD d1 d2 h12
    have := Easing.mono e he _ _ (relArg_mem minD maxD d2).1 (by linarith) (relArg_mem minD maxD d1).2
    linarith
  · rw [attenuation_real]
    refine ⟨(C19_amp_range _).1, (C19_amp_range _).2 ?_⟩
    unfold attDb
    have := (Easing.range e he _ (relArg_mem minD maxD d).1 (relArg_mem minD maxD d).2).2
    linarith

/-! ### ear gains -/

/-- **each ear gain lies in [1 − strength, 1]** for a unit orientation and a strength in [0, 1]
    (Cauchy–Schwarz: the cosine between a unit ear direction and the direction to the emitter is in
    [−1, 1]; a coincident emitter gives the middle value) — for every emitter and listener position. -/
theorem C15_ear_gain_range (s : ℝ) (p lp : Vec3 ℝ) (lo : Quat ℝ) (hq : Quat.normSq lo = 1)
    (hs0 : 0 ≤ s) (_hs1 : s ≤ 1) :
    1 - s ≤ (earGains s p lp lo).1 ∧ (earGains s p lp lo).1 ≤ 1
      ∧ 1 - s ≤ (earGains s p lp lo).2 ∧ (earGains s p lp lo).2 ≤ 1 := by
  unfold earGains earVolumes
  simp only [earGain_real, r32_real, lit_1]
  obtain ⟨hl, hr⟩ := earDirections_unit lo hq
  obtain ⟨l0, l1⟩ := earVolume_range (earDirections lo).1 (earPositions lp lo).1 p hl
  obtain ⟨r0, r1⟩ := earVolume_range (earDirections lo).2 (earPositions lp lo).2 p hr
  refine ⟨?_, ?_, ?_, ?_⟩ <;> nlinarith

/-- **at strength 0 the stereo signal passes unpanned**: without an attenuation curve the output
    *is* the input; with one, both channels are scaled by the same distance amplitude (no mono
    mix-down, no ear gains, the orientation is not even looked at). -/
theorem C15_strength_zero_passthrough (minD maxD : ℝ) (p lp : Vec3 ℝ) (lo : Quat ℝ) (input : Frame ℝ) :
    spatializeAt none minD maxD p 0 input lp lo = input
    ∧ ∀ e : Easing ℝ,
        spatializeAt (some e) minD maxD p 0 input lp lo
          = ⟨input.left * asAmplitude (attDb e minD maxD (Vec3.distance lp p)),
             input.right * asAmplitude (attDb e minD maxD (Vec3.distance lp p))⟩ := by
  constructor
  · unfold spatializeAt; simp
  · intro e
    unfold spatializeAt
    have : Vec3.length (Vec3.sub lp p) = Vec3.distance lp p := rfl
    simp only [this, attenuation_real e minD maxD _]
    simp [Frame.scale]

/-- the same at the level of `SpatialData::spatialize`: any strength parameter whose interpolated
    value is ≤ 0 (it is clamped to [0, 1] first) switches panning off. -/
theorem C15_strength_clamped_zero (sd : SpatialData ℝ) (t : ℝ) (input : Frame ℝ) (lp : Vec3 ℝ) (lo : Quat ℝ)
    (h : sd.strength.interpolatedValue tw32 t ≤ 0) (hatt : sd.attenuation = none) :
    sd.spatialize input lp lo t = input := by
  unfold SpatialData.spatialize SpatialData.strengthAt
  have : clamp (sd.strength.interpolatedValue tw32 t) (0.0 : ℝ) (1.0 : ℝ) = 0 := by
    simp only [lit_0, lit_1]
    rw [clamp_real _ _ _ (by norm_num), min_eq_left (by linarith), max_eq_left h]
  rw [this, hatt]
  exact (C15_strength_zero_passthrough _ _ _ _ _ _).1

/-- **mirroring through the listener's median plane swaps the two ear gains** (and leaves the
    distance, hence the attenuation, unchanged).  The median plane passes through the listener and
    is perpendicular to its right-pointing axis `n = lo · X`; the mirrored emitter is
    `p − 2((p − lp)·n) n`.  For every position and every unit orientation. -/
theorem C15_mirror_swaps (s : ℝ) (p lp : Vec3 ℝ) (lo : Quat ℝ) (hq : Quat.normSq lo = 1) :
    earGains s (Vec3.sub p (Vec3.scale (lo.mulVec3 Vec3.posX) (2 * Vec3.dot (Vec3.sub p lp) (lo.mulVec3 Vec3.posX)))) lp lo
        = ((earGains s p lp lo).2, (earGains s p lp lo).1)
    ∧ Vec3.distance lp (Vec3.sub p (Vec3.scale (lo.mulVec3 Vec3.posX) (2 * Vec3.dot (Vec3.sub p lp) (lo.mulVec3 Vec3.posX))))
        = Vec3.distance lp p := by
  have hn := axisX_unit lo hq
  have hfn := axisZ_axisX lo hq
  change Vec3.dot (axisX lo) (axisX lo) = 1 at hn
  obtain ⟨m1, m2, m3, m4, m5⟩ := mirror_core (axisX lo) (axisZ lo) (Vec3.sub p lp) cA cB (1 / 10) hn hfn
  change earGains s (Vec3.sub p (Vec3.scale (axisX lo) (2 * Vec3.dot (Vec3.sub p lp) (axisX lo)))) lp lo = _
    ∧ Vec3.distance lp (Vec3.sub p (Vec3.scale (axisX lo) (2 * Vec3.dot (Vec3.sub p lp) (axisX lo)))) = _
  set n := axisX lo with hnd
  set p' := Vec3.sub p (Vec3.scale n (2 * Vec3.dot (Vec3.sub p lp) n)) with hp'
  -- vectors from the ears to the (mirrored) emitter
  have eL : ∀ x : Vec3 ℝ, Vec3.sub x (earPositions lp lo).1 = Vec3.add (Vec3.sub x lp) (Vec3.scale n (1 / 10)) := by
    intro x; rw [earPositions_real]; ext <;> simp [hnd] <;> ring
  have eR : ∀ x : Vec3 ℝ, Vec3.sub x (earPositions lp lo).2 = Vec3.sub (Vec3.sub x lp) (Vec3.scale n (1 / 10)) := by
    intro x; rw [earPositions_real]; ext <;> simp [hnd] <;> ring
  have hw' : Vec3.sub p' lp = Vec3.sub (Vec3.sub p lp) (Vec3.scale n (2 * Vec3.dot (Vec3.sub p lp) n)) := by
    rw [hp']; ext <;> simp <;> ring
  constructor
  · unfold earGains earVolumes
    have h1 : earVolume (earDirections lo).1 (earPositions lp lo).1 p'
        = earVolume (earDirections lo).2 (earPositions lp lo).2 p := by
      apply earVolume_congr
      · rw [eL, eR, hw', earDirections_real]; exact m3
      · rw [eL, eR, hw']; exact m4
    have h2 : earVolume (earDirections lo).2 (earPositions lp lo).2 p'
        = earVolume (earDirections lo).1 (earPositions lp lo).1 p := by
      apply earVolume_congr
      · rw [eL, eR, hw', earDirections_real]; exact m1
      · rw [eL, eR, hw']; exact m2
    simp only [h1, h2]
  · unfold Vec3.distance
    rw [Vec3.length_real, Vec3.length_real]
    congr 1
    have a1 : Vec3.dot (Vec3.sub lp p') (Vec3.sub lp p') = Vec3.dot (Vec3.sub p' lp) (Vec3.sub p' lp) := by
      simp only [Vec3.dot_real, Vec3.sub_x, Vec3.sub_y, Vec3.sub_z]; ring
    have a2 : Vec3.dot (Vec3.sub lp p) (Vec3.sub lp p) = Vec3.dot (Vec3.sub p lp) (Vec3.sub p lp) := by
      simp only [Vec3.dot_real, Vec3.sub_x, Vec3.sub_y, Vec3.sub_z]; ring
    rw [a1, a2, hw']; exact m5

/-- **a rigid motion applied to listener and emitter together changes nothing**: rotate both
    positions by a unit quaternion `r`, translate both by `t`, compose the listener's orientation
    with `r` (Hamilton product) — the distance, both ear gains and therefore the whole output frame
    are unchanged.  For every position, every (not necessarily unit) orientation, every parameter. -/
theorem C15_rigid_motion_invariant (att : Option (Easing ℝ)) (minD maxD s : ℝ) (p lp t : Vec3 ℝ)
    (lo r : Quat ℝ) (input : Frame ℝ) (hr : Quat.normSq r = 1) :
    Vec3.distance (Vec3.add (r.mulVec3 lp) t) (Vec3.add (r.mulVec3 p) t) = Vec3.distance lp p
    ∧ earGains s (Vec3.add (r.mulVec3 p) t) (Vec3.add (r.mulVec3 lp) t) (Quat.mulQ r lo) = earGains s p lp lo
    ∧ spatializeAt att minD maxD (Vec3.add (r.mulVec3 p) t) s input (Vec3.add (r.mulVec3 lp) t) (Quat.mulQ r lo)
        = spatializeAt att minD maxD p s input lp lo := by
  have hdist : Vec3.distance (Vec3.add (r.mulVec3 lp) t) (Vec3.add (r.mulVec3 p) t) = Vec3.distance lp p := by
    unfold Vec3.distance
    have : Vec3.sub (Vec3.add (r.mulVec3 lp) t) (Vec3.add (r.mulVec3 p) t) = r.mulVec3 (Vec3.sub lp p) := by
      rw [Quat.mulVec3_sub]; ext <;> simp
    rw [this, Vec3.length_real, Vec3.length_real, Quat.mulVec3_dot_unit r hr]
  have hg : earGains s (Vec3.add (r.mulVec3 p) t) (Vec3.add (r.mulVec3 lp) t) (Quat.mulQ r lo) = earGains s p lp lo := by
    unfold earGains earVolumes earDirections earPositions
    have hv : ∀ (d e0 : Vec3 ℝ),
        earVolume ((Quat.mulQ r lo).mulVec3 d)
            (Vec3.add (Vec3.add (r.mulVec3 lp) t) ((Quat.mulQ r lo).mulVec3 e0)) (Vec3.add (r.mulVec3 p) t)
          = earVolume (lo.mulVec3 d) (Vec3.add lp (lo.mulVec3 e0)) p := by
      intro d e0
      have hsub : Vec3.sub (Vec3.add (r.mulVec3 p) t) (Vec3.add (Vec3.add (r.mulVec3 lp) t) ((Quat.mulQ r lo).mulVec3 e0))
          = r.mulVec3 (Vec3.sub p (Vec3.add lp (lo.mulVec3 e0))) := by
        rw [Quat.mulQ_mulVec3, Quat.mulVec3_sub, Quat.mulVec3_add]; ext <;> simp <;> ring
      apply earVolume_congr
      · rw [hsub, Quat.mulQ_mulVec3, Quat.mulVec3_dot_unit r hr]
      · rw [hsub, Quat.mulVec3_dot_unit r hr]
    simp only [hv]
  refine ⟨hdist, hg, ?_⟩
  unfold spatializeAt
  have e1 : ∀ a b : Vec3 ℝ, Vec3.length (Vec3.sub a b) = Vec3.distance a b := fun _ _ => rfl
  simp only [e1, hdist, hg]

/-- **favours the ear on the emitter's side** — for every emitter *outside the head* (at least
    EAR_DISTANCE = 0.1 from the listener): if the emitter lies on the listener's right
    (`(p − lp)·(lo·X) > 0`) the right ear's gain is at least the left ear's, and symmetrically on the
    left; for every unit orientation, every strength ≥ 0, every elevation and front/back position.
    The distance hypothesis cannot be dropped: `C15_favours_near_ear_fails_inside_head` below. -/
theorem C15_favours_near_ear_outside_head (s : ℝ) (p lp : Vec3 ℝ) (lo : Quat ℝ) (hq : Quat.normSq lo = 1)
    (hs : 0 ≤ s) (hfar : (1 / 10 : ℝ) ^ 2 ≤ Vec3.dot (Vec3.sub p lp) (Vec3.sub p lp)) :
    (0 < Vec3.dot (Vec3.sub p lp) (lo.mulVec3 Vec3.posX) → (earGains s p lp lo).1 ≤ (earGains s p lp lo).2)
    ∧ (Vec3.dot (Vec3.sub p lp) (lo.mulVec3 Vec3.posX) < 0 → (earGains s p lp lo).2 ≤ (earGains s p lp lo).1) := by
  have hn := axisX_unit lo hq
  have hf := axisZ_unit lo hq
  have hfn := axisZ_axisX lo hq
  change (0 < Vec3.dot (Vec3.sub p lp) (axisX lo) → _) ∧ (Vec3.dot (Vec3.sub p lp) (axisX lo) < 0 → _)
  set n := axisX lo with hnd
  set f := axisZ lo with hfd
  set w := Vec3.sub p lp with hw
  have eL : Vec3.sub p (earPositions lp lo).1 = Vec3.add w (Vec3.scale n (1 / 10)) := by
    rw [earPositions_real]; ext <;> simp [hnd, hw] <;> ring
  have eR : Vec3.sub p (earPositions lp lo).2 = Vec3.sub w (Vec3.scale n (1 / 10)) := by
    rw [earPositions_real]; ext <;> simp [hnd, hw] <;> ring
  obtain ⟨d1, d2, d3, d4⟩ := ear_dots n f w cA cB (1 / 10) hn hfn
  have hb := bessel2 n f w hn hf hfn
  have hvL : earVolume (earDirections lo).1 (earPositions lp lo).1 p
      = (vol (-cA * Vec3.dot w n - cB * Vec3.dot w f - cA * (1 / 10))
          (Vec3.dot w w + 2 * (1 / 10) * Vec3.dot w n + (1 / 10) ^ 2) + 1) / 2 := by
    rw [earVolume_real, eL, earDirections_real, d1, d3]
  have hvR : earVolume (earDirections lo).2 (earPositions lp lo).2 p
      = (vol (cA * Vec3.dot w n - cB * Vec3.dot w f - cA * (1 / 10))
          (Vec3.dot w w - 2 * (1 / 10) * Vec3.dot w n + (1 / 10) ^ 2) + 1) / 2 := by
    rw [earVolume_real, eR, earDirections_real, d2, d4]
  have hfar' : (1 / 10 : ℝ) ^ 2 ≤ Vec3.dot w w := hfar
  have hA0 : 0 < cA := by linarith [cA_ge_half]
  unfold earGains earVolumes
  simp only [earGain_real, r32_real, lit_1, hvL, hvR]
  constructor
  · intro hX
    have := favours_core_full cA cB (1 / 10) (Vec3.dot w n) (Vec3.dot w f) (Vec3.dot w w) cA_sq_add_cB_sq hA0
      cB_nonneg cB_sq_le_cA_sq (by norm_num) hX hb hfar'
    nlinarith
  · intro hX
    have hX' : 0 < -Vec3.dot w n := by linarith
    have hb' : (-Vec3.dot w n) ^ 2 + (Vec3.dot w f) ^ 2 ≤ Vec3.dot w w := by nlinarith
    have := favours_core_full cA cB (1 / 10) (-Vec3.dot w n) (Vec3.dot w f) (Vec3.dot w w) cA_sq_add_cB_sq hA0
      cB_nonneg cB_sq_le_cA_sq (by norm_num) hX' hb' hfar'
    have e1 : -cA * -Vec3.dot w n - cB * Vec3.dot w f - cA * (1 / 10)
        = cA * Vec3.dot w n - cB * Vec3.dot w f - cA * (1 / 10) := by ring
    have e2 : Vec3.dot w w + 2 * (1 / 10) * -Vec3.dot w n + (1 / 10) ^ 2
        = Vec3.dot w w - 2 * (1 / 10) * Vec3.dot w n + (1 / 10) ^ 2 := by ring
    have e3 : cA * -Vec3.dot w n - cB * Vec3.dot w f - cA * (1 / 10)
        = -cA * Vec3.dot w n - cB * Vec3.dot w f - cA * (1 / 10) := by ring
    have e4 : Vec3.dot w w - 2 * (1 / 10) * -Vec3.dot w n + (1 / 10) ^ 2
        = Vec3.dot w w + 2 * (1 / 10) * Vec3.dot w n + (1 / 10) ^ 2 := by ring
    rw [e1, e2, e3, e4] at this
    nlinarith

/-- **the statement without the distance hypothesis is false inside the head** (concrete witness, replayed on the real
    code in `corpus/spatial/inside_head.ops`): listener at the origin looking down −z, emitter at
    (0.0225, 0, 0.02195…) — on the listener's *right*, 3 cm from the centre, slightly behind the ear
    line — at full strength the *left* ear's gain is strictly larger than the right ear's. -/
theorem C15_favours_near_ear_fails_inside_head :
    Quat.normSq (Quat.identity : Quat ℝ) = 1
    ∧ 0 < Vec3.dot (Vec3.sub (⟨9 / 400, 0, 9 / 410⟩ : Vec3 ℝ) Vec3.zero) ((Quat.identity : Quat ℝ).mulVec3 Vec3.posX)
    ∧ (earGains 1 (⟨9 / 400, 0, 9 / 410⟩ : Vec3 ℝ) Vec3.zero Quat.identity).2
        < (earGains 1 (⟨9 / 400, 0, 9 / 410⟩ : Vec3 ℝ) Vec3.zero Quat.identity).1 := by
  have hq : Quat.normSq (Quat.identity : Quat ℝ) = 1 := by simp [Quat.normSq, Quat.identity]
  have hX : Vec3.dot (Vec3.sub (⟨9 / 400, 0, 9 / 410⟩ : Vec3 ℝ) Vec3.zero) (axisX Quat.identity) = 9 / 400 := by
    simp [axisX, Vec3.dot_real, Quat.mulVec3_x, Quat.mulVec3_y, Quat.mulVec3_z, Quat.identity]
  have hZ : Vec3.dot (Vec3.sub (⟨9 / 400, 0, 9 / 410⟩ : Vec3 ℝ) Vec3.zero) (axisZ Quat.identity) = 9 / 410 := by
    simp [axisZ, Vec3.dot_real, Quat.mulVec3_x, Quat.mulVec3_y, Quat.mulVec3_z, Quat.identity]
  have hW : Vec3.dot (Vec3.sub (⟨9 / 400, 0, 9 / 410⟩ : Vec3 ℝ) Vec3.zero) (Vec3.sub (⟨9 / 400, 0, 9 / 410⟩ : Vec3 ℝ) Vec3.zero)
      = (9 / 400) ^ 2 + (9 / 410) ^ 2 := by
    simp [Vec3.dot_real]; ring
  refine ⟨hq, ?_, ?_⟩
  · change 0 < Vec3.dot _ (axisX Quat.identity); rw [hX]; norm_num
  · unfold earGains
    rw [earVolumes_frame _ _ _ hq, hX, hZ, hW]
    simp only [earGain_real, r32_real, lit_1]
    have qL : (9 / 400 : ℝ) ^ 2 + (9 / 410) ^ 2 + 2 * (1 / 10) * (9 / 400) + (1 / 10) ^ 2 = (2041 / 16400) ^ 2 := by norm_num
    have qR : (9 / 400 : ℝ) ^ 2 + (9 / 410) ^ 2 - 2 * (1 / 10) * (9 / 400) + (1 / 10) ^ 2 = (1321 / 16400) ^ 2 := by norm_num
    rw [qL, qR]
    unfold vol
    have p1 : (0 : ℝ) < (2041 / 16400) ^ 2 := by norm_num
    have p2 : (0 : ℝ) < (1321 / 16400) ^ 2 := by norm_num
    simp only [p1, p2, if_true]
    rw [Real.sqrt_sq (by norm_num), Real.sqrt_sq (by norm_num)]
    have hB := cB_ge_quarter
    have hA := cA_le_one
    have e1 : (-cA * (9 / 400) - cB * (9 / 410) - cA * (1 / 10)) / (2041 / 16400)
        = -cA * (2009 / 2041) - cB * (360 / 2041) := by ring
    have e2 : (cA * (9 / 400) - cB * (9 / 410) - cA * (1 / 10)) / (1321 / 16400)
        = -cA * (1271 / 1321) - cB * (360 / 1321) := by ring
    rw [e1, e2]
    nlinarith

/-! ### no listener ⇒ silence -/

/-- **if the listener does not exist the track is silent**: every frame of the chunk is zeroed,
    whatever was mixed into it (sounds, sub-tracks, effects). -/
theorem C15_no_listener_silent (sd : SpatialData ℝ) (n : ℕ) (i : ℕ) (frames : List (Frame ℝ)) :
    (∀ f, sd.frameOut none i n f = Frame.zero)
    ∧ sd.chunkOut none n i frames = List.replicate frames.length Frame.zero := by
  refine ⟨fun f => rfl, ?_⟩
  induction frames generalizing i with
  | nil => rfl
  | cons f rest ih =>
    unfold SpatialData.chunkOut
    have : sd.frameOut none i n f = Frame.zero := rfl
    rw [this, ih (i + 1)]
    simp [List.replicate_succ]

/-- **a dropped listener is gone at the next callback, a never-added one is never found**:
    after `on_start_processing`, looking up an id that only belongs to listeners whose handle was
    dropped (and that is not waiting in the new-resource queue) finds nothing — so by
    `C15_no_listener_silent` every spatial track bound to it is silent from that callback on. -/
theorem C15_dropped_listener_not_found (sc : Scene ℝ) (id : ℕ)
    (hact : ∀ l ∈ sc.listeners, l.id = id → l.removed = true)
    (hpend : ∀ l ∈ sc.pending, l.id ≠ id) :
    sc.onStartProcessing.listenerInfo id = none := by
  unfold Scene.listenerInfo Scene.onStartProcessing
  simp only [Option.map_eq_none_iff, List.find?_eq_none, List.mem_map, List.mem_append, List.mem_filter]
  rintro l ⟨l0, hl0, rfl⟩
  have hid : l0.readCommands.id = l0.id := rfl
  rw [hid]
  rcases hl0 with ⟨hm, hnr⟩ | hm
  · intro hEq
    have := hact l0 hm (by simpa using hEq)
    simp [this] at hnr
  · intro hEq
    exact hpend l0 hm (by simpa using hEq)

/-! ### a parameter mapped from the listener distance follows that distance -/

/-- **listener distance**: it is the Euclidean distance between the listener's current position and
    the position of the (nearest enclosing) spatial track, and it is absent exactly when there is
    no enclosing spatial track or its listener does not exist. -/
theorem C15_listener_distance (sti : Option (SpatialTrackInfo ℝ)) (li : Option (ListenerInfo ℝ)) :
    (∀ s l, sti = some s → li = some l → listenerDistance sti li = some (Vec3.distance l.position s.position))
    ∧ (sti = none ∨ li = none → listenerDistance sti li = none) := by
  constructor
  · rintro s l rfl rfl; rfl
  · rintro (rfl | rfl)
    · rfl
    · cases sti <;> rfl

/-- **distance mapping**: a value `FromListenerDistance(mapping)` evaluates to `mapping.map(distance)`;
    a parameter resting on such a value takes exactly that after every update (so it follows the
    distance chunk by chunk); when there is no listener it keeps its last value. -/
theorem C15_distance_mapping {τ : Type} (tw : Tweenable ℝ τ) (m : Mapping ℝ τ) (info : Info ℝ)
    (p : Parameter ℝ τ) (dt : ℝ) (hstate : p.state = .idle (.fromListenerDistance m)) (hst : p.stagnant = false) :
    (Value.fromListenerDistance m).rawValue tw info = info.listenerDistance.map (fun d => m.map tw d)
    ∧ (∀ d, info.listenerDistance = some d → (p.update tw dt info).1.raw = m.map tw d)
    ∧ (info.listenerDistance = none → (p.update tw dt info).1.raw = p.raw) := by
  refine ⟨rfl, fun d hd => ?_, fun hn => ?_⟩
  · unfold Parameter.update
    simp [hst, Parameter.updateTween, hstate, Parameter.calcRaw, Value.rawValue, hd]
  · unfold Parameter.update
    simp [hst, Parameter.updateTween, hstate, Parameter.calcRaw, Value.rawValue, hn]

/-- a parameter created from a `FromListenerDistance` value is in the state the theorem above asks for -/
example (m : Mapping ℝ ℝ) (d : ℝ) :
    (Parameter.new (.fromListenerDistance m) d).state = .idle (.fromListenerDistance m)
      ∧ (Parameter.new (.fromListenerDistance m) d).stagnant = false := by
  simp [Parameter.new, Value.isFixed]

/-! ### defined for every input -/

/-- **defined (no division by zero) for every position — including emitter and listener at the same
    point — every pair of distances (`min < max`, `min = max`, `min > max`), every previous/current
    listener orientation (the zero quaternion included), every strength and input**: the checked
    computation (which raises `nonFinite` at a zero divisor) never raises anything and returns the
    frame of the plain one, and the orientation handed to the ear geometry is a *unit* quaternion
    (so the ear-gain theorems above apply to whatever orientation a caller supplies).
    `relative_distance` divides only when `min < max`; `rotation_or_identity` replaces an orientation
    without usable length by the identity before the interpolation is normalised; `normalize_or_zero`
    guards the only other division.  The only hypothesis left is that the interpolation amount is a
    time within the chunk, `t ∈ [0, 1]`. -/
theorem C15_defined (att : Option (Easing ℝ)) (minD maxD s : ℝ) (p lp pp plp : Vec3 ℝ) (input : Frame ℝ)
    (a e : Quat ℝ) (t : ℝ) (ht0 : 0 ≤ t) (ht1 : t ≤ 1) :
    spatializeChecked att minD maxD p s input lp a e t
      = .ok (spatializeAt att minD maxD p s input lp ((⟨plp, e, pp, a⟩ : ListenerInfo ℝ).interpolatedOrientation t))
    ∧ Quat.normSq ((⟨plp, e, pp, a⟩ : ListenerInfo ℝ).interpolatedOrientation t) = 1 := by
  obtain ⟨hpos, hunit⟩ := Quat.lerp_normSq (Quat.rotationOrIdentity a) (Quat.rotationOrIdentity e) t
    (Quat.rotationOrIdentity_ne_zero a) (Quat.rotationOrIdentity_ne_zero e) ht0 ht1
  refine ⟨?_, hunit⟩
  unfold spatializeChecked ListenerInfo.interpolatedOrientation
  have h1 : (decide (minD < maxD) && feq (KOps.r32 (maxD - minD)) (0.0 : ℝ)) = false := by
    by_cases h : minD < maxD
    · have : ¬ (maxD - minD = 0) := by intro h0; linarith
      simp [h, this]
    · simp [h]
  have h2 : feq (KOps.r32 (KOps.sqrt (Quat.dot4
      (Quat.add (Quat.scale (Quat.rotationOrIdentity a) (KOps.r32 ((1.0 : ℝ) - t)))
        (Quat.scale (if signNeg (Quat.dot4 (Quat.rotationOrIdentity a) (Quat.rotationOrIdentity e))
          then Quat.neg (Quat.rotationOrIdentity e) else Quat.rotationOrIdentity e) t))
      (Quat.add (Quat.scale (Quat.rotationOrIdentity a) (KOps.r32 ((1.0 : ℝ) - t)))
        (Quat.scale (if signNeg (Quat.dot4 (Quat.rotationOrIdentity a) (Quat.rotationOrIdentity e))
          then Quat.neg (Quat.rotationOrIdentity e) else Quat.rotationOrIdentity e) t))))) (0.0 : ℝ) = false := by
    simp only [r32_real, sqrt_real, lit_0, feq_real, decide_eq_false_iff_not, Quat.dot4_self]
    exact ne_of_gt (Real.sqrt_pos.mpr hpos)
  simp only [Bool.and_assoc, h1, h2, Bool.and_false, Bool.false_eq_true, if_false]

/-- **the formerly excluded inputs now have a definite level**: inverted distances `(2, 1)` and
    degenerate distances `(1, 1)` give full volume closer than the minimum and silence from it on
    (no panic, no 0/0), for every easing; a listener whose previous and current orientation are the
    zero quaternion is heard exactly as one with the identity orientation. -/
theorem C15_degenerate_inputs_defined (ez : Easing ℝ) (he : ez.PosPower) (pos ppos : Vec3 ℝ) (t : ℝ) :
    (∀ d, d < 2 → attenuation ez 2 1 d = 1) ∧ (∀ d, 2 ≤ d → attenuation ez 2 1 d = 0)
    ∧ (∀ d, d < 1 → attenuation ez 1 1 d = 1) ∧ (∀ d, 1 ≤ d → attenuation ez 1 1 d = 0)
    ∧ (⟨pos, ⟨0, 0, 0, 0⟩, ppos, ⟨0, 0, 0, 0⟩⟩ : ListenerInfo ℝ).interpolatedOrientation t
        = (⟨pos, Quat.identity, ppos, Quat.identity⟩ : ListenerInfo ℝ).interpolatedOrientation t := by
  obtain ⟨a1, _, _, a4, _, _⟩ := C15_attenuation_range ez he 2 1
  obtain ⟨b1, _, _, b4, _, _⟩ := C15_attenuation_range ez he 1 1
  refine ⟨a1, a4 (by norm_num), b1, b4 le_rfl, ?_⟩
  unfold ListenerInfo.interpolatedOrientation
  simp only [Quat.rotationOrIdentity_zero, Quat.rotationOrIdentity_unit _ Quat.normSq_identity]

/-! ### non-vacuity -/

/-- a unit orientation, an emitter on the right and far enough: the hypotheses of the ear-gain
    theorems are satisfiable -/
example : Quat.normSq (Quat.identity : Quat ℝ) = 1
    ∧ 0 < Vec3.dot (Vec3.sub (⟨1, 0, 0⟩ : Vec3 ℝ) Vec3.zero) ((Quat.identity : Quat ℝ).mulVec3 Vec3.posX)
    ∧ (1 / 10 : ℝ) ^ 2 ≤ Vec3.dot (Vec3.sub (⟨1, 0, 0⟩ : Vec3 ℝ) Vec3.zero) (Vec3.sub (⟨1, 0, 0⟩ : Vec3 ℝ) Vec3.zero) := by
  refine ⟨?_, ?_, ?_⟩
  · simp [Quat.normSq, Quat.identity]
  · simp [Vec3.dot_real, Quat.mulVec3_x, Quat.mulVec3_y, Quat.mulVec3_z, Quat.identity]
  · simp [Vec3.dot_real]; norm_num

/-- a 90° turn about the vertical axis is a unit quaternion (rigid-motion hypothesis) -/
example : Quat.normSq (⟨0, Real.sqrt 2 / 2, 0, Real.sqrt 2 / 2⟩ : Quat ℝ) = 1 := by
  unfold Quat.normSq
  have : Real.sqrt 2 * Real.sqrt 2 = 2 := Real.mul_self_sqrt (by norm_num)
  nlinarith

/-- the built-in default easing is in the domain of `C15_attenuation_range` (the distances are arbitrary) -/
example : (Easing.linear : Easing ℝ).PosPower := trivial

/-- coincident emitter and listener: both ears hear the middle volume `1 − s/2`… not exactly — each
    ear still sees the emitter 0.1 to its side; here: the result is defined and within range -/
example (s : ℝ) (hs0 : 0 ≤ s) (hs1 : s ≤ 1) (x : Vec3 ℝ) :
    1 - s ≤ (earGains s x x (Quat.identity : Quat ℝ)).1 ∧ (earGains s x x (Quat.identity : Quat ℝ)).1 ≤ 1 := by
  have h := C15_ear_gain_range s x x (Quat.identity : Quat ℝ) (by simp [Quat.normSq, Quat.identity]) hs0 hs1
  exact ⟨h.1, h.2.1⟩

end K
