/-
  C17 — modulators produce their configured curves; linked parameters follow in-chunk.
  Statements about the models of modulator/lfo.rs (Model/Lfo.lean), modulator/tweener.rs
  (Model/Tweener.lean), the modulator store and the chunk order (Model/ModulatorChunk.lean) and the
  linked parameters (Model/Parameter.lean), over ℝ.
-/
import KiraModel.Proofs.ModulatorLemmas
import KiraModel.Props.C06
import KiraModel.Props.C19
import KiraModel.Proofs.GenAgreeMod

namespace K

/-! ### LFO: waveforms, range, phase -/

/-- **waveform range**: for a non-negative phase — the only phases `Lfo::update` evaluates a waveform at, see
    `C17_lfo_phase_unit` — every one of the four waveforms lies in [-1, 1] (pulse: whatever its width). -/
theorem C17_waveform_range (w : Waveform ℝ) (p : ℝ) (hp : 0 ≤ p) : -1 ≤ w.value p ∧ w.value p ≤ 1 :=
  Waveform.value_range w p hp

/-- **the waveform formulas**, for a phase in [0, 1): sine = sin(2π·phase); triangle rises 0 → 1 on the first
    quarter, falls 1 → -1 until three quarters, rises -1 → 0; saw rises 0 → 1 on the first half, jumps to -1
    and rises to 0; pulse is 1 below the width and -1 from it on. -/
theorem C17_waveform_formulas (p : ℝ) (h0 : 0 ≤ p) (h1 : p < 1) :
    (Waveform.sine : Waveform ℝ).value p = Real.sin (2 * Real.pi * p)
      ∧ (Waveform.triangle : Waveform ℝ).value p
          = (if p < 1 / 4 then 4 * p else if p ≤ 3 / 4 then 2 - 4 * p else 4 * p - 4)
      ∧ (Waveform.saw : Waveform ℝ).value p = (if p < 1 / 2 then 2 * p else 2 * p - 2)
      ∧ ∀ width : ℝ, (Waveform.pulse width).value p = (if p < width then 1 else -1) := by
  refine ⟨?_, ?_, ?_, ?_⟩
  · simp only [Waveform.value, sin_real, tau_real]; ring_nf
  · simp only [Waveform.value, abs_real, lit_075, lit_half, lit_4, lit_1]
    rw [ClockTime.fract_nonneg_real _ (by linarith)]
    by_cases hq : p < 1 / 4
    · have : Int.fract (p + 3 / 4) = p + 3 / 4 := Int.fract_eq_self.mpr ⟨by linarith, by linarith⟩
      rw [this, abs_of_nonneg (by linarith)]; simp only [hq, if_true]; ring
    · have : Int.fract (p + 3 / 4) = p - 1 / 4 := by
        rw [Int.fract_eq_iff]; refine ⟨by linarith, by linarith, 1, by push_cast; ring⟩
      rw [this]; simp only [hq, if_false]
      by_cases hr : p ≤ 3 / 4
      · rw [abs_of_nonpos (by linarith)]; simp only [hr, if_true]; ring
      · rw [abs_of_nonneg (by linarith)]; simp only [hr, if_false]; ring
  · simp only [Waveform.value, lit_half, lit_2, lit_1]
    rw [ClockTime.fract_nonneg_real _ (by linarith)]
    by_cases hq : p < 1 / 2
    · have : Int.fract (p + 1 / 2) = p + 1 / 2 := Int.fract_eq_self.mpr ⟨by linarith, by linarith⟩
      rw [this]; simp only [hq, if_true]; ring
    · have : Int.fract (p + 1 / 2) = p - 1 / 2 := by
        rw [Int.fract_eq_iff]; refine ⟨by linarith, by linarith, 1, by push_cast; ring⟩
      rw [this]; simp only [hq, if_false]; ring
  · intro width; simp only [Waveform.value, lit_1]

/-- **the value formula**: after every update the LFO's value is
    `offset + amplitude · waveform(phase)` of the *updated* offset, amplitude and phase, and the phase
    advanced by `dt · frequency` (updated frequency) modulo 1 — the Euclidean remainder `x − ⌊x⌋ ∈ [0, 1)`
    (`rem_euclid(1.0)`), for every sign of the old phase and of the advance; the configured starting phase
    (radians) is the phase `starting_phase / 2π` in cycles. -/
theorem C17_lfo_value_formula (l : Lfo ℝ) (dt : ℝ) (info : Info ℝ) :
    (l.update dt info).value
        = (l.update dt info).offset.raw
          + (l.update dt info).amplitude.raw * l.waveform.value (l.update dt info).phase
      ∧ (l.update dt info).phase = Int.fract (l.phase + dt * (l.update dt info).frequency.raw)
      ∧ ∀ b : LfoBuilder ℝ, (Lfo.new b).phase = b.startingPhase / (2 * Real.pi)
          ∧ (Lfo.new b).waveform = b.waveform := by
  refine ⟨Lfo.update_value l dt info, Lfo.update_phase l dt info, fun b => ⟨?_, rfl⟩⟩
  simp [Lfo.new, tau_real]

/-- **LFO range** (full strength: every phase, every frequency, every step): after an update the value stays
    within offset ± |amplitude| — all four waveforms, any state the LFO was in (in particular the negative
    phases that a negative `starting_phase` / `set_phase` in radians produces), any sign of the frequency and
    of `dt`, any tweens or links on the three settings (the bound is in terms of their current values).
    (Before kira's fix "LFO with a negative phase left offset ± |amplitude|" this needed phase ≥ 0, f ≥ 0.) -/
theorem C17_lfo_range (l : Lfo ℝ) (dt : ℝ) (info : Info ℝ) :
    |(l.update dt info).value - (l.update dt info).offset.raw| ≤ |(l.update dt info).amplitude.raw| := by
  obtain ⟨a, b⟩ := Waveform.value_range (l.update dt info).waveform _ (Lfo.update_phase_unit l dt info).1
  rw [Lfo.update_value, add_sub_cancel_left, abs_mul]
  have : |(l.update dt info).waveform.value (l.update dt info).phase| ≤ 1 := abs_le.mpr ⟨a, b⟩
  calc |(l.update dt info).amplitude.raw| * |(l.update dt info).waveform.value (l.update dt info).phase|
      ≤ |(l.update dt info).amplitude.raw| * 1 := mul_le_mul_of_nonneg_left this (abs_nonneg _)
    _ = |(l.update dt info).amplitude.raw| := mul_one _

/-- … for a whole run of updates (any partition of time, any starting state): the bound holds after the
    last update. -/
theorem C17_lfo_range_run (info : Info ℝ) : ∀ (dts : List ℝ) (l : Lfo ℝ), dts ≠ [] →
    |(l.run info dts).value - (l.run info dts).offset.raw| ≤ |(l.run info dts).amplitude.raw| := by
  intro dts
  induction dts with
  | nil => intro l h; exact absurd rfl h
  | cons dt rest ih =>
    intro l _
    cases rest with
    | nil => exact C17_lfo_range l dt info
    | cons d2 r2 => exact ih (l.update dt info) (by simp)

/-- **the phase is always in [0, 1) after an update** — the invariant kira's fix restores. -/
theorem C17_lfo_phase_unit (l : Lfo ℝ) (dt : ℝ) (info : Info ℝ) :
    0 ≤ (l.update dt info).phase ∧ (l.update dt info).phase < 1 :=
  Lfo.update_phase_unit l dt info

/-- **the old failing input is in range now** (regression statement replacing the former negation witness
    `C17_lfo_range_fails_negative_phase`): `LfoBuilder { waveform: Saw, frequency: 1, amplitude: 1, offset: 0,
    starting_phase: -0.6 · 2π }` updated with `dt = 0` has phase 0.4 and value 0.8 (the old code: phase -0.6,
    value -1.2). -/
theorem C17_lfo_negative_phase_wraps :
    ((Lfo.new (⟨.saw, .fixed 1, .fixed 1, .fixed 0, -(3 / 5) * tau⟩ : LfoBuilder ℝ)).update 0 Info.empty).phase = 2 / 5
      ∧ ((Lfo.new (⟨.saw, .fixed 1, .fixed 1, .fixed 0, -(3 / 5) * tau⟩ : LfoBuilder ℝ)).update 0 Info.empty).value = 4 / 5 := by
  have htau : (-(3 / 5) * tau / tau : ℝ) = -(3 / 5) := by
    have := tau_pos; field_simp
  have hphase : ((Lfo.new (⟨.saw, .fixed 1, .fixed 1, .fixed 0, -(3 / 5) * tau⟩ : LfoBuilder ℝ)).update 0 Info.empty).phase
      = 2 / 5 := by
    rw [Lfo.update_phase]
    simp only [Lfo.new, zero_mul, add_zero, htau]
    rw [Int.fract_eq_iff]
    exact ⟨by norm_num, by norm_num, -1, by push_cast; norm_num⟩
  refine ⟨hphase, ?_⟩
  rw [Lfo.update_value, hphase]
  have hfl : Int.fract ((2 / 5 : ℝ) + 1 / 2) = 9 / 10 :=
    Int.fract_eq_iff.mpr ⟨by norm_num, by norm_num, 0, by push_cast; norm_num⟩
  simp only [Lfo.update, Lfo.new, Parameter.new, Parameter.update, Value.isFixed, if_true, Waveform.value,
    Parameter.value, lit_half, lit_2, lit_1]
  rw [ClockTime.fract_nonneg_real _ (by norm_num), hfl]
  norm_num

/-- **phase accumulation modulo one**: for every run (any signs of steps, frequencies and starting phase) the
    phase differs from `φ₀ + Σ dtᵢ·fᵢ` by a whole number of cycles (also for the empty run). -/
theorem C17_lfo_phase_congruent (info : Info ℝ) : ∀ (dts : List ℝ) (l : Lfo ℝ),
    ∃ n : ℤ, (l.run info dts).phase = l.phase + Lfo.advance l info dts - n := by
  intro dts
  induction dts with
  | nil => intro l; exact ⟨0, by simp [Lfo.run, Lfo.advance]⟩
  | cons dt rest ih =>
    intro l
    obtain ⟨n, hn⟩ := ih (l.update dt info)
    have hstep : ∃ k : ℤ, (l.update dt info).phase = l.phase + dt * (l.update dt info).frequency.raw - k :=
      ⟨⌊l.phase + dt * (l.update dt info).frequency.raw⌋, Lfo.update_phase l dt info⟩
    obtain ⟨k, hk⟩ := hstep
    refine ⟨n + k, ?_⟩
    simp only [Lfo.run, Lfo.advance]
    rw [hn, hk]; push_cast; ring

/-- **phase accumulation, any partition of time** (full strength): after a non-empty run of updates
    phase = fract(φ₀ + Σ dtᵢ·fᵢ) ∈ [0, 1), `fract x = x − ⌊x⌋` the Euclidean fractional part — for every
    starting phase φ₀ (negative ones included), every sign of the frequencies `fᵢ` (the frequency parameter's
    value in update `i`: fixed, tweened or linked) and of the steps; it depends only on the accumulated
    advance, not on how time was cut into updates.
    (Over ℝ.  In binary64 `rem_euclid(1.0)` returns exactly `1.0` for a remainder in [-2⁻⁵⁴, 0): that corner
    is a rounding effect outside this statement; the twin mirrors it bit for bit and the waveforms at phase
    `1.0` equal those at `0.0` up to rounding.) -/
theorem C17_lfo_phase (info : Info ℝ) (l : Lfo ℝ) (dt : ℝ) (dts : List ℝ) :
    (l.run info (dt :: dts)).phase = Int.fract (l.phase + Lfo.advance l info (dt :: dts))
      ∧ 0 ≤ (l.run info (dt :: dts)).phase ∧ (l.run info (dt :: dts)).phase < 1 := by
  have h := Lfo.run_phase info l dt dts
  exact ⟨h, by rw [h]; exact Int.fract_nonneg _, by rw [h]; exact Int.fract_lt_one _⟩

/-- … with a fixed frequency `f` of any sign: phase = fract(φ₀ + f · T), `T` the total time. -/
theorem C17_lfo_phase_fixed_frequency (info : Info ℝ) (l : Lfo ℝ) (dt : ℝ) (dts : List ℝ)
    (hs : l.frequency.stagnant = true) :
    (l.run info (dt :: dts)).phase = Int.fract (l.phase + l.frequency.raw * (dt :: dts).sum) := by
  rw [(C17_lfo_phase info l dt dts).1, Lfo.advance_fixed info _ l hs]

/-! ### tweener -/

/-- **the tweener is a tween**: on *every* history of `set`s (easing power > 0) and updates (`dt ≥ 0`, each
    with its own `Info`: clocks may start, stop, vanish) the tweener's value equals the value of a
    `Parameter<f64>` given the same history with `Value::Fixed` targets — although tweener.rs re-implements
    the bookkeeping by hand (no `stagnant` flag, no re-evaluation while waiting for the start time). -/
theorem C17_tweener_is_parameter (v0 : ℝ) (ops : List (TwOp ℝ)) (hok : TwOpsOK ops) :
    ((Tweener.new v0).runOps ops).value = ((Parameter.new (.fixed v0) v0).runTwOps ops).raw :=
  (TwSim.runOps ops _ _ (TwSim.new v0) hok).1

/-- hence C06's closed form: after `set` with an immediate start and duration `D > 0`, for every partition
    of time into non-negative steps with sum `T < D` the value is `start + (target − start)·ease(T/D)`. -/
theorem C17_tweener_follows_easing (t : Tweener ℝ) (tgt : ℝ) (D : ℕ) (hD : 0 < D) (e : Easing ℝ)
    (he : e.PosPower) (info : Info ℝ) (dts : List ℝ) (hnn : ∀ dt ∈ dts, 0 ≤ dt) (hT : dts.sum < secs D) :
    ((t.set tgt ⟨.immediate, D, e⟩).run info dts).value
      = t.value + (tgt - t.value) * e.apply (dts.sum / secs D) := by
  have hsim := (TwSim.new t.value).set tgt ⟨.immediate, D, e⟩ he
  have hrun := (TwSim.run info dts _ _ hsim hnn).1
  have hset : (Tweener.new t.value).set tgt ⟨.immediate, D, e⟩ = t.set tgt ⟨.immediate, D, e⟩ := rfl
  rw [hset] at hrun
  rw [hrun, C06_follows_easing _ tgt D hD e he info dts hnn hT]
  rfl

/-- … reaches the target exactly as soon as the accumulated time reaches the duration (also for `D = 0`:
    at the first update), and then holds it for ever, whatever the later updates are. -/
theorem C17_tweener_ends_exactly_and_holds (t : Tweener ℝ) (tgt : ℝ) (D : ℕ) (e : Easing ℝ)
    (he : e.PosPower) (info : Info ℝ) (dts : List ℝ) (hnn : ∀ dt ∈ dts, 0 ≤ dt) (hT : secs D ≤ dts.sum)
    (hne : dts ≠ []) (more : List (ℝ × Info ℝ)) :
    ((t.set tgt ⟨.immediate, D, e⟩).run info dts).value = tgt
      ∧ (((t.set tgt ⟨.immediate, D, e⟩).run info dts).runOps (more.map (fun x => TwOp.update x.1 x.2))).value = tgt := by
  have hsim := (TwSim.new t.value).set tgt ⟨.immediate, D, e⟩ he
  have hset : (Tweener.new t.value).set tgt ⟨.immediate, D, e⟩ = t.set tgt ⟨.immediate, D, e⟩ := rfl
  rw [hset] at hsim
  -- the tweener lands (state idle, value tgt): by induction over the run
  have key : ∀ (dts : List ℝ) (t' : Tweener ℝ) (time : ℝ) (st : StartTime ℝ), (st = .immediate) →
      t'.state = .tweening t.value tgt time ⟨st, D, e⟩ → 0 ≤ time → (∀ dt ∈ dts, 0 ≤ dt) →
      (durToSecs D : ℝ) ≤ time + dts.sum → dts ≠ [] →
      (t'.run info dts).state = .idle ∧ (t'.run info dts).value = tgt := by
    intro dts
    induction dts with
    | nil => intro _ _ _ _ _ _ _ _ h; exact absurd rfl h
    | cons dt rest ih =>
      intro t' time st hst hs ht hnn' hsum _
      subst hst
      have hdt : 0 ≤ dt := hnn' dt (by simp)
      have idle_run : ∀ (l : List ℝ) (u : Tweener ℝ), u.state = .idle → (u.run info l) = u := by
        intro l
        induction l with
        | nil => intro u _; rfl
        | cons d r ihr =>
          intro u hu
          have : u.update d info = u := by unfold Tweener.update; simp [hu]
          simp only [Tweener.run, this]; exact ihr u hu
      by_cases hle : (durToSecs D : ℝ) ≤ time + dt
      · have hup : t'.update dt info = { value := tgt, state := .idle } := by
          unfold Tweener.update; simp [hs, hle]
        simp only [Tweener.run, hup]
        rw [idle_run rest _ rfl]
        exact ⟨rfl, rfl⟩
      · have hup : (t'.update dt info).state = .tweening t.value tgt (time + dt) ⟨.immediate, D, e⟩ := by
          unfold Tweener.update; simp [hs, hle]
        simp only [Tweener.run]
        have hrest : rest ≠ [] := by
          intro h0; subst h0; simp at hsum; exact hle hsum
        refine ih _ (time + dt) .immediate rfl hup (by linarith) (fun x hx => hnn' x (by simp [hx])) ?_ hrest
        simp only [List.sum_cons] at hsum; linarith
  have hland := key dts (t.set tgt ⟨.immediate, D, e⟩) 0 .immediate rfl (by simp [Tweener.set]) (le_refl _) hnn
    (by simpa [secs] using hT) hne
  refine ⟨hland.2, ?_⟩
  generalize (t.set tgt ⟨.immediate, D, e⟩).run info dts = u at hland
  obtain ⟨hst, hval⟩ := hland
  induction more with
  | nil => exact hval
  | cons x rest ih =>
    have : u.update x.1 x.2 = u := by unfold Tweener.update; simp [hst]
    simp only [List.map_cons, Tweener.runOps, this]; exact ih

/-! ### mapping, linked parameters, removal -/

/-- **a mapping clamps**, for both orientations of the input range (`in0 < in1` and the inverted
    `in1 < in0`): inputs at or beyond the `in0` end give exactly `out0`, at or beyond the `in1` end exactly
    `out1`, and every output lies between the two ends of the output range. -/
theorem C17_mapping_clamps (m : Mapping ℝ ℝ) (he : m.easing.PosPower) (hin : m.in0 ≠ m.in1) (x : ℝ) :
    (m.in0 < m.in1 → (x ≤ m.in0 → m.map64 x = m.out0) ∧ (m.in1 ≤ x → m.map64 x = m.out1))
      ∧ (m.in1 < m.in0 → (m.in0 ≤ x → m.map64 x = m.out0) ∧ (x ≤ m.in1 → m.map64 x = m.out1))
      ∧ min m.out0 m.out1 ≤ m.map64 x ∧ m.map64 x ≤ max m.out0 m.out1 := by
  have hc := clamp_mem ((x - m.in0) / (m.in1 - m.in0)) 0 1 (by norm_num)
  have h0 : ∀ q : ℝ, q ≤ 0 → clamp q 0 1 = 0 := fun q hq => by
    rw [clamp_real _ _ _ (by norm_num), min_eq_left (by linarith), max_eq_left hq]
  have h1 : ∀ q : ℝ, 1 ≤ q → clamp q 0 1 = 1 := fun q hq => by
    rw [clamp_real _ _ _ (by norm_num), min_eq_right hq, max_eq_right (by norm_num)]
  have lo : (x - m.in0) / (m.in1 - m.in0) ≤ 0 → m.map64 x = m.out0 := by
    intro hq
    unfold Mapping.map64 Mapping.map Mapping.amount tw64 lerp64
    simp only [lit_0, lit_1]
    rw [h0 _ hq, (Easing.endpoints _ he).1]; ring
  have hi : 1 ≤ (x - m.in0) / (m.in1 - m.in0) → m.map64 x = m.out1 := by
    intro hq
    unfold Mapping.map64 Mapping.map Mapping.amount tw64 lerp64
    simp only [lit_0, lit_1]
    rw [h1 _ hq, (Easing.endpoints _ he).2]; ring
  refine ⟨fun hlt => ?_, fun hgt => ?_, ?_⟩
  · exact ⟨(C19_mapping_clamps m he hlt x).1, (C19_mapping_clamps m he hlt x).2.1⟩
  · have hd : m.in1 - m.in0 < 0 := by linarith
    refine ⟨fun hx => lo (div_nonpos_of_nonneg_of_nonpos (by linarith) hd.le), fun hx => hi ?_⟩
    rw [le_div_iff_of_neg hd]; linarith
  · unfold Mapping.map64 Mapping.map Mapping.amount tw64 lerp64
    simp only [lit_0, lit_1]
    obtain ⟨a0, a1⟩ := Easing.range _ he _ hc.1 hc.2
    set a := m.easing.apply (clamp ((x - m.in0) / (m.in1 - m.in0)) 0 1)
    rcases le_total m.out0 m.out1 with h | h
    · rw [min_eq_left h, max_eq_right h]; constructor <;> nlinarith
    · rw [min_eq_right h, max_eq_left h]; constructor <;> nlinarith

/-- **a linked parameter is the mapping of the modulator's value**: a parameter whose value is
    `Value::FromModulator { id, mapping }` has, after an update in which `Info` resolves `id` to `v`,
    exactly `mapping.map(v)` (clamped, eased, interpolated) — for every value type. -/
theorem C17_linked_value {τ : Type} (tw : Tweenable ℝ τ) (p : Parameter ℝ τ) (id : ℕ) (m : Mapping ℝ τ)
    (dt : ℝ) (info : Info ℝ) (v : ℝ) (hs : p.state = .idle (.fromModulator id m)) (hst : p.stagnant = false)
    (hv : info.modulator id = some v) :
    (p.update tw dt info).1.raw = m.map tw v ∧ (p.update tw dt info).1.state = p.state
      ∧ (p.update tw dt info).1.stagnant = false :=
  Parameter.linked_value tw p id m dt info v hs hst hv

/-- a parameter built with `Value::FromModulator` is in that situation from the start. -/
theorem C17_linked_from_new {τ : Type} (id : ℕ) (m : Mapping ℝ τ) (d : τ) :
    (Parameter.new (.fromModulator id m) d : Parameter ℝ τ).state = .idle (.fromModulator id m)
      ∧ (Parameter.new (.fromModulator id m) d : Parameter ℝ τ).stagnant = false
      ∧ (Parameter.new (.fromModulator id m) d : Parameter ℝ τ).raw = d :=
  Parameter.linked_from_new id m d

/-- **a removed modulator: the parameter holds its last value.**  If `Info` no longer resolves the id
    (`raw_value = None`), an update leaves the value unchanged — whether the link is the parameter's
    current value or the target of a tween in flight (which may also finish in this very update). -/
theorem C17_removed_holds {τ : Type} (tw : Tweenable ℝ τ) (p : Parameter ℝ τ) (id : ℕ) (m : Mapping ℝ τ)
    (dt : ℝ) (info : Info ℝ) (hnone : info.modulator id = none) :
    (p.state = .idle (.fromModulator id m) → (p.update tw dt info).1.raw = p.raw
        ∧ (p.update tw dt info).1.state = p.state ∧ (p.update tw dt info).1.stagnant = p.stagnant)
      ∧ (∀ s t tween, p.state = .tweening s (.fromModulator id m) t tween →
          (p.update tw dt info).1.raw = p.raw) := by
  refine ⟨fun hs => ?_, fun s t tween hs => ?_⟩
  · unfold Parameter.update
    by_cases hst : p.stagnant = true
    · simp [hst]
    · simp only [hst, Bool.false_eq_true, if_false]
      unfold Parameter.updateTween
      simp only [hs]
      unfold Parameter.calcRaw
      simp only [Value.rawValue, hnone, Option.map_none]
      exact ⟨trivial, trivial, trivial⟩
  · unfold Parameter.update
    by_cases hst : p.stagnant = true
    · simp [hst]
    · simp only [hst, Bool.false_eq_true, if_false]
      have key : ∀ st : PState ℝ τ, (st = .idle (.fromModulator id m) ∨ ∃ s t tween, st = .tweening s (.fromModulator id m) t tween) →
          Parameter.calcRaw tw st info = none := by
        intro st h
        rcases h with h | ⟨s, t, tween, h⟩
        · subst h; simp [Parameter.calcRaw, Value.rawValue, hnone]
        · subst h
          unfold Parameter.calcRaw
          by_cases hD : tween.durationNs = 0
          · simp [hD]
          · simp [hD, Value.rawValue, hnone]
      have hstate : ((({ state := p.state, raw := p.raw, prev := p.raw, stagnant := false } : Parameter ℝ τ).updateTween dt info).1
            = .idle (.fromModulator id m)
          ∨ ∃ s t tween, (({ state := p.state, raw := p.raw, prev := p.raw, stagnant := false } : Parameter ℝ τ).updateTween dt info).1
              = .tweening s (.fromModulator id m) t tween) := by
        unfold Parameter.updateTween
        simp only [hs]
        obtain ⟨st, D, e⟩ := tween
        cases st with
        | immediate =>
          simp only [Bool.not_true, Bool.false_eq_true, if_false]
          split
          · exact Or.inl rfl
          · exact Or.inr ⟨_, _, _, rfl⟩
        | delayed ns =>
          by_cases hns : ns = 0
          · simp only [hns, if_true, Bool.not_true, Bool.false_eq_true, if_false]
            split
            · exact Or.inl rfl
            · exact Or.inr ⟨_, _, _, rfl⟩
          · simp only [hns, if_false, Bool.not_false, if_true]
            exact Or.inr ⟨_, _, _, rfl⟩
        | clockTime c ct =>
          by_cases hw : info.whenToStart c ct = .now
          · simp only [hw, decide_true, Bool.not_true, Bool.false_eq_true, if_false]
            split
            · exact Or.inl rfl
            · exact Or.inr ⟨_, _, _, rfl⟩
          · simp only [hw, decide_false, Bool.not_false, if_true]
            exact Or.inr ⟨_, _, _, rfl⟩
      have hk := key _ hstate
      rw [hk]

/-- … for ever: as long as the id does not resolve, any number of updates leaves the value where it was. -/
theorem C17_removed_holds_forever {τ : Type} (tw : Tweenable ℝ τ) (id : ℕ) (m : Mapping ℝ τ) :
    ∀ (ups : List (ℝ × Info ℝ)) (p : Parameter ℝ τ), (∀ u ∈ ups, u.2.modulator id = none) →
      p.state = .idle (.fromModulator id m) →
      (ups.foldl (fun q u => (q.update tw u.1 u.2).1) p).raw = p.raw := by
  intro ups
  induction ups with
  | nil => intro p _ _; rfl
  | cons u rest ih =>
    intro p hn hs
    obtain ⟨h1, h2, _⟩ := (C17_removed_holds tw p id m u.1 u.2 (hn u (by simp))).1 hs
    simp only [List.foldl_cons]
    rw [ih _ (fun x hx => hn x (by simp [hx])) (by rw [h2]; exact hs), h1]

/-! ### one internal chunk: order of updates, what each reader sees -/

/-- **once per chunk, in insertion order**: `Modulators::process` calls `update` on the modulators in
    insertion order — the list of ids updated *is* the list of ids stored, so with distinct ids every
    modulator is updated exactly once — and changes neither membership nor order of the store. -/
theorem C17_once_per_chunk {μ : Type} (ops : ModOps μ ℝ) (s : ModStore μ) (dt : ℝ) (base : Info ℝ) :
    (s.process ops dt base).2 = s.map Prod.fst
      ∧ (s.process ops dt base).1.map Prod.fst = s.map Prod.fst
      ∧ ((s.map Prod.fst).Nodup → ∀ id ∈ s.map Prod.fst, (s.process ops dt base).2.count id = 1) := by
  obtain ⟨x, h1, h2, h3⟩ := processFrom_keys ops dt base s []
  unfold ModStore.process
  refine ⟨h3, by rw [h1]; simpa using h2, fun hnd id hid => ?_⟩
  rw [h3]; exact List.count_eq_one_of_mem hnd hid

/-- **before anything that reads it**: in `process_chunk` all modulator updates (insertion order) come
    first, then the clocks' parameters, then the listeners', then the mixer's (tracks, sounds, effects);
    every reader is updated exactly once. -/
theorem C17_readers_after_modulators {μ : Type} (ops : ModOps μ ℝ) (dtFrame : ℝ) (frames : ℕ) (b : ChunkBases ℝ)
    (s : ChunkState μ ℝ) :
    (processChunk ops dtFrame frames b s).2
      = s.mods.map (fun e => ChunkEvent.modulator e.1)
        ++ (List.range s.clockParams.length).map ChunkEvent.clockParam
        ++ (List.range s.listenerParams.length).map ChunkEvent.listenerParam
        ++ (List.range s.mixerParams.length).map ChunkEvent.mixerParam := by
  unfold processChunk
  simp only [(C17_once_per_chunk ops s.mods _ b.forModulators).1, List.map_map]
  rfl

/-- **linked parameter reads the value produced in this chunk.**  Let the store hold modulator `id`
    (distinct ids) and let a reader of any later stage — a clock's, a listener's, or the mixer's (track,
    sound, effect) — be linked to it (`Value::FromModulator { id, mapping }`).  After `process_chunk`
    the reader's value is `mapping.map(v)` where `v` is the value the modulator has *after its update of
    this same chunk*: `v = value(update(mod, dt, info))` for the one `Info` it was updated with. -/
theorem C17_linked_same_chunk {μ : Type} (ops : ModOps μ ℝ) (dtFrame : ℝ) (frames : ℕ) (b : ChunkBases ℝ)
    (s : ChunkState μ ℝ) (pre post : ModStore μ) (id : ℕ) (mod : μ) (hmods : s.mods = pre ++ (id, mod) :: post)
    (hnd : (s.mods.map Prod.fst).Nodup) (m : Mapping ℝ ℝ) :
    ∃ info_id : Info ℝ,
      let v := ops.value (ops.update mod (dtFrame * (frames : ℝ)) info_id)
      ModStore.valueOf ops (processChunk ops dtFrame frames b s).1.mods id = some v
      ∧ ∀ (i : ℕ) (tw : Tweenable ℝ ℝ) (p : Parameter ℝ ℝ), p.state = .idle (.fromModulator id m) → p.stagnant = false →
          (s.mixerParams[i]? = some (tw, p) →
              ∃ p', (processChunk ops dtFrame frames b s).1.mixerParams[i]? = some (tw, p') ∧ p'.raw = m.map tw v)
          ∧ (s.clockParams[i]? = some (tw, p) →
              ∃ p', (processChunk ops dtFrame frames b s).1.clockParams[i]? = some (tw, p') ∧ p'.raw = m.map tw v)
          ∧ (s.listenerParams[i]? = some (tw, p) →
              ∃ p', (processChunk ops dtFrame frames b s).1.listenerParams[i]? = some (tw, p') ∧ p'.raw = m.map tw v) := by
  obtain ⟨pre', post', hsplit, hk1, _⟩ :=
    processFrom_split ops (dtFrame * (frames : ℝ)) b.forModulators pre [] id mod post
  refine ⟨modInfo ops b.forModulators ([] ++ pre' ++ post) id, ?_⟩
  have hnotin : id ∉ pre'.map Prod.fst := by
    rw [hk1]; rw [hmods] at hnd
    simp only [List.map_append, List.map_cons] at hnd
    have := (List.nodup_append.mp hnd).2.2
    intro hmem
    exact this id hmem id (by simp) rfl
  have hval : ModStore.valueOf ops (s.mods.process ops (dtFrame * (frames : ℝ)) b.forModulators).1 id
      = some (ops.value (ops.update mod (dtFrame * (frames : ℝ)) (modInfo ops b.forModulators ([] ++ pre' ++ post) id))) := by
    unfold ModStore.process
    rw [hmods, hsplit]
    simp only [List.nil_append]
    rw [valueOf_append_of_not_mem ops _ _ _ hnotin, valueOf_cons_self]
  have hdt : (dtFrame * (KOps.ofNat frames : ℝ)) = dtFrame * (frames : ℝ) := rfl
  refine ⟨by unfold processChunk; simp only [hdt]; exact hval, fun i tw p hs hst => ⟨fun hr => ?_, fun hr => ?_, fun hr => ?_⟩⟩
  · unfold processChunk; simp only [hdt]
    exact linked_reader ops _ _ _ _ i tw p id m _ hr hs hst hval
  · unfold processChunk; simp only [hdt]
    exact linked_reader ops _ _ _ _ i tw p id m _ hr hs hst hval
  · unfold processChunk; simp only [hdt]
    exact linked_reader ops _ _ _ _ i tw p id m _ hr hs hst hval

/-! ### modulator → modulator links: true for earlier sources only -/

/- The full claim ("*any* parameter linked to a modulator — also a parameter of another modulator —
   equals the mapping of the source's value of the same chunk") is FALSE of the code:
   `for_each` updates the modulators one after the other, each one seeing the arena as it is at that
   moment with its own slot occupied by the dummy.  What is true: -/

/-- **modulator → modulator, restricted (partial)**: when modulator `k` (distinct ids) is updated it sees
    * every modulator *earlier* in insertion order with the value of **this** chunk (same-chunk holds),
    * every modulator *later* in insertion order with the value it had **before** this chunk
      (one chunk late; right after insertion: the value before its first update),
    * **itself** as the dummy: `0.0`, whatever its own value is,
    * ids not in the store as `None`; clocks as `base` (the clocks' state *before* this chunk's clock update). -/
theorem C17_mod_link_same_chunk_partial {μ : Type} (ops : ModOps μ ℝ) (dt : ℝ) (base : Info ℝ)
    (pre post : ModStore μ) (k : ℕ) (m : μ) (hnd : ((pre ++ (k, m) :: post).map Prod.fst).Nodup) :
    ∃ info_k : Info ℝ,
      ModStore.valueOf ops ((pre ++ (k, m) :: post).process ops dt base).1 k
          = some (ops.value (ops.update m dt info_k))
      ∧ (∀ j ∈ pre.map Prod.fst,
          info_k.modulator j = ModStore.valueOf ops ((pre ++ (k, m) :: post).process ops dt base).1 j)
      ∧ (∀ j ∈ post.map Prod.fst, info_k.modulator j = ModStore.valueOf ops (pre ++ (k, m) :: post) j)
      ∧ info_k.modulator k = some 0
      ∧ (∀ j, j ∉ (pre ++ (k, m) :: post).map Prod.fst → info_k.modulator j = none)
      ∧ info_k.clock = base.clock := by
  obtain ⟨pre', post', hsplit, hk1, hk2⟩ := processFrom_split ops dt base pre [] k m post
  simp only [List.map_append, List.map_cons] at hnd
  obtain ⟨_, hnd2, hdisj⟩ := List.nodup_append.mp hnd
  have hk_pre : k ∉ pre.map Prod.fst := fun h => hdisj k h k (by simp) rfl
  have hk_post : k ∉ post.map Prod.fst := (List.nodup_cons.mp hnd2).1
  refine ⟨modInfo ops base ([] ++ pre' ++ post) k, ?_, ?_, ?_, ?_, ?_, rfl⟩
  · unfold ModStore.process
    rw [hsplit]; simp only [List.nil_append]
    rw [valueOf_append_of_not_mem ops _ _ _ (by rw [hk1]; exact hk_pre), valueOf_cons_self]
  · intro j hj
    have hjk : j ≠ k := fun h => hk_pre (h ▸ hj)
    unfold ModStore.process
    rw [hsplit]
    simp only [modInfo, hjk, if_false, List.nil_append]
    rw [valueOf_append_of_mem ops _ _ _ (by rw [hk1]; exact hj),
      valueOf_append_of_mem ops _ _ _ (by rw [hk1]; exact hj)]
  · intro j hj
    have hjk : j ≠ k := fun h => hk_post (h ▸ hj)
    have hj_pre : j ∉ pre.map Prod.fst := fun h => hdisj j h j (by simp [hj]) rfl
    simp only [modInfo, hjk, if_false, List.nil_append]
    rw [valueOf_append_of_not_mem ops _ _ _ (by rw [hk1]; exact hj_pre),
      valueOf_append_of_not_mem ops _ _ _ hj_pre]
    simp only [ModStore.valueOf, Ne.symm hjk, if_false]
  · simp [modInfo, dummyValue]
  · intro j hj
    simp only [List.map_append, List.map_cons, List.mem_append, List.mem_cons, not_or] at hj
    obtain ⟨hj1, hj2, hj3⟩ := hj
    simp only [modInfo, hj2, if_false, List.nil_append]
    exact valueOf_none_of_not_mem ops _ _ (by
      simp only [List.map_append, List.mem_append, not_or]; exact ⟨by rw [hk1]; exact hj1, hj3⟩)

/-- **the full modulator → modulator claim is false of the code** (later source).  Store: a follower LFO
    (id 0, amplitude 0, offset linked to id 1 through the identity mapping) *before* a tweener (id 1)
    that is moving 0 → 1 in one second.  After one chunk of 0.5 s the tweener is at 0.5 but the LFO —
    updated first — shows `map(0) = 0`, the tweener's value of the *previous* chunk. -/
theorem C17_mod_link_later_not_same_chunk :
    let s : ModStore (Mod ℝ) := [(0, .lfo (followerLfo 1 idMapping)), (1, .tweener risingTweener)]
    let r := (s.process Mod.ops (1 / 2) Info.empty).1
    ModStore.valueOf Mod.ops r 1 = some (1 / 2)
      ∧ ModStore.valueOf Mod.ops r 0 = some 0
      ∧ idMapping.map64 (1 / 2) = 1 / 2 := by
  have hd : (durToSecs 1000000000 : ℝ) = 1 := by rw [durToSecs_real]; norm_num
  have hclamp : clamp ((1 / 2 - 0) / (1 - 0) : ℝ) 0 1 = 1 / 2 := by
    rw [clamp_real _ _ _ (by norm_num)]; norm_num
  have hclamp0 : clamp ((0 - 0) / (1 - 0) : ℝ) 0 1 = 0 := by
    rw [clamp_real _ _ _ (by norm_num)]; norm_num
  have hmap : idMapping.map64 (1 / 2) = 1 / 2 := by
    simp only [idMapping, Mapping.map64, Mapping.map, Mapping.amount, tw64, lerp64, lit_0, lit_1, hclamp,
      Easing.apply]; norm_num
  have hmap0 : idMapping.map64 0 = 0 := by
    simp only [idMapping, Mapping.map64, Mapping.map, Mapping.amount, tw64, lerp64, lit_0, lit_1, hclamp0,
      Easing.apply]; norm_num
  have htw : ∀ info : Info ℝ, (risingTweener.update (1 / 2) info).value = 1 / 2 := by
    intro info
    have hnle : ¬ ((1 : ℝ) ≤ 0 + 1 / 2) := by norm_num
    simp only [risingTweener, Tweener.set, Tweener.new, Tweener.update, Bool.not_true, Bool.false_eq_true, if_false,
      lit_0, hnle, Tween.value, tweenValue, lerp64, hd, Easing.apply]
    norm_num
  have hlfo : ∀ info : Info ℝ, info.modulator 1 = some 0 →
      ((followerLfo 1 idMapping).update (1 / 2) info).value = 0 := by
    intro info hi
    rw [followerLfo_update 1 idMapping _ _ 0 hi, hmap0]
  refine ⟨?_, ?_, hmap⟩
  · unfold ModStore.process
    simp only [processFrom, modOps_update_lfo, modOps_update_tweener, List.nil_append, List.cons_append]
    rw [valueOf_cons_ne Mod.ops 0 _ _ 1 (by decide), valueOf_cons_self, modOps_value_tweener, htw]
  · unfold ModStore.process
    simp only [processFrom, modOps_update_lfo, modOps_update_tweener, List.nil_append, List.cons_append]
    rw [valueOf_cons_self, modOps_value_lfo, hlfo]
    simp [modInfo, ModStore.valueOf, modOps_value_tweener, risingTweener, Tweener.set, Tweener.new]

/-- **… and false for a self-link**: a modulator whose own setting is linked to its own id reads the
    dummy's `0.0`, not its value.  Witness: an LFO (amplitude 0) whose offset is linked to itself through
    the mapping [0,1] → [5,7], currently showing 5: the next value is `map(0) = 5` again, although
    `map(its own value) = map(5) = 7`. -/
theorem C17_mod_link_self_reads_dummy :
    let m : Mapping ℝ ℝ := ⟨0, 1, 5, 7, .linear⟩
    let l : Lfo ℝ := { followerLfo 0 m with value := 5 }
    let s : ModStore (Mod ℝ) := [(0, .lfo l)]
    ModStore.valueOf Mod.ops s 0 = some 5
      ∧ ModStore.valueOf Mod.ops (s.process Mod.ops 1 Info.empty).1 0 = some 5
      ∧ m.map64 5 = 7 := by
  have hclamp0 : clamp ((0 - 0) / (1 - 0) : ℝ) 0 1 = 0 := by
    rw [clamp_real _ _ _ (by norm_num)]; norm_num
  have hclamp5 : clamp ((5 - 0) / (1 - 0) : ℝ) 0 1 = 1 := by
    rw [clamp_real _ _ _ (by norm_num)]; norm_num
  have hmap0 : (⟨0, 1, 5, 7, .linear⟩ : Mapping ℝ ℝ).map64 0 = 5 := by
    simp only [Mapping.map64, Mapping.map, Mapping.amount, tw64, lerp64, lit_0, lit_1, hclamp0, Easing.apply]
    norm_num
  have hmap5 : (⟨0, 1, 5, 7, .linear⟩ : Mapping ℝ ℝ).map64 5 = 7 := by
    simp only [Mapping.map64, Mapping.map, Mapping.amount, tw64, lerp64, lit_0, lit_1, hclamp5, Easing.apply]
    norm_num
  have hupd : ∀ info : Info ℝ, info.modulator 0 = some 0 →
      (({ followerLfo 0 (⟨0, 1, 5, 7, .linear⟩ : Mapping ℝ ℝ) with value := 5 } : Lfo ℝ).update 1 info).value = 5 := by
    intro info hi
    have : ({ followerLfo 0 (⟨0, 1, 5, 7, .linear⟩ : Mapping ℝ ℝ) with value := 5 } : Lfo ℝ).update 1 info
        = (followerLfo 0 (⟨0, 1, 5, 7, .linear⟩ : Mapping ℝ ℝ)).update 1 info := rfl
    rw [this, followerLfo_update 0 _ _ _ 0 hi, hmap0]
  refine ⟨by rw [valueOf_cons_self, modOps_value_lfo], ?_, hmap5⟩
  unfold ModStore.process
  simp only [processFrom, modOps_update_lfo, List.nil_append]
  rw [valueOf_cons_self, modOps_value_lfo, hupd]
  simp [modInfo, dummyValue]

/-! ### removal, chunk sizes -/

/-- **removal**: `on_start_processing` drops exactly the finished modulators (order of the others kept) and
    appends the new ones in the order they were added; a removed id no longer resolves. -/
theorem C17_removed_from_store {μ : Type} (ops : ModOps μ ℝ) (s added : ModStore μ) (fin : ℕ → Bool) :
    (s.removeAndAdd fin added).map Prod.fst = (s.map Prod.fst).filter (fun k => !fin k) ++ added.map Prod.fst
      ∧ ∀ id, fin id = true → id ∉ added.map Prod.fst →
          ModStore.valueOf ops (s.removeAndAdd fin added) id = none := by
  refine ⟨?_, fun id hf hna => ?_⟩
  · simp [ModStore.removeAndAdd, List.filter_map, Function.comp_def]
  · apply valueOf_none_of_not_mem
    simp only [ModStore.removeAndAdd, List.map_append, List.mem_append, List.mem_map, List.mem_filter, not_or]
    refine ⟨?_, by simpa [List.mem_map] using hna⟩
    rintro ⟨e, ⟨_, he⟩, rfl⟩
    simp [hf] at he

/-- **holds its last value once the modulator is removed** (system form): if the linked modulator was
    finished when the callback started, every linked reader comes out of the chunk with its value unchanged. -/
theorem C17_removed_holds_in_chunk {μ : Type} (ops : ModOps μ ℝ) (dtFrame : ℝ) (frames : ℕ) (b : ChunkBases ℝ)
    (s : ChunkState μ ℝ) (s0 added : ModStore μ) (fin : ℕ → Bool) (id : ℕ) (hmods : s.mods = s0.removeAndAdd fin added)
    (hfin : fin id = true) (hna : id ∉ added.map Prod.fst) (m : Mapping ℝ ℝ)
    (i : ℕ) (tw : Tweenable ℝ ℝ) (p : Parameter ℝ ℝ) (hs : p.state = .idle (.fromModulator id m))
    (hr : s.mixerParams[i]? = some (tw, p)) :
    ∃ p', (processChunk ops dtFrame frames b s).1.mixerParams[i]? = some (tw, p') ∧ p'.raw = p.raw := by
  have hnone0 := (C17_removed_from_store ops s0 added fin).2 id hfin hna
  have hnotin : id ∉ s.mods.map Prod.fst := by
    intro hmem
    obtain ⟨v, hv⟩ := valueOf_isSome_of_mem ops _ _ hmem
    rw [hmods, hnone0] at hv; cases hv
  have hnone : ModStore.valueOf ops (s.mods.process ops (dtFrame * (KOps.ofNat frames : ℝ)) b.forModulators).1 id = none := by
    apply valueOf_none_of_not_mem
    rw [(C17_once_per_chunk ops s.mods _ _).2.1]; exact hnotin
  refine ⟨(p.update tw (dtFrame * (KOps.ofNat frames : ℝ)) (readerInfo ops b.forMixer
      (s.mods.process ops (dtFrame * (KOps.ofNat frames : ℝ)) b.forModulators).1)).1, ?_, ?_⟩
  · unfold processChunk updateReaders
    simp only [List.getElem?_map, hr]; rfl
  · exact ((C17_removed_holds tw p id m _ _ (by simpa [readerInfo] using hnone)).1 hs).1

/-- **internal chunks**: a callback of `frames` frames is cut into chunks of `internal_buffer_size` frames
    and one shorter last chunk: no chunk is empty or longer than the buffer, together they are the callback
    (so each modulator is updated exactly `⌈frames / size⌉` times per callback, once per chunk). -/
theorem C17_chunk_sizes (frames ibs : ℕ) (hibs : 0 < ibs) :
    ∃ l, modChunkSizes frames ibs = some l ∧ l.sum = frames ∧ (∀ n ∈ l, 0 < n ∧ n ≤ ibs)
      ∧ l.length = (frames + ibs - 1) / ibs := by
  have h0 : ibs ≠ 0 := Nat.pos_iff_ne_zero.mp hibs
  refine ⟨List.replicate (frames / ibs) ibs ++ (if frames % ibs = 0 then [] else [frames % ibs]),
    by simp [modChunkSizes, h0], ?_, ?_, ?_⟩
  · by_cases hm : frames % ibs = 0
    · simp only [hm, if_true, List.append_nil, List.sum_replicate, smul_eq_mul]
      have := Nat.div_add_mod frames ibs; rw [hm] at this; linarith [Nat.mul_comm (frames / ibs) ibs]
    · simp only [hm, if_false, List.sum_append, List.sum_replicate, smul_eq_mul, List.sum_cons, List.sum_nil, add_zero]
      have := Nat.div_add_mod frames ibs; linarith [Nat.mul_comm (frames / ibs) ibs]
  · intro n hn
    simp only [List.mem_append, List.mem_replicate] at hn
    rcases hn with ⟨_, rfl⟩ | hn
    · exact ⟨hibs, le_refl _⟩
    · by_cases hm : frames % ibs = 0
      · simp [hm] at hn
      · simp only [hm, if_false, List.mem_singleton] at hn
        subst hn
        exact ⟨Nat.pos_of_ne_zero hm, (Nat.mod_lt _ hibs).le⟩
  · by_cases hm : frames % ibs = 0
    · simp only [hm, if_true, List.append_nil, List.length_replicate]
      obtain ⟨c, hc⟩ := Nat.dvd_of_mod_eq_zero hm
      subst hc
      rw [Nat.mul_div_cancel_left _ hibs]
      have : ibs * c + ibs - 1 = ibs * c + (ibs - 1) := by omega
      rw [this, Nat.add_div hibs]
      simp [Nat.mul_div_cancel_left _ hibs, Nat.div_eq_of_lt (by omega : ibs - 1 < ibs),
        Nat.mod_eq_of_lt (by omega : ibs - 1 < ibs)]
      omega
    · simp only [hm, if_false, List.length_append, List.length_replicate, List.length_singleton]
      have hdm := Nat.div_add_mod frames ibs
      have hlt := Nat.mod_lt frames hibs
      have hpos : 0 < frames % ibs := Nat.pos_of_ne_zero hm
      symm
      rw [Nat.div_eq_iff hibs]
      have e1 : (frames / ibs + 1) * ibs = ibs * (frames / ibs) + ibs := by ring
      rw [e1]
      generalize ibs * (frames / ibs) = t at *
      omega

/-! ### non-vacuity -/

/-- the hypothesis of `C17_lfo_phase_fixed_frequency` holds for a builder with a fixed frequency, also a
    negative one (and a negative starting phase) -/
example : (Lfo.new (⟨.saw, .fixed (-1), .fixed 1, .fixed 0, -1⟩ : LfoBuilder ℝ)).frequency.stagnant = true := by
  simp [Lfo.new, Parameter.new, Value.isFixed]

example : TwOpsOK [TwOp.set (1 : ℝ) ⟨.immediate, 5, .inPowi 2⟩, TwOp.update (1 / 2) Info.empty] := by
  refine ⟨?_, by norm_num, trivial⟩
  unfold Easing.PosPower; norm_num

example : (([(0, (1 : ℝ)), (3, 2)] : ModStore ℝ).map Prod.fst).Nodup := by decide

end K
