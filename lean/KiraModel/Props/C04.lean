/-
  C04 — static playback is sample-accurate: slice, loop, reverse, seek, resample, end.
  Property theorems only; statements are about the models in Model/Transport.lean and
  Model/StaticSound.lean (the definitions the twin runs), interpreted over ℕ / ℝ.
  The only in-domain hypothesis left is that the loop region in force is valid (`ls < le ≤ n`) or
  absent — and `Transport::new` / `set_loop_region` drop every empty or inverted region
  (`C04_transport_loop_never_degenerate`).  ANY slice (reaching past the data: clamped to it; inverted:
  empty), any start position in either direction and any empty sound are in the domain: the panics
  they used to cause are repaired (notes/C04.md), and the old `C04_fault_*` theorems about them are
  replaced by positive ones (`C04_never_outside_slice`, `C04_transport_new_any`,
  `C04_any_sound_starts`).
-/
import KiraModel.Proofs.TransportLemmas
import KiraModel.Proofs.StaticLemmas
import KiraModel.Proofs.LifecycleLemmas
import KiraModel.Proofs.GenAgreeSound
import KiraModel.Proofs.GenAgreeTransport

namespace K
open Transport

/-! ### the transport -/

/-- **forwards, looping**: with a valid loop region `ls < le` and the play head before the loop end,
    one step moves to the next frame, and from the last loop frame `le − 1` straight to `ls`;
    the transport keeps playing (it never ends while a valid loop `le ≤ n` is set). -/
theorem C04_transport_forward_loop (t : Transport) (n ls le : Nat) (hp : t.playing = true)
    (hl : t.loopRegion = some (ls, le)) (h : ls < le) (hn : le ≤ n) (hpos : t.position < le) :
    t.increment n = .ok { t with position := if t.position + 1 = le then ls else t.position + 1,
                                 playing := true } := by
  rw [increment_loop t n ls le hp hl h]
  by_cases he : t.position + 1 = le
  · rw [he, wrapDownCF_at_end ls le h]; simp; omega
  · have hlt : t.position + 1 < le := by omega
    simp [wrapDownCF, hlt, he]; omega

/-- **forwards, looping, from anywhere** (e.g. a start position after the loop): the next position
    is inside the loop region whenever the step reaches the loop end. -/
theorem C04_transport_forward_loop_any (t : Transport) (n ls le : Nat) (hp : t.playing = true)
    (hl : t.loopRegion = some (ls, le)) (h : ls < le) (hn : le ≤ n) :
    ∃ t', t.increment n = .ok t' ∧ t'.playing = true ∧ t'.position < le ∧ t'.loopRegion = t.loopRegion
      ∧ (le ≤ t.position + 1 → ls ≤ t'.position) := by
  refine ⟨_, increment_loop t n ls le hp hl h, ?_, ?_, rfl, ?_⟩
  · have := wrapDownCF_lt (t.position + 1) ls le h
    simp; omega
  · exact wrapDownCF_lt (t.position + 1) ls le h
  · intro hge; exact (wrapDownCF_range (t.position + 1) ls le h hge).1

/-- **forwards, no loop**: one step to the next frame; the end is detected exactly when the play
    head reaches `n`. -/
theorem C04_transport_forward_end (t : Transport) (n : Nat) (hp : t.playing = true) (hl : t.loopRegion = none) :
    t.increment n = .ok { t with position := t.position + 1, playing := decide (t.position + 1 < n) } :=
  increment_noLoop t n hp hl

/-- **backwards, looping**: above the loop start one step moves to the previous frame; from the loop
    start `ls` straight to `le − 1`. -/
theorem C04_transport_backward_loop (t : Transport) (ls le : Nat) (hp : t.playing = true)
    (hl : t.loopRegion = some (ls, le)) (h : ls < le) (hpos : ls ≤ t.position) :
    t.decrement = .ok { t with position := if t.position = ls then le - 1 else t.position - 1 } := by
  rw [decrement_loop t ls le hp hl h]
  by_cases he : t.position = ls
  · have hr := wrapUpCF_range t.position (ls + 1) ls le h (by omega)
    simp only [he, if_true]
    congr 2
    have hr := wrapUpCF_range ls (ls + 1) ls le h (by omega)
    -- ls + k (le - ls) with ls + 1 ≤ · < ls + 1 + (le - ls): k = 1
    unfold wrapUpCF at hr ⊢
    have hnb : ¬ ls + 1 ≤ ls := by omega
    simp only [hnb, if_false] at hr ⊢
    have : (ls + 1 - ls + (le - ls) - 1) / (le - ls) = 1 := by
      apply Nat.div_eq_of_lt_le <;> omega
    rw [this]; omega
  · have hb : ls + 1 ≤ t.position := by omega
    simp [wrapUpCF, hb, he]

/-- **backwards, no loop**: one step to the previous frame; the end is detected exactly at frame 0
    (which has been played by then). -/
theorem C04_transport_backward_end (t : Transport) (hp : t.playing = true) (hl : t.loopRegion = none) :
    t.decrement = .ok (if t.position = 0 then { t with playing := false }
                       else { t with position := t.position - 1 }) :=
  decrement_noLoop t hp hl

/-- **after the end nothing moves.** -/
theorem C04_transport_ended_is_final (t : Transport) (n : Nat) (hp : t.playing = false) :
    t.increment n = .ok t ∧ t.decrement = .ok t ∧ ∀ p t', t.seekTo p n = .ok t' → t'.playing = false := by
  refine ⟨increment_stopped t n hp, decrement_stopped t hp, fun p t' h => ?_⟩
  rw [(seekTo_playing t t' p n h).1, hp]; simp

/-- the operations a static sound performs on its transport -/
inductive TOp where
  | inc | dec | seek (p : Nat)
  /-- `set_loop_region` with a region already converted to frames (`none` removes the loop) -/
  | setLoop (r : Option (Nat × Nat))

/-- a loop region in frames that the code can handle -/
def TOp.Valid (n : Nat) : TOp → Prop
  | .setLoop (some (ls, le)) => ls < le ∧ le ≤ n
  | _ => True

def Transport.apply (t : Transport) (n : Nat) : TOp → Except Fault Transport
  | .inc => t.increment n
  | .dec => t.decrement
  | .seek p => t.seekTo p n
  | .setLoop r => .ok (t.setLoopRegion r)

def Transport.applyAll (t : Transport) (n : Nat) : List TOp → Except Fault Transport
  | [] => .ok t
  | op :: ops => match t.apply n op with
    | .error f => .error f
    | .ok t' => Transport.applyAll t' n ops

/-- one step keeps a valid loop valid, never faults, and keeps the play head inside the sound. -/
theorem C04_transport_step_inv (t : Transport) (n : Nat) (op : TOp) (hv : t.ValidLoop n) (hop : op.Valid n)
    (hi : t.Inside n) :
    ∃ t', t.apply n op = .ok t' ∧ t'.ValidLoop n ∧ t'.Inside n := by
  cases hpl : t.playing with
  | false =>
    -- ended: inc/dec do nothing, seek keeps it ended
    cases op with
    | inc => exact ⟨t, increment_stopped t n hpl, hv, hi⟩
    | dec => exact ⟨t, decrement_stopped t hpl, hv, hi⟩
    | seek p =>
      unfold Transport.apply
      cases hl : t.loopRegion with
      | none =>
        refine ⟨_, seekTo_noLoop t p n hl, ?_, ?_⟩
        · simp [ValidLoop, hl]
        · simp [Inside, hpl]
      | some r =>
        obtain ⟨ls, le⟩ := r
        have hv' : ls < le ∧ le ≤ n := by simpa [ValidLoop, hl] using hv
        refine ⟨_, seekTo_loop t p n ls le hl hv'.1, ?_, ?_⟩
        · simpa [ValidLoop, hl] using hv'
        · simp [Inside, hpl]
    | setLoop r =>
      refine ⟨_, rfl, ?_, ?_⟩
      · cases r with
        | none => simp [ValidLoop, setLoopRegion]
        | some r =>
          obtain ⟨a, b⟩ := r
          have hab : a < b ∧ b ≤ n := by simpa [TOp.Valid] using hop
          simpa [ValidLoop, setLoopRegion, validLoop_some_of_lt a b hab.1] using hab
      · simp [Inside, setLoopRegion, hpl]
  | true =>
    have hin : t.position < n := hi hpl
    cases op with
    | setLoop r =>
      refine ⟨_, rfl, ?_, ?_⟩
      · cases r with
        | none => simp [ValidLoop, setLoopRegion]
        | some r =>
          obtain ⟨a, b⟩ := r
          have hab : a < b ∧ b ≤ n := by simpa [TOp.Valid] using hop
          simpa [ValidLoop, setLoopRegion, validLoop_some_of_lt a b hab.1] using hab
      · simpa [Inside, setLoopRegion] using hi
    | inc =>
      unfold Transport.apply
      cases hl : t.loopRegion with
      | none =>
        refine ⟨_, increment_noLoop t n hpl hl, ?_, ?_⟩
        · simp [ValidLoop, hl]
        · simp [Inside]
      | some r =>
        obtain ⟨ls, le⟩ := r
        have hv' : ls < le ∧ le ≤ n := by simpa [ValidLoop, hl] using hv
        refine ⟨_, increment_loop t n ls le hpl hl hv'.1, ?_, ?_⟩
        · simpa [ValidLoop, hl] using hv'
        · simp [Inside]
    | dec =>
      unfold Transport.apply
      cases hl : t.loopRegion with
      | none =>
        refine ⟨_, decrement_noLoop t hpl hl, ?_, ?_⟩
        · by_cases h0 : t.position = 0 <;> simp [h0, ValidLoop, hl]
        · by_cases h0 : t.position = 0
          · simp [h0, Inside]
          · simp only [h0, if_false, Inside]; intro _; omega
      | some r =>
        obtain ⟨ls, le⟩ := r
        have hv' : ls < le ∧ le ≤ n := by simpa [ValidLoop, hl] using hv
        refine ⟨_, decrement_loop t ls le hpl hl hv'.1, ?_, ?_⟩
        · simpa [ValidLoop, hl] using hv'
        · simp only [Inside]; intro _
          by_cases hb : ls + 1 ≤ t.position
          · simp [wrapUpCF, hb]; omega
          · have := wrapUpCF_range t.position (ls + 1) ls le hv'.1 (by omega)
            simp; omega
    | seek p =>
      unfold Transport.apply
      cases hl : t.loopRegion with
      | none =>
        refine ⟨_, seekTo_noLoop t p n hl, ?_, ?_⟩
        · simp [ValidLoop, hl]
        · simp only [Inside]
          by_cases hnp : n ≤ p <;> simp [hnp]; omega
      | some r =>
        obtain ⟨ls, le⟩ := r
        have hv' : ls < le ∧ le ≤ n := by simpa [ValidLoop, hl] using hv
        refine ⟨_, seekTo_loop t p n ls le hl hv'.1, ?_, ?_⟩
        · simpa [ValidLoop, hl] using hv'
        · simp only [Inside]
          generalize (if t.position < p then wrapDownCF p ls le else wrapUpCF p ls ls le) = X
          by_cases hX : n ≤ X
          · simp [hX]
          · intro _; omega

/-- **transport invariant, every history**: starting inside the sound with a valid (or no) loop
    region, *no* sequence of steps, seeks and valid loop-region changes ever faults, the loop region
    stays valid and the play head stays inside the sound while the transport is playing. -/
theorem C04_transport_inv (n : Nat) (ops : List TOp) (hops : ∀ op ∈ ops, op.Valid n) :
    ∀ t : Transport, t.ValidLoop n → t.Inside n →
      ∃ t', Transport.applyAll t n ops = .ok t' ∧ t'.ValidLoop n ∧ t'.Inside n := by
  induction ops with
  | nil => intro t hv hi; exact ⟨t, rfl, hv, hi⟩
  | cons op ops ih =>
    intro t hv hi
    obtain ⟨t1, h1, hv1, hi1⟩ := C04_transport_step_inv t n op hv (hops op (by simp)) hi
    obtain ⟨t2, h2, hv2, hi2⟩ := ih (fun o ho => hops o (by simp [ho])) t1 hv1 hi1
    exact ⟨t2, by simp [Transport.applyAll, h1, h2], hv2, hi2⟩

/-- `Transport::new` never fails — for ANY start position, length (0 included) and direction: it is
    playing, keeps the valid part of the loop region, and starts at the start position, or reversed at
    the mirrored index `n − 1 − start`, saturating at frame 0 when the start position is at or past the
    end (the repaired behaviour; `num_frames - 1 - start_position` used to underflow there). -/
theorem C04_transport_new_any (start n : Nat) (lr : Option (Nat × Nat)) (rev : Bool) :
    ∃ t, Transport.new start lr rev n = .ok t ∧ t.playing = true
      ∧ t.loopRegion = Transport.validLoop lr
      ∧ t.position = (if rev then n - 1 - start else start)
      ∧ (rev = true → n ≤ start → t.position = 0)
      ∧ (rev = true → 0 < n → t.Inside n) := by
  refine ⟨_, rfl, rfl, rfl, rfl, ?_, ?_⟩
  · intro hr hn; simp only [hr, if_true]; omega
  · intro hr hn _; simp only [hr, if_true]; omega

/-- `Transport::new` with a start position inside the sound starts inside the sound (forwards: at
    `start`; reversed: at the mirrored index `n − 1 − start`). -/
theorem C04_transport_new (start n : Nat) (lr : Option (Nat × Nat)) (rev : Bool) (h : start < n) :
    ∃ t, Transport.new start lr rev n = .ok t ∧ t.Inside n ∧ t.playing = true
      ∧ t.loopRegion = Transport.validLoop lr
      ∧ t.position = if rev then n - 1 - start else start := by
  refine ⟨_, rfl, fun _ => ?_, rfl, rfl, rfl⟩
  cases rev with
  | false => exact h
  | true => simp only [if_true]; omega

/-- an empty or inverted loop region never reaches the wrap loops: after `new` and after
    `set_loop_region` the transport has no loop region or one with `start < end` — for ANY requested
    region (this is the repaired behaviour; before the fix such a region hung the audio thread). -/
theorem C04_transport_loop_never_degenerate (lr : Option (Nat × Nat)) :
    (∀ ls le, Transport.validLoop lr = some (ls, le) → ls < le)
      ∧ (∀ t : Transport, ∀ ls le, (t.setLoopRegion lr).loopRegion = some (ls, le) → ls < le)
      ∧ (∀ start rev n t ls le, Transport.new start lr rev n = .ok t → t.loopRegion = some (ls, le) → ls < le) := by
  have h1 : ∀ ls le, Transport.validLoop lr = some (ls, le) → ls < le := by
    intro ls le h
    cases lr with
    | none => simp at h
    | some r =>
      obtain ⟨a, b⟩ := r
      by_cases hab : a < b
      · rw [Transport.validLoop_some_of_lt a b hab] at h
        simp only [Option.some.injEq, Prod.mk.injEq] at h
        omega
      · rw [Transport.validLoop_some_of_not_lt a b hab] at h; simp at h
  refine ⟨h1, fun t ls le h => h1 ls le (by simpa [Transport.setLoopRegion] using h), ?_⟩
  intro start rev n t ls le hnew hl
  unfold Transport.new at hnew
  simp only [Except.ok.injEq] at hnew
  subst hnew; exact h1 ls le hl

/-- non-vacuity: a 5-frame sound looping [1,4) walks 0 1 2 3 1 2 3 … -/
example : Transport.applyAll ⟨0, some (1, 4), true⟩ 5 [.inc, .inc, .inc, .inc, .inc] = .ok ⟨2, some (1, 4), true⟩ := by
  rfl

/-! ### Hermite interpolation -/

/-- **the interpolator interpolates**: at fraction 0 it returns the `current` frame exactly, at
    fraction 1 the `next` frame exactly (so consecutive output frames join up, and at rate 1 the output
    *is* the source). -/
theorem C04_hermite_interpolates (p c n1 n2 : Frame ℝ) :
    interpolateFrame p c n1 n2 0 = c ∧ interpolateFrame p c n1 n2 1 = n1 :=
  ⟨interpolateFrame_zero p c n1 n2, interpolateFrame_one p c n1 n2⟩

/-- it reproduces every polynomial of degree ≤ 2 sampled at −1, 0, 1, 2 exactly, at every fraction
    (in particular constants and ramps pass through unchanged). -/
theorem C04_hermite_reproduces_quadratics (a b c x : ℝ) :
    hermite (a * (-1) ^ 2 + b * (-1) + c) c (a + b + c) (a * 2 ^ 2 + b * 2 + c) x = a * x ^ 2 + b * x + c := by
  unfold hermite; ring

/-- … but not cubics (DESIGN.md said "reproduces cubics"; that is false of this 4-point, 3rd-order
    Hermite kernel — it is Catmull-Rom, exact to degree 2): `x³` at `x = 1/4`. -/
theorem C04_hermite_not_cubics : hermite ((-1) ^ 3) 0 1 (2 ^ 3) (1 / 4) ≠ (1 / 4 : ℝ) ^ 3 := by
  unfold hermite; norm_num

/-! ### the slice -/

/-- **never reads outside the slice, for ANY slice** (inside the data, reaching past it, starting past
    it, inverted, empty — the repaired behaviour: the slice is clamped to the data): a lookup never
    faults; for an index inside the sound (`i < num_frames`) it returns exactly the data frame at
    `slice start + index`, which lies inside the data and in `[slice start, slice end)`; for any other
    index it returns nothing (the caller substitutes silence) — never a frame from outside the slice,
    never an out-of-bounds index. -/
theorem C04_never_outside_slice (s : StaticSound ℝ) (i : Nat) :
    (i < s.nFrames → ∃ f, frameAtIndex i s.frames s.slice = .ok (some f) ∧ s.frames[i + s.sliceStart]? = some f
        ∧ s.sliceStart ≤ i + s.sliceStart ∧ i + s.sliceStart < s.sliceStart + s.nFrames
        ∧ i + s.sliceStart < s.frames.size)
    ∧ (s.nFrames ≤ i → frameAtIndex i s.frames s.slice = .ok none) := by
  refine ⟨fun hi => ?_, (StaticSound.frameAtIndex_ok s i).2⟩
  obtain ⟨f, h1, h2, h3⟩ := (StaticSound.frameAtIndex_ok s i).1 hi
  exact ⟨f, h1, h2, by omega, by omega, h3⟩

/-- **`num_frames` is the clamped slice**: it never fails; without a slice it is the length of the
    data; with a slice `(a, b)` it is `min b len − a` (saturating): `b − a` when the slice lies inside
    the data, the part that exists when it reaches past the end, 0 when it is inverted or starts at or
    past the end — and `slice start + num_frames` never exceeds the data unless the sound is empty. -/
theorem C04_num_frames_clamped (len : Nat) (slice : Option (Nat × Nat)) :
    ∃ n, numFrames len slice = .ok n ∧ n ≤ len
      ∧ (slice = none → n = len)
      ∧ ∀ a b, slice = some (a, b) →
          n = min b len - a ∧ (a ≤ b → b ≤ len → n = b - a) ∧ (b ≤ a → n = 0) ∧ (len ≤ a → n = 0)
            ∧ (0 < n → a + n ≤ len ∧ a + n ≤ b) := by
  cases slice with
  | none => exact ⟨len, rfl, le_refl _, fun _ => rfl, fun a b h => (by cases h)⟩
  | some ab =>
    obtain ⟨a, b⟩ := ab
    refine ⟨min b len - a, rfl, by omega, fun h => (by cases h), fun a' b' h => ?_⟩
    simp only [Option.some.injEq, Prod.mk.injEq] at h
    obtain ⟨rfl, rfl⟩ := h
    refine ⟨rfl, fun _ _ => by omega, fun _ => by omega, fun _ => by omega, fun _ => by omega⟩

/-- what enters the interpolator's window is the source frame under the play head, or silence —
    for any slice. -/
theorem C04_pushed_frame_is_source (s : StaticSound ℝ) :
    StaticSound.pushedFrame s = StaticSound.sourceAt s s.transport :=
  StaticSound.pushedFrame_eq s

/-- **in-domain sounds never fault** — and the domain is now every slice, every start position and
    either direction: with a valid (or no) loop region in force, any number of position steps
    succeeds. -/
theorem C04_in_domain_never_faults (s : StaticSound ℝ) (h : s.InDomain) (k : Nat) :
    ∃ s', StaticSound.updN k s = .ok s' ∧ s'.InDomain :=
  StaticSound.updN_total k s h

/-! ### position accumulation and resampling -/

/-- **the `while fractional_position >= 1.0` loop, closed form and fuel independence**: for every
    fuel above `⌊frac⌋` it performs exactly `⌊frac⌋` position steps and leaves the fractional part. -/
theorem C04_step_loop_closed_form (fuel : Nat) (s : StaticSound ℝ) (h0 : 0 ≤ s.frac) (hf : ⌊s.frac⌋₊ < fuel) :
    StaticSound.stepPos fuel s
      = (StaticSound.updN ⌊s.frac⌋₊ s).map (StaticSound.setFrac (s.frac - (⌊s.frac⌋₊ : ℝ))) :=
  StaticSound.stepPos_spec fuel s h0 hf

/-- **every output frame is the Hermite interpolation of the 4-frame window at the current
    fraction** (then shaded by fade, volume and panning), after which the position advances by
    `⌊frac + sr·|rate|·dt⌋` frames and the fractional part is kept. -/
theorem C04_output_is_hermite (fuel : Nat) (s : StaticSound ℝ) (t dt : ℝ)
    (h0 : 0 ≤ s.frac + s.fracStep t dt) (hf : ⌊s.frac + s.fracStep t dt⌋₊ < fuel) :
    StaticSound.renderFrame fuel s t dt
      = (StaticSound.updN ⌊s.frac + s.fracStep t dt⌋₊ s).map (fun s' =>
          (StaticSound.setFrac (s.frac + s.fracStep t dt - (⌊s.frac + s.fracStep t dt⌋₊ : ℝ)) s',
           s.shade t (interpolateFrame s.resampler.f0.frame s.resampler.f1.frame s.resampler.f2.frame
             s.resampler.f3.frame s.frac))) :=
  StaticSound.renderFrame_spec fuel s t dt h0 hf

/-- **position accumulation at a constant rate**: with the playback rate resting at `r`, after `k`
    output frames of one `process` call the sound has taken exactly `⌊frac₀ + k·sr·|r|·dt⌋` position
    steps and its fractional position is the fractional part of that number — for every `k`, every
    buffer length and every fuel above the step count (faults, if any, included: both sides fail
    identically). -/
theorem C04_position_accumulates (fuel : Nat) (dt r : ℝ) (len k i : Nat) (s : StaticSound ℝ)
    (hr : s.playbackRate.Rests r) (hdt : 0 ≤ dt) (h0 : 0 ≤ s.frac) (h1 : s.frac < 1)
    (hfuel : ⌊s.frac + k * ((s.sampleRate : ℝ) * |r| * dt)⌋₊ < fuel) :
    (StaticSound.renderLoop fuel dt len k i s).map Prod.fst
      = (StaticSound.updN ⌊s.frac + k * ((s.sampleRate : ℝ) * |r| * dt)⌋₊ s).map
          (StaticSound.setFrac (s.frac + k * ((s.sampleRate : ℝ) * |r| * dt)
            - (⌊s.frac + k * ((s.sampleRate : ℝ) * |r| * dt)⌋₊ : ℝ))) := by
  apply StaticSound.renderLoop_steps fuel dt len _ (by positivity) k i s
    (fun t => StaticSound.fracStep_rests s r t dt hr) h0 h1 hfuel

/-! ### rate 1: the output *is* the source -/

/-- **rate-1 identity, no latency, any buffer partition, loops and reverse included.**
    A sound built with neutral settings (0 dB, centre, no fade-in, immediate start) and a fixed rate
    `r` with `sr·|r|·dt = 1` (rate ±1 on a device at the sound's sample rate), slice inside the
    data and a valid (or no) loop region.  For *every* partition of time into `process` calls, the
    `j`-th frame written to the output is *exactly* the source frame under the play head after `j`
    steps of the transport from its start position (`walk`: forwards or backwards, wrapping at the
    loop), starting with the start position itself at `j = 0` — and exact silence once the transport
    has ended. -/
theorem C04_rate1_identity (fuel : Nat) (hfuel : 2 ≤ fuel) (d : StaticSoundData ℝ) (r dt : ℝ)
    (hn : StaticSound.NeutralSettings d r) (s0 s : StaticSound ℝ) (h0 : StaticSound.init d = .ok s0)
    (hdom : s0.InDomain) (hnew : StaticSound.new d = .ok s)
    (hunit : (d.sampleRate : ℝ) * |r| * dt = 1) (info : Info ℝ) (lens : List Nat)
    (s' : StaticSound ℝ) (outs : List (Frame ℝ))
    (hrun : s.run fuel (StaticSound.chunkOps dt info lens) = .ok (s', outs)) :
    outs.length = lens.sum ∧
      ∀ j, j < lens.sum → ∃ tj, StaticSound.walk s0.isPlayingBackwards s0.nFrames j s0.transport = .ok tj
        ∧ outs[j]? = some (StaticSound.sourceAt s0 tj) := by
  obtain ⟨hg0, hr0, hst0, hfr0, hi0⟩ := StaticSound.init_neutral d r hn s0 h0
  have h3 := StaticSound.new_eq_updN d s0 s h0 hnew
  have hsc := StaticSound.updN_sameConfig 3 s0 s h3
  have hsr : s0.sampleRate = d.sampleRate := by
    obtain ⟨_, _, _, _, _, _, _, h, _⟩ := StaticSound.init_shape d s0 h0; exact h
  obtain ⟨hl, hh⟩ := StaticSound.rate1_run fuel hfuel r dt info lens s s' outs
    (StaticSound.neutralGain_sameConfig hsc hg0) (by rw [hsc.playbackRate]; exact hr0)
    (by rw [hsc.startTime]; exact hst0) (by rw [hsc.frac]; exact hfr0)
    (StaticSound.updN_endInv 3 s0 s hi0 h3) (by rw [hsc.sampleRate, hsr]; exact hunit) hrun
  refine ⟨hl, fun j hj => ?_⟩
  obtain ⟨sj, hsj, _⟩ := StaticSound.updN_total j s0 hdom
  refine ⟨sj.transport, StaticSound.updN_transport j s0 sj hsj, ?_⟩
  rw [hh j hj, StaticSound.heardAt_primed s0 s h3 j, hsj]
  simp only []
  have hscj := StaticSound.updN_sameConfig j s0 sj hsj
  rw [StaticSound.pushedFrame_eq sj]
  unfold StaticSound.sourceAt StaticSound.nFrames StaticSound.sliceStart
  rw [hscj.slice, hscj.frames]

/-- **then it ends**: Stopped is reported after the interpolator's window has drained — exactly 4
    position steps after the transport ended (forwards: `max (n − p) 1` steps from play head `p`), not
    earlier, not later.  (The reverse direction is `C03_finite_sound_stops_backward`.) -/
theorem C04_ends_after_drain (s : StaticSound ℝ) (hp : s.transport.playing = true)
    (hl : s.transport.loopRegion = none) (hbw : s.isPlayingBackwards = false) :
    (∃ s', StaticSound.updN (max (s.nFrames - s.transport.position) 1 + 4) s = .ok s' ∧ s'.IsStopped)
      ∧ ∀ j, j < max (s.nFrames - s.transport.position) 1 + 4 →
          ∃ sj, StaticSound.updN j s = .ok sj ∧ sj.core = s.core :=
  StaticSound.forward_ends _ s hp hl hbw rfl

/-- **the window never holds a foreign frame, for every history**: starting from a window of slice
    frames / silence (e.g. a new sound), after *any* sequence of handle commands (seeks, loop-region
    changes, …), `on_start_processing` and `process` calls, every frame in the interpolator's window is
    silence or a data frame from inside the slice — so the output is always an interpolation of slice
    frames only. -/
theorem C04_window_stays_inside_slice (fuel : Nat) (ops : List (StaticSound.Op ℝ)) (s s' : StaticSound ℝ)
    (outs : List (Frame ℝ)) (hw : s.WinOk) (h : s.run fuel ops = .ok (s', outs)) :
    s'.WinOk ∧ s'.frames = s.frames ∧ s'.slice = s.slice := by
  have he := StaticSound.run_evolves fuel ops s s' outs h
  exact ⟨he.win hw, he.frames, he.slice⟩

/-- a new sound's window is empty (all silence). -/
theorem C04_new_window (i : Nat) (s : StaticSound ℝ) (h : s.resampler = Resampler.new i) : s.WinOk := by
  unfold StaticSound.WinOk StaticSound.FromSlice
  rw [h]; simp [Resampler.new]

/-! ### seeking and the reported position -/

/-- the loop-wrapped landing index of a seek to frame `idx` -/
def seekLanding (t : Transport) (idx : Nat) : Nat :=
  match t.loopRegion with
  | some (ls, le) => if t.position < idx then wrapDownCF idx ls le else wrapUpCF idx ls ls le
  | none => idx

/-- **seeks land**: `seek_to(x)` moves the play head to the loop-wrapped `⌊x·sr⌋` (0 for negative `x`):
    the index itself without a loop or when it lies inside the loop region, otherwise the index moved
    by whole loop lengths into the region; nothing else changes except that, while the sound is
    advancing, the frame at the landing position is pushed into the window at once. -/
theorem C04_seek_lands (s : StaticSound ℝ) (hd : s.InDomain) (x : ℝ) :
    ∃ s', s.seekTo x = .ok s' ∧ s'.transport.position = seekLanding s.transport ⌊x * (s.sampleRate : ℝ)⌋₊
      ∧ s'.transport.loopRegion = s.transport.loopRegion ∧ s'.core = s.core
      ∧ (s.core.psm.playbackState.isAdvancing = true → s'.resampler.f3.frameIndex = s'.transport.position
          ∧ s'.resampler.f2 = s.resampler.f3)
      ∧ (s.core.psm.playbackState.isAdvancing = false → s'.resampler = s.resampler) := by
  have hv : s.transport.ValidLoop s.nFrames := hd
  unfold StaticSound.seekTo StaticSound.seekToIndex
  simp only [StaticSound.numFrames_ok s, toNatSat_real, ofNat_real]
  set idx := ⌊x * (s.sampleRate : ℝ)⌋₊
  have hseek : ∃ t', s.transport.seekTo idx s.nFrames = .ok t' ∧ t'.position = seekLanding s.transport idx
      ∧ t'.loopRegion = s.transport.loopRegion := by
    unfold seekLanding
    cases hl : s.transport.loopRegion with
    | none => exact ⟨_, seekTo_noLoop _ idx _ hl, rfl, by simp [hl]⟩
    | some r =>
      obtain ⟨ls, le⟩ := r
      have hv' : ls < le ∧ le ≤ s.nFrames := by simpa [ValidLoop, hl] using hv
      exact ⟨_, seekTo_loop _ idx _ ls le hl hv'.1, rfl, by simp [hl]⟩
  obtain ⟨t', ht, hpos, hlr⟩ := hseek
  simp only [ht]
  by_cases hadv : s.core.psm.playbackState.isAdvancing = true
  · simp only [hadv, if_true]
    obtain ⟨s1, h1⟩ := StaticSound.pushFrame_total { s with transport := t' }
    obtain ⟨fo, hfo⟩ := StaticSound.pushFrame_shape _ s1 h1
    refine ⟨s1, h1, by rw [hfo]; exact hpos, by rw [hfo]; exact hlr, by rw [hfo], fun _ => ?_, fun h => ?_⟩
    · rw [hfo]; exact ⟨rfl, rfl⟩
    · cases h
  · have hadv' : s.core.psm.playbackState.isAdvancing = false := by simpa using hadv
    simp only [hadv']
    refine ⟨_, rfl, hpos, hlr, rfl, ?_, ?_⟩
    · intro h; exact absurd h (by simp)
    · intro _; rfl

/-- an index inside a valid loop region (or any index without a loop) is its own landing position. -/
theorem C04_seek_lands_inside (t : Transport) (idx : Nat)
    (h : match t.loopRegion with | some (ls, le) => ls ≤ idx ∧ idx < le | none => True) :
    seekLanding t idx = idx := by
  unfold seekLanding
  cases hl : t.loopRegion with
  | none => rfl
  | some r =>
    obtain ⟨ls, le⟩ := r
    simp only [hl] at h ⊢
    split
    · simp [wrapDownCF, h.2]
    · simp [wrapUpCF, h.1]

/-- `seek_by(d)` is `seek_to(position/sr + d)`: it lands on the loop-wrapped `⌊position + d·sr⌋`. -/
theorem C04_seek_by (s : StaticSound ℝ) (d : ℝ) (hsr : 0 < s.sampleRate) :
    s.seekBy d = s.seekTo ((s.transport.position : ℝ) / (s.sampleRate : ℝ) + d)
      ∧ ((s.transport.position : ℝ) / (s.sampleRate : ℝ) + d) * (s.sampleRate : ℝ)
          = (s.transport.position : ℝ) + d * (s.sampleRate : ℝ) := by
  refine ⟨rfl, ?_⟩
  have : (s.sampleRate : ℝ) ≠ 0 := by positivity
  field_simp

/-- **after 4 further position steps the window holds frames pushed after the seek only** (the
    window is exactly the last four pushes). -/
theorem C04_window_refills (r : Resampler ℝ) (a b c d : Option (Frame ℝ)) (i j k l : Nat) :
    ((((r.pushFrame a i).pushFrame b j).pushFrame c k).pushFrame d l).f0 = ⟨a.getD Frame.zero, i⟩
      ∧ ((((r.pushFrame a i).pushFrame b j).pushFrame c k).pushFrame d l).f1 = ⟨b.getD Frame.zero, j⟩
      ∧ ((((r.pushFrame a i).pushFrame b j).pushFrame c k).pushFrame d l).f2 = ⟨c.getD Frame.zero, k⟩
      ∧ ((((r.pushFrame a i).pushFrame b j).pushFrame c k).pushFrame d l).f3 = ⟨d.getD Frame.zero, l⟩ := by
  simp [Resampler.pushFrame]

/-- **reported position**: after `on_start_processing`, `handle.position() × sample rate` is the source
    index recorded with window slot 1 — the frame the listener hears at fraction 0 (the interpolation
    runs from slot 1 to slot 2), i.e. within one frame of what is heard. -/
theorem C04_reported_position (s s' : StaticSound ℝ) (hsr : 0 < s.sampleRate) (h : s.onStartProcessing = .ok s') :
    s'.sharedPosition * (s.sampleRate : ℝ) = (s.resampler.f1.frameIndex : ℝ) := by
  have hkeep : ∀ a b : StaticSound ℝ, a.readCommands = .ok b → b.sharedPosition = a.sharedPosition := by
    intro a b hab
    unfold StaticSound.readCommands at hab
    obtain ⟨a1, h1, h2⟩ := StaticSound.andThen_ok _ _ _ hab
    have e1 : a1.sharedPosition = a.sharedPosition := by
      unfold StaticSound.readLoopCmd at h1
      rcases StaticSound.applyOptE_ok _ _ _ _ h1 with ⟨_, rfl⟩ | ⟨r, _, hr⟩
      · rfl
      · unfold StaticSound.setLoopRegion at hr
        obtain ⟨n, _, hn⟩ := StaticSound.andThen_ok _ _ _ hr
        injection hn with hn; subst hn; rfl
    have hseek : ∀ (u v : StaticSound ℝ) (idx : Nat), u.seekToIndex idx = .ok v → v.sharedPosition = u.sharedPosition := by
      intro u v idx huv
      unfold StaticSound.seekToIndex at huv
      cases hn : numFrames u.frames.size u.slice with
      | error f => rw [hn] at huv; simp at huv
      | ok n =>
        rw [hn] at huv; simp only [] at huv
        cases ht : u.transport.seekTo idx n with
        | error f => rw [ht] at huv; simp at huv
        | ok t =>
          rw [ht] at huv; simp only [] at huv
          split at huv
          · obtain ⟨fo, hfo⟩ := StaticSound.pushFrame_shape _ v huv; rw [hfo]
          · injection huv with huv; subst huv; rfl
    unfold StaticSound.readSeekCmds at h2
    obtain ⟨a2, h3, h4⟩ := StaticSound.andThen_ok _ _ _ h2
    have e2 : a2.sharedPosition = (StaticSound.readLifeCmds a.cmds a1).sharedPosition := by
      rcases StaticSound.applyOptE_ok _ _ _ _ h3 with ⟨_, rfl⟩ | ⟨x, _, hx⟩
      · rfl
      · exact hseek _ a2 _ hx
    have e3 : b.sharedPosition = a2.sharedPosition := by
      rcases StaticSound.applyOptE_ok _ _ _ _ h4 with ⟨_, rfl⟩ | ⟨x, _, hx⟩
      · rfl
      · exact hseek a2 b _ hx
    rw [e3, e2]; exact e1
  unfold StaticSound.onStartProcessing at h
  rw [hkeep _ s' h]
  simp only [ofNat_real, Resampler.currentFrameIndex]
  have : (s.sampleRate : ℝ) ≠ 0 := by positivity
  field_simp

/-! ### degenerate loop regions: unreachable since the repair (`C04_transport_loop_never_degenerate`);
    what the wrap loops would do with one, kept as statements about the model -/

/-- **empty loop region**: were the play head ever to reach an empty region `(a, a)`, the modular wrap
    would divide by zero (`% 0` panics; before the repair of the wrap loops `position -= 0` never ended:
    `C04_old_loop_empty_region_hangs`).  Unreachable: `C04_transport_loop_never_degenerate`. -/
theorem C04_fault_empty_loop_div_zero (t : Transport) (n a : Nat) (hp : t.playing = true)
    (hl : t.loopRegion = some (a, a)) (hpos : a ≤ t.position + 1) : t.increment n = .error .panic := by
  unfold increment incWrap
  simp only [hp, hl, Bool.not_true, Bool.false_eq_true, if_false]
  unfold wrapDown
  have : ¬ t.position + 1 < a := by omega
  simp [this]

/-- the loop the code used to run never exits on an empty region, for any fuel. -/
theorem C04_old_loop_empty_region_hangs (fuel p a : Nat) (hpos : a ≤ p) : wrapDownLoop fuel p a a = .error .hang := by
  have : ¬ p < a := by omega
  cases fuel <;> simp [wrapDownLoop, this]

/-- **inverted loop region** `(ls, le)` with `le < ls`: `loop_end - loop_start` underflows. -/
theorem C04_fault_inverted_loop_overflows (t : Transport) (n ls le : Nat) (hp : t.playing = true)
    (hl : t.loopRegion = some (ls, le)) (hinv : le < ls) (hpos : le ≤ t.position + 1) :
    t.increment n = .error .overflow := by
  unfold increment incWrap
  simp only [hp, hl, Bool.not_true, Bool.false_eq_true, if_false]
  unfold wrapDown
  have : ¬ t.position + 1 < le := by omega
  simp [this, hinv]

/-! ### the wrap into the loop region is constant-time modular arithmetic (repaired: it was three loops)

  `seek_to(1e300)`, `seek_by(1e300)` or a start position of `1e300` seconds (anything that saturates at
  `usize::MAX` frames) on a looping sound made `while position >= loop_end { position -= len }` run about
  `usize::MAX / len` times — on the audio thread for seeks, in `play` for a start position.  The code now
  computes `loop_start + (position - loop_start) % len` (and the two mirrored forms); the model mirrors
  that and has NO fuel any more: `Transport.increment / decrement / seekTo` are closed-form for every
  position, so every C04 theorem about them (`C04_transport_forward_loop … C04_transport_inv`,
  `C04_seek_lands`, `C04_rate1_identity`, …) now speaks about code that takes constant time per step
  whatever the position — before, the model's internal fuel `position + 1` hid a running time
  proportional to the position. -/

/-- **the repaired wraps equal the loops they replace, on every input on which the loop returns** (any
    region — empty and inverted included —, any position, any fuel): whenever the old
    `while p >= le { p -= le - ls }` / `while p <= ls { p += le - ls }` / `while p < ls { p += le - ls }`
    returns a position, the modular arithmetic returns the same position. -/
theorem C04_wrap_closed_form_eq_loop (fuel p ls le q : Nat) :
    (wrapDownLoop fuel p ls le = .ok q → wrapDown p ls le = .ok q)
      ∧ (wrapUpLoop fuel p (ls + 1) ls le = .ok q → wrapUpDec p ls le = .ok q)
      ∧ (wrapUpLoop fuel p ls ls le = .ok q → wrapUpSeek p ls le = .ok q) :=
  ⟨wrapDown_eq_loop fuel p ls le q, wrapUpDec_eq_loop fuel p ls le q, wrapUpSeek_eq_loop fuel p ls le q⟩

/-- **and the loops did return on every non-empty region given fuel proportional to the position** (`p + 1`
    iterations for the downward loop, `ls + 2` for the upward ones), always with the value the closed form
    computes without any fuel — so on every transport state the code can be in (regions are non-empty:
    `C04_transport_loop_never_degenerate`) the repair changes no result, only the running time. -/
theorem C04_wrap_loop_terminates_with_closed_form (p ls le : Nat) (h : ls < le) :
    wrapDownLoop (p + 1) p ls le = wrapDown p ls le
      ∧ wrapUpLoop (ls + 2) p (ls + 1) ls le = wrapUpDec p ls le
      ∧ wrapUpLoop (ls + 1) p ls ls le = wrapUpSeek p ls le := by
  refine ⟨?_, ?_, ?_⟩
  · rw [wrapDownLoop_spec ls le h _ _ (Nat.lt_succ_self _), wrapDown_ok p ls le h]
  · rw [wrapUpLoop_spec ls le h _ _ _ (by omega), wrapUpDec_ok p ls le h]
  · rw [wrapUpLoop_spec ls le h _ _ _ (by omega), wrapUpSeek_ok p ls le h]

/-- **a seek or start position that saturates is harmless**: for ANY position `p` (think `usize::MAX`)
    and any non-empty region the wrapped position is produced without iteration and lies inside the
    region — `[ls, le)` going down or seeking, `(ls, le]` before `decrement_position`'s final `- 1`. -/
theorem C04_wrap_lands_in_region (p ls le : Nat) (h : ls < le) :
    (∃ q, wrapDown p ls le = .ok q ∧ q < le ∧ (le ≤ p → ls ≤ q))
      ∧ (∃ q, wrapUpDec p ls le = .ok q ∧ ls < q ∧ (p ≤ ls → q ≤ le))
      ∧ (∃ q, wrapUpSeek p ls le = .ok q ∧ ls ≤ q ∧ (p < ls → q < le)) := by
  refine ⟨⟨_, wrapDown_ok p ls le h, wrapDownCF_lt p ls le h, fun hp => (wrapDownCF_range p ls le h hp).1⟩,
    ⟨_, wrapUpDec_ok p ls le h, ?_, ?_⟩, ⟨_, wrapUpSeek_ok p ls le h, ?_, ?_⟩⟩
  · by_cases hb : ls + 1 ≤ p
    · simp [wrapUpCF, hb]; omega
    · have := (wrapUpCF_range p (ls + 1) ls le h (by omega)).1; omega
  · intro hp; have := (wrapUpCF_range p (ls + 1) ls le h (by omega)).2; omega
  · by_cases hb : ls ≤ p
    · simp [wrapUpCF, hb]
    · exact (wrapUpCF_range p ls ls le h (by omega)).1
  · intro hp; have := (wrapUpCF_range p ls ls le h hp).2; omega

/-- non-vacuity / the reviewer's input: seeking a 100-frame sound that loops `[10, 50)` to frame
    `usize::MAX` lands on frame 15 at once (the loop needed 461 168 601 842 738 790 iterations). -/
example : (⟨0, some (10, 50), true⟩ : Transport).seekTo 18446744073709551615 100 = .ok ⟨15, some (10, 50), true⟩ := by
  decide

/-! ### repaired: what used to be outside the domain

  `C04_fault_reverse_start_overflows`, `C04_fault_slice_outside_data` (and the inverted-slice overflow of
  `num_frames`) described panics of the code; the code was repaired, and the statements below are their
  positive replacements (together with `C04_never_outside_slice`, `C04_num_frames_clamped`,
  `C04_transport_new_any` above). -/

/-- **every sound that can be written down starts, and keeps playing, without a fault**: for ANY
    `StaticSoundData` — any slice (reaching past the data, inverted, empty), any start position in
    either direction (reversed at or past the end; an empty sound), any requested loop region (empty and
    inverted ones are dropped) — `StaticSound::new` succeeds, priming included (`play` / `into_sound`
    never panic), and after it any number of position steps succeeds (no panic on the audio thread). -/
theorem C04_any_sound_starts (d : StaticSoundData ℝ) (k : Nat) :
    ∃ s0 s s', StaticSound.init d = .ok s0 ∧ StaticSound.new d = .ok s ∧ StaticSound.updN k s = .ok s' := by
  obtain ⟨s0, s, h0, hnew, _, hv⟩ := StaticSound.new_total d
  obtain ⟨s', hk, _⟩ := StaticSound.updN_total' k s hv
  exact ⟨s0, s, s', h0, hnew, hk⟩

/-- **reverse with a start position at or past the end** (every reversed empty sound): the play head
    starts at frame 0 and the transport is playing — one frame (frame 0) of a non-empty sound is played,
    then the backward step ends the transport; an empty sound plays nothing (`C04_never_outside_slice`:
    no frame at index 0) and ends at the first step.  Consistent with the forward direction, where a
    start position past the end plays silence and ends at the first step. -/
theorem C04_reverse_start_past_end (start n : Nat) (lr : Option (Nat × Nat)) (h : n ≤ start) :
    ∃ t, Transport.new start lr true n = .ok t ∧ t.position = 0 ∧ t.playing = true
      ∧ (t.loopRegion = none → t.decrement = .ok { t with playing := false }) := by
  refine ⟨_, rfl, by simp only [if_true]; omega, rfl, fun hl => ?_⟩
  rw [decrement_noLoop _ rfl hl]
  have : n - 1 - start = 0 := by omega
  simp [this]

/-- **a slice reaching past the data is the same sound as the slice clamped to the data, and an
    inverted slice is the empty sound**: same length, same frame at every index. -/
theorem C04_slice_clamped (frames : Array (Frame ℝ)) (a b i : Nat) :
    numFrames frames.size (some (a, b)) = numFrames frames.size (some (a, min b frames.size))
      ∧ frameAtIndex i frames (some (a, b)) = frameAtIndex i frames (some (a, min b frames.size))
      ∧ (b ≤ a → numFrames frames.size (some (a, b)) = .ok 0 ∧ frameAtIndex i frames (some (a, b)) = .ok none) := by
  refine ⟨by simp [numFrames], by simp [frameAtIndex, numFrames], fun hba => ?_⟩
  have z : min b frames.size - a = 0 := by omega
  simp [frameAtIndex, numFrames, z]

/-- non-vacuity of the in-domain hypothesis: a 3-frame sound, slice `[1,3)`, loop `[0,2)`. -/
example : (⟨{}, 1, #[⟨1, 1⟩, ⟨2, 2⟩, ⟨3, 3⟩], some (1, 3), false, SoundCore.new .immediate none, Resampler.new 0,
    ⟨0, some (0, 2), true⟩, 0, Parameter.new (.fixed 0) 0, Parameter.new (.fixed 1) 1, Parameter.new (.fixed 0) 0, 0⟩
      : StaticSound ℝ).InDomain := by
  unfold StaticSound.InDomain Transport.ValidLoop StaticSound.nFrames; simp

end K
