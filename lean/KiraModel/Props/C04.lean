/-
  C04 — static playback is sample-accurate: slice, loop, reverse, seek, resample, end.
  Property theorems only; statements are about the models in Model/Transport.lean and
  Model/StaticSound.lean (the definitions the twin runs), interpreted over ℕ / ℝ.
  In-domain hypotheses kept explicit everywhere: a loop region is valid (`ls < le ≤ n`), the slice
  lies inside the data, a reversed sound starts inside the sound.  Outside them the code faults
  (see the `C04_fault_*` theorems at the end and notes/C04.md).
-/
import KiraModel.Proofs.TransportLemmas
import KiraModel.Proofs.StaticLemmas

namespace K
open Transport

/-! ### the transport -/

/-- **forwards, looping**: with a valid loop region `ls < le` and the play head before the loop end,
    one step moves to the next frame, and from the last loop frame `le − 1` straight to `ls`;
    the transport keeps playing (it never ends while a valid loop `le ≤ n` is set). -/
theorem C04_transport_forward_loop (t : Transport) (n ls le : Nat) (hp : t.playing = true)
    (hl : t.loopRegion = some (ls, le)) (h : ls < le) (hn : le ≤ n) (hpos : t.position < le) :
    t.increment n = .ok { t with position := if t.position + 1 = le then ls else t.position + 1,
                                 playing := true } := by
  rw [increment_loop t n ls le hp hl h]
  by_cases he : t.position + 1 = le
  · rw [he, wrapDownCF_at_end ls le h]; simp; omega
  · have hlt : t.position + 1 < le := by omega
    simp [wrapDownCF, hlt, he]; omega

/-- **forwards, looping, from anywhere** (e.g. a start position after the loop): the next position
    is inside the loop region whenever the step reaches the loop end. -/
theorem C04_transport_forward_loop_any (t : Transport) (n ls le : Nat) (hp : t.playing = true)
    (hl : t.loopRegion = some (ls, le)) (h : ls < le) (hn : le ≤ n) :
    ∃ t', t.increment n = .ok t' ∧ t'.playing = true ∧ t'.position < le ∧ t'.loopRegion = t.loopRegion
      ∧ (le ≤ t.position + 1 → ls ≤ t'.position) := by
  refine ⟨_, increment_loop t n ls le hp hl h, ?_, ?_, rfl, ?_⟩
  · have := wrapDownCF_lt (t.position + 1) ls le h
    simp; omega
  · exact wrapDownCF_lt (t.position + 1) ls le h
  · intro hge; exact (wrapDownCF_range (t.position + 1) ls le h hge).1

/-- **forwards, no loop**: one step to the next frame; the end is detected exactly when the play
    head reaches `n`. -/
theorem C04_transport_forward_end (t : Transport) (n : Nat) (hp : t.playing = true) (hl : t.loopRegion = none) :
    t.increment n = .ok { t with position := t.position + 1, playing := decide (t.position + 1 < n) } :=
  increment_noLoop t n hp hl

/-- **backwards, looping**: above the loop start one step moves to the previous frame; from the loop
    start `ls` straight to `le − 1`. -/
theorem C04_transport_backward_loop (t : Transport) (ls le : Nat) (hp : t.playing = true)
    (hl : t.loopRegion = some (ls, le)) (h : ls < le) (hpos : ls ≤ t.position) :
    t.decrement = .ok { t with position := if t.position = ls then le - 1 else t.position - 1 } := by
  rw [decrement_loop t ls le hp hl h]
  by_cases he : t.position = ls
  · have hr := wrapUpCF_range t.position (ls + 1) ls le h (by omega)
    simp only [he, if_true]
    congr 2
    have hr := wrapUpCF_range ls (ls + 1) ls le h (by omega)
    -- ls + k (le - ls) with ls + 1 ≤ · < ls + 1 + (le - ls): k = 1
    unfold wrapUpCF at hr ⊢
    have hnb : ¬ ls + 1 ≤ ls := by omega
    simp only [hnb, if_false] at hr ⊢
    have : (ls + 1 - ls + (le - ls) - 1) / (le - ls) = 1 := by
      apply Nat.div_eq_of_lt_le <;> omega
    rw [this]; omega
  · have hb : ls + 1 ≤ t.position := by omega
    simp [wrapUpCF, hb, he]

/-- **backwards, no loop**: one step to the previous frame; the end is detected exactly at frame 0
    (which has been played by then). -/
theorem C04_transport_backward_end (t : Transport) (hp : t.playing = true) (hl : t.loopRegion = none) :
    t.decrement = .ok (if t.position = 0 then { t with playing := false }
                       else { t with position := t.position - 1 }) :=
  decrement_noLoop t hp hl

/-- **after the end nothing moves.** -/
theorem C04_transport_ended_is_final (t : Transport) (n : Nat) (hp : t.playing = false) :
    t.increment n = .ok t ∧ t.decrement = .ok t ∧ ∀ p t', t.seekTo p n = .ok t' → t'.playing = false := by
  refine ⟨increment_stopped t n hp, decrement_stopped t hp, fun p t' h => ?_⟩
  rw [(seekTo_playing t t' p n h).1, hp]; simp

/-- the operations a static sound performs on its transport -/
inductive TOp where
  | inc | dec | seek (p : Nat)
  /-- `set_loop_region` with a region already converted to frames (`none` removes the loop) -/
  | setLoop (r : Option (Nat × Nat))

/-- a loop region in frames that the code can handle -/
def TOp.Valid (n : Nat) : TOp → Prop
  | .setLoop (some (ls, le)) => ls < le ∧ le ≤ n
  | _ => True

def Transport.apply (t : Transport) (n : Nat) : TOp → Except Fault Transport
  | .inc => t.increment n
  | .dec => t.decrement
  | .seek p => t.seekTo p n
  | .setLoop r => .ok (t.setLoopRegion r)

def Transport.applyAll (t : Transport) (n : Nat) : List TOp → Except Fault Transport
  | [] => .ok t
  | op :: ops => match t.apply n op with
    | .error f => .error f
    | .ok t' => Transport.applyAll t' n ops

/-- one step keeps a valid loop valid, never faults, and keeps the play head inside the sound. -/
theorem C04_transport_step_inv (t : Transport) (n : Nat) (op : TOp) (hv : t.ValidLoop n) (hop : op.Valid n)
    (hi : t.Inside n) :
    ∃ t', t.apply n op = .ok t' ∧ t'.ValidLoop n ∧ t'.Inside n := by
  cases hpl : t.playing with
  | false =>
    -- ended: inc/dec do nothing, seek keeps it ended
    cases op with
    | inc => exact ⟨t, increment_stopped t n hpl, hv, hi⟩
    | dec => exact ⟨t, decrement_stopped t hpl, hv, hi⟩
    | seek p =>
      unfold Transport.apply
      cases hl : t.loopRegion with
      | none =>
        refine ⟨_, seekTo_noLoop t p n hl, ?_, ?_⟩
        · simpa [ValidLoop, hl] using hv
        · simp [Inside, hpl]
      | some r =>
        obtain ⟨ls, le⟩ := r
        have hv' : ls < le ∧ le ≤ n := by simpa [ValidLoop, hl] using hv
        refine ⟨_, seekTo_loop t p n ls le hl hv'.1, ?_, ?_⟩
        · simpa [ValidLoop, hl] using hv'
        · simp [Inside, hpl]
    | setLoop r =>
      refine ⟨_, rfl, ?_, ?_⟩
      · cases r with
        | none => simp [ValidLoop, setLoopRegion]
        | some r => obtain ⟨a, b⟩ := r; simpa [ValidLoop, setLoopRegion, TOp.Valid] using hop
      · simp [Inside, setLoopRegion, hpl]
  | true =>
    have hin : t.position < n := hi hpl
    cases op with
    | setLoop r =>
      refine ⟨_, rfl, ?_, ?_⟩
      · cases r with
        | none => simp [ValidLoop, setLoopRegion]
        | some r => obtain ⟨a, b⟩ := r; simpa [ValidLoop, setLoopRegion, TOp.Valid] using hop
      · simpa [Inside, setLoopRegion] using hi
    | inc =>
      unfold Transport.apply
      cases hl : t.loopRegion with
      | none =>
        refine ⟨_, increment_noLoop t n hpl hl, ?_, ?_⟩
        · simp [ValidLoop, hl]
        · simp [Inside]
      | some r =>
        obtain ⟨ls, le⟩ := r
        have hv' : ls < le ∧ le ≤ n := by simpa [ValidLoop, hl] using hv
        refine ⟨_, increment_loop t n ls le hpl hl hv'.1, ?_, ?_⟩
        · simpa [ValidLoop, hl] using hv'
        · simp [Inside]
    | dec =>
      unfold Transport.apply
      cases hl : t.loopRegion with
      | none =>
        refine ⟨_, decrement_noLoop t hpl hl, ?_, ?_⟩
        · by_cases h0 : t.position = 0 <;> simp [h0, ValidLoop, hl]
        · by_cases h0 : t.position = 0
          · simp [h0, Inside]
          · simp only [h0, if_false, Inside]; intro _; omega
      | some r =>
        obtain ⟨ls, le⟩ := r
        have hv' : ls < le ∧ le ≤ n := by simpa [ValidLoop, hl] using hv
        refine ⟨_, decrement_loop t ls le hpl hl hv'.1, ?_, ?_⟩
        · simpa [ValidLoop, hl] using hv'
        · simp only [Inside]; intro _
          by_cases hb : ls + 1 ≤ t.position
          · simp [wrapUpCF, hb]; omega
          · have := wrapUpCF_range t.position (ls + 1) ls le hv'.1 (by omega)
            simp; omega
    | seek p =>
      unfold Transport.apply
      cases hl : t.loopRegion with
      | none =>
        refine ⟨_, seekTo_noLoop t p n hl, ?_, ?_⟩
        · simp [ValidLoop, hl]
        · simp only [Inside]
          by_cases hnp : n ≤ p <;> simp [hnp]; omega
      | some r =>
        obtain ⟨ls, le⟩ := r
        have hv' : ls < le ∧ le ≤ n := by simpa [ValidLoop, hl] using hv
        refine ⟨_, seekTo_loop t p n ls le hl hv'.1, ?_, ?_⟩
        · simpa [ValidLoop, hl] using hv'
        · simp only [Inside]
          generalize (if t.position < p then wrapDownCF p ls le else wrapUpCF p ls ls le) = X
          by_cases hX : n ≤ X
          · simp [hX]
          · intro _; omega

/-- **transport invariant, every history**: starting inside the sound with a valid (or no) loop
    region, *no* sequence of steps, seeks and valid loop-region changes ever faults, the loop region
    stays valid and the play head stays inside the sound while the transport is playing. -/
theorem C04_transport_inv (n : Nat) (ops : List TOp) (hops : ∀ op ∈ ops, op.Valid n) :
    ∀ t : Transport, t.ValidLoop n → t.Inside n →
      ∃ t', Transport.applyAll t n ops = .ok t' ∧ t'.ValidLoop n ∧ t'.Inside n := by
  induction ops with
  | nil => intro t hv hi; exact ⟨t, rfl, hv, hi⟩
  | cons op ops ih =>
    intro t hv hi
    obtain ⟨t1, h1, hv1, hi1⟩ := C04_transport_step_inv t n op hv (hops op (by simp)) hi
    obtain ⟨t2, h2, hv2, hi2⟩ := ih (fun o ho => hops o (by simp [ho])) t1 hv1 hi1
    exact ⟨t2, by simp [Transport.applyAll, h1, h2], hv2, hi2⟩

/-- `Transport::new` starts inside the sound (forwards: `start < n`; reversed: always, when it does
    not underflow), playing, at the mirrored index when reversed. -/
theorem C04_transport_new (start n : Nat) (lr : Option (Nat × Nat)) (rev : Bool) (h : start < n) :
    ∃ t, Transport.new start lr rev n = .ok t ∧ t.Inside n ∧ t.playing = true ∧ t.loopRegion = lr
      ∧ t.position = if rev then n - 1 - start else start := by
  unfold Transport.new
  cases rev with
  | false => exact ⟨_, rfl, fun _ => h, rfl, rfl, rfl⟩
  | true =>
    have : start + 1 ≤ n := h
    simp only [if_true, this]
    exact ⟨_, rfl, fun _ => by simp; omega, rfl, rfl, rfl⟩

/-- non-vacuity: a 5-frame sound looping [1,4) walks 0 1 2 3 1 2 3 … -/
example : Transport.applyAll ⟨0, some (1, 4), true⟩ 5 [.inc, .inc, .inc, .inc, .inc] = .ok ⟨2, some (1, 4), true⟩ := by
  rfl

/-! ### Hermite interpolation -/

/-- **the interpolator interpolates**: at fraction 0 it returns the `current` frame exactly, at
    fraction 1 the `next` frame exactly (so consecutive output frames join up, and at rate 1 the output
    *is* the source). -/
theorem C04_hermite_interpolates (p c n1 n2 : Frame ℝ) :
    interpolateFrame p c n1 n2 0 = c ∧ interpolateFrame p c n1 n2 1 = n1 :=
  ⟨interpolateFrame_zero p c n1 n2, interpolateFrame_one p c n1 n2⟩

/-- it reproduces every polynomial of degree ≤ 2 sampled at −1, 0, 1, 2 exactly, at every fraction
    (in particular constants and ramps pass through unchanged). -/
theorem C04_hermite_reproduces_quadratics (a b c x : ℝ) :
    hermite (a * (-1) ^ 2 + b * (-1) + c) c (a + b + c) (a * 2 ^ 2 + b * 2 + c) x = a * x ^ 2 + b * x + c := by
  unfold hermite; ring

/-- … but not cubics (DESIGN.md said "reproduces cubics"; that is false of this 4-point, 3rd-order
    Hermite kernel — it is Catmull-Rom, exact to degree 2): `x³` at `x = 1/4`. -/
theorem C04_hermite_not_cubics : hermite ((-1) ^ 3) 0 1 (2 ^ 3) (1 / 4) ≠ (1 / 4 : ℝ) ^ 3 := by
  unfold hermite; norm_num

/-! ### the slice -/

/-- **never reads outside the slice**: with the slice inside the data, a lookup never faults; for an
    index inside the sound it returns exactly the data frame at `slice start + index`, which lies in
    `[slice start, slice end)`; for any other index it returns nothing (the caller substitutes
    silence) — never a frame from outside the slice. -/
theorem C04_never_outside_slice (s : StaticSound ℝ) (h : s.SliceOk) (i : Nat) :
    (i < s.nFrames → ∃ f, frameAtIndex i s.frames s.slice = .ok (some f) ∧ s.frames[i + s.sliceStart]? = some f
        ∧ s.sliceStart ≤ i + s.sliceStart ∧ i + s.sliceStart < s.sliceStart + s.nFrames)
    ∧ (s.nFrames ≤ i → frameAtIndex i s.frames s.slice = .ok none) := by
  refine ⟨fun hi => ?_, (StaticSound.frameAtIndex_ok s h i).2⟩
  obtain ⟨f, h1, h2, _⟩ := (StaticSound.frameAtIndex_ok s h i).1 hi
  exact ⟨f, h1, h2, by omega, by omega⟩

/-- what enters the interpolator's window is the source frame under the play head, or silence. -/
theorem C04_pushed_frame_is_source (s : StaticSound ℝ) (h : s.SliceOk) :
    StaticSound.pushedFrame s = StaticSound.sourceAt s s.transport :=
  StaticSound.pushedFrame_eq s h

/-- **in-domain sounds never fault**: slice inside the data and a valid (or no) loop region: any
    number of position steps succeeds. -/
theorem C04_in_domain_never_faults (s : StaticSound ℝ) (h : s.InDomain) (k : Nat) :
    ∃ s', StaticSound.updN k s = .ok s' ∧ s'.InDomain :=
  StaticSound.updN_total k s h

/-! ### position accumulation and resampling -/

/-- **the `while fractional_position >= 1.0` loop, closed form and fuel independence**: for every
    fuel above `⌊frac⌋` it performs exactly `⌊frac⌋` position steps and leaves the fractional part. -/
theorem C04_step_loop_closed_form (fuel : Nat) (s : StaticSound ℝ) (h0 : 0 ≤ s.frac) (hf : ⌊s.frac⌋₊ < fuel) :
    StaticSound.stepPos fuel s
      = (StaticSound.updN ⌊s.frac⌋₊ s).map (StaticSound.setFrac (s.frac - (⌊s.frac⌋₊ : ℝ))) :=
  StaticSound.stepPos_spec fuel s h0 hf

/-- **every output frame is the Hermite interpolation of the 4-frame window at the current
    fraction** (then shaded by fade, volume and panning), after which the position advances by
    `⌊frac + sr·|rate|·dt⌋` frames and the fractional part is kept. -/
theorem C04_output_is_hermite (fuel : Nat) (s : StaticSound ℝ) (t dt : ℝ)
    (h0 : 0 ≤ s.frac + s.fracStep t dt) (hf : ⌊s.frac + s.fracStep t dt⌋₊ < fuel) :
    StaticSound.renderFrame fuel s t dt
      = (StaticSound.updN ⌊s.frac + s.fracStep t dt⌋₊ s).map (fun s' =>
          (StaticSound.setFrac (s.frac + s.fracStep t dt - (⌊s.frac + s.fracStep t dt⌋₊ : ℝ)) s',
           s.shade t (interpolateFrame s.resampler.f0.frame s.resampler.f1.frame s.resampler.f2.frame
             s.resampler.f3.frame s.frac))) :=
  StaticSound.renderFrame_spec fuel s t dt h0 hf

/-- **position accumulation at a constant rate**: with the playback rate resting at `r`, after `k`
    output frames of one `process` call the sound has taken exactly `⌊frac₀ + k·sr·|r|·dt⌋` position
    steps and its fractional position is the fractional part of that number — for every `k`, every
    buffer length and every fuel above the step count (faults, if any, included: both sides fail
    identically). -/
theorem C04_position_accumulates (fuel : Nat) (dt r : ℝ) (len k i : Nat) (s : StaticSound ℝ)
    (hr : s.playbackRate.Rests r) (hdt : 0 ≤ dt) (h0 : 0 ≤ s.frac) (h1 : s.frac < 1)
    (hfuel : ⌊s.frac + k * ((s.sampleRate : ℝ) * |r| * dt)⌋₊ < fuel) :
    (StaticSound.renderLoop fuel dt len k i s).map Prod.fst
      = (StaticSound.updN ⌊s.frac + k * ((s.sampleRate : ℝ) * |r| * dt)⌋₊ s).map
          (StaticSound.setFrac (s.frac + k * ((s.sampleRate : ℝ) * |r| * dt)
            - (⌊s.frac + k * ((s.sampleRate : ℝ) * |r| * dt)⌋₊ : ℝ))) := by
  apply StaticSound.renderLoop_steps fuel dt len _ (by positivity) k i s
    (fun t => StaticSound.fracStep_rests s r t dt hr) h0 h1 hfuel

/-! ### rate 1: the output *is* the source -/

/-- **rate-1 identity, no latency, any buffer partition, loops and reverse included.**
    A sound built with neutral settings (0 dB, centre, no fade-in, immediate start) and a fixed rate
    `r` with `sr·|r|·dt = 1` (rate ±1 on a device at the sound's sample rate), slice inside the
    data and a valid (or no) loop region.  For *every* partition of time into `process` calls, the
    `j`-th frame written to the output is *exactly* the source frame under the play head after `j`
    steps of the transport from its start position (`walk`: forwards or backwards, wrapping at the
    loop), starting with the start position itself at `j = 0` — and exact silence once the transport
    has ended. -/
theorem C04_rate1_identity (fuel : Nat) (hfuel : 2 ≤ fuel) (d : StaticSoundData ℝ) (r dt : ℝ)
    (hn : StaticSound.NeutralSettings d r) (s0 s : StaticSound ℝ) (h0 : StaticSound.init d = .ok s0)
    (hdom : s0.InDomain) (hnew : StaticSound.new d = .ok s)
    (hunit : (d.sampleRate : ℝ) * |r| * dt = 1) (info : Info ℝ) (lens : List Nat)
    (s' : StaticSound ℝ) (outs : List (Frame ℝ))
    (hrun : s.run fuel (StaticSound.chunkOps dt info lens) = .ok (s', outs)) :
    outs.length = lens.sum ∧
      ∀ j, j < lens.sum → ∃ tj, StaticSound.walk s0.isPlayingBackwards s0.nFrames j s0.transport = .ok tj
        ∧ outs[j]? = some (StaticSound.sourceAt s0 tj) := by
  obtain ⟨hg0, hr0, hst0, hfr0, hi0⟩ := StaticSound.init_neutral d r hn s0 h0
  have h3 := StaticSound.new_eq_updN d s0 s h0 hnew
  have hsc := StaticSound.updN_sameConfig 3 s0 s h3
  have hsr : s0.sampleRate = d.sampleRate := by
    obtain ⟨_, _, _, _, _, _, _, h, _⟩ := StaticSound.init_shape d s0 h0; exact h
  obtain ⟨hl, hh⟩ := StaticSound.rate1_run fuel hfuel r dt info lens s s' outs
    (StaticSound.neutralGain_sameConfig hsc hg0) (by rw [hsc.playbackRate]; exact hr0)
    (by rw [hsc.startTime]; exact hst0) (by rw [hsc.frac]; exact hfr0)
    (StaticSound.updN_endInv 3 s0 s hi0 h3) (by rw [hsc.sampleRate, hsr]; exact hunit) hrun
  refine ⟨hl, fun j hj => ?_⟩
  obtain ⟨sj, hsj, hdj⟩ := StaticSound.updN_total j s0 hdom
  refine ⟨sj.transport, StaticSound.updN_transport j s0 sj hdom.1 hsj, ?_⟩
  rw [hh j hj, StaticSound.heardAt_primed s0 s h3 j, hsj]
  simp only []
  have hscj := StaticSound.updN_sameConfig j s0 sj hsj
  rw [StaticSound.pushedFrame_eq sj hdj.1]
  unfold StaticSound.sourceAt StaticSound.nFrames StaticSound.sliceStart
  rw [hscj.slice, hscj.frames]

end K
