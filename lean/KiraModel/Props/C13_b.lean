/-
  C13 (second half: delay and reverb) — effect laws.
  Statements about the models of effect/delay.rs (Model/Effects/Delay.lean) and effect/reverb.rs,
  reverb/comb.rs, reverb/all_pass.rs (Model/Effects/Reverb.lean) over ℝ, for all inputs, parameter
  values, line lengths, slice lengths and partitions.

  The delay's feedback effects are abstract: any state type `φ` and chain `C : FxChain ℝ φ`.
  `C.Good dt info` = the chain keeps slice lengths and is itself chunk-free (true of every chain of
  per-frame effects; shown for the suite's probe effects in the examples).
  A parameter is *stagnant* when it idles on a fixed value (`Parameter.stagnant = true`).
-/
import KiraModel.Proofs.EffectsBProbe
import KiraModel.Proofs.EffectsBReverb
import KiraModel.Proofs.EffectsBLines
import KiraModel.Proofs.EffectsBLinear
import KiraModel.Proofs.EffectsBReverbLinear
import KiraModel.Proofs.EffectsBReverbBound
import KiraModel.Proofs.EffectsBDelayBound

namespace K
open Delay LineFx

variable {φ : Type}

/-! ## Delay -/

/-- **dry mix is the identity (delay).**  With the mix parameter idle at a value ≤ 0 (`Mix::DRY` after
    the clamp), *whatever* the feedback parameter is doing (tweening included), whatever the line holds
    and whatever the feedback effects do: every successful `process` call returns its input unchanged. -/
theorem C13_delay_dry_is_identity (C : FxChain ℝ φ) (d : Delay ℝ φ) (xs : List (Frame ℝ)) (dt : ℝ)
    (info : Info ℝ) (hlen : ∀ s ys, (C.process s ys dt info).2.length = ys.length)
    (hmx : d.mix.stagnant = true) (hdry : d.mix.raw ≤ 0)
    (d' : Delay ℝ φ) (out : List (Frame ℝ)) (h : d.process C xs dt info = .ok (d', out)) :
    out = xs := by
  unfold Delay.process at h
  dsimp only at h
  rw [Parameter.update_stagnant_fst _ _ _ _ hmx] at h
  split at h
  · cases h
  · split at h
    · rename_i st o heq
      have := chunks_dry C _ d.mix hdry dt info hlen d.tempLen d.buffer.length xs.length (d.buffer, d.fx) xs
        (st, o) rfl heq
      cases h
      exact this
    · cases h

/-- **silence stays silent (delay).**  From an all-zero line (what `init` allocates) and feedback effects
    in a state from which they map silence to silence (`Q`), for *any* parameter states (tweening
    included) and any number of calls' worth of zero input: the output is all zero, the line stays all
    zero and the feedback effects stay in `Q`. -/
theorem C13_delay_silence_to_silence (C : FxChain ℝ φ) (Q : φ → Prop) (d : Delay ℝ φ) (n : ℕ) (dt : ℝ)
    (info : Info ℝ) (hQ : SilentChain C dt info Q) (hbuf : d.buffer = List.replicate d.buffer.length Frame.zero)
    (hfx : Q d.fx) (d' : Delay ℝ φ) (out : List (Frame ℝ))
    (h : d.process C (List.replicate n Frame.zero) dt info = .ok (d', out)) :
    out = List.replicate n Frame.zero ∧ d'.buffer = List.replicate d.buffer.length Frame.zero ∧ Q d'.fx := by
  unfold Delay.process at h
  dsimp only at h
  split at h
  · cases h
  · split at h
    · rename_i st o heq
      rw [hbuf] at heq
      simp only [List.length_replicate] at heq
      obtain ⟨a, b, c⟩ := chunks_silent C _ _ dt info Q hQ d.tempLen d.buffer.length _ n d.fx (st, o) hfx heq
      cases h
      exact ⟨c, a, b⟩
    · cases h

/-- **the sub-chunking by the line length is the per-frame delay line.**  With stagnant parameters, a good
    chain, a non-empty line and sub-chunks that fit the temp buffer, `process` never faults and equals
    feeding the frames one at a time (`perFrame`: read the oldest frame, pass it through the feedback
    effects and the feedback gain, push `input + that` at the end, output the blend). -/
theorem C13_delay_subchunking_is_per_frame (C : FxChain ℝ φ) (d : Delay ℝ φ) (xs : List (Frame ℝ)) (dt : ℝ)
    (info : Info ℝ) (hC : C.Good dt info) (hfb : d.feedback.stagnant = true) (hmx : d.mix.stagnant = true)
    (hL : 1 ≤ d.buffer.length) (ht : min d.buffer.length xs.length ≤ d.tempLen) :
    d.process C xs dt info = .ok (after C d xs dt info, (perFrame C d xs dt info).2) :=
  process_settled C d xs dt info hC hfb hmx hL ht

/-- **chunk-free (delay).**  With stagnant parameters (and a good chain, a non-empty line, slices that
    fit): processing `xs ++ ys` in one call gives the same outputs and the same final state as
    processing `xs` and then `ys` — for every split point, hence for every partition. -/
theorem C13_delay_chunk_free (C : FxChain ℝ φ) (d : Delay ℝ φ) (xs ys : List (Frame ℝ)) (dt : ℝ)
    (info : Info ℝ) (hC : C.Good dt info) (hfb : d.feedback.stagnant = true) (hmx : d.mix.stagnant = true)
    (hL : 1 ≤ d.buffer.length) (ht : min d.buffer.length (xs.length + ys.length) ≤ d.tempLen) :
    ∃ d1 o1 d2 o2, d.process C xs dt info = .ok (d1, o1) ∧ d1.process C ys dt info = .ok (d2, o2)
      ∧ d.process C (xs ++ ys) dt info = .ok (d2, o1 ++ o2) := by
  have h1 := process_settled C d xs dt info hC hfb hmx hL (by omega)
  have hb1 : (after C d xs dt info).buffer.length = d.buffer.length :=
    framesC_buf_length C _ _ dt info hC (d.buffer, d.fx) xs hL
  have h2 := process_settled C (after C d xs dt info) ys dt info hC hfb hmx (by rw [hb1]; exact hL)
    (by rw [hb1]; show _ ≤ d.tempLen; omega)
  have h12 := process_settled C d (xs ++ ys) dt info hC hfb hmx hL (by simpa using ht)
  refine ⟨_, _, _, _, h1, h2, ?_⟩
  rw [h12]
  have happ := framesC_append C (asAmplitude d.feedback.raw) (clamp d.mix.raw 0 1) dt info (d.buffer, d.fx) xs ys
  simp only [after, perFrame, Parameter.settle_settle, Parameter.settle_raw] at happ ⊢
  rw [happ]

/-- **superposition (delay with a linear feedback chain).**  `fadd` adds signals frame by frame,
    `Delay.plus` adds the lines and the feedback-effect states of two delays that share configuration and
    parameters (`SameControls`).  For *any* parameter states (tweening included — the coefficients do not
    depend on the signal), any line length and any slicing: if the runs on `x1` and on `x2` succeed, the
    run of the summed delay on `x1 + x2` succeeds, outputs the sum of the outputs and ends in the sum of
    the final states.  (The three runs fault together: faults depend on lengths only.) -/
theorem C13_delay_linear (C : FxChain ℝ φ) (dt : ℝ) (info : Info ℝ)
    (padd : φ → φ → φ) (psmul : ℝ → φ → φ) (hC : C.Linear dt info padd psmul)
    (d1 d2 : Delay ℝ φ) (hsame : SameControls d1 d2) (x1 x2 : List (Frame ℝ)) (hx : x1.length = x2.length)
    (d1' d2' : Delay ℝ φ) (o1 o2 : List (Frame ℝ))
    (h1 : d1.process C x1 dt info = .ok (d1', o1)) (h2 : d2.process C x2 dt info = .ok (d2', o2)) :
    (Delay.plus padd d1 d2).process C (fadd x1 x2) dt info = .ok (Delay.plus padd d1' d2', fadd o1 o2)
      ∧ SameControls d1' d2' :=
  Delay.process_add C dt info padd psmul hC d1 d2 hsame x1 x2 hx d1' d2' o1 o2 h1 h2

/-- **scaling (delay with a linear feedback chain).**  Scaling the line, the feedback-effect state and the
    input by `c` scales the output and the final state by `c`, for any parameter states. -/
theorem C13_delay_homogeneous (C : FxChain ℝ φ) (dt : ℝ) (info : Info ℝ)
    (padd : φ → φ → φ) (psmul : ℝ → φ → φ) (hC : C.Linear dt info padd psmul) (c : ℝ)
    (d : Delay ℝ φ) (x : List (Frame ℝ)) (d' : Delay ℝ φ) (o : List (Frame ℝ))
    (h : d.process C x dt info = .ok (d', o)) :
    (Delay.times psmul c d).process C (fsmul c x) dt info = .ok (Delay.times psmul c d', fsmul c o) :=
  Delay.process_smul C dt info padd psmul hC c d x d' o h

/-- non-vacuity: the suite's probe effect with zero offset (gain `g`, one-pole feedback `f`) is a linear
    chain (its state — the previous output — adds and scales) -/
example (g f dt : ℝ) (info : Info ℝ) :
    (ProbeFx.onePole g f).Linear dt info Frame.add (fun c p => p.scale c) := ProbeFx.onePole_linear g f dt info

/-- **the delay is bounded for ever (loop gain below 1).**  Stagnant parameters with feedback amplitude
    `a = 10^(dB/20)`; a good feedback chain that, on a set `Q` of its states, maps frames within `B` to frames
    within `G·B` (`BoundedChain`; `G = 1` for no effects, `|g|` for a gain); line contents within `B`, inputs
    within `X`, and `X + a·G·B ≤ B` (i.e. `B ≥ X / (1 − a·G)`, loop gain `a·G < 1`).  Then `process` never
    faults, every output sample is within `a·G·B + X`, and the line stays within `B` and the effects in `Q` —
    for inputs of any length, hence for arbitrarily many calls. -/
theorem C13_delay_bounded (C : FxChain ℝ φ) (d : Delay ℝ φ) (xs : List (Frame ℝ)) (dt : ℝ) (info : Info ℝ)
    (hC : C.Good dt info) (hfb : d.feedback.stagnant = true) (hmx : d.mix.stagnant = true)
    (hL : 1 ≤ d.buffer.length) (ht : min d.buffer.length xs.length ≤ d.tempLen)
    (Q : φ → Prop) (G B X : ℝ) (hQ : BoundedChain C dt info Q G B) (hX : 0 ≤ X) (hG : 0 ≤ G) (hB0 : 0 ≤ B)
    (hB : X + asAmplitude d.feedback.raw * (G * B) ≤ B) (hfx : Q d.fx)
    (hbuf : ∀ b ∈ d.buffer, Frame.Within b B) (hx : ∀ x ∈ xs, Frame.Within x X) :
    ∃ d' out, d.process C xs dt info = .ok (d', out)
      ∧ (∀ y ∈ out, Frame.Within y (asAmplitude d.feedback.raw * (G * B) + X))
      ∧ (∀ b ∈ d'.buffer, Frame.Within b B) ∧ Q d'.fx
      ∧ d'.feedback.stagnant = true ∧ d'.mix.stagnant = true ∧ d'.feedback.raw = d.feedback.raw
      ∧ d'.buffer.length = d.buffer.length ∧ d'.tempLen = d.tempLen := by
  have hp := process_settled C d xs dt info hC hfb hmx hL ht
  have hm := clamp_mem d.mix.raw 0 1 (by norm_num)
  obtain ⟨a, b, c⟩ := framesC_bounded C (asAmplitude d.feedback.raw) (clamp d.mix.raw 0 1) dt info hC Q G B X hQ
    (asAmplitude_nonneg _) hm.1 hm.2 hX hG hB0 hB xs d.buffer d.fx hL hfx hbuf hx
  exact ⟨_, _, hp, c, a, b, hfb, hmx, rfl, framesC_buf_length C _ _ dt info hC (d.buffer, d.fx) xs hL, rfl⟩

/-- non-vacuity: with no feedback effects (the empty probe chain) frames within `B` stay within `1·B` -/
example (dt : ℝ) (info : Info ℝ) (B : ℝ) :
    BoundedChain (ProbeFx.chain : FxChain ℝ _) dt info (fun s => s = []) 1 B := by
  intro s xs hs hx
  subst hs
  simp only [ProbeFx.chain, ProbeFx.chainProcess, one_mul]
  exact ⟨trivial, hx⟩

/-! ### non-vacuity (delay): the probe effects nested by the correspondence suite form a good, silent chain,
    and a freshly initialised one-second delay at 48 kHz meets the hypotheses above -/

example (dt : ℝ) (info : Info ℝ) : (ProbeFx.chain : FxChain ℝ (List (ProbeFx ℝ))).Good dt info :=
  ProbeFx.chain_good dt info

example (dt : ℝ) (info : Info ℝ) :
    SilentChain (ProbeFx.chain : FxChain ℝ _) dt info (fun s => ∀ p ∈ s, p.Quiet) := ProbeFx.chain_silent dt info

example : (Parameter.new (.fixed (0 : ℝ)) (0.5 : ℝ) : Parameter ℝ ℝ).stagnant = true
    ∧ (Parameter.new (.fixed (0 : ℝ)) (0.5 : ℝ) : Parameter ℝ ℝ).raw ≤ 0 := by
  simp [Parameter.new, Value.isFixed]

/-! ## Reverb -/

/-- **dry mix is the identity (reverb).**  With the mix parameter idle at a value ≤ 0, whatever the other
    three parameters are doing and whatever the 24 lines hold: every successful `process` call returns its
    input unchanged. -/
theorem C13_reverb_dry_is_identity (r : Reverb ℝ) (xs : List (Frame ℝ)) (dt : ℝ) (info : Info ℝ)
    (hmx : r.mix.stagnant = true) (hdry : r.mix.raw ≤ 0)
    (r' : Reverb ℝ) (out : List (Frame ℝ)) (h : r.process xs dt info = .ok (r', out)) : out = xs := by
  unfold Reverb.process at h
  split at h
  · cases h
  · rename_i ls hst
    dsimp only at h
    rw [Parameter.update_stagnant_fst _ r.mix _ _ hmx] at h
    split at h
    · cases h
    · rename_i ls' o heq
      have := Reverb.frames_dry _ r.mix hdry _ _ _ xs 0 ls (ls', o) heq
      cases h
      exact this

/-- **silence stays silent (reverb).**  From lines that hold only zeros (what `init` /
    `on_change_sample_rate` allocate: `C13_reverb_init_is_silent`), for any parameter values and states
    (tweening included), zero input gives zero output and the lines still hold only zeros. -/
theorem C13_reverb_silence_to_silence (r : Reverb ℝ) (ls : ReverbLines ℝ) (hst : r.state = some ls)
    (hs : ls.Silent) (n : ℕ) (dt : ℝ) (info : Info ℝ) (r' : Reverb ℝ) (out : List (Frame ℝ))
    (h : r.process (List.replicate n Frame.zero) dt info = .ok (r', out)) :
    out = List.replicate n Frame.zero ∧ ∃ ls', r'.state = some ls' ∧ ls'.Silent := by
  unfold Reverb.process at h
  rw [hst] at h
  dsimp only at h
  split at h
  · cases h
  · rename_i ls' o heq
    have := Reverb.frames_silent _ _ _ _ _ n 0 ls (ls', o) hs heq
    cases h
    exact ⟨this.2, ls', rfl, this.1⟩

/-- the state after `init` (or a sample-rate change) is silent, at every sample rate -/
theorem C13_reverb_init_is_silent (r : Reverb ℝ) (sr : ℕ) :
    ∃ ls, (r.init sr).state = some ls ∧ ls.Silent :=
  ⟨_, rfl, ReverbLines.init_silent sr⟩

/-- **chunk-free (reverb).**  With the four parameters idle on fixed values: processing `xs ++ ys` in one
    call equals processing `xs` and then `ys` — same outputs, same final state, and the same fault if a
    line is empty — for every split point, hence for every partition of the input into slices. -/
theorem C13_reverb_chunk_free (r : Reverb ℝ) (hr : r.Stagnant) (xs ys : List (Frame ℝ)) (dt : ℝ) (info : Info ℝ) :
    r.process (xs ++ ys) dt info
      = match r.process xs dt info with
        | .error e => .error e
        | .ok (r1, o1) =>
          match r1.process ys dt info with
          | .error e => .error e
          | .ok (r2, o2) => .ok (r2, o1 ++ o2) := by
  rw [Reverb.process_settled r hr, Reverb.process_settled r hr]
  cases hst : r.state with
  | none => rfl
  | some ls =>
    simp only [Reverb.framesC_append]
    cases h1 : Reverb.framesC r.stereoWidth.raw (clamp r.mix.raw 0 1) r.feedback.raw r.damping.raw ls xs with
    | error e => rfl
    | ok v =>
      obtain ⟨ls1, o1⟩ := v
      simp only
      rw [Reverb.process_settled _ (Reverb.settled_stagnant r hr ls1)]
      simp only [Reverb.settled, Parameter.settle_raw, Parameter.settle_settle]
      cases Reverb.framesC r.stereoWidth.raw (clamp r.mix.raw 0 1) r.feedback.raw r.damping.raw ls1 ys with
      | error e => rfl
      | ok w => rfl

/-- **defined (reverb): no fault at 196 Hz and above**, in particular over 8 kHz … 192 kHz.  After `init`
    at such a rate every one of the 24 lines has at least one slot, so `process` returns a result (of the
    input's length) for every input, every parameter state and arbitrarily many calls (the returned state is
    again well-formed).  Below 196 Hz the shortest all-pass line ⌊225·fs/44100⌋ is empty and `process`
    faults (`indexOOB`): see `C13_reverb_low_rate_faults`. -/
theorem C13_reverb_never_faults (r : Reverb ℝ) (ls : ReverbLines ℝ) (hst : r.state = some ls) (hw : ls.WF)
    (xs : List (Frame ℝ)) (dt : ℝ) (info : Info ℝ) :
    ∃ r' out ls', r.process xs dt info = .ok (r', out) ∧ out.length = xs.length
      ∧ r'.state = some ls' ∧ ls'.WF := by
  unfold Reverb.process
  rw [hst]
  dsimp only
  obtain ⟨q, hq, w, l⟩ := Reverb.frames_wf (r.stereoWidth.update tw64 (dt * (KOps.ofNat xs.length : ℝ)) info).1
    (r.mix.update tw32 (dt * (KOps.ofNat xs.length : ℝ)) info).1
    (KOps.r32 (r.feedback.update tw64 (dt * (KOps.ofNat xs.length : ℝ)) info).1.value)
    (KOps.r32 (r.damping.update tw64 (dt * (KOps.ofNat xs.length : ℝ)) info).1.value) xs.length xs 0 ls hw
  rw [hq]
  exact ⟨_, _, _, rfl, l, rfl, w⟩

theorem C13_reverb_init_wellformed (r : Reverb ℝ) (sr : ℕ) (h : 196 ≤ sr) :
    ∃ ls, (r.init sr).state = some ls ∧ ls.WF :=
  ⟨_, rfl, ReverbLines.init_wf sr h⟩

/-- the excluded point is a real fault of the model (and of kira: corpus/fxb/reverb_low_rate.ops): at
    100 Hz the first frame already indexes an empty line -/
theorem C13_reverb_low_rate_faults (r : Reverb ℝ) (x : Frame ℝ) (dt : ℝ) (info : Info ℝ) :
    (r.init 100).process [x] dt info = .error .indexOOB := by
  have hadj : ReverbLines.adjust ℝ 100 341 = 0 := by
    rw [ReverbLines.adjust_real]
    apply Nat.floor_eq_zero.mpr
    norm_num [Gen.reverbReferenceSampleRate]
  have hbad : ∃ p ∈ (ReverbLines.init 100 : ReverbLines ℝ).allPasses, ¬ p.1.WF ∨ ¬ p.2.WF := by
    refine ⟨(AllPass.new (ReverbLines.adjust ℝ 100 341), AllPass.new (ReverbLines.adjust ℝ 100 (341 + 23))), ?_, ?_⟩
    · simp [ReverbLines.init, Gen.reverbAllPassTuning, Gen.reverbStereoSpread]
    · left
      simp [AllPass.WF, AllPass.new, hadj]
  simp only [Reverb.process, Reverb.init, Reverb.frames, ReverbLines.frame_err _ hbad]

/-- **superposition (reverb).**  `Reverb.plus` adds, slot by slot, the contents of the 24 lines (and the
    comb low-pass stores) of two reverbs that share their parameters (`SameControls`) and whose lines have the
    same sizes and indices (`ReverbLines.Compat`: e.g. both initialised at the same sample rate and fed
    equally many frames).  For any parameter states (tweening included) and any slicing: if the runs on `x1`
    and `x2` succeed, the run of the summed reverb on `x1 + x2` succeeds, outputs the sum of the outputs and
    ends in the sum of the final states (which are compatible again, so the statement iterates over calls). -/
theorem C13_reverb_linear (r1 r2 : Reverb ℝ) (hsame : Reverb.SameControls r1 r2) (l1 l2 : ReverbLines ℝ)
    (hs1 : r1.state = some l1) (hs2 : r2.state = some l2) (hc : ReverbLines.Compat l1 l2)
    (x1 x2 : List (Frame ℝ)) (hx : x1.length = x2.length) (dt : ℝ) (info : Info ℝ)
    (r1' r2' : Reverb ℝ) (o1 o2 : List (Frame ℝ))
    (h1 : r1.process x1 dt info = .ok (r1', o1)) (h2 : r2.process x2 dt info = .ok (r2', o2)) :
    (Reverb.plus r1 r2).process (fadd x1 x2) dt info = .ok (Reverb.plus r1' r2', fadd o1 o2)
      ∧ Reverb.SameControls r1' r2'
      ∧ ∃ l1' l2', r1'.state = some l1' ∧ r2'.state = some l2' ∧ ReverbLines.Compat l1' l2' :=
  Reverb.process_add r1 r2 hsame l1 l2 hs1 hs2 hc x1 x2 hx dt info r1' r2' o1 o2 h1 h2

/-- **scaling (reverb).**  Scaling every slot and the input by `k` scales the output and the final state by
    `k`, for any parameter states. -/
theorem C13_reverb_homogeneous (k : ℝ) (r : Reverb ℝ) (x : List (Frame ℝ)) (dt : ℝ) (info : Info ℝ)
    (r' : Reverb ℝ) (o : List (Frame ℝ)) (h : r.process x dt info = .ok (r', o)) :
    (Reverb.times k r).process (fsmul k x) dt info = .ok (Reverb.times k r', fsmul k o) :=
  Reverb.process_smul k r x dt info r' o h

/-- non-vacuity: a freshly initialised network is compatible with itself at every sample rate -/
example (sr : ℕ) : ReverbLines.Compat (ReverbLines.init sr : ReverbLines ℝ) (ReverbLines.init sr) := by
  constructor
  · exact List.forall₂_same.mpr (fun p _ => ⟨⟨rfl, rfl⟩, ⟨rfl, rfl⟩⟩)
  · exact List.forall₂_same.mpr (fun p _ => ⟨⟨rfl, rfl⟩, ⟨rfl, rfl⟩⟩)

/-! ## Boundedness of the lines (BIBO) -/

/-- **the comb line is BIBO-stable for |feedback| < 1.**  `Comb.run` iterates the model's
    `CombFilter::process`.  If every slot and the low-pass store are within `B`, every input within `X`,
    `0 ≤ damping ≤ 1` and `X + |feedback|·B ≤ B` (i.e. `B ≥ X / (1 − |feedback|)`, the geometric-series
    bound), then for input sequences of *any* length the line never faults, every output is within `B`
    and the state stays within `B`. -/
theorem C13_comb_bounded (c : Comb ℝ) (hw : c.WF) (fb dp X B : ℝ) (hdp0 : 0 ≤ dp) (hdp1 : dp ≤ 1)
    (hB0 : 0 ≤ B) (hB : X + |fb| * B ≤ B) (hs : |c.store| ≤ B) (hbuf : ∀ e ∈ c.buffer.toList, |e| ≤ B)
    (xs : List ℝ) (hx : ∀ x ∈ xs, |x| ≤ X) :
    ∃ c' ys, Comb.run fb dp c xs = .ok (c', ys) ∧ (∀ y ∈ ys, |y| ≤ B) ∧ |c'.store| ≤ B
      ∧ ∀ e ∈ c'.buffer.toList, |e| ≤ B := by
  obtain ⟨c', hrun, _, hst⟩ := Comb.run_fifo fb dp xs c hw
  obtain ⟨a, b, d⟩ := Comb.fifoRun_bounded fb dp X B hdp0 hdp1 hB0 hB xs (c.fifo, c.store) hx hs
    (fun e he => hbuf e ((Comb.mem_fifo c e).mp he))
  refine ⟨c', _, hrun, d, ?_, ?_⟩
  · have : c'.store = (Comb.fifoRun fb dp (c.fifo, c.store) xs).1.2 := by rw [← hst]
    rw [this]; exact a
  · intro e he
    have : c'.fifo = (Comb.fifoRun fb dp (c.fifo, c.store) xs).1.1 := by rw [← hst]
    exact b e (by rw [← this]; exact (Comb.mem_fifo c' e).mpr he)

/-- from a fresh comb line (`CombFilter::new(n)`, `n ≥ 1`) with `|feedback| < 1`: inputs within `X` give
    outputs within `X / (1 − |feedback|)`, for ever -/
theorem C13_comb_bounded_fresh (n : ℕ) (hn : 1 ≤ n) (fb dp X : ℝ) (hfb : |fb| < 1) (hdp0 : 0 ≤ dp)
    (hdp1 : dp ≤ 1) (hX : 0 ≤ X) (xs : List ℝ) (hx : ∀ x ∈ xs, |x| ≤ X) :
    ∃ c' ys, Comb.run fb dp (Comb.new n) xs = .ok (c', ys) ∧ ∀ y ∈ ys, |y| ≤ X / (1 - |fb|) := by
  have hpos : 0 < 1 - |fb| := by linarith
  have hB0 : 0 ≤ X / (1 - |fb|) := div_nonneg hX hpos.le
  have hB : X + |fb| * (X / (1 - |fb|)) ≤ X / (1 - |fb|) := by
    have : X + |fb| * (X / (1 - |fb|)) = X / (1 - |fb|) := by field_simp; ring
    rw [this]
  obtain ⟨c', ys, h, hy, _, _⟩ := C13_comb_bounded (Comb.new n) (Comb.new_wf n hn) fb dp X _ hdp0 hdp1 hB0 hB
    (by simpa [Comb.new] using hB0)
    (by intro e he; simp [Comb.new] at he; rw [he.2]; simpa using hB0) xs hx
  exact ⟨c', ys, h, hy⟩

/-- **the all-pass line is BIBO-stable** (its feedback is the constant 0.5).  `AllPass.run` iterates the
    model's `AllPassFilter::process`.  If every slot is within `B ≥ 2·X` and every input within `X`, then
    for input sequences of any length the line never faults, every output is within `X + B` and the slots
    stay within `B`.  From a fresh line: outputs within `3·X`. -/
theorem C13_allpass_bounded (a : AllPass ℝ) (hw : a.WF) (X B : ℝ) (hX : 0 ≤ X) (hB : 2 * X ≤ B)
    (hbuf : ∀ e ∈ a.buffer.toList, |e| ≤ B) (xs : List ℝ) (hx : ∀ x ∈ xs, |x| ≤ X) :
    ∃ a' ys, AllPass.run a xs = .ok (a', ys) ∧ (∀ y ∈ ys, |y| ≤ X + B)
      ∧ ∀ e ∈ a'.buffer.toList, |e| ≤ B := by
  obtain ⟨a', hrun, _, hst⟩ := AllPass.run_fifo xs a hw
  obtain ⟨b, d⟩ := AllPass.fifoRun_bounded X B hX hB xs a.fifo hx
    (fun e he => hbuf e ((AllPass.mem_fifo a e).mp he))
  refine ⟨a', _, hrun, d, ?_⟩
  intro e he
  exact b e (by rw [← hst]; exact (AllPass.mem_fifo a' e).mpr he)

theorem C13_allpass_bounded_fresh (n : ℕ) (hn : 1 ≤ n) (X : ℝ) (hX : 0 ≤ X) (xs : List ℝ)
    (hx : ∀ x ∈ xs, |x| ≤ X) :
    ∃ a' ys, AllPass.run (AllPass.new n) xs = .ok (a', ys) ∧ ∀ y ∈ ys, |y| ≤ 3 * X := by
  obtain ⟨a', ys, h, hy, _⟩ := C13_allpass_bounded (AllPass.new n) (AllPass.new_wf n hn) X (2 * X) hX (le_refl _)
    (by intro e he; simp [AllPass.new] at he; rw [he.2]; simpa using (by linarith : (0 : ℝ) ≤ 2 * X)) xs hx
  exact ⟨a', ys, h, fun y hy' => by have := hy y hy'; linarith⟩

/-- **the whole reverb is bounded for ever (fixed parameters).**
    Full statement wanted by C13: finite output for finite input for every parameter trajectory in the
    documented ranges.  Proved here for parameters idle on fixed values (`Stagnant`) with
    `|feedback| < 1` (in the form `2·X·0.015 + |feedback|·Bc ≤ Bc`, i.e. `Bc ≥ 0.03·X/(1−|feedback|)`),
    `0 ≤ damping ≤ 1`, `0 ≤ stereo width ≤ 1` and any mix: if every comb slot and store is within `Bc` and
    all-pass stage `k` within `2·3ᵏ·n_c·Bc` (`ReverbLines.Within`; true of a fresh network for every
    `Bc ≥ 0`), and the input frames are within `X`, then after a successful `process` call the lines satisfy
    the same invariant and every output sample is within `3^(n_a)·n_c·Bc + X` (`n_c` comb pairs, `n_a`
    all-pass pairs; 81·8·Bc + X for the Freeverb network) — hence for arbitrarily many calls.
    Missing for the full statement: parameters that are tweening (their per-call values move inside the
    ranges; the same invariant argument applies but is not carried through `Parameter.update`). -/
theorem C13_reverb_bounded_partial (r : Reverb ℝ) (hr : r.Stagnant) (ls : ReverbLines ℝ)
    (hst : r.state = some ls) (X Bc : ℝ) (hX : 0 ≤ X) (hB0 : 0 ≤ Bc)
    (hB : 2 * X * (15 / 1000) + |r.feedback.raw| * Bc ≤ Bc)
    (hdp0 : 0 ≤ r.damping.raw) (hdp1 : r.damping.raw ≤ 1)
    (hsw0 : 0 ≤ r.stereoWidth.raw) (hsw1 : r.stereoWidth.raw ≤ 1)
    (hs : ls.Within Bc) (xs : List (Frame ℝ)) (hx : ∀ x ∈ xs, |x.left| ≤ X ∧ |x.right| ≤ X)
    (dt : ℝ) (info : Info ℝ) (r' : Reverb ℝ) (out : List (Frame ℝ))
    (h : r.process xs dt info = .ok (r', out)) :
    (∃ ls', r'.state = some ls' ∧ ls'.Within Bc ∧ ls'.combs.length = ls.combs.length
        ∧ ls'.allPasses.length = ls.allPasses.length)
      ∧ r'.Stagnant
      ∧ ∀ y ∈ out, |y.left| ≤ 3 ^ ls.allPasses.length * (ls.combs.length * Bc) + X
          ∧ |y.right| ≤ 3 ^ ls.allPasses.length * (ls.combs.length * Bc) + X := by
  rw [Reverb.process_settled r hr, hst] at h
  simp only at h
  split at h
  · cases h
  · rename_i ls' o heq
    have hg : (Gen.reverbGain : ℝ) = 15 / 1000 := by norm_num [Gen.reverbGain]
    have hm := clamp_mem r.mix.raw 0 1 (by norm_num)
    obtain ⟨a, b, c, d⟩ := Reverb.framesC_within _ _ _ _ X Bc hsw0 hsw1 hm.1 hm.2 hdp0 hdp1 hB0 hX
      (by rw [hg]; exact hB) xs ls _ hx hs heq
    cases h
    exact ⟨⟨ls', rfl, a, b, c⟩, Reverb.settled_stagnant r hr ls', d⟩

/-- a freshly initialised reverb satisfies the invariant for every `Bc ≥ 0` and has 8 comb pairs and 4
    all-pass pairs: the bound above is `81·8·Bc + X` -/
theorem C13_reverb_init_within (sr : ℕ) (Bc : ℝ) (hB : 0 ≤ Bc) :
    (ReverbLines.init sr : ReverbLines ℝ).Within Bc
      ∧ (ReverbLines.init sr : ReverbLines ℝ).combs.length = 8
      ∧ (ReverbLines.init sr : ReverbLines ℝ).allPasses.length = 4 :=
  ⟨ReverbLines.init_within sr Bc hB, by simp [ReverbLines.init, Gen.reverbCombTuning],
    by simp [ReverbLines.init, Gen.reverbAllPassTuning]⟩

end K
