/-
  C15 inside the whole-system model — the per-track results of Props/C15.lean hold for spatial tracks INSIDE
  `Model/System.lean` (the mixer / renderer model of C02 instantiated with the real components, whose spatial
  hook is `SysSpatial.{info, step, start}` = the spatial computation of Model/Spatial.lean).  These are the
  definitions the `syscore` twin runs bit-for-bit against kira.

  * `C15_system_listener_lookup` — what "the listener of a spatial track" is inside the system: every track, at
    any depth, looks its listener up in the environment's listener arena of this chunk (the `Info` handed down
    the tree never changes `Info.listener`); the listener distance is set by the innermost spatial track.
  * `C15_system_dropped_listener_absent` — a dropped (or never added) listener is not found from the next
    `on_start_processing` on, through any number of internal chunks.
  * `C15_system_no_listener_silent` — a spatial track whose listener is absent outputs exactly zero, adds exactly
    nothing to the bus of its parent (hence to the device) and feeds exactly nothing to any send — any subtree
    (sounds, effects, nested tracks), any parameters, any chunk.
  * `C15_system_level_product` — with the listener present, the track's signal is, frame by frame,
    track gain × (mono mix × distance amplitude × ear gain) of its subtree's signal (children + sounds through
    the effects).
-/
import KiraModel.Proofs.SpatialLemmas
import KiraModel.Proofs.SystemLemmas
import KiraModel.Props.C01_full

set_option linter.unusedSectionVars false

namespace K

section generic
variable {α : Type} [Add α] [Sub α] [Mul α] [Div α] [Neg α] [LT α] [LE α]
  [DecidableLT α] [DecidableLE α] [OfScientific α] [KOps α]

/-- **Which listener a track hears.**  In the whole-system model (every number type, also the Float twin):
    (1) the `Info` a track hands to its sounds, effects, parameters and sub-tracks has the same listener arena as
    the `Info` it received — so every track at every depth looks listeners up in the environment's arena of this
    chunk (`SysEnv.mixInfo`, whose lookup is by listener id);
    (2) a spatial track replaces the listener distance by the distance between ITS listener's current position
    and its own position before this chunk's update (its own info wins over the enclosing track's), absent
    exactly when its listener does not exist;
    (3) a plain track passes the `Info` on unchanged (so it inherits the enclosing spatial track's distance). -/
theorem C15_system_listener_lookup (fuel n : Nat) (d : TrkData α (SysSnd α) (SysFx α n) (SysSpatial α))
    (pinfo : Info α) :
    (Trk.trackInfo (sysComps fuel n) d pinfo).listener = pinfo.listener
      ∧ (∀ p, d.spatial = some p →
          (Trk.trackInfo (sysComps fuel n) d pinfo).listenerDistance
            = listenerDistance (some ⟨p.sd.position.value, p.sd.listenerId⟩) (pinfo.listener p.sd.listenerId))
      ∧ (d.spatial = none → Trk.trackInfo (sysComps fuel n) d pinfo = pinfo)
      ∧ (∀ e : SysEnv α, e.mixInfo.listener = SysEnv.listenerInfo e.listeners ∧ e.mixInfo.listenerDistance = none) := by
  refine ⟨?_, ?_, ?_, fun e => ⟨rfl, rfl⟩⟩
  · unfold Trk.trackInfo; cases d.spatial <;> rfl
  · intro p hp; unfold Trk.trackInfo; rw [hp]; rfl
  · intro hp; unfold Trk.trackInfo; rw [hp]

theorem SysEnv.step_listener_ids (e : SysEnv α) (dt : α) :
    (e.step dt).listeners.map (·.id) = e.listeners.map (·.id) := by
  unfold SysEnv.step
  dsimp only
  split
  · simp [List.map_map, Function.comp_def, ListenerSt.updateWith]
  · rfl

theorem SysEnv.steps_listener_ids (dts : List α) (e : SysEnv α) :
    (dts.foldl SysEnv.step e).listeners.map (·.id) = e.listeners.map (·.id) := by
  induction dts generalizing e with
  | nil => rfl
  | cons dt rest ih => rw [List.foldl_cons, ih, SysEnv.step_listener_ids]

theorem SysEnv.listenerInfo_none_of_ids (ls : List (ListenerSt α)) (id : Nat) (h : id ∉ ls.map (·.id)) :
    SysEnv.listenerInfo ls id = none := by
  unfold SysEnv.listenerInfo
  simp only [Option.map_eq_none_iff, List.find?_eq_none]
  intro l hl hEq
  exact h (List.mem_map.mpr ⟨l, hl, by simpa using hEq⟩)

/-- **A dropped listener is gone at the next callback, a never-added one is never found** — in the
    whole-system model: if every listener with this id in the arena has had its handle dropped and none with this
    id waits in the new-resource ring, then after `Renderer::on_start_processing` and through ANY number of
    internal chunks of the callback (`process_chunk` steps modulators, clocks, listeners) the lookup of this id
    in the `Info` the mixer's tracks see fails.  (Every number type; clocks cannot hang any more.) -/
theorem C15_system_dropped_listener_absent (e : SysEnv α) (id : Nat)
    (hact : ∀ l ∈ e.listeners, l.id = id → l.removed = true) (hpend : ∀ l ∈ e.newListeners, l.id ≠ id)
    (dts : List α) :
    (dts.foldl SysEnv.step e.start).mixInfo.listener id = none := by
  show SysEnv.listenerInfo _ id = none
  apply SysEnv.listenerInfo_none_of_ids
  rw [SysEnv.steps_listener_ids]
  unfold SysEnv.start
  simp only [List.map_map, List.mem_map, List.mem_append, List.mem_filter, Function.comp_def]
  rintro ⟨l, hl, hEq⟩
  have hid : l.readCommands.id = l.id := rfl
  rw [hid] at hEq
  rcases hl with ⟨hm, hnr⟩ | hm
  · have := hact l hm hEq
    simp [this] at hnr
  · exact hpend l hm hEq

theorem SpatialData.chunkOut_none (sd : SpatialData α) (n i : Nat) (buf : List (Frame α)) :
    sd.chunkOut none n i buf = zeros buf.length := by
  induction buf generalizing i with
  | nil => rfl
  | cons f rest ih =>
    unfold SpatialData.chunkOut
    rw [ih (i + 1)]
    simp [zeros, List.replicate_succ, SpatialData.frameOut]

end generic

/-! ### over the reals -/

theorem Frame.scale_zero_real (g : ℝ) : Frame.scale (Frame.zero : Frame ℝ) g = Frame.zero := by
  simp [Frame.scale, Frame.zero]

theorem gainLoop_zeros_real (g : ℝ → ℝ) (n i m : Nat) : gainLoop g n i (zeros m : List (Frame ℝ)) = zeros m := by
  induction m generalizing i with
  | zero => simp [zeros, gainLoop]
  | succ k ih =>
    have : (zeros (k + 1) : List (Frame ℝ)) = Frame.zero :: zeros k := by simp [zeros, List.replicate_succ]
    rw [this, gainLoop, Frame.scale_zero_real, ih]

theorem map_scale_zeros_real (a : ℝ) (m : Nat) :
    (zeros m : List (Frame ℝ)).map (fun f => Frame.scale f a) = zeros m := by
  simp [zeros, Frame.scale_zero_real]

theorem feedSends_zeros_real {E : Type} (routes : List (Route ℝ)) (m : Nat) (sends : List (SendTrk ℝ E)) :
    feedSends routes (zeros m) sends = sends := by
  unfold feedSends
  induction routes generalizing sends with
  | nil => rfl
  | cons r rs ih =>
    rw [List.foldl_cons]
    have : sendsAddInput sends r.to (zeros m) r.volume.value = sends := by
      unfold sendsAddInput
      conv_rhs => rw [← List.map_id sends]
      apply List.map_congr_left
      intro s _
      split
      · simp [SendTrk.addInput, map_scale_zeros_real, addInto_zeros_real]
      · rfl
    rw [this, ih]

/-- **No listener ⇒ the track contributes exactly nothing** — inside the whole-system model, over ℝ.
    Take ANY spatial track of a scene (any sub-tracks, sounds, effects, routes, parameter and playback states,
    clean scratch buffers — `C01_system_invariant` gives that in every reachable state) and ANY chunk in which the
    `Info` it receives does not find its listener (dropped or never added: `C15_system_dropped_listener_absent`;
    the lookup is the environment's at every depth: `C15_system_listener_lookup`).  Then `Track::process`
    (1) returns `m` frames of exact silence, so (2) the parent's bus — hence the main bus and the device output —
    is exactly what it is without this track: adding the track's signal to any bus changes nothing, and
    (3) the track itself feeds nothing to any send track (the send tracks are left exactly as its sub-tracks'
    own sends left them: a sub-track's send is fed from the sub-track's own post-fader signal). -/
theorem C15_system_no_listener_silent {n : Nat} (fuel ibs : Nat)
    (d : TrkData ℝ (SysSnd ℝ) (SysFx ℝ n) (SysSpatial ℝ))
    (children pending : List (Trk ℝ (SysSnd ℝ) (SysFx ℝ n) (SysSpatial ℝ))) (p : SysSpatial ℝ)
    (hsp : d.spatial = some p) (hclean : Trk.Clean ibs (.node d children pending))
    (dt : ℝ) (pinfo : Info ℝ) (hl : pinfo.listener p.sd.listenerId = none)
    (m : Nat) (hm : m ≤ ibs) (sends : List (SendTrk ℝ (SysFx ℝ n))) :
    (Trk.process (sysComps fuel n) dt pinfo (.node d children pending) (zeros m) sends).2.1 = zeros m
      ∧ (∀ bus : List (Frame ℝ),
          addInto bus (Trk.process (sysComps fuel n) dt pinfo (.node d children pending) (zeros m) sends).2.1 = bus)
      ∧ ((Trk.process (sysComps fuel n) dt pinfo (.node d children pending) (zeros m) sends).2.2 = sends
          ∨ (Trk.process (sysComps fuel n) dt pinfo (.node d children pending) (zeros m) sends).2.2
              = (Trk.specChildren (sysComps fuel n) dt (Trk.trackInfo (sysComps fuel n) d pinfo) m children sends).2.2) := by
  have hC := sysComps_lenPres (α := ℝ) fuel n
  obtain ⟨hproc, _, _⟩ := C02_track_refines_spec (sysComps fuel n) hC ibs _ hclean dt pinfo m hm sends
  rw [hproc]
  have key : (Trk.spec (sysComps fuel n) dt pinfo m (.node d children pending) sends).2.1 = zeros m
      ∧ ((Trk.spec (sysComps fuel n) dt pinfo m (.node d children pending) sends).2.2 = sends
          ∨ (Trk.spec (sysComps fuel n) dt pinfo m (.node d children pending) sends).2.2
              = (Trk.specChildren (sysComps fuel n) dt (Trk.trackInfo (sysComps fuel n) d pinfo) m children sends).2.2) := by
    rw [Trk.spec]
    dsimp only
    split
    · exact ⟨rfl, Or.inl rfl⟩
    · have hs2 : (Trk.preUpdate dt (Trk.trackInfo (sysComps fuel n) d pinfo) m d).spatial = some p := by
        rw [(Trk.preUpdate_fields dt _ m d).2.2.2.1, hsp]
      have hlis : (Trk.trackInfo (sysComps fuel n) d pinfo).listener p.sd.listenerId = none := by
        rw [(C15_system_listener_lookup fuel n d pinfo).1]; exact hl
      have hstage : ∀ buf : List (Frame ℝ), buf.length = m →
          (Trk.spatialStage (sysComps fuel n) dt (Trk.trackInfo (sysComps fuel n) d pinfo) m (some p) buf).2 = zeros m := by
        intro buf hb
        show (SysSpatial.step p buf _ _).2 = zeros m
        simp only [SysSpatial.step, hlis, SpatialData.chunkOut_none, hb]
      unfold Trk.specPost
      dsimp only
      rw [hs2, hstage _ (by simp [length_runEffects _ hC])]
      rw [gainLoop_zeros_real, feedSends_zeros_real]
      exact ⟨rfl, Or.inr rfl⟩
  exact ⟨key.1, fun bus => by rw [key.1]; exact addInto_zeros_real bus m, key.2⟩

/-- the per-frame form of `SpatialData::spatialize` with an attenuation curve and panning on, over ℝ: each
    channel = mono mix × distance amplitude × that ear's gain (the statement of `C15_level_product`, for the
    interpolated emitter position and the clamped interpolated strength of a `SpatialData`) -/
theorem SpatialData.spatialize_product (sd : SpatialData ℝ) (e : Easing ℝ) (hatt : sd.attenuation = some e)
    (f : Frame ℝ) (lp : Vec3 ℝ) (lo : Quat ℝ) (t : ℝ) (hs : sd.strengthAt t ≠ 0) :
    sd.spatialize f lp lo t
      = ⟨(f.left + f.right) / 2
            * asAmplitude (attDb e sd.minDistance sd.maxDistance (Vec3.distance lp (sd.position.interpolatedValue twVec3 t)))
            * (earGains (sd.strengthAt t) (sd.position.interpolatedValue twVec3 t) lp lo).1,
         (f.left + f.right) / 2
            * asAmplitude (attDb e sd.minDistance sd.maxDistance (Vec3.distance lp (sd.position.interpolatedValue twVec3 t)))
            * (earGains (sd.strengthAt t) (sd.position.interpolatedValue twVec3 t) lp lo).2⟩ := by
  unfold SpatialData.spatialize spatializeAt
  rw [hatt]
  have : ∀ q : Vec3 ℝ, Vec3.length (Vec3.sub lp q) = Vec3.distance lp q := fun _ => rfl
  simp only [this, attenuation_real e _ _ _]
  simp [hs, Frame.scale, Frame.asMono]
  constructor <;> (left; ring)

/-- **Level = track gain × mono mix × distance amplitude × ear gain, inside the whole-system model** (ℝ).
    Take ANY advancing spatial track of a scene with clean scratch buffers and a chunk of `m ≤ ibs` frames in
    which its listener exists (`li`).  Let `x` be the signal of its subtree in this chunk — the sub-tracks'
    signals and the sounds mixed from silence, through the track's effects — and `sd'` the spatial data after
    this chunk's parameter update.  Then:
    (1) `Track::process` returns `gain ⊙ spatialise(x)`: frame `i` of the output is frame `i` of `x` through
    `SpatialData::spatialize` at the listener pose interpolated at `i / m`, times the track gain
    (volume × pause fade) at `(i + 1) / m`; the send tracks are fed with exactly that signal;
    (2) for every frame, with an attenuation curve and a strength that is not (clamped to) 0, `spatialize`
    is the product `mono mix × amplitude(distance listener ↔ emitter) × ear gain` per channel — so the track's
    contribution to the device is gain × mix × attenuation × ear gain of its subtree's signal. -/
theorem C15_system_level_product {n : Nat} (fuel ibs : Nat)
    (d : TrkData ℝ (SysSnd ℝ) (SysFx ℝ n) (SysSpatial ℝ))
    (children pending : List (Trk ℝ (SysSnd ℝ) (SysFx ℝ n) (SysSpatial ℝ))) (p : SysSpatial ℝ)
    (hsp : d.spatial = some p) (hclean : Trk.Clean ibs (.node d children pending))
    (dt : ℝ) (pinfo : Info ℝ) (li : ListenerInfo ℝ) (hl : pinfo.listener p.sd.listenerId = some li)
    (m : Nat) (hm : m ≤ ibs) (sends : List (SendTrk ℝ (SysFx ℝ n)))
    (hadv : Trk.advancing (Trk.preUpdate dt (Trk.trackInfo (sysComps fuel n) d pinfo) m d) = true) :
    let C := sysComps (α := ℝ) fuel n
    let info := Trk.trackInfo C d pinfo
    let d2 := Trk.preUpdate dt info m d
    let rc := Trk.specChildren C dt info m children sends
    let x := (runEffects C dt info d2.effects
                (mixInto (mixInto (zeros m) rc.2.1) (specSounds C dt info m d2.sounds).2)).2
    let sd' : SpatialData ℝ :=
      { p.sd with position := (p.sd.position.update twVec3 (dt * (KOps.ofNat m : ℝ)) info).1,
                  strength := (p.sd.strength.update tw32 (dt * (KOps.ofNat m : ℝ)) info).1 }
    let y := (Trk.process C dt pinfo (.node d children pending) (zeros m) sends)
    x.length = m
      ∧ y.2.1 = gainLoop (Trk.frameGain d2.volume d2.psm) m 0 (sd'.chunkOut (some li) m 0 x)
      ∧ y.2.2 = feedSends d2.routes y.2.1 rc.2.2
      ∧ (∀ (i : Nat) (f : Frame ℝ),
            sd'.frameOut (some li) i m f
              = sd'.spatialize f (li.interpolatedPosition ((KOps.ofNat i : ℝ) / (KOps.ofNat m : ℝ)))
                  (li.interpolatedOrientation ((KOps.ofNat i : ℝ) / (KOps.ofNat m : ℝ)))
                  ((KOps.ofNat i : ℝ) / (KOps.ofNat m : ℝ)))
      ∧ (∀ (e : Easing ℝ), p.sd.attenuation = some e → ∀ (f : Frame ℝ) (lp : Vec3 ℝ) (lo : Quat ℝ) (t : ℝ),
            sd'.strengthAt t ≠ 0 →
            sd'.spatialize f lp lo t
              = ⟨(f.left + f.right) / 2
                    * asAmplitude (attDb e p.sd.minDistance p.sd.maxDistance
                        (Vec3.distance lp (sd'.position.interpolatedValue twVec3 t)))
                    * (earGains (sd'.strengthAt t) (sd'.position.interpolatedValue twVec3 t) lp lo).1,
                 (f.left + f.right) / 2
                    * asAmplitude (attDb e p.sd.minDistance p.sd.maxDistance
                        (Vec3.distance lp (sd'.position.interpolatedValue twVec3 t)))
                    * (earGains (sd'.strengthAt t) (sd'.position.interpolatedValue twVec3 t) lp lo).2⟩) := by
  intro C info d2 rc x sd' y
  have hC := sysComps_lenPres (α := ℝ) fuel n
  obtain ⟨hproc, _, _⟩ := C02_track_refines_spec C hC ibs _ hclean dt pinfo m hm sends
  have hx : x.length = m := by simp [x, length_runEffects C hC]
  have hs2 : d2.spatial = some p := by
    show (Trk.preUpdate dt info m d).spatial = some p
    rw [(Trk.preUpdate_fields dt _ m d).2.2.2.1, hsp]
  have hlis : info.listener p.sd.listenerId = some li := by
    show (Trk.trackInfo C d pinfo).listener p.sd.listenerId = some li
    rw [(C15_system_listener_lookup fuel n d pinfo).1]; exact hl
  have hspec : Trk.spec C dt pinfo m (.node d children pending) sends
      = Trk.specPost C dt info m d2 rc.1 pending (mixInto (zeros m) rc.2.1) rc.2.2 := by
    rw [Trk.spec]
    dsimp only
    rw [if_neg (by simpa using hadv)]
  have hstage : (Trk.spatialStage C dt info m (some p) x).2 = sd'.chunkOut (some li) m 0 x := by
    show (SysSpatial.step p x _ _).2 = _
    simp only [SysSpatial.step, hlis, hx, sd']
  refine ⟨hx, ?_, ?_, ?_, ?_⟩
  · show (Trk.process C dt pinfo (.node d children pending) (zeros m) sends).2.1 = _
    rw [hproc, hspec]
    unfold Trk.specPost
    dsimp only
    rw [hs2, hstage]
  · show (Trk.process C dt pinfo (.node d children pending) (zeros m) sends).2.2
      = feedSends d2.routes (Trk.process C dt pinfo (.node d children pending) (zeros m) sends).2.1 rc.2.2
    rw [hproc, hspec]
    unfold Trk.specPost
    dsimp only
  · intro i f
    simp [SpatialData.frameOut]
  · intro e he f lp lo t hs
    exact SpatialData.spatialize_product sd' e he f lp lo t hs

/-- **Every scene, every history.**  In every reachable state of the whole-system model (`System.Reach`: any
    sequence of manager / handle operations — `add_listener`, `add_spatial_sub_track`, listener and spatial-track
    handle methods and drops included —, sample-rate changes and callbacks) the sub-tracks the mixer processes in
    the next callback, and all their descendants, have clean scratch buffers: the hypothesis `Trk.Clean` of
    `C15_system_no_listener_silent` and `C15_system_level_product` holds for every spatial track of every scene
    (a descendant of a clean track is clean by definition of `Trk.Clean`).  Consequently, for every top-level
    spatial track of a reachable scene whose listener's handle has been dropped (or was never added), the first
    chunk of the next callback gets exact silence from it — whatever the scene and the history. -/
theorem C15_system_reachable_dropped_listener_silent {n : Nat} (s : System ℝ n) (h : System.Reach s) :
    Trk.CleanList s.r.ibs (s.r.onStart s.C s.V).mixer.subTracks
      ∧ ∀ (d : TrkData ℝ (SysSnd ℝ) (SysFx ℝ n) (SysSpatial ℝ))
          (children pending : List (Trk ℝ (SysSnd ℝ) (SysFx ℝ n) (SysSpatial ℝ))) (p : SysSpatial ℝ),
          Trk.node d children pending ∈ (s.r.onStart s.C s.V).mixer.subTracks → d.spatial = some p →
          (∀ l ∈ s.r.env.listeners, l.id = p.sd.listenerId → l.removed = true) →
          (∀ l ∈ s.r.env.newListeners, l.id ≠ p.sd.listenerId) →
          ∀ (m : Nat), m ≤ s.r.ibs → ∀ (sends : List (SendTrk ℝ (SysFx ℝ n))),
            (Trk.process s.C s.r.dt
                (s.V.info (s.V.step (s.r.onStart s.C s.V).env (s.r.dt * (KOps.ofNat m : ℝ))))
                (.node d children pending) (zeros m) sends).2.1 = zeros m := by
  have hok := C01_system_invariant s h
  have hclean : Mixer.Clean s.r.ibs (s.r.onStart s.C s.V).mixer := Mixer.onStart_clean _ _ _ hok.1.2
  refine ⟨hclean.subs, ?_⟩
  intro d children pending p hmem hsp hact hpend m hm sends
  have ht : Trk.Clean s.r.ibs (.node d children pending) := (Trk.cleanList_iff _ _).mp hclean.subs _ hmem
  have habs := C15_system_dropped_listener_absent s.r.env p.sd.listenerId hact hpend [s.r.dt * (KOps.ofNat m : ℝ)]
  exact (C15_system_no_listener_silent s.fuel s.r.ibs d children pending p hsp ht s.r.dt _ habs m hm sends).1

/-! ### non-vacuity -/

/-- a spatial track as `SpatialTrackBuilder::new()` makes it (distances 1…100, linear attenuation, strength
    0.75), bound to listener 7 at the origin, carrying a filter, in a clean state: the hypotheses of the two
    theorems are satisfiable, with the listener absent and with it present -/
example : ∃ (d : TrkData ℝ (SysSnd ℝ) (SysFx ℝ 0) (SysSpatial ℝ)) (p : SysSpatial ℝ),
    d.spatial = some p ∧ Trk.Clean 4 (.node d [] []) ∧ p.sd.attenuation = some .linear
      ∧ (SysEnv.empty : SysEnv ℝ).mixInfo.listener p.sd.listenerId = none
      ∧ Trk.advancing (Trk.preUpdate (1 / 48000) (Trk.trackInfo (sysComps 16 0) d (SysEnv.empty : SysEnv ℝ).mixInfo) 4 d) = true := by
  let p : SysSpatial ℝ := SysSpatial.new 7 (.fixed Vec3.zero) 1 100 (some .linear) (.fixed (3 / 4))
  let t : Trk ℝ (SysSnd ℝ) (SysFx ℝ 0) (SysSpatial ℝ) :=
    Trk.mapData (fun d => { d with spatial := some p }) (Trk.buildV 0 (.fixed 0) [] [] false 4)
  refine ⟨t.data, p, rfl, ?_, rfl, rfl, ?_⟩
  · exact Trk.mapData_clean 4 _ (fun _ => rfl) _ (Trk.buildV_clean 0 (.fixed 0) [] [] false 4)
  · simp [t, Trk.mapData, Trk.data, Trk.buildV, Trk.advancing, Trk.preUpdate, Psm.new, Psm.update,
      PlaybackState.isAdvancing, Psm.playbackState]

/-- a scene with a listener, a spatial track bound to it, and the listener's handle dropped again is a reachable
    state of the whole-system model (so `C15_system_reachable_dropped_listener_silent` speaks about it) -/
example : ∃ s : System ℝ 0, System.Reach s ∧ s.r.mixer.pendingSubTracks.length = 1
    ∧ (∀ l ∈ s.r.env.newListeners, l.id = 7 ∧ l.removed = true) := by
  let s0 : System ℝ 0 := System.new 16 4 48000 (.fixed 0) []
  let s1 := s0.addListener 7 (.fixed Vec3.zero) (.fixed Quat.identity)
  let s2 := s1.addSpatialSubTrack none 0 (SysSpatial.new 7 (.fixed Vec3.zero) 1 100 (some .linear) (.fixed (3 / 4)))
    (.fixed 0) [] [] false
  let s3 := s2.listenerCommand 7 (fun l => { l with removed := true })
  have h0 : System.Reach s0 := .new 16 4 48000 (by norm_num) _ _
  have h1 : System.Reach s1 := (System.reach_spatial_ops s0 h0).1 7 _ _
  have h2 : System.Reach s2 := .addSpatialSubTrack s1 none 0 _ _ [] [] false h1
  have h3 : System.Reach s3 := (System.reach_spatial_ops s2 h2).2.1 7 _
  refine ⟨s3, h3, rfl, ?_⟩
  intro l hl
  simp [s3, s2, s1, s0, System.listenerCommand, System.addSpatialSubTrack, System.addListener, System.withEnv,
    System.withMixer, System.new, SysEnv.empty] at hl
  subst hl
  exact ⟨rfl, rfl⟩

end K
