/-
  C19 — unit conversions and clock-time arithmetic: exact where promised, monotone.
  Property theorems only (helper lemmas live in Proofs/).  All statements are about the
  model of Units/Easing/ClockTime interpreted over ℝ.
-/
import KiraModel.Proofs.RealOps
import KiraModel.Proofs.ClockTimeLemmas
import KiraModel.Proofs.EasingLemmas
import KiraModel.Model.Units
import KiraModel.Model.Easing
import KiraModel.Model.ClockTime
import KiraModel.Proofs.GenAgree
import Mathlib.Tactic.Linarith
import Mathlib.Tactic.Ring
import Mathlib.Tactic.FieldSimp
import Mathlib.Tactic.Positivity
import Mathlib.Tactic.NormNum

namespace K
open Real

/-! ### decibels -/

/-- 0 dB is amplitude exactly 1. -/
theorem C19_amp_zero_db : asAmplitude (0 : ℝ) = 1 := by
  unfold asAmplitude; simp

/-- −60 dB or less is amplitude exactly 0. -/
theorem C19_amp_silence (db : ℝ) (h : db ≤ -60) : asAmplitude db = 0 := by
  unfold asAmplitude silenceDb
  have h0 : db ≠ 0 := by linarith
  simp [h0, h]

/-- otherwise it is 10^(dB/20). -/
theorem C19_amp_formula (db : ℝ) (h : -60 < db) : asAmplitude db = (10 : ℝ) ^ (db / 20) := by
  unfold asAmplitude silenceDb
  by_cases h0 : db = 0
  · subst h0; simp
  · have h1 : ¬ db ≤ -60 := not_le.mpr h
    simp [h0, h1]

/-- decibel-to-amplitude conversion is monotone (on all of ℝ, across both special cases). -/
theorem C19_amp_monotone (a b : ℝ) (hab : a ≤ b) : asAmplitude a ≤ asAmplitude b := by
  by_cases ha : a ≤ -60
  · rw [C19_amp_silence a ha]
    by_cases hb : b ≤ -60
    · rw [C19_amp_silence b hb]
    · rw [C19_amp_formula b (not_le.mp hb)]; positivity
  · have ha' := not_le.mp ha
    have hb' : -60 < b := lt_of_lt_of_le ha' hab
    rw [C19_amp_formula a ha', C19_amp_formula b hb']
    exact Real.rpow_le_rpow_of_exponent_le (by norm_num) (by linarith)

/-- the amplitude is in [0, ∞) and is at most 1 for non-positive decibels. -/
theorem C19_amp_range (db : ℝ) : 0 ≤ asAmplitude db ∧ (db ≤ 0 → asAmplitude db ≤ 1) := by
  constructor
  · by_cases h : db ≤ -60
    · rw [C19_amp_silence db h]
    · rw [C19_amp_formula db (not_le.mp h)]; positivity
  · intro h0
    have := C19_amp_monotone db 0 h0
    rwa [C19_amp_zero_db] at this

example : asAmplitude (-6 : ℝ) = (10 : ℝ) ^ ((-6 : ℝ) / 20) := C19_amp_formula _ (by norm_num)

/-! ### panning -/

/-- centre panning leaves the frame unchanged. -/
theorem C19_pan_centre (f : Frame ℝ) : f.panned 0 = f := by
  unfold Frame.panned; simp

/-- equal-power law: a centred signal keeps its total power at every pan position
    (the position is clamped to [-1, 1]). -/
theorem C19_pan_power (s p : ℝ) :
    ((Frame.mk s s).panned p).left ^ 2 + ((Frame.mk s s).panned p).right ^ 2 = s ^ 2 + s ^ 2 := by
  unfold Frame.panned
  by_cases hp : p = 0
  · simp [hp]
  · simp only [feq_real, lit_0, lit_1, lit_half, hp, decide_false, Bool.false_eq_true, if_false, r32_real,
      sqrt_real, sqrt2_real]
    have hc := clamp_mem p (-(1 : ℝ)) (1 : ℝ) (by norm_num)
    set c := clamp p (-(1 : ℝ)) (1 : ℝ) with hcdef
    have h1 : (0 : ℝ) ≤ (c + 1) * (1 / 2) := by
      have := hc.1; linarith
    have h2 : (0 : ℝ) ≤ 1 - (c + 1) * (1 / 2) := by
      have := hc.2; linarith
    have e1 := Real.sq_sqrt h1
    have e2 := Real.sq_sqrt h2
    have e3 : Real.sqrt 2 ^ 2 = 2 := Real.sq_sqrt (by norm_num)
    calc (s * Real.sqrt (1 - (c + 1) * (1 / 2)) * Real.sqrt 2) ^ 2
          + (s * Real.sqrt ((c + 1) * (1 / 2)) * Real.sqrt 2) ^ 2
        = s ^ 2 * (Real.sqrt (1 - (c + 1) * (1 / 2)) ^ 2 + Real.sqrt ((c + 1) * (1 / 2)) ^ 2)
            * Real.sqrt 2 ^ 2 := by ring
      _ = s ^ 2 * ((1 - (c + 1) * (1 / 2)) + (c + 1) * (1 / 2)) * 2 := by rw [e1, e2, e3]
      _ = s ^ 2 + s ^ 2 := by ring

/-- hard left / hard right: the far channel is silent. -/
theorem C19_pan_extremes (l r : ℝ) :
    ((Frame.mk l r).panned (-1)).right = 0 ∧ ((Frame.mk l r).panned 1).left = 0 := by
  unfold Frame.panned clamp
  constructor <;> norm_num

/-! ### semitones -/

/-- twelve semitones double the playback rate. -/
theorem C19_octave (s : ℝ) : semitonesToRate (s + 12) = 2 * semitonesToRate s := by
  unfold semitonesToRate
  simp only [pow_real]
  have : (s + 12) / (12.0 : ℝ) = s / (12.0 : ℝ) + 1 := by norm_num; ring
  rw [this]; simp only [lit_2, lit_12]
  rw [Real.rpow_add (by norm_num), Real.rpow_one]; ring

/-- zero semitones is rate 1. -/
theorem C19_semitones_zero : semitonesToRate (0 : ℝ) = 1 := by
  unfold semitonesToRate; simp

/-! ### clock speed -/

/-- the three clock-speed units convert consistently (non-zero speeds). -/
theorem C19_clock_speed_consistent (c : ClockSpeed ℝ)
    (h : match c with | .secondsPerTick v => v ≠ 0 | .ticksPerSecond v => v ≠ 0 | .ticksPerMinute v => v ≠ 0) :
    c.asTicksPerMinute = 60 * c.asTicksPerSecond ∧ c.asSecondsPerTick * c.asTicksPerSecond = 1 := by
  cases c with
  | secondsPerTick v =>
    simp only at h
    simp only [ClockSpeed.asTicksPerMinute, ClockSpeed.asTicksPerSecond, ClockSpeed.asSecondsPerTick,
      lit_1, lit_60]
    constructor
    · ring
    · field_simp
  | ticksPerSecond v =>
    simp only at h
    simp only [ClockSpeed.asTicksPerMinute, ClockSpeed.asTicksPerSecond, ClockSpeed.asSecondsPerTick,
      lit_1, lit_60]
    constructor
    · ring
    · field_simp
  | ticksPerMinute v =>
    simp only at h
    simp only [ClockSpeed.asTicksPerMinute, ClockSpeed.asTicksPerSecond, ClockSpeed.asSecondsPerTick,
      lit_1, lit_60]
    constructor
    · ring
    · field_simp

/-! ### clock-time arithmetic (`val t = ticks + fraction`, `WF t` = fraction ∈ [0,1)) -/

open ClockTime in
/-- `+` and `-` keep the fraction in [0, 1), for every finite amount of either sign. -/
theorem C19_clocktime_fraction (t : ClockTime ℝ) (x : ℝ) (ht : WF t) :
    WF (addF64 t x) ∧ WF (subF64 t x) := by
  unfold addF64 subF64
  rw [signNeg_real]
  by_cases hx : x < 0
  · simp only [hx, decide_true, if_true]
    exact ⟨(subPos_spec t (-x) ht (by linarith)).1, (addPos_spec t (-x) ht (by linarith)).2⟩
  · simp only [hx, decide_false, Bool.false_eq_true, if_false]
    exact ⟨(addPos_spec t x ht (not_lt.mp hx)).2, (subPos_spec t x ht (not_lt.mp hx)).1⟩

open ClockTime in
/-- `t + x` denotes `val t + x` (when that is not negative) and `t - x` denotes `val t - x`. -/
theorem C19_clocktime_value (t : ClockTime ℝ) (x : ℝ) (ht : WF t) :
    (0 ≤ val t + x → val (addF64 t x) = val t + x) ∧ (0 ≤ val t - x → val (subF64 t x) = val t - x) := by
  unfold addF64 subF64
  rw [signNeg_real]
  by_cases hx : x < 0
  · simp only [hx, decide_true, if_true]
    refine ⟨fun h => ?_, fun _ => ?_⟩
    · rw [(subPos_spec t (-x) ht (by linarith)).2.1 (by linarith)]; ring
    · rw [(addPos_spec t (-x) ht (by linarith)).1]; ring
  · simp only [hx, decide_false, Bool.false_eq_true, if_false]
    refine ⟨fun _ => (addPos_spec t x ht (not_lt.mp hx)).1, fun h => ?_⟩
    exact (subPos_spec t x ht (not_lt.mp hx)).2.1 (by linarith)

open ClockTime in
/-- adding and then subtracting an amount returns the original time. -/
theorem C19_clocktime_add_sub (t : ClockTime ℝ) (x : ℝ) (ht : WF t) (hx : 0 ≤ x) :
    val (subF64 (addF64 t x) x) = val t := by
  have h1 := (C19_clocktime_value t x ht).1 (by have := ht.1; unfold val; positivity)
  have hw := (C19_clocktime_fraction t x ht).1
  have h2 := (C19_clocktime_value (addF64 t x) x hw).2 (by rw [h1]; have := ht.1; unfold val; simp; positivity)
  rw [h2, h1]; ring

open ClockTime in
/-- the compound assignments `t += x`, `t -= x` are the binary operators (so they keep the fraction in [0, 1) and
    `t += x; t -= x` returns the original time); `t += n`, `t -= n` (whole ticks) leave the fraction alone. -/
theorem C19_clocktime_assign (t : ClockTime ℝ) (x : ℝ) (n : Nat) (ht : WF t) :
    addAssignF64 t x = addF64 t x ∧ subAssignF64 t x = subF64 t x
      ∧ WF (addAssignF64 t x) ∧ WF (subAssignF64 t x)
      ∧ (0 ≤ x → val (subAssignF64 (addAssignF64 t x) x) = val t)
      ∧ addAssignU64 t n = addU64 t n ∧ subAssignU64 t n = subU64 t n ∧ WF (addAssignU64 t n) :=
  ⟨rfl, rfl, (C19_clocktime_fraction t x ht).1, (C19_clocktime_fraction t x ht).2,
   fun hx => C19_clocktime_add_sub t x ht hx, rfl, rfl, ht⟩

open ClockTime in
/-- subtraction never wraps below zero: subtracting more than the time saturates the ticks at 0. -/
theorem C19_clocktime_no_wrap (t : ClockTime ℝ) (x : ℝ) (ht : WF t) (hx : val t < x) :
    (subF64 t x).ticks = 0 := by
  have hv : 0 ≤ val t := by have := ht.1; unfold val; positivity
  have hx0 : ¬ x < 0 := by linarith
  unfold subF64
  rw [signNeg_real]
  simp only [hx0, decide_false, Bool.false_eq_true, if_false]
  exact (subPos_spec t x ht (by linarith)).2.2 hx

open ClockTime in
/-- ordering agrees with `ticks + fraction`. -/
theorem C19_clocktime_order (a b : ClockTime ℝ) (ha : WF a) (hb : WF b) :
    (ClockTime.cmp a b = 0 ↔ val a < val b) ∧ (ClockTime.cmp a b = 1 ↔ val a = val b) ∧ (ClockTime.cmp a b = 2 ↔ val b < val a)
      ∧ ClockTime.cmp a b ≠ 3 := by
  obtain ⟨ha0, ha1⟩ := ha
  obtain ⟨hb0, hb1⟩ := hb
  unfold ClockTime.cmp val
  rcases lt_trichotomy a.ticks b.ticks with h | h | h
  · have h' : (a.ticks : ℝ) + 1 ≤ b.ticks := by exact_mod_cast h
    simp only [h, if_true]
    refine ⟨⟨fun _ => by linarith, fun _ => trivial⟩, ⟨fun h => by omega, fun e => by linarith⟩,
      ⟨fun h => by omega, fun e => by linarith⟩, by omega⟩
  · have h' : (a.ticks : ℝ) = b.ticks := by exact_mod_cast h
    simp only [h, lt_irrefl, if_false, feq_real]
    rcases lt_trichotomy a.fraction b.fraction with g | g | g
    · simp only [g, if_true]
      exact ⟨⟨fun _ => by linarith, fun _ => trivial⟩, ⟨fun h => by omega, fun e => by linarith⟩,
        ⟨fun h => by omega, fun e => by linarith⟩, by omega⟩
    · simp [g, h']
    · have ng : ¬ a.fraction < b.fraction := by linarith
      simp only [ng, g, if_true, if_false]
      exact ⟨⟨fun h => by omega, fun e => by linarith⟩, ⟨fun h => by omega, fun e => by linarith⟩,
        ⟨fun _ => by linarith, fun _ => trivial⟩, by omega⟩
  · have h' : (b.ticks : ℝ) + 1 ≤ a.ticks := by exact_mod_cast h
    have nh : ¬ a.ticks < b.ticks := by omega
    simp only [nh, h, if_true, if_false]
    exact ⟨⟨fun h => by omega, fun e => by linarith⟩, ⟨fun h => by omega, fun e => by linarith⟩,
      ⟨fun _ => by linarith, fun _ => trivial⟩, by omega⟩

example : ClockTime.WF (⟨3, 1 / 2⟩ : ClockTime ℝ) := by unfold ClockTime.WF; norm_num

/-! ### easings and mappings -/

/-- every built-in easing with a positive power maps 0 to 0 and 1 to 1. -/
theorem C19_easing_endpoints (e : Easing ℝ) (he : e.PosPower) : e.apply 0 = 0 ∧ e.apply 1 = 1 :=
  Easing.endpoints e he

/-- … and is monotone on [0, 1]. -/
theorem C19_easing_monotone (e : Easing ℝ) (he : e.PosPower) (x y : ℝ) (hx : 0 ≤ x) (hxy : x ≤ y)
    (hy : y ≤ 1) : e.apply x ≤ e.apply y :=
  Easing.mono e he x y hx hxy hy

example : (Easing.inOutPowf (3 / 2 : ℝ)).PosPower := by unfold Easing.PosPower; norm_num
example : (Easing.outPowi 3 : Easing ℝ).PosPower := by unfold Easing.PosPower; norm_num

/-- a mapping clamps its input to the input range: inputs at or beyond either end of the range
    give exactly the corresponding end of the output range, and every output lies between
    the two ends of the output range. -/
theorem C19_mapping_clamps (m : Mapping ℝ ℝ) (he : m.easing.PosPower) (hin : m.in0 < m.in1) (x : ℝ) :
    (x ≤ m.in0 → m.map64 x = m.out0) ∧ (m.in1 ≤ x → m.map64 x = m.out1)
      ∧ min m.out0 m.out1 ≤ m.map64 x ∧ m.map64 x ≤ max m.out0 m.out1 := by
  have hd : 0 < m.in1 - m.in0 := by linarith
  unfold Mapping.map64 Mapping.map Mapping.amount tw64 lerp64
  simp only [lit_0, lit_1]
  have hc := clamp_mem ((x - m.in0) / (m.in1 - m.in0)) 0 1 (by norm_num)
  refine ⟨fun hx => ?_, fun hx => ?_, ?_, ?_⟩
  · have : clamp ((x - m.in0) / (m.in1 - m.in0)) 0 1 = 0 := by
      have hq : (x - m.in0) / (m.in1 - m.in0) ≤ 0 := div_nonpos_of_nonpos_of_nonneg (by linarith) hd.le
      rw [clamp_real _ _ _ (by norm_num), min_eq_left (by linarith), max_eq_left hq]
    rw [this, (Easing.endpoints _ he).1]; ring
  · have : clamp ((x - m.in0) / (m.in1 - m.in0)) 0 1 = 1 := by
      have hq : 1 ≤ (x - m.in0) / (m.in1 - m.in0) := by rw [le_div_iff₀ hd]; linarith
      rw [clamp_real _ _ _ (by norm_num), min_eq_right hq, max_eq_right (by norm_num)]
    rw [this, (Easing.endpoints _ he).2]; ring
  · have hr := Easing.range _ he _ hc.1 hc.2
    set a := m.easing.apply (clamp ((x - m.in0) / (m.in1 - m.in0)) 0 1)
    rcases le_total m.out0 m.out1 with h | h
    · rw [min_eq_left h]; nlinarith [hr.1, hr.2]
    · rw [min_eq_right h]; nlinarith [hr.1, hr.2]
  · have hr := Easing.range _ he _ hc.1 hc.2
    set a := m.easing.apply (clamp ((x - m.in0) / (m.in1 - m.in0)) 0 1)
    rcases le_total m.out0 m.out1 with h | h
    · rw [max_eq_right h]; nlinarith [hr.1, hr.2]
    · rw [max_eq_left h]; nlinarith [hr.1, hr.2]

end K
